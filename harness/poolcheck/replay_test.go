// Package poolcheck executes schedules on the real, instrumented connection
// pool (internal/smtpconn/pool) under harness/vsched with instrumented
// connection objects, and records API-level events (property C19; event
// vocabulary in spec/PoolObs.tla).
//
// Input (VERIF_IN): {"id":N,"cfg":{close,workers,keys,maxPerKey,maxKeys,life,
// stale,period,maxTime,ops:{w:[[op,arg]..]}},"pol":"list|db|rand","sched":[..],
// "delays":[..],"seed":S,"selrot":K}. Output (VERIF_OUT): NDJSON events.
//
// A "get" op may carry the state of the caller's context as third element
// (Ctxs of spec/Pool.tla): "dead" (cancelled, or - harness-only spelling the
// model is independent of, chosen by the parity of the behaviour id - past its
// deadline, before the call), "probe" (cancelled by the first Usable() probe of
// this Get: the caller gave up during the round trip), "nonew" (live, but a new
// connection cannot be established). cfg.New honours the context as a dialer
// does. A Get that returns an error is logged as GetFail: the worker holds nothing.
package poolcheck

import (
	"bufio"
	"context"
	"encoding/json"
	"fmt"
	"math/rand"
	"os"
	"sort"
	"strings"
	"testing"
	"testing/synctest"
	"time"

	"github.com/foxcpp/maddy/internal/smtpconn/pool"
	"github.com/foxcpp/maddy/verifharness/vsched"
	"github.com/foxcpp/maddy/verifharness/vtrace"
)

type Cfg struct {
	Close     bool                  `json:"close"`
	Workers   []string              `json:"workers"`
	Keys      []string              `json:"keys"`
	MaxPerKey int                   `json:"maxPerKey"`
	MaxKeys   int                   `json:"maxKeys"`
	Life      int                   `json:"life"`
	Stale     int                   `json:"stale"`
	Period    int                   `json:"period"`
	MaxTime   int                   `json:"maxTime"`
	Ops       map[string][][]string `json:"ops"`
}

type Behaviour struct {
	ID     int      `json:"id"`
	Cfg    Cfg      `json:"cfg"`
	Pol    string   `json:"pol"`
	Sched  []string `json:"sched"`
	Delays []int    `json:"delays"`
	Seed   int64    `json:"seed"`
	SelRot int      `json:"selrot"`
}

type conn struct {
	id     string
	r      *run
	closes int
	last   time.Time
	usable bool
	fresh  bool
	holder string
	pooled bool // its Return has completed and it has not been handed out since
}

func (c *conn) Usable() bool {
	// the probe takes a round trip: a caller with a "probe" context gives up meanwhile
	if g := vsched.Current(); g != nil {
		if cancel := c.r.probe[g.Name]; cancel != nil {
			delete(c.r.probe, g.Name)
			cancel()
		}
	}
	return c.usable && c.closes == 0
}
func (c *conn) LastUseAt() time.Time { return c.last }
func (c *conn) Close() error {
	by := false
	if g := vsched.Current(); g != nil && c.holder != "" && g.Name == c.holder {
		by = true
	}
	c.closes++
	c.r.tr.Emit("ConnClose", vtrace.Ev{"c": c.id, "byHolder": by, "n": c.closes})
	return nil
}

type run struct {
	t        *testing.T
	b        Behaviour
	s        *vsched.Sched
	tr       *vtrace.Tracer
	t0       time.Time
	unit     time.Duration
	rng      *rand.Rand
	pref     string
	selCalls int
	steps    int
	maxStep  int
	p        *pool.P
	conns    []*conn
	nAsync   int
	probe    map[string]context.CancelFunc // worker inside Get -> cancel of its context, pulled by the first Usable()
	noNew    map[string]bool               // worker inside Get -> the dial fails
}

func (r *run) now() int { return int(time.Since(r.t0) / r.unit) }

var errDial = fmt.Errorf("dial: connection refused")

func (r *run) newConn(ctx context.Context, key string) (pool.Conn, error) {
	// what a dialer does with the caller's context
	if err := ctx.Err(); err != nil {
		return nil, err
	}
	if g := vsched.Current(); g != nil && r.noNew[g.Name] {
		return nil, errDial
	}
	c := &conn{id: fmt.Sprintf("c%d", len(r.conns)+1), r: r, last: time.Now(), usable: true, fresh: true}
	r.conns = append(r.conns, c)
	return c, nil
}

func (r *run) worker(w string, ops [][]string) func() {
	return func() {
		var held *conn
		heldKey := ""
		for i, op := range ops {
			// an op that does not apply (nothing to return after a Get that failed) is no step at all
			if (op[0] == "get") == (held != nil) {
				continue
			}
			if i > 0 {
				vsched.Yield("op")
			}
			switch op[0] {
			case "get":
				if held != nil {
					continue
				}
				cx := "live"
				if len(op) > 2 && op[2] != "" {
					cx = op[2]
				}
				ctx, cancel := context.WithCancel(context.Background())
				how := ""
				switch cx {
				case "dead":
					if r.b.ID%2 == 0 {
						cancel()
						how = "cancelled"
					} else {
						cancel()
						ctx, cancel = context.WithDeadline(context.Background(), time.Now().Add(-time.Second))
						how = "deadline"
					}
				case "probe":
					r.probe[w] = cancel
				case "nonew":
					r.noNew[w] = true
				}
				r.tr.Emit("GetCall", vtrace.Ev{"w": w, "key": op[1], "now": r.now(), "cx": cx, "how": how})
				pc, err := r.p.Get(ctx, op[1])
				delete(r.probe, w)
				delete(r.noNew, w)
				cancel()
				if err != nil || pc == nil {
					// no connection: the delivery fails, the worker holds nothing
					r.tr.Emit("GetFail", vtrace.Ev{"w": w, "now": r.now(), "err": fmt.Sprint(err)})
					continue
				}
				c := pc.(*conn)
				fresh := c.fresh
				c.fresh = false
				// use-after-close is visible as HandedOutClosed; the delivery uses the connection now
				c.holder, c.last, c.pooled = w, time.Now(), false
				held, heldKey = c, op[1]
				r.tr.Emit("GetReturn", vtrace.Ev{"w": w, "c": c.id, "fresh": fresh, "now": r.now(), "closedBefore": c.closes})
			case "ret":
				if held == nil {
					continue
				}
				held.holder = ""
				r.tr.Emit("ReturnCall", vtrace.Ev{"w": w, "c": held.id, "now": r.now()})
				r.p.Return(heldKey, held)
				held.pooled = true
				r.tr.Emit("ReturnReturn", vtrace.Ev{"w": w})
				held = nil
			case "drop":
				if held == nil {
					continue
				}
				held.Close()
				held.holder = ""
				held = nil
			}
		}
	}
}

func (r *run) setup() {
	c := r.b.Cfg
	r.unit = time.Minute / time.Duration(c.Period) // the clean-up ticker of pool.go is one minute
	r.s = vsched.New()
	r.s.OnSpawn = func(g *vsched.G) {
		if g.ID != 0 && g.Name[0] != 'a' {
			return
		}
		if g.ID == 0 {
			g.Name = "sweeper"
			return
		}
		r.nAsync++
		g.Name = fmt.Sprintf("x?%d", r.nAsync)
	}
	r.s.OnPanic = func(g *vsched.G, v interface{}, stack string) {
		r.tr.Emit("Panic", vtrace.Ev{"g": g.Name, "msg": fmt.Sprint(v)})
	}
	r.s.SelOrder = func(g *vsched.G, n int) []int {
		o := make([]int, n)
		rot := r.b.SelRot
		if r.pref == "S" {
			rot = n - 1
		} else if r.b.Pol == "rand" {
			rot = r.rng.Intn(n)
		} else {
			r.selCalls++
			rot += r.selCalls
		}
		for i := range o {
			o[i] = (i + rot) % n
		}
		return o
	}
	r.p = pool.New(pool.Config{
		New:                 r.newConn,
		MaxKeys:             c.MaxKeys,
		MaxConnsPerKey:      c.MaxPerKey,
		MaxConnLifetimeSec:  int64(time.Duration(c.Life) * r.unit / time.Second),
		StaleKeyLifetimeSec: int64(time.Duration(c.Stale) * r.unit / time.Second),
	})
	r.s.Settle()
	ws := append([]string{}, c.Workers...)
	sort.Strings(ws)
	for _, w := range ws {
		r.s.Spawn(w, r.worker(w, c.Ops[w]))
	}
	if c.Close {
		r.s.Spawn("closer", func() {
			r.tr.Emit("PoolCloseCall", nil)
			r.p.Close()
			r.tr.Emit("PoolCloseReturn", nil)
		})
	}
}

func (r *run) clock() {
	r.s.Sleep(r.unit)
	r.tr.Emit("Clock", vtrace.Ev{"now": r.now()})
}

func (r *run) doBreak(id string) {
	var idle []*conn
	for _, c := range r.conns {
		if c.pooled && c.holder == "" && c.closes == 0 && c.usable {
			idle = append(idle, c)
		}
	}
	for _, c := range idle {
		if id == "" || c.id == id {
			c.usable = false
			r.tr.Emit("Break", vtrace.Ev{"c": c.id})
			return
		}
	}
}

func (r *run) stepG(g *vsched.G) bool {
	if g.State() != vsched.Parked {
		return false
	}
	k, n := "x", ""
	switch {
	case g.Name == "sweeper":
		k = "s"
	case g.Name == "closer":
		k = "c"
	case strings.HasPrefix(g.Name, "w"):
		k, n = "w", g.Name
	}
	r.tr.Emit("Step", vtrace.Ev{"k": k, "n": n, "at": g.Kind()})
	return r.s.Step(g)
}

type task struct {
	g     *vsched.G
	clock bool
}

func (r *run) tasks() []task {
	var out []task
	for _, g := range r.s.Runnable() {
		out = append(out, task{g: g})
	}
	if r.now() < r.b.Cfg.MaxTime {
		out = append(out, task{clock: true})
	}
	return out
}

func key(t task) int {
	if t.clock {
		return 1 << 30
	}
	return t.g.ID
}

func (r *run) find(name string) *vsched.G {
	if g := r.s.ByName(name); g != nil {
		return g
	}
	if strings.HasPrefix(name, "x") { // an asynchronous conn.Close()
		for _, g := range r.s.Runnable() {
			if strings.HasPrefix(g.Name, "x?") {
				return g
			}
		}
	}
	return nil
}

func (r *run) loop() {
	b := r.b
	for _, ent := range b.Sched {
		name, pref := ent, ""
		if i := strings.Index(ent, "/"); i >= 0 {
			name, pref = ent[:i], ent[i+1:]
		}
		if i := strings.Index(name, ":"); i >= 0 && !strings.HasPrefix(name, "break") {
			name = name[:i]
		}
		r.pref = pref
		switch {
		case name == "clock":
			if r.now() < b.Cfg.MaxTime {
				r.steps++
				r.clock()
			}
		case strings.HasPrefix(name, "break"):
			r.doBreak(strings.TrimPrefix(name, "break:"))
		default:
			if g := r.find(name); g != nil && r.stepG(g) {
				r.steps++
			}
		}
		r.pref = ""
	}
	delay := map[int]bool{}
	for _, d := range b.Delays {
		delay[d] = true
	}
	cur, spin, n := -1, 0, 0
	broke := false
	for r.steps < r.maxStep {
		ts := r.tasks()
		if len(ts) == 0 {
			return
		}
		var pick task
		if b.Pol == "rand" {
			if !broke && r.rng.Intn(12) == 0 {
				broke = true
				r.doBreak("")
			}
			pick = ts[r.rng.Intn(len(ts))]
		} else {
			i := 0
			for i < len(ts) && key(ts[i]) < cur {
				i++
			}
			if i == len(ts) {
				i = 0
			}
			if delay[n] {
				i = (i + 1) % len(ts)
			}
			pick = ts[i]
		}
		n++
		cur = key(pick)
		r.steps++
		if pick.clock {
			r.clock()
			continue
		}
		r.stepG(pick.g)
		if pick.g.State() == vsched.Parked && pick.g.Kind() == "lockwait" {
			spin++
			cur++
			if spin > 4*len(ts)+8 {
				return
			}
		} else {
			spin = 0
		}
	}
}

func runBehaviour(t *testing.T, b Behaviour, w *bufio.Writer) {
	synctest.Test(t, func(t *testing.T) {
		r := &run{t: t, b: b, t0: time.Now(), rng: rand.New(rand.NewSource(b.Seed)), maxStep: 3000,
			probe: map[string]context.CancelFunc{}, noNew: map[string]bool{}}
		r.tr = vtrace.New(w, b.ID)
		c := b.Cfg
		r.tr.Emit("Cfg", vtrace.Ev{"close": c.Close, "workers": append([]string{}, c.Workers...), "keys": c.Keys,
			"maxPerKey": c.MaxPerKey, "maxKeys": c.MaxKeys, "life": c.Life, "stale": c.Stale, "period": c.Period,
			"maxTime": c.MaxTime})
		r.setup()
		r.loop()
		r.s.Settle()
		hung := []string{}
		for _, g := range r.s.Unfinished() {
			if g.Name != "sweeper" {
				hung = append(hung, g.Name)
			}
		}
		sort.Strings(hung)
		open := []string{}
		for _, cn := range r.conns {
			if cn.closes == 0 {
				open = append(open, cn.id)
			}
		}
		r.tr.Emit("End", vtrace.Ev{"hung": hung, "now": r.now(), "open": open, "steps": r.steps,
			"state": append([]string{}, r.s.Describe()...), "budget": r.steps >= r.maxStep})
		if stuck := r.s.Shutdown(); len(stuck) > 0 {
			// blocked in code the scheduler cannot abort: the bubble can never end. The trace
			// is complete (End lists the hung calls); the driver restarts us on the rest.
			w.Flush()
			fmt.Fprintf(os.Stderr, "behaviour %d: goroutines that cannot be freed: %v\n", b.ID, stuck)
			os.Exit(3)
		}
	})
}

func TestReplay(t *testing.T) {
	in, out := os.Getenv("VERIF_IN"), os.Getenv("VERIF_OUT")
	if in == "" || out == "" {
		t.Skip("VERIF_IN / VERIF_OUT not set")
	}
	f, err := os.Open(in)
	if err != nil {
		t.Fatal(err)
	}
	defer f.Close()
	of, err := os.Create(out)
	if err != nil {
		t.Fatal(err)
	}
	defer of.Close()
	w := bufio.NewWriter(of)
	defer w.Flush()
	sc := bufio.NewScanner(f)
	sc.Buffer(make([]byte, 1<<20), 1<<26)
	n := 0
	for sc.Scan() {
		var b Behaviour
		if err := json.Unmarshal(sc.Bytes(), &b); err != nil {
			t.Fatalf("bad behaviour line: %v", err)
		}
		runBehaviour(t, b, w)
		n++
	}
	t.Logf("replayed %d behaviours", n)
}
