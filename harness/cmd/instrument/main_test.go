package main

import (
	"go/parser"
	"go/token"
	"strings"
	"testing"
)

const src = `package x

import (
	"sync"
	"sync/atomic"
)

type T struct {
	mu   sync.Mutex
	wg   sync.WaitGroup
	ch   chan int
	stop chan struct{}
	m    map[string]int
	n    uint32
}

func (t *T) f(v int) int {
	if atomic.LoadUint32(&t.n) == 1 {
		return 0
	}
	t.mu.Lock()
	t.ch <- 1 // inside the critical section, can block: a scheduling point
	select { // cannot block: stays native
	case t.ch <- 5:
	default:
	}
	t.mu.Unlock()
	t.ch <- v
	x, ok := <-t.ch
	_ = ok
	go t.g(x)
	t.wg.Add(1)
	go func() { defer t.wg.Done(); <-t.stop }()
	t.wg.Wait()
L:
	for {
		select {
		case y := <-t.ch:
			if y == 0 {
				continue
			}
			break L
		case t.ch <- 2:
		case <-t.stop:
			return 1
		}
	}
	t.mu.Lock()
	defer t.mu.Unlock()
	for k, w := range t.m {
		delete(t.m, k)
		x += w
	}
	close(t.ch)
	return x
}

func (t *T) g(int) {}
`

func TestInstrument(t *testing.T) {
	out, n, err := Instrument("x.go", []byte(src))
	if err != nil {
		t.Fatal(err)
	}
	s := string(out)
	if _, err := parser.ParseFile(token.NewFileSet(), "x.go", out, 0); err != nil {
		t.Fatalf("does not parse: %v\n%s", err, s)
	}
	for _, want := range []string{
		`vsched.Yield("atomic")`, `vsched.Yield("lock")`, `t.mu.TryLock()`, "vsched.Send(t.ch, 1)", "case t.ch <- 5:",
		"vsched.Send(t.ch, v)", "vsched.Recv2(t.ch)", "vsched.Go(func()", "vsched.WgWait(t.wg.Wait, t.wg.Done)",
		"vsched.NewSelect(false)", "vsched.RecvCase(", "vsched.SendCase(", "vsched.Recv(t.stop)",
		"vsched.SortedKeys(t.m)", `vsched.Yield("wg")`, "break L",
	} {
		if !strings.Contains(s, want) {
			t.Errorf("missing %q in\n%s", want, s)
		}
	}
	// the close() at the end is inside the second critical section: no yield before it
	if strings.Contains(s, `vsched.Yield("close")`) {
		t.Errorf("yield inside a critical section:\n%s", s)
	}
	if n == 0 {
		t.Error("no scheduling points counted")
	}
}
