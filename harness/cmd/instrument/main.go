// Command instrument rewrites Go source files so that every synchronisation
// operation becomes a scheduling point of harness/vsched, and writes the
// rewritten copies plus an overlay.json for `go build -overlay`.
//
//	instrument -repo /repo -out <dir> internal/target/queue/timewheel.go ...
//
// The copies are generated from the CURRENT files under -repo, so whatever
// synchronisation an edited file contains is instrumented as well.
//
// Rewrites. Between X.Lock() and the matching X.Unlock() (or to the end of the
// function after `defer X.Unlock()`) only operations that can BLOCK become
// scheduling points - plain sends and receives, select without default,
// WaitGroup.Wait: a goroutine parked there holds the mutex, everybody else
// spins in the TryLock loop below (= is blocked on the mutex) while lock-free
// code of other goroutines may run. Everything else in a critical section
// (close, atomics, select with default, range over a channel) stays atomic.
//
//	ch <- v                 vsched.Send(ch, v)
//	<-ch, v, ok := <-ch     vsched.Recv(ch), vsched.Recv2(ch)
//	select {...}            switch on vsched.(*Sel).Do() (cases tried in a
//	                        controller-chosen order, never Go's random pick)
//	X.Lock()                vsched.Yield("lock"); for !X.TryLock() { vsched.Yield("lockwait") }
//	X.Wait() (WaitGroup)    vsched.WgWait(X.Wait, X.Done)
//	go f(a)                 _f, _a := f, a; vsched.Go(func() { _f(_a) })   (also inside critical sections)
//	close(ch), atomic.*, X.Add/Done/Load/Store/...: vsched.Yield(kind) before the statement
//	for ... range ch        vsched.Yield("range") at the top of the body
package main

import (
	"bytes"
	"encoding/json"
	"flag"
	"fmt"
	"go/ast"
	"go/format"
	"go/parser"
	"go/printer"
	"go/token"
	"go/types"
	"os"
	"path/filepath"
	"reflect"
	"strconv"
	"strings"
)

const vsPath = "github.com/foxcpp/maddy/verifharness/vsched"

type inst struct {
	fset    *token.FileSet
	n       int
	changed bool
	yields  int
	chans   map[string]bool // expression texts known to be channels
	wgs     map[string]bool // expression texts known to be WaitGroups
	info    *types.Info     // best-effort type information (may be nil / partial)
}

// stubImporter makes every import an empty package: type checking then fails
// for imported identifiers (errors are ignored) but still resolves the
// package's own declarations, which is enough to recognise maps and channels
// held in local variables and struct fields.
type stubImporter struct{}

func (stubImporter) Import(path string) (*types.Package, error) {
	name := path
	if i := strings.LastIndex(path, "/"); i >= 0 {
		name = path[i+1:]
	}
	p := types.NewPackage(path, name)
	p.MarkComplete()
	return p, nil
}

// typeInfo type-checks the package of file f (all non-test files of its directory).
func typeInfo(fset *token.FileSet, name string, f *ast.File) *types.Info {
	files := []*ast.File{f}
	dir := filepath.Dir(name)
	ents, _ := os.ReadDir(dir)
	for _, e := range ents {
		n := e.Name()
		if !strings.HasSuffix(n, ".go") || strings.HasSuffix(n, "_test.go") || filepath.Join(dir, n) == name {
			continue
		}
		if g, err := parser.ParseFile(fset, filepath.Join(dir, n), nil, parser.SkipObjectResolution); err == nil && g.Name.Name == f.Name.Name {
			files = append(files, g)
		}
	}
	info := &types.Info{Types: map[ast.Expr]types.TypeAndValue{}}
	conf := types.Config{Importer: stubImporter{}, Error: func(error) {}, FakeImportC: true}
	defer func() { recover() }()
	conf.Check(f.Name.Name, fset, files, info)
	return info
}

// mapRange reports whether x ranges over a map with an ordered basic key type.
func (in *inst) mapRange(x *ast.RangeStmt) bool {
	if in.info == nil || x.Key == nil {
		return false
	}
	switch x.X.(type) { // re-evaluated in the rewritten loop: only side-effect free operands
	case *ast.Ident, *ast.SelectorExpr:
	default:
		return false
	}
	tv, ok := in.info.Types[x.X]
	if !ok || tv.Type == nil {
		return false
	}
	m, ok := tv.Type.Underlying().(*types.Map)
	if !ok {
		return false
	}
	b, ok := m.Key().Underlying().(*types.Basic)
	return ok && b.Info()&(types.IsString|types.IsInteger|types.IsFloat) != 0
}

func blank(e ast.Expr) bool {
	if e == nil {
		return true
	}
	i, ok := e.(*ast.Ident)
	return ok && i.Name == "_"
}

// sortMapRange turns `for k, v := range m { body }` into an iteration over the
// sorted key snapshot that skips keys deleted meanwhile (as Go's own iteration does).
func (in *inst) sortMapRange(x *ast.RangeStmt) {
	in.changed = true
	in.n++
	kv := id(fmt.Sprintf("_vsk%d", in.n))
	okv := id(fmt.Sprintf("_vsok%d", in.n))
	var head []ast.Stmt
	if !blank(x.Key) {
		head = append(head, &ast.AssignStmt{Lhs: []ast.Expr{x.Key}, Tok: x.Tok, Rhs: []ast.Expr{kv}})
	}
	val := x.Value
	if blank(val) {
		val = id("_")
	}
	head = append(head,
		&ast.AssignStmt{Lhs: []ast.Expr{val, okv}, Tok: token.DEFINE, Rhs: []ast.Expr{&ast.IndexExpr{X: x.X, Index: kv}}},
		&ast.IfStmt{Cond: &ast.UnaryExpr{Op: token.NOT, X: okv}, Body: &ast.BlockStmt{List: []ast.Stmt{&ast.BranchStmt{Tok: token.CONTINUE}}}})
	if x.Tok == token.ASSIGN && !blank(x.Value) {
		// `for k, v = range m`: keep assigning to the existing variable
		tmp := id(fmt.Sprintf("_vsv%d", in.n))
		head[len(head)-2] = &ast.AssignStmt{Lhs: []ast.Expr{tmp, okv}, Tok: token.DEFINE, Rhs: []ast.Expr{&ast.IndexExpr{X: x.X, Index: kv}}}
		head = append(head, &ast.AssignStmt{Lhs: []ast.Expr{x.Value}, Tok: token.ASSIGN, Rhs: []ast.Expr{tmp}})
	}
	x.Body.List = append(head, x.Body.List...)
	x.X = vs("SortedKeys", x.X)
	x.Key, x.Value, x.Tok = id("_"), kv, token.DEFINE
}

func (in *inst) text(e ast.Expr) string {
	var b bytes.Buffer
	printer.Fprint(&b, in.fset, e)
	return b.String()
}

func id(s string) *ast.Ident { return ast.NewIdent(s) }

func vs(name string, args ...ast.Expr) *ast.CallExpr {
	return &ast.CallExpr{Fun: &ast.SelectorExpr{X: id("vsched"), Sel: id(name)}, Args: args}
}

func str(s string) ast.Expr { return &ast.BasicLit{Kind: token.STRING, Value: strconv.Quote(s)} }

func (in *inst) yield(kind string) ast.Stmt {
	in.changed = true
	in.yields++
	return &ast.ExprStmt{X: vs("Yield", str(kind))}
}

// methodCall returns receiver and method name of a call X.M(...)
func methodCall(e ast.Expr) (ast.Expr, string, *ast.CallExpr) {
	c, ok := e.(*ast.CallExpr)
	if !ok {
		return nil, "", nil
	}
	s, ok := c.Fun.(*ast.SelectorExpr)
	if !ok {
		return nil, "", c
	}
	return s.X, s.Sel.Name, c
}

func isRecv(e ast.Expr) (*ast.UnaryExpr, bool) {
	for {
		p, ok := e.(*ast.ParenExpr)
		if !ok {
			break
		}
		e = p.X
	}
	u, ok := e.(*ast.UnaryExpr)
	return u, ok && u.Op == token.ARROW
}

// collect facts used by the heuristics (which expressions are channels / WaitGroups)
func (in *inst) scan(f *ast.File) {
	ast.Inspect(f, func(n ast.Node) bool {
		switch x := n.(type) {
		case *ast.SendStmt:
			in.chans[in.text(x.Chan)] = true
		case *ast.UnaryExpr:
			if x.Op == token.ARROW {
				in.chans[in.text(x.X)] = true
			}
		case *ast.CallExpr:
			if f, ok := x.Fun.(*ast.Ident); ok && f.Name == "close" && len(x.Args) == 1 {
				in.chans[in.text(x.Args[0])] = true
			}
			if recv, m, _ := methodCall(x); recv != nil && m == "Done" && len(x.Args) == 0 {
				in.wgs[in.text(recv)] = true
			}
		}
		return true
	})
}

// syncKind reports whether the expression (not descending into function
// literals) contains an operation that deserves a yield before the statement.
func (in *inst) syncKind(n ast.Node) string {
	kind := ""
	if n == nil || reflect.ValueOf(n).IsNil() {
		return ""
	}
	ast.Inspect(n, func(n ast.Node) bool {
		if kind != "" {
			return false
		}
		switch x := n.(type) {
		case *ast.FuncLit:
			return false
		case *ast.CallExpr:
			if f, ok := x.Fun.(*ast.Ident); ok && f.Name == "close" && len(x.Args) == 1 {
				kind = "close"
				return false
			}
			recv, m, _ := methodCall(x)
			if recv != nil {
				if p, ok := recv.(*ast.Ident); ok && p.Name == "atomic" {
					kind = "atomic"
					return false
				}
				switch m {
				case "Done":
					if len(x.Args) == 0 {
						kind = "wg"
					}
				case "Add":
					if len(x.Args) == 1 && in.wgs[in.text(recv)] {
						kind = "wg"
					}
				case "Load", "Store", "Swap", "CompareAndSwap":
					kind = "atomic"
				}
			}
		}
		return kind == ""
	})
	return kind
}

// rewriteRecvs replaces every `<-ch` inside the expression tree rooted at the
// fields of node n (not descending into function literals or nested blocks).
func (in *inst) rewriteRecvs(n ast.Node) {
	if n == nil {
		return
	}
	v := reflect.ValueOf(n)
	if v.Kind() == reflect.Ptr && v.IsNil() {
		return
	}
	in.rewriteValue(v)
}

var exprType = reflect.TypeOf((*ast.Expr)(nil)).Elem()

func (in *inst) fixExpr(e ast.Expr) ast.Expr {
	if e == nil {
		return nil
	}
	if u, ok := e.(*ast.UnaryExpr); ok && u.Op == token.ARROW {
		in.changed = true
		in.yields++
		return vs("Recv", in.fixExpr(u.X))
	}
	switch e.(type) {
	case *ast.FuncLit:
		return e
	}
	in.rewriteValue(reflect.ValueOf(e))
	return e
}

func (in *inst) rewriteValue(v reflect.Value) {
	if v.Kind() == reflect.Ptr {
		if v.IsNil() {
			return
		}
		v = v.Elem()
	}
	if v.Kind() != reflect.Struct {
		return
	}
	for i := 0; i < v.NumField(); i++ {
		f := v.Field(i)
		switch {
		case f.Type() == exprType:
			if !f.IsNil() {
				f.Set(reflect.ValueOf(in.fixExpr(f.Interface().(ast.Expr))))
			}
		case f.Kind() == reflect.Slice && f.Type().Elem() == exprType:
			for j := 0; j < f.Len(); j++ {
				if !f.Index(j).IsNil() {
					f.Index(j).Set(reflect.ValueOf(in.fixExpr(f.Index(j).Interface().(ast.Expr))))
				}
			}
		case f.Kind() == reflect.Ptr && !f.IsNil():
			switch f.Interface().(type) {
			case *ast.FieldList, *ast.CallExpr, *ast.KeyValueExpr:
				in.rewriteValue(f)
			}
		}
	}
}

// funcLits instruments the bodies of function literals found in the
// expressions of n (not in nested statements - those are visited on their own).
func (in *inst) funcLits(n ast.Node, depth int) {
	if n == nil {
		return
	}
	v := reflect.ValueOf(n)
	if v.Kind() == reflect.Ptr && v.IsNil() {
		return
	}
	ast.Inspect(n, func(n ast.Node) bool {
		switch x := n.(type) {
		case *ast.FuncLit:
			x.Body.List, _ = in.list(x.Body.List, depth)
			return false
		case *ast.BlockStmt:
			return false
		}
		return true
	})
}

// exprsOf lists the expression-bearing parts of a statement (no nested blocks).
func exprsOf(s ast.Stmt) []ast.Node {
	switch x := s.(type) {
	case *ast.ExprStmt:
		return []ast.Node{x}
	case *ast.AssignStmt, *ast.ReturnStmt, *ast.IncDecStmt, *ast.DeclStmt, *ast.DeferStmt:
		return []ast.Node{x}
	case *ast.IfStmt:
		return []ast.Node{x.Init, x.Cond}
	case *ast.ForStmt:
		return []ast.Node{x.Init, x.Cond, x.Post}
	case *ast.RangeStmt:
		return []ast.Node{x.X}
	case *ast.SwitchStmt:
		return []ast.Node{x.Init, x.Tag}
	case *ast.TypeSwitchStmt:
		return []ast.Node{x.Init, x.Assign}
	}
	return nil
}

func nilNode(n ast.Node) bool {
	if n == nil {
		return true
	}
	v := reflect.ValueOf(n)
	return v.Kind() == reflect.Ptr && v.IsNil()
}

func (in *inst) block(b *ast.BlockStmt, depth int) {
	if b != nil {
		b.List, _ = in.list(b.List, depth)
	}
}

// list instruments a statement list; depth = number of mutexes held.
func (in *inst) list(stmts []ast.Stmt, depth int) ([]ast.Stmt, int) {
	var out []ast.Stmt
	for _, s := range stmts {
		var pre []ast.Stmt
		pre, s, depth = in.stmt(s, depth)
		out = append(out, pre...)
		if s != nil {
			out = append(out, s)
		}
	}
	return out, depth
}

func (in *inst) stmt(s ast.Stmt, depth int) (pre []ast.Stmt, res ast.Stmt, ndepth int) {
	ndepth = depth
	switch x := s.(type) {
	case *ast.LabeledStmt:
		p, r, d := in.stmt(x.Stmt, depth)
		if r == nil {
			r = &ast.EmptyStmt{}
		}
		x.Stmt = r
		return p, x, d
	case *ast.BlockStmt:
		x.List, ndepth = in.list(x.List, depth)
		return nil, x, ndepth
	case *ast.GoStmt:
		return in.goStmt(x, depth)
	case *ast.SendStmt:
		// also inside a critical section: a plain send can block, and what other
		// goroutines do meanwhile (lock-free channel operations) matters then
		in.rewriteRecvs(x)
		in.changed = true
		in.yields++
		return nil, &ast.ExprStmt{X: vs("Send", x.Chan, x.Value)}, depth
	case *ast.SelectStmt:
		return in.selectStmt(x, depth)
	case *ast.ExprStmt:
		recv, m, call := methodCall(x.X)
		if recv != nil && len(call.Args) == 0 {
			switch m {
			case "Lock", "RLock":
				if depth > 0 {
					return nil, x, depth + 1
				}
				try := "TryLock"
				if m == "RLock" {
					try = "TryRLock"
				}
				spin := &ast.ForStmt{
					Cond: &ast.UnaryExpr{Op: token.NOT, X: &ast.CallExpr{Fun: &ast.SelectorExpr{X: recv, Sel: id(try)}}},
					Body: &ast.BlockStmt{List: []ast.Stmt{in.yield("lockwait")}},
				}
				return []ast.Stmt{in.yield("lock")}, spin, depth + 1
			case "Unlock", "RUnlock":
				if depth > 0 {
					depth--
				}
				return nil, x, depth
			case "Wait":
				if in.wgs[in.text(recv)] {
					in.changed = true
					in.yields++
					return nil, &ast.ExprStmt{X: vs("WgWait",
						&ast.SelectorExpr{X: recv, Sel: id("Wait")},
						&ast.SelectorExpr{X: recv, Sel: id("Done")})}, depth
				}
			}
		}
	}
	// generic statement: function literals, receives, yield-worthy calls, nested blocks
	for _, n := range exprsOf(s) {
		if nilNode(n) {
			continue
		}
		in.funcLits(n, depth)
		if depth == 0 {
			if k := in.syncKind(n); k != "" && pre == nil {
				pre = append(pre, in.yield(k))
			}
		}
	}
	{ // receives can block: scheduling points also inside critical sections
		switch x := s.(type) {
		case *ast.IfStmt:
			in.recvIn(x.Init)
			x.Cond = in.fixExpr(x.Cond)
		case *ast.ForStmt:
			in.recvIn(x.Init)
			in.recvIn(x.Post)
			x.Cond = in.fixExpr(x.Cond)
		case *ast.RangeStmt:
			x.X = in.fixExpr(x.X)
		case *ast.SwitchStmt:
			in.recvIn(x.Init)
			x.Tag = in.fixExpr(x.Tag)
		case *ast.TypeSwitchStmt:
			in.recvIn(x.Init)
			in.recvIn(x.Assign)
		default:
			in.recvIn(s)
		}
	}
	switch x := s.(type) {
	case *ast.IfStmt:
		in.block(x.Body, depth)
		if x.Else != nil {
			_, e, _ := in.stmt(x.Else, depth)
			x.Else = e
		}
	case *ast.ForStmt:
		in.block(x.Body, depth)
	case *ast.RangeStmt:
		in.block(x.Body, depth)
		if depth == 0 && in.chans[in.text(x.X)] {
			x.Body.List = append([]ast.Stmt{in.yield("range")}, x.Body.List...)
		} else if in.mapRange(x) {
			in.sortMapRange(x) // also inside critical sections: it adds no scheduling point
		}
	case *ast.SwitchStmt:
		in.clauses(x.Body, depth)
	case *ast.TypeSwitchStmt:
		in.clauses(x.Body, depth)
	}
	return pre, s, depth
}

// recvIn rewrites receives in the expressions of one statement part.
func (in *inst) recvIn(n ast.Stmt) {
	if nilNode(n) {
		return
	}
	switch x := n.(type) {
	case *ast.AssignStmt:
		if len(x.Lhs) == 2 && len(x.Rhs) == 1 {
			if u, ok := isRecv(x.Rhs[0]); ok {
				in.changed = true
				in.yields++
				x.Rhs[0] = vs("Recv2", in.fixExpr(u.X))
				return
			}
		}
	case *ast.DeclStmt:
		if gd, ok := x.Decl.(*ast.GenDecl); ok {
			for _, sp := range gd.Specs {
				if v, ok := sp.(*ast.ValueSpec); ok {
					if len(v.Names) == 2 && len(v.Values) == 1 {
						if u, ok := isRecv(v.Values[0]); ok {
							in.changed = true
							in.yields++
							v.Values[0] = vs("Recv2", in.fixExpr(u.X))
							continue
						}
					}
					for i := range v.Values {
						v.Values[i] = in.fixExpr(v.Values[i])
					}
				}
			}
		}
		return
	case *ast.DeferStmt:
		in.rewriteValue(reflect.ValueOf(x.Call))
		return
	case *ast.ExprStmt, *ast.ReturnStmt, *ast.IncDecStmt:
	default:
		return
	}
	in.rewriteRecvs(n)
}

func (in *inst) clauses(b *ast.BlockStmt, depth int) {
	for _, c := range b.List {
		if cc, ok := c.(*ast.CaseClause); ok {
			cc.Body, _ = in.list(cc.Body, depth)
		}
	}
}

func (in *inst) goStmt(x *ast.GoStmt, depth int) ([]ast.Stmt, ast.Stmt, int) {
	in.changed = true
	in.n++
	var pre []ast.Stmt
	if depth == 0 {
		pre = append(pre, in.yield("go"))
	}
	call := x.Call
	if fl, ok := call.Fun.(*ast.FuncLit); ok && len(call.Args) == 0 {
		fl.Body.List, _ = in.list(fl.Body.List, 0)
		return pre, &ast.ExprStmt{X: vs("Go", fl)}, depth
	}
	if fl, ok := call.Fun.(*ast.FuncLit); ok {
		fl.Body.List, _ = in.list(fl.Body.List, 0)
	}
	fn := id(fmt.Sprintf("_vsg%df", in.n))
	pre = append(pre, &ast.AssignStmt{Lhs: []ast.Expr{fn}, Tok: token.DEFINE, Rhs: []ast.Expr{call.Fun}})
	var args []ast.Expr
	for i, a := range call.Args {
		if _, ok := a.(*ast.BasicLit); ok {
			args = append(args, a)
			continue
		}
		an := id(fmt.Sprintf("_vsg%da%d", in.n, i))
		pre = append(pre, &ast.AssignStmt{Lhs: []ast.Expr{an}, Tok: token.DEFINE, Rhs: []ast.Expr{a}})
		args = append(args, an)
	}
	inner := &ast.CallExpr{Fun: fn, Args: args}
	if call.Ellipsis.IsValid() {
		inner.Ellipsis = 1
	}
	lit := &ast.FuncLit{Type: &ast.FuncType{Params: &ast.FieldList{}},
		Body: &ast.BlockStmt{List: []ast.Stmt{&ast.ExprStmt{X: inner}}}}
	return pre, &ast.ExprStmt{X: vs("Go", lit)}, depth
}

func allBlank(l []ast.Expr) bool {
	for _, e := range l {
		if i, ok := e.(*ast.Ident); !ok || i.Name != "_" {
			return false
		}
	}
	return true
}

func (in *inst) selectStmt(x *ast.SelectStmt, depth int) ([]ast.Stmt, ast.Stmt, int) {
	nonBlocking := false
	for _, c := range x.Body.List {
		if c.(*ast.CommClause).Comm == nil {
			nonBlocking = true
		}
	}
	if depth > 0 && nonBlocking { // cannot block: stays part of the atomic critical section
		for _, c := range x.Body.List {
			cc := c.(*ast.CommClause)
			cc.Body, _ = in.list(cc.Body, depth)
		}
		return nil, x, depth
	}
	in.changed = true
	in.yields++
	in.n++
	sel := id(fmt.Sprintf("_vss%d", in.n))
	hasDef := false
	for _, c := range x.Body.List {
		if c.(*ast.CommClause).Comm == nil {
			hasDef = true
		}
	}
	defLit := "false"
	if hasDef {
		defLit = "true"
	}
	pre := []ast.Stmt{&ast.AssignStmt{Lhs: []ast.Expr{sel}, Tok: token.DEFINE,
		Rhs: []ast.Expr{vs("NewSelect", id(defLit))}}}
	sw := &ast.SwitchStmt{Tag: &ast.CallExpr{Fun: &ast.SelectorExpr{X: sel, Sel: id("Do")}}, Body: &ast.BlockStmt{}}
	k := 0
	for _, c := range x.Body.List {
		cc := c.(*ast.CommClause)
		body, _ := in.list(cc.Body, depth)
		if cc.Comm == nil {
			sw.Body.List = append(sw.Body.List, &ast.CaseClause{Body: body})
			continue
		}
		var head []ast.Stmt
		switch cm := cc.Comm.(type) {
		case *ast.SendStmt:
			pre = append(pre, &ast.ExprStmt{X: vs("SendCase", sel, cm.Chan, cm.Value)})
		case *ast.ExprStmt:
			u, _ := isRecv(cm.X)
			cv := id(fmt.Sprintf("_vss%dc%d", in.n, k))
			pre = append(pre, &ast.AssignStmt{Lhs: []ast.Expr{cv}, Tok: token.DEFINE, Rhs: []ast.Expr{vs("RecvCase", sel, u.X)}},
				&ast.AssignStmt{Lhs: []ast.Expr{id("_")}, Tok: token.ASSIGN, Rhs: []ast.Expr{cv}})
		case *ast.AssignStmt:
			u, _ := isRecv(cm.Rhs[0])
			cv := id(fmt.Sprintf("_vss%dc%d", in.n, k))
			pre = append(pre, &ast.AssignStmt{Lhs: []ast.Expr{cv}, Tok: token.DEFINE, Rhs: []ast.Expr{vs("RecvCase", sel, u.X)}},
				&ast.AssignStmt{Lhs: []ast.Expr{id("_")}, Tok: token.ASSIGN, Rhs: []ast.Expr{cv}})
			rhs := []ast.Expr{&ast.SelectorExpr{X: cv, Sel: id("V")}}
			if len(cm.Lhs) == 2 {
				rhs = append(rhs, &ast.SelectorExpr{X: cv, Sel: id("Ok")})
			}
			tok := cm.Tok
			if allBlank(cm.Lhs) {
				tok = token.ASSIGN
			}
			head = append(head, &ast.AssignStmt{Lhs: cm.Lhs, Tok: tok, Rhs: rhs})
		}
		sw.Body.List = append(sw.Body.List, &ast.CaseClause{
			List: []ast.Expr{&ast.BasicLit{Kind: token.INT, Value: strconv.Itoa(k)}},
			Body: append(head, body...)})
		k++
	}
	return pre, sw, depth
}

func addImport(f *ast.File) {
	spec := &ast.ImportSpec{Name: id("vsched"), Path: &ast.BasicLit{Kind: token.STRING, Value: strconv.Quote(vsPath)}}
	for _, d := range f.Decls {
		if gd, ok := d.(*ast.GenDecl); ok && gd.Tok == token.IMPORT {
			gd.Specs = append(gd.Specs, spec)
			if !gd.Lparen.IsValid() {
				gd.Lparen = 1
			}
			f.Imports = append(f.Imports, spec)
			return
		}
	}
	f.Decls = append([]ast.Decl{&ast.GenDecl{Tok: token.IMPORT, Specs: []ast.Spec{spec}}}, f.Decls...)
}

// Instrument returns the instrumented source of one file.
func Instrument(name string, src []byte) ([]byte, int, error) {
	fset := token.NewFileSet()
	// comments are dropped: positions of synthesised nodes would misplace them
	f, err := parser.ParseFile(fset, name, src, parser.SkipObjectResolution)
	if err != nil {
		return nil, 0, err
	}
	in := &inst{fset: fset, chans: map[string]bool{}, wgs: map[string]bool{}}
	in.info = typeInfo(fset, name, f)
	in.scan(f)
	for _, d := range f.Decls {
		if fd, ok := d.(*ast.FuncDecl); ok && fd.Body != nil {
			fd.Body.List, _ = in.list(fd.Body.List, 0)
		}
	}
	if !in.changed {
		return src, 0, nil
	}
	addImport(f)
	var b bytes.Buffer
	// keep a build constraint, if any
	for _, line := range strings.SplitN(string(src), "\n", 6) {
		if strings.HasPrefix(line, "//go:build") {
			b.WriteString(line + "\n\n")
		}
	}
	if err := (&printer.Config{Mode: printer.UseSpaces | printer.TabIndent, Tabwidth: 8}).Fprint(&b, token.NewFileSet(), f); err != nil {
		return nil, 0, err
	}
	out, err := format.Source(b.Bytes())
	if err != nil {
		return nil, 0, fmt.Errorf("instrumented %s does not parse: %v\n%s", name, err, b.String())
	}
	return out, in.yields, nil
}

func main() {
	repo := flag.String("repo", "", "repository root (default $VERIF_REPO or /repo)")
	out := flag.String("out", "", "output directory for the copies and overlay.json")
	flag.Parse()
	if *repo == "" {
		*repo = os.Getenv("VERIF_REPO")
	}
	if *repo == "" {
		*repo = "/repo"
	}
	if *out == "" || flag.NArg() == 0 {
		fmt.Fprintln(os.Stderr, "usage: instrument [-repo dir] -out dir file.go ...")
		os.Exit(2)
	}
	if err := os.MkdirAll(*out, 0o755); err != nil {
		fmt.Fprintln(os.Stderr, err)
		os.Exit(2)
	}
	abs, _ := filepath.Abs(*repo)
	overlay := map[string]map[string]string{"Replace": {}}
	report := map[string]int{}
	for _, rel := range flag.Args() {
		p := filepath.Join(abs, rel)
		src, err := os.ReadFile(p)
		if err != nil {
			fmt.Fprintln(os.Stderr, err)
			os.Exit(2)
		}
		res, n, err := Instrument(p, src)
		if err != nil {
			fmt.Fprintln(os.Stderr, err)
			os.Exit(2)
		}
		dst := filepath.Join(*out, strings.ReplaceAll(rel, "/", "__")+".txt")
		if err := os.WriteFile(dst, res, 0o644); err != nil {
			fmt.Fprintln(os.Stderr, err)
			os.Exit(2)
		}
		overlay["Replace"][p] = dst
		report[rel] = n
	}
	b, _ := json.MarshalIndent(overlay, "", " ")
	if err := os.WriteFile(filepath.Join(*out, "overlay.json"), b, 0o644); err != nil {
		fmt.Fprintln(os.Stderr, err)
		os.Exit(2)
	}
	rb, _ := json.Marshal(report)
	fmt.Println(string(rb))
}
