package sessioncheck

import (
	"bufio"
	"encoding/json"
	"fmt"
	"io"
	"os"
	"strings"
	"testing"
	"testing/synctest"
	"time"

	"github.com/emersion/go-message/textproto"
	"github.com/foxcpp/maddy/framework/config"
	"github.com/foxcpp/maddy/framework/log"
	smtpendp "github.com/foxcpp/maddy/internal/endpoint/smtp"
	_ "github.com/foxcpp/maddy/internal/limits"
	_ "github.com/foxcpp/maddy/internal/modify"
	_ "github.com/foxcpp/maddy/internal/table"
	"github.com/foxcpp/maddy/verifharness/scripted"
	"github.com/foxcpp/maddy/verifharness/vtrace"
)

// Cfg is the configuration of one behaviour (cfg of Session.tla).
type Cfg struct {
	Lmtp    bool   `json:"lmtp"`
	Defer   bool   `json:"defer"`
	Nt      int    `json:"nt"`
	Shape   string `json:"shape"` // "split" | "fan"
	Partial bool   `json:"partial"`
	// Hold: another session keeps the only permit of sender domain src.example
	// (source concurrency 1) for the whole conversation.
	Hold bool `json:"hold"`
	// Harness-only concretisation (the model does not distinguish them):
	// Buf: buffer mode of the endpoint: "" / "ram", "fs", "autolo" (limit below the
	// message size), "autohi" (limit above it).
	// CutPos: where a DATA of class "cut" loses the connection: "" / "mid" (inside
	// the body), "hdr" (after the header), "zero" (before the first byte).
	Buf    string `json:"buf"`
	CutPos string `json:"cutpos"`
	// Alias (harness-only as well: the design is independent of recipient rewriting): the pipeline
	// rewrites recipients with a real modify.replace_rcpt so that the targets see ONE address for
	// several original recipients (aliases of a mailbox):
	//   "dest"     in every destination block: ra, rb, rc -> box@dst.example
	//   "destself" in every destination block: rb, rc -> ra@dst.example (the first original IS the mailbox)
	//   "src"      in the source block, "global" at the top level: ra, rb, rc -> box@dst.example, which is
	//              routed to T1 (used with one target only, where every recipient is routed to T1 anyway)
	// The scripted targets then identify a recipient by the RCPT command being processed.
	Alias string `json:"alias"`
	// RejVia / ChkVia (harness-only too: for the design a refusal at the recipient stage / at the
	// body stage is one class each, whoever refuses): who refuses the recipient rej@dst.example
	// and the message of class "chk": "" = a `reject` destination / the scripted check;
	// "gmod" | "smod" | "dmod" = a failing modifier (modify.verifsess) at the top level, in the
	// source block, in the destination blocks. Not combined with Alias.
	RejVia string `json:"rejvia"`
	ChkVia string `json:"chkvia"`
}

// Step is one entry of the behaviour history printed by TLC.
type Step struct {
	A   string `json:"a"` // "Cmd" | "Tgt" | anything else (ignored)
	V   string `json:"v"`
	Arg string `json:"arg"`
	R   string `json:"r"`
	P   bool   `json:"p"`
	Tgt string `json:"tgt"`
	Op  string `json:"op"`
	Res string `json:"res"`
	St  StMap  `json:"st"`
	K   string `json:"k"` // "Env": wait | storm | peer+ | peer-
}

// StMap is a recipient -> status map; TLC prints the empty function as [].
type StMap map[string]string

func (m *StMap) UnmarshalJSON(b []byte) error {
	if len(b) > 0 && b[0] == '[' {
		*m = StMap{}
		return nil
	}
	var x map[string]string
	if err := json.Unmarshal(b, &x); err != nil {
		return err
	}
	*m = x
	return nil
}

type Behaviour struct {
	ID   int    `json:"id"`
	Cfg  Cfg    `json:"cfg"`
	Hist []Step `json:"hist"`
}

var rcptIDs = []string{"ra", "rb", "rc"}

// Route is the routing table of Session.tla (operator Route).
func Route(c Cfg) map[string][]string {
	t := func(i int) string {
		if i > c.Nt {
			i = c.Nt
		}
		return fmt.Sprintf("T%d", i)
	}
	all := []string{}
	for i := 1; i <= c.Nt; i++ {
		all = append(all, t(i))
	}
	if c.Shape == "fan" {
		return map[string][]string{"ra": {"T1"}, "rb": all, "rc": {t(c.Nt)}}
	}
	return map[string][]string{"ra": {t(1)}, "rb": {t(2)}, "rc": {t(3)}}
}

// ScriptOf extracts the client script (environment events attached to the command they
// precede; the ones after the last command are returned separately) and the per-target fault plans.
func ScriptOf(h []Step) ([]Cmd, map[string][]scripted.NPlan, []string) {
	var cmds []Cmd
	var pre []string
	plans := map[string][]scripted.NPlan{}
	cur := func(t string) *scripted.NPlan {
		if len(plans[t]) == 0 {
			plans[t] = append(plans[t], scripted.NPlan{})
		}
		return &plans[t][len(plans[t])-1]
	}
	for _, s := range h {
		switch s.A {
		case "Env":
			pre = append(pre, s.K)
		case "Cmd":
			// the environment acts while the server is idle: the command after it is not pipelined
			cmds = append(cmds, Cmd{V: s.V, A: s.Arg, R: s.R, P: s.P && len(pre) == 0, Pre: pre})
			pre = nil
		case "Tgt":
			switch s.Op {
			case "start":
				plans[s.Tgt] = append(plans[s.Tgt], scripted.NPlan{Start: s.Res})
			case "rcpt":
				p := cur(s.Tgt)
				p.Rcpt = append(p.Rcpt, scripted.RcptRes{R: s.R, Res: s.Res})
			case "body":
				cur(s.Tgt).Body = s.Res
			case "bodyNA":
				cur(s.Tgt).Status = s.St
			case "commit":
				cur(s.Tgt).Commit = s.Res
			case "abort":
				cur(s.Tgt).Abort = s.Res
			}
		}
	}
	return cmds, plans, pre
}

const (
	srcDom = "src.example"
	rejDom = "rej.example"
	dstDom = "dst.example"
)

func idOf(a string) string {
	if i := strings.IndexByte(a, '@'); i >= 0 {
		return a[:i]
	}
	return a
}

func wire(lmtp bool) func(c Cmd, bdatSeen bool) (string, []byte) {
	return func(c Cmd, bdatSeen bool) (string, []byte) {
		switch c.V {
		case "HELO":
			if lmtp {
				return "LHLO client.example\r\n", nil
			}
			return "EHLO client.example\r\n", nil
		case "MAIL":
			switch c.A {
			case "ok":
				return "MAIL FROM:<s@" + srcDom + ">\r\n", nil
			case "up":
				return "MAIL FROM:<s@" + strings.ToUpper(srcDom) + ">\r\n", nil
			case "rej":
				return "MAIL FROM:<s@" + rejDom + ">\r\n", nil
			case "null":
				return "MAIL FROM:<>\r\n", nil
			default:
				return "MAIL FROM:s@\r\n", nil
			}
		case "RCPT":
			switch c.A {
			case "ok":
				return "RCPT TO:<" + c.R + "@" + dstDom + ">\r\n", nil
			case "up":
				return "RCPT TO:<" + c.R + "@" + strings.ToUpper(dstDom) + ">\r\n", nil
			case "rej":
				return "RCPT TO:<rej@" + dstDom + ">\r\n", nil
			default:
				return "RCPT TO:rej@\r\n", nil
			}
		case "DATA":
			return "DATA\r\n", nil
		case "BDAT":
			msg := message("ok")
			var chunk []byte
			switch {
			case !bdatSeen && c.A == "last":
				chunk = msg
			case !bdatSeen:
				chunk = msg[:len(msg)-9]
			case c.A == "last":
				chunk = []byte("the end\r\n")
			default:
				chunk = []byte("more text\r\n")
			}
			if c.A == "last" {
				return fmt.Sprintf("BDAT %d LAST\r\n", len(chunk)), chunk
			}
			return fmt.Sprintf("BDAT %d\r\n", len(chunk)), chunk
		case "RSET":
			return "RSET\r\n", nil
		case "NOOP":
			return "NOOP\r\n", nil
		case "QUIT":
			return "QUIT\r\n", nil
		}
		panic("sessioncheck: unknown command " + c.V)
	}
}

func message(kind string) []byte {
	var b strings.Builder
	switch kind {
	case "loop":
		for i := 0; i < 4; i++ {
			fmt.Fprintf(&b, "Received: from h%d.example by h%d.example; Thu, 1 Jan 2026 00:00:00 +0000\r\n", i, i+1)
		}
	case "chk":
		b.WriteString("X-Verif-Reject: body\r\n")
	case "hdr":
		for i := 0; i < 12; i++ {
			b.WriteString("X-Pad: " + strings.Repeat("a", 60) + "\r\n")
		}
	}
	b.WriteString("From: <s@" + srcDom + ">\r\nSubject: verif\r\n\r\nhello world\r\nbye bye\r\n")
	return []byte(b.String())
}

func dataBody(cutpos string) func(kind string) ([]byte, bool) {
	return func(kind string) ([]byte, bool) {
		if kind == "cut" {
			m := message("ok")
			switch cutpos {
			case "zero":
				return nil, true
			case "hdr":
				return m[:strings.Index(string(m), "\r\n\r\n")+4], true
			}
			return m[:len(m)-6], true
		}
		return append(message(kind), ".\r\n"...), false
	}
}

func node(name string, args []string, children ...config.Node) config.Node {
	return config.Node{Name: name, Args: args, Children: children}
}

var sessModNode = node("modify", nil, node("verifsess", nil))

func endpointConfig(c Cfg, bufDir string) []config.Node {
	buf := []string{"ram"}
	switch c.Buf {
	case "fs":
		buf = []string{"fs", bufDir}
	case "autolo":
		buf = []string{"auto", "16b", bufDir}
	case "autohi":
		buf = []string{"auto", "1M", bufDir}
	}
	srcLimit := "10"
	if c.Hold {
		srcLimit = "1"
	}
	yn := "no"
	if c.Defer {
		yn = "yes"
	}
	aliasTo := "box@" + dstDom
	if c.Alias == "destself" {
		aliasTo = "ra@" + dstDom
	}
	rewrite := func(rs ...string) config.Node {
		var entries []config.Node
		for _, r := range rs {
			if r+"@"+dstDom != aliasTo {
				entries = append(entries, node("entry", []string{r + "@" + dstDom, aliasTo}))
			}
		}
		return node("modify", nil, node("replace_rcpt", []string{"static"}, entries...))
	}
	var dests []config.Node
	route := Route(c)
	for _, r := range rcptIDs {
		var kids []config.Node
		if (c.Alias == "dest" || c.Alias == "destself") && r+"@"+dstDom != aliasTo {
			kids = append(kids, rewrite(r))
		}
		if c.RejVia == "dmod" || c.ChkVia == "dmod" {
			kids = append(kids, sessModNode)
		}
		for _, t := range route[r] {
			kids = append(kids, node("deliver_to", []string{"verifscripted", t}))
		}
		dests = append(dests, node("destination", []string{r + "@" + dstDom}, kids...))
	}
	if c.Alias == "src" || c.Alias == "global" {
		dests = append(dests, node("destination", []string{aliasTo}, node("deliver_to", []string{"verifscripted", "T1"})))
	}
	if c.RejVia == "dmod" {
		// the refused recipient has a destination of its own; its modifier fails before the target is reached
		dests = append(dests, node("destination", []string{"rej@" + dstDom}, sessModNode,
			node("deliver_to", []string{"verifscripted", "T1"})))
	} else {
		dests = append(dests,
			node("destination", []string{"rej@" + dstDom}, node("reject", []string{"550", "5.1.1", "no such user"})))
	}
	dests = append(dests,
		node("default_destination", nil, node("reject", []string{"550", "5.1.2", "no such domain"})))
	var top []config.Node
	if c.RejVia == "gmod" || c.ChkVia == "gmod" {
		top = append(top, sessModNode)
	}
	if c.RejVia == "smod" || c.ChkVia == "smod" {
		dests = append([]config.Node{sessModNode}, dests...)
	}
	if c.Alias == "global" {
		top = append(top, rewrite(rcptIDs...))
	}
	if c.Alias == "src" {
		dests = append([]config.Node{rewrite(rcptIDs...)}, dests...)
	}
	return append(top, []config.Node{
		node("hostname", []string{"mx.example.org"}),
		node("tls", []string{"off"}),
		node("defer_sender_reject", []string{yn}),
		node("max_received", []string{"2"}),
		node("max_header_size", []string{"512b"}),
		node("buffer", buf),
		node("limits", nil,
			node("all", []string{"concurrency", "10"}),
			node("ip", []string{"concurrency", "10"}),
			node("source", []string{"concurrency", srcLimit})),
		node("check", nil, node("verifnamed", []string{"CK"})),
		node("default_source", nil, dests...),
	}...)
}

func runBehaviour(t *testing.T, b Behaviour, w io.Writer) {
	bufDir := ""
	if b.Cfg.Buf != "" && b.Cfg.Buf != "ram" {
		var err error
		if bufDir, err = os.MkdirTemp(os.Getenv("VERIF_TMP"), "buf"); err != nil {
			t.Fatal(err)
		}
		defer os.RemoveAll(bufDir)
	}
	synctest.Test(t, func(t *testing.T) {
		tr := vtrace.New(w, b.ID)
		tr.Emit("Cfg", vtrace.Ev{"lmtp": b.Cfg.Lmtp, "defer": b.Cfg.Defer, "nt": b.Cfg.Nt,
			"shape": b.Cfg.Shape, "partial": b.Cfg.Partial, "hold": b.Cfg.Hold, "buf": b.Cfg.Buf, "cutpos": b.Cfg.CutPos,
			"alias": b.Cfg.Alias, "rejvia": b.Cfg.RejVia, "chkvia": b.Cfg.ChkVia})
		cmds, plans, tailEnv := ScriptOf(b.Hist)
		var conn *tapConn
		id := idOf
		if b.Cfg.Alias != "" {
			// the targets see the rewritten address: a recipient is identified by the RCPT command the
			// server is processing when the target is called
			id = func(a string) string {
				if conn != nil {
					if r := conn.curRcpt(); r != "" {
						return r
					}
				}
				return idOf(a)
			}
		}
		var targets []*scripted.NamedTarget
		for i := 1; i <= b.Cfg.Nt; i++ {
			name := fmt.Sprintf("T%d", i)
			targets = append(targets, &scripted.NamedTarget{TName: name, Tr: tr, Plan: plans[name],
				Partial: b.Cfg.Partial, ID: id})
		}
		scripted.SetNamed(targets...)
		ck := &scripted.NamedCheck{CName: "CK", Tr: tr, Verdict: func(stage, arg string, hdr *textproto.Header) string {
			switch {
			case stage == "sender" && strings.HasSuffix(arg, "@"+rejDom):
				return "reject"
			case stage == "body" && hdr.Get("X-Verif-Reject") != "" && b.Cfg.ChkVia == "":
				return "reject"
			}
			return ""
		}}
		scripted.SetNamedChecks(ck)
		setSessMod(&sessMod{tr: tr})

		modName := "smtp"
		if b.Cfg.Lmtp {
			modName = "lmtp"
		}
		mod, err := smtpendp.New(modName, nil)
		if err != nil {
			t.Fatal(err)
		}
		endp := mod.(*smtpendp.Endpoint)
		endp.Log = log.Logger{Out: log.NopOutput{}}
		if os.Getenv("VERIF_DEBUG") != "" {
			endp.Log = log.Logger{Out: log.WriterOutput(os.Stderr, false), Debug: true, Name: "endp"}
		}
		if err := endp.Init(config.NewMap(map[string]interface{}{}, config.Node{Children: endpointConfig(b.Cfg, bufDir)})); err != nil {
			t.Fatalf("endpoint init: %v", err)
		}

		releaseHeld := func() {}
		if b.Cfg.Hold {
			rel, err := endp.VerifSessionHoldMsgPermit(srcDom)
			if err != nil {
				t.Fatalf("holding the source permit: %v", err)
			}
			releaseHeld = rel
		}

		env := newEnviron(tr, endp, cmds, tailEnv)
		conn = &tapConn{tr: tr, script: cmds, lines: wire(b.Cfg.Lmtp), body: dataBody(b.Cfg.CutPos),
			permits: endp.VerifSessionPermits, mode: "cmd", done: make(chan struct{}), tailEnv: tailEnv}
		if env != nil {
			conn.env = env.event
		}
		l := newOneListener(conn)
		served := make(chan error, 1)
		go func() { served <- endp.VerifSessionServe(l) }()

		select {
		case <-conn.done:
		case <-time.After(60 * time.Minute): // fake clock: only reached when the server is stuck
			tr.Emit("Stuck", vtrace.Ev{})
		}
		synctest.Wait()
		open := map[string]interface{}{}
		nopen := 0
		for _, tg := range targets {
			open[tg.TName] = tg.Open()
			nopen += tg.Open()
		}
		for i := b.Cfg.Nt + 1; i <= 3; i++ {
			open[fmt.Sprintf("T%d", i)] = 0
		}
		p := endp.VerifSessionPermits()
		// The other session gives its permits back after the snapshot. Its Release is legitimate; if the
		// limiter panics on it ("mismatched Release call") the session under test returned a permit it
		// had not taken - an observation for the End event (PermitOverReturned), not a dead harness.
		held := "none"
		if b.Cfg.Hold {
			held = "ok"
			func() {
				defer func() {
					if r := recover(); r != nil {
						held = "panic"
					}
				}()
				releaseHeld()
			}()
		}
		tr.Emit("End", vtrace.Ev{"open": open, "nopen": nopen, "all": p["all"], "ip": p["ip"], "source": p["source"],
			"sessions": endp.ConnectionCount(), "unsent": len(cmds) - conn.idx, "chkOpen": ck.OpenStates(), "held": held})
		if env != nil {
			env.finish()
		}
		l.Close()
		endp.Close()
		<-served
	})
}

func TestReplay(t *testing.T) {
	in, out := os.Getenv("VERIF_IN"), os.Getenv("VERIF_OUT")
	if in == "" || out == "" {
		t.Skip("VERIF_IN / VERIF_OUT not set")
	}
	f, err := os.Open(in)
	if err != nil {
		t.Fatal(err)
	}
	defer f.Close()
	of, err := os.Create(out)
	if err != nil {
		t.Fatal(err)
	}
	defer of.Close()
	// unbuffered: a behaviour that kills the process must leave its events behind
	var w io.Writer = of
	sc := bufio.NewScanner(f)
	sc.Buffer(make([]byte, 1<<20), 1<<26)
	n := 0
	for sc.Scan() {
		var b Behaviour
		if err := json.Unmarshal(sc.Bytes(), &b); err != nil {
			t.Fatalf("bad behaviour line: %v", err)
		}
		runBehaviour(t, b, w)
		n++
	}
	t.Logf("replayed %d behaviours", n)
}
