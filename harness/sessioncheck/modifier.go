package sessioncheck

import (
	"context"
	"strings"
	"sync"

	"github.com/emersion/go-message/textproto"
	"github.com/foxcpp/maddy/framework/buffer"
	"github.com/foxcpp/maddy/framework/config"
	"github.com/foxcpp/maddy/framework/exterrors"
	"github.com/foxcpp/maddy/framework/module"
	"github.com/foxcpp/maddy/verifharness/vtrace"
)

// sessMod ("modify.verifsess") is a message modifier with a fixed fault table, the modifier
// counterpart of the scripted check: RewriteRcpt fails (550) for the recipient rej@..., and
// RewriteBody fails (550) for a message that carries the X-Verif-Reject header field. Where in
// the pipeline it sits (top level, source block, destination blocks) is the configuration's
// choice (Cfg.RejVia / Cfg.ChkVia). Calls are logged as "Mod" events (not consumed by the
// trace specification: what a failing modifier must lead to is stated on replies and target
// calls).
type sessMod struct {
	tr *vtrace.Tracer
}

var (
	sessModOnce sync.Once
	sessModMu   sync.Mutex
	sessModCur  *sessMod
)

func setSessMod(m *sessMod) {
	sessModOnce.Do(func() {
		module.Register("modify.verifsess", func(_, _ string, _, _ []string) (module.Module, error) {
			sessModMu.Lock()
			defer sessModMu.Unlock()
			return sessModCur, nil
		})
	})
	sessModMu.Lock()
	sessModCur = m
	sessModMu.Unlock()
}

func (m *sessMod) Name() string             { return "verifsess" }
func (m *sessMod) InstanceName() string     { return "verifsess" }
func (m *sessMod) Init(_ *config.Map) error { return nil }
func (m *sessMod) ModStateForMsg(context.Context, *module.MsgMetadata) (module.ModifierState, error) {
	return sessModState{m}, nil
}

type sessModState struct{ m *sessMod }

func modErr(what string) error {
	return &exterrors.SMTPError{Code: 550, EnhancedCode: exterrors.EnhancedCode{5, 7, 1},
		Message: "scripted modifier failure at " + what, ModifierName: "verifsess"}
}

func (s sessModState) RewriteSender(_ context.Context, from string) (string, error) { return from, nil }

func (s sessModState) RewriteRcpt(_ context.Context, to string) ([]string, error) {
	if strings.HasPrefix(to, "rej@") {
		s.m.tr.Emit("Mod", vtrace.Ev{"stage": "rcpt", "arg": to, "res": "fail"})
		return nil, modErr("rcpt")
	}
	s.m.tr.Emit("Mod", vtrace.Ev{"stage": "rcpt", "arg": to, "res": "ok"})
	return []string{to}, nil
}

func (s sessModState) RewriteBody(_ context.Context, h *textproto.Header, _ buffer.Buffer) error {
	if h.Get("X-Verif-Reject") != "" {
		s.m.tr.Emit("Mod", vtrace.Ev{"stage": "body", "res": "fail"})
		return modErr("body")
	}
	s.m.tr.Emit("Mod", vtrace.Ev{"stage": "body", "res": "ok"})
	return nil
}

func (s sessModState) Close() error { return nil }
