package sessioncheck

import (
	"context"
	"fmt"
	"net"
	"time"

	smtpendp "github.com/foxcpp/maddy/internal/endpoint/smtp"
	"github.com/foxcpp/maddy/verifharness/vtrace"
)

// environ plays the environment of the conversation at the endpoint's limits group
// (Session!EnvStep). Every event runs in the server's own goroutine at the instant it asks
// the connection for the next command (tapConn.Read), i.e. while the session is idle, and
// is logged as an "Env" event.
//
//	wait   61 s of logical time pass (the limiters' reap interval is one minute)
//	storm  wait; sessions from envBuckets+1 never-seen addresses and sender domains take and
//	       return their permits at the limits API; wait again. The bucket tables of the
//	       endpoint are capped at envBuckets entries (instead of 20010) for such a behaviour, so
//	       the tables run over their capacity and stale buckets are reaped.
//	peer+  another session from the same address (127.0.0.1) with sender domain src.example
//	       takes its permits (TakeMsg); peer- returns them (ReleaseMsg)
type environ struct {
	tr      *vtrace.Tracer
	endp    *smtpendp.Endpoint
	release func()
	nkeys   int
}

const envBuckets = 4

func newEnviron(tr *vtrace.Tracer, endp *smtpendp.Endpoint, cmds []Cmd, tail []string) *environ {
	n := len(tail)
	for _, c := range cmds {
		n += len(c.Pre)
	}
	if n == 0 {
		return nil
	}
	endp.VerifLimitsGroup().VerifSetMaxBuckets(envBuckets)
	return &environ{tr: tr, endp: endp}
}

func (e *environ) event(kind string) {
	res, detail := "ok", ""
	func() {
		defer func() {
			if p := recover(); p != nil {
				res, detail = "panic", fmt.Sprint(p)
			}
		}()
		switch kind {
		case "wait":
			time.Sleep(61 * time.Second)
		case "storm":
			time.Sleep(61 * time.Second)
			g := e.endp.VerifLimitsGroup()
			for i := 0; i <= envBuckets; i++ {
				e.nkeys++
				ip := net.IPv4(10, 9, byte(e.nkeys>>8), byte(e.nkeys))
				dom := fmt.Sprintf("other%d.example", e.nkeys)
				// a full table refuses the newcomer: that is its business, not the conversation's
				if err := g.TakeMsg(context.Background(), ip, dom); err == nil {
					g.ReleaseMsg(ip, dom)
				}
			}
			time.Sleep(61 * time.Second)
		case "peer+":
			if e.release != nil {
				res, detail = "skipped", "the other session already holds its permits"
				return
			}
			rel, err := e.endp.VerifSessionHoldMsgPermit(srcDom)
			if err != nil {
				res, detail = "failed", err.Error()
				return
			}
			e.release = rel
		case "peer-":
			if e.release == nil {
				res, detail = "skipped", "the other session holds nothing"
				return
			}
			rel := e.release
			e.release = nil
			rel()
		default:
			res, detail = "skipped", "unknown environment event"
		}
	}()
	p := e.endp.VerifSessionPermits()
	e.tr.Emit("Env", vtrace.Ev{"k": kind, "res": res, "detail": detail, "all": p["all"], "ip": p["ip"], "source": p["source"]})
}

// finish returns what the other session still holds after the conversation has ended.
func (e *environ) finish() {
	if e.release != nil {
		func() {
			defer func() { recover() }()
			e.release()
		}()
		e.release = nil
	}
}
