// Package sessioncheck replays TLC-generated behaviours of Session.tla as real
// SMTP/LMTP conversations against the real endpoint (internal/endpoint/smtp,
// go-smtp server included, real msgpipeline built from configuration nodes,
// scripted targets, a limits block) and records NDJSON traces.
package sessioncheck

import (
	"errors"
	"fmt"
	"io"
	"net"
	"strconv"
	"strings"
	"sync"
	"time"

	"github.com/foxcpp/maddy/verifharness/vtrace"
)

// Cmd is one step of the client script.
type Cmd struct {
	V string `json:"v"` // HELO MAIL RCPT DATA BDAT RSET NOOP QUIT DROP
	A string `json:"a"` // argument class
	R string `json:"r"` // recipient id (RCPT)
	// P: this command is sent in one write together with the previous one
	// (pipelining, no wait for the reply).
	P bool `json:"p"`
	// Pre: events of the environment (Session!EnvStep: wait | storm | peer+ | peer-) that happen
	// after the reply to the previous command, before the client sends this one.
	Pre []string `json:"pre"`
}

// tapConn is an in-memory net.Conn handed to the go-smtp server through an
// injected listener. It plays a raw, line-based client script: Read hands the
// next command line(s) (or message data) to the server, Write receives the
// reply lines. Because both are called by the server's own goroutine, the
// "Cmd", "Reply" and "Permits" events are logged exactly at the point where
// the server takes a command from the wire / puts a reply on the wire, in
// program order with the target calls it makes in between.
type tapConn struct {
	tr      *vtrace.Tracer
	script  []Cmd
	lines   func(c Cmd, bdatSeen bool) (line string, payload []byte) // wire form
	body    func(kind string) (data []byte, cut bool)
	permits func() map[string]int
	env     func(kind string) // performs one environment event (logs it itself)
	tailEnv []string          // environment events after the last scripted command

	mu       sync.Mutex
	idx      int    // next script position
	pending  []byte // bytes handed out partially
	chunk    []byte // BDAT chunk waiting for the server's next read
	announce []Cmd  // commands already in the server's buffer, Cmd event not logged yet
	cur      *Cmd   // command being processed
	nrep     int    // final replies seen for cur
	wbuf     []byte // partial reply line
	mode     string // "cmd" | "data" | "cutEOF"
	dataKind string
	bdatSeen bool
	closed   bool
	eof      bool
	done     chan struct{}
	replies  []int
}

type tapAddr struct{ s string }

func (a tapAddr) Network() string { return "verif" }
func (a tapAddr) String() string  { return a.s }

func (c *tapConn) LocalAddr() net.Addr                { return tapAddr{"server"} }
func (c *tapConn) RemoteAddr() net.Addr               { return tapAddr{"client"} }
func (c *tapConn) SetDeadline(t time.Time) error      { return nil }
func (c *tapConn) SetReadDeadline(t time.Time) error  { return nil }
func (c *tapConn) SetWriteDeadline(t time.Time) error { return nil }

func (c *tapConn) Close() error {
	c.mu.Lock()
	defer c.mu.Unlock()
	if !c.closed {
		c.closed = true
		close(c.done)
	}
	return nil
}

// curRcpt returns the recipient id of the RCPT command the server is processing ("" if it is
// processing something else).
func (c *tapConn) curRcpt() string {
	c.mu.Lock()
	defer c.mu.Unlock()
	if c.cur != nil && c.cur.V == "RCPT" {
		return c.cur.R
	}
	return ""
}

func (c *tapConn) logCmd(cmd Cmd) {
	p := c.permits()
	c.tr.Emit("Permits", vtrace.Ev{"all": p["all"], "ip": p["ip"], "source": p["source"]})
	c.tr.Emit("Cmd", vtrace.Ev{"v": cmd.V, "a": cmd.A, "r": cmd.R})
	cc := cmd
	c.cur = &cc
	c.nrep = 0
}

func (c *tapConn) Read(p []byte) (int, error) {
	c.mu.Lock()
	defer c.mu.Unlock()
	if c.closed {
		return 0, net.ErrClosed
	}
	if len(c.pending) == 0 {
		if c.eof {
			return 0, io.EOF
		}
		if c.chunk != nil {
			c.pending, c.chunk = c.chunk, nil
			n := copy(p, c.pending)
			c.pending = c.pending[n:]
			return n, nil
		}
		switch c.mode {
		case "data":
			data, cut := c.body(c.dataKind)
			c.pending = data
			if cut && len(data) == 0 { // connection lost before the first byte of the message
				c.eof = true
				return 0, io.EOF
			} else if cut {
				c.mode = "cutEOF"
			} else {
				c.mode = "cmd"
			}
		case "cutEOF":
			c.eof = true
			return 0, io.EOF
		default:
			if len(c.announce) > 0 {
				// the server asks for more input although commands it already
				// has are unanswered: cannot happen with a line-based server
				return 0, errors.New("tapconn: read while pipelined commands are pending")
			}
			// the server is idle and asks for the next command: the environment acts first
			if c.env != nil {
				pre := c.tailEnv
				if c.idx < len(c.script) {
					pre = c.script[c.idx].Pre
					c.script[c.idx].Pre = nil
				} else {
					c.tailEnv = nil
				}
				for _, k := range pre {
					c.env(k)
				}
			}
			if c.idx >= len(c.script) || c.script[c.idx].V == "DROP" {
				c.logCmd(Cmd{V: "DROP"})
				c.idx = len(c.script)
				c.eof = true
				return 0, io.EOF
			}
			first := true
			for c.idx < len(c.script) && (first || c.script[c.idx].P) && c.script[c.idx].V != "DROP" {
				cmd := c.script[c.idx]
				c.idx++
				line, payload := c.lines(cmd, c.bdatSeen)
				if cmd.V == "BDAT" {
					c.bdatSeen = cmd.A != "last"
				}
				c.pending = append(c.pending, line...)
				if cmd.V == "BDAT" {
					// the chunk follows on the server's next read - unless the command was
					// refused before the server asked for it (then the client drops it)
					c.chunk = payload
				} else {
					c.pending = append(c.pending, payload...)
				}
				if first {
					c.logCmd(cmd)
				} else {
					c.announce = append(c.announce, cmd)
				}
				first = false
				if cmd.V == "DATA" || cmd.V == "QUIT" || cmd.V == "BDAT" {
					break
				}
			}
		}
	}
	n := copy(p, c.pending)
	c.pending = c.pending[n:]
	return n, nil
}

func (c *tapConn) Write(p []byte) (int, error) {
	c.mu.Lock()
	defer c.mu.Unlock()
	if c.closed {
		return 0, io.ErrClosedPipe
	}
	c.wbuf = append(c.wbuf, p...)
	for {
		i := strings.Index(string(c.wbuf), "\r\n")
		if i < 0 {
			break
		}
		line := string(c.wbuf[:i])
		c.wbuf = c.wbuf[i+2:]
		c.replyLine(line)
	}
	return len(p), nil
}

func (c *tapConn) replyLine(line string) {
	if len(line) < 3 {
		c.tr.Emit("BadReply", vtrace.Ev{"line": line})
		return
	}
	code, err := strconv.Atoi(line[:3])
	if err != nil {
		c.tr.Emit("BadReply", vtrace.Ev{"line": line})
		return
	}
	if len(line) > 3 && line[3] == '-' {
		return // continuation line
	}
	if c.cur == nil {
		return // greeting
	}
	if code == 354 && c.cur.V == "DATA" {
		c.mode = "data"
		c.dataKind = c.cur.A
		return
	}
	enh := []int{-1, -1, -1}
	if f := strings.Fields(line[3:]); len(f) > 0 {
		var a, b, d int
		if n, _ := fmt.Sscanf(f[0], "%d.%d.%d", &a, &b, &d); n == 3 {
			enh = []int{a, b, d}
		}
	}
	c.nrep++
	if c.cur.V == "BDAT" {
		c.chunk = nil // refused before the server asked for the chunk
	}
	c.replies = append(c.replies, code)
	c.tr.Emit("Reply", vtrace.Ev{"code": code, "cls": code / 100, "enh": enh, "i": c.nrep, "text": line})
	if code == 421 {
		// go-smtp closes the connection after every 421: what was pipelined behind is never taken
		c.announce = nil
	}
	if len(c.announce) > 0 {
		next := c.announce[0]
		c.announce = c.announce[1:]
		c.logCmd(next)
	}
}

// oneListener hands out exactly one connection.
type oneListener struct {
	ch     chan net.Conn
	closed chan struct{}
	once   sync.Once
}

func newOneListener(c net.Conn) *oneListener {
	l := &oneListener{ch: make(chan net.Conn, 1), closed: make(chan struct{})}
	l.ch <- c
	return l
}

func (l *oneListener) Accept() (net.Conn, error) {
	select {
	case c := <-l.ch:
		return c, nil
	case <-l.closed:
		return nil, net.ErrClosed
	}
}

func (l *oneListener) Close() error {
	l.once.Do(func() { close(l.closed) })
	return nil
}

func (l *oneListener) Addr() net.Addr { return tapAddr{"listener"} }
