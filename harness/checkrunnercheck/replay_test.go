// Package checkrunnercheck replays TLC-generated behaviours of CheckRunner.tla on
// the real message pipeline (internal/msgpipeline) and records NDJSON traces.
//
// Input  (VERIF_IN):  one JSON object per line {"id":N,"cfg":{...},"calls":[...]}
// Output (VERIF_OUT): NDJSON events, trace number "t" = id.
//
// The pipeline is built by msgpipeline.New from configuration text parsed by
// maddy's own parser.  Scripted checks ("check.verif_scripted") and recording
// targets ("target.verif_rec") are ordinary maddy modules.  A check that is
// referenced from several blocks is declared once in a top-level `checks NAME {}`
// block registered in maddy's instance registry (what maddy.RegisterModules does)
// and referenced as `check &NAME` from each block, so the pipeline's own
// identity-based de-duplication of check states is what runs; a check used in a
// single block is declared inline.
//
// Every behaviour runs in a testing/synctest bubble: each command is issued in
// its own goroutine; synctest.Wait() returns when every check goroutine the
// pipeline started is parked on its gate; the harness then releases exactly one
// (in the order the behaviour prescribes), and so on.  Completion orders are
// forced, never raced.
package checkrunnercheck

import (
	"bufio"
	"context"
	"encoding/json"
	"errors"
	"fmt"
	"net"
	"os"
	"sort"
	"strings"
	"sync"
	"testing"
	"testing/synctest"
	"time"

	"github.com/emersion/go-message/textproto"
	"github.com/emersion/go-smtp"
	"github.com/foxcpp/go-mockdns"
	"github.com/foxcpp/maddy/framework/buffer"
	parser "github.com/foxcpp/maddy/framework/cfgparser"
	"github.com/foxcpp/maddy/framework/config"
	"github.com/foxcpp/maddy/framework/exterrors"
	"github.com/foxcpp/maddy/framework/log"
	"github.com/foxcpp/maddy/framework/module"
	"github.com/foxcpp/maddy/internal/msgpipeline"
	"github.com/foxcpp/maddy/internal/smtpconn/pool"
	"github.com/foxcpp/maddy/internal/target/queue"
	"github.com/foxcpp/maddy/internal/target/remote"
	"github.com/foxcpp/maddy/verifharness/scripted"
	"github.com/foxcpp/maddy/verifharness/vtrace"
)

type Cfg struct {
	Place map[string][]string          `json:"place"`
	Verd  map[string]map[string]string `json:"verd"`
	Only1 []string                     `json:"only1"`
	Route []string                     `json:"route"`
	Path  string                       `json:"path"`
	Dmarc string                       `json:"dmarc"`
	Kind  string                       `json:"kind"`
	Mod   string                       `json:"mod"`
	Mfail []string                     `json:"mfail"`
	From  string                       `json:"from"` // "addr" | "null": ordinary sender / null reverse-path
	// Nafin: what the driver does after a per-recipient body refused for every recipient:
	// "commit" (as Session.LMTPData and the queue) or "abort"
	Nafin string `json:"nafin"`
	// Dupof[i] = 0: the i-th RCPT command names a new address; j > 0: it repeats the address of the j-th
	Dupof []int `json:"dupof"`
	// Dmvia: how the DMARC policy that prescribes Dmarc is published (dims_test.go)
	Dmvia string `json:"dmvia"`
	// Early: checks (of the global block) that have the connection-time hook; Everd: those that refuse the
	// connection; Eon: the driver calls RunEarlyChecks before Start
	Early []string `json:"early"`
	Everd []string `json:"everd"`
	Eon   bool     `json:"eon"`
}

// rcptAt returns the recipient id and address of the i-th (0-based) RCPT command.
func (c Cfg) rcptAt(i int) (id, addr string) {
	j := i
	if i < len(c.Dupof) && c.Dupof[i] > 0 {
		j = c.Dupof[i] - 1
	}
	id = fmt.Sprintf("r%d", j+1)
	return id, id + "@" + blockDomain[c.Route[j]]
}

type Call struct {
	A     string `json:"a"`
	C     string `json:"c"`
	Stage string `json:"stage"`
	Arg   string `json:"arg"`
}

type Behaviour struct {
	ID    int    `json:"id"`
	Cfg   Cfg    `json:"cfg"`
	Calls []Call `json:"calls"`
	// Again: when the message is over the same script is run once more on the SAME pipeline object
	// (a second connection / message); it is recorded as trace ID + AgainOffset.  Messages are
	// independent of each other in CheckRunner.tla, so the second trace is validated like any other:
	// a harness-only dimension (what one message leaves behind in the pipeline object).
	Again bool `json:"again"`
}

const AgainOffset = 4000000

const sender = "s@example.org"

var blockDomain = map[string]string{"D1": "d1.example", "D2": "d2.example"}
var blockTarget = map[string]string{"D1": "T1", "D2": "T2"}

func rcptID(addr string) string {
	if i := strings.IndexByte(addr, '@'); i >= 0 {
		return addr[:i]
	}
	return addr
}

func has(l []string, x string) bool {
	for _, y := range l {
		if y == x {
			return true
		}
	}
	return false
}

var actionWord = map[string]string{"reject": "reject", "quar": "quarantine", "ignore": "ignore"}

// checkBody renders the directives of one scripted check.
func checkBody(c Cfg, key, name, firstRcpt string) string {
	var sb strings.Builder
	fmt.Fprintf(&sb, "id %s\nctl %s\n", name, key)
	var fail []string
	for _, st := range []string{"conn", "sender", "rcpt", "body"} {
		v := c.Verd[name][st]
		if v == "" || v == "none" {
			continue
		}
		fail = append(fail, st)
		if v == "rq" || v == "rqp" {
			fmt.Fprintf(&sb, "%s_raw %s\n", st, v) // raw Reject && Quarantine result
			continue
		}
		fmt.Fprintf(&sb, "%s_action %s\n", st, actionWord[v])
	}
	if len(fail) > 0 {
		fmt.Fprintf(&sb, "fail_on %s\n", strings.Join(fail, " "))
	}
	if has(c.Only1, name) {
		fmt.Fprintf(&sb, "rcpt_only %s\n", firstRcpt)
	}
	if has(c.Early, name) && has(c.Everd, name) {
		sb.WriteString("early_reject yes\n")
	}
	return sb.String()
}

// configText returns the top-level blocks (module instances) and the pipeline
// configuration of a behaviour.
func configText(c Cfg, key string) (top, pipe string) {
	names := make([]string, 0, len(c.Place))
	for n := range c.Place {
		names = append(names, n)
	}
	sort.Strings(names)
	firstRcpt := "r1@" + blockDomain["D1"]
	if len(c.Route) > 0 {
		firstRcpt = "r1@" + blockDomain[c.Route[0]]
	}
	var tb strings.Builder
	ref := map[string]string{} // check name -> directive text used inside a block
	for _, n := range names {
		sc := c.Place[n]
		mod := "verif_scripted"
		if has(c.Early, n) {
			mod = "verif_scripted_early" // the same check with the module.EarlyCheck hook
		}
		switch {
		case len(sc) == 0:
			continue
		case len(sc) == 1:
			ref[n] = "check {\n" + mod + " {\n" + checkBody(c, key, n, firstRcpt) + "}\n}\n"
		default:
			fmt.Fprintf(&tb, "checks %s_%s {\n%s {\n%s}\n}\n", key, n, mod, checkBody(c, key, n, firstRcpt))
			ref[n] = fmt.Sprintf("check &%s_%s\n", key, n)
		}
	}
	for _, t := range []string{"T1", "T2"} {
		if (c.Kind == "rpipe" || c.Kind == "qpipe") && t == "T1" {
			continue // the real remote target, registered by the caller under the same name
		}
		fmt.Fprintf(&tb, "target.verif_rec %s_%s {\nid %s\nctl %s\n}\n", key, t, t, key)
	}
	in := func(scope string) string {
		var sb strings.Builder
		for _, n := range names {
			if has(c.Place[n], scope) {
				sb.WriteString(ref[n])
			}
		}
		return sb.String()
	}
	var pb strings.Builder
	pb.WriteString(in("G"))
	if c.Dmarc != "off" && c.Dmarc != "" {
		// DMARC needs DKIM and SPF results to evaluate: an extra (unscripted) check supplies failing ones
		pb.WriteString("check {\nverif_authres\n}\ndmarc yes\n")
	}
	if c.From == "null" {
		// the null reverse-path matches no source rule: the block under test is the default source
		pb.WriteString("source example.org {\nreject\n}\ndefault_source {\n")
	} else {
		pb.WriteString("source example.org {\n")
	}
	pb.WriteString(in("S"))
	for _, b := range []string{"D1", "D2"} {
		mod := ""
		if c.Mod == "on" {
			// a recipient modifier of the destination block that fails for the listed addresses
			mod = fmt.Sprintf("modify {\nverif_mod {\nid %s\nctl %s\n", b, key)
			var fail []string
			for i, blk := range c.Route {
				if r := fmt.Sprintf("r%d", i+1); blk == b && has(c.Mfail, r) {
					fail = append(fail, r+"@"+blockDomain[b])
				}
			}
			if len(fail) > 0 {
				mod += "fail_rcpt " + strings.Join(fail, " ") + "\n"
			}
			mod += "}\n}\n"
		}
		fmt.Fprintf(&pb, "destination %s {\n%s%sdeliver_to &%s_%s\n}\n", blockDomain[b], in(b), mod, key, blockTarget[b])
	}
	pb.WriteString("default_destination {\nreject\n}\n}\n")
	if c.From != "null" {
		pb.WriteString("default_source {\nreject\n}\n")
	}
	return tb.String(), pb.String()
}

// registerInstances does for the given top-level blocks what maddy.RegisterModules does.
func registerInstances(text string) error {
	nodes, err := parser.Read(strings.NewReader(text), "verif-top.conf")
	if err != nil {
		return err
	}
	for _, block := range nodes {
		if len(block.Args) == 0 {
			return fmt.Errorf("block %s without instance name", block.Name)
		}
		factory := module.Get(block.Name)
		if factory == nil {
			return fmt.Errorf("unknown module %s", block.Name)
		}
		if module.HasInstance(block.Args[0]) {
			return fmt.Errorf("config block named %s already exists", block.Args[0])
		}
		inst, err := factory(block.Name, block.Args[0], nil, nil)
		if err != nil {
			return err
		}
		module.RegisterInstance(inst, config.NewMap(nil, block))
	}
	return nil
}

// fakeDNS publishes a quarantine DMARC policy for the sender's domain. Like a real resolver it
// takes its time and gives up when the context of the query is cancelled: the query parks until
// the driver releases it (when no check call is left to release), then answers - or fails if the
// pipeline has cancelled the lookup meanwhile.
type fakeDNS struct {
	mu     sync.Mutex
	parked []chan struct{}
	zone   map[string]string // lower-case "_dmarc.<domain>" -> TXT record; absent = no such name
}

func (f *fakeDNS) release() bool {
	f.mu.Lock()
	defer f.mu.Unlock()
	if len(f.parked) == 0 {
		return false
	}
	close(f.parked[0])
	f.parked = f.parked[1:]
	return true
}

func notFound(name string) error {
	return &net.DNSError{Err: "no such host", Name: name, IsNotFound: true}
}
func (f *fakeDNS) LookupAddr(ctx context.Context, addr string) ([]string, error) {
	return nil, notFound(addr)
}
func (f *fakeDNS) LookupHost(ctx context.Context, host string) ([]string, error) {
	return nil, notFound(host)
}
func (f *fakeDNS) LookupMX(ctx context.Context, name string) ([]*net.MX, error) {
	return nil, notFound(name)
}
func (f *fakeDNS) LookupIPAddr(ctx context.Context, host string) ([]net.IPAddr, error) {
	return nil, notFound(host)
}
func (f *fakeDNS) LookupTXT(ctx context.Context, name string) ([]string, error) {
	key := strings.ToLower(strings.TrimSuffix(name, "."))
	if strings.HasPrefix(key, "_dmarc.") {
		gate := make(chan struct{})
		f.mu.Lock()
		f.parked = append(f.parked, gate)
		f.mu.Unlock()
		<-gate
		if err := ctx.Err(); err != nil {
			return nil, err
		}
		if rec, ok := f.zone[key]; ok {
			return []string{rec}, nil
		}
	}
	return nil, notFound(name)
}

func errInfo(err error) (res string, code int) {
	if err == nil {
		return "ok", 0
	}
	var se *exterrors.SMTPError
	if errors.As(err, &se) {
		return "err", se.Code
	}
	return "err", 0
}

type driver struct {
	t     *testing.T
	tr    *vtrace.Tracer
	ctl   *scripted.CheckCtl
	hints []Call
	n     int
	dns   *fakeDNS
}

// pick chooses the parked call to release next: the first not yet consumed call
// of the behaviour that is parked now, else the parked call of the first check.
func (d *driver) pick(parked []*scripted.ParkedCall) *scripted.ParkedCall {
	for i, h := range d.hints {
		for _, p := range parked {
			if p.Check == h.C && p.Stage == h.Stage && p.Arg == h.Arg {
				d.hints = append(d.hints[:i:i], d.hints[i+1:]...)
				return p
			}
		}
	}
	return parked[0]
}

// cmd issues one command on the pipeline and decides the completion order of
// the check goroutines it starts.
func (d *driver) cmd(op, r string, f func()) {
	d.n++
	d.ctl.SetCmd(d.n)
	d.tr.Emit("Cmd", vtrace.Ev{"op": op, "r": r})
	done := make(chan struct{})
	go func() {
		defer close(done)
		f()
	}()
	for {
		synctest.Wait()
		select {
		case <-done:
			// checks the command did not wait for
			for {
				synctest.Wait()
				parked := d.ctl.Parked()
				if len(parked) == 0 {
					if d.dns.release() { // a policy lookup the command did not wait for
						continue
					}
					return
				}
				d.ctl.Release(d.pick(parked))
			}
		default:
		}
		parked := d.ctl.Parked()
		if len(parked) == 0 {
			if d.dns.release() { // every check has answered: now the DMARC policy lookup does
				continue
			}
			d.t.Fatalf("command %s %s is blocked but no check call is parked", op, r)
		}
		d.ctl.Release(d.pick(parked))
	}
}

func (d *driver) ret(op, r string, err error) bool {
	res, code := errInfo(err)
	d.tr.Emit("Ret", vtrace.Ev{"op": op, "r": r, "res": res, "code": code, "st": map[string]string{}})
	return err == nil
}

func cfgEvent(c Cfg) vtrace.Ev {
	only := c.Only1
	if only == nil {
		only = []string{}
	}
	mfail := c.Mfail
	if mfail == nil {
		mfail = []string{}
	}
	nafin := c.Nafin
	if nafin != "abort" {
		nafin = "commit"
	}
	mod := c.Mod
	if mod != "on" {
		mod = "off"
	}
	dupof := make([]int, len(c.Route))
	copy(dupof, c.Dupof)
	dmvia := c.Dmvia
	if dmvia == "" {
		dmvia = "-"
	}
	early, everd := c.Early, c.Everd
	if early == nil {
		early = []string{}
	}
	if everd == nil {
		everd = []string{}
	}
	return vtrace.Ev{"place": c.Place, "verd": c.Verd, "only1": only, "route": c.Route,
		"path": c.Path, "dmarc": c.Dmarc, "kind": c.Kind, "mod": mod, "mfail": mfail, "nafin": nafin,
		"dupof": dupof, "dmvia": dmvia, "early": early, "everd": everd, "eon": c.Eon}
}

func runPipeline(t *testing.T, b Behaviour, w *bufio.Writer) {
	synctest.Test(t, func(t *testing.T) {
		key := fmt.Sprintf("vb%d", b.ID)
		tr := vtrace.New(w, b.ID)
		ctl := scripted.NewCheckCtl(tr, rcptID)
		scripted.BindCheckCtl(key, ctl)
		defer scripted.UnbindCheckCtl(key)

		top, pipe := configText(b.Cfg, key)
		var rw *remoteBehind
		if b.Cfg.Kind == "rpipe" || b.Cfg.Kind == "qpipe" {
			if b.Cfg.Kind == "rpipe" {
				rw = newRemoteBehind(tr, key+"_T1", "T1")
			} else {
				rw = newQueueBehind(t, tr, key+"_T1", "T1")
			}
			defer rw.close()
			module.RegisterInstance(rw, nil)
			module.Initialized[key+"_T1"] = true
		}
		if err := registerInstances(top); err != nil {
			t.Fatalf("behaviour %d: %v\n%s", b.ID, err, top)
		}
		nodes, err := parser.Read(strings.NewReader(pipe), "verif-pipeline.conf")
		if err != nil {
			t.Fatalf("behaviour %d: %v\n%s", b.ID, err, pipe)
		}
		p, err := msgpipeline.New(nil, nodes)
		if err != nil {
			t.Fatalf("behaviour %d: msgpipeline.New: %v\n%s\n%s", b.ID, err, top, pipe)
		}
		p.Hostname = "mx.example.org"
		p.Log = log.Logger{Out: log.NopOutput{}}
		dns := &fakeDNS{}
		fromDomain := orgDomain
		if b.Cfg.Dmarc != "off" && b.Cfg.Dmarc != "" {
			fromDomain, dns.zone = dmarcScenario(b.Cfg.Dmarc, b.Cfg.Dmvia)
		}
		p.Resolver = dns

		message := func(tr *vtrace.Tracer, msgID string) {
			tr.Emit("Cfg", cfgEvent(b.Cfg))
			d := &driver{t: t, tr: tr, ctl: ctl, dns: dns}
			for _, c := range b.Calls {
				if c.A == "call" {
					d.hints = append(d.hints, c)
				}
			}
			ctx := context.Background()
			meta := &module.MsgMetadata{ID: msgID, OriginalFrom: sender, SMTPOpts: smtp.MailOptions{}}

			if b.Cfg.Eon {
				// the connection-time entry: what the endpoint calls for a new connection, before any message
				var e error
				d.cmd("early", "", func() {
					e = p.RunEarlyChecks(ctx, &module.ConnState{Proto: "ESMTP", Hostname: "client.example",
						RemoteAddr: &net.TCPAddr{IP: net.IPv4(192, 0, 2, 1), Port: 1025}})
				})
				if !d.ret("early", "", e) {
					tr.Emit("End", nil) // connection refused: no message
					return
				}
			}

			var dl module.Delivery
			from := sender
			if b.Cfg.From == "null" {
				from = ""
			}
			meta.OriginalFrom = from
			d.cmd("start", "", func() { dl, err = p.Start(ctx, meta, from) })
			if !d.ret("start", "", err) {
				tr.Emit("End", nil)
				return
			}
			accepted := 0
			var acceptedAddrs []string // one entry per accepted RCPT command
			for i := range b.Cfg.Route {
				r, addr := b.Cfg.rcptAt(i)
				var e error
				d.cmd("rcpt", r, func() { e = dl.AddRcpt(ctx, addr, smtp.RcptOptions{}) })
				if d.ret("rcpt", r, e) {
					accepted++
					acceptedAddrs = append(acceptedAddrs, addr)
				}
			}
			fin := "commit"
			if accepted == 0 {
				fin = "abort"
			} else {
				hdr := textproto.Header{}
				hdr.Add("Subject", "verif")
				hdr.Add("From", "<s@"+fromDomain+">")
				body := buffer.MemoryBuffer{Slice: []byte("hello\r\n")}
				if b.Cfg.Path == "na" {
					// one reply slot per accepted RCPT command, as in go-smtp's LMTP collector; a slot nobody
					// fills ends up with the answer of the final Commit (a target without BodyNonAtomic reports
					// failures only; the LMTP endpoint always commits, and the pipeline's Commit succeeds)
					col := newSlotCollector(acceptedAddrs)
					d.cmd("body", "", func() { dl.(module.PartialDelivery).BodyNonAtomic(ctx, col, hdr, body) })
					st, anyOK, code, empty := col.result(nil)
					res := "err"
					if anyOK {
						res = "ok"
					}
					tr.Emit("Ret", vtrace.Ev{"op": "body", "r": "", "res": res, "code": code, "st": st,
						"emptySlots": empty, "slotErrors": col.bad})
					if res != "ok" && b.Cfg.Nafin == "abort" {
						fin = "abort"
					}
				} else {
					var e error
					d.cmd("body", "", func() { e = dl.Body(ctx, hdr, body) })
					if !d.ret("body", "", e) {
						fin = "abort"
					}
				}
			}
			var e error
			if fin == "commit" {
				d.cmd("commit", "", func() { e = dl.Commit(ctx) })
			} else {
				d.cmd("abort", "", func() { e = dl.Abort(ctx) })
			}
			d.ret(fin, "", e)
			if rw != nil && rw.relayed != nil {
				// the committed queue delivers on its own goroutine (fake clock of the bubble)
				for i := 0; i < 3 && !rw.relayed(); i++ {
					synctest.Wait()
					if !rw.relayed() {
						time.Sleep(time.Second)
					}
				}
				synctest.Wait()
			}
			tr.Emit("End", nil)
		}
		message(tr, fmt.Sprintf("verif%d", b.ID))
		if b.Again && b.Cfg.Kind == "pipe" {
			synctest.Wait()
			tr2 := vtrace.New(w, b.ID+AgainOffset)
			ctl.Tr = tr2 // checks, targets and modifiers of this pipeline log through the controller
			message(tr2, fmt.Sprintf("verif%dagain", b.ID))
		}
	})
}

// ---------------------------------------------------------------------------
// kind "rpipe": the real remote.Target behind destination block D1, talking SMTP over
// in-memory connections to a next hop that accepts everything and counts the messages
// it was handed. The wrapper only observes: it logs every call with the result class
// and the quarantine flag and passes everything through.

type miniHop struct {
	mu   sync.Mutex
	msgs int
}

func (h *miniHop) count() int {
	h.mu.Lock()
	defer h.mu.Unlock()
	return h.msgs
}

func (h *miniHop) dial(ctx context.Context, network, addr string) (net.Conn, error) {
	c, s := net.Pipe()
	go h.serve(s)
	return c, nil
}

func (h *miniHop) serve(c net.Conn) {
	defer c.Close()
	rd := bufio.NewReader(c)
	wr := func(s string) bool { _, err := c.Write([]byte(s + "\r\n")); return err == nil }
	if !wr("220 hop.d1.example ESMTP") {
		return
	}
	for {
		line, err := rd.ReadString('\n')
		if err != nil {
			return
		}
		verb := strings.ToUpper(strings.TrimRight(line, "\r\n"))
		if i := strings.IndexByte(verb, ' '); i >= 0 {
			verb = verb[:i]
		}
		switch verb {
		case "EHLO", "HELO":
			wr("250-hop.d1.example\r\n250 8BITMIME")
		case "DATA":
			if !wr("354 go ahead") {
				return
			}
			for {
				l, err := rd.ReadString('\n')
				if err != nil {
					return
				}
				if l == ".\r\n" {
					break
				}
			}
			h.mu.Lock()
			h.msgs++
			h.mu.Unlock()
			wr("250 2.0.0 accepted")
		case "QUIT":
			wr("221 2.0.0 bye")
			return
		default: // MAIL, RCPT, RSET, NOOP
			wr("250 2.0.0 ok")
		}
	}
}

func remoteClass(err error) string {
	if err == nil {
		return "ok"
	}
	// a refusal by policy (5yz with enhanced code 5.7.z, as for "Refusing to deliver a
	// quarantined message") - not a failed lookup, connection or transfer
	var se *exterrors.SMTPError
	if errors.As(err, &se) && se.Code/100 == 5 && se.EnhancedCode[0] == 5 && se.EnhancedCode[1] == 7 {
		return "perm"
	}
	// the atomic Body of the remote target folds several per-recipient statuses into one error
	if f, ok := err.(interface{ Fields() map[string]interface{} }); ok {
		if errs, ok := f.Fields()["errs"].(map[string]error); ok && len(errs) > 0 {
			for _, e := range errs {
				if remoteClass(e) != "perm" {
					return "fail"
				}
			}
			return "perm"
		}
	}
	return "fail"
}

type remoteBehind struct {
	name, id string
	tr       *vtrace.Tracer
	rt       module.DeliveryTarget // the real target that is observed
	hop      *miniHop
	closer   func()
	relayed  func() bool // qpipe: the queue handed the message on
}

func newRemoteBehind(tr *vtrace.Tracer, instName, id string) *remoteBehind {
	hop := &miniHop{}
	zones := map[string]mockdns.Zone{}
	for _, d := range blockDomain {
		zones[d+"."] = mockdns.Zone{MX: []net.MX{{Host: "mx." + d + ".", Pref: 10}}}
		zones["mx."+d+"."] = mockdns.Zone{A: []string{"127.0.0.1"}}
	}
	nolog := log.Logger{Out: log.NopOutput{}}
	rt := remote.VerifRemoteNewTarget(remote.VerifRemoteConfig{
		Hostname: "mx.example.org",
		Resolver: &mockdns.Resolver{Zones: zones},
		Dialer:   hop.dial,
		Pool: pool.Config{MaxKeys: 5000, MaxConnsPerKey: 5, MaxConnLifetimeSec: 150,
			StaleKeyLifetimeSec: 300},
		ConnReuseLimit:    10,
		ConnectTimeout:    20 * time.Second,
		CommandTimeout:    20 * time.Second,
		SubmissionTimeout: 20 * time.Second,
		Log:               nolog,
	})
	return &remoteBehind{name: instName, id: id, tr: tr, rt: rt, hop: hop, closer: func() { rt.Close() }}
}

// kind "qpipe": the real queue behind destination block D1 and the real remote target behind the
// queue (in-memory next hop). An observer between the two records, as call "relay" on "Q1", the
// quarantine flag of the metadata the queue hands over when it delivers the message and whether
// the remote target refused it.
type relayTarget struct {
	tr    *vtrace.Tracer
	inner module.DeliveryTarget
	mu    sync.Mutex
	seen  bool
}

type relayDelivery struct {
	t     *relayTarget
	meta  *module.MsgMetadata
	inner module.Delivery
	first bool
}

func (t *relayTarget) Start(ctx context.Context, msgMeta *module.MsgMetadata, mailFrom string) (module.Delivery, error) {
	d, err := t.inner.Start(ctx, msgMeta, mailFrom)
	if err != nil {
		return nil, err
	}
	return &relayDelivery{t: t, meta: msgMeta, inner: d, first: true}, nil
}
func (d *relayDelivery) AddRcpt(ctx context.Context, to string, opts smtp.RcptOptions) error {
	err := d.inner.AddRcpt(ctx, to, opts)
	if d.first {
		d.first = false
		d.t.tr.Emit("TgtCall", vtrace.Ev{"tgt": "Q1", "op": "relay", "arg": "", "res": remoteClass(err), "q": d.meta.Quarantine})
		d.t.mu.Lock()
		d.t.seen = true
		d.t.mu.Unlock()
	}
	return err
}
func (d *relayDelivery) Body(ctx context.Context, h textproto.Header, b buffer.Buffer) error {
	if b == nil {
		// a queue entry committed without a body (only broken code gets here): do not let the
		// remote target crash the process on it
		return errors.New("relay of a queue entry that has no body")
	}
	return d.inner.Body(ctx, h, b)
}
func (d *relayDelivery) Commit(ctx context.Context) error { return d.inner.Commit(ctx) }
func (d *relayDelivery) Abort(ctx context.Context) error  { return d.inner.Abort(ctx) }

func newQueueBehind(t *testing.T, tr *vtrace.Tracer, instName, id string) *remoteBehind {
	dir, err := os.MkdirTemp(os.Getenv("VERIF_TMP"), "c06spool")
	if err != nil {
		t.Fatal(err)
	}
	rb := newRemoteBehind(tr, instName+"_remote", "R")
	rel := &relayTarget{tr: tr, inner: rb.rt}
	q, err := queue.VerifNewQueue(queue.VerifConfig{
		Location: dir, Target: rel, MaxTries: 1, MaxParallelism: 1,
		InitialRetryTime: time.Minute, RetryTimeScale: 1, PostInitDelay: 0,
		Hostname: "mx.example.org", AutogenMsgDomain: "example.org",
		Log: log.Logger{Out: log.NopOutput{}},
	})
	if err != nil {
		t.Fatal(err)
	}
	return &remoteBehind{name: instName, id: id, tr: tr, rt: q, hop: &miniHop{},
		closer:  func() { q.Close(); rb.close(); os.RemoveAll(dir) },
		relayed: func() bool { rel.mu.Lock(); defer rel.mu.Unlock(); return rel.seen }}
}

func (w *remoteBehind) Init(*config.Map) error { return nil }
func (w *remoteBehind) Name() string           { return "target.remote" }
func (w *remoteBehind) InstanceName() string   { return w.name }
func (w *remoteBehind) close()                 { w.closer() }

func (w *remoteBehind) log(op, arg, res string, meta *module.MsgMetadata) {
	w.tr.Emit("TgtCall", vtrace.Ev{"tgt": w.id, "op": op, "arg": arg, "res": res, "q": meta.Quarantine,
		"hop": w.hop.count()})
}

type remoteBehindDelivery struct {
	w    *remoteBehind
	meta *module.MsgMetadata
	d    module.Delivery
}

func (w *remoteBehind) Start(ctx context.Context, msgMeta *module.MsgMetadata, mailFrom string) (module.Delivery, error) {
	d, err := w.rt.Start(ctx, msgMeta, mailFrom)
	w.log("start", "", remoteClass(err), msgMeta)
	if err != nil {
		return nil, err
	}
	rd := &remoteBehindDelivery{w: w, meta: msgMeta, d: d}
	if _, ok := d.(module.PartialDelivery); ok {
		return remoteBehindPartial{rd}, nil
	}
	return rd, nil
}

type remoteBehindPartial struct{ *remoteBehindDelivery }

func (d *remoteBehindDelivery) AddRcpt(ctx context.Context, to string, opts smtp.RcptOptions) error {
	err := d.d.AddRcpt(ctx, to, opts)
	d.w.log("rcpt", rcptID(to), remoteClass(err), d.meta)
	return err
}

// relayed: whatever was answered, content that reached the next hop was not refused
func (d *remoteBehindDelivery) bodyRes(before int, res string) string {
	if d.w.hop.count() > before {
		return "ok"
	}
	return res
}

func (d *remoteBehindDelivery) Body(ctx context.Context, h textproto.Header, b buffer.Buffer) error {
	before := d.w.hop.count()
	err := d.d.Body(ctx, h, b)
	d.w.log("body", "", d.bodyRes(before, remoteClass(err)), d.meta)
	return err
}

type tee struct {
	mu    sync.Mutex
	inner module.StatusCollector
	res   []string
}

func (t *tee) SetStatus(rcpt string, err error) {
	t.mu.Lock()
	t.res = append(t.res, remoteClass(err))
	t.mu.Unlock()
	t.inner.SetStatus(rcpt, err)
}

func (d remoteBehindPartial) BodyNonAtomic(ctx context.Context, c module.StatusCollector, h textproto.Header, b buffer.Buffer) {
	before := d.w.hop.count()
	t := &tee{inner: c}
	d.d.(module.PartialDelivery).BodyNonAtomic(ctx, t, h, b)
	res := "perm" // refused for every recipient
	for _, r := range t.res {
		if r == "ok" {
			res = "ok"
			break
		}
		if r != "perm" {
			res = "fail"
		}
	}
	if len(t.res) == 0 {
		res = "fail"
	}
	d.w.log("bodyNA", "", d.bodyRes(before, res), d.meta)
}

func (d *remoteBehindDelivery) Commit(ctx context.Context) error {
	err := d.d.Commit(ctx)
	d.w.log("commit", "", remoteClass(err), d.meta)
	return err
}

func (d *remoteBehindDelivery) Abort(ctx context.Context) error {
	err := d.d.Abort(ctx)
	d.w.log("abort", "", remoteClass(err), d.meta)
	return err
}

// runRemote hands the real remote target a message that is already flagged as
// quarantined (as the queue would) and records whether it refuses it.
func runRemote(t *testing.T, b Behaviour, w *bufio.Writer) {
	tr := vtrace.New(w, b.ID)
	tr.Emit("Cfg", cfgEvent(b.Cfg))
	mod, err := remote.New("target.remote", fmt.Sprintf("verif_remote_%d", b.ID), nil, nil)
	if err != nil {
		t.Fatal(err)
	}
	rt := mod.(*remote.Target)
	rt.Log = log.Logger{Out: log.NopOutput{}}
	if err := rt.Init(config.NewMap(nil, config.Node{Children: []config.Node{
		{Name: "hostname", Args: []string{"mx.example.org"}},
	}})); err != nil {
		t.Fatal(err)
	}
	defer rt.Close()
	class := func(err error) string {
		if err == nil {
			return "ok"
		}
		// a refusal by policy (5yz with enhanced code 5.7.z, as for "Refusing to deliver a
		// quarantined message") - not a failed lookup or connection attempt, which is what an
		// accepted recipient runs into in this offline scenario
		var se *exterrors.SMTPError
		if errors.As(err, &se) && se.Code/100 == 5 && se.EnhancedCode[0] == 5 && se.EnhancedCode[1] == 7 {
			return "perm"
		}
		return "fail"
	}
	ctx := context.Background()
	meta := &module.MsgMetadata{ID: fmt.Sprintf("verifr%d", b.ID), OriginalFrom: sender, Quarantine: true}
	dl, err := rt.Start(ctx, meta, sender)
	tr.Emit("TgtCall", vtrace.Ev{"tgt": "remote", "op": "start", "arg": "", "res": class(err), "q": meta.Quarantine})
	if err == nil {
		err = dl.AddRcpt(ctx, "r1@d1.example", smtp.RcptOptions{})
		tr.Emit("TgtCall", vtrace.Ev{"tgt": "remote", "op": "rcpt", "arg": "r1", "res": class(err), "q": meta.Quarantine})
		dl.Abort(ctx)
	}
	tr.Emit("End", nil)
}

func TestReplay(t *testing.T) {
	in, out := os.Getenv("VERIF_IN"), os.Getenv("VERIF_OUT")
	if in == "" || out == "" {
		t.Skip("VERIF_IN / VERIF_OUT not set")
	}
	f, err := os.Open(in)
	if err != nil {
		t.Fatal(err)
	}
	defer f.Close()
	of, err := os.Create(out)
	if err != nil {
		t.Fatal(err)
	}
	defer of.Close()
	w := bufio.NewWriter(of)
	defer w.Flush()
	log.DefaultLogger.Out = log.NopOutput{}
	sc := bufio.NewScanner(f)
	sc.Buffer(make([]byte, 1<<20), 1<<26)
	n := 0
	for sc.Scan() {
		var b Behaviour
		if err := json.Unmarshal(sc.Bytes(), &b); err != nil {
			t.Fatalf("bad behaviour line: %v", err)
		}
		if b.Cfg.Kind == "remote" {
			runRemote(t, b, w)
		} else {
			runPipeline(t, b, w)
		}
		n++
	}
	t.Logf("replayed %d behaviours", n)
}
