package checkrunnercheck

// Stand-alone reproduction of finding C06-F40 on the real code
// (in /verif/harness: go1.26 test -tags verif -run TestReproDupRcptAfterReject -v ./checkrunnercheck).
// It only prints what happens; the verdict is the business of bin/check C06.

import (
	"context"
	"fmt"
	"strings"
	"testing"

	"github.com/emersion/go-message/textproto"
	"github.com/emersion/go-smtp"
	"github.com/foxcpp/maddy/framework/buffer"
	parser "github.com/foxcpp/maddy/framework/cfgparser"
	"github.com/foxcpp/maddy/framework/log"
	"github.com/foxcpp/maddy/framework/module"
	"github.com/foxcpp/maddy/internal/msgpipeline"
	"github.com/foxcpp/maddy/verifharness/scripted"
	"github.com/foxcpp/maddy/verifharness/vtrace"
)

func reproDup(t *testing.T, key string, c Cfg) (rejectedThenAccepted bool) {
	tr := vtrace.New(nil, 1)
	tr.Keep = true
	ctl := scripted.NewCheckCtl(tr, rcptID)
	ctl.NoGate = true
	scripted.BindCheckCtl(key, ctl)
	defer scripted.UnbindCheckCtl(key)
	top, pipe := configText(c, key)
	if err := registerInstances(top); err != nil {
		t.Fatal(err)
	}
	nodes, err := parser.Read(strings.NewReader(pipe), "repro.conf")
	if err != nil {
		t.Fatal(err)
	}
	p, err := msgpipeline.New(nil, nodes)
	if err != nil {
		t.Fatal(err)
	}
	p.Hostname = "mx.example.org"
	p.Log = log.Logger{Out: log.NopOutput{}}
	ctx := context.Background()
	meta := &module.MsgMetadata{ID: key, OriginalFrom: sender, SMTPOpts: smtp.MailOptions{}}
	dl, err := p.Start(ctx, meta, sender)
	if err != nil {
		t.Fatal(err)
	}
	refused := map[string]bool{}
	accepted := 0
	for i := range c.Route {
		_, addr := c.rcptAt(i)
		e := dl.AddRcpt(ctx, addr, smtp.RcptOptions{})
		fmt.Printf("RCPT TO:<%s> -> %v\n", addr, e)
		if e != nil {
			refused[addr] = true
		} else {
			accepted++
			if refused[addr] {
				rejectedThenAccepted = true
			}
		}
	}
	if accepted > 0 {
		hdr := textproto.Header{}
		hdr.Add("From", "<"+sender+">")
		fmt.Printf("DATA -> %v\n", dl.Body(ctx, hdr, buffer.MemoryBuffer{Slice: []byte("hi\r\n")}))
		fmt.Printf("commit -> %v\n", dl.Commit(ctx))
	} else {
		dl.Abort(ctx)
	}
	for _, e := range tr.Evs {
		switch e["e"] {
		case "CheckCall":
			fmt.Printf("  check %v (state %v) %v %v -> %v\n", e["c"], e["sid"], e["stage"], e["arg"], e["v"])
		case "TgtCall":
			fmt.Printf("  target %v %v %v\n", e["tgt"], e["op"], e["arg"])
		}
	}
	return rejectedThenAccepted
}

// C06-F40: a check rejects RCPT TO:<r1@d1.example>; the client repeats the command: the check is
// not asked again (its state has "seen" the recipient) and the recipient is accepted and delivered.
func TestReproDupRcptAfterReject(t *testing.T) {
	rej := map[string]map[string]string{"c1": {"conn": "none", "sender": "none", "rcpt": "reject", "body": "none"}}
	fmt.Println("(a) the check sits in the pipeline-wide block (its state is kept): RCPT r1, RCPT r1")
	a := reproDup(t, "repro40a", Cfg{Place: map[string][]string{"c1": {"G"}}, Verd: rej,
		Route: []string{"D1", "D1"}, Dupof: []int{0, 1}, Path: "atomic", Dmarc: "off", Kind: "pipe"})
	fmt.Println("(b) the check sits in the destination block and rejects r1 only: RCPT r1, RCPT r2, RCPT r1")
	b := reproDup(t, "repro40b", Cfg{Place: map[string][]string{"c1": {"D1"}}, Verd: rej, Only1: []string{"c1"},
		Route: []string{"D1", "D1", "D1"}, Dupof: []int{0, 0, 1}, Path: "atomic", Dmarc: "off", Kind: "pipe"})
	if a {
		fmt.Println("REPRODUCED (a): the recipient the check rejected was accepted when the command was repeated")
	}
	if b {
		fmt.Println("REPRODUCED (b): the recipient the check rejected was accepted when the command was repeated")
	}
}
