package checkrunnercheck

// Dimensions of CheckRunner.tla beyond placement x verdicts x routes x completion orders
// (see the header of spec/CheckRunner.tla and spec/CheckRunnerObs.tla):
//
//   - dmarc / dmvia: the action the published DMARC policy prescribes (none / quar / rej) and
//     the way it is published.  The design spec is independent of dmvia (TLC only enumerates
//     it); here it decides the From domain of the message and the TXT records served.
//   - dupof: the address of a RCPT command may repeat an earlier one; the per-recipient body
//     path is observed through a collector with go-smtp's LMTP semantics (one reply slot per
//     RCPT command).
//   - early / everd: see scripted/check_early.go.

import (
	"fmt"
	"strings"
	"sync"
)

var dmarcWord = map[string]string{"none": "none", "quar": "quarantine", "rej": "reject"}

// a policy that is NOT the one the scenario prescribes (it sits in the tag that must not apply)
var dmarcOther = map[string]string{"none": "reject", "quar": "none", "rej": "none"}

const orgDomain = "example.org"
const subDomain = "sub.example.org"

// dmarcScenario returns the domain of the From header and the TXT records (lower-case owner
// name -> record; names that are absent do not exist) for "the published policy prescribes
// `action` for this message", published the way `via` says:
//
//	p       From example.org,     _dmarc.example.org      "p=X"
//	psp     From example.org,     _dmarc.example.org      "p=X; sp=Y"   (sp is for subdomains only)
//	upper   From EXAMPLE.ORG,     _dmarc.example.org      "p=X; sp=Y; pct=100"
//	sp      From sub.example.org, nothing at the From domain, _dmarc.example.org "p=Y; sp=X"
//	suborg  From sub.example.org, nothing at the From domain, _dmarc.example.org "p=X" (no sp: p applies)
//	subown  From sub.example.org, _dmarc.sub.example.org  "p=X; sp=Y", _dmarc.example.org "p=Y; sp=Y"
func dmarcScenario(action, via string) (from string, zone map[string]string) {
	x, y := dmarcWord[action], dmarcWord[action]
	if w, ok := dmarcOther[action]; ok {
		y = w
	}
	if x == "" {
		panic("unknown DMARC action " + action)
	}
	rec := func(p, sp, extra string) string {
		s := "v=DMARC1; p=" + p
		if sp != "" {
			s += "; sp=" + sp
		}
		return s + extra
	}
	switch via {
	case "p", "", "-":
		return orgDomain, map[string]string{"_dmarc." + orgDomain: rec(x, "", "")}
	case "psp":
		return orgDomain, map[string]string{"_dmarc." + orgDomain: rec(x, y, "")}
	case "upper":
		return strings.ToUpper(orgDomain), map[string]string{"_dmarc." + orgDomain: rec(x, y, "; pct=100")}
	case "sp":
		return subDomain, map[string]string{"_dmarc." + orgDomain: rec(y, x, "")}
	case "suborg":
		return subDomain, map[string]string{"_dmarc." + orgDomain: rec(x, "", "")}
	case "subown":
		return subDomain, map[string]string{"_dmarc." + subDomain: rec(x, y, ""), "_dmarc." + orgDomain: rec(y, y, "")}
	}
	panic("unknown way of publishing a DMARC policy: " + via)
}

// slotCollector is a module.StatusCollector with the semantics of go-smtp's LMTP collector
// (conn.go createStatusCollector / SetStatus / fillRemaining): every RCPT command the server
// accepted has one reply slot; SetStatus(addr) fills the next free slot of that address; a
// status for an address that was not given, or one more than its slots, is a protocol error
// (go-smtp panics); slots still empty when LMTPData returns get its return value.
type slotCollector struct {
	mu    sync.Mutex
	slots map[string]int     // address -> number of accepted RCPT commands
	got   map[string][]error // address -> statuses in order
	bad   []string           // protocol errors
}

func newSlotCollector(accepted []string) *slotCollector {
	c := &slotCollector{slots: map[string]int{}, got: map[string][]error{}, bad: []string{}}
	for _, a := range accepted {
		c.slots[a]++
	}
	return c
}

func (c *slotCollector) SetStatus(rcpt string, err error) {
	c.mu.Lock()
	defer c.mu.Unlock()
	switch {
	case c.slots[rcpt] == 0:
		c.bad = append(c.bad, "status for "+rcpt+" which is no accepted recipient")
	case len(c.got[rcpt]) >= c.slots[rcpt]:
		c.bad = append(c.bad, fmt.Sprintf("status %d for %s which was given %d time(s)", len(c.got[rcpt])+1, rcpt, c.slots[rcpt]))
	default:
		c.got[rcpt] = append(c.got[rcpt], err)
	}
}

// result: per recipient id "ok" iff some slot of the address ends with a success; empty slots
// get `rest` (what the caller of BodyNonAtomic answers for them; nil = success).
func (c *slotCollector) result(rest error) (st map[string]string, anyOK bool, code int, empty int) {
	c.mu.Lock()
	defer c.mu.Unlock()
	st = map[string]string{}
	for addr, n := range c.slots {
		id := rcptID(addr)
		all := append([]error{}, c.got[addr]...)
		for len(all) < n {
			all = append(all, rest)
			empty++
		}
		res := "err"
		for _, e := range all {
			if e == nil {
				res, anyOK = "ok", true
			} else if _, cd := errInfo(e); cd != 0 {
				code = cd
			}
		}
		st[id] = res
	}
	return
}
