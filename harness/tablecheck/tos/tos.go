// Package tos stands in for the identifiers of package os that
// internal/table/file.go uses (Stat, Open, IsNotExist). It is swapped in
// through `go build -overlay` at check time: the import "os" of a generated
// copy of file.go becomes os "github.com/foxcpp/maddy/verifharness/tablecheck/tos".
//
// Every call is passed through to the real file system. For a path registered
// with a Ctl the shim additionally
//   - parks the calling goroutine before the call until the controller
//     releases it (so that the test can edit the file between any two calls
//     reload() makes),
//   - cuts reads into chunks of Ctl.Chunk bytes (one line of the test files),
//   - can make Stat/Open fail with an injected error (EACCES cannot be produced
//     by a process running as root),
//   - reports each call and its result to Ctl.OnCall.
package tos

import (
	"io/fs"
	"os"
	"path/filepath"
	"sync"
)

type FileInfo = fs.FileInfo

func IsNotExist(err error) bool { return os.IsNotExist(err) }

// Ctl controls the calls made on one path.
type Ctl struct {
	Path string
	// Chunk limits the bytes returned by one Read (0 = no limit).
	Chunk int
	// OnCall is called in the calling goroutine right after the call was made.
	// op is "stat", "open" or "read"; data is what Read returned.
	OnCall func(op string, info fs.FileInfo, data []byte, err error)

	mu      sync.Mutex
	gated   bool
	kill    bool
	parked  string
	release chan struct{}
	statErr error
	openErr error
}

var (
	regMu sync.Mutex
	reg   = map[string]*Ctl{}
)

func Register(c *Ctl) {
	c.release = make(chan struct{})
	regMu.Lock()
	reg[filepath.Clean(c.Path)] = c
	regMu.Unlock()
}

func Unregister(c *Ctl) {
	regMu.Lock()
	delete(reg, filepath.Clean(c.Path))
	regMu.Unlock()
}

func ctlFor(path string) *Ctl {
	regMu.Lock()
	defer regMu.Unlock()
	return reg[filepath.Clean(path)]
}

// SetGated switches parking on or off.
func (c *Ctl) SetGated(on bool) { c.mu.Lock(); c.gated = on; c.mu.Unlock() }

// SetKill makes every later call on the path panic (used to end a reloader
// goroutine that a defect left running, through the reloader's own recover).
func (c *Ctl) SetKill() { c.mu.Lock(); c.kill = true; c.gated = false; c.mu.Unlock() }

// SetErrs injects errors for Stat and Open (nil = none).
func (c *Ctl) SetErrs(statErr, openErr error) {
	c.mu.Lock()
	c.statErr, c.openErr = statErr, openErr
	c.mu.Unlock()
}

// Parked tells which call a goroutine is waiting to make ("" = none).
func (c *Ctl) Parked() string { c.mu.Lock(); defer c.mu.Unlock(); return c.parked }

// Release lets the parked goroutine make its call.
func (c *Ctl) Release() { c.release <- struct{}{} }

func (c *Ctl) gate(op string) {
	c.mu.Lock()
	if c.kill {
		c.mu.Unlock()
		panic("tablecheck: reloader still running at the end of the run")
	}
	if !c.gated {
		c.mu.Unlock()
		return
	}
	c.parked = op
	c.mu.Unlock()
	<-c.release
	c.mu.Lock()
	c.parked = ""
	kill := c.kill
	c.mu.Unlock()
	if kill {
		panic("tablecheck: reloader still running at the end of the run")
	}
}

func Stat(name string) (fs.FileInfo, error) {
	c := ctlFor(name)
	if c == nil {
		return os.Stat(name)
	}
	c.gate("stat")
	c.mu.Lock()
	inj := c.statErr
	c.mu.Unlock()
	var (
		fi  fs.FileInfo
		err error
	)
	if inj != nil {
		err = &fs.PathError{Op: "stat", Path: name, Err: inj}
	} else {
		fi, err = os.Stat(name)
	}
	if c.OnCall != nil {
		c.OnCall("stat", fi, nil, err)
	}
	return fi, err
}

// File is what Open returns; file.go only reads from it.
type File struct {
	f *os.File
	c *Ctl
}

func Open(name string) (*File, error) {
	c := ctlFor(name)
	if c == nil {
		f, err := os.Open(name)
		if err != nil {
			return nil, err
		}
		return &File{f: f}, nil
	}
	c.gate("open")
	c.mu.Lock()
	inj := c.openErr
	c.mu.Unlock()
	var (
		f   *os.File
		err error
	)
	if inj != nil {
		err = &fs.PathError{Op: "open", Path: name, Err: inj}
	} else {
		f, err = os.Open(name)
	}
	if c.OnCall != nil {
		c.OnCall("open", nil, nil, err)
	}
	if err != nil {
		return nil, err
	}
	return &File{f: f, c: c}, nil
}

func (f *File) Read(p []byte) (int, error) {
	if f.c == nil {
		return f.f.Read(p)
	}
	f.c.gate("read")
	if f.c.Chunk > 0 && len(p) > f.c.Chunk {
		p = p[:f.c.Chunk]
	}
	n, err := f.f.Read(p)
	if f.c.OnCall != nil {
		f.c.OnCall("read", nil, p[:n], err)
	}
	return n, err
}

func (f *File) Close() error { return f.f.Close() }

func (f *File) Name() string { return f.f.Name() }
