package tablecheck

// TestRows runs input rows of spec/TableLookup.tla through the real table
// modules (constructed and configured the way the configuration parser does:
// factory + Init on a config.Node tree) and records the answers.
//
// Input (VERIF_IN): {"id":N,"in":{"tab":"static|identity|ewd|localpart|regexp|chain|file",...}}
// Output: {"t":N,"seq":1,"e":"Row","in":{...},"out":{"init","hasMulti","multi","val","ok"}}

import (
	"bufio"
	"context"
	"encoding/json"
	"fmt"
	"os"
	"path/filepath"
	"regexp"
	"strings"
	"testing"

	"github.com/foxcpp/maddy/framework/config"
	"github.com/foxcpp/maddy/framework/module"
	"github.com/foxcpp/maddy/internal/table"
	"github.com/foxcpp/maddy/verifharness/vtrace"
)

// chars joins a character sequence of the spec ("QUOTE" and "BSLASH" name " and \).
func chars(v interface{}) string {
	var sb strings.Builder
	arr, _ := v.([]interface{})
	for _, c := range arr {
		switch s := c.(string); s {
		case "QUOTE":
			sb.WriteByte('"')
		case "BSLASH":
			sb.WriteByte('\\')
		default:
			sb.WriteString(s)
		}
	}
	return sb.String()
}

func unchars(s string) []string {
	out := []string{}
	for _, r := range s {
		switch r {
		case '"':
			out = append(out, "QUOTE")
		case '\\':
			out = append(out, "BSLASH")
		default:
			out = append(out, string(r))
		}
	}
	return out
}

func yesno(v interface{}) string {
	if b, _ := v.(bool); b {
		return "yes"
	}
	return "no"
}

// inline builds the configuration node of an inline table definition, e.g.
// "step static { entry a x }" -> Node{Name: directive, Args: [modname, args...], Children: ...}
type tdef struct {
	name     string
	args     []string
	children []config.Node
}

func staticDef(entries []interface{}) tdef {
	d := tdef{name: "static"}
	for _, e := range entries {
		em := e.(map[string]interface{})
		args := []string{chars(em["k"])}
		for _, v := range em["vs"].([]interface{}) {
			args = append(args, chars(v))
		}
		d.children = append(d.children, config.Node{Name: "entry", Args: args})
	}
	return d
}

var comps = map[string]func() tdef{
	"S1": func() tdef {
		return tdef{name: "static", children: []config.Node{
			{Name: "entry", Args: []string{"a", "b"}}, {Name: "entry", Args: []string{"b", "c", "a"}}}}
	},
	"S2": func() tdef {
		return tdef{name: "static", children: []config.Node{
			{Name: "entry", Args: []string{"b", "x"}}, {Name: "entry", Args: []string{"c", "y"}}}}
	},
	"I": func() tdef { return tdef{name: "identity"} },
	"L": func() tdef { return tdef{name: "email_localpart"} },
	"E": func() tdef { return tdef{name: "email_with_domain", args: []string{"d.o"}} },
}

// build constructs the module like modconfig.ModuleFromNode does for an inline definition.
func build(d tdef) (module.Table, error) {
	modName := "table." + d.name
	factory := module.Get(modName)
	if factory == nil {
		return nil, fmt.Errorf("no such module %s", modName)
	}
	inst, err := factory(modName, "", nil, d.args)
	if err != nil {
		return nil, err
	}
	if err := inst.Init(config.NewMap(nil, config.Node{Name: d.name, Args: d.args, Children: d.children})); err != nil {
		return nil, err
	}
	tbl, ok := inst.(module.Table)
	if !ok {
		return nil, fmt.Errorf("%s is not a table", modName)
	}
	return tbl, nil
}

var fileLines = map[string]string{
	"kv":       "a: b",
	"kv2":      "a: c, d",
	"ws":       "  a  :  e  ",
	"other":    "d: f",
	"comment":  "# a: x",
	"empty":    "",
	"blank":    "   ",
	"nocolon":  "a",
	"novalue":  "a:",
	"nokey":    ": b",
	"icomment": "\t# a: x",
	"colonval": "d: g:h",
	"crlf":     "d: i\r",
	"emptyval": "d: j,,k",
}

// runRow answers one row; a panic of the table code is an answer too ("no crash" is part of the statement).
func runRow(t *testing.T, tmp string, in map[string]interface{}) (out map[string]interface{}) {
	tab, _ := in["tab"].(string)
	charTab := tab != "file"
	defer func() {
		if p := recover(); p != nil {
			var empty interface{} = ""
			if charTab {
				empty = []string{}
			}
			out = map[string]interface{}{"init": "panic", "hasMulti": false, "multi": []interface{}{}, "val": empty,
				"ok": false, "error": fmt.Sprint(p)}
		}
	}()
	var (
		tbl  module.Table
		err  error
		key  string
		done func()
	)
	if charTab {
		key = chars(in["key"])
	} else {
		key, _ = in["key"].(string)
	}
	switch tab {
	case "static":
		tbl, err = build(staticDef(in["entries"].([]interface{})))
	case "identity":
		tbl, err = build(tdef{name: "identity"})
	case "ewd":
		d := tdef{name: "email_with_domain"}
		for _, dom := range in["domains"].([]interface{}) {
			d.args = append(d.args, chars(dom))
		}
		tbl, err = build(d)
	case "localpart":
		if in["optional"].(bool) {
			tbl, err = build(tdef{name: "email_localpart_optional"})
		} else {
			tbl, err = build(tdef{name: "email_localpart"})
		}
	case "regexp":
		d := tdef{name: "regexp"}
		d.args = []string{regexp.QuoteMeta(chars(in["pre"])) + "(.+)" + regexp.QuoteMeta(chars(in["post"]))}
		for _, r := range in["repl"].([]interface{}) {
			d.args = append(d.args, chars(r)) // the token "$1" joins as the text $1
		}
		d.children = []config.Node{
			{Name: "full_match", Args: []string{yesno(in["full"])}},
			{Name: "case_insensitive", Args: []string{yesno(in["ci"])}},
		}
		switch in["dname"].(string) {
		case "doc":
			d.children = append(d.children, config.Node{Name: "expand_placeholders", Args: []string{yesno(in["expand"])}})
		case "code":
			d.children = append(d.children, config.Node{Name: "expand_replaceholders", Args: []string{yesno(in["expand"])}})
		}
		tbl, err = build(d)
	case "chain":
		d := tdef{name: "chain"}
		for _, s := range in["steps"].([]interface{}) {
			sm := s.(map[string]interface{})
			c := comps[sm["c"].(string)]()
			dir := "step"
			if sm["opt"].(bool) {
				dir = "optional_step"
			}
			d.children = append(d.children, config.Node{Name: dir, Args: append([]string{c.name}, c.args...), Children: c.children})
		}
		tbl, err = build(d)
	case "file":
		var sb strings.Builder
		lines := in["lines"].([]interface{})
		nonl, _ := in["nonl"].(bool)
		for i, l := range lines {
			sb.WriteString(fileLines[l.(string)])
			if !(nonl && i == len(lines)-1) {
				sb.WriteString("\n")
			}
		}
		p := filepath.Join(tmp, "rows-file")
		if werr := os.WriteFile(p, []byte(sb.String()), 0o644); werr != nil {
			t.Fatal(werr)
		}
		table.VerifForgetReloadHooks()
		tbl, err = build(tdef{name: "file", args: []string{p}})
		if err == nil {
			f := tbl.(*table.File)
			done = func() { f.Close() }
		}
	default:
		t.Fatalf("unknown tab %q", tab)
	}
	enc := func(s string) interface{} {
		if charTab {
			return unchars(s)
		}
		return s
	}
	if err != nil {
		return map[string]interface{}{"init": "err", "hasMulti": false, "multi": []interface{}{}, "val": enc(""), "ok": false,
			"error": err.Error()}
	}
	if done != nil {
		defer done()
	}
	out = map[string]interface{}{"init": "ok"}
	multi := []interface{}{}
	mt, hasMulti := tbl.(module.MultiTable)
	if hasMulti {
		vals, err := mt.LookupMulti(context.Background(), key)
		if err != nil {
			t.Fatalf("LookupMulti(%q): %v", key, err)
		}
		for _, v := range vals {
			multi = append(multi, enc(v))
		}
	}
	val, ok, err := tbl.Lookup(context.Background(), key)
	if err != nil {
		t.Fatalf("Lookup(%q): %v", key, err)
	}
	out["hasMulti"], out["multi"], out["val"], out["ok"] = hasMulti, multi, enc(val), ok
	return out
}

func TestRows(t *testing.T) {
	in, outp := os.Getenv("VERIF_IN"), os.Getenv("VERIF_OUT")
	if in == "" || outp == "" {
		t.Skip("VERIF_IN / VERIF_OUT not set")
	}
	tmp := os.Getenv("VERIF_TMP")
	if tmp == "" {
		tmp = t.TempDir()
	}
	fin, err := os.Open(in)
	if err != nil {
		t.Fatal(err)
	}
	defer fin.Close()
	fout, err := os.Create(outp)
	if err != nil {
		t.Fatal(err)
	}
	defer fout.Close()
	w := bufio.NewWriter(fout)
	defer w.Flush()
	sc := bufio.NewScanner(fin)
	sc.Buffer(make([]byte, 1<<20), 1<<26)
	for sc.Scan() {
		if len(strings.TrimSpace(sc.Text())) == 0 {
			continue
		}
		var row struct {
			ID int                    `json:"id"`
			In map[string]interface{} `json:"in"`
		}
		if err := json.Unmarshal(sc.Bytes(), &row); err != nil {
			t.Fatalf("bad row: %v", err)
		}
		out := runRow(t, tmp, row.In)
		tr := vtrace.New(w, row.ID)
		tr.Emit("Row", vtrace.Ev{"in": row.In, "out": out})
	}
	if err := sc.Err(); err != nil {
		t.Fatal(err)
	}
}
