#!/usr/bin/env python3
"""mutation drill for X01: x01_drill.py [names...]

Applies each edit to a scratch worktree of /repo under /tmp (created on demand, remove it afterwards with
`git -C /repo worktree remove --force /tmp/x01wt`), runs the package tests and `bin/check X01 --tier quick` against it."""
import os, subprocess, sys, shutil, json, re
WT = "/tmp/x01wt"
ENV = dict(os.environ, GOFLAGS="-mod=mod", GOPROXY="off", GOSUMDB="off", GOTOOLCHAIN="local")
F = "internal/table/file.go"
MUT = {
 "M1-no-stat2-compare": [(F, '''	if !info2.ModTime().Equal(info.ModTime()) {
		// file has changed in the meantime
		return
	}
''', '''	_ = info2
''')],
 "M2-no-settle-delay": [(F, "info.ModTime().Before(f.mStamp) || time.Since(info.ModTime()) < (reloadInterval/2)", "info.ModTime().Before(f.mStamp)")],
 "M5-reloader-survives-close": [(F, '''			f.stopReloader <- struct{}{}
			return
''', '''			f.stopReloader <- struct{}{}
''')],
 "M6-lookup-last-value": [(F, "return newVal[0], ok, nil", "return newVal[len(newVal)-1], ok, nil")],
 "M8-reload-event-ignored": [(F, '''		case <-f.forceReload:
			f.reload()
''', '''		case <-f.forceReload:
''')],
 "M10-recheck-before-read": [(F, '''	newm := make(map[string][]string, len(f.m)+5)
	if err := readFile(f.file, newm); err != nil {''', '''	if info2, err := os.Stat(f.file); err != nil || !info2.ModTime().Equal(info.ModTime()) {
		return
	}
	newm := make(map[string][]string, len(f.m)+5)
	if err := readFile(f.file, newm); err != nil {'''), (F, '''	// after reading we need to check whether file has changed in between
	info2, err := os.Stat(f.file)
	if err != nil {
		f.log.Println(err)
		return
	}

	if !info2.ModTime().Equal(info.ModTime()) {
		// file has changed in the meantime
		return
	}
''', '')],
 "M11-settle-four-intervals": [(F, "(reloadInterval/2)", "(reloadInterval*4)")],
 "M12-close-does-not-wait": [(F, '''	f.stopReloader <- struct{}{}
	<-f.stopReloader
	return nil''', '''	go func() {
		f.stopReloader <- struct{}{}
		<-f.stopReloader
	}()
	return nil''')],
 "M13-read-error-clears": [(F, '''		f.log.Println(err)
		return
	}
	// after reading''', '''		f.log.Println(err)
		f.mLck.Lock()
		f.m = map[string][]string{}
		f.mLck.Unlock()
		return
	}
	// after reading''')],
 "M14-stamp-not-updated-and-equal-skipped": [(F, "info.ModTime().Before(f.mStamp) ||", "!info.ModTime().After(f.mStamp) ||")],

 "M20-chain-optional-step-required": [("internal/table/chain.go", """				if len(val) == 0 {
					if s.optional[i] {
						continue STEP
					}
					return []string{}, nil
				}""", """				if len(val) == 0 {
					return []string{}, nil
				}""")],
 "M21-static-first-entry-wins": [("internal/table/static.go", "		s.m[node.Args[0]] = node.Args[1:]", """		if _, dup := s.m[node.Args[0]]; !dup {
			s.m[node.Args[0]] = node.Args[1:]
		}""")],
 "M22-regexp-no-end-anchor": [("internal/table/regexp.go", """		if !strings.HasSuffix(regex, "$") {
			regex = regex + "$"
		}
""", "")],
 "M23-ewd-lookup-last-domain": [("internal/table/email_with_domain.go", 'return quotedMbox + "@" + s.domains[0], true, nil', 'return quotedMbox + "@" + s.domains[len(s.domains)-1], true, nil')],
 "M27-localpart-optional-inverted": [("internal/table/email_localpart.go", 'allowNonEmail: modName == "table.email_localpart_optional",', 'allowNonEmail: modName != "table.email_localpart_optional",')],
 "M28-regexp-only-first-replacement": [("internal/table/regexp.go", "	for _, replacement := range r.replacements {", "	for _, replacement := range r.replacements[:1] {")],
}
def sh(cmd, **kw):
    return subprocess.run(cmd, shell=True, text=True, stdout=subprocess.PIPE, stderr=subprocess.STDOUT, env=ENV, **kw)
if not os.path.exists(WT):
    print(sh("git -C /repo worktree add --detach %s HEAD" % WT).stdout)
shutil.copy("/repo/internal/table/verif_export_table.go", WT + "/internal/table/")
names = sys.argv[1:] or sorted(MUT)
RES = os.path.join(os.path.dirname(os.path.abspath(__file__)), "drill_results.json")
res = json.load(open(RES)) if os.path.exists(RES) else {}
for n in names:
    sh("git -C %s checkout -- ." % WT)
    for f, old, new in MUT[n]:
        p = os.path.join(WT, f); s = open(p).read()
        assert old in s, (n, old)
        open(p, "w").write(s.replace(old, new, 1))
    t = sh("cd %s && go build ./internal/table/ && (go test -count=1 ./internal/table/ || go test -count=1 ./internal/table/ || go test -count=1 ./internal/table/)" % WT)
    tests_ok = t.returncode == 0
    c = subprocess.run("cd /verif && VERIF_REPO=%s bin/check X01 --tier quick" % WT, shell=True, text=True,
                       stdout=subprocess.PIPE, stderr=subprocess.STDOUT, env=dict(ENV, VERIF_SEED=os.environ.get("VERIF_SEED", "1")))
    viol = sorted(set(re.findall(r"# table.file violates (\S+)", c.stdout)) | set(re.findall(r"answers against (\S+):", c.stdout)))
    drift = len(re.findall(r"^DRIFT", c.stdout, re.M))
    res[n] = dict(go_test_passes=tests_ok, exit=c.returncode, violated=viol, drift_lines=drift)
    print(n, json.dumps(res[n]), flush=True)
    json.dump(res, open(RES, "w"), indent=1, sort_keys=True)
    if c.returncode == 2:
        print(c.stdout[-1500:])
    if not tests_ok:
        print(t.stdout[-600:])
sh("git -C %s checkout -- ." % WT)
json.dump(res, open(RES, "w"), indent=1, sort_keys=True)
