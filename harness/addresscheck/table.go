// Package addresscheck binds spec/Address.tla to framework/address and
// framework/dns.
//
// table.go is the concretisation table of the variant algebra: for every
// (base, spelling) of Address.tla the concrete string, derived from the
// canonical (lower-case, NFC, U-label) string with golang.org/x/text and
// golang.org/x/net/idna, which are trusted. The table is checked for the
// facts the model relies on when it is built (see mustTable).
package addresscheck

import (
	"fmt"
	"strconv"
	"strings"

	"golang.org/x/net/idna"
	"golang.org/x/text/unicode/norm"
)

type Lab struct {
	B string `json:"b"`
	S string `json:"s"`
}

type Addr struct {
	Lp  Lab   `json:"lp"`
	Dom []Lab `json:"dom"`
}

// canonical strings of the bases (must carry the same names as Address.tla)
var lpCanon = map[string]string{
	"user": "user",
	"jose": "jos\u00e9",
	"jx":   "\u01f0x",      // LATIN SMALL LETTER J WITH CARON: no precomposed capital exists
	"fw":   "\uff41\uff42", // fullwidth a b (a local part is free-form UTF-8)
	"ist":  "istanbul",     // also spelled with U+0130 (dotted capital I), composed and decomposed
	"sig":  "\u03b1\u03c3", // ends in sigma: context-sensitive lower-casing would make it final sigma
}
var labCanon = map[string]string{
	"ex":  "example",
	"e1":  "caf\u00e9",
	"ss":  "stra\u00dfe",  // sharp s is PVALID in IDNA2008
	"fs":  "\u03b1\u03c2", // final sigma is PVALID in IDNA2008
	"jc":  "\u01f0a",
	"com": "com",
	// sigma U+03C3 at the end of a "word": before the dot, before a hyphen, before a digit,
	// at the end of the domain (gs). Context-sensitive lower-casing would turn the capital
	// sigma of the upper-case variants into final sigma U+03C2 there.
	"s0": "\u03b1\u03c3",
	"sh": "\u03b1\u03c3-\u03b2",
	"sd": "\u03bc\u03b1\u03c31",
	"gs": "\u03b5\u03bb\u03bb\u03b1\u03c3",
	"di": "k\u0131s", // dotless i: has no upper-case variant that folds back
	"il": "istanbul", // ASCII label also spelled with U+0130, composed and decomposed
	// the root label of the FQDN spelling "example.com.": the empty string after the last dot
	"root": "",
}

var lpSpell = map[string][]string{
	"user": {"lower", "upper", "mixed"},
	"jose": {"lower", "upper", "nfd", "uppernfd"},
	"jx":   {"lower", "nfd", "upperd"},
	"fw":   {"lower", "upper"},
	"ist":  {"lower", "upper", "updot", "updotnfd"},
	"sig":  {"lower", "upper"},
}
var labSpell = map[string][]string{
	"ex":  {"lower", "upper", "mixed"},
	"e1":  {"lower", "upper", "nfd", "uppernfd", "alabel", "alabelup", "alabelmix"},
	"ss":  {"lower", "upper", "uppercs", "alabel", "alabelup"},
	"fs":  {"lower", "alabel", "alabelup"},
	"jc":  {"lower", "nfd", "upperd", "alabel", "alabelup"},
	"com": {"lower", "upper"},
	"s0":  {"lower", "upper", "alabel", "alabelup"},
	"sh":  {"lower", "upper", "alabel", "alabelup"},
	"sd":  {"lower", "upper", "alabel", "alabelup"},
	"di":  {"lower", "alabel", "alabelup"},
	"gs":  {"lower", "upper", "alabel"},
	"il":  {"lower", "upper", "updot", "updotnfd"},
	"root": {"lower"},
}

func asciiUpper(s string) string {
	return strings.Map(func(r rune) rune {
		if r >= 'a' && r <= 'z' {
			return r - 'a' + 'A'
		}
		return r
	}, s)
}

func spell(canon, s string) (string, error) {
	lowNFC := func(x string) string { return strings.ToLower(norm.NFC.String(x)) }
	switch s {
	case "lower":
		if lowNFC(canon) != canon {
			return "", fmt.Errorf("canonical string %+q is not lower-case NFC", canon)
		}
		return canon, nil
	case "upper":
		u := strings.ToUpper(canon)
		if u == canon || lowNFC(u) != canon {
			return "", fmt.Errorf("%+q has no upper-case variant that lower-cases back", canon)
		}
		return u, nil
	case "uppercs":
		// upper case with the capital sharp s U+1E9E
		if !strings.Contains(canon, "\u00df") {
			return "", fmt.Errorf("%+q has no sharp s", canon)
		}
		u := strings.ToUpper(strings.ReplaceAll(canon, "\u00df", "\u1e9e"))
		if lowNFC(u) != canon {
			return "", fmt.Errorf("%+q: capital sharp s spelling does not fold back", canon)
		}
		return u, nil
	case "mixed":
		out := []rune(canon)
		for i := range out {
			if i%2 == 0 && out[i] >= 'a' && out[i] <= 'z' {
				out[i] = out[i] - 'a' + 'A'
			}
		}
		return string(out), nil
	case "nfd":
		d := norm.NFD.String(canon)
		if d == canon {
			return "", fmt.Errorf("%+q has no decomposition", canon)
		}
		return d, nil
	case "uppernfd":
		u, err := spell(canon, "upper")
		if err != nil {
			return "", err
		}
		return norm.NFD.String(u), nil
	case "upperd":
		// capital letter + combining mark, for which Unicode has no precomposed capital
		d := strings.ToUpper(norm.NFD.String(canon))
		if norm.NFC.String(d) != d {
			return "", fmt.Errorf("%+q: a precomposed capital exists", canon)
		}
		if norm.NFC.String(strings.ToLower(d)) != canon {
			return "", fmt.Errorf("%+q: upperd does not fold back", canon)
		}
		return d, nil
	case "updot", "updotnfd":
		// the first i written as U+0130 LATIN CAPITAL LETTER I WITH DOT ABOVE (its lower case is i);
		// decomposed it is I + U+0307, and lower-casing THAT before composing gives i + U+0307
		if !strings.Contains(canon, "i") {
			return "", fmt.Errorf("%+q has no i", canon)
		}
		u := strings.Replace(canon, "i", "\u0130", 1)
		if norm.NFC.String(u) != u || lowNFC(u) != canon {
			return "", fmt.Errorf("%+q: dotted capital I spelling does not fold back", canon)
		}
		if s == "updot" {
			return u, nil
		}
		d := norm.NFD.String(u)
		if d == u || lowNFC(d) != canon {
			return "", fmt.Errorf("%+q: decomposed dotted capital I does not fold back", canon)
		}
		if norm.NFC.String(strings.ToLower(d)) == canon {
			return "", fmt.Errorf("%+q: the order of lower-casing and composing does not matter for this spelling", canon)
		}
		return d, nil
	case "alabel", "alabelup", "alabelmix":
		a, err := idna.ToASCII(canon)
		if err != nil || !strings.HasPrefix(a, "xn--") {
			return "", fmt.Errorf("%+q has no A-label (%v)", canon, err)
		}
		if u, err := idna.ToUnicode(a); err != nil || u != canon {
			return "", fmt.Errorf("A-label of %+q does not decode back", canon)
		}
		switch s {
		case "alabelup":
			return asciiUpper(a), nil
		case "alabelmix":
			return "xn--" + asciiUpper(a[4:]), nil
		}
		return a, nil
	}
	return "", fmt.Errorf("unknown spelling %q", s)
}

type table struct {
	lp, lab       map[Lab]string
	lpInv, labInv map[string]Lab
}

func mustTable() *table {
	t := &table{map[Lab]string{}, map[Lab]string{}, map[string]Lab{}, map[string]Lab{}}
	fill := func(canon map[string]string, sp map[string][]string, fw map[Lab]string, inv map[string]Lab) {
		for b, ss := range sp {
			for _, s := range ss {
				str, err := spell(canon[b], s)
				if err != nil {
					panic(fmt.Sprintf("addresscheck table: %s/%s: %v", b, s, err))
				}
				k := Lab{b, s}
				if o, dup := inv[str]; dup {
					panic(fmt.Sprintf("addresscheck table: %v and %v share the string %+q", o, k, str))
				}
				fw[k] = str
				inv[str] = k
			}
		}
	}
	fill(lpCanon, lpSpell, t.lp, t.lpInv)
	fill(labCanon, labSpell, t.lab, t.labInv)
	return t
}

func esc(s string) string {
	q := strconv.QuoteToASCII(s)
	return q[1 : len(q)-1]
}

// Concrete string of an abstract address / domain.
func (t *table) domain(d []Lab) (string, error) {
	parts := make([]string, len(d))
	for i, l := range d {
		s, ok := t.lab[l]
		if !ok {
			return "", fmt.Errorf("label %v is not in the table", l)
		}
		parts[i] = s
	}
	return strings.Join(parts, "."), nil
}

func (t *table) address(a Addr) (string, error) {
	l, ok := t.lp[a.Lp]
	if !ok {
		return "", fmt.Errorf("local part %v is not in the table", a.Lp)
	}
	d, err := t.domain(a.Dom)
	if err != nil {
		return "", err
	}
	return l + "@" + d, nil
}

// Abstraction of a string returned by the code under test. A component that
// is not in the table becomes {b:"?", s:<escaped string>}: equal only to itself.
func (t *table) absDomain(s string) []Lab {
	out := []Lab{}
	if s == "" {
		return out
	}
	for _, p := range strings.Split(s, ".") {
		if l, ok := t.labInv[p]; ok {
			out = append(out, l)
		} else {
			out = append(out, Lab{"?", esc(p)})
		}
	}
	return out
}

func (t *table) absAddr(s string) Addr {
	i := strings.LastIndexByte(s, '@')
	if i < 0 {
		return Addr{Lab{"?", esc(s)}, []Lab{}}
	}
	lp, ok := t.lpInv[s[:i]]
	if !ok {
		lp = Lab{"?", esc(s[:i])}
	}
	return Addr{lp, t.absDomain(s[i+1:])}
}

// ---- string layer ---------------------------------------------------------

// symbols of Address.tla (MaxCP) and their concrete strings
var symStr = map[string]string{
	"l": "a", "u": "A", "d": "1", "s": "!", "p": "(", "q": `"`, "b": `\`, "at": "@",
	"dot": ".", "sp": " ", "del": "\u007f", "c80": "\u0080", "c81": "\u0081", "cm": "\u0301",
	"i130": "\u0130", "ss": "\u00df", "fs": "\u03c2", "fw": "\uff21",
	"ace": "xn--9ca", "ACE": "XN--9CA", "pm": "postmaster", "PM": "POSTMASTER", "Pm": "Postmaster",
	// comparison layer (Sym2 of Address.tla): lower-casing and case folding disagree on these
	"sg": "\u03c3", "SG": "\u03a3", "li": "i", "es": "s", "ls": "\u017f", "kk": "k", "KS": "\u212a",
	// domain layer (DSym of Address.tla): degenerate A-label shapes
	"xe": "xn--", "XE": "XN--", "Xe": "Xn--", "xh": "xn---", "hy": "-",
}

// LowerSym of Address.tla; checked against strings.ToLower by mustLowerSym.
var lowerSym = map[string]string{
	"l": "l", "u": "l", "sg": "sg", "SG": "sg", "fs": "fs", "li": "li", "i130": "li",
	"es": "es", "ls": "ls", "kk": "kk", "KS": "kk", "at": "at", "dot": "dot", "ace": "ace", "ACE": "ace",
}

func mustLowerSym() {
	for k, want := range lowerSym {
		got := tokens(strings.ToLower(symStr[k]))
		if len(got) != 1 || got[0] != want {
			panic(fmt.Sprintf("addresscheck table: strings.ToLower(%s) reads back as %v, Address.tla says %s", k, got, want))
		}
	}
}

var symOrder []string // longest concrete string first

func init() {
	for k := range symStr {
		symOrder = append(symOrder, k)
	}
	for i := range symOrder {
		for j := i + 1; j < len(symOrder); j++ {
			a, b := symOrder[i], symOrder[j]
			if len(symStr[b]) > len(symStr[a]) || (len(symStr[b]) == len(symStr[a]) && b < a) {
				symOrder[i], symOrder[j] = b, a
			}
		}
	}
}

func concretise(syms []string) (string, error) {
	var sb strings.Builder
	for _, s := range syms {
		c, ok := symStr[s]
		if !ok {
			return "", fmt.Errorf("unknown symbol %q", s)
		}
		sb.WriteString(c)
	}
	return sb.String(), nil
}

// tokens maps a string back to symbols (greedy, longest first); what cannot be
// read back becomes one pseudo symbol "?<escaped rest>".
func tokens(s string) []string {
	out := []string{}
	for len(s) > 0 {
		hit := false
		for _, k := range symOrder {
			if strings.HasPrefix(s, symStr[k]) {
				out = append(out, k)
				s = s[len(symStr[k]):]
				hit = true
				break
			}
		}
		if !hit {
			return append(out, "?"+esc(s))
		}
	}
	return out
}
