package addresscheck

import (
	"bufio"
	"encoding/json"
	"fmt"
	"os"
	"testing"

	"github.com/foxcpp/maddy/framework/address"
	"github.com/foxcpp/maddy/framework/dns"
	"github.com/foxcpp/maddy/verifharness/vtrace"
)

// Input line: {"id":N,"kind":"A1|A2|A3|S","in":{...}} with in = {a[,b[,c]]} or {s}.
type Case struct {
	ID   int             `json:"id"`
	Kind string          `json:"kind"`
	Raw  json.RawMessage `json:"in"`
}

type addrIn struct {
	A, B, C *Addr
}

type strIn struct {
	S []string `json:"s"`
}

// guard runs f and records name in *panics if it panics (crash-freedom).
func guard(panics *[]string, name string, f func()) {
	defer func() {
		if r := recover(); r != nil {
			*panics = append(*panics, fmt.Sprintf("%s: %v", name, r))
		}
	}()
	f()
}

// battery calls every exported helper of framework/address and framework/dns on s.
func battery(panics *[]string, s string) {
	guard(panics, "address.ForLookup", func() { address.ForLookup(s) })
	guard(panics, "address.CleanDomain", func() { address.CleanDomain(s) })
	guard(panics, "address.Equal", func() { address.Equal(s, s+"x"); address.Equal("x"+s, s) })
	guard(panics, "address.IsASCII", func() { address.IsASCII(s) })
	guard(panics, "address.FQDNDomain", func() { address.FQDNDomain(s) })
	guard(panics, "address.PRECISFold", func() { address.PRECISFold(s) })
	guard(panics, "address.PRECIS", func() { address.PRECIS(s) })
	guard(panics, "address.ToASCII", func() { address.ToASCII(s) })
	guard(panics, "address.ToUnicode", func() { address.ToUnicode(s) })
	guard(panics, "address.SelectIDNA", func() { address.SelectIDNA(true, s); address.SelectIDNA(false, s) })
	guard(panics, "address.Split", func() { address.Split(s) })
	guard(panics, "address.QuoteMbox", func() { address.QuoteMbox(s) })
	guard(panics, "address.UnquoteMbox", func() { address.UnquoteMbox(s) })
	guard(panics, "address.Valid", func() { address.Valid(s) })
	guard(panics, "address.ValidMailboxName", func() { address.ValidMailboxName(s) })
	guard(panics, "address.ValidDomain", func() { address.ValidDomain(s) })
	guard(panics, "dns.ForLookup", func() { dns.ForLookup(s) })
	guard(panics, "dns.Equal", func() { dns.Equal(s, s+"x"); dns.Equal("x"+s, s) })
	guard(panics, "dns.SelectIDNA", func() { dns.SelectIDNA(true, s); dns.SelectIDNA(false, s) })
	guard(panics, "dns.FQDN", func() { dns.FQDN(s) })
}

func nonASCII(s string) bool {
	for i := 0; i < len(s); i++ {
		if s[i] >= 0x80 {
			return true
		}
	}
	return false
}

func rowA1(tb *table, in addrIn) (map[string]interface{}, error) {
	a, err := tb.address(*in.A)
	if err != nil {
		return nil, err
	}
	d, _ := tb.domain(in.A.Dom)
	panics := []string{}
	o := map[string]interface{}{}
	guard(&panics, "row", func() {
		key, kerr := address.ForLookup(a)
		key2, _ := address.ForLookup(key)
		clean, cerr := address.CleanDomain(a)
		clean2, _ := address.CleanDomain(clean)
		dkey, _ := dns.ForLookup(d)
		dkey2, _ := dns.ForLookup(dkey)
		o["key"], o["kerr"], o["key2"] = tb.absAddr(key), kerr != nil, tb.absAddr(key2)
		o["clean"], o["cerr"], o["clean2"] = tb.absAddr(clean), cerr != nil, tb.absAddr(clean2)
		o["dkey"], o["dkey2"] = tb.absDomain(dkey), tb.absDomain(dkey2)
		// the key of the canonical spelling of the same address, the key after CleanDomain
		canon := Addr{Lab{in.A.Lp.B, "lower"}, nil}
		for _, l := range in.A.Dom {
			canon.Dom = append(canon.Dom, Lab{l.B, "lower"})
		}
		cs, cerr2 := tb.address(canon)
		if cerr2 != nil {
			panic(cerr2)
		}
		kcanon, _ := address.ForLookup(cs)
		ckey, _ := address.ForLookup(clean)
		o["kcanon"], o["ckey"] = tb.absAddr(kcanon), tb.absAddr(ckey)
		o["eqself"] = address.Equal(a, string(append([]byte{}, a...)))
		mbox, dom, serr := address.Split(a)
		o["split"] = map[string]interface{}{"ok": serr == nil, "joined": tb.absAddr(mbox + "@" + dom)}
		toa, aerr := address.ToASCII(a)
		tou, uerr := address.ToUnicode(a)
		rta, _ := address.ToASCII(tou)
		rtu, _ := address.ToUnicode(toa)
		dtoa, _ := dns.SelectIDNA(false, d)
		dtou, _ := dns.SelectIDNA(true, d)
		o["conv"] = map[string]interface{}{
			"toascii": tb.absAddr(toa), "aerr": aerr != nil, "tounicode": tb.absAddr(tou), "uerr": uerr != nil,
			"rta": tb.absAddr(rta), "rtu": tb.absAddr(rtu),
			"dtoascii": tb.absDomain(dtoa), "dtounicode": tb.absDomain(dtou)}
	})
	battery(&panics, a)
	o["panics"] = panics
	return o, nil
}

func rowA2(tb *table, in addrIn) (map[string]interface{}, error) {
	a, err := tb.address(*in.A)
	if err != nil {
		return nil, err
	}
	b, err := tb.address(*in.B)
	if err != nil {
		return nil, err
	}
	da, _ := tb.domain(in.A.Dom)
	db, _ := tb.domain(in.B.Dom)
	ka, _ := address.ForLookup(a)
	kb, _ := address.ForLookup(b)
	dka, _ := dns.ForLookup(da)
	dkb, _ := dns.ForLookup(db)
	ca, _ := address.CleanDomain(a)
	cb, _ := address.CleanDomain(b)
	return map[string]interface{}{
		"eqab": address.Equal(a, b), "eqba": address.Equal(b, a), "ka": tb.absAddr(ka), "kb": tb.absAddr(kb),
		"deqab": dns.Equal(da, db), "deqba": dns.Equal(db, da), "dka": tb.absDomain(dka), "dkb": tb.absDomain(dkb),
		"cda": tb.absAddr(ca).Dom, "cdb": tb.absAddr(cb).Dom,
	}, nil
}

func rowA3(tb *table, in addrIn) (map[string]interface{}, error) {
	a, err := tb.address(*in.A)
	if err != nil {
		return nil, err
	}
	b, err := tb.address(*in.B)
	if err != nil {
		return nil, err
	}
	c, err := tb.address(*in.C)
	if err != nil {
		return nil, err
	}
	return map[string]interface{}{
		"eqab": address.Equal(a, b), "eqbc": address.Equal(b, c), "eqac": address.Equal(a, c),
	}, nil
}

func rowS(in strIn) (map[string]interface{}, error) {
	s, err := concretise(in.S)
	if err != nil {
		return nil, err
	}
	panics := []string{}
	empty := func() map[string]interface{} { return map[string]interface{}{"ok": false, "val": []string{}} }
	// defaults keep the record well-formed when a call panics (the panic itself is reported)
	o := map[string]interface{}{"isascii": false, "quote": []string{}, "unq": empty(), "uq": empty(),
		"split": map[string]interface{}{"ok": false, "mbox": []string{}, "dom": []string{}}, "toasciiNonAscii": false}
	guard(&panics, "IsASCII", func() { o["isascii"] = address.IsASCII(s) })
	guard(&panics, "Split", func() {
		mbox, dom, serr := address.Split(s)
		o["split"] = map[string]interface{}{"ok": serr == nil, "mbox": tokens(mbox), "dom": tokens(dom)}
	})
	q := s
	guard(&panics, "QuoteMbox", func() {
		q = address.QuoteMbox(s)
		o["quote"] = tokens(q)
	})
	guard(&panics, "UnquoteMbox", func() {
		u, uerr := address.UnquoteMbox(s)
		o["unq"] = map[string]interface{}{"ok": uerr == nil, "val": tokens(u)}
	})
	guard(&panics, "UnquoteMbox(QuoteMbox)", func() {
		uq, uqerr := address.UnquoteMbox(q)
		o["uq"] = map[string]interface{}{"ok": uqerr == nil, "val": tokens(uq)}
	})
	if len(in.S) == 1 && (in.S[0] == "pm" || in.S[0] == "PM" || in.S[0] == "Pm") {
		// the domain-less postmaster address: what the domain conversions make of it
		guard(&panics, "postmaster conversions", func() {
			cl, _ := address.CleanDomain(s)
			ta, _ := address.ToASCII(s)
			tu, _ := address.ToUnicode(s)
			rtu, _ := address.ToUnicode(ta)
			o["pmconv"] = map[string]interface{}{"clean": tokens(cl), "toascii": tokens(ta),
				"tounicode": tokens(tu), "rtu": tokens(rtu)}
		})
	}
	guard(&panics, "ToASCII", func() {
		ta, taerr := address.ToASCII(s)
		o["toasciiNonAscii"] = taerr == nil && nonASCII(ta)
	})
	battery(&panics, s)
	o["panics"] = panics
	return o, nil
}

type domIn struct {
	D []string `json:"d"`
}

// crash-freedom on a degenerate domain: bare, behind a plain and behind a quoted local part
func rowD(in domIn) (map[string]interface{}, error) {
	d, err := concretise(in.D)
	if err != nil {
		return nil, err
	}
	panics := []string{}
	for _, s := range []string{d, "a@" + d, `"q q"@` + d, d + "@" + d} {
		battery(&panics, s)
		guard(&panics, "address.Equal(x, lower)", func() { address.Equal(s, "a@example.org"); address.Equal("a@example.org", s) })
		guard(&panics, "dns.Equal(x, y)", func() { dns.Equal(d, "example.org"); dns.Equal("example.org", d) })
	}
	return map[string]interface{}{"panics": panics}, nil
}

type strsIn struct {
	S []string `json:"s"`
	T []string `json:"t"`
	U []string `json:"u"`
}

// comparison of arbitrary strings: what Equal says and the keys ForLookup returns
// (whatever its error), the same for the domain functions
func rowP(in strsIn, three bool) (map[string]interface{}, error) {
	s, err := concretise(in.S)
	if err != nil {
		return nil, err
	}
	t, err := concretise(in.T)
	if err != nil {
		return nil, err
	}
	if three {
		u, err := concretise(in.U)
		if err != nil {
			return nil, err
		}
		return map[string]interface{}{
			"eq12": address.Equal(s, t), "eq23": address.Equal(t, u), "eq13": address.Equal(s, u),
			"deq12": dns.Equal(s, t), "deq23": dns.Equal(t, u), "deq13": dns.Equal(s, u),
		}, nil
	}
	k1, _ := address.ForLookup(s)
	k2, _ := address.ForLookup(t)
	dk1, _ := dns.ForLookup(s)
	dk2, _ := dns.ForLookup(t)
	return map[string]interface{}{
		"eq12": address.Equal(s, t), "eq21": address.Equal(t, s), "k1": tokens(k1), "k2": tokens(k2),
		"deq12": dns.Equal(s, t), "deq21": dns.Equal(t, s), "dk1": tokens(dk1), "dk2": tokens(dk2),
	}, nil
}

func TestReplay(t *testing.T) {
	in, out := os.Getenv("VERIF_IN"), os.Getenv("VERIF_OUT")
	if in == "" || out == "" {
		t.Skip("VERIF_IN / VERIF_OUT not set")
	}
	tb := mustTable()
	mustLowerSym()
	f, err := os.Open(in)
	if err != nil {
		t.Fatal(err)
	}
	defer f.Close()
	of, err := os.Create(out)
	if err != nil {
		t.Fatal(err)
	}
	defer of.Close()
	w := bufio.NewWriter(of)
	defer w.Flush()
	sc := bufio.NewScanner(f)
	sc.Buffer(make([]byte, 1<<20), 1<<26)
	n := 0
	for sc.Scan() {
		var c Case
		if err := json.Unmarshal(sc.Bytes(), &c); err != nil {
			t.Fatalf("bad case line: %v", err)
		}
		var o map[string]interface{}
		if c.Kind == "D" {
			var di domIn
			if err := json.Unmarshal(c.Raw, &di); err != nil {
				t.Fatalf("case %d: %v", c.ID, err)
			}
			o, err = rowD(di)
		} else if c.Kind == "P2" || c.Kind == "P3" {
			var pi strsIn
			if err := json.Unmarshal(c.Raw, &pi); err != nil {
				t.Fatalf("case %d: %v", c.ID, err)
			}
			o, err = rowP(pi, c.Kind == "P3")
		} else if c.Kind == "S" {
			var si strIn
			if err := json.Unmarshal(c.Raw, &si); err != nil {
				t.Fatalf("case %d: %v", c.ID, err)
			}
			o, err = rowS(si)
		} else {
			var ai addrIn
			if err := json.Unmarshal(c.Raw, &ai); err != nil {
				t.Fatalf("case %d: %v", c.ID, err)
			}
			switch {
			case c.Kind == "A1" && ai.A != nil:
				o, err = rowA1(tb, ai)
			case c.Kind == "A2" && ai.A != nil && ai.B != nil:
				o, err = rowA2(tb, ai)
			case c.Kind == "A3" && ai.A != nil && ai.B != nil && ai.C != nil:
				o, err = rowA3(tb, ai)
			default:
				t.Fatalf("case %d: bad kind/in %q", c.ID, c.Kind)
			}
		}
		if err != nil {
			t.Fatalf("case %d: %v", c.ID, err)
		}
		vtrace.New(w, c.ID).Emit(c.Kind, vtrace.Ev{"in": c.Raw, "out": o})
		n++
	}
	t.Logf("replayed %d rows", n)
}

// TestTable prints the concretisation table (evidence / documentation).
func TestTable(t *testing.T) {
	out := os.Getenv("VERIF_OUT")
	if out == "" {
		t.Skip("VERIF_OUT not set")
	}
	tb := mustTable()
	of, err := os.Create(out)
	if err != nil {
		t.Fatal(err)
	}
	defer of.Close()
	w := bufio.NewWriter(of)
	defer w.Flush()
	tr := vtrace.New(w, 0)
	for k, v := range tb.lp {
		tr.Emit("Tab", vtrace.Ev{"part": "lp", "b": k.B, "s": k.S, "str": esc(v)})
	}
	for k, v := range tb.lab {
		tr.Emit("Tab", vtrace.Ev{"part": "label", "b": k.B, "s": k.S, "str": esc(v)})
	}
	for k, v := range symStr {
		tr.Emit("Tab", vtrace.Ev{"part": "symbol", "b": k, "s": "", "str": esc(v)})
	}
}
