// Package danecheck runs the rows of spec/Dane.tla (printed by TLC) through the
// real DANE code of maddy (internal/target/remote: verifyDANE,
// daneDelivery.CheckConn, discoverTLSA) and records what it answered.
//
// Input  (VERIF_IN):  one JSON object per line {"id":N,"in":{chain,hs,lookup,recs,disc}}
// Output (VERIF_OUT): NDJSON events {"t":id,"seq":1,"e":"Row","in":...,"out":{...}}
//
// The certificate chains are generated here with crypto/x509 (root CA ->
// intermediate CA -> leaf; an expired leaf; a leaf for another host name; an
// unrelated certificate for "matches nothing"), the association data of every
// record is computed from the certificate its row names for the record's
// selector / matching type.
package danecheck

import (
	"bufio"
	"context"
	"crypto/ecdsa"
	"crypto/elliptic"
	"crypto/rand"
	"crypto/sha256"
	"crypto/sha512"
	"crypto/tls"
	"crypto/x509"
	"crypto/x509/pkix"
	"encoding/hex"
	"encoding/json"
	"errors"
	"fmt"
	"math/big"
	"net"
	"os"
	"strconv"
	"testing"
	"time"

	mockdns "github.com/foxcpp/go-mockdns"
	"github.com/foxcpp/maddy/framework/dns"
	"github.com/foxcpp/maddy/framework/exterrors"
	"github.com/foxcpp/maddy/framework/module"
	"github.com/foxcpp/maddy/internal/target/remote"
	"github.com/foxcpp/maddy/verifharness/vtrace"
	miekgdns "github.com/miekg/dns"
)

const mxName = "mx.example.invalid"

type Rec struct {
	U     int    `json:"u"`
	S     int    `json:"s"`
	M     int    `json:"m"`
	Match string `json:"match"`
}

type Disc struct {
	A    string `json:"a"`
	TLSA string `json:"tlsa"`
}

type In struct {
	Chain  string `json:"chain"`
	HS     bool   `json:"hs"`
	Lookup string `json:"lookup"`
	Recs   []Rec  `json:"recs"`
	Disc   Disc   `json:"disc"`
}

type Row struct {
	ID int `json:"id"`
	In In  `json:"in"`
}

type pki struct {
	certs  map[string]*x509.Certificate // leaf int root expired wrongname stranger
	chains map[string][]*x509.Certificate
}

func mkCert(t *testing.T, cn string, ca bool, dnsNames []string, notBefore, notAfter time.Time,
	parent *x509.Certificate, parentKey *ecdsa.PrivateKey, serial int64) (*x509.Certificate, *ecdsa.PrivateKey) {
	key, err := ecdsa.GenerateKey(elliptic.P256(), rand.Reader)
	if err != nil {
		t.Fatal(err)
	}
	tpl := &x509.Certificate{
		SerialNumber:          big.NewInt(serial),
		Subject:               pkix.Name{CommonName: cn, Organization: []string{"verif"}},
		NotBefore:             notBefore,
		NotAfter:              notAfter,
		BasicConstraintsValid: true,
		IsCA:                  ca,
		DNSNames:              dnsNames,
	}
	if ca {
		tpl.KeyUsage = x509.KeyUsageCertSign | x509.KeyUsageCRLSign
	} else {
		tpl.KeyUsage = x509.KeyUsageDigitalSignature
		tpl.ExtKeyUsage = []x509.ExtKeyUsage{x509.ExtKeyUsageServerAuth}
	}
	signer, signerKey := tpl, key
	if parent != nil {
		signer, signerKey = parent, parentKey
	}
	der, err := x509.CreateCertificate(rand.Reader, tpl, signer, &key.PublicKey, signerKey)
	if err != nil {
		t.Fatal(err)
	}
	c, err := x509.ParseCertificate(der)
	if err != nil {
		t.Fatal(err)
	}
	return c, key
}

func mkPKI(t *testing.T) *pki {
	now := time.Now()
	long0, long1 := now.Add(-24*time.Hour), now.Add(10*365*24*time.Hour)
	root, rootKey := mkCert(t, "verif root CA", true, nil, long0, long1, nil, nil, 1)
	inter, interKey := mkCert(t, "verif intermediate CA", true, nil, long0, long1, root, rootKey, 2)
	leaf, _ := mkCert(t, mxName, false, []string{mxName}, long0, now.Add(365*24*time.Hour), inter, interKey, 3)
	expired, _ := mkCert(t, mxName, false, []string{mxName}, now.Add(-2*365*24*time.Hour), now.Add(-365*24*time.Hour), inter, interKey, 4)
	wrong, _ := mkCert(t, "other.example.invalid", false, []string{"other.example.invalid"}, long0, now.Add(365*24*time.Hour), inter, interKey, 5)
	stranger, _ := mkCert(t, "stranger", true, nil, long0, long1, nil, nil, 6)
	p := &pki{
		certs: map[string]*x509.Certificate{"leaf": leaf, "int": inter, "root": root,
			"expired": expired, "wrongname": wrong, "stranger": stranger},
	}
	p.chains = map[string][]*x509.Certificate{
		"leaf":          {leaf},
		"leaf_int":      {leaf, inter},
		"leaf_int_root": {leaf, inter, root},
		"expired":       {expired, inter, root},
		"wrongname":     {wrong, inter, root},
	}
	// sanity of the generated PKI, independent of maddy
	roots, inters := x509.NewCertPool(), x509.NewCertPool()
	roots.AddCert(root)
	inters.AddCert(inter)
	if _, err := leaf.Verify(x509.VerifyOptions{DNSName: mxName, Roots: roots, Intermediates: inters}); err != nil {
		t.Fatalf("generated leaf does not verify: %v", err)
	}
	if _, err := expired.Verify(x509.VerifyOptions{DNSName: mxName, Roots: roots, Intermediates: inters}); err == nil {
		t.Fatal("generated expired leaf verifies")
	}
	if _, err := wrong.Verify(x509.VerifyOptions{DNSName: mxName, Roots: roots, Intermediates: inters}); err == nil {
		t.Fatal("generated wrong-name leaf verifies")
	}
	return p
}

// assoc computes the certificate association data. Out-of-range selector /
// matching type values have no defined data; the data of the nearest defined
// combination is published then (so that an implementation that forgets to
// range-check has something to match).
func assoc(sel, mtype int, c *x509.Certificate) string {
	var blob []byte
	if sel&1 == 0 {
		blob = c.Raw
	} else {
		blob = c.RawSubjectPublicKeyInfo
	}
	switch mtype % 3 {
	case 1:
		h := sha256.Sum256(blob)
		return hex.EncodeToString(h[:])
	case 2:
		h := sha512.Sum512(blob)
		return hex.EncodeToString(h[:])
	}
	return hex.EncodeToString(blob)
}

// certOf names the certificate of the row's chain a record's data is taken from.
func (p *pki) certOf(chain, match string) *x509.Certificate {
	switch match {
	case "leaf":
		return p.chains[chain][0] // the server's own certificate (expired / wrong-name one included)
	case "int":
		return p.certs["int"]
	case "root":
		return p.certs["root"]
	}
	return p.certs["stranger"]
}

func (p *pki) tlsa(in In) []dns.TLSA {
	recs := make([]dns.TLSA, 0, len(in.Recs))
	for _, r := range in.Recs {
		recs = append(recs, dns.TLSA{
			Hdr: miekgdns.RR_Header{Name: "_25._tcp." + mxName + ".", Rrtype: miekgdns.TypeTLSA,
				Class: miekgdns.ClassINET, Ttl: 3600},
			Usage: uint8(r.U), Selector: uint8(r.S), MatchingType: uint8(r.M),
			Certificate: assoc(r.S, r.M, p.certOf(in.Chain, r.Match)),
		})
	}
	return recs
}

func (p *pki) state(in In) tls.ConnectionState {
	if !in.HS {
		// no TLS: what tls.Conn.ConnectionState() / a plain connection yields
		return tls.ConnectionState{ServerName: mxName}
	}
	return tls.ConnectionState{
		HandshakeComplete: true,
		Version:           tls.VersionTLS13,
		ServerName:        mxName,
		PeerCertificates:  p.chains[in.Chain],
	}
}

type out struct {
	Auth     bool   `json:"auth"`
	Refuse   bool   `json:"refuse"`
	Temp     bool   `json:"temp"`
	Panic    bool   `json:"panic"`
	Level    string `json:"level"`
	Err      string `json:"err"`
	Override bool   `json:"override"` // raw verifyDANE result
	RawErr   string `json:"rawErr"`   // raw verifyDANE error
	RawCall  bool   `json:"rawCall"`  // verifyDANE was also called directly
	RawPanic bool   `json:"rawPanic"`
	Infra    string `json:"infra"` // harness-side trouble (DNS time-out on loopback): says nothing about maddy
}

func levelName(l module.TLSLevel) string {
	switch l {
	case module.TLSNone:
		return "none"
	case module.TLSEncrypted:
		return "encrypted"
	case module.TLSAuthenticated:
		return "authenticated"
	}
	return fmt.Sprint(int(l))
}

func (o *out) setConn(level module.TLSLevel, err error) {
	o.Level = levelName(level)
	if err != nil {
		o.Err = err.Error()
		o.Refuse = true
		o.Temp = exterrors.IsTemporary(err)
	}
	o.Auth = err == nil && level == module.TLSAuthenticated
}

// discovery environment: one mock DNS server per process, zones replaced per row.
type discEnv struct {
	srv   *mockdns.Server
	res   *dns.ExtResolver
	zones map[string]mockdns.Zone // shared with the server; replaced between rows only
}

func newDiscEnv(t *testing.T) *discEnv {
	zones := map[string]mockdns.Zone{}
	srv, err := mockdns.NewServerWithLogger(zones, nopLogger{}, false)
	if err != nil {
		t.Fatal(err)
	}
	addr := srv.LocalAddr().(*net.UDPAddr)
	res, err := dns.NewExtResolver()
	if err != nil {
		// no usable resolv.conf in the sandbox: build the client config by hand
		t.Fatalf("NewExtResolver: %v", err)
	}
	res.Cfg.Servers = []string{addr.IP.String()}
	res.Cfg.Port = strconv.Itoa(addr.Port)
	res.Cfg.Timeout = 5
	res.Cfg.Attempts = 3
	return &discEnv{srv: srv, res: res, zones: zones}
}

type nopLogger struct{}

func (nopLogger) Printf(string, ...interface{}) {}

func (e *discEnv) setZones(in In, recs []dns.TLSA) {
	z := e.zones
	for k := range z {
		delete(z, k)
	}
	host := mxName + "."
	tname := "_25._tcp." + host
	switch in.Disc.A {
	case "ad":
		z[host] = mockdns.Zone{AD: true, A: []string{"127.0.0.1"}}
	case "noad":
		z[host] = mockdns.Zone{AD: false, A: []string{"127.0.0.1"}}
	case "servfail":
		z[host] = mockdns.Zone{Err: fmt.Errorf("scripted SERVFAIL")}
	case "nxdomain":
	}
	rrs := make([]miekgdns.RR, 0, len(recs))
	for i := range recs {
		r := recs[i]
		rrs = append(rrs, &r)
	}
	misc := map[miekgdns.Type][]miekgdns.RR{miekgdns.Type(miekgdns.TypeTLSA): rrs}
	switch in.Disc.TLSA {
	case "recs_ad":
		z[tname] = mockdns.Zone{AD: true, Misc: misc}
	case "recs_noad":
		z[tname] = mockdns.Zone{AD: false, Misc: misc}
	case "nodata":
		z[tname] = mockdns.Zone{AD: true, TXT: []string{"not a TLSA record"}}
	case "servfail":
		z[tname] = mockdns.Zone{Err: fmt.Errorf("scripted SERVFAIL")}
	case "nxdomain":
	}
}

func runRow(t *testing.T, p *pki, env func() *discEnv, r Row) out {
	in := r.In
	var o out
	recs := p.tlsa(in)
	st := p.state(in)
	ctx, cancel := context.WithTimeout(context.Background(), 60*time.Second)
	defer cancel()

	func() {
		defer func() {
			if e := recover(); e != nil {
				o.Panic = true
				o.Auth, o.Refuse, o.Temp = false, false, false
				o.Err = fmt.Sprint("panic: ", e)
			}
		}()
		switch in.Lookup {
		case "ok":
			o.setConn(remote.VerifDANECheckConn(ctx, recs, nil, mxName, st))
		case "notfound":
			o.setConn(remote.VerifDANECheckConn(ctx, []dns.TLSA(nil),
				dns.RCodeError{Name: mxName + ".", Code: miekgdns.RcodeNameError}, mxName, st))
		case "error":
			o.setConn(remote.VerifDANECheckConn(ctx, []dns.TLSA(nil),
				dns.RCodeError{Name: mxName + ".", Code: miekgdns.RcodeServerFailure}, mxName, st))
		case "disc":
			e := env()
			e.setZones(in, recs)
			level, err := remote.VerifDANEDiscoverAndCheck(ctx, e.res, mxName, st)
			var ne net.Error
			if err != nil && ((errors.As(err, &ne) && ne.Timeout()) || errors.Is(err, context.DeadlineExceeded)) {
				o.Infra = "DNS time-out talking to the mock server: " + err.Error()
			}
			o.setConn(level, err)
		default:
			t.Fatalf("row %d: unknown lookup %q", r.ID, in.Lookup)
		}
	}()
	if in.Lookup == "ok" {
		o.RawCall = true
		func() {
			defer func() {
				if e := recover(); e != nil {
					o.RawPanic = true
				}
			}()
			ov, err := remote.VerifVerifyDANE(recs, st)
			o.Override = ov
			if err != nil {
				o.RawErr = err.Error()
			}
		}()
	}
	return o
}

func TestReplay(t *testing.T) {
	inPath, outPath := os.Getenv("VERIF_IN"), os.Getenv("VERIF_OUT")
	if inPath == "" || outPath == "" {
		t.Skip("VERIF_IN / VERIF_OUT not set")
	}
	f, err := os.Open(inPath)
	if err != nil {
		t.Fatal(err)
	}
	defer f.Close()
	of, err := os.Create(outPath)
	if err != nil {
		t.Fatal(err)
	}
	defer of.Close()
	w := bufio.NewWriterSize(of, 1<<20)
	defer w.Flush()

	p := mkPKI(t)
	var env *discEnv
	getEnv := func() *discEnv {
		if env == nil {
			env = newDiscEnv(t)
		}
		return env
	}
	defer func() {
		if env != nil {
			env.srv.Close()
		}
	}()

	sc := bufio.NewScanner(f)
	sc.Buffer(make([]byte, 1<<20), 1<<26)
	n := 0
	for sc.Scan() {
		var r Row
		if err := json.Unmarshal(sc.Bytes(), &r); err != nil {
			t.Fatalf("bad row: %v", err)
		}
		var generic struct {
			In json.RawMessage `json:"in"`
		}
		_ = json.Unmarshal(sc.Bytes(), &generic)
		o := runRow(t, p, getEnv, r)
		tr := vtrace.New(w, r.ID)
		tr.Emit("Row", vtrace.Ev{"in": generic.In, "out": o})
		n++
	}
	t.Logf("ran %d rows", n)
}
