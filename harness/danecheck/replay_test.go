// Package danecheck runs the rows of spec/Dane.tla (printed by TLC) through the
// real DANE code of maddy (internal/target/remote: verifyDANE,
// daneDelivery.PrepareConn / discoverTLSA / CheckConn) and records what it answered.
//
// Input  (VERIF_IN):  {"id":N,"in":{"mode":"seq"|"overlap","rounds":[{chain,hs,lookup,recs,disc}...]}}
// Output (VERIF_OUT): {"t":id,"seq":1,"e":"Row","in":...,"out":{"rounds":[{auth,refuse,temp,...}...]}}
//
// A row is a history of one per-message delivery object of mx_auth.dane: round k
// is MX candidate mx<k>.example.invalid with its own TLSA RRset, DNS answers and
// certificate chain.
//
//   - one round, lookup ok/notfound/error: the outcome of the lookup is injected and
//     the real CheckConn (verifyDANE) judges the connection;
//
//   - rounds with lookup "wire": the RRset is published (signed zone) and reaches the
//     code through the real PrepareConn / discoverTLSA / resolver conversion;
//
//   - rounds with lookup "disc": the real PrepareConn (discoverTLSA against a DNS
//     server on loopback) and CheckConn, all rounds on the SAME delivery object.
//     mode "seq": PrepareConn(k), CheckConn(k), then round k+1.
//     mode "overlap": the answers about every MX are held by the DNS server;
//     PrepareConn(1), PrepareConn(2); MX 1's answers are released and the harness
//     waits (on the lookup-result holders, no timer) until that late lookup has
//     delivered its result wherever the code puts it; then MX 2's answers are
//     released and CheckConn(2) is called.
//
//   - one round, lookup "target": a delivery attempt of the real remote target (MX lookup,
//     attemptMX, the target's own TLS client against a scripted SMTP server presenting
//     the round's chain): the connection state mx_auth.dane sees is the one connect()
//     produced (verified first handshake, unauthenticated retry, plaintext fallback).
//
// Data dimensions the model is independent of (Dane.tla says so; they only choose how the
// same situation is spelled towards the real code): disc.af (MX host with A / AAAA / both),
// disc.rc (response code of a failed lookup), disc.srv (a first resolver that fails every
// query), disc.hops (length of the alias chain), nt (how a target round came to have no TLS),
// the names on the wrong-name leaf.
//
// The certificate chains are generated here with crypto/x509 (root CA ->
// intermediate CA -> per-MX leaf; an expired leaf; a leaf for another host name; an
// unrelated certificate for "matches nothing"), the association data of every
// record is computed from the certificate its row names for the record's
// selector / matching type.
//
// VERIF_SYSROOTS=1: the process installs the generated root CA as the platform root set
// (x509.SetFallbackRoots, GODEBUG x509usefallbackroots=1), i.e. every generated chain is
// also Web-PKI valid; rows carry the same fact as in.sys.
//
//go:debug x509usefallbackroots=1
package danecheck

import (
	"bufio"
	"context"
	"crypto/ecdsa"
	"crypto/elliptic"
	"crypto/rand"
	"crypto/sha256"
	"crypto/sha512"
	"crypto/tls"
	"crypto/x509"
	"crypto/x509/pkix"
	"encoding/hex"
	"encoding/json"
	"errors"
	"fmt"
	"math/big"
	"net"
	"os"
	"strconv"
	"strings"
	"sync"
	"testing"
	"time"

	"github.com/emersion/go-smtp"
	mockdns "github.com/foxcpp/go-mockdns"
	"github.com/foxcpp/maddy/framework/dns"
	"github.com/foxcpp/maddy/framework/exterrors"
	"github.com/foxcpp/maddy/framework/log"
	"github.com/foxcpp/maddy/framework/module"
	"github.com/foxcpp/maddy/internal/smtpconn/pool"
	"github.com/foxcpp/maddy/internal/target/remote"
	"github.com/foxcpp/maddy/verifharness/scripted"
	"github.com/foxcpp/maddy/verifharness/vtrace"
	miekgdns "github.com/miekg/dns"
)

// holdCap bounds waits that can only expire if the harness logic itself is wrong
// or the machine is starved; expiry is reported as harness trouble (exit 2).
const holdCap = 20 * time.Second

func mxName(k int) string { return fmt.Sprintf("mx%d.example.invalid", k) }

const (
	rcptDomain = "example.invalid"    // the recipient domain CheckConn is told in discovery rows
	clientName = "client.example.org" // the host name of the remote target in target rows
)

type Rec struct {
	U     int    `json:"u"`
	S     int    `json:"s"`
	M     int    `json:"m"`
	Match string `json:"match"`
}

type Disc struct {
	A      string `json:"a"`
	TLSA   string `json:"tlsa"`
	Cname  string `json:"cname"`  // "-" | secure | initial | insecure: the MX name is a CNAME
	Ctlsa  string `json:"ctlsa"`  // TLSA answer at the canonical name
	Cmatch string `json:"cmatch"` // the DANE-EE record published there matches this certificate
	// Af: how the address of the MX host (of the canonical name behind a CNAME) is published:
	// "a" | "aaaa" (IPv6-only host: the A query gets a no-data answer) | "both"; "-"/"" = "a".
	// The model (Dane.tla) is independent of it.
	Af string `json:"af"`
	// spellings of the DNS side the model is independent of (Dane.tla DiscX):
	Rc   string `json:"rc"`   // response code of a "servfail" answer: servfail | refused | notimp | formerr
	Srv  string `json:"srv"`  // "failover": two resolvers configured, the first one fails every query
	Hops int    `json:"hops"` // CNAME rows: length of the alias chain (2: mx -> alias -> canonical name)
}

func (d Disc) failCode() int {
	switch d.Rc {
	case "refused":
		return miekgdns.RcodeRefused
	case "notimp":
		return miekgdns.RcodeNotImplemented
	case "formerr":
		return miekgdns.RcodeFormatError
	}
	return miekgdns.RcodeServerFailure
}

// addrZone is the zone of a host name that has addresses of the given family.
func addrZone(ad bool, af string) mockdns.Zone {
	z := mockdns.Zone{AD: ad}
	if af != "aaaa" {
		z.A = []string{"127.0.0.1"}
	}
	if af == "aaaa" || af == "both" {
		z.AAAA = []string{"::1"}
	}
	return z
}

type Round struct {
	Chain  string `json:"chain"`
	HS     bool   `json:"hs"`
	Lookup string `json:"lookup"`
	Recs   []Rec  `json:"recs"`
	Disc   Disc   `json:"disc"`
	Mxl    string `json:"mxl"` // MX level established by the policies before mx_auth.dane
	Tll    string `json:"tll"` // TLS level established before mx_auth.dane
	// Nt (target rounds without a handshake): "strip" = STARTTLS not offered, "break" = offered,
	// the handshake fails and the target falls back to plaintext. The model is independent of it.
	Nt string `json:"nt"`
}

func (r Round) mxLevel() module.MXLevel {
	switch r.Mxl {
	case "mtasts":
		return module.MX_MTASTS
	case "dnssec":
		return module.MX_DNSSEC
	}
	return module.MXNone
}

func (r Round) tlsLevel() module.TLSLevel {
	switch r.Tll {
	case "encrypted":
		return module.TLSEncrypted
	case "authenticated":
		return module.TLSAuthenticated
	}
	return module.TLSNone
}

type In struct {
	Mode   string  `json:"mode"`
	Rounds []Round `json:"rounds"`
	Sys    bool    `json:"sys"` // the chains are also valid under the platform trust store
}

type Row struct {
	ID int `json:"id"`
	In In  `json:"in"`
}

// ---- certificates ------------------------------------------------------------

type pki struct {
	t        *testing.T
	root     *x509.Certificate
	inter    *x509.Certificate
	interKey *ecdsa.PrivateKey
	stranger *x509.Certificate
	perMX    map[string]map[string][]*x509.Certificate // mx -> chain name -> chain
	keys     map[*x509.Certificate]*ecdsa.PrivateKey   // leaf keys (for the scripted TLS server)
	serial   int64
}

func mkCert(t *testing.T, cn string, ca bool, dnsNames []string, notBefore, notAfter time.Time,
	parent *x509.Certificate, parentKey *ecdsa.PrivateKey, serial int64) (*x509.Certificate, *ecdsa.PrivateKey) {
	key, err := ecdsa.GenerateKey(elliptic.P256(), rand.Reader)
	if err != nil {
		t.Fatal(err)
	}
	tpl := &x509.Certificate{
		SerialNumber:          big.NewInt(serial),
		Subject:               pkix.Name{CommonName: cn, Organization: []string{"verif"}},
		NotBefore:             notBefore,
		NotAfter:              notAfter,
		BasicConstraintsValid: true,
		IsCA:                  ca,
		DNSNames:              dnsNames,
	}
	if ca {
		tpl.KeyUsage = x509.KeyUsageCertSign | x509.KeyUsageCRLSign
	} else {
		tpl.KeyUsage = x509.KeyUsageDigitalSignature
		tpl.ExtKeyUsage = []x509.ExtKeyUsage{x509.ExtKeyUsageServerAuth}
	}
	signer, signerKey := tpl, key
	if parent != nil {
		signer, signerKey = parent, parentKey
	}
	der, err := x509.CreateCertificate(rand.Reader, tpl, signer, &key.PublicKey, signerKey)
	if err != nil {
		t.Fatal(err)
	}
	c, err := x509.ParseCertificate(der)
	if err != nil {
		t.Fatal(err)
	}
	return c, key
}

func mkPKI(t *testing.T) *pki {
	now := time.Now()
	long0, long1 := now.Add(-24*time.Hour), now.Add(10*365*24*time.Hour)
	root, rootKey := mkCert(t, "verif root CA", true, nil, long0, long1, nil, nil, 1)
	inter, interKey := mkCert(t, "verif intermediate CA", true, nil, long0, long1, root, rootKey, 2)
	stranger, _ := mkCert(t, "stranger", true, nil, long0, long1, nil, nil, 3)
	p := &pki{t: t, root: root, inter: inter, interKey: interKey, stranger: stranger,
		perMX: map[string]map[string][]*x509.Certificate{}, keys: map[*x509.Certificate]*ecdsa.PrivateKey{}, serial: 10}
	p.chains(mxName(1))
	return p
}

// chains returns what the server mx may present, generated on first use.
func (p *pki) chains(mx string) map[string][]*x509.Certificate {
	if c, ok := p.perMX[mx]; ok {
		return c
	}
	t := p.t
	now := time.Now()
	long0 := now.Add(-24 * time.Hour)
	p.serial += 3
	leaf, k1 := mkCert(t, mx, false, []string{mx}, long0, now.Add(365*24*time.Hour), p.inter, p.interKey, p.serial)
	expired, k2 := mkCert(t, mx, false, []string{mx}, now.Add(-2*365*24*time.Hour), now.Add(-365*24*time.Hour), p.inter, p.interKey, p.serial+1)
	// "wrong name" = any name but the MX host name (harness-only data: the model only knows that the
	// leaf is not valid for the MX name): the names a client has at hand besides the MX name are all
	// on it - the recipient domains used by the rows and the client's own host name
	wrong, k3 := mkCert(t, "other.example.invalid", false, []string{"other.example.invalid", rcptDomain, idnDomain, clientName},
		long0, now.Add(365*24*time.Hour), p.inter, p.interKey, p.serial+2)
	p.keys[leaf], p.keys[expired], p.keys[wrong] = k1, k2, k3
	c := map[string][]*x509.Certificate{
		"leaf":          {leaf},
		"leaf_int":      {leaf, p.inter},
		"leaf_int_root": {leaf, p.inter, p.root},
		"expired":       {expired, p.inter, p.root},
		"wrongname":     {wrong, p.inter, p.root},
	}
	// sanity of the generated PKI, independent of maddy
	roots, inters := x509.NewCertPool(), x509.NewCertPool()
	roots.AddCert(p.root)
	inters.AddCert(p.inter)
	if _, err := leaf.Verify(x509.VerifyOptions{DNSName: mx, Roots: roots, Intermediates: inters}); err != nil {
		t.Fatalf("generated leaf does not verify: %v", err)
	}
	if _, err := expired.Verify(x509.VerifyOptions{DNSName: mx, Roots: roots, Intermediates: inters}); err == nil {
		t.Fatal("generated expired leaf verifies")
	}
	if _, err := wrong.Verify(x509.VerifyOptions{DNSName: mx, Roots: roots, Intermediates: inters}); err == nil {
		t.Fatal("generated wrong-name leaf verifies")
	}
	p.perMX[mx] = c
	return c
}

// tlsCert is what a TLS server for mx presenting the named chain is configured with.
func (p *pki) tlsCert(mx, chain string) tls.Certificate {
	cs := p.chains(mx)[chain]
	c := tls.Certificate{PrivateKey: p.keys[cs[0]], Leaf: cs[0]}
	for _, x := range cs {
		c.Certificate = append(c.Certificate, x.Raw)
	}
	return c
}

// installSystemRoots makes the generated root CA the platform root set of this process
// and checks that it took effect (or, without it, that the chains are NOT platform-valid).
func (p *pki) installSystemRoots(t *testing.T, on bool) {
	if on {
		pool := x509.NewCertPool()
		pool.AddCert(p.root)
		x509.SetFallbackRoots(pool)
	}
	leaf := p.chains(mxName(1))["leaf_int"]
	inters := x509.NewCertPool()
	inters.AddCert(p.inter)
	_, err := leaf[0].Verify(x509.VerifyOptions{DNSName: mxName(1), Intermediates: inters})
	if on && err != nil {
		t.Fatalf("HARNESS: generated CA installed as platform root but the chain does not verify: %v", err)
	}
	if !on && err == nil {
		t.Fatal("HARNESS: generated chain verifies under the platform trust store without being installed")
	}
}

// assoc computes the certificate association data. Out-of-range selector /
// matching type values have no defined data; the data of the nearest defined
// combination is published then (so that an implementation that forgets to
// range-check has something to match).
func assoc(sel, mtype int, c *x509.Certificate) string {
	var blob []byte
	if sel&1 == 0 {
		blob = c.Raw
	} else {
		blob = c.RawSubjectPublicKeyInfo
	}
	switch mtype % 3 {
	case 1:
		h := sha256.Sum256(blob)
		return hex.EncodeToString(h[:])
	case 2:
		h := sha512.Sum512(blob)
		return hex.EncodeToString(h[:])
	}
	return hex.EncodeToString(blob)
}

// certOf names the certificate of the round's chain a record's data is taken from.
func (p *pki) certOf(mx, chain, match string) *x509.Certificate {
	switch match {
	case "leaf":
		return p.chains(mx)[chain][0] // the server's own certificate (expired / wrong-name one included)
	case "int":
		return p.inter
	case "root":
		return p.root
	}
	return p.stranger
}

func (p *pki) tlsa(mx string, in Round) []dns.TLSA {
	recs := make([]dns.TLSA, 0, len(in.Recs))
	for _, r := range in.Recs {
		recs = append(recs, dns.TLSA{
			Hdr: miekgdns.RR_Header{Name: "_25._tcp." + mx + ".", Rrtype: miekgdns.TypeTLSA,
				Class: miekgdns.ClassINET, Ttl: 3600},
			Usage: uint8(r.U), Selector: uint8(r.S), MatchingType: uint8(r.M),
			Certificate: assoc(r.S, r.M, p.certOf(mx, in.Chain, r.Match)),
		})
	}
	return recs
}

func (p *pki) state(mx string, in Round) tls.ConnectionState {
	if !in.HS {
		// no TLS: what tls.Conn.ConnectionState() / a plain connection yields
		return tls.ConnectionState{ServerName: mx}
	}
	return tls.ConnectionState{
		HandshakeComplete: true,
		Version:           tls.VersionTLS13,
		ServerName:        mx,
		PeerCertificates:  p.chains(mx)[in.Chain],
	}
}

// ---- observations ------------------------------------------------------------------

type out struct {
	Auth     bool   `json:"auth"`
	Refuse   bool   `json:"refuse"`
	Temp     bool   `json:"temp"`
	Observed bool   `json:"observed"` // a CheckConn was made for this round
	Panic    bool   `json:"panic"`
	Level    string `json:"level"`
	Err      string `json:"err"`
	Override bool   `json:"override"` // raw verifyDANE result
	RawErr   string `json:"rawErr"`   // raw verifyDANE error
	RawCall  bool   `json:"rawCall"`  // verifyDANE was also called directly
	RawPanic bool   `json:"rawPanic"`
}

type rowOut struct {
	Rounds []out  `json:"rounds"`
	Infra  string `json:"infra"` // harness-side trouble (DNS time-out on loopback, gate): says nothing about maddy
}

func levelName(l module.TLSLevel) string {
	switch l {
	case module.TLSNone:
		return "none"
	case module.TLSEncrypted:
		return "encrypted"
	case module.TLSAuthenticated:
		return "authenticated"
	}
	return fmt.Sprint(int(l))
}

func (o *out) setConn(level module.TLSLevel, err error) {
	o.Observed = true
	o.Level = levelName(level)
	if err != nil {
		o.Err = err.Error()
		o.Refuse = true
		o.Temp = exterrors.IsTemporary(err)
	}
	o.Auth = err == nil && level == module.TLSAuthenticated
}

func isTimeout(err error) bool {
	var ne net.Error
	return err != nil && ((errors.As(err, &ne) && ne.Timeout()) || errors.Is(err, context.DeadlineExceeded))
}

// ---- DNS: the repo's mock server behind a gate that can hold answers per MX ---------

type nopLogger struct{}

func (nopLogger) Printf(string, ...interface{}) {}

type discEnv struct {
	mock    *mockdns.Server
	srv     *miekgdns.Server
	res     *dns.ExtResolver
	resFail *dns.ExtResolver // the same with a failing first server
	p       *pki
	zmu     sync.RWMutex            // the mock server reads the map while answering
	zones   map[string]mockdns.Zone // shared with the mock server; replaced between rows

	rcodes map[string]int // (under zmu) query name -> response code of its scripted lookup failure

	down    *miekgdns.Server // a resolver that fails every query (first server of a "failover" configuration)
	servers [2]string        // its address, the address of the real one

	mu   sync.Mutex
	held map[string]chan struct{} // MX name -> closed when its answers may go out
}

// resolver returns the resolver for a row: configured with the real server only, or with the
// failing server in front of it. Both servers listen on the same port of different loopback
// addresses (the client configuration has one port for all servers). Two fixed objects: lookups
// of an earlier row may still be in flight, so nothing is mutated between rows.
func (e *discEnv) resolver(failover bool) *dns.ExtResolver {
	if failover {
		return e.resFail
	}
	return e.res
}

func newDiscEnv(t *testing.T, p *pki) *discEnv {
	zones := map[string]mockdns.Zone{}
	mock, err := mockdns.NewServerWithLogger(zones, nopLogger{}, false)
	if err != nil {
		t.Fatal(err)
	}
	e := &discEnv{mock: mock, zones: zones, held: map[string]chan struct{}{}, p: p, rcodes: map[string]int{}}
	// the real server on 127.0.0.1:P, the failing one on 127.0.0.2:P
	var pc, pc2 net.PacketConn
	for try := 0; ; try++ {
		pc, err = net.ListenPacket("udp4", "127.0.0.1:0")
		if err != nil {
			t.Fatal(err)
		}
		pc2, err = net.ListenPacket("udp4", fmt.Sprintf("127.0.0.2:%d", pc.LocalAddr().(*net.UDPAddr).Port))
		if err == nil {
			break
		}
		pc.Close()
		if try > 50 {
			t.Fatalf("HARNESS: no port free on both loopback addresses: %v", err)
		}
	}
	e.srv = &miekgdns.Server{PacketConn: pc, Handler: miekgdns.HandlerFunc(e.serve)}
	go e.srv.ActivateAndServe()
	e.down = &miekgdns.Server{PacketConn: pc2, Handler: miekgdns.HandlerFunc(func(w miekgdns.ResponseWriter, m *miekgdns.Msg) {
		reply := new(miekgdns.Msg)
		reply.SetRcode(m, miekgdns.RcodeServerFailure)
		w.WriteMsg(reply)
	})}
	go e.down.ActivateAndServe()
	addr := pc.LocalAddr().(*net.UDPAddr)
	e.servers = [2]string{"127.0.0.2", addr.IP.String()}
	mk := func(servers ...string) *dns.ExtResolver {
		res, err := dns.NewExtResolver()
		if err != nil {
			t.Fatalf("NewExtResolver: %v", err)
		}
		res.Cfg.Servers = servers
		res.Cfg.Port = strconv.Itoa(addr.Port)
		res.Cfg.Timeout = 5
		res.Cfg.Attempts = 3
		return res
	}
	e.res = mk(e.servers[1])
	e.resFail = mk(e.servers[0], e.servers[1])
	return e
}

func (e *discEnv) close() {
	e.srv.Shutdown()
	e.down.Shutdown()
	e.mock.Close()
}

// serve holds the answer while the MX the question is about is held.
func (e *discEnv) serve(w miekgdns.ResponseWriter, m *miekgdns.Msg) {
	if len(m.Question) > 0 {
		q := strings.ToLower(m.Question[0].Name)
		e.mu.Lock()
		var ch chan struct{}
		for mx, c := range e.held {
			if strings.HasSuffix(q, mx+".") {
				ch = c
			}
		}
		e.mu.Unlock()
		if ch != nil {
			select {
			case <-ch:
			case <-time.After(holdCap):
			}
		}
	}
	e.zmu.RLock()
	defer e.zmu.RUnlock()
	if len(m.Question) > 0 {
		if rc, ok := e.rcodes[strings.ToLower(m.Question[0].Name)]; ok && rc != miekgdns.RcodeServerFailure {
			reply := new(miekgdns.Msg) // the scripted lookup failure, spelled with another response code
			reply.SetRcode(m, rc)
			w.WriteMsg(reply)
			return
		}
	}
	e.mock.ServeDNS(w, m)
}

func (e *discEnv) hold(mx string) {
	e.mu.Lock()
	e.held[mx] = make(chan struct{})
	e.mu.Unlock()
}

func (e *discEnv) release(mx string) {
	e.mu.Lock()
	if c, ok := e.held[mx]; ok {
		close(c)
		delete(e.held, mx)
	}
	e.mu.Unlock()
}

func (e *discEnv) releaseAll() {
	e.mu.Lock()
	for mx, c := range e.held {
		close(c)
		delete(e.held, mx)
	}
	e.mu.Unlock()
}

func (e *discEnv) clearZones() {
	e.zmu.Lock()
	defer e.zmu.Unlock()
	for k := range e.zones {
		delete(e.zones, k)
	}
	for k := range e.rcodes {
		delete(e.rcodes, k)
	}
}

func (e *discEnv) addZones(mx string, in Round, recs []dns.TLSA) {
	e.zmu.Lock()
	defer e.zmu.Unlock()
	z := e.zones
	host := mx + "."
	tname := "_25._tcp." + host
	if in.Lookup == "wire" { // the RRset as published in a signed zone
		in.Disc = Disc{A: "ad", TLSA: "recs_ad", Af: in.Disc.Af}
		if len(recs) == 0 {
			in.Disc.TLSA = "nodata"
		}
	}
	if in.Disc.Cname != "" && in.Disc.Cname != "-" {
		// the MX name is an alias; the address record lives at the canonical name
		cn := "c-" + host
		z[host] = mockdns.Zone{AD: in.Disc.Cname != "insecure", CNAME: cn}
		if in.Disc.Hops == 2 {
			// mx -> alias -> canonical name; beyond the zone of the MX name an alias is as
			// secure as the canonical name
			al := "al-" + host
			z[host] = mockdns.Zone{AD: in.Disc.Cname != "insecure", CNAME: al}
			z[al] = mockdns.Zone{AD: in.Disc.Cname == "secure", CNAME: cn}
		}
		z[cn] = addrZone(in.Disc.Cname == "secure", in.Disc.Af)
		ctn := "_25._tcp." + cn
		crec := dns.TLSA{Hdr: miekgdns.RR_Header{Name: ctn, Rrtype: miekgdns.TypeTLSA, Class: miekgdns.ClassINET, Ttl: 3600},
			Usage: 3, Selector: 1, MatchingType: 1, Certificate: assoc(1, 1, e.p.certOf(mx, in.Chain, in.Disc.Cmatch))}
		cmisc := map[miekgdns.Type][]miekgdns.RR{miekgdns.Type(miekgdns.TypeTLSA): {&crec}}
		switch in.Disc.Ctlsa {
		case "recs_ad":
			z[ctn] = mockdns.Zone{AD: true, Misc: cmisc}
		case "recs_noad":
			z[ctn] = mockdns.Zone{AD: false, Misc: cmisc}
		case "nodata":
			z[ctn] = mockdns.Zone{AD: true, TXT: []string{"not a TLSA record"}}
		case "servfail":
			z[ctn] = mockdns.Zone{Err: fmt.Errorf("scripted SERVFAIL")}
			e.rcodes[strings.ToLower(ctn)] = in.Disc.failCode()
		case "nxdomain":
		}
	} else {
		switch in.Disc.A {
		case "ad":
			z[host] = addrZone(true, in.Disc.Af)
		case "noad":
			z[host] = addrZone(false, in.Disc.Af)
		case "servfail":
			z[host] = mockdns.Zone{Err: fmt.Errorf("scripted SERVFAIL")}
			e.rcodes[strings.ToLower(host)] = in.Disc.failCode()
		case "nxdomain":
		}
	}
	rrs := make([]miekgdns.RR, 0, len(recs))
	for i := range recs {
		r := recs[i]
		rrs = append(rrs, &r)
	}
	misc := map[miekgdns.Type][]miekgdns.RR{miekgdns.Type(miekgdns.TypeTLSA): rrs}
	switch in.Disc.TLSA {
	case "recs_ad":
		z[tname] = mockdns.Zone{AD: true, Misc: misc}
	case "recs_noad":
		z[tname] = mockdns.Zone{AD: false, Misc: misc}
	case "nodata":
		z[tname] = mockdns.Zone{AD: true, TXT: []string{"not a TLSA record"}}
	case "servfail":
		z[tname] = mockdns.Zone{Err: fmt.Errorf("scripted SERVFAIL")}
		e.rcodes[strings.ToLower(tname)] = in.Disc.failCode()
	case "nxdomain":
	}
}

// ---- running a row --------------------------------------------------------------------

func guard(o *out, f func()) {
	defer func() {
		if e := recover(); e != nil {
			*o = out{Observed: true, Panic: true, Err: fmt.Sprint("panic: ", e)}
		}
	}()
	f()
}

// injected: one round, the lookup outcome is given, the real CheckConn judges.
func runInjected(t *testing.T, p *pki, id int, in Round) out {
	var o out
	mx := mxName(1)
	recs := p.tlsa(mx, in)
	st := p.state(mx, in)
	ctx, cancel := context.WithTimeout(context.Background(), 60*time.Second)
	defer cancel()
	guard(&o, func() {
		switch in.Lookup {
		case "ok":
			o.setConn(remote.VerifDANECheckConnLevels(ctx, recs, nil, in.mxLevel(), in.tlsLevel(), mx, st))
		case "notfound":
			o.setConn(remote.VerifDANECheckConnLevels(ctx, []dns.TLSA(nil),
				dns.RCodeError{Name: mx + ".", Code: miekgdns.RcodeNameError}, in.mxLevel(), in.tlsLevel(), mx, st))
		case "error":
			o.setConn(remote.VerifDANECheckConnLevels(ctx, []dns.TLSA(nil),
				dns.RCodeError{Name: mx + ".", Code: miekgdns.RcodeServerFailure}, in.mxLevel(), in.tlsLevel(), mx, st))
		default:
			t.Fatalf("row %d: unknown lookup %q", id, in.Lookup)
		}
	})
	if in.Lookup == "ok" {
		o.RawCall = true
		func() {
			defer func() {
				if e := recover(); e != nil {
					o.RawPanic = true
				}
			}()
			ov, err := remote.VerifVerifyDANE(recs, st)
			o.Override = ov
			if err != nil {
				o.RawErr = err.Error()
			}
		}()
	}
	return o
}

// waitAny returns when one of the lookup-result holders has a result.
func waitAny(ctx context.Context, fs ...remote.VerifDANELookup) bool {
	cctx, cancel := context.WithCancel(ctx)
	defer cancel()
	done := make(chan struct{}, len(fs))
	n := 0
	for _, f := range fs {
		if f == nil {
			continue
		}
		n++
		go func(f remote.VerifDANELookup) {
			f.GetContext(cctx) // returns on result or on cancel
			done <- struct{}{}
		}(f)
	}
	if n == 0 {
		return true
	}
	select {
	case <-done:
		return cctx.Err() == nil
	case <-time.After(holdCap):
		return false
	}
}

// runDelivery: every round is the real PrepareConn / CheckConn on ONE delivery object.
func runDelivery(t *testing.T, p *pki, e *discEnv, r Row) rowOut {
	in := r.In
	ro := rowOut{Rounds: make([]out, len(in.Rounds))}
	ctx, cancel := context.WithTimeout(context.Background(), 90*time.Second)
	defer cancel()
	e.releaseAll()
	e.clearZones()
	res := e.resolver(in.Rounds[0].Disc.Srv == "failover") // one resolver configuration per delivery: the first round's
	states := make([]tls.ConnectionState, len(in.Rounds))
	for k, rd := range in.Rounds {
		mx := mxName(k + 1)
		e.addZones(mx, rd, p.tlsa(mx, rd))
		states[k] = p.state(mx, rd)
	}
	d := remote.VerifNewDANEDelivery(res)
	check := func(k int) {
		mx := mxName(k + 1)
		guard(&ro.Rounds[k], func() {
			level, err := d.CheckConn(ctx, in.Rounds[k].mxLevel(), in.Rounds[k].tlsLevel(), rcptDomain, mx, states[k])
			if isTimeout(err) {
				ro.Infra = "DNS time-out talking to the mock server: " + err.Error()
			}
			ro.Rounds[k].setConn(level, err)
		})
	}
	switch in.Mode {
	case "seq":
		for k := range in.Rounds {
			d.PrepareConn(ctx, mxName(k+1))
			check(k)
		}
	case "overlap":
		n := len(in.Rounds)
		for k := 0; k < n; k++ {
			e.hold(mxName(k + 1))
		}
		futs := make([]remote.VerifDANELookup, n)
		for k := 0; k < n; k++ {
			d.PrepareConn(ctx, mxName(k+1)) // the attempt to MX k is given up before its lookup is answered
			futs[k] = remote.VerifDANECurrentLookup(d)
		}
		for k := 0; k < n-1; k++ {
			e.release(mxName(k + 1))
			// the late lookup of MX k has delivered its result - into its own holder or,
			// if the code lets it, into the one CheckConn of the last MX will read
			if !waitAny(ctx, futs[k], futs[n-1]) {
				ro.Infra = "late lookup did not complete within the harness cap"
			}
		}
		e.release(mxName(n))
		check(n - 1)
	default:
		t.Fatalf("row %d: unknown mode %q", r.ID, in.Mode)
	}
	e.releaseAll()
	return ro
}

// ---- a delivery attempt of the real remote target (attemptMX in front of mx_auth.dane) ----

// probe is an MXAuthPolicy placed after mx_auth.dane: the TLS level it is handed in
// CheckConn is what the policies before it (the TLS client and DANE) have established.
type probe struct {
	mu     sync.Mutex
	called bool
	tls    module.TLSLevel
	mx     string
}

func (p *probe) Start(*module.MsgMetadata) module.DeliveryMXAuthPolicy { return p }
func (p *probe) Weight() int                                           { return 900 }
func (p *probe) PrepareDomain(context.Context, string)                 {}
func (p *probe) PrepareConn(context.Context, string)                   {}
func (p *probe) CheckMX(context.Context, module.MXLevel, string, string, bool) (module.MXLevel, error) {
	return module.MXNone, nil
}
func (p *probe) CheckConn(_ context.Context, _ module.MXLevel, tlsLevel module.TLSLevel, _, mx string, _ tls.ConnectionState) (module.TLSLevel, error) {
	p.mu.Lock()
	p.called, p.tls, p.mx = true, tlsLevel, mx
	p.mu.Unlock()
	return module.TLSNone, nil
}
func (p *probe) Reset(*module.MsgMetadata) {}

const (
	idnDomain = "idn.example.invalid"
	idnMX     = "mx1.xn--e1afmkfd.invalid" // A-label form, as MX records carry it
)

func runTarget(t *testing.T, p *pki, e *discEnv, r Row, sys bool) rowOut {
	// sys: the generated CA is a platform root of this process, so the target's first handshake
	// (Web-PKI verification) succeeds for a valid chain and the connection reaches mx_auth.dane as
	// "authenticated"; the probe in front of mx_auth.dane sees that, and only what DANE adds counts.
	rd := r.In.Rounds[0]
	ro := rowOut{Rounds: make([]out, 1)}
	o := &ro.Rounds[0]
	ctx, cancel := context.WithTimeout(context.Background(), 90*time.Second)
	defer cancel()
	e.releaseAll()
	e.clearZones()
	res := e.resolver(rd.Disc.Srv == "failover")
	e.addZones(idnMX, rd, p.tlsa(idnMX, rd))
	e.zmu.Lock()
	e.zones[idnDomain+"."] = mockdns.Zone{MX: []net.MX{{Host: idnMX + ".", Pref: 10}}}
	e.zmu.Unlock()

	cert := p.tlsCert(idnMX, rd.Chain)
	srv, err := scripted.NewSMTPServer(scripted.SMTPServerConfig{Name: "idnmx", Hostname: idnMX,
		NoSTARTTLS: !rd.HS && rd.Nt != "break", BreakHandshake: !rd.HS && rd.Nt == "break",
		TLS: &tls.Config{Certificates: []tls.Certificate{cert}}})
	if err != nil {
		t.Fatalf("row %d: SMTP server: %v", r.ID, err)
	}
	defer srv.Close()
	snet := scripted.NewSMTPNet()
	snet.Add(idnMX, srv)
	pre, pr := &probe{}, &probe{}
	nolog := log.Logger{Out: log.NopOutput{}}
	rt := remote.VerifRemoteNewTarget(remote.VerifRemoteConfig{
		Hostname:    clientName,
		Resolver:    &mockdns.Resolver{Zones: map[string]mockdns.Zone{}},
		Dialer:      snet.DialContext,
		ExtResolver: res,
		TLSConfig:   &tls.Config{},
		Policies:    []module.MXAuthPolicy{pre, remote.VerifRemoteDANEPolicy(res, nolog), pr},
		Pool: pool.Config{MaxKeys: 100, MaxConnsPerKey: 5, MaxConnLifetimeSec: 150,
			StaleKeyLifetimeSec: 300},
		ConnReuseLimit:    10,
		ConnectTimeout:    20 * time.Second,
		CommandTimeout:    20 * time.Second,
		SubmissionTimeout: 20 * time.Second,
		Log:               nolog,
	})
	defer rt.Close()
	guard(o, func() {
		meta := &module.MsgMetadata{ID: fmt.Sprintf("row%d", r.ID), DontTraceSender: true, SMTPOpts: smtp.MailOptions{},
			OriginalFrom: "sender@example.org"}
		d, err := rt.Start(ctx, meta, "sender@example.org")
		if err != nil {
			t.Fatalf("row %d: target Start: %v", r.ID, err)
		}
		aerr := d.AddRcpt(ctx, "rcpt@"+idnDomain, smtp.RcptOptions{})
		_ = d.Abort(ctx)
		o.Observed = true
		pr.mu.Lock()
		called, lvl := pr.called, pr.tls
		pr.mu.Unlock()
		pre.mu.Lock()
		before := pre.tls
		pre.mu.Unlock()
		o.Level = levelName(lvl)
		if aerr != nil {
			o.Err = aerr.Error()
			o.Refuse = true
			o.Temp = exterrors.IsTemporary(aerr)
			if isTimeout(aerr) {
				ro.Infra = "time-out during the delivery attempt: " + aerr.Error()
			}
		}
		// authenticated by DANE: the level after mx_auth.dane is "authenticated" and was not before it
		o.Auth = aerr == nil && called && lvl == module.TLSAuthenticated && before != module.TLSAuthenticated
	})
	if snet.TimedOut {
		ro.Infra = "scripted SMTP network timed out"
	}
	return ro
}

func runRow(t *testing.T, p *pki, env func() *discEnv, r Row, sys bool) rowOut {
	if r.In.Sys != sys {
		t.Fatalf("row %d: in.sys=%v but this process has VERIF_SYSROOTS=%v", r.ID, r.In.Sys, sys)
	}
	if len(r.In.Rounds) == 1 && r.In.Rounds[0].Lookup == "target" {
		var ro rowOut
		for attempt := 0; attempt < 3; attempt++ {
			ro = runTarget(t, p, env(), r, sys)
			if ro.Infra == "" {
				break
			}
		}
		return ro
	}
	in := r.In
	real := func(lk string) bool { return lk == "disc" || lk == "wire" }
	if len(in.Rounds) == 1 && !real(in.Rounds[0].Lookup) {
		return rowOut{Rounds: []out{runInjected(t, p, r.ID, in.Rounds[0])}}
	}
	for _, rd := range in.Rounds {
		if !real(rd.Lookup) {
			t.Fatalf("row %d: a history of several MXs must use the real discovery", r.ID)
		}
	}
	var ro rowOut
	for attempt := 0; attempt < 3; attempt++ { // a starved machine may time a loopback query out
		ro = runDelivery(t, p, env(), r)
		if ro.Infra == "" {
			break
		}
	}
	return ro
}

func TestReplay(t *testing.T) {
	inPath, outPath := os.Getenv("VERIF_IN"), os.Getenv("VERIF_OUT")
	if inPath == "" || outPath == "" {
		t.Skip("VERIF_IN / VERIF_OUT not set")
	}
	f, err := os.Open(inPath)
	if err != nil {
		t.Fatal(err)
	}
	defer f.Close()
	of, err := os.Create(outPath)
	if err != nil {
		t.Fatal(err)
	}
	defer of.Close()
	w := bufio.NewWriterSize(of, 1<<20)
	defer w.Flush()

	p := mkPKI(t)
	sys := os.Getenv("VERIF_SYSROOTS") == "1"
	p.installSystemRoots(t, sys)
	var env *discEnv
	getEnv := func() *discEnv {
		if env == nil {
			env = newDiscEnv(t, p)
		}
		return env
	}
	defer func() {
		if env != nil {
			env.close()
		}
	}()

	sc := bufio.NewScanner(f)
	sc.Buffer(make([]byte, 1<<20), 1<<26)
	n := 0
	for sc.Scan() {
		var r Row
		if err := json.Unmarshal(sc.Bytes(), &r); err != nil {
			t.Fatalf("bad row: %v", err)
		}
		var generic struct {
			In json.RawMessage `json:"in"`
		}
		_ = json.Unmarshal(sc.Bytes(), &generic)
		o := runRow(t, p, getEnv, r, sys)
		tr := vtrace.New(w, r.ID)
		tr.Emit("Row", vtrace.Ev{"in": generic.In, "out": o})
		n++
	}
	t.Logf("ran %d rows", n)
}
