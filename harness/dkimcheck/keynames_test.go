package dkimcheck

import (
	"os"
	"path/filepath"
	"regexp"
	"strings"
	"sync"
	"time"

	mlog "github.com/foxcpp/maddy/framework/log"
)

// Naming of the files in a key directory (C08, DkimKeys.tla: cfg.tpl and RecFile).
//
// The model knows the naming class of the key_path template ("key": the key file name ends in .key,
// "bare": anything else). Harness-only data dimensions (the design does not depend on them):
//   - spell: the template itself ({domain}.key, {domain}_{selector}.key, {domain}, {domain}.{selector}, ...)
//   - names: how the configured domains are spelled (unrelated / differing only in the last label / one a
//     prefix of the other)
//   - sel2:  a second modify.dkim instance with another selector and the other key type initialised on the
//     same directory after the signing instance at every start (dual signing set-ups)
//
// The zone the next hop sees is what an operator following maddy's instructions publishes: for
// <selector>._domainkey.<domain> the content of the file maddy named when it generated the key (its log
// line); when there is no such line or the named file does not exist, the file the documentation describes
// (".dns files in the same directory": key file name with .key replaced by .dns, otherwise + .dns). The
// file is read when the next hop asks, like before.

var nameSets = []map[string]string{
	{"top": "example.org", "second": "strasse.example.net", "sub": "news.example.org",
		"other": "other.example", "fold": "straße.example.net"},
	{"top": "strasse.example.org", "second": "strasse.example.net", "sub": "news.strasse.example.org",
		"other": "other.example", "fold": "straße.example.net"},
	{"top": "strasse.example", "second": "strasse.example.net", "sub": "news.strasse.example",
		"other": "other.example", "fold": "straße.example.net"},
}

func keyFile(dir, spell, domain, selector string) string {
	if spell == "" {
		spell = "{domain}.key"
	}
	return filepath.Join(dir, strings.NewReplacer("{domain}", domain, "{selector}", selector).Replace(spell))
}

// documentedRecordFile: docs/reference/modifiers/dkim.md + the message of Init
func documentedRecordFile(keyPath string) string {
	if strings.HasSuffix(keyPath, ".key") {
		return strings.TrimSuffix(keyPath, ".key") + ".dns"
	}
	return keyPath + ".dns"
}

var recordLine = regexp.MustCompile(`(?s)TXT record with public key is in (.+?),\s+put its contents into TXT record for (\S+?)\._domainkey\.(\S+) to make`)

// publication: DNS name -> record file, as told by maddy (told) and as documented (doc)
type publication struct {
	told, doc map[string]string
}

func newPublication() *publication {
	return &publication{told: map[string]string{}, doc: map[string]string{}}
}

func (p *publication) lookup(name string) (string, bool) {
	name = strings.ToLower(strings.TrimSuffix(name, "."))
	for _, f := range []string{p.told[name], p.doc[name]} {
		if f == "" {
			continue
		}
		if b, err := os.ReadFile(f); err == nil {
			return string(b), true
		}
	}
	return "", false
}

func (p *publication) learn(lines []string) {
	for _, l := range lines {
		if m := recordLine.FindStringSubmatch(l); m != nil {
			p.told[strings.ToLower(m[2]+"._domainkey."+m[3])] = m[1]
		}
	}
}

var logMu sync.Mutex

// captureLog runs f and returns what maddy wrote to its default log meanwhile
func captureLog(f func()) []string {
	var (
		mu    sync.Mutex
		lines []string
	)
	logMu.Lock()
	defer logMu.Unlock()
	old := mlog.DefaultLogger.Out
	mlog.DefaultLogger.Out = mlog.FuncOutput(func(_ time.Time, _ bool, s string) {
		mu.Lock()
		lines = append(lines, s)
		mu.Unlock()
	}, func() error { return nil })
	defer func() { mlog.DefaultLogger.Out = old }()
	f()
	mu.Lock()
	defer mu.Unlock()
	return append([]string(nil), lines...)
}
