package dkimcheck

import (
	"bufio"
	"bytes"
	"context"
	"encoding/json"
	"fmt"
	"os"
	"path/filepath"
	"sort"
	"strings"
	"testing"

	"github.com/emersion/go-message/textproto"
	"github.com/emersion/go-msgauth/dkim"
	"github.com/emersion/go-smtp"
	"github.com/foxcpp/maddy/framework/buffer"
	"github.com/foxcpp/maddy/framework/config"
	"github.com/foxcpp/maddy/framework/module"
	moddkim "github.com/foxcpp/maddy/internal/modify/dkim"
	"github.com/foxcpp/maddy/verifharness/vtrace"
	"golang.org/x/net/idna"
)

// Key life-cycle replay (C08, DkimKeys.tla). Input rows:
// {"id":N, "cfg":{"doms":["top",..],"sub":bool}, "hist":[{"e":"Start","algo":..}|{"e":"RemoveKey","dom":..}|{"e":"Sign","sender":..}]}
// Every Sign goes: real modify.dkim -> real queue (store, restart, reload) -> real SMTP client ->
// next hop, which verifies against the zone made of exactly the record files maddy wrote.

type KeyStep struct {
	E      string `json:"e"`
	Algo   string `json:"algo"`
	Dom    string `json:"dom"`
	Sender string `json:"sender"`
}

type KeyRow struct {
	ID  int `json:"id"`
	Cfg struct {
		Doms []string `json:"doms"`
		Sub  bool     `json:"sub"`
		// naming of the key directory's files: Tpl is the model's class, the rest is harness-only data
		// (keynames_test.go); absent in old replay files = {domain}.key, first name set, one instance
		Tpl   string `json:"tpl"`
		Spell string `json:"spell"`
		Names int    `json:"names"`
		Sel2  bool   `json:"sel2"`
	} `json:"cfg"`
	Hist []KeyStep `json:"hist"`
}

func domClass(domName map[string]string, d string) string {
	if u, err := idna.ToUnicode(d); err == nil {
		d = u
	}
	for k, v := range domName {
		if strings.EqualFold(v, d) {
			return k
		}
	}
	return "other"
}

func senderAddr(domName map[string]string, class string) string {
	switch class {
	case "null":
		return ""
	case "upper":
		return "Sender@" + strings.ToUpper(domName["top"])
	}
	return "sender@" + domName[class]
}

func runKeys(t *testing.T, e *env, r KeyRow, tr *vtrace.Tracer) {
	kdir, err := os.MkdirTemp(e.dir, "keyhist")
	if err != nil {
		t.Fatal(err)
	}
	defer os.RemoveAll(kdir)
	if r.Cfg.Names < 0 || r.Cfg.Names >= len(nameSets) {
		t.Fatalf("row %d: unknown name set %d", r.ID, r.Cfg.Names)
	}
	domName := nameSets[r.Cfg.Names]
	tpl, spell := r.Cfg.Tpl, r.Cfg.Spell
	if spell == "" {
		spell = "{domain}.key"
	}
	if tpl == "" {
		tpl = "key"
	}
	if (tpl == "key") != strings.HasSuffix(spell, ".key") {
		t.Fatalf("row %d: template %q is not of naming class %q", r.ID, spell, tpl)
	}
	var doms []string
	for _, d := range r.Cfg.Doms {
		doms = append(doms, domName[d])
	}
	tr.Emit("Cfg", vtrace.Ev{"doms": r.Cfg.Doms, "sub": r.Cfg.Sub, "tpl": tpl, "spell": spell, "names": r.Cfg.Names,
		"sel2": r.Cfg.Sel2, "row": r.ID})
	// the zone: <selector>._domainkey.<domain> -> content of the record file maddy left for that key, nothing else
	pub := newPublication()
	for _, d := range doms {
		pub.doc["sel._domainkey."+d] = documentedRecordFile(keyFile(kdir, spell, d, "sel"))
	}
	zone := pub.lookup
	var m *moddkim.Modifier
	msgNo := 0
	for _, st := range r.Hist {
		switch st.E {
		case "Start":
			mod, err := moddkim.New("modify.dkim", "verif_dkim", nil, nil)
			if err != nil {
				t.Fatal(err)
			}
			sub := "no"
			if r.Cfg.Sub {
				sub = "yes"
			}
			initMod := func(mod module.Module, selector, algo string) error {
				return mod.(*moddkim.Modifier).Init(config.NewMap(nil, config.Node{Children: []config.Node{
					{Name: "domains", Args: doms},
					{Name: "selector", Args: []string{selector}},
					{Name: "key_path", Args: []string{filepath.Join(kdir, spell)}},
					{Name: "newkey_algo", Args: []string{algo}},
					{Name: "sign_subdomains", Args: []string{sub}},
				}}))
			}
			err2 := error(nil)
			lines := captureLog(func() {
				err = initMod(mod, "sel", st.Algo)
				if err == nil && r.Cfg.Sel2 {
					// the second instance of a dual-signing set-up: other selector, other key type, same
					// directory; it signs nothing here, its files must leave the first instance's alone
					algo2 := "ed25519"
					if st.Algo == "ed25519" {
						algo2 = "rsa2048"
					}
					var mod2 module.Module
					if mod2, err2 = moddkim.New("modify.dkim", "verif_dkim2", nil, nil); err2 == nil {
						err2 = initMod(mod2, "sel2", algo2)
					}
				}
			})
			if err2 != nil {
				t.Fatalf("second modify.dkim instance: %v", err2)
			}
			pub.learn(lines)
			if err == nil {
				m = mod.(*moddkim.Modifier)
			}
			var told []string // (a string: for the reader of the evidence only)
			for k, v := range pub.told {
				if rel, rerr := filepath.Rel(kdir, v); rerr == nil {
					v = rel
				}
				told = append(told, k+" <- "+v)
			}
			sort.Strings(told)
			tr.Emit("Start", vtrace.Ev{"algo": st.Algo, "ok": err == nil, "err": fmt.Sprint(err), "told": strings.Join(told, "; ")})
		case "RemoveKey":
			err := os.Remove(keyFile(kdir, spell, domName[st.Dom], "sel"))
			if err != nil {
				t.Fatalf("history removes a key that does not exist: %v", err)
			}
			tr.Emit("RemoveKey", vtrace.Ev{"dom": st.Dom})
		case "Sign":
			msgNo++
			from := senderAddr(domName, st.Sender)
			hdr := textproto.Header{}
			hdr.Add("Subject", fmt.Sprintf("key history %d/%d", r.ID, msgNo))
			hdr.Add("To", "<rcpt@nexthop.example>")
			hdr.Add("From", "Sender <sender@example.org>")
			body := buffer.MemoryBuffer{Slice: []byte("signed with whatever key is current\r\n")}
			ctx := context.Background()
			// (a sender in the sharp-s domain: SMTPUTF8 message on odd messages, A-label spelling otherwise)
			opts := smtp.MailOptions{}
			if st.Sender == "fold" {
				if msgNo%2 == 1 {
					opts.UTF8 = true
				} else {
					from = "sender@xn--strae-oqa.example.net"
				}
			}
			meta := &module.MsgMetadata{ID: fmt.Sprintf("keys%d-%d", r.ID, msgNo), OriginalFrom: from, SMTPOpts: opts}
			ms, err := m.ModStateForMsg(ctx, meta)
			if err != nil {
				t.Fatal(err)
			}
			if _, err := ms.RewriteSender(ctx, from); err != nil {
				t.Fatal(err)
			}
			ev := vtrace.Ev{"sender": st.Sender, "signed": false, "d": "none", "verified": false, "note": ""}
			if err := ms.RewriteBody(ctx, &hdr, body); err != nil {
				ev["note"] = "sign: " + err.Error()
				tr.Emit("Sign", ev)
				continue
			}
			ms.Close()
			got, note := relay(t, e, meta, from, hdr, body)
			if got == nil {
				ev["note"] = note
				tr.Emit("Timeout", ev)
				return
			}
			if bytes.Contains(got[:bytes.Index(got, []byte("\r\n\r\n"))+2], []byte("DKIM-Signature:")) {
				ev["signed"] = true
				d, ierr := VerifyZone(got, zone)
				ev["d"] = domClass(domName, d)
				var lerr error
				vs, err := dkim.VerifyWithOptions(bytes.NewReader(got), &dkim.VerifyOptions{
					LookupTXT: func(name string) ([]string, error) {
						if txt, ok := zone(name); ok {
							return []string{txt}, nil
						}
						return nil, fmt.Errorf("lookup %s: no such host", name)
					}})
				if err != nil {
					lerr = err
				} else if len(vs) != 1 {
					lerr = fmt.Errorf("%d signatures seen", len(vs))
				} else {
					lerr = vs[0].Err
				}
				ev["verified"] = ierr == nil && lerr == nil
				if ierr != nil || lerr != nil {
					ev["note"] = fmt.Sprintf("independent verifier: %v | go-msgauth: %v", ierr, lerr)
				}
			}
			tr.Emit("Sign", ev)
		}
	}
	tr.Emit("Final", nil)
}

func TestKeys(t *testing.T) {
	in, outp := os.Getenv("VERIF_IN"), os.Getenv("VERIF_OUT")
	if in == "" || outp == "" {
		t.Skip("VERIF_IN / VERIF_OUT not set")
	}
	f, err := os.Open(in)
	if err != nil {
		t.Fatal(err)
	}
	defer f.Close()
	of, err := os.Create(outp)
	if err != nil {
		t.Fatal(err)
	}
	defer of.Close()
	w := bufio.NewWriter(of)
	defer w.Flush()
	e := newEnv(t)
	defer os.RemoveAll(e.dir)
	defer e.srv.Close()
	sc := bufio.NewScanner(f)
	sc.Buffer(make([]byte, 1<<20), 1<<26)
	for sc.Scan() {
		var r KeyRow
		if err := json.Unmarshal(sc.Bytes(), &r); err != nil {
			t.Fatalf("bad row: %v", err)
		}
		runKeys(t, e, r, vtrace.New(w, r.ID))
	}
}
