package dkimcheck

import (
	"context"
	"sync"

	"github.com/emersion/go-message/textproto"
	"github.com/foxcpp/maddy/framework/buffer"
	"github.com/foxcpp/maddy/framework/config"
	"github.com/foxcpp/maddy/framework/module"
)

// Modules for the rows that are signed INSIDE a real message pipeline (Shape.Via): a check that asks for
// a header field to be added (a field maddy's signer over-signs by default) and a proxy target that hands the
// pipeline's delivery to the queue of the running row.

type addHdrCheck struct{ inst string }
type addHdrState struct{}

func (c *addHdrCheck) Name() string               { return "check.verif_addhdr" }
func (c *addHdrCheck) InstanceName() string       { return c.inst }
func (c *addHdrCheck) Init(cfg *config.Map) error { return nil }
func (c *addHdrCheck) CheckStateForMsg(ctx context.Context, m *module.MsgMetadata) (module.CheckState, error) {
	return &addHdrState{}, nil
}
func (*addHdrState) CheckConnection(ctx context.Context) module.CheckResult {
	return module.CheckResult{}
}
func (*addHdrState) CheckSender(ctx context.Context, f string) module.CheckResult {
	return module.CheckResult{}
}
func (*addHdrState) CheckRcpt(ctx context.Context, r string) module.CheckResult {
	return module.CheckResult{}
}
func (*addHdrState) CheckBody(ctx context.Context, h textproto.Header, b buffer.Buffer) module.CheckResult {
	add := textproto.Header{}
	add.Add("Sender", "<list-owner@lists.example.org>")
	return module.CheckResult{Header: add}
}
func (*addHdrState) Close() error { return nil }

var (
	pipeMu   sync.Mutex
	pipeTgt  module.DeliveryTarget
	pipeOnce sync.Once
)

type pipeProxy struct{ inst string }

func (p *pipeProxy) Name() string               { return "target.verifdkq" }
func (p *pipeProxy) InstanceName() string       { return p.inst }
func (p *pipeProxy) Init(cfg *config.Map) error { return nil }
func (p *pipeProxy) Start(ctx context.Context, m *module.MsgMetadata, from string) (module.Delivery, error) {
	pipeMu.Lock()
	t := pipeTgt
	pipeMu.Unlock()
	return t.Start(ctx, m, from)
}

func registerPipeModules() {
	pipeOnce.Do(func() {
		module.Register("check.verif_addhdr", func(_, inst string, _, _ []string) (module.Module, error) {
			return &addHdrCheck{inst: inst}, nil
		})
		module.Register("target.verifdkq", func(_, inst string, _, _ []string) (module.Module, error) {
			return &pipeProxy{inst: inst}, nil
		})
	})
}

type nullCollector struct{}

func (nullCollector) SetStatus(string, error) {}
