package dkimcheck

import (
	"bytes"
	"crypto"
	"fmt"
	"math/rand"
	"net/textproto"
	"strings"

	"github.com/foxcpp/maddy/framework/config"
)

// The h= layer of MsgShape.tla: the signer's field configuration (Shape.Fc) and the NAME of every
// generated header field (Shape.Nm).  This file is the concretisation table (abstract name -> field
// name, abstract spelling -> bytes of the configuration) and the enumeration of tamperings at the next
// hop.  Whether a tampering had to be detected is decided by TLC (Required/TamperViol in MsgShape.tla)
// from the recorded (t, nk, cnt, pos, verified) tuples, not here.

type FieldCfg struct {
	Custom bool   `json:"custom"` // false: maddy's default oversign_fields / sign_fields
	Spell  string `json:"spell"`  // canon | lower | upper | rfc : spelling of the names in the configuration
	Dup    string `json:"dup"`    // none | same (over#1 twice in oversign_fields) | cross (over#2 also in sign_fields)
	Exp    string `json:"exp"`    // default | none | short : sig_expiry
}

type Name struct {
	K string `json:"k"` // over | sign | free
	N int    `json:"n"` // 1..3
}

// buckets[custom][kind][n-1]: candidate field names (natural spelling); one is picked per row and name
var buckets = map[bool]map[string][][]string{
	false: { // maddy's defaults (dkim.go: oversignDefault, signDefault)
		"over": {{"Subject", "To", "Cc"}, {"Message-ID", "Reply-To", "References", "In-Reply-To"}, {"MIME-Version", "Autocrypt"}},
		"sign": {{"List-Id", "List-Unsubscribe"}, {"List-Help", "List-Post"}, {"Resent-Message-ID", "Resent-To"}},
		"free": {{"X-Mailer"}, {"Comments"}, {"X-Campaign"}},
	},
	true: { // the operator's own lists, see customLists
		"over": {{"Subject"}, {"Message-ID"}, {"MIME-Version", "X-Campaign"}},
		"sign": {{"List-ID"}, {"X-Tag"}, {"Resent-Message-ID"}},
		"free": {{"To"}, {"Comments"}, {"List-Help"}},
	},
}

var (
	customOver = []string{"From", "Subject", "Message-Id", "Mime-Version", "X-Campaign"}
	customSign = []string{"List-Id", "Date", "X-Tag", "Resent-Message-Id"}
	// maddy's defaults, as in dkim.go; only used to CLASSIFY names of rows with the default configuration
	defaultOver = []string{"Subject", "Sender", "To", "Cc", "From", "Date", "MIME-Version", "Content-Type",
		"Content-Transfer-Encoding", "Reply-To", "In-Reply-To", "Message-Id", "References", "Autocrypt", "Openpgp"}
	defaultSign = []string{"List-Id", "List-Help", "List-Unsubscribe", "List-Post", "List-Owner", "List-Archive",
		"Resent-To", "Resent-Sender", "Resent-Message-Id", "Resent-Date", "Resent-From", "Resent-Cc"}
	rfcSpelling = map[string]string{"Message-Id": "Message-ID", "Mime-Version": "MIME-Version", "List-Id": "List-ID",
		"Resent-Message-Id": "Resent-Message-ID", "X-Campaign": "X-CAMPAIGN", "X-Tag": "X-TAG"}
)

func spell(name, how string) string {
	c := textproto.CanonicalMIMEHeaderKey(name)
	switch how {
	case "lower":
		return strings.ToLower(c)
	case "upper":
		return strings.ToUpper(c)
	case "rfc":
		if s, ok := rfcSpelling[c]; ok {
			return s
		}
		// no spelling of its own in the RFCs: some other non-canonical one
		return c[:len(c)-1] + strings.ToUpper(c[len(c)-1:])
	}
	return c
}

// lists returns oversign_fields / sign_fields as written in the configuration of a row
// (nil, nil: the directives are left out, maddy's defaults apply).
func (fc *FieldCfg) lists() (over, sign []string) {
	if fc == nil || !fc.Custom {
		return nil, nil
	}
	for _, n := range customOver {
		over = append(over, spell(n, fc.Spell))
	}
	for _, n := range customSign {
		sign = append(sign, spell(n, fc.Spell))
	}
	other := "upper"
	if fc.Spell == "upper" {
		other = "lower"
	}
	switch fc.Dup {
	case "same": // over#1 a second time, spelled differently
		over = append(over, spell("Subject", other))
	case "cross": // over#2 also asked for in sign_fields
		sign = append([]string{spell("Message-Id", other)}, sign...)
	}
	return over, sign
}

// nodes: the configuration directives of the row's field configuration
func (fc *FieldCfg) nodes() []config.Node {
	var out []config.Node
	over, sign := fc.lists()
	if over != nil {
		out = append(out, config.Node{Name: "oversign_fields", Args: over}, config.Node{Name: "sign_fields", Args: sign})
	}
	if fc != nil {
		switch fc.Exp {
		case "none":
			out = append(out, config.Node{Name: "sig_expiry", Args: []string{"0s"}})
		case "short":
			out = append(out, config.Node{Name: "sig_expiry", Args: []string{"1h"}})
		}
	}
	return out
}

func (fc *FieldCfg) key() string {
	if fc == nil {
		return "-"
	}
	return fmt.Sprintf("%v.%s.%s.%s", fc.Custom, fc.Spell, fc.Dup, fc.Exp)
}

// kindOf: over / sign / free of a field name under the row's configuration. A name is what it is in
// the list that names it first (oversign_fields is read first), whatever the spelling.
func (fc *FieldCfg) kindOf(name string) string {
	over, sign := defaultOver, defaultSign
	if fc != nil && fc.Custom {
		over, sign = fc.lists()
	}
	for _, n := range over {
		if strings.EqualFold(n, name) {
			return "over"
		}
	}
	for _, n := range sign {
		if strings.EqualFold(n, name) {
			return "sign"
		}
	}
	return "free"
}

// configured: every distinct (case-insensitively) name of the two lists
func (fc *FieldCfg) configured() []string {
	over, sign := defaultOver, defaultSign
	if fc != nil && fc.Custom {
		over, sign = fc.lists()
	}
	seen := map[string]bool{}
	var out []string
	for _, n := range append(append([]string{}, over...), sign...) {
		if l := strings.ToLower(n); !seen[l] {
			seen[l] = true
			out = append(out, n)
		}
	}
	return out
}

// fieldNames picks the field name of every abstract name of the row (the same abstract name is the
// same field name everywhere in the row, so that instances repeat as the model says).
func fieldNames(sh Shape, rng *rand.Rand) []string {
	custom := sh.Fc != nil && sh.Fc.Custom
	pick := map[Name]string{}
	out := make([]string, len(sh.Nm))
	for i, nm := range sh.Nm {
		if _, ok := pick[nm]; !ok {
			b := buckets[custom][nm.K][(nm.N-1)%3]
			pick[nm] = b[rng.Intn(len(b))]
		}
		out[i] = pick[nm]
	}
	return out
}

type tamper struct {
	T        string `json:"t"`   // remove | alter | add
	Nk       string `json:"nk"`  // kind of the name under the row's configuration
	Cnt      int    `json:"cnt"` // instances of the name in what arrived: 0, 1, 2 (= two or more)
	Pos      string `json:"pos"` // top | bottom : which instance / where the new one is put
	Verified bool   `json:"verified"`
	Name     string `json:"name"` // (not read by the predicate)
}

func assemble(fields []field, body []byte) []byte {
	var b bytes.Buffer
	for _, f := range fields {
		b.Write(f.raw)
	}
	b.WriteString("\r\n")
	b.Write(body)
	return b.Bytes()
}

// alterField changes the value of a field (a byte is put in front of the final CRLF: survives every
// canonicalisation).
func alterField(raw []byte) []byte {
	out := append([]byte{}, raw[:len(raw)-2]...)
	return append(out, []byte("X\r\n")...)
}

// tamperings tries, for every configured name, what a next hop could do to the instances of that name:
// remove / alter the topmost and the bottommost one, add one above all fields and one below the last
// instance (below the last field if there is none). One tuple per distinct outcome.
func tamperings(fc *FieldCfg, got []byte, pub crypto.PublicKey) ([]tamper, string) {
	fields, body, err := splitMessage(got)
	if err != nil {
		return nil, ""
	}
	var out []tamper
	seen := map[tamper]bool{}
	note := ""
	try := func(t tamper, fs []field) {
		t.Verified = Verify(assemble(fs, body), pub) == nil
		k := t
		k.Name = ""
		if !seen[k] {
			seen[k] = true
			out = append(out, t)
		}
		if t.Verified && note == "" && (t.T == "add" && t.Nk == "over" || t.T != "add" && t.Nk != "free") {
			note = fmt.Sprintf("%s %s instance of %s field %s (%d present): signature still verifies", t.T, t.Pos, t.Nk, t.Name, t.Cnt)
		}
	}
	without := func(i int) []field {
		fs := append([]field{}, fields[:i]...)
		return append(fs, fields[i+1:]...)
	}
	with := func(i int, f field) []field { // f before index i
		fs := append([]field{}, fields[:i]...)
		fs = append(fs, f)
		return append(fs, fields[i:]...)
	}
	for _, name := range fc.configured() {
		var idx []int
		for i, f := range fields {
			if strings.EqualFold(strings.TrimSpace(f.name), name) {
				idx = append(idx, i)
			}
		}
		cnt := len(idx)
		if cnt > 2 {
			cnt = 2
		}
		nk := fc.kindOf(name)
		base := tamper{Nk: nk, Cnt: cnt, Name: name}
		if len(idx) > 0 {
			for _, p := range []struct {
				pos string
				i   int
			}{{"top", idx[0]}, {"bottom", idx[len(idx)-1]}} {
				t := base
				t.T, t.Pos = "remove", p.pos
				try(t, without(p.i))
				t.T = "alter"
				fs := append([]field{}, fields...)
				fs[p.i] = field{name: fields[p.i].name, raw: alterField(fields[p.i].raw)}
				try(t, fs)
			}
		}
		inj := field{name: name, raw: []byte(name + ": injected by the next hop\r\n")}
		t := base
		t.T, t.Pos = "add", "top"
		try(t, with(0, inj))
		t.Pos = "bottom"
		at := len(fields)
		if len(idx) > 0 {
			at = idx[len(idx)-1] + 1
		}
		try(t, with(at, inj))
	}
	return out, note
}
