package dkimcheck

import (
	"bufio"
	"bytes"
	"context"
	"crypto"
	"crypto/ed25519"
	"crypto/rsa"
	"crypto/x509"
	"encoding/base64"
	"encoding/json"
	"encoding/pem"
	"errors"
	"fmt"
	"io"
	"math/rand"
	"net"
	"os"
	"path/filepath"
	"strings"
	"sync"
	"testing"
	"time"

	"github.com/emersion/go-message/textproto"
	"github.com/emersion/go-msgauth/dkim"
	"github.com/emersion/go-smtp"
	"github.com/foxcpp/maddy/framework/buffer"
	"github.com/foxcpp/maddy/framework/config"
	"github.com/foxcpp/maddy/framework/log"
	"github.com/foxcpp/maddy/framework/module"
	moddkim "github.com/foxcpp/maddy/internal/modify/dkim"
	"github.com/foxcpp/maddy/internal/msgpipeline"
	"github.com/foxcpp/maddy/internal/target/queue"
	tsmtp "github.com/foxcpp/maddy/internal/target/smtp"
	"github.com/foxcpp/maddy/verifharness/scripted"
	"github.com/foxcpp/maddy/verifharness/vtrace"
)

// C08 replay. Input rows: {"id":N, "in": shape}; shape as in MsgShape.tla.
type Shape struct {
	Hdr    []string `json:"hdr"`
	Body   []string `json:"body"`
	Ending string   `json:"ending"`
	Hc     string   `json:"hc"`
	Bc     string   `json:"bc"`
	Key    string   `json:"key"`
	Eai    bool     `json:"eai"`
	Idn    bool     `json:"idn"`
	// Via: "" / "direct" = the modifier is called by the harness; "pipe_body" / "pipe_na" = the message goes
	// through a real msgpipeline (check adding an over-signed field + modify.dkim + queue) by Body / BodyNonAtomic
	Via string `json:"via"`
	// the h= layer (fields.go): the signer's field configuration and the name of every field of Hdr;
	// absent in rows stored before the layer existed (then: default configuration, names picked here)
	Fc *FieldCfg `json:"fc,omitempty"`
	Nm []Name    `json:"nm,omitempty"`
}

type Row struct {
	ID int   `json:"id"`
	In Shape `json:"in"`
}

var namePool = []string{"Subject", "To", "Cc", "Reply-To", "In-Reply-To", "References", "List-Id", "Message-Id", "List-Help"}

func mixCase(s string) string {
	b := []byte(s)
	for i := range b {
		if i%2 == 0 {
			b[i] = bytes.ToUpper(b[i : i+1])[0]
		} else {
			b[i] = bytes.ToLower(b[i : i+1])[0]
		}
	}
	return string(b)
}

func concretise(sh Shape, from string, rng *rand.Rand) (hdr []byte, body []byte, firstAtomField string) {
	tag := fmt.Sprintf("%08x", rng.Uint32())
	tag0 := tag
	var h bytes.Buffer
	h.WriteString("Received: from client by mx with ESMTP; " + tag + "\r\n")
	var names []string
	if len(sh.Nm) == len(sh.Hdr) {
		names = fieldNames(sh, rng)
	}
	for i, a := range sh.Hdr {
		name := ""
		if names != nil {
			// the model names the field; the value carries the index so that instances of one name differ
			name = names[i]
			if firstAtomField == "" && sh.Fc.kindOf(name) != "free" {
				firstAtomField = name // the legacy "remove" tampering needs a signed field
			}
			tag = fmt.Sprintf("%s.%d", tag0, i)
		} else {
			name = namePool[(i+rng.Intn(3))%len(namePool)]
			if i == 0 {
				firstAtomField = name
			}
		}
		switch a {
		case "plain":
			h.WriteString(name + ": simple value " + tag + "\r\n")
		case "fold_sp":
			h.WriteString(name + ": part one\r\n  part two " + tag + "\r\n   part three\r\n")
		case "fold_tab":
			h.WriteString(name + ":\t<a@b.example>,\r\n\t<c@d.example> " + tag + "\r\n")
		case "trail_ws":
			h.WriteString(name + ": value with trailing blanks " + tag + "  \t \r\n")
		case "empty":
			h.WriteString(name + ":\r\n")
		case "8bit":
			h.WriteString(name + ": caf\xe9 \xff latin " + tag + "\r\n")
		case "utf8":
			h.WriteString(name + ": \xd0\xbf\xd1\x80\xd0\xb8\xd0\xb2\xd0\xb5\xd1\x82 " + tag + "\r\n")
		case "long":
			h.WriteString(name + ": ")
			for k := 0; k < 3; k++ {
				h.WriteString(strings.Repeat("x", 900) + "\r\n ")
			}
			h.WriteString(tag + "\r\n")
		case "huge":
			// more than a mebibyte of unsigned fields in front of the signed ones
			for k := 0; k < 1100; k++ {
				fmt.Fprintf(&h, "X-Pad-%d: %s%s\r\n", k, tag, strings.Repeat("p", 950))
			}
			h.WriteString(name + ": after the padding " + tag + "\r\n")
		case "mixedcase":
			h.WriteString(mixCase(name) + ":  Mixed   Case\t" + tag + "\r\n")
		default:
			panic("unknown header atom " + a)
		}
	}
	tag = tag0
	h.WriteString("From: Sender <" + from + ">\r\n")
	h.WriteString("Date: Thu, 01 Oct 2026 00:00:00 +0000\r\n")
	h.WriteString("\r\n")
	var b bytes.Buffer
	if sh.Ending != "nobody" {
		for _, a := range sh.Body {
			switch a {
			case "text":
				b.WriteString("hello " + tag)
			case "dot":
				b.WriteString(".leading dot " + tag)
			case "onlydot":
				b.WriteString(".")
			case "empty":
			case "trail_sp":
				b.WriteString("trailing blanks " + tag + " \t  ")
			case "8bit":
				b.WriteString("\xe9\xff\x80 raw " + tag)
			case "longline":
				b.WriteString(strings.Repeat("L", 980) + tag)
			case "multi_sp":
				b.WriteString(" a   b\t\tc  d " + tag)
			default:
				panic("unknown body atom " + a)
			}
			b.WriteString("\r\n")
		}
		if sh.Ending == "multi_empty" {
			b.WriteString("\r\n\r\n\r\n")
		}
	}
	return h.Bytes(), b.Bytes(), firstAtomField
}

// ---- next hop: a go-smtp server capturing what arrives -------------------------
type capture struct {
	mu   sync.Mutex
	msgs chan []byte
}

type capSession struct{ c *capture }

func (c *capture) NewSession(*smtp.Conn) (smtp.Session, error) { return &capSession{c}, nil }
func (s *capSession) AuthMechanisms() []string                 { return nil }
func (s *capSession) Mail(string, *smtp.MailOptions) error     { return nil }
func (s *capSession) Rcpt(string, *smtp.RcptOptions) error     { return nil }
func (s *capSession) Reset()                                   {}
func (s *capSession) Logout() error                            { return nil }
func (s *capSession) Data(r io.Reader) error {
	b, err := io.ReadAll(r)
	if err != nil {
		return err
	}
	s.c.msgs <- b
	return nil
}

type env struct {
	dir   string
	cap   *capture
	srv   *smtp.Server
	addr  string
	down  module.DeliveryTarget
	mods  map[string]*moddkim.Modifier
	pubs  map[string]crypto.PublicKey
	txt   map[string]string
	extra int // messages the next hop got in addition to the first one during the latest relay
}

func newEnv(t *testing.T) *env {
	dir, err := os.MkdirTemp(os.Getenv("VERIF_TMP"), "dkim")
	if err != nil {
		t.Fatal(err)
	}
	e := &env{dir: dir, cap: &capture{msgs: make(chan []byte, 16)}, mods: map[string]*moddkim.Modifier{},
		pubs: map[string]crypto.PublicKey{}, txt: map[string]string{}}
	l, err := net.Listen("tcp", "127.0.0.1:0")
	if err != nil {
		t.Fatal(err)
	}
	e.addr = l.Addr().String()
	e.srv = smtp.NewServer(e.cap)
	e.srv.Domain = "nexthop.example"
	e.srv.EnableSMTPUTF8 = true
	e.srv.MaxLineLength = 4000
	go e.srv.Serve(l)
	mod, err := tsmtp.NewDownstream("target.smtp", "verif_smtp", nil, nil)
	if err != nil {
		t.Fatal(err)
	}
	err = mod.Init(config.NewMap(nil, config.Node{Children: []config.Node{
		{Name: "targets", Args: []string{"tcp://" + e.addr}},
		{Name: "hostname", Args: []string{"mx.example.org"}},
		{Name: "attempt_starttls", Args: []string{"no"}},
		{Name: "require_tls", Args: []string{"no"}},
	}}))
	if err != nil {
		t.Fatal(err)
	}
	e.down = mod.(module.DeliveryTarget)
	return e
}

func (e *env) modifier(t *testing.T, sh Shape, domain string) (*moddkim.Modifier, crypto.PublicKey) {
	key := fmt.Sprintf("%s/%s/%s/%v/%s", sh.Key, sh.Hc, sh.Bc, sh.Idn, sh.Fc.key())
	if m, ok := e.mods[key]; ok {
		return m, e.pubs[key]
	}
	kdir := filepath.Join(e.dir, "keys-"+sh.Key+fmt.Sprint(sh.Idn))
	mod, err := moddkim.New("modify.dkim", "verif_dkim", nil, nil)
	if err != nil {
		t.Fatal(err)
	}
	m := mod.(*moddkim.Modifier)
	err = m.Init(config.NewMap(nil, config.Node{Children: append([]config.Node{
		{Name: "domains", Args: []string{domain}},
		{Name: "selector", Args: []string{"sel"}},
		{Name: "key_path", Args: []string{filepath.Join(kdir, "{domain}.key")}},
		{Name: "newkey_algo", Args: []string{sh.Key}},
		{Name: "header_canon", Args: []string{sh.Hc}},
		{Name: "body_canon", Args: []string{sh.Bc}},
	}, sh.Fc.nodes()...)}))
	if err != nil {
		t.Fatal(err)
	}
	// the published key = public half of the generated private key file
	files, _ := filepath.Glob(filepath.Join(kdir, "*.key"))
	if len(files) != 1 {
		t.Fatalf("expected one key file in %s, got %v", kdir, files)
	}
	blob, _ := os.ReadFile(files[0])
	block, _ := pem.Decode(blob)
	if block == nil {
		t.Fatal("key file is not PEM")
	}
	priv, err := x509.ParsePKCS8PrivateKey(block.Bytes)
	if err != nil {
		t.Fatal(err)
	}
	pub := priv.(crypto.Signer).Public()
	e.mods[key], e.pubs[key] = m, pub
	return m, pub
}

func txtRecord(pub crypto.PublicKey) string {
	switch k := pub.(type) {
	case *rsa.PublicKey:
		der, _ := x509.MarshalPKIXPublicKey(k)
		return "v=DKIM1; k=rsa; p=" + base64.StdEncoding.EncodeToString(der)
	case ed25519.PublicKey:
		return "v=DKIM1; k=ed25519; p=" + base64.StdEncoding.EncodeToString(k)
	}
	return ""
}

func libVerify(msg []byte, pub crypto.PublicKey) error {
	vs, err := dkim.VerifyWithOptions(bytes.NewReader(msg), &dkim.VerifyOptions{
		LookupTXT: func(string) ([]string, error) { return []string{txtRecord(pub)}, nil }})
	if err != nil {
		return err
	}
	if len(vs) == 0 {
		return errors.New("no signature found")
	}
	return vs[0].Err
}

// relay: accept into a queue whose target defers, stop it, restart on the same spool with the
// real SMTP client target behind it; returns what the next hop received (nil: harness time-out).
func relay(t *testing.T, e *env, meta *module.MsgMetadata, from string, hdr textproto.Header, bodyBuf buffer.Buffer) ([]byte, string) {
	return relayF(t, e, meta, from, hdr, bodyBuf, false)
}

func relayF(t *testing.T, e *env, meta *module.MsgMetadata, from string, hdr textproto.Header, bodyBuf buffer.Buffer, fault bool) ([]byte, string) {
	return relayVia(t, e, fault, func(q module.DeliveryTarget) {
		ctx := context.Background()
		d, err := q.Start(ctx, meta, from)
		if err != nil {
			t.Fatal(err)
		}
		if err := d.AddRcpt(ctx, "rcpt@nexthop.example", smtp.RcptOptions{}); err != nil {
			t.Fatal(err)
		}
		if err := d.Body(ctx, hdr, bodyBuf); err != nil {
			t.Fatal(err)
		}
		if err := d.Commit(ctx); err != nil {
			t.Fatal(err)
		}
	})
}

// faultOnce hands the first delivery a body whose reader fails half-way (an I/O error on the spool's
// body file in the middle of DATA); later deliveries are untouched.
type faultOnce struct {
	inner module.DeliveryTarget
	mu    sync.Mutex
	done  bool
}

type faultDelivery struct {
	module.Delivery
	f *faultOnce
}

type halfBuf struct{ buffer.Buffer }

type halfReader struct {
	io.ReadCloser
	left int
}

func (h *halfReader) Read(p []byte) (int, error) {
	if h.left <= 0 {
		return 0, errors.New("input/output error (scripted)")
	}
	if len(p) > h.left {
		p = p[:h.left]
	}
	n, err := h.ReadCloser.Read(p)
	h.left -= n
	return n, err
}

func (b halfBuf) Open() (io.ReadCloser, error) {
	r, err := b.Buffer.Open()
	if err != nil {
		return nil, err
	}
	return &halfReader{ReadCloser: r, left: b.Buffer.Len() / 2}, nil
}

func (f *faultOnce) Start(ctx context.Context, m *module.MsgMetadata, from string) (module.Delivery, error) {
	d, err := f.inner.Start(ctx, m, from)
	if err != nil {
		return nil, err
	}
	return &faultDelivery{Delivery: d, f: f}, nil
}

func (d *faultDelivery) Body(ctx context.Context, h textproto.Header, b buffer.Buffer) error {
	d.f.mu.Lock()
	first := !d.f.done
	d.f.done = true
	d.f.mu.Unlock()
	if first && b.Len() >= 2 {
		return d.Delivery.Body(ctx, h, halfBuf{b})
	}
	return d.Delivery.Body(ctx, h, b)
}

// relayVia: `accept` puts one message into the queue it is given (directly or through a pipeline).
// fault: the first transmission attempt towards the next hop suffers a body read error in mid-DATA.
func relayVia(t *testing.T, e *env, fault bool, accept func(q module.DeliveryTarget)) ([]byte, string) {
	spool, err := os.MkdirTemp(e.dir, "spool")
	if err != nil {
		t.Fatal(err)
	}
	defer os.RemoveAll(spool)
	silent := vtrace.New(nil, 0)
	defer1 := &scripted.Target{Tr: silent, Plan: []scripted.AttemptPlan{{Start: "temp"}}}
	mk := func(tgt module.DeliveryTarget, retry time.Duration) *queue.Queue {
		q, err := queue.VerifNewQueue(queue.VerifConfig{Location: spool, Target: tgt, MaxTries: 5, MaxParallelism: 1,
			InitialRetryTime: retry, RetryTimeScale: 1, PostInitDelay: 0, Hostname: "mx.example.org",
			AutogenMsgDomain: "example.org", Log: log.Logger{Out: log.NopOutput{}}})
		if err != nil {
			t.Fatal(err)
		}
		return q
	}
	q1 := mk(defer1, time.Hour)
	accept(q1)
	deadline := time.Now().Add(120 * time.Second)
	for defer1.Att() == 0 && time.Now().Before(deadline) {
		time.Sleep(time.Millisecond)
	}
	q1.Close() // waits for the deferred attempt; the message stays in the spool
	var down module.DeliveryTarget = e.down
	if fault {
		down = &faultOnce{inner: e.down}
	}
	q2 := mk(down, 0)
	var got []byte
	select {
	case got = <-e.cap.msgs:
	case <-time.After(150 * time.Second):
		q2.Close()
		return nil, "harness time-out waiting for the next hop"
	}
	// let the queue finish (a retry after a failed first transmission), then count what else arrived
	deadline = time.Now().Add(60 * time.Second)
	for time.Now().Before(deadline) {
		if ents, _ := os.ReadDir(spool); len(ents) == 0 {
			break
		}
		time.Sleep(time.Millisecond)
	}
	q2.Close()
	e.extra = 0
	for {
		select {
		case <-e.cap.msgs:
			e.extra++
			continue
		default:
		}
		break
	}
	return got, ""
}

func runRow(t *testing.T, e *env, r Row, tr *vtrace.Tracer, seed int64) {
	rng := rand.New(rand.NewSource(seed*104729 + int64(r.ID)))
	domain := "example.org"
	if r.In.Idn {
		domain = "пример.example"
	}
	from := "sender@" + domain
	rawHdr, body, firstField := concretise(r.In, from, rng)
	hdr, err := textproto.ReadHeader(bufio.NewReader(bytes.NewReader(rawHdr)))
	if err != nil {
		t.Fatalf("harness header does not parse: %v", err)
	}
	if r.In.Via == "pipe_body" || r.In.Via == "pipe_na" {
		runPipeRow(t, e, r, tr, domain, from, rawHdr, hdr, body, firstField)
		return
	}
	m, pub := e.modifier(t, r.In, domain)
	ctx := context.Background()
	meta := &module.MsgMetadata{ID: fmt.Sprintf("dkim%d", r.ID), OriginalFrom: from, SMTPOpts: smtp.MailOptions{UTF8: r.In.Eai}}
	st, err := m.ModStateForMsg(ctx, meta)
	if err != nil {
		t.Fatal(err)
	}
	if _, err := st.RewriteSender(ctx, from); err != nil {
		t.Fatal(err)
	}
	bodyBuf := buffer.MemoryBuffer{Slice: body}
	out := vtrace.Ev{"delivered": false, "signed": false, "verifiedIndep": false, "verifiedLib": false,
		"tamper":   map[string]bool{"remove": false, "alter": false, "add_oversigned": false},
		"hdrEqual": false, "bodyEqual": false, "note": "", "copies": 0, "fault": false, "tampers": []tamper{}}
	emit := func() { tr.Emit("Row", vtrace.Ev{"in": r.In, "out": out}) }
	if err := st.RewriteBody(ctx, &hdr, bodyBuf); err != nil {
		out["note"] = "sign: " + err.Error()
		emit()
		return
	}
	st.Close()
	out["signed"] = hdr.Has("DKIM-Signature")
	var signed bytes.Buffer
	textproto.WriteHeader(&signed, hdr)
	signed.Write(body)

	// every fourth message: the first transmission towards the next hop breaks in mid-DATA (body read error)
	fault := r.ID%4 == 0
	got, note := relayF(t, e, meta, from, hdr, bodyBuf, fault)
	if got == nil {
		out["note"] = note
		tr.Emit("Timeout", vtrace.Ev{"in": r.In})
		return
	}
	out["delivered"] = true
	out["copies"] = 1 + e.extra
	out["fault"] = fault
	judge(out, r.In.Fc, got, pub, body, firstField, signed.Bytes()[:bytes.Index(signed.Bytes(), []byte("\r\n\r\n"))+4])
	emit()
}

// judge fills the verification and tampering outcomes of a row from what the next hop received.
func judge(out vtrace.Ev, fc *FieldCfg, got []byte, pub crypto.PublicKey, body []byte, firstField string, wantHdr []byte) {
	// what arrived = Received-less? the SMTP client adds nothing; compare from the signature on
	_, gotBody, _ := splitMessage(got)
	out["bodyEqual"] = bytes.Equal(gotBody, body)
	out["hdrEqual"] = bytes.Contains(got, wantHdr)
	if err := Verify(got, pub); err == nil {
		out["verifiedIndep"] = true
	} else {
		out["note"] = "independent verifier: " + err.Error()
	}
	if err := libVerify(got, pub); err == nil {
		out["verifiedLib"] = true
	} else {
		out["note"] = fmt.Sprint(out["note"], " | go-msgauth: ", err.Error())
	}
	// tampering at the next hop must break the signature
	tam := map[string]bool{}
	fields, _, _ := splitMessage(got)
	// remove: drop the first signed atom field
	var removed, altered bytes.Buffer
	done := false
	for _, f := range fields {
		if !done && firstField != "" && strings.EqualFold(strings.TrimSpace(f.name), firstField) {
			done = true
			continue
		}
		removed.Write(f.raw)
	}
	removed.WriteString("\r\n")
	removed.Write(gotBody)
	tam["remove"] = done && Verify(removed.Bytes(), pub) == nil
	// alter: change the From display name
	for _, f := range fields {
		if strings.EqualFold(strings.TrimSpace(f.name), "From") {
			altered.Write(bytes.Replace(f.raw, []byte("Sender"), []byte("Sendex"), 1))
		} else {
			altered.Write(f.raw)
		}
	}
	altered.WriteString("\r\n")
	altered.Write(gotBody)
	tam["alter"] = Verify(altered.Bytes(), pub) == nil
	// add: one more instance of an over-signed field
	added := append([]byte("Subject: injected by the next hop\r\n"), got...)
	tam["add_oversigned"] = Verify(added, pub) == nil
	out["tamper"] = tam
	// the h= layer: every configured name, every kind of tampering; TLC decides which had to be detected
	for _, f := range fields { // (free text for the replay artefact: what the signer listed)
		if strings.EqualFold(strings.TrimSpace(f.name), "DKIM-Signature") {
			out["h"] = stripWS(parseTags(string(f.raw[bytes.IndexByte(f.raw, ':')+1:]))["h"])
			break
		}
	}
	ts, note := tamperings(fc, got, pub)
	if ts == nil {
		ts = []tamper{}
	}
	out["tampers"] = ts
	if note != "" {
		out["note"] = fmt.Sprint(out["note"], " | ", note)
	}
}

// runPipeRow: the message is signed inside a real pipeline (check that adds an over-signed field,
// modify.dkim, queue) entered by Body or BodyNonAtomic.
func runPipeRow(t *testing.T, e *env, r Row, tr *vtrace.Tracer, domain, from string, rawHdr []byte, hdr textproto.Header, body []byte, firstField string) {
	registerPipeModules()
	out := vtrace.Ev{"delivered": false, "signed": false, "verifiedIndep": false, "verifiedLib": false,
		"tamper":   map[string]bool{"remove": false, "alter": false, "add_oversigned": false},
		"hdrEqual": false, "bodyEqual": false, "note": "", "copies": 0, "fault": false, "tampers": []tamper{}}
	emit := func() { tr.Emit("Row", vtrace.Ev{"in": r.In, "out": out}) }
	kdir := filepath.Join(e.dir, fmt.Sprintf("pipekeys-%s-%v", r.In.Key, r.In.Idn))
	nodes := []config.Node{
		{Name: "check", Children: []config.Node{{Name: "verif_addhdr"}}},
		{Name: "modify", Children: []config.Node{{Name: "dkim", Children: append([]config.Node{
			{Name: "domains", Args: []string{domain}},
			{Name: "selector", Args: []string{"sel"}},
			{Name: "key_path", Args: []string{filepath.Join(kdir, "{domain}.key")}},
			{Name: "newkey_algo", Args: []string{r.In.Key}},
			{Name: "header_canon", Args: []string{r.In.Hc}},
			{Name: "body_canon", Args: []string{r.In.Bc}},
		}, r.In.Fc.nodes()...)}}},
		{Name: "default_source", Children: []config.Node{{Name: "default_destination", Children: []config.Node{
			{Name: "deliver_to", Args: []string{"verifdkq", "Q"}}}}}},
	}
	p, err := msgpipeline.New(map[string]interface{}{"hostname": "mx.example.org"}, nodes)
	if err != nil {
		t.Fatalf("pipeline: %v", err)
	}
	p.Log = log.Logger{Out: log.NopOutput{}}
	files, _ := filepath.Glob(filepath.Join(kdir, "*.key"))
	if len(files) != 1 {
		t.Fatalf("expected one key file in %s, got %v", kdir, files)
	}
	blob, _ := os.ReadFile(files[0])
	block, _ := pem.Decode(blob)
	priv, err := x509.ParsePKCS8PrivateKey(block.Bytes)
	if err != nil {
		t.Fatal(err)
	}
	pub := priv.(crypto.Signer).Public()
	meta := &module.MsgMetadata{ID: fmt.Sprintf("dkimp%d", r.ID), OriginalFrom: from, SMTPOpts: smtp.MailOptions{UTF8: r.In.Eai}}
	bodyBuf := buffer.MemoryBuffer{Slice: body}
	got, note := relayVia(t, e, false, func(q module.DeliveryTarget) {
		pipeMu.Lock()
		pipeTgt = q
		pipeMu.Unlock()
		ctx := context.Background()
		d, err := p.Start(ctx, meta, from)
		if err != nil {
			t.Fatal(err)
		}
		if err := d.AddRcpt(ctx, "rcpt@nexthop.example", smtp.RcptOptions{}); err != nil {
			t.Fatal(err)
		}
		if r.In.Via == "pipe_na" {
			d.(module.PartialDelivery).BodyNonAtomic(ctx, nullCollector{}, hdr, bodyBuf)
		} else if err := d.Body(ctx, hdr, bodyBuf); err != nil {
			t.Fatal(err)
		}
		if err := d.Commit(ctx); err != nil {
			t.Fatal(err)
		}
	})
	if got == nil {
		out["note"] = note
		tr.Emit("Timeout", vtrace.Ev{"in": r.In})
		return
	}
	out["delivered"] = true
	out["copies"] = 1 + e.extra
	out["signed"] = bytes.Contains(got[:bytes.Index(got, []byte("\r\n\r\n"))+2], []byte("DKIM-Signature:"))
	judge(out, r.In.Fc, got, pub, body, firstField, rawHdr[:len(rawHdr)-2])
	emit()
}

func TestReplay(t *testing.T) {
	in, outp := os.Getenv("VERIF_IN"), os.Getenv("VERIF_OUT")
	if in == "" || outp == "" {
		t.Skip("VERIF_IN / VERIF_OUT not set")
	}
	var seed int64 = 1
	fmt.Sscan(os.Getenv("VERIF_SEED"), &seed)
	f, err := os.Open(in)
	if err != nil {
		t.Fatal(err)
	}
	defer f.Close()
	of, err := os.Create(outp)
	if err != nil {
		t.Fatal(err)
	}
	defer of.Close()
	w := bufio.NewWriter(of)
	defer w.Flush()
	e := newEnv(t)
	defer os.RemoveAll(e.dir)
	defer e.srv.Close()
	sc := bufio.NewScanner(f)
	sc.Buffer(make([]byte, 1<<20), 1<<26)
	for sc.Scan() {
		var r Row
		if err := json.Unmarshal(sc.Bytes(), &r); err != nil {
			t.Fatalf("bad row: %v", err)
		}
		runRow(t, e, r, vtrace.New(w, r.ID), seed)
	}
}
