package authcheck

import (
	"bufio"
	"encoding/json"
	"fmt"
	"hash/fnv"
	"io"
	"net"
	"os"
	"regexp"
	"testing"

	"github.com/emersion/go-sasl"
	"github.com/foxcpp/maddy/framework/config"
	"github.com/foxcpp/maddy/framework/log"
	"github.com/foxcpp/maddy/framework/module"
	"github.com/foxcpp/maddy/internal/auth"
	"github.com/foxcpp/maddy/internal/auth/pass_table"
	smtpendp "github.com/foxcpp/maddy/internal/endpoint/smtp"
	_ "github.com/foxcpp/maddy/internal/table"
	"github.com/foxcpp/maddy/verifharness/authkit"
	"github.com/foxcpp/maddy/verifharness/vtrace"
)

type Cfg struct {
	Map   string `json:"map"`
	Norm  string `json:"norm"`
	Tbl   string `json:"tbl"`   // "mem" | "sql"
	Defer bool   `json:"defer"` // defer_sender_reject
	Dom   string `json:"dom"`   // domain of the e-mail shaped user: "ascii" | "idn" (names.go:setDom)
	Len   int    `json:"len"`
}

type Step struct {
	A    string `json:"a"`
	Sp   Sp     `json:"sp"`
	Pw   string `json:"pw"`
	Sch  string `json:"sch"`
	Fail bool   `json:"fail"`
	Mech string `json:"mech"`
	Az   string `json:"az"`
	Mf   string `json:"mf"`
}

type Behaviour struct {
	ID   int    `json:"id"`
	Cfg  Cfg    `json:"cfg"`
	Hist []Step `json:"hist"`
}

// The user-name maps of AuthObs.tla!MapF as real maddy table modules.
// Keys are in the canonical form because the map is consulted after
// auth_map_normalize.
func mapConfig(id string) (directive string, err error) {
	ua, ub := base["ua"], base["ub"]
	static := func(pairs ...string) string {
		s := "auth_map static {\n"
		for i := 0; i < len(pairs); i += 2 {
			s += fmt.Sprintf("    entry %q %q\n", pairs[i], pairs[i+1])
		}
		return s + "}\n"
	}
	switch id {
	case "none":
		return "", nil
	case "identity":
		return "auth_map identity\n", nil
	case "s_ab":
		return static(ua, ub), nil
	case "s_swap":
		return static(ua, ub, ub, ua), nil
	case "s_id":
		return static(ua, ua, ub, ub), nil
	case "s_ba":
		return static(ub, ua), nil
	case "s_proj":
		return static(ua, ub, ub, ub), nil
	case "r_strip":
		return "auth_map regexp \"^(.+)@" + regexp.QuoteMeta(curDom) + "$\" \"$1\"\n", nil
	case "r_append":
		return "auth_map regexp \"^(.+)$\" \"$1@" + curDom + "\"\n", nil
	// regexp maps that rely on full_match (the default: "the provided regular expression
	// should match the whole string") instead of writing the anchors themselves
	case "r_class": // a negated character class: the pattern contains '^' but no anchor
		return "auth_map regexp \"" + regexp.QuoteMeta(ua) + "(\\+[^@]*)?@" + regexp.QuoteMeta(curDom) + "\" \"" + ua + "\"\n", nil
	case "r_dollar": // an inner '$' (end of name instead of the domain)
		return "auth_map regexp \"" + regexp.QuoteMeta(ua) + "(@" + regexp.QuoteMeta(curDom) + "|$)\" \"" + ua + "\"\n", nil
	case "r_alt": // an alternation at top level
		return "auth_map regexp \"" + regexp.QuoteMeta(ub) + "|" + regexp.QuoteMeta(ua) + "\\+[a-z]+@" + regexp.QuoteMeta(curDom) + "\" \"" + ua + "\"\n", nil
	case "b_local":
		return "auth_map email_localpart\n", nil
	case "b_localopt":
		return "auth_map email_localpart_optional\n", nil
	}
	return "", fmt.Errorf("unknown map id %q", id)
}

// failTable is a mutable table module whose next write can be made to fail.
type failTable interface {
	module.Module
	module.MutableTable
	SetFail(bool)
}

type world struct {
	t    *testing.T
	b    Behaviour
	tr   *vtrace.Tracer
	tbl  failTable
	sqlD string // scratch directory of the sqlite database (sql histories)
	pt   *pass_table.Auth
	endp *smtpendp.Endpoint
	sasl *auth.SASLAuth
	ln   *authkit.PipeListener
	cl   *authkit.Client
	opNo int
	sent Sp // the user name of the exchange in progress
}

func newWorld(t *testing.T, b Behaviour, tr *vtrace.Tracer) *world {
	w := &world{t: t, b: b, tr: tr}
	tblName := fmt.Sprintf("c14tbl%d", b.ID)
	ptName := fmt.Sprintf("c14auth%d", b.ID)
	switch b.Cfg.Tbl {
	case "sql":
		// the real table.sql_table on a private sqlite3 database, as in maddy's default configuration
		dir, err := os.MkdirTemp(os.Getenv("VERIF_TMP"), "sql")
		if err != nil {
			t.Fatal(err)
		}
		w.sqlD = dir
		m, err := authkit.InitFromText("table.sql_table", tblName+"_sql", nil,
			"driver sqlite3\ndsn "+dir+"/credentials.db\ntable_name passwords\n")
		if err != nil {
			t.Fatalf("sql_table: %v", err)
		}
		w.tbl = &authkit.FailingTable{Inst: tblName, Inner: m.(module.MutableTable)}
	default:
		w.tbl = authkit.NewMemTable(tblName)
	}
	authkit.RegisterReady(w.tbl)

	// auth.pass_table with the in-memory table behind it, built by its own constructor/Init
	m, err := pass_table.New("auth.pass_table", ptName, nil, []string{"&" + tblName})
	if err != nil {
		t.Fatal(err)
	}
	if err := m.Init(config.NewMap(nil, config.Node{})); err != nil {
		t.Fatal(err)
	}
	w.pt = m.(*pass_table.Auth)
	authkit.RegisterReady(w.pt)

	// the submission endpoint, configured from configuration text
	mapDir, err := mapConfig(b.Cfg.Map)
	if err != nil {
		t.Fatal(err)
	}
	text := "hostname mx.example.org\n" +
		"tls off\n" +
		"auth &" + ptName + "\n" +
		"sasl_login yes\n" +
		"auth_map_normalize " + b.Cfg.Norm + "\n" +
		mapDir +
		"buffer ram\n" +
		"defer_sender_reject " + map[bool]string{true: "yes", false: "no"}[b.Cfg.Defer] + "\n" +
		"deliver_to dummy\n"
	nodes, err := authkit.Nodes(text)
	if err != nil {
		t.Fatalf("config: %v\n%s", err, text)
	}
	em, err := smtpendp.New("submission", nil)
	if err != nil {
		t.Fatal(err)
	}
	w.endp = em.(*smtpendp.Endpoint)
	w.endp.Log = log.Logger{Out: log.NopOutput{}}
	if err := w.endp.Init(config.NewMap(nil, config.Node{Children: nodes})); err != nil {
		t.Fatalf("endpoint init: %v\n%s", err, text)
	}
	w.sasl = w.endp.VerifAuthSASL()
	w.sasl.Log = log.Logger{Out: log.NopOutput{}}
	w.ln = authkit.NewPipeListener()
	go w.endp.VerifAuthServe(w.ln)
	return w
}

func (w *world) close() {
	if ft, ok := w.tbl.(*authkit.FailingTable); ok {
		if c, ok := ft.Inner.(io.Closer); ok {
			c.Close()
		}
	}
	if w.sqlD != "" {
		os.RemoveAll(w.sqlD)
	}
	if w.cl != nil {
		w.cl.Close()
		w.cl = nil
	}
	w.ln.Close()
	w.endp.Close()
}

// flavour decides (deterministically per behaviour and step) whether the SASL
// response travels as initial response.
func (w *world) flavour() bool {
	h := fnv.New32a()
	fmt.Fprintf(h, "%s/%d/%d", os.Getenv("VERIF_SEED"), w.b.ID, w.opNo)
	return h.Sum32()%2 == 0
}

type saslResult struct {
	ok bool
	id Sp
}

var noID = Sp{U: "-", V: "-"}

// exchange runs a complete SASL exchange between go-sasl's client and the
// sasl.Server maddy creates for the mechanism.
func (w *world) exchange(mech string, cl sasl.Client, withIR bool) saslResult {
	called, identity := false, ""
	srv := w.sasl.CreateSASL(mech, &net.TCPAddr{IP: net.IPv4(127, 0, 0, 1), Port: 4242},
		func(id string, _ auth.ContextData) error {
			called, identity = true, id
			return nil
		})
	_, ir, err := cl.Start()
	if err != nil {
		w.t.Fatal(err)
	}
	var resp []byte
	if withIR {
		resp = ir
		if resp == nil {
			resp = []byte{}
		}
	}
	first := true
	for i := 0; i < 6; i++ {
		challenge, done, err := srv.Next(resp)
		if err != nil {
			return saslResult{false, noID}
		}
		if done {
			if !called {
				return saslResult{false, noID}
			}
			return saslResult{true, w.idOf(identity)}
		}
		if first && !withIR {
			// the server asked for the first response; LOGIN's first challenge is "Username:"
			first = false
			resp = ir
			if resp == nil {
				resp = []byte{}
			}
			continue
		}
		first = false
		resp, err = cl.Next(challenge)
		if err != nil {
			w.t.Fatalf("sasl client: %v (challenge %q)", err, challenge)
		}
		if resp == nil {
			resp = []byte{}
		}
	}
	w.t.Fatal("SASL exchange did not finish")
	return saslResult{}
}

// idOf translates a reported identity back into a spelling; when it is the very
// string the client sent, it is that spelling (two variants of a name may be the
// same string, e.g. the A-label variant of a name without a domain).
func (w *world) idOf(identity string) Sp {
	if w.sent.U != "" && w.sent.String() == identity {
		return w.sent
	}
	return spellingOf(identity)
}

func (w *world) plain(sp Sp, pw, az string) saslResult {
	w.sent = sp
	return w.exchange(sasl.Plain, sasl.NewPlainClient(authzid(sp, az), sp.String(), password(pw)), w.flavour())
}

func (w *world) login(sp Sp, pw string) saslResult {
	w.sent = sp
	return w.exchange(sasl.Login, sasl.NewLoginClient(sp.String(), password(pw)), w.flavour())
}

func res(err error) string {
	if err == nil {
		return "ok"
	}
	return "refused"
}

func (w *world) needConn(a string) {
	if w.cl == nil {
		w.t.Fatalf("behaviour %d: %s without an open connection", w.b.ID, a)
	}
}

func (w *world) step(s Step) {
	w.opNo++
	switch s.A {
	case "Create":
		w.tbl.SetFail(s.Fail)
		err := w.pt.CreateUserHash(s.Sp.String(), password(s.Pw), s.Sch, pass_table.HashOpts{
			BcryptCost: 4, Argon2Time: 1, Argon2Memory: 64, Argon2Threads: 1})
		w.tbl.SetFail(false)
		w.tr.Emit("Create", vtrace.Ev{"sp": s.Sp, "pw": s.Pw, "sch": s.Sch, "fail": s.Fail, "res": res(err)})
	case "SetPw":
		w.tbl.SetFail(s.Fail)
		err := w.pt.SetUserPassword(s.Sp.String(), password(s.Pw))
		w.tbl.SetFail(false)
		w.tr.Emit("SetPw", vtrace.Ev{"sp": s.Sp, "pw": s.Pw, "fail": s.Fail, "res": res(err)})
	case "Delete":
		w.tbl.SetFail(s.Fail)
		err := w.pt.DeleteUser(s.Sp.String())
		w.tbl.SetFail(false)
		w.tr.Emit("Delete", vtrace.Ev{"sp": s.Sp, "fail": s.Fail, "res": res(err)})
	case "Auth":
		var r saslResult
		if s.Mech == "PLAIN" {
			r = w.plain(s.Sp, s.Pw, s.Az)
		} else {
			r = w.login(s.Sp, s.Pw)
		}
		w.tr.Emit("Auth", vtrace.Ev{"mech": s.Mech, "sp": s.Sp, "pw": s.Pw, "az": s.Az, "ok": r.ok, "id": r.id})
	case "AuthDirect":
		err := w.pt.AuthPlain(s.Sp.String(), password(s.Pw))
		w.tr.Emit("AuthDirect", vtrace.Ev{"sp": s.Sp, "pw": s.Pw, "ok": err == nil})
	case "AuthPair":
		p := w.plain(s.Sp, s.Pw, "empty")
		g := w.login(s.Sp, s.Pw)
		w.tr.Emit("AuthPair", vtrace.Ev{"sp": s.Sp, "pw": s.Pw, "pok": p.ok, "pid": p.id, "lok": g.ok, "lid": g.id})
	case "SOpen":
		c, err := w.ln.Dial()
		if err != nil {
			w.t.Fatal(err)
		}
		w.cl = authkit.NewClient(c)
		if r, err := w.cl.ReadReply(); err != nil || r.Code != 220 {
			w.t.Fatalf("greeting: %v %v", r, err)
		}
		if r, err := w.cl.Cmd("EHLO client.example.org"); err != nil || r.Code != 250 {
			w.t.Fatalf("EHLO: %v %v", r, err)
		}
		w.tr.Emit("SOpen", nil)
	case "SEhlo":
		w.needConn(s.A)
		if r, err := w.cl.Cmd("EHLO client.example.org"); err != nil || r.Code != 250 {
			w.t.Fatalf("EHLO: %v %v", r, err)
		}
		w.tr.Emit("SEhlo", nil)
	case "SAuth":
		w.needConn(s.A)
		var r authkit.Reply
		var err error
		if s.Mech == "PLAIN" {
			r, err = w.cl.AuthPlain("", s.Sp.String(), password(s.Pw), w.flavour())
		} else {
			r, err = w.cl.AuthLogin(s.Sp.String(), password(s.Pw), w.flavour())
		}
		if err != nil {
			w.t.Fatalf("AUTH: %v", err)
		}
		out := "fail"
		switch {
		case r.Code == 235:
			out = "ok"
		case r.Code == 503:
			out = "already"
		}
		w.tr.Emit("SAuth", vtrace.Ev{"mech": s.Mech, "sp": s.Sp, "pw": s.Pw, "res": out, "code": r.Code})
	case "SMail":
		w.needConn(s.A)
		var line string
		switch s.Mf {
		case "addr":
			line = "MAIL FROM:<someone@example.org>"
		case "null": // the null reverse-path
			line = "MAIL FROM:<>"
		case "nullparam":
			line = "MAIL FROM:<> BODY=8BITMIME"
		case "upper":
			line = "MAIL FROM:<SOMEONE@EXAMPLE.ORG>"
		case "utf8":
			line = "MAIL FROM:<zo\u00eb@ex\u00e4mple.org> SMTPUTF8"
		default:
			w.t.Fatalf("unknown reverse-path kind %q", s.Mf)
		}
		r, err := w.cl.Cmd(line)
		if err != nil {
			w.t.Fatalf("MAIL: %v", err)
		}
		out := "refused"
		if r.Code/100 == 2 {
			out = "ok"
		}
		w.tr.Emit("SMail", vtrace.Ev{"mf": s.Mf, "res": out, "code": r.Code})
		// leave the transaction so that the next MAIL starts afresh
		if out == "ok" {
			if r, err := w.cl.Cmd("RSET"); err != nil || r.Code != 250 {
				w.t.Fatalf("RSET: %v %v", r, err)
			}
		}
	case "SRset":
		w.needConn(s.A)
		if r, err := w.cl.Cmd("RSET"); err != nil || r.Code != 250 {
			w.t.Fatalf("RSET: %v %v", r, err)
		}
		w.tr.Emit("SRset", nil)
	case "SClose":
		w.needConn(s.A)
		w.cl.Cmd("QUIT")
		w.cl.Close()
		w.cl = nil
		w.tr.Emit("SClose", nil)
	default:
		w.t.Fatalf("unknown step %q", s.A)
	}
}

func runBehaviour(t *testing.T, b Behaviour, out *bufio.Writer) {
	tr := vtrace.New(out, b.ID)
	if b.Cfg.Tbl == "" {
		b.Cfg.Tbl = "mem"
	}
	if b.Cfg.Dom == "" {
		b.Cfg.Dom = "ascii"
	}
	setDom(b.Cfg.Dom)
	tr.Emit("Cfg", vtrace.Ev{"map": b.Cfg.Map, "norm": b.Cfg.Norm, "tbl": b.Cfg.Tbl, "defer": b.Cfg.Defer, "dom": b.Cfg.Dom})
	w := newWorld(t, b, tr)
	defer w.close()
	for _, s := range b.Hist {
		w.step(s)
	}
	keys, _ := w.tbl.Keys()
	tr.Emit("End", vtrace.Ev{"keys": len(keys)})
}

func TestReplay(t *testing.T) {
	in, out := os.Getenv("VERIF_IN"), os.Getenv("VERIF_OUT")
	if in == "" || out == "" {
		t.Skip("VERIF_IN / VERIF_OUT not set")
	}
	_ = module.Initialized
	f, err := os.Open(in)
	if err != nil {
		t.Fatal(err)
	}
	defer f.Close()
	of, err := os.Create(out)
	if err != nil {
		t.Fatal(err)
	}
	defer of.Close()
	w := bufio.NewWriter(of)
	defer w.Flush()
	sc := bufio.NewScanner(f)
	sc.Buffer(make([]byte, 1<<20), 1<<26)
	n := 0
	for sc.Scan() {
		var b Behaviour
		if err := json.Unmarshal(sc.Bytes(), &b); err != nil {
			t.Fatalf("bad behaviour line: %v", err)
		}
		runBehaviour(t, b, w)
		n++
	}
	t.Logf("replayed %d behaviours", n)
}
