// Package authcheck replays TLC-generated behaviours of Auth.tla on the real
// auth.pass_table (over a mutable in-memory table), the real
// auth.SASLAuth.CreateSASL (driven with real SASL PLAIN / LOGIN exchanges) and
// the real submission endpoint (over in-memory connections), and records
// NDJSON traces for AuthTrace.tla.
package authcheck

import (
	"strings"

	"golang.org/x/net/idna"
)

// Sp is a spelling of a user name: U = the user it stands for, V = the variant.
type Sp struct {
	U string `json:"u"`
	V string `json:"v"`
}

// The concrete strings behind the abstract spellings.  Every variant of a
// user is a string that RFC 8265 UsernameCaseMapped (width mapping, case
// mapping, NFC) maps to the "plain" form; the "bad" ones are refused by it.
var base = map[string]string{
	"ua": "zo\u00eb\u03c3",             // z o e-diaeresis (NFC) sigma
	"ub": "zo\u00eb\u03c3@example.org", // the same local part as an e-mail address
	"ux": "mallory",
}

// The domain of the e-mail shaped user ub is a per-behaviour parameter (cfg.dom of
// Auth.tla; the model does not depend on it): "ascii" = example.org, "idn" = an
// internationalised domain (U-label form; it also contains "ss" so that it has
// IDNA deviation-character twins).  setDom is called before every behaviour
// (behaviours run one after the other in a process).
const (
	asciiDom = "example.org"
	idnDom   = "ex\u00e4mple-strasse.org"
)

var curDom = asciiDom

func setDom(kind string) {
	switch kind {
	case "", "ascii":
		curDom = asciiDom
	case "idn":
		curDom = idnDom
	default:
		panic("unknown domain kind " + kind)
	}
	base["ub"] = base["ua"] + "@" + curDom
}

// aLabel is the A-label (punycode) spelling of the domain of an address.
func aLabel(addr string) string {
	i := strings.LastIndex(addr, "@")
	if i < 0 {
		return addr
	}
	a, err := idna.ToASCII(addr[i+1:])
	if err != nil {
		panic(err)
	}
	return addr[:i+1] + a
}

func spell(canon, v string) string {
	switch v {
	case "plain":
		return canon
	case "upper":
		return strings.ToUpper(canon)
	case "nfd":
		return strings.ReplaceAll(canon, "\u00eb", "e\u0308")
	case "wide":
		// fullwidth z and o in the local part
		return strings.Replace(canon, "zo", "\uff5a\uff4f", 1)
	case "alabel":
		// the domain written as A-labels; only an e-mail aware normalisation
		// (auth_map_normalize auto) equates it with the U-label form
		return aLabel(canon)
	case "alabelup":
		return strings.ToUpper(aLabel(canon))
	}
	return ""
}

// twin replaces sigma / capital sigma by final sigma. strings.EqualFold puts the
// three in one folding orbit, the PRECIS profiles map capital sigma to sigma
// and keep final sigma apart: the twin is the name of a different account.
func twin(s string) string {
	return strings.NewReplacer("\u03c3", "\u03c2", "\u03a3", "\u03c2").Replace(s)
}

// names that are nobody's account but, read as SQL LIKE patterns, match an account name
var patternNames = map[string]string{
	"under":  "zo_\u03c3",             // _ for the e-diaeresis of ua
	"underb": "zo_\u03c3@example.org", // the same for ub
	"pct":    "%",
}

// names that are nobody's account but contain / resemble an account name: what an
// unanchored or too lenient user-name map or normalisation would take for the account
func nearName(v string) (string, bool) {
	switch v {
	case "pre_a":
		return "mal" + base["ua"], true
	case "suf_a":
		return base["ua"] + "x", true
	case "pre_b":
		return "mal" + base["ub"], true
	case "suf_b":
		return base["ub"] + ".evil.example", true
	case "sharp", "zwnj":
		// IDNA deviation characters: sharp s is not "ss" and a zero-width non-joiner
		// is not nothing under IDNA2008, the domain is another one (transitional
		// / IDNA2003 processing would map it onto the domain of ub)
		d := curDom
		if !strings.Contains(d, "ss") {
			d = "ss." + d // the ASCII domain has no twin: some other domain
		}
		i := strings.Index(d, "ss")
		if v == "sharp" {
			return base["ua"] + "@" + d[:i] + "\u00df" + d[i+2:], true
		}
		return base["ua"] + "@" + d[:i+1] + "\u200c" + d[i+1:], true
	}
	return "", false
}

var nearVariants = []string{"pre_a", "suf_a", "pre_b", "suf_b", "sharp", "zwnj"}

func (s Sp) String() string {
	if s.U == "ux" {
		if p, ok := patternNames[s.V]; ok {
			if s.V == "underb" {
				return "zo_\u03c3@" + curDom
			}
			return p
		}
		if p, ok := nearName(s.V); ok {
			return p
		}
	}
	if c, ok := base[s.U]; ok {
		if s.V == "fold" {
			return twin(c)
		}
		if r := spell(c, s.V); r != "" {
			return r
		}
	}
	if s.U == "bad" {
		switch s.V {
		case "space":
			return "zo \u00eb"
		case "zwj":
			return "zo\u00eb\u200d"
		}
	}
	panic("unknown spelling " + s.U + "/" + s.V)
}

var variants = []string{"plain", "upper", "nfd", "wide", "alabel", "alabelup"}

// spellingOf is the inverse of Sp.String by exact string comparison (no
// normalisation happens in the harness); unknown strings map to ?/?.
func spellingOf(str string) Sp {
	for v := range patternNames {
		if (Sp{U: "ux", V: v}).String() == str {
			return Sp{U: "ux", V: v}
		}
	}
	for _, v := range nearVariants {
		if p, _ := nearName(v); p == str {
			return Sp{U: "ux", V: v}
		}
	}
	for _, u := range []string{"ua", "ub", "ux"} {
		c := base[u]
		for _, v := range variants {
			if spell(c, v) == str {
				return Sp{U: u, V: v}
			}
		}
	}
	for u, c := range base {
		for _, v := range variants[:4] {
			if t := twin(spell(c, v)); t != spell(c, v) && t == str {
				return Sp{U: u, V: "fold"}
			}
		}
	}
	return Sp{U: "?", V: "?"}
}

// authzid strings for the abstract choices of Auth.tla.
func authzid(sp Sp, az string) string {
	switch az {
	case "empty":
		return ""
	case "same":
		return sp.String()
	case "variant": // another spelling of the same user
		if _, ok := base[sp.U]; ok {
			if sp.V == "plain" {
				return Sp{U: sp.U, V: "upper"}.String()
			}
			return Sp{U: sp.U, V: "plain"}.String()
		}
		return sp.String() + "x"
	case "fold": // fold-equal to the authcid as typed, but another account
		if t := twin(sp.String()); t != sp.String() {
			return t
		}
		return base["ua"] + "x"
	case "other": // another user
		if sp.U == "ua" {
			return base["ub"]
		}
		return base["ua"]
	}
	panic("unknown authzid kind " + az)
}

var l72 = strings.Repeat("0123456789", 7) + "ab"

// Passwords: distinct identifiers are distinct octet strings.
var passwords = map[string]string{
	"empty": "",
	"a":     "correct horse battery staple",
	"b":     "Tr0ub4dor&3",
	"nfc":   "p\u00e4ssw\u00f6rd-\u4e16\u754c",
	"l72":   l72,                                    // exactly 72 bytes
	"l73":   l72 + "x",                              // 73 bytes, same first 72
	"long":  l72 + strings.Repeat("Z9", 114),        // 300 bytes, same first 72
	"long2": l72 + strings.Repeat("Z9", 113) + "Z8", // differs from "long" in the last byte only
	// pairs of different octet strings that a "helpful" preparation of the password
	// (RFC 8265 OpaqueString: NFC, non-ASCII space -> space; case folding; width
	// mapping; trimming) would make equal.  Auth.tla!PwTwins lists the pairs.
	"nfd":   "pa\u0308sswo\u0308rd-\u4e16\u754c",     // canonical decomposition of "nfc"
	"nbsp":  "correct\u00a0horse\u3000battery",       // no-break space, ideographic space
	"sp":    "correct horse battery",                  // the same with ASCII spaces
	"aup":   "CORRECT HORSE BATTERY STAPLE",           // "a" in upper case
	"atr":   "correct horse battery staple ",          // "a" followed by a space
	"bwide": "\uff34r0ub4dor&3",                       // "b" with a full-width T
	"jamo":  "\u1112\u1161\u11ab-pw",                  // conjoining Hangul jamo (NFC: one syllable)
	"jamoc": "\ud55c-pw",                              // the composed syllable
}

func password(id string) string {
	p, ok := passwords[id]
	if !ok {
		panic("unknown password id " + id)
	}
	return p
}
