// Package authcheck replays TLC-generated behaviours of Auth.tla on the real
// auth.pass_table (over a mutable in-memory table), the real
// auth.SASLAuth.CreateSASL (driven with real SASL PLAIN / LOGIN exchanges) and
// the real submission endpoint (over in-memory connections), and records
// NDJSON traces for AuthTrace.tla.
package authcheck

import "strings"

// Sp is a spelling of a user name: U = the user it stands for, V = the variant.
type Sp struct {
	U string `json:"u"`
	V string `json:"v"`
}

// The concrete strings behind the abstract spellings.  Every variant of a
// user is a string that RFC 8265 UsernameCaseMapped (width mapping, case
// mapping, NFC) maps to the "plain" form; the "bad" ones are refused by it.
var base = map[string]string{
	"ua": "zo\u00eb\u03c3",             // z o e-diaeresis (NFC) sigma
	"ub": "zo\u00eb\u03c3@example.org", // the same local part as an e-mail address
	"ux": "mallory",
}

func spell(canon, v string) string {
	switch v {
	case "plain":
		return canon
	case "upper":
		return strings.ToUpper(canon)
	case "nfd":
		return strings.ReplaceAll(canon, "\u00eb", "e\u0308")
	case "wide":
		// fullwidth z and o in the local part
		return strings.Replace(canon, "zo", "\uff5a\uff4f", 1)
	}
	return ""
}

// twin replaces sigma / capital sigma by final sigma. strings.EqualFold puts the
// three in one folding orbit, the PRECIS profiles map capital sigma to sigma
// and keep final sigma apart: the twin is the name of a different account.
func twin(s string) string {
	return strings.NewReplacer("\u03c3", "\u03c2", "\u03a3", "\u03c2").Replace(s)
}

// names that are nobody's account but, read as SQL LIKE patterns, match an account name
var patternNames = map[string]string{
	"under":  "zo_\u03c3",             // _ for the e-diaeresis of ua
	"underb": "zo_\u03c3@example.org", // the same for ub
	"pct":    "%",
}

func (s Sp) String() string {
	if s.U == "ux" {
		if p, ok := patternNames[s.V]; ok {
			return p
		}
	}
	if c, ok := base[s.U]; ok {
		if s.V == "fold" {
			return twin(c)
		}
		if r := spell(c, s.V); r != "" {
			return r
		}
	}
	if s.U == "bad" {
		switch s.V {
		case "space":
			return "zo \u00eb"
		case "zwj":
			return "zo\u00eb\u200d"
		}
	}
	panic("unknown spelling " + s.U + "/" + s.V)
}

var variants = []string{"plain", "upper", "nfd", "wide"}

// spellingOf is the inverse of Sp.String by exact string comparison (no
// normalisation happens in the harness); unknown strings map to ?/?.
func spellingOf(str string) Sp {
	for v, p := range patternNames {
		if p == str {
			return Sp{U: "ux", V: v}
		}
	}
	for u, c := range base {
		for _, v := range variants {
			if spell(c, v) == str {
				return Sp{U: u, V: v}
			}
		}
	}
	for u, c := range base {
		for _, v := range variants {
			if t := twin(spell(c, v)); t != spell(c, v) && t == str {
				return Sp{U: u, V: "fold"}
			}
		}
	}
	return Sp{U: "?", V: "?"}
}

// authzid strings for the abstract choices of Auth.tla.
func authzid(sp Sp, az string) string {
	switch az {
	case "empty":
		return ""
	case "same":
		return sp.String()
	case "variant": // another spelling of the same user
		if _, ok := base[sp.U]; ok {
			if sp.V == "plain" {
				return Sp{U: sp.U, V: "upper"}.String()
			}
			return Sp{U: sp.U, V: "plain"}.String()
		}
		return sp.String() + "x"
	case "fold": // fold-equal to the authcid as typed, but another account
		if t := twin(sp.String()); t != sp.String() {
			return t
		}
		return base["ua"] + "x"
	case "other": // another user
		if sp.U == "ua" {
			return base["ub"]
		}
		return base["ua"]
	}
	panic("unknown authzid kind " + az)
}

var l72 = strings.Repeat("0123456789", 7) + "ab"

// Passwords: distinct identifiers are distinct octet strings.
var passwords = map[string]string{
	"empty": "",
	"a":     "correct horse battery staple",
	"b":     "Tr0ub4dor&3",
	"nfc":   "p\u00e4ssw\u00f6rd-\u4e16\u754c",
	"l72":   l72,                                    // exactly 72 bytes
	"l73":   l72 + "x",                              // 73 bytes, same first 72
	"long":  l72 + strings.Repeat("Z9", 114),        // 300 bytes, same first 72
	"long2": l72 + strings.Repeat("Z9", 113) + "Z8", // differs from "long" in the last byte only
}

func password(id string) string {
	p, ok := passwords[id]
	if !ok {
		panic("unknown password id " + id)
	}
	return p
}
