// Package tos stands between internal/tls/file.go and the file system. It is
// swapped in through `go build -overlay` at check time: in a generated copy of
// file.go, tls.LoadX509KeyPair becomes tos.LoadX509KeyPair and tos.Gate("inst")
// is inserted in front of the lock that guards the swap of the certificates.
//
// LoadX509KeyPair does what crypto/tls.LoadX509KeyPair does (os.ReadFile of
// the certificate, os.ReadFile of the key, tls.X509KeyPair). For paths
// registered with the current Ctl it additionally
//   - parks the calling goroutine before each read (and before the swap)
//     until the controller releases it, so that the test can edit the files,
//     raise the reload event, handshake, let time pass or call Close between
//     any two of them,
//   - can make a read fail with an injected error (EACCES cannot be produced
//     by a process running as root),
//   - reports each read and its result to Ctl.OnRead.
package tos

import (
	"bytes"
	"crypto/tls"
	"io/fs"
	"os"
	"path/filepath"
	"runtime"
	"strconv"
	"sync"
)

type Ctl struct {
	// Paths maps a cleaned absolute path to the file's name in the model ("c1", "k1", ...).
	Paths map[string]string
	// OnRead is called in the reading goroutine right after the read.
	OnRead func(th, f string, data []byte, err error)
	// OnInst is called when a goroutine is let through the gate in front of the swap.
	OnInst func(th string)

	mu      sync.Mutex
	gated   bool
	hid     int64
	parked  map[string]string
	release map[string]chan struct{}
	inject  map[string]error
}

var (
	curMu sync.Mutex
	cur   *Ctl
)

func Set(c *Ctl) {
	if c != nil {
		c.parked = map[string]string{}
		c.release = map[string]chan struct{}{"T": make(chan struct{}), "H": make(chan struct{})}
		c.inject = map[string]error{}
	}
	curMu.Lock()
	cur = c
	curMu.Unlock()
}

func current() *Ctl { curMu.Lock(); defer curMu.Unlock(); return cur }

// Goid returns the id of the calling goroutine.
func Goid() int64 {
	var buf [64]byte
	b := buf[:runtime.Stack(buf[:], false)]
	b = bytes.TrimPrefix(b, []byte("goroutine "))
	if i := bytes.IndexByte(b, ' '); i > 0 {
		n, _ := strconv.ParseInt(string(b[:i]), 10, 64)
		return n
	}
	return -1
}

// SetGated switches parking on or off.
func (c *Ctl) SetGated(on bool) { c.mu.Lock(); c.gated = on; c.mu.Unlock() }

// SetH names the goroutine that runs the reload event; every other goroutine is "T".
func (c *Ctl) SetH(id int64) { c.mu.Lock(); c.hid = id; c.mu.Unlock() }

// Inject makes reads of path fail with err (nil = no injection).
func (c *Ctl) Inject(path string, err error) {
	c.mu.Lock()
	if err == nil {
		delete(c.inject, filepath.Clean(path))
	} else {
		c.inject[filepath.Clean(path)] = err
	}
	c.mu.Unlock()
}

// Parked tells what thread th is waiting to do ("" = nothing).
func (c *Ctl) Parked(th string) string { c.mu.Lock(); defer c.mu.Unlock(); return c.parked[th] }

// Release lets the parked thread go on.
func (c *Ctl) Release(th string) { c.release[th] <- struct{}{} }

func (c *Ctl) thread() string {
	id := Goid()
	c.mu.Lock()
	defer c.mu.Unlock()
	if id == c.hid {
		return "H"
	}
	return "T"
}

func (c *Ctl) gate(th, op string) {
	c.mu.Lock()
	if !c.gated {
		c.mu.Unlock()
		return
	}
	c.parked[th] = op
	c.mu.Unlock()
	<-c.release[th]
	c.mu.Lock()
	c.parked[th] = ""
	c.mu.Unlock()
}

// Gate parks the caller at a point that is not a file read ("inst").
func Gate(op string) {
	c := current()
	if c == nil {
		return
	}
	th := c.thread()
	c.mu.Lock()
	g := c.gated
	c.mu.Unlock()
	if !g {
		return
	}
	c.gate(th, op)
	if c.OnInst != nil {
		c.OnInst(th)
	}
}

func (c *Ctl) readFile(th, path string) ([]byte, error) {
	name, ok := c.Paths[filepath.Clean(path)]
	if !ok {
		return os.ReadFile(path)
	}
	c.gate(th, name)
	c.mu.Lock()
	inj := c.inject[filepath.Clean(path)]
	c.mu.Unlock()
	var (
		data []byte
		err  error
	)
	if inj != nil {
		err = &fs.PathError{Op: "open", Path: path, Err: inj}
	} else {
		data, err = os.ReadFile(path)
	}
	if c.OnRead != nil {
		c.OnRead(th, name, data, err)
	}
	return data, err
}

// LoadX509KeyPair is crypto/tls.LoadX509KeyPair with the reads going through the Ctl.
func LoadX509KeyPair(certFile, keyFile string) (tls.Certificate, error) {
	c := current()
	if c == nil {
		return tls.LoadX509KeyPair(certFile, keyFile)
	}
	th := c.thread()
	certPEMBlock, err := c.readFile(th, certFile)
	if err != nil {
		return tls.Certificate{}, err
	}
	keyPEMBlock, err := c.readFile(th, keyFile)
	if err != nil {
		return tls.Certificate{}, err
	}
	return tls.X509KeyPair(certPEMBlock, keyPEMBlock)
}

// ReadFile is os.ReadFile going through the Ctl (for a file.go that reads the files itself).
func ReadFile(path string) ([]byte, error) {
	c := current()
	if c == nil {
		return os.ReadFile(path)
	}
	return c.readFile(c.thread(), path)
}

// Mutex and RWMutex replace sync.Mutex / sync.RWMutex in the overlay copy of
// file.go: a goroutine blocked on a sync mutex is not "durably blocked" for
// testing/synctest (Wait would never return and the fake clock would stop);
// blocked on a channel it is. Same exclusion; readers exclude each other too.
type Mutex struct {
	once sync.Once
	ch   chan struct{}
}

func (m *Mutex) init() { m.once.Do(func() { m.ch = make(chan struct{}, 1) }) }

func (m *Mutex) Lock()   { m.init(); m.ch <- struct{}{} }
func (m *Mutex) Unlock() { m.init(); <-m.ch }

type RWMutex struct{ Mutex }

func (m *RWMutex) RLock()   { m.Lock() }
func (m *RWMutex) RUnlock() { m.Unlock() }
