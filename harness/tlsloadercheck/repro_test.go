package tlsloadercheck

// Stand-alone reproductions of the extension findings X11-F2 and X11-F3 against
// the real code (no TLC, no shim needed):
//
//	cd /verif/harness && VERIF_REPRO=1 go1.26 test -tags verif -run 'TestX11F' -v ./tlsloadercheck
//
// They FAIL on a tree that has the defect.

import (
	"crypto/tls"
	"os"
	"testing"

	"github.com/foxcpp/maddy/framework/config"
	tls2 "github.com/foxcpp/maddy/framework/config/tls"
	"github.com/foxcpp/maddy/verifharness/authkit"
)

// X11-F2: a tls block that names no loader is accepted; STARTTLS is advertised, no handshake can succeed.
func TestX11F2(t *testing.T) {
	if os.Getenv("VERIF_REPRO") == "" {
		t.Skip("VERIF_REPRO not set")
	}
	mat, err := makeRowMaterial(t.TempDir())
	if err != nil {
		t.Fatal(err)
	}
	out, err := runServerRow(RowIn{Scope: "server", Mode: "none", Protocols: []string{"tls1.2", "tls1.3"},
		Ciphers: []string{"OMIT"}, Curves: []string{"OMIT"}}, mat)
	if err != nil {
		t.Fatal(err)
	}
	if !out.Err && out.Starttls && len(out.Vers) == 0 {
		t.Errorf("`tls { protocols tls1.2 tls1.3 }` was accepted: STARTTLS advertised=%v, versions a handshake succeeds with=%v",
			out.Starttls, out.Vers)
	}
}

// X11-F3: tls_client without `protocols` does not accept TLS 1.0/1.1 (documented default: tls1.0 tls1.3).
func TestX11F3(t *testing.T) {
	if os.Getenv("VERIF_REPRO") == "" {
		t.Skip("VERIF_REPRO not set")
	}
	nodes, err := authkit.Nodes("tls_client {\n}\n")
	if err != nil {
		t.Fatal(err)
	}
	val, err := tls2.TLSClientBlock(config.NewMap(nil, config.Node{}), nodes[0])
	if err != nil {
		t.Fatal(err)
	}
	cfg := val.(*tls.Config)
	mat, err := makeRowMaterial(t.TempDir())
	if err != nil {
		t.Fatal(err)
	}
	cfg.RootCAs = mat.pool
	for i, v := range versIDs[:2] {
		srv := &tls.Config{Certificates: []tls.Certificate{mat.srvCert}, MinVersion: v, MaxVersion: v}
		if !dialWith(cfg, srv) {
			t.Errorf("tls_client {} (MinVersion=%#x) cannot talk to a TLS 1.%d server; docs/reference/tls.md: Default: tls1.0 tls1.3",
				cfg.MinVersion, i)
		}
	}
}
