package tlsloadercheck

// Pattern B of extension X11: every row of spec/TlsLoaderCfg.tla (one `tls`
// directive of an smtp endpoint, or one tls_client block) is rendered as
// configuration text, parsed by maddy's parser and handed to the real code:
//
//	server: endpoint/smtp Init over the text, served on an in-memory listener;
//	        EHLO tells whether STARTTLS is advertised; after STARTTLS one real
//	        handshake per protocol version, per cipher suite (TLS 1.2) and per
//	        curve (TLS 1.3), the client pinned to exactly that one.
//	client: tls2.TLSClientBlock over the text; the resulting *tls.Config dials
//	        harness TLS servers pinned to one version / suite / curve.
//
// Input: {"id":N,"in":{"scope","mode","protocols":[..],"ciphers":[..],"curves":[..]}}
// Output: {"t":N,"seq":1,"e":"Row","in":..,"out":{"err","starttls","vers","ciph","curv","names"}}

import (
	"bufio"
	"crypto/rand"
	"crypto/tls"
	"crypto/x509"
	"crypto/x509/pkix"
	"encoding/json"
	"encoding/pem"
	"fmt"
	"math/big"
	"net"
	"os"
	"path/filepath"
	"strings"
	"sync"
	"testing"
	"time"

	"github.com/foxcpp/maddy/framework/config"
	tls2 "github.com/foxcpp/maddy/framework/config/tls"
	"github.com/foxcpp/maddy/framework/log"
	"github.com/foxcpp/maddy/framework/module"
	smtpendp "github.com/foxcpp/maddy/internal/endpoint/smtp"
	"github.com/foxcpp/maddy/verifharness/authkit"
	"github.com/foxcpp/maddy/verifharness/vtrace"
)

type RowIn struct {
	Scope     string   `json:"scope"`
	Mode      string   `json:"mode"`
	Protocols []string `json:"protocols"`
	Ciphers   []string `json:"ciphers"`
	Curves    []string `json:"curves"`
}

type RowItem struct {
	ID int   `json:"id"`
	In RowIn `json:"in"`
}

type RowOut struct {
	Err      bool     `json:"err"`
	Starttls bool     `json:"starttls"`
	Vers     []int    `json:"vers"`
	Ciph     []string `json:"ciph"`
	Curv     []string `json:"curv"`
	Names    bool     `json:"names"`
	Ccert    bool     `json:"ccert"`
	Msg      string   `json:"msg,omitempty"`
}

var rowInst int

var versIDs = []uint16{tls.VersionTLS10, tls.VersionTLS11, tls.VersionTLS12, tls.VersionTLS13}

var cipherU = []struct {
	name string
	id   uint16
}{
	{"ECDHE-ECDSA-WITH-AES128-GCM-SHA256", tls.TLS_ECDHE_ECDSA_WITH_AES_128_GCM_SHA256},
	{"ECDHE-ECDSA-WITH-AES256-GCM-SHA384", tls.TLS_ECDHE_ECDSA_WITH_AES_256_GCM_SHA384},
	{"ECDHE-ECDSA-WITH-CHACHA20-POLY1305", tls.TLS_ECDHE_ECDSA_WITH_CHACHA20_POLY1305},
	{"ECDHE-ECDSA-WITH-AES128-CBC-SHA", tls.TLS_ECDHE_ECDSA_WITH_AES_128_CBC_SHA},
}

var curveU = []struct {
	name string
	id   tls.CurveID
}{
	{"p256", tls.CurveP256}, {"p384", tls.CurveP384}, {"p521", tls.CurveP521}, {"X25519", tls.X25519},
}

// rowMaterial writes the PEM files the rows refer to (valid now, wall clock).
type rowMaterial struct {
	c1, k1, c2, k2 string
	pool           *x509.CertPool
	srvCert        tls.Certificate
}

func makeRowMaterial(dir string) (*rowMaterial, error) {
	m := &rowMaterial{pool: x509.NewCertPool()}
	mk := func(name string, serial int64, keyid int) ([]byte, []byte, error) {
		k := keyFor(keyid)
		tmpl := &x509.Certificate{
			SerialNumber: big.NewInt(serial), Subject: pkix.Name{Organization: []string{"X11 rows"}},
			NotBefore: time.Now().Add(-time.Hour), NotAfter: time.Now().Add(48 * time.Hour),
			KeyUsage: x509.KeyUsageDigitalSignature | x509.KeyUsageCertSign, IsCA: true, BasicConstraintsValid: true,
			ExtKeyUsage: []x509.ExtKeyUsage{x509.ExtKeyUsageServerAuth}, DNSNames: []string{name},
		}
		der, err := x509.CreateCertificate(rand.Reader, tmpl, tmpl, &k.PublicKey, k)
		if err != nil {
			return nil, nil, err
		}
		return pem.EncodeToMemory(&pem.Block{Type: "CERTIFICATE", Bytes: der}), keyPEM(keyid), nil
	}
	for i, p := range []*[2]*string{{&m.c1, &m.k1}, {&m.c2, &m.k2}} {
		cp, kp, err := mk(nameOf(i+1), int64(500+i), 500+i)
		if err != nil {
			return nil, err
		}
		*p[0] = filepath.Join(dir, fmt.Sprintf("rc%d.pem", i+1))
		*p[1] = filepath.Join(dir, fmt.Sprintf("rk%d.pem", i+1))
		if err := os.WriteFile(*p[0], cp, 0o644); err != nil {
			return nil, err
		}
		if err := os.WriteFile(*p[1], kp, 0o600); err != nil {
			return nil, err
		}
		if i == 0 {
			m.pool.AppendCertsFromPEM(cp)
			var err error
			m.srvCert, err = tls.X509KeyPair(cp, kp)
			if err != nil {
				return nil, err
			}
		}
	}
	return m, nil
}

func directiveBody(in RowIn) string {
	var sb strings.Builder
	line := func(name string, args []string) {
		if len(args) == 1 && args[0] == "OMIT" {
			return
		}
		sb.WriteString("    " + name)
		for _, a := range args {
			sb.WriteString(" " + a)
		}
		sb.WriteString("\n")
	}
	line("protocols", in.Protocols)
	line("ciphers", in.Ciphers)
	line("curves", in.Curves)
	return sb.String()
}

func block(head, body string) string {
	if body == "" {
		return head + "\n"
	}
	return head + " {\n" + body + "}\n"
}

// ---- server scope -------------------------------------------------------------------------------

type smtpConn struct {
	c net.Conn
	r *bufio.Reader
}

func (s *smtpConn) reply() (int, []string, error) {
	var lines []string
	for {
		s.c.SetReadDeadline(time.Now().Add(20 * time.Second))
		l, err := s.r.ReadString('\n')
		if err != nil {
			return 0, lines, err
		}
		l = strings.TrimRight(l, "\r\n")
		if len(l) < 4 {
			return 0, lines, fmt.Errorf("short reply %q", l)
		}
		lines = append(lines, l[4:])
		if l[3] == ' ' {
			code := 0
			fmt.Sscanf(l[:3], "%d", &code)
			return code, lines, nil
		}
	}
}

func (s *smtpConn) cmd(line string) (int, []string, error) {
	if _, err := s.c.Write([]byte(line + "\r\n")); err != nil {
		return 0, nil, err
	}
	return s.reply()
}

// ehlo opens a connection and says EHLO; it tells whether STARTTLS is advertised.
func ehlo(ln *bufListener) (*smtpConn, bool, error) {
	c, err := ln.Dial()
	if err != nil {
		return nil, false, err
	}
	s := &smtpConn{c: c, r: bufio.NewReader(c)}
	if code, _, err := s.reply(); err != nil || code != 220 {
		c.Close()
		return nil, false, fmt.Errorf("greeting: %d %v", code, err)
	}
	code, lines, err := s.cmd("EHLO probe.test")
	if err != nil || code != 250 {
		c.Close()
		return nil, false, fmt.Errorf("EHLO: %d %v", code, err)
	}
	adv := false
	for _, l := range lines {
		if strings.EqualFold(strings.TrimSpace(l), "STARTTLS") {
			adv = true
		}
	}
	return s, adv, nil
}

// probeServer makes one STARTTLS handshake with the given client configuration.
func probeServer(ln *bufListener, ccfg *tls.Config) (*tls.ConnectionState, bool, error) {
	s, adv, err := ehlo(ln)
	if err != nil {
		return nil, false, err
	}
	defer s.c.Close()
	if !adv {
		return nil, false, nil
	}
	code, _, err := s.cmd("STARTTLS")
	if err != nil {
		return nil, false, err
	}
	if code != 220 {
		return nil, false, nil
	}
	tc := tls.Client(s.c, ccfg)
	s.c.SetDeadline(time.Now().Add(20 * time.Second))
	if err := tc.Handshake(); err != nil {
		return nil, false, nil
	}
	st := tc.ConnectionState()
	return &st, true, nil
}

func runServerRow(in RowIn, mat *rowMaterial) (RowOut, error) {
	out := RowOut{Vers: []int{}, Ciph: []string{}, Curv: []string{}, Names: true}
	var head string
	switch in.Mode {
	case "off":
		head = "tls off"
	case "file":
		head = "tls file " + mat.c1 + " " + mat.k1
	case "file2":
		head = "tls file " + mat.c1 + " " + mat.k1 + " " + mat.c2 + " " + mat.k2
	case "self":
		head = "tls self_signed a.test"
	case "none":
		head = "tls"
	case "filedir":
		head = "tls"
	case "named", "namedmis":
		// a top-level configuration block, as maddy.go registers it (initialised on first reference)
		rowInst++
		name := fmt.Sprintf("x11rows_%d_%d", os.Getpid(), rowInst)
		btext := "certs " + mat.c1 + " " + mat.c2 + "\nkeys " + mat.k1 + " " + mat.k2 + "\n"
		if in.Mode == "namedmis" {
			btext = "certs " + mat.c1 + " " + mat.c2 + "\nkeys " + mat.k1 + "\n"
		}
		bnodes, err := authkit.Nodes(btext)
		if err != nil {
			return out, err
		}
		mod, err := module.Get("tls.loader.file")("tls.loader.file", name, nil, nil)
		if err != nil {
			return out, err
		}
		module.RegisterInstance(mod, config.NewMap(nil, config.Node{Children: bnodes}))
		head = "tls &" + name
	case "bogus":
		head = "tls nosuchloader " + mat.c1 + " " + mat.k1
	case "odd":
		head = "tls file " + mat.c1 + " " + mat.k1 + " " + mat.c2
	default:
		return out, fmt.Errorf("unknown mode %q", in.Mode)
	}
	body := directiveBody(in)
	if in.Mode == "filedir" {
		body = "    loader file " + mat.c1 + " " + mat.k1 + "\n" + body
	}
	if in.Mode == "none" && body == "" {
		body = "    # nothing\n"
	}
	text := "hostname mx.example.org\n" + block(head, body) + "deliver_to dummy\n"
	nodes, err := authkit.Nodes(text)
	if err != nil {
		return out, fmt.Errorf("config text does not parse: %v\n%s", err, text)
	}
	em, err := smtpendp.New("smtp", nil)
	if err != nil {
		return out, err
	}
	endp := em.(*smtpendp.Endpoint)
	endp.Log = log.Logger{Out: log.NopOutput{}}
	if err := endp.Init(config.NewMap(nil, config.Node{Children: nodes})); err != nil {
		out.Err = true
		out.Msg = err.Error()
		return out, nil
	}
	ln := newBufListener()
	go endp.VerifAuthServe(ln)
	defer func() { ln.Close(); endp.Close() }()

	s, adv, err := ehlo(ln)
	if err != nil {
		return out, err
	}
	s.c.Close()
	out.Starttls = adv
	if !adv {
		return out, nil
	}
	base := func() *tls.Config { return &tls.Config{InsecureSkipVerify: true, ServerName: "a.test"} }
	for i, v := range versIDs {
		c := base()
		c.MinVersion, c.MaxVersion = v, v
		st, ok, err := probeServer(ln, c)
		if err != nil {
			return out, err
		}
		if ok {
			out.Vers = append(out.Vers, i)
			if in.Mode == "self" {
				if len(st.PeerCertificates) == 0 || st.PeerCertificates[0].VerifyHostname("a.test") != nil {
					out.Names = false
				}
			}
		}
	}
	for _, cs := range cipherU {
		c := base()
		c.MinVersion, c.MaxVersion = tls.VersionTLS12, tls.VersionTLS12
		c.CipherSuites = []uint16{cs.id}
		st, ok, err := probeServer(ln, c)
		if err != nil {
			return out, err
		}
		if ok && st.CipherSuite == cs.id {
			out.Ciph = append(out.Ciph, cs.name)
		}
	}
	for _, cv := range curveU {
		c := base()
		c.MinVersion, c.MaxVersion = tls.VersionTLS13, tls.VersionTLS13
		c.CurvePreferences = []tls.CurveID{cv.id}
		_, ok, err := probeServer(ln, c)
		if err != nil {
			return out, err
		}
		if ok {
			out.Curv = append(out.Curv, cv.name)
		}
	}
	return out, nil
}

// ---- client scope -------------------------------------------------------------------------------

// dialWith makes one handshake of the client configuration against a harness server.
func dialWith(ccfg *tls.Config, scfg *tls.Config) bool {
	ok, _ := dialWithCert(ccfg, scfg)
	return ok
}

// dialWithCert also tells the serial number of the client certificate the server was shown (0 = none).
func dialWithCert(ccfg *tls.Config, scfg *tls.Config) (bool, int64) {
	cc, sc := bufPipe()
	defer cc.Close()
	done := make(chan struct{})
	var shown int64
	go func() {
		defer close(done)
		defer sc.Close()
		s := tls.Server(sc, scfg)
		sc.SetDeadline(time.Now().Add(20 * time.Second))
		if s.Handshake() == nil {
			if pc := s.ConnectionState().PeerCertificates; len(pc) > 0 {
				shown = pc[0].SerialNumber.Int64()
			}
			buf := make([]byte, 1)
			s.Read(buf)
		}
	}()
	c := ccfg.Clone()
	c.ServerName = "a.test"
	tc := tls.Client(cc, c)
	cc.SetDeadline(time.Now().Add(20 * time.Second))
	err := tc.Handshake()
	if err == nil {
		// TLS 1.3: the server reads the client's certificate after the client's handshake has returned
		cc.SetDeadline(time.Now().Add(20 * time.Second))
		tc.Write([]byte{0})
	}
	cc.Close()
	<-done
	return err == nil, shown
}

func runClientRow(in RowIn, mat *rowMaterial) (RowOut, error) {
	out := RowOut{Vers: []int{}, Ciph: []string{}, Curv: []string{}, Names: true}
	extra := ""
	switch in.Mode {
	case "clientcert":
		extra = "    cert " + mat.c2 + "\n    key " + mat.k2 + "\n"
	case "clienthalf":
		extra = "    cert " + mat.c2 + "\n"
	}
	text := block("tls_client", "    root_ca "+mat.c1+"\n"+extra+directiveBody(in))
	nodes, err := authkit.Nodes(text)
	if err != nil {
		return out, fmt.Errorf("config text does not parse: %v\n%s", err, text)
	}
	val, err := tls2.TLSClientBlock(config.NewMap(nil, config.Node{}), nodes[0])
	if err != nil {
		out.Err = true
		out.Msg = err.Error()
		return out, nil
	}
	ccfg := val.(*tls.Config)
	srv := func() *tls.Config {
		return &tls.Config{Certificates: []tls.Certificate{mat.srvCert}, ClientAuth: tls.RequestClientCert}
	}
	for i, v := range versIDs {
		s := srv()
		s.MinVersion, s.MaxVersion = v, v
		if ok, shown := dialWithCert(ccfg, s); ok {
			out.Vers = append(out.Vers, i)
			if shown == 501 { // the serial of the second pair of the row material
				out.Ccert = true
			}
		}
	}
	for _, cs := range cipherU {
		s := srv()
		s.MinVersion, s.MaxVersion = tls.VersionTLS12, tls.VersionTLS12
		s.CipherSuites = []uint16{cs.id}
		if dialWith(ccfg, s) {
			out.Ciph = append(out.Ciph, cs.name)
		}
	}
	for _, cv := range curveU {
		s := srv()
		s.MinVersion, s.MaxVersion = tls.VersionTLS13, tls.VersionTLS13
		s.CurvePreferences = []tls.CurveID{cv.id}
		if dialWith(ccfg, s) {
			out.Curv = append(out.Curv, cv.name)
		}
	}
	return out, nil
}

func TestRows(t *testing.T) {
	inp, outp := os.Getenv("VERIF_IN"), os.Getenv("VERIF_OUT")
	if inp == "" || outp == "" {
		t.Skip("VERIF_IN / VERIF_OUT not set")
	}
	base := os.Getenv("VERIF_TMP")
	if base == "" {
		base = t.TempDir()
	}
	dir, err := os.MkdirTemp(base, "rows")
	if err != nil {
		t.Fatal(err)
	}
	defer os.RemoveAll(dir)
	mat, err := makeRowMaterial(dir)
	if err != nil {
		t.Fatal(err)
	}
	fin, err := os.Open(inp)
	if err != nil {
		t.Fatal(err)
	}
	defer fin.Close()
	fout, err := os.Create(outp)
	if err != nil {
		t.Fatal(err)
	}
	defer fout.Close()
	w := bufio.NewWriter(fout)
	defer w.Flush()
	var mu sync.Mutex
	sc := bufio.NewScanner(fin)
	sc.Buffer(make([]byte, 1<<20), 1<<26)
	for sc.Scan() {
		if len(strings.TrimSpace(sc.Text())) == 0 {
			continue
		}
		var it RowItem
		if err := json.Unmarshal(sc.Bytes(), &it); err != nil {
			t.Fatalf("bad row: %v", err)
		}
		var out RowOut
		if it.In.Scope == "client" {
			out, err = runClientRow(it.In, mat)
		} else {
			out, err = runServerRow(it.In, mat)
		}
		if err != nil {
			t.Fatalf("row %d: %v", it.ID, err)
		}
		tr := vtrace.New(lockedWriter{w, &mu}, it.ID)
		tr.Emit("Row", vtrace.Ev{"in": it.In, "out": out})
	}
	if err := sc.Err(); err != nil {
		t.Fatal(err)
	}
}
