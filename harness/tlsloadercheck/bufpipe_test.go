package tlsloadercheck

// A buffered in-memory duplex connection. net.Pipe is synchronous: when a TLS
// handshake fails both sides write an alert at the same time and block on each
// other. Writes here never block.

import (
	"io"
	"net"
	"os"
	"sync"
	"time"
)

type half struct {
	mu     sync.Mutex
	buf    []byte
	closed bool
	ch     chan struct{}
}

func newHalf() *half { return &half{ch: make(chan struct{}, 1)} }

func (h *half) notify() {
	select {
	case h.ch <- struct{}{}:
	default:
	}
}

type bufConn struct {
	rd, wr *half
	mu     sync.Mutex
	dl     time.Time
}

func bufPipe() (net.Conn, net.Conn) {
	a, b := newHalf(), newHalf()
	return &bufConn{rd: a, wr: b}, &bufConn{rd: b, wr: a}
}

func (c *bufConn) Read(p []byte) (int, error) {
	for {
		c.rd.mu.Lock()
		if len(c.rd.buf) > 0 {
			n := copy(p, c.rd.buf)
			c.rd.buf = c.rd.buf[n:]
			if len(c.rd.buf) > 0 {
				c.rd.notify()
			}
			c.rd.mu.Unlock()
			return n, nil
		}
		closed := c.rd.closed
		c.rd.mu.Unlock()
		if closed {
			return 0, io.EOF
		}
		c.mu.Lock()
		dl := c.dl
		c.mu.Unlock()
		if dl.IsZero() {
			<-c.rd.ch
			continue
		}
		d := time.Until(dl)
		if d <= 0 {
			return 0, os.ErrDeadlineExceeded
		}
		t := time.NewTimer(d)
		select {
		case <-c.rd.ch:
			t.Stop()
		case <-t.C:
			return 0, os.ErrDeadlineExceeded
		}
	}
}

func (c *bufConn) Write(p []byte) (int, error) {
	c.wr.mu.Lock()
	defer c.wr.mu.Unlock()
	if c.wr.closed {
		return 0, io.ErrClosedPipe
	}
	c.wr.buf = append(c.wr.buf, p...)
	c.wr.notify()
	return len(p), nil
}

func (c *bufConn) Close() error {
	for _, h := range []*half{c.rd, c.wr} {
		h.mu.Lock()
		h.closed = true
		h.mu.Unlock()
		h.notify()
	}
	return nil
}

type bufAddr struct{}

func (bufAddr) Network() string { return "pipe" }
func (bufAddr) String() string  { return "pipe" }

func (c *bufConn) LocalAddr() net.Addr  { return bufAddr{} }
func (c *bufConn) RemoteAddr() net.Addr { return bufAddr{} }
func (c *bufConn) SetDeadline(t time.Time) error {
	c.mu.Lock()
	c.dl = t
	c.mu.Unlock()
	return nil
}
func (c *bufConn) SetReadDeadline(t time.Time) error  { return c.SetDeadline(t) }
func (c *bufConn) SetWriteDeadline(t time.Time) error { return nil }

// bufListener hands the server ends of buffered pipes to Accept.
type bufListener struct {
	ch   chan net.Conn
	done chan struct{}
	once sync.Once
}

func newBufListener() *bufListener {
	return &bufListener{ch: make(chan net.Conn), done: make(chan struct{})}
}

func (l *bufListener) Accept() (net.Conn, error) {
	select {
	case c := <-l.ch:
		return c, nil
	case <-l.done:
		return nil, net.ErrClosed
	}
}
func (l *bufListener) Close() error   { l.once.Do(func() { close(l.done) }); return nil }
func (l *bufListener) Addr() net.Addr { return bufAddr{} }

func (l *bufListener) Dial() (net.Conn, error) {
	c, s := bufPipe()
	select {
	case l.ch <- s:
		return c, nil
	case <-l.done:
		return nil, net.ErrClosed
	case <-time.After(60 * time.Second):
		return nil, os.ErrDeadlineExceeded
	}
}
