// Package sasldelegatecheck replays the rows / behaviours of spec/SaslDelegate.tla and
// spec/SaslDelegateWire.tla (extension X09) against the real code:
//
//   - layer "ps":  auth.plain_separate, created by its factory and initialised from configuration text whose
//     `user` / `pass` directives name scripted table / auth modules registered for the test
//   - layer "ext": auth.external with a helper script (bash) that records its stdin
//   - layer "sh":  auth.shadow on a generated shadow file (the path literal of read.go is made a variable by
//     a build overlay generated from the tree's own read.go), inside a synctest bubble (day 10957)
//   - side "srv":  the dovecot_sasld endpoint, initialised from configuration text in a CHILD process
//     (TestChild of this binary) in front of a scripted credential backend; this process is the scripted
//     Dovecot client on the unix socket.  A crash of the endpoint kills the child, not the harness.
//   - side "cli":  auth.dovecot_sasl (Init + AuthPlain) against a scripted Dovecot auth server (unix socket)
//   - side "pair": auth.dovecot_sasl -> unix socket -> the child's dovecot_sasld -> backend
//
// Input  (VERIF_IN):  {"id":N,"in":{...row...}}
// Output (VERIF_OUT): {"t":id,"seq":1,"e":"Begin"} before the row runs, {"t":id,"seq":2,"e":"Row","in":..,"out":..}
package sasldelegatecheck

import (
	"bufio"
	"bytes"
	"context"
	"encoding/base64"
	"encoding/hex"
	"encoding/json"
	"errors"
	"fmt"
	"io"
	"net"
	"os"
	"os/exec"
	"path/filepath"
	"regexp"
	"sort"
	"strconv"
	"strings"
	"sync"
	"testing"
	"testing/synctest"
	"time"

	parser "github.com/foxcpp/maddy/framework/cfgparser"
	"github.com/foxcpp/maddy/framework/config"
	"github.com/foxcpp/maddy/framework/exterrors"
	"github.com/foxcpp/maddy/framework/module"
	dovecotsasl "github.com/foxcpp/maddy/internal/auth/dovecot_sasl"
	"github.com/foxcpp/maddy/internal/auth/external"
	"github.com/foxcpp/maddy/internal/auth/plain_separate"
	"github.com/foxcpp/maddy/internal/auth/shadow"
	dovecotsasld "github.com/foxcpp/maddy/internal/endpoint/dovecot_sasld"
)

const (
	ioWait   = 40 * time.Second // a read the script expects an answer (or EOF) for; only a hang runs into it
	callWait = 60 * time.Second
)

// ---------------------------------------------------------------------------------------------------------
// credentials of the wire rows (spec: Creds / Backend)

var credTab = map[string][2]string{
	"good": {"alice", "pwA"}, "badpw": {"alice", "pwX"}, "nouser": {"mallory", "pwA"},
	"tmp": {"tmpuser", "pwT"}, "err": {"erruser", "pwE"},
	"tab": {"t\tab", "p\tw"}, "tabx": {"alice\tjunk", "pwA\tjunk"}, "nlx": {"alice\njunk", "pwA\njunk"},
	"nulx": {"alice\x00junk", "pwA\x00junk"}, "nul": {"n\x00ul", "p\x00w"},
	"long": {strings.Repeat("u", 1000), strings.Repeat("p", 1000)},
	"huge": {strings.Repeat("U", 40000), strings.Repeat("P", 40000)},
	"emptypw": {"alice", ""}, "utf8": {"zoë", "пароль"},
}

func backendAnswer(kind string) string {
	switch kind {
	case "good", "tab", "nul", "long", "huge", "utf8":
		return "ok"
	case "tmp":
		return "temp"
	case "err":
		return "err"
	}
	return "rej"
}

var tagRe = regexp.MustCompile(`#r(\d+)(s\d+)?$`)

func tagFor(row, side int) string {
	if side > 0 {
		return fmt.Sprintf("#r%ds%d", row, side)
	}
	return fmt.Sprintf("#r%d", row)
}

func kindOf(user, pass string) string {
	for k, v := range credTab {
		if v[0] == user && v[1] == pass {
			return k
		}
	}
	return "other"
}

// ---------------------------------------------------------------------------------------------------------
// scripted modules (registered once per process)

type scripted struct {
	name  string
	tag   string
	onTbl func(key string) (string, bool, error)
	onPw  func(u, p string) error
}

func (s *scripted) Name() string              { return s.name }
func (s *scripted) InstanceName() string      { return s.tag }
func (s *scripted) Init(_ *config.Map) error  { return nil }
func (s *scripted) AuthPlain(u, p string) error { return s.onPw(u, p) }
func (s *scripted) Lookup(_ context.Context, k string) (string, bool, error) {
	return s.onTbl(k)
}

var (
	regOnce  sync.Once
	scriptMu sync.Mutex
	scripts  = map[string]*scripted{}
)

func register() {
	regOnce.Do(func() {
		f := func(modName, instName string, _, inlineArgs []string) (module.Module, error) {
			if len(inlineArgs) != 1 {
				return nil, fmt.Errorf("%s: one argument (script name) required", modName)
			}
			scriptMu.Lock()
			defer scriptMu.Unlock()
			s := scripts[inlineArgs[0]]
			if s == nil {
				return nil, fmt.Errorf("%s: unknown script %s", modName, inlineArgs[0])
			}
			return s, nil
		}
		module.Register("table.x09tbl", f)
		module.Register("auth.x09pass", f)
	})
}

func setScript(name string, s *scripted) {
	scriptMu.Lock()
	scripts[name] = s
	scriptMu.Unlock()
}

func cfgNode(t *testing.T, text string) config.Node {
	nodes, err := parser.Read(strings.NewReader(text), "x09.conf")
	if err != nil || len(nodes) != 1 {
		t.Fatalf("configuration text does not parse: %v\n%s", err, text)
	}
	return nodes[0]
}

func classify(err error) string {
	if err == nil {
		return "ok"
	}
	if exterrors.IsTemporary(err) {
		return "temp"
	}
	return "invalid"
}

// guarded runs f on its own goroutine: a panic is "panic", no return within callWait is "hang".
func guarded(f func() error) (string, string) {
	type res struct {
		v, note string
	}
	ch := make(chan res, 1)
	go func() {
		defer func() {
			if r := recover(); r != nil {
				ch <- res{"panic", fmt.Sprint(r)}
			}
		}()
		err := f()
		note := ""
		if err != nil {
			note = err.Error()
		}
		ch <- res{classify(err), note}
	}()
	select {
	case r := <-ch:
		return r.v, r.note
	case <-time.After(callWait):
		return "hang", "no return within " + callWait.String()
	}
}

// ---------------------------------------------------------------------------------------------------------
// layer ps

type call struct {
	I    int  `json:"i"`
	Same bool `json:"same"`
}

func runPs(t *testing.T, id int, in map[string]interface{}) map[string]interface{} {
	register()
	const user, pass = "lister@example.org", "correct horse\tbattery"
	var mu sync.Mutex
	tl, pc := []call{}, []call{}
	var text strings.Builder
	text.WriteString("plain_separate {\n")
	for k, a := range in["tbls"].([]interface{}) {
		k, a := k+1, a.(string)
		name := fmt.Sprintf("t%d_%d", id, k)
		setScript(name, &scripted{name: "x09tbl", tag: name, onTbl: func(key string) (string, bool, error) {
			mu.Lock()
			tl = append(tl, call{k, key == user})
			mu.Unlock()
			switch a {
			case "hit":
				return "", true, nil
			case "miss":
				return "", false, nil
			case "terr":
				return "", false, exterrors.WithTemporary(errors.New("x09: table backend is down"), true)
			}
			return "", false, errors.New("x09: table is broken")
		}})
		fmt.Fprintf(&text, "    user x09tbl %s\n", name)
	}
	for k, a := range in["pass"].([]interface{}) {
		k, a := k+1, a.(string)
		name := fmt.Sprintf("p%d_%d", id, k)
		setScript(name, &scripted{name: "x09pass", tag: name, onPw: func(u, p string) error {
			same := u == user && p == pass
			mu.Lock()
			pc = append(pc, call{k, same})
			mu.Unlock()
			if !same {
				return module.ErrUnknownCredentials
			}
			switch a {
			case "ok":
				return nil
			case "rej":
				return module.ErrUnknownCredentials
			case "temp":
				return exterrors.WithTemporary(errors.New("x09: provider is down"), true)
			}
			return errors.New("x09: provider failed")
		}})
		fmt.Fprintf(&text, "    pass x09pass %s\n", name)
	}
	text.WriteString("}\n")
	out := map[string]interface{}{"cfg": text.String()}
	mod, err := plain_separate.NewAuth("auth.plain_separate", fmt.Sprintf("ps%d", id), nil, nil)
	if err != nil {
		t.Fatalf("row %d: NewAuth: %v", id, err)
	}
	v, note := "", ""
	if ierr := mod.Init(config.NewMap(map[string]interface{}{}, cfgNode(t, text.String()))); ierr != nil {
		v, note = "refused", ierr.Error()
	} else if in["op"] == "lookup" {
		tbl, ok := mod.(module.Table)
		if !ok {
			t.Fatalf("row %d: auth.plain_separate is not a table", id)
		}
		v, note = guarded(func() error {
			_, found, err := tbl.Lookup(context.Background(), user)
			if err != nil {
				return err
			}
			if found {
				return nil
			}
			return errNotFound
		})
		if v == "ok" {
			v = "found"
		} else if note == errNotFound.Error() {
			v = "notfound"
		}
	} else {
		v, note = guarded(func() error { return mod.(module.PlainAuth).AuthPlain(user, pass) })
	}
	mu.Lock()
	defer mu.Unlock()
	out["v"], out["note"], out["tl"], out["pc"] = v, note, tl, pc
	return out
}

var errNotFound = errors.New("x09: not found")

var groupTime = map[string]time.Duration{}

// ---------------------------------------------------------------------------------------------------------
// layer ext

const helperScript = `#!/usr/bin/bash
# maddy-auth-helper of the X09 harness: reads exactly two lines (the documented protocol), records them,
# looks whether more input is waiting, and answers as the mode says.
IFS= read -r u
IFS= read -r p
extra=0
if IFS= read -r -t 0.3 x; then extra=1; fi
hx() { printf '%s' "$1" | od -An -v -tx1 | tr -d ' \n'; }
printf 'u=%s;p=%s;extra=%s\n' "$(hx "$u")" "$(hx "$p")" "$extra" > "$X09_HELPER_LOG"
case "$X09_HELPER_MODE" in
  exit2) echo "backend unreachable" >&2; exit 2;;
  exit3) exit 3;;
  killed) kill -9 $$;;
esac
lu=$(printf '%s' "$u" | tr 'A-Z' 'a-z')
if [ "$lu" = "alice" ] && [ "$p" = "pwA" ]; then exit 0; fi
if [ "$lu" = "alice@example.org" ] && [ "$p" = "pwB" ]; then exit 0; fi
exit 1
`

func runExt(t *testing.T, id int, in map[string]interface{}, tmp string) map[string]interface{} {
	helper := filepath.Join(tmp, "x09-helper.sh")
	if _, err := os.Stat(helper); err != nil {
		if err := os.WriteFile(helper, []byte(helperScript), 0o755); err != nil {
			t.Fatal(err)
		}
	}
	logf := filepath.Join(tmp, fmt.Sprintf("helper-%d.log", id))
	os.Remove(logf)
	os.Setenv("X09_HELPER_LOG", logf)
	os.Setenv("X09_HELPER_MODE", in["helper"].(string))
	perdomain := in["perdomain"].(bool)
	users := map[string]string{"bare": "alice", "dom": "alice@example.org", "domup": "alice@EXAMPLE.ORG",
		"other": "alice@evil.test", "twoat": "alice@evil.test@example.org", "nl": "alice\npwA", "unknown": "mallory"}
	right := "pwA"
	if perdomain {
		right = "pwB"
	}
	pws := map[string]string{"right": right, "wrong": "nope", "rightnl": right + "\nzzz", "empty": ""}
	user, pw := users[in["user"].(string)], pws[in["pw"].(string)]
	text := "external {\n    helper " + helper + "\n"
	if perdomain {
		text += "    perdomain yes\n"
	}
	if in["domains"] == "one" {
		text += "    domains example.org\n"
	}
	text += "}\n"
	out := map[string]interface{}{"cfg": text}
	mod, err := external.NewExternalAuth("auth.external", fmt.Sprintf("ext%d", id), nil, nil)
	if err != nil {
		t.Fatalf("row %d: NewExternalAuth: %v", id, err)
	}
	v, note := "", ""
	if ierr := mod.Init(config.NewMap(map[string]interface{}{}, cfgNode(t, text))); ierr != nil {
		v, note = "refused", ierr.Error()
	} else {
		v, note = guarded(func() error { return mod.(module.PlainAuth).AuthPlain(user, pw) })
	}
	ran, exact := false, true
	if b, err := os.ReadFile(logf); err == nil {
		ran = true
		var hu, hp string
		var extra int
		for _, f := range strings.Split(strings.TrimSpace(string(b)), ";") {
			kv := strings.SplitN(f, "=", 2)
			if len(kv) != 2 {
				continue
			}
			switch kv[0] {
			case "u":
				x, _ := hex.DecodeString(kv[1])
				hu = string(x)
			case "p":
				x, _ := hex.DecodeString(kv[1])
				hp = string(x)
			case "extra":
				extra, _ = strconv.Atoi(kv[1])
			}
		}
		local := strings.SplitN(user, "@", 2)[0]
		exact = (hu == user || hu == local) && hp == pw && extra == 0
		out["helper_saw"] = fmt.Sprintf("%q %q extra=%d", hu, hp, extra)
	}
	out["v"], out["note"], out["ran"], out["exact"] = v, note, ran, exact
	return out
}

// ---------------------------------------------------------------------------------------------------------
// layer sh

// crypt(3) of "pwA-correct" (glibc, cross-checked with openssl passwd); "other" is crypt(3) of another password
var shHashes = map[string]string{
	"sha512":      "$6$x09saltsalt$dcq4z8kv/THy/BGf8ylgYr6fdRwfhTTZ9SZ86CVmkc/Okr8jYUpVkSc/v4v624EBSrNBmPNI17OZG0kSeWi7c0",
	"sha256":      "$5$x09saltsalt$NAczgvhwelS9hiRLSh1M80.9OHkm48SMofQu1HQKhG1",
	"sha512r":     "$6$rounds=5000$x09saltsaltsalt1$FwGyWg679NMnHMRip76b9rPjK060Sz/KJzA84cW2MygAkql6hgJYsiOhzsYYC96k5.6jSsFpBN/9TL6cm8eXk1",
	"sha512r1000": "$6$rounds=1000$x09saltsaltsalt1$5Y2kRA4uTLDDHdtPwTpH/VvJ/tJsVBx.WzzkP8rhfnr6GCNLh5Yx2RCaCs1qzRNNa794gNK.TxdT6wrhGpaZy0",
	// rounds= with a salt shorter than 16 characters
	"sha512rshort": "$6$rounds=1000$x09saltsalt$JkgdHOS8HnRWWdhTy4J6VN9wDglNNvmtLkkxapVCKNMGkcQONSpRuDAc.J.rdHba82TFRynn/sCaYwJ54VKnG1",
	"md5":         "$1$x09salt$9zqDTwBWZKVOcdYIL96qP1",
	"des":         "x0IW.6FF4cAOk",
	"yescrypt":    "$y$j9T$F5Jx5fExrKuPp53xLKQ..1$X3DX6M94c7o.9agCG9G317fhZg9SqC.5i5rd.RhAtQ7",
	"star":        "*",
	"empty":       "",
	"junk":        "x",
	"other":       "$6$x09saltsalt$g36CUYtHGS/6W/J3AwB5O8T/z2poidEqbFHn8F/jzU9k2Ict.dM4RuFtUsefa2z.M3zxh4t3FSvBX0Q.LtXJ./",
}

const shRight = "pwA-correct"

func runSh(t *testing.T, id int, in map[string]interface{}, tmp string) map[string]interface{} {
	s := func(k string) string { return in[k].(string) }
	today := int(time.Now().Unix() / 86400) // 10957 inside the bubble
	num := func(kind string, vals map[string]int) string {
		if v, ok := vals[kind]; ok {
			return strconv.Itoa(v)
		}
		return ""
	}
	lock := map[string]string{"none": "", "bang": "!", "bangbang": "!!"}[s("lock")]
	entry := func(name, hash string) string {
		return strings.Join([]string{name, hash,
			num(s("lastchg"), map[string]int{"0": 0, "old": today - 100}), "",
			num(s("max"), map[string]int{"30": 30, "90": 90, "200": 200}), "",
			num(s("inact"), map[string]int{"10": 10}),
			num(s("exp"), map[string]int{"neg": -1, "zero": 0, "past": today - 10, "today": today, "tomorrow": today + 1, "far": today + 1000}),
			""}, ":")
	}
	plain := func(name, hash string) string { return name + ":" + hash + ":19000:0:99999:7:::" }
	lines := []string{plain("root", "*")}
	if s("file") == "badbefore" {
		lines = append(lines, "broken:line")
	}
	mine := entry("alice", lock+shHashes[s("hash")])
	switch s("pos") {
	case "only":
		lines = append(lines, mine)
	case "second":
		lines = append(lines, plain("bob", shHashes["other"]), mine)
	case "dup":
		lines = append(lines, plain("alice", shHashes["other"]), mine)
	case "absent":
		lines = append(lines, plain("bob", shHashes["other"]))
	}
	if s("file") == "badafter" {
		lines = append(lines, "broken:line")
	}
	path := filepath.Join(tmp, "shadow-x09")
	if err := os.WriteFile(path, []byte(strings.Join(lines, "\n")+"\n"), 0o600); err != nil {
		t.Fatal(err)
	}
	shadow.VerifShadowPath = path
	cand := map[string]string{"right": shRight, "wrong": "nope", "longer": shRight + "x", "prefix": shRight[:len(shRight)-1], "empty": ""}[s("cand")]
	mod, err := shadow.New("auth.shadow", fmt.Sprintf("sh%d", id), nil, nil)
	if err != nil {
		t.Fatalf("row %d: shadow.New: %v", id, err)
	}
	// not through guarded(): no goroutine may outlive the bubble, and the code does no blocking I/O
	v, note := func() (v, note string) {
		defer func() {
			if r := recover(); r != nil {
				v, note = "panic", fmt.Sprint(r)
			}
		}()
		err := mod.(module.PlainAuth).AuthPlain("alice", cand)
		if err != nil {
			note = err.Error()
		}
		return classify(err), note
	}()
	return map[string]interface{}{"v": v, "note": note, "entry": mine}
}

// ---------------------------------------------------------------------------------------------------------
// the child process: the real dovecot_sasld endpoint in front of the scripted credential backend

type backend struct {
	mu  sync.Mutex
	log *os.File
}

func (b *backend) Name() string             { return "x09backend" }
func (b *backend) InstanceName() string     { return "x09backend" }
func (b *backend) Init(_ *config.Map) error { return nil }
func (b *backend) AuthPlain(u, p string) error {
	row, side := -1, 0
	base := p
	if m := tagRe.FindStringSubmatch(p); m != nil {
		row, _ = strconv.Atoi(m[1])
		if m[2] != "" {
			side, _ = strconv.Atoi(m[2][1:])
		}
		base = p[:len(p)-len(m[0])]
	}
	kind := kindOf(u, base)
	line, _ := json.Marshal(map[string]interface{}{"row": row, "side": side, "kind": kind})
	b.mu.Lock()
	b.log.Write(append(line, '\n'))
	b.mu.Unlock()
	switch backendAnswer(kind) {
	case "ok":
		return nil
	case "temp":
		return exterrors.WithTemporary(errors.New("x09: credential database is down"), true)
	case "err":
		return errors.New("x09: credential database failed")
	}
	return module.ErrUnknownCredentials
}

func TestChild(t *testing.T) {
	dir := os.Getenv("X09_CHILD_DIR")
	if dir == "" {
		t.Skip("not a child")
	}
	lf, err := os.OpenFile(filepath.Join(dir, "calls.ndjson"), os.O_CREATE|os.O_APPEND|os.O_WRONLY, 0o644)
	if err != nil {
		t.Fatal(err)
	}
	be := &backend{log: lf}
	module.Register("auth.x09backend", func(_, _ string, _, _ []string) (module.Module, error) { return be, nil })
	var eps []module.Module
	// p.sock: sasl_login left at its default (off); pl.sock: sasl_login yes
	for _, e := range []struct{ sock, login string }{{"p.sock", ""}, {"pl.sock", "    sasl_login yes\n"}} {
		addr := "unix://" + filepath.Join(dir, e.sock)
		text := "dovecot_sasld " + addr + " {\n    auth x09backend\n" + e.login + "    auth_map_normalize noop\n}\n"
		ep, err := dovecotsasld.New("dovecot_sasld", []string{addr})
		if err != nil {
			t.Fatal(err)
		}
		if err := ep.Init(config.NewMap(map[string]interface{}{}, cfgNode(t, text))); err != nil {
			t.Fatalf("dovecot_sasld does not start: %v\n%s", err, text)
		}
		eps = append(eps, ep)
	}
	fmt.Println("X09-CHILD-READY")
	io.Copy(io.Discard, os.Stdin)
	for _, ep := range eps {
		ep.(io.Closer).Close()
	}
	time.Sleep(300 * time.Millisecond)
}

type child struct {
	dir   string
	cmd   *exec.Cmd
	stdin io.WriteCloser
	dead  chan struct{}
}

func startChild(t *testing.T, dir string) *child {
	os.Remove(filepath.Join(dir, "p.sock"))
	os.Remove(filepath.Join(dir, "pl.sock"))
	cmd := exec.Command(os.Args[0], "-test.run", "^TestChild$", "-test.timeout", "3h")
	cmd.Env = append(os.Environ(), "X09_CHILD_DIR="+dir)
	errf, err := os.OpenFile(filepath.Join(dir, "child.log"), os.O_CREATE|os.O_APPEND|os.O_WRONLY, 0o644)
	if err != nil {
		t.Fatal(err)
	}
	cmd.Stderr = errf
	stdin, err := cmd.StdinPipe()
	if err != nil {
		t.Fatal(err)
	}
	stdout, err := cmd.StdoutPipe()
	if err != nil {
		t.Fatal(err)
	}
	if err := cmd.Start(); err != nil {
		t.Fatal(err)
	}
	c := &child{dir: dir, cmd: cmd, stdin: stdin, dead: make(chan struct{})}
	ready := make(chan bool, 1)
	go func() {
		sc := bufio.NewScanner(stdout)
		ok := false
		for sc.Scan() {
			if !ok && strings.Contains(sc.Text(), "X09-CHILD-READY") {
				ok = true
				ready <- true
			}
		}
		if !ok {
			ready <- false
		}
		cmd.Wait()
		errf.Close()
		close(c.dead)
	}()
	select {
	case ok := <-ready:
		if !ok {
			b, _ := os.ReadFile(filepath.Join(dir, "child.log"))
			t.Fatalf("child did not start:\n%s", b)
		}
	case <-time.After(5 * time.Minute):
		t.Fatalf("child did not become ready")
	}
	return c
}

func (c *child) stop() {
	c.stdin.Close()
	select {
	case <-c.dead:
	case <-time.After(60 * time.Second):
		c.cmd.Process.Kill()
		<-c.dead
	}
}

// gone: the endpoint cannot be reached at the start of a row.  When the process has died, the row that ran
// before is the one that killed it (rows run one at a time): the caller marks that row and starts over.
func (c *child) gone(t *testing.T, id int, err error) map[string]interface{} {
	select {
	case <-c.dead:
		return map[string]interface{}{"gone": true}
	case <-time.After(60 * time.Second):
	}
	b, _ := os.ReadFile(filepath.Join(c.dir, "child.log"))
	if len(b) > 3000 {
		b = b[len(b)-3000:]
	}
	t.Fatalf("row %d: cannot reach the endpoint of a living child: %v\n%s", id, err, b)
	return nil
}

// probe: does the endpoint still answer a handshake?  false = the process died (waited for).
func (c *child) probe(t *testing.T) bool {
	// A panicking handler closes its connection (deferred) before the runtime prints the panic and exits, and
	// the other goroutines keep serving meanwhile: give the process a moment to die before asking.
	select {
	case <-c.dead:
		return false
	case <-time.After(120 * time.Millisecond):
	}
	for attempt := 0; attempt < 3; attempt++ {
		conn, err := net.Dial("unix", filepath.Join(c.dir, "p.sock"))
		if err == nil {
			p := &peer{conn: conn, br: bufio.NewReaderSize(conn, 1<<20)}
			hs := p.readHandshake()
			conn.Close()
			if hs["done"] == true {
				return true
			}
		}
		select {
		case <-c.dead:
			return false
		case <-time.After(2 * time.Second):
		}
	}
	select {
	case <-c.dead:
		return false
	case <-time.After(30 * time.Second):
	}
	t.Fatalf("the child neither answers nor exits")
	return false
}

// ---------------------------------------------------------------------------------------------------------
// the scripted Dovecot client (side srv)

type peer struct {
	conn  net.Conn
	br    *bufio.Reader
	stall bool
	eof   bool
}

func (p *peer) readLine() (string, bool) {
	if p.eof || p.stall {
		return "", false
	}
	p.conn.SetReadDeadline(time.Now().Add(ioWait))
	s, err := p.br.ReadString('\n')
	if err != nil {
		var ne net.Error
		if errors.As(err, &ne) && ne.Timeout() {
			p.stall = true
		} else {
			p.eof = true
		}
		return "", false
	}
	return strings.TrimSuffix(s, "\n"), true
}

func (p *peer) readHandshake() map[string]interface{} {
	ver, done := "", false
	mechs := []string{}
	for {
		l, ok := p.readLine()
		if !ok {
			break
		}
		f := strings.Split(l, "\t")
		if f[0] == "DONE" {
			done = true
			break
		}
		if f[0] == "VERSION" && len(f) > 1 {
			ver = f[1]
		}
		if f[0] == "MECH" && len(f) > 1 {
			mechs = append(mechs, f[1])
		}
	}
	sort.Strings(mechs)
	return map[string]interface{}{"ver": ver, "mechs": mechs, "done": done}
}

func token(l string) string {
	f := strings.Split(l, "\t")
	switch {
	case f[0] == "OK" && len(f) >= 2:
		return "OK:" + f[1]
	case f[0] == "FAIL" && len(f) >= 2:
		for _, x := range f[2:] {
			if x == "temp" || x == "code=temp_fail" {
				return "FAIL:" + f[1] + ":temp"
			}
		}
		return "FAIL:" + f[1]
	case f[0] == "CONT" && len(f) >= 3:
		b, err := base64.StdEncoding.DecodeString(f[2])
		kind := "other"
		switch {
		case err != nil:
		case len(b) == 0:
			kind = "empty"
		case string(b) == "Username:":
			kind = "user"
		case string(b) == "Password:":
			kind = "pass"
		}
		return "CONT:" + f[1] + ":" + kind
	}
	return "OTHER"
}

func b64(s string) string { return base64.StdEncoding.EncodeToString([]byte(s)) }

type line struct{ K, A, B, C, Cred string }

func runSrv(t *testing.T, id int, in map[string]interface{}, c *child) map[string]interface{} {
	sock := "p.sock"
	if in["login"].(bool) {
		sock = "pl.sock"
	}
	tag := tagFor(id, 0)
	conn, err := net.Dial("unix", filepath.Join(c.dir, sock))
	if err != nil {
		return c.gone(t, id, err)
	}
	defer conn.Close()
	t0 := time.Now()
	defer func() { groupTime["srv"] += time.Since(t0) }()
	p := &peer{conn: conn, br: bufio.NewReaderSize(conn, 1<<20)}
	hs := p.readHandshake()
	if hs["done"] != true {
		select {
		case <-c.dead:
			return map[string]interface{}{"gone": true}
		case <-time.After(20 * time.Second):
		}
	}
	rx := []string{}
	sent := []string{}
	n := 0
	send := func(s string) {
		conn.SetWriteDeadline(time.Now().Add(ioWait))
		conn.Write([]byte(s + "\n")) // an error = the other side is gone; the reads tell
		if len(s) > 200 {
			s = s[:200] + "..."
		}
		sent = append(sent, s)
	}
	turn := func(rid string) { // read up to the reply that ends the turn of request rid
		for {
			l, ok := p.readLine()
			if !ok {
				return
			}
			tk := token(l)
			rx = append(rx, tk)
			if strings.HasPrefix(tk, "OK:"+rid) || strings.HasPrefix(tk, "FAIL:"+rid) || strings.HasPrefix(tk, "CONT:"+rid+":") {
				return
			}
		}
	}
	for _, raw := range in["lines"].([]interface{}) {
		m := raw.(map[string]interface{})
		l := line{m["k"].(string), m["a"].(string), m["b"].(string), m["c"].(string), m["cred"].(string)}
		cr := credTab[l.Cred]
		user, pass := cr[0], cr[1]+tag
		switch l.K {
		case "ver":
			send(map[string]string{"11": "VERSION\t1\t1", "17": "VERSION\t1\t7", "20": "VERSION\t2\t0", "1": "VERSION\t1", "0": "VERSION"}[l.A])
		case "cpid":
			send(map[string]string{"ok": "CPID\t4242", "none": "CPID"}[l.A])
		case "junk":
			send(map[string]string{"foo": "FOO\tbar", "empty": "", "authshort": "AUTH\t1\tPLAIN"}[l.A])
		case "auth":
			n++
			s := "AUTH\t" + strconv.Itoa(n) + "\t" + l.A + "\t" + map[string]string{
				"std": "service=smtp\tsecured", "svcnoval": "service", "ripbad": "service=smtp\trip=notanip",
				"ripok":  "service=smtp\trip=192.0.2.7\trport=4711\tlip=192.0.2.1\tlport=587",
				"extra": "service=smtp\tfuture-param=1\tnologin"}[l.B]
			switch l.C {
			case "cred":
				if l.A == "LOGIN" {
					s += "\tresp=" + b64(user)
				} else {
					s += "\tresp=" + b64("\x00"+user+"\x00"+pass)
				}
			case "empty":
				s += "\tresp="
			case "two":
				s += "\tresp=" + b64(user+"\x00"+pass)
			case "badb64":
				s += "\tresp=!!!notbase64"
			case "authzother":
				s += "\tresp=" + b64("bob\x00"+user+"\x00"+pass)
			case "authzself":
				s += "\tresp=" + b64(user+"\x00"+user+"\x00"+pass)
			}
			send(s)
			turn(strconv.Itoa(n))
		case "cont":
			rid := strconv.Itoa(n)
			if l.A == "other" {
				rid = "99"
			}
			payload := map[string]string{"msg": b64("\x00" + user + "\x00" + pass), "user": b64(user), "pass": b64(pass),
				"badb64": "!!!notbase64", "empty": ""}[l.B]
			send("CONT\t" + rid + "\t" + payload)
			turn(strconv.Itoa(n))
		}
	}
	if in["end"] == "eof" {
		if uc, ok := conn.(*net.UnixConn); ok {
			uc.CloseWrite()
		}
		for {
			l, ok := p.readLine()
			if !ok {
				break
			}
			rx = append(rx, token(l))
		}
	} else {
		rx = []string{}
	}
	conn.Close()
	alive := c.probe(t)
	return map[string]interface{}{"hs": hs, "rx": rx, "alive": alive, "stall": p.stall, "calls": []string{}, "sent": sent}
}

// ---------------------------------------------------------------------------------------------------------
// side pair

func newClient(t *testing.T, id int, sock string) (module.Module, string, string) {
	mod, err := dovecotsasl.New("auth.dovecot_sasl", fmt.Sprintf("cl%d", id), nil, []string{"unix://" + sock})
	if err != nil {
		t.Fatalf("row %d: dovecot_sasl.New: %v", id, err)
	}
	v, note := guarded(func() error { return mod.Init(config.NewMap(map[string]interface{}{}, config.Node{})) })
	return mod, v, note
}

func runPair(t *testing.T, id int, in map[string]interface{}, c *child) map[string]interface{} {
	sock := "p.sock"
	if in["login"].(bool) {
		sock = "pl.sock"
	}
	out := map[string]interface{}{"v": "none", "sidev": []string{}, "calls": []string{}}
	mod, iv, inote := newClient(t, id, filepath.Join(c.dir, sock))
	if iv != "ok" {
		select {
		case <-c.dead:
			return map[string]interface{}{"gone": true}
		case <-time.After(20 * time.Second):
		}
		t.Fatalf("row %d: the client module does not initialise against the child's endpoint: %s %s", id, iv, inote)
	}
	pa := mod.(module.PlainAuth)
	cr := credTab[in["cred"].(string)]
	sides := []string{"good", "badpw", "tmp", "tab", "nouser", "utf8"}
	sidev := make([]string, 0)
	var wg sync.WaitGroup
	if in["conc"].(bool) {
		sidev = make([]string, len(sides))
		for k, sk := range sides {
			wg.Add(1)
			go func(k int, sk string) {
				defer wg.Done()
				sc := credTab[sk]
				sidev[k], _ = guarded(func() error { return pa.AuthPlain(sc[0], sc[1]+tagFor(id, k+1)) })
			}(k, sk)
		}
	}
	v, note := guarded(func() error { return pa.AuthPlain(cr[0], cr[1]+tagFor(id, 0)) })
	wg.Wait()
	out["v"], out["note"], out["sidev"] = v, note, sidev
	out["alive"] = c.probe(t)
	return out
}

// ---------------------------------------------------------------------------------------------------------
// side cli: the scripted Dovecot auth server

type hsKind struct {
	Ver, Mechs, Cut string
	Junk            bool
}

func hsOf(v interface{}) hsKind {
	m := v.(map[string]interface{})
	return hsKind{m["ver"].(string), m["mechs"].(string), m["cut"].(string), m["junk"].(bool)}
}

func (h hsKind) lines(n int) []string {
	ls := []string{map[string]string{"11": "VERSION\t1\t1", "12": "VERSION\t1\t2", "20": "VERSION\t2\t0", "1": "VERSION\t1",
		"2": "VERSION\t2", "none": "VERSION"}[h.Ver]}
	if h.Junk {
		ls = append(ls, "XYZZY\tfoo")
	}
	ls = append(ls, "SPID\t777", "CUID\t"+strconv.Itoa(n), "COOKIE\tdeadbeefdeadbeefdeadbeefdeadbeef")
	switch h.Mechs {
	case "P":
		ls = append(ls, "MECH\tPLAIN\tplaintext")
	case "L":
		ls = append(ls, "MECH\tLOGIN\tplaintext")
	case "PL":
		ls = append(ls, "MECH\tPLAIN\tplaintext", "MECH\tLOGIN\tplaintext")
	case "C":
		ls = append(ls, "MECH\tCRAM-MD5\tdictionary\tactive")
	case "Ppriv":
		ls = append(ls, "MECH\tPLAIN\tplaintext\tprivate")
	}
	switch h.Cut {
	case "c0":
		return nil
	case "c1":
		return ls[:1]
	case "cmid":
		return ls
	}
	return append(ls, "DONE")
}

func runCli(t *testing.T, id int, in map[string]interface{}, tmp string) map[string]interface{} {
	hs1, hs2 := hsOf(in["hs1"]), hsOf(in["hs2"])
	cr := credTab[in["cred"].(string)]
	user, pass := cr[0], cr[1]
	var rep []string
	for _, r := range in["rep"].([]interface{}) {
		rep = append(rep, r.(string))
	}
	sock := filepath.Join(tmp, fmt.Sprintf("s%d.sock", id))
	os.Remove(sock)
	var mu sync.Mutex
	tx := []string{}
	conns := 0
	var ln net.Listener
	var served sync.WaitGroup
	serve := func(conn net.Conn, n int, h hsKind) {
		defer served.Done()
		defer conn.Close()
		p := &peer{conn: conn, br: bufio.NewReaderSize(conn, 1<<20)}
		w := func(s string) {
			conn.SetWriteDeadline(time.Now().Add(ioWait))
			conn.Write([]byte(s + "\n"))
		}
		for _, l := range h.lines(n) {
			w(l)
		}
		if h.Cut != "full" || h.Ver == "20" || h.Ver == "2" || h.Ver == "none" {
			// (a client that gives up on the version does not close its connection: do not wait for it)
			return
		}
		// the client's VERSION, CPID, then (second connection) AUTH
		rid := "1"
		for {
			l, ok := p.readLine()
			if !ok {
				return
			}
			f := strings.Split(l, "\t")
			if f[0] != "AUTH" {
				continue
			}
			tk := "AUTH:?:?:diff"
			if len(f) >= 3 {
				rid = f[1]
				same := false
				for _, x := range f[3:] {
					if strings.HasPrefix(x, "resp=") {
						b, err := base64.StdEncoding.DecodeString(x[5:])
						if err == nil {
							if f[2] == "PLAIN" {
								same = string(b) == "\x00"+user+"\x00"+pass
							} else {
								same = string(b) == user
							}
						}
					}
				}
				tk = "AUTH:" + f[2] + ":" + f[1] + ":" + map[bool]string{true: "same", false: "diff"}[same]
			}
			mu.Lock()
			tx = append(tx, tk)
			mu.Unlock()
			break
		}
		for _, r := range rep {
			w(map[string]string{"OK": "OK\t" + rid, "OKother": "OK\t99", "OKnoid": "OK", "FAIL": "FAIL\t" + rid,
				"FAILtemp": "FAIL\t" + rid + "\ttemp", "FAILcode": "FAIL\t" + rid + "\tcode=temp_fail",
				"FAILdis": "FAIL\t" + rid + "\tcode=user_disabled", "FAILreason": "FAIL\t" + rid + "\treason=nope",
				"FAILother": "FAIL\t99", "CONTpass": "CONT\t" + rid + "\t" + b64("Password:"),
				"CONTuser": "CONT\t" + rid + "\t" + b64("Username:"), "CONTempty": "CONT\t" + rid + "\t",
				"CONTbad": "CONT\t" + rid + "\t!!!", "CONTnoarg": "CONT\t" + rid, "JUNK": "FOO\t" + rid, "JUNKx": "FOO", "EMPTY": ""}[r])
			if strings.HasPrefix(r, "CONT") {
				// the client answers or gives up (EOF)
				l, ok := p.readLine()
				if !ok {
					return
				}
				f := strings.Split(l, "\t")
				tk := "CONT:?:diff"
				if f[0] == "CONT" && len(f) >= 3 {
					b, err := base64.StdEncoding.DecodeString(f[2])
					if err == nil && string(b) == pass {
						tk = "CONT:" + f[1] + ":pass"
					} else {
						tk = "CONT:" + f[1] + ":diff"
					}
				}
				mu.Lock()
				tx = append(tx, tk)
				mu.Unlock()
			}
		}
		// hang-up
	}
	listen := func() {
		var err error
		ln, err = net.Listen("unix", sock)
		if err != nil {
			t.Fatalf("row %d: listen: %v", id, err)
		}
		go func(ln net.Listener) {
			for {
				conn, err := ln.Accept()
				if err != nil {
					return
				}
				mu.Lock()
				conns++
				n := conns
				mu.Unlock()
				h := hs1
				if n >= 2 {
					h = hs2
				}
				served.Add(1)
				go serve(conn, n, h)
			}
		}(ln)
	}
	if hs1.Cut != "refuse" {
		listen()
	}
	out := map[string]interface{}{"init": "", "v": "none"}
	mod, iv, inote := newClient(t, id, sock)
	out["init"], out["init_note"] = map[string]string{"ok": "ok", "panic": "panic", "hang": "hang"}[iv], inote
	if out["init"] == "" {
		out["init"] = "err"
	}
	if iv == "ok" {
		if hs2.Cut == "refuse" && ln != nil {
			ln.Close()
			os.Remove(sock)
			ln = nil
		}
		out["v"], out["note"] = guarded(func() error { return mod.(module.PlainAuth).AuthPlain(user, pass) })
	}
	if ln != nil {
		ln.Close()
	}
	done := make(chan struct{})
	go func() { served.Wait(); close(done) }()
	select {
	case <-done:
	case <-time.After(2 * ioWait):
	}
	os.Remove(sock)
	mu.Lock()
	defer mu.Unlock()
	out["tx"], out["conns"] = tx, conns
	return out
}

// ---------------------------------------------------------------------------------------------------------

func TestReplay(t *testing.T) {
	inPath, outPath := os.Getenv("VERIF_IN"), os.Getenv("VERIF_OUT")
	if inPath == "" || outPath == "" {
		t.Skip("VERIF_IN / VERIF_OUT not set")
	}
	tmp := os.Getenv("VERIF_TMP")
	if tmp == "" {
		t.Fatal("VERIF_TMP not set")
	}
	data, err := os.ReadFile(inPath)
	if err != nil {
		t.Fatal(err)
	}
	of, err := os.Create(outPath)
	if err != nil {
		t.Fatal(err)
	}
	defer of.Close()
	var emu sync.Mutex
	emit := func(v map[string]interface{}) {
		b, err := json.Marshal(v)
		if err != nil {
			t.Fatal(err)
		}
		emu.Lock()
		defer emu.Unlock()
		if _, err := of.Write(append(b, '\n')); err != nil {
			t.Fatal(err)
		}
	}
	type item struct {
		id  int
		in  map[string]interface{}
		raw json.RawMessage
	}
	var items, shItems []item
	for _, ln := range bytes.Split(data, []byte("\n")) {
		if len(bytes.TrimSpace(ln)) == 0 {
			continue
		}
		var r struct {
			ID int             `json:"id"`
			In json.RawMessage `json:"in"`
		}
		if err := json.Unmarshal(ln, &r); err != nil {
			t.Fatalf("bad row: %v", err)
		}
		var m map[string]interface{}
		if err := json.Unmarshal(r.In, &m); err != nil {
			t.Fatalf("bad row: %v", err)
		}
		it := item{r.ID, m, r.In}
		if m["layer"] == "sh" {
			shItems = append(shItems, it)
		} else {
			items = append(items, it)
		}
	}
	// shadow rows: one bubble (time.Now is 2000-01-01T00:00Z = day 10957)
	if len(shItems) > 0 {
		synctest.Test(t, func(t *testing.T) {
			for _, it := range shItems {
				emit(map[string]interface{}{"t": it.id, "seq": 1, "e": "Begin"})
				emit(map[string]interface{}{"t": it.id, "seq": 2, "e": "Row", "in": it.raw, "out": runSh(t, it.id, it.in, tmp)})
			}
		})
	}
	var ch *child
	cdir := filepath.Join(tmp, "c")
	type pending struct {
		it  item
		out map[string]interface{}
	}
	var later []pending
	for _, it := range items {
		emit(map[string]interface{}{"t": it.id, "seq": 1, "e": "Begin"})
		var out map[string]interface{}
		tr := time.Now()
		switch {
		case it.in["layer"] == "ps":
			out = runPs(t, it.id, it.in)
		case it.in["layer"] == "ext":
			out = runExt(t, it.id, it.in, tmp)
		case it.in["side"] == "cli":
			out = runCli(t, it.id, it.in, tmp)
		case it.in["side"] == "srv" || it.in["side"] == "pair":
			if ch == nil {
				os.MkdirAll(cdir, 0o755)
				ch = startChild(t, cdir)
			}
			for try := 0; ; try++ {
				if it.in["side"] == "srv" {
					out = runSrv(t, it.id, it.in, ch)
				} else {
					out = runPair(t, it.id, it.in, ch)
				}
				if out["gone"] != true {
					break
				}
				// the process died after the previous row's probe: that row killed it
				if len(later) == 0 || try > 0 {
					t.Fatalf("row %d: the child dies before the row starts", it.id)
				}
				later[len(later)-1].out["alive"] = false
				ch = startChild(t, cdir)
			}
			if out["alive"] == false {
				ch = startChild(t, cdir)
			}
			later = append(later, pending{it, out})
			continue
		default:
			t.Fatalf("row %d: unknown kind", it.id)
		}
		emit(map[string]interface{}{"t": it.id, "seq": 2, "e": "Row", "in": it.raw, "out": out})
		if l, ok := it.in["layer"].(string); ok {
			groupTime[l] += time.Since(tr)
		} else {
			groupTime["cli"] += time.Since(tr)
		}
	}
	fmt.Printf("x09 timing: %v\n", groupTime)
	t1 := time.Now()
	if ch != nil {
		if len(later) > 0 {
			select {
			case <-ch.dead:
				later[len(later)-1].out["alive"] = false
			case <-time.After(time.Second):
			}
		}
		ch.stop()
	}
	fmt.Printf("x09 timing: srv rows %v, child stop %v\n", groupTime["srv"], time.Since(t1))
	// the backend's call log: attributed by the row tag inside the password
	calls := map[int][]string{}
	if b, err := os.ReadFile(filepath.Join(cdir, "calls.ndjson")); err == nil {
		for _, ln := range bytes.Split(b, []byte("\n")) {
			var c struct {
				Row, Side int
				Kind      string
			}
			if json.Unmarshal(ln, &c) != nil {
				continue
			}
			if c.Side == 0 {
				calls[c.Row] = append(calls[c.Row], c.Kind)
			}
		}
	}
	for k, p := range later {
		cs := calls[p.it.id]
		if cs == nil {
			cs = []string{}
		}
		if k == 0 && len(calls[-1]) > 0 {
			// calls whose tag was lost (credentials cut short): reported with the first row of the shard
			cs = append(cs, calls[-1]...)
		}
		p.out["calls"] = cs
		emit(map[string]interface{}{"t": p.it.id, "seq": 2, "e": "Row", "in": p.it.raw, "out": p.out})
	}
}
