// Package twcheck executes schedules on the real, instrumented scheduler of
// internal/target/queue under harness/vsched and records API-level events
// (property C12).
//
// Two modes, same event vocabulary (see spec/TimeWheelObs.tla):
//
//	wheel  the real TimeWheel with a miniature of queue.go's dispatch wrapper
//	       (WaitGroup, semaphore, attempt, re-Add, recover -> broken mark)
//	       written in the harness with explicit vsched calls;
//	queue  the real Queue on a spool directory with a scripted target.
//
// Input (VERIF_IN): {"id":N,"cfg":{...},"pol":"list|db|rand","sched":[...],
// "delays":[...],"seed":S,"selrot":K}. Output (VERIF_OUT): NDJSON events.
package twcheck

import (
	"bufio"
	"context"
	"encoding/json"
	"fmt"
	"math/rand"
	"os"
	"path/filepath"
	"sort"
	"strings"
	"sync"
	"testing"
	"testing/synctest"
	"time"

	"github.com/emersion/go-message/textproto"
	"github.com/emersion/go-smtp"
	"github.com/foxcpp/maddy/framework/buffer"
	"github.com/foxcpp/maddy/framework/log"
	"github.com/foxcpp/maddy/framework/module"
	"github.com/foxcpp/maddy/internal/target/queue"
	"github.com/foxcpp/maddy/verifharness/scripted"
	"github.com/foxcpp/maddy/verifharness/vsched"
	"github.com/foxcpp/maddy/verifharness/vtrace"
)

type Cfg struct {
	Mode       string         `json:"mode"`
	Due        map[string]int `json:"due"`
	Close      bool           `json:"close"`
	Retry      []string       `json:"retry"`
	Par        int            `json:"par"`
	MaxTime    int            `json:"maxTime"`
	RetryDelay int            `json:"retryDelay"`
	// queue mode only
	Restart  bool     `json:"restart"` // after Close returned: a new Queue on the same spool directory
	Hdr      []string `json:"hdr"`
	Panic    []string `json:"panic"`    // both modes: messages whose first attempt panics inside the target
	Pid      int      `json:"pid"`      // post_init_delay (units)
	Downtime int      `json:"downtime"` // units of (fake) time between shutdown and restart     // messages whose header cannot be opened (ELOOP) from the end of attempt 1 to the restart
	// queue mode with restart (residue_test.go): what else is in the spool directory when the process comes
	// back, how often it is shut down and started again, later failing attempts and the growth of the retry delay
	Left     []string `json:"left"`     // kinds of residue planted while the process is down (see plant)
	Restarts int      `json:"restarts"` // 0/1: one restart; n: shut down and started again n times
	Retry2   []string `json:"retry2"`   // messages whose SECOND attempt fails temporarily as well
	Scale    int      `json:"scale"`    // retry_time_scale (0 = 1): attempt n+1 is due RetryDelay*Scale^(n-1) after attempt n
	// wheelobs_test.go: retry_time_scale as the rational Snum/Sden (overrides Scale), how many attempts fail
	Snum     int `json:"snum"`
	Sden     int `json:"sden"`
	FailUpTo int `json:"failUpTo"` // attempts 2..FailUpTo of the Retry2 messages fail temporarily (0 = 2)
}

type Behaviour struct {
	ID     int      `json:"id"`
	Cfg    Cfg      `json:"cfg"`
	Pol    string   `json:"pol"`
	Sched  []string `json:"sched"`
	Delays []int    `json:"delays"`
	Seed   int64    `json:"seed"`
	SelRot int      `json:"selrot"`
}

const tickDur = time.Second

type run struct {
	t        *testing.T
	b        Behaviour
	s        *vsched.Sched
	tr       *vtrace.Tracer
	t0       time.Time
	rng      *rand.Rand
	pref     string
	selCalls int
	retry    map[string]bool
	panics   map[string]bool
	steps    int
	maxStep  int
	// wheel mode
	tw       *queue.TimeWheel
	wg       sync.WaitGroup
	sem      chan struct{}
	spool    map[string]bool
	brokenM  map[string]bool
	nextName string
	// queue mode
	q     *queue.Queue
	dir   string
	count map[string]int
	hdr   map[string]bool
	broke []string
	q2    *queue.Queue
	// residue_test.go
	retry2    map[string]bool
	attempted map[string]bool         // messages attempted by the running incarnation
	saved     map[string][2][]byte    // message -> its .meta / .body as they were when Commit returned
	stop      func() bool             // the clock stands still while this holds (next shutdown is due)
	// wheelobs_test.go
	qs       []*queue.Queue  // every incarnation of the queue, in order
	seenSlot map[string]bool // wheel entries already logged
}

func (r *run) now() int { return int(time.Since(r.t0) / tickDur) }

func sorted(m map[string]bool) []string {
	out := []string{}
	for k, v := range m {
		if v {
			out = append(out, k)
		}
	}
	sort.Strings(out)
	return out
}

func (r *run) listing() (pending, broken []string) {
	if r.b.Cfg.Mode == "wheel" {
		return sorted(r.spool), sorted(r.brokenM)
	}
	pending, broken = []string{}, []string{}
	ents, _ := os.ReadDir(r.dir)
	for _, e := range ents {
		n := e.Name()
		switch {
		case strings.HasSuffix(n, ".meta"):
			pending = append(pending, strings.TrimSuffix(n, ".meta"))
		case strings.HasSuffix(n, ".meta_broken"):
			broken = append(broken, strings.TrimSuffix(n, ".meta_broken"))
		}
	}
	sort.Strings(pending)
	sort.Strings(broken)
	return
}

func msgOf(e string) string {
	if i := strings.Index(e, "."); i >= 0 {
		return e[:i]
	}
	return e
}

// attempt is the observation point "the attempt for entry e starts"; it
// returns whether the scripted outcome is a temporary failure.
func (r *run) attempt(e string) string {
	now := r.now()
	res := "ok"
	first := !strings.Contains(e, ".")
	n, delay := 1, r.b.Cfg.RetryDelay
	if !first {
		fmt.Sscan(e[strings.LastIndex(e, ".")+1:], &n)
	}
	if first && r.panics[e] {
		res = "panic"
	} else if first && r.retry[e] {
		res = "temp"
	} else if n >= 2 && n <= r.b.Cfg.failUpTo() && r.retry2[msgOf(e)] {
		res = "temp" // the retry delay grows: RetryDelay * Scale^(n-1) after the n-th failed attempt
		delay = r.b.Cfg.retryDelay(n)
	}
	if r.attempted != nil {
		r.attempted[msgOf(e)] = true
	}
	r.tr.Emit("Dispatch", vtrace.Ev{"ent": e, "m": msgOf(e), "now": now, "res": res,
		"next": fmt.Sprintf("%s.%d", msgOf(e), n+1), "ndue": now + delay, "att": n})
	return res
}

// ---------------------------------------------------------------- wheel mode

// dispatchMini mirrors (*Queue).dispatch of queue.go, yield for yield.
func (r *run) dispatchMini(slot queue.TimeSlot) {
	e := slot.Value.(string)
	vsched.Yield("wg")
	r.wg.Add(1)
	vsched.Yield("go")
	r.nextName = "w:" + e
	vsched.Go(func() {
		vsched.Send(r.sem, struct{}{})
		defer func() {
			vsched.Recv(r.sem)
			vsched.Yield("wg")
			r.wg.Done()
			if err := recover(); err != nil {
				// discardBroken: .meta -> .meta_broken
				delete(r.spool, msgOf(e))
				r.brokenM[msgOf(e)] = true
			}
		}()
		switch r.attempt(e) {
		case "temp":
			r.tw.Add(time.Now().Add(time.Duration(r.b.Cfg.RetryDelay)*tickDur), e+".2")
		case "panic":
			panic("scripted target panic")
		default:
			delete(r.spool, msgOf(e))
		}
	})
}

// ---------------------------------------------------------------- queue mode

type target struct{ r *run }
type delivery struct{}

func (t target) Start(ctx context.Context, meta *module.MsgMetadata, from string) (module.Delivery, error) {
	id := meta.ID
	if i := strings.LastIndex(id, "-"); i > 0 {
		id = id[:i]
	}
	t.r.count[id]++
	e := id
	if t.r.count[id] > 1 {
		e = fmt.Sprintf("%s.%d", id, t.r.count[id])
	}
	if g := vsched.Current(); g != nil && strings.HasPrefix(g.Name, "w?") {
		g.Name = "w:" + e
	}
	switch t.r.attempt(e) {
	case "temp":
		if t.r.hdr[id] {
			t.r.breakHeader(id)
		}
		return nil, scripted.ErrFor("temp", "Start")
	case "panic":
		panic("scripted target panic")
	}
	return delivery{}, nil
}
func (delivery) AddRcpt(context.Context, string, smtp.RcptOptions) error     { return nil }
func (delivery) Body(context.Context, textproto.Header, buffer.Buffer) error { return nil }
func (delivery) Abort(context.Context) error                                 { return nil }
func (delivery) Commit(context.Context) error                                { return nil }

// breakHeader makes ID.header unopenable (a symbolic link onto itself: ELOOP)
// without removing anything; restoreHeaders undoes it.
func (r *run) breakHeader(id string) {
	h := filepath.Join(r.dir, id+".header")
	if os.Rename(h, h+".sav") == nil {
		os.Symlink(id+".header", h)
		r.broke = append(r.broke, id)
	}
}

func (r *run) restoreHeaders() {
	for _, id := range r.broke {
		h := filepath.Join(r.dir, id+".header")
		os.Remove(h)
		os.Rename(h+".sav", h)
	}
	r.broke = nil
}

func (r *run) newQueue() (*queue.Queue, error) {
	c := r.b.Cfg
	// (VerifNewQueue = VerifPrepare + VerifStart; the handle is needed while the start-up scan still runs)
	q, err := queue.VerifPrepare(queue.VerifConfig{
		Location: r.dir, Target: target{r}, MaxTries: 5, MaxParallelism: c.Par,
		InitialRetryTime: time.Duration(c.RetryDelay) * tickDur, RetryTimeScale: c.scaleF(),
		PostInitDelay: time.Duration(c.Pid) * tickDur,
		Hostname:      "mx.example.org", AutogenMsgDomain: "example.org",
		Log: log.Logger{Out: log.NopOutput{}},
	})
	if err != nil {
		return nil, err
	}
	r.track(q)
	if err := q.VerifStart(c.Par); err != nil {
		return nil, err
	}
	return q, nil
}

// restart: a new Queue on the same spool directory (readDiskQueue re-schedules
// what is pending), driven to quiescence with the clock running on.
func (r *run) restart() {
	r.q2 = r.q                              // (a restart is under way: the clock runs freely again)
	for i := 0; i < r.b.Cfg.Downtime; i++ { // the process is down: only the clock moves
		r.clock()
	}
	r.restoreHeaders()
	n := max(r.b.Cfg.Restarts, 1)
	for k := 1; k <= n; k++ {
		left := r.plant()
		r.pollWheel()
		r.tr.Emit("Restart", vtrace.Ev{"now": r.now(), "pid": r.b.Cfg.Pid, "left": left})
		r.nextName = fmt.Sprintf("tick%d", k+1)
		r.attempted = map[string]bool{}
		r.s.Spawn(fmt.Sprintf("restart%d", k), func() {
			q, err := r.newQueue()
			if err != nil {
				panic(err)
			}
			r.q2 = q
		})
		r.b.Sched, r.b.Delays, r.b.Pol = nil, nil, "db"
		if k == n {
			r.loop()
			return
		}
		// not the last incarnation: it runs until everything it found pending has been attempted once,
		// then it is shut down (while later retries are still waiting) and the process stays down again
		r.stop = func() bool {
			pe, _ := r.listing()
			for _, m := range pe {
				if !r.attempted[m] {
					return false
				}
			}
			return true
		}
		r.loop()
		r.s.Settle()
		r.stop = nil
		q := r.q2
		r.s.Spawn(fmt.Sprintf("closer%d", k+1), func() {
			r.tr.Emit("CloseCall", nil)
			q.Close()
			pe, br := r.listing()
			r.tr.Emit("CloseReturn", vtrace.Ev{"pending": pe, "broken": br})
		})
		r.loop()
		r.s.Settle()
		for i := 0; i < r.b.Cfg.Downtime; i++ {
			r.clock()
		}
	}
}

// ---------------------------------------------------------------- set-up

func (r *run) setup() {
	c := r.b.Cfg
	r.retry = map[string]bool{}
	for _, p := range c.Retry {
		r.retry[p] = true
	}
	r.retry2 = map[string]bool{}
	for _, p := range c.Retry2 {
		r.retry2[p] = true
	}
	r.saved = map[string][2][]byte{}
	r.panics = map[string]bool{}
	for _, p := range c.Panic {
		r.panics[p] = true
	}
	r.s = vsched.New()
	nWorkers := 0
	r.s.OnSpawn = func(g *vsched.G) {
		if g.ID != 0 && g.Name[0] != 'a' {
			return // named by the harness
		}
		switch {
		case g.ID == 0:
			g.Name = "tick"
		case r.nextName != "" && g.Name[0] == 'a':
			g.Name, r.nextName = r.nextName, ""
		default:
			nWorkers++
			g.Name = fmt.Sprintf("w?%d", nWorkers)
		}
	}
	r.s.OnPanic = func(g *vsched.G, v interface{}, stack string) {
		r.tr.Emit("Panic", vtrace.Ev{"g": g.Name, "msg": fmt.Sprint(v)})
	}
	r.s.SelOrder = r.selOrder
	producers := make([]string, 0, len(c.Due))
	for p := range c.Due {
		producers = append(producers, p)
	}
	sort.Strings(producers)

	if c.Mode == "wheel" {
		r.sem = make(chan struct{}, c.Par)
		r.spool, r.brokenM = map[string]bool{}, map[string]bool{}
		r.tw = queue.NewTimeWheel(r.dispatchMini)
		r.s.Settle()
		for _, p := range producers {
			p, due := p, c.Due[p]
			r.s.Spawn(p, func() {
				r.spool[p] = true // Start/AddRcpt/Body: the message is stored
				vsched.Yield("op")
				r.tr.Emit("AddCall", vtrace.Ev{"p": p, "ent": p, "due": due})
				defer func() {
					if v := recover(); v != nil {
						r.tr.Emit("AddPanic", vtrace.Ev{"p": p, "msg": fmt.Sprint(v)})
					}
				}()
				r.tw.Add(r.t0.Add(time.Duration(due)*tickDur), p)
				r.tr.Emit("AddReturn", vtrace.Ev{"p": p})
			})
		}
		if c.Close {
			r.s.Spawn("closer", func() {
				r.tr.Emit("CloseCall", nil)
				r.tw.Close()
				vsched.WgWait(r.wg.Wait, r.wg.Done)
				pe, br := r.listing()
				r.tr.Emit("CloseReturn", vtrace.Ev{"pending": pe, "broken": br})
			})
		}
		return
	}

	r.count = map[string]int{}
	r.hdr = map[string]bool{}
	for _, m := range c.Hdr {
		r.hdr[m] = true
	}
	q, err := r.newQueue()
	if err != nil {
		r.t.Fatal(err)
	}
	r.q = q
	r.s.Settle()
	for _, p := range producers {
		p := p
		r.s.Spawn(p, func() {
			ctx := context.Background()
			meta := &module.MsgMetadata{ID: p, OriginalFrom: "s@example.com", SMTPOpts: smtp.MailOptions{}}
			d, err := q.Start(ctx, meta, "s@example.com")
			if err != nil {
				panic(err)
			}
			if err := d.AddRcpt(ctx, "r@example.org", smtp.RcptOptions{}); err != nil {
				panic(err)
			}
			hdr := textproto.Header{}
			hdr.Add("Subject", "verif")
			if err := d.Body(ctx, hdr, buffer.MemoryBuffer{Slice: []byte("hello\r\n")}); err != nil {
				panic(err)
			}
			vsched.Yield("op") // Body returned; Commit is a later step of the client
			r.tr.Emit("AddCall", vtrace.Ev{"p": p, "ent": p, "due": 0})
			defer func() {
				if v := recover(); v != nil {
					r.tr.Emit("AddPanic", vtrace.Ev{"p": p, "msg": fmt.Sprint(v)})
				}
			}()
			r.save(p) // (no scheduling point since Body returned: the files are as Body left them)
			if err := d.Commit(ctx); err != nil {
				panic(err)
			}
			r.tr.Emit("AddReturn", vtrace.Ev{"p": p})
		})
	}
	if c.Close {
		r.s.Spawn("closer", func() {
			r.tr.Emit("CloseCall", nil)
			q.Close()
			pe, br := r.listing()
			r.tr.Emit("CloseReturn", vtrace.Ev{"pending": pe, "broken": br})
		})
	}
}

// ---------------------------------------------------------------- scheduling

func perm(first, n int) []int {
	o := []int{first}
	for i := 0; i < n; i++ {
		if i != first {
			o = append(o, i)
		}
	}
	return o
}

func (r *run) selOrder(g *vsched.G, n int) []int {
	switch r.pref {
	case "T":
		return perm(0, n)
	case "U":
		if n == 3 {
			return perm(1, n)
		}
		return perm(0, n)
	case "S":
		return perm(n-1, n)
	}
	if r.b.Pol == "rand" {
		return r.rng.Perm(n)
	}
	// rotate the starting case from call to call: a select that is polled in a
	// loop must not be starved by a permanently ready case (Go's select is fair)
	r.selCalls++
	o := make([]int, n)
	for i := range o {
		o[i] = (i + r.b.SelRot + r.selCalls) % n
	}
	return o
}

func (r *run) cap() int {
	c := r.b.Cfg
	sn, sd := c.scaleQ()
	d := 0 // every delay that can be waited for, with the factor rounded up (a tree that does not truncate it)
	for n := 1; n <= c.failUpTo(); n++ {
		d += c.RetryDelay * ((ipow(sn, n-1) + ipow(sd, n-1) - 1) / ipow(sd, n-1))
	}
	return 2*c.MaxTime + d + 2 + (c.Downtime+c.Pid+1)*max(c.Restarts, 1)
}

// clockOK: the clock runs freely up to MaxTime; beyond it only while nothing
// else can run and something is still unfinished (to let pending timers fire).
func (r *run) clockOK(runnable int) bool {
	if r.stop != nil && r.stop() {
		return false
	}
	if c := r.b.Cfg; c.Restart && c.Mode == "queue" && r.q2 == nil && runnable == 0 {
		// shut down and quiet: the restart comes now, not after the clock ran out
		if g := r.s.ByName("closer"); g != nil && g.State() == vsched.Done {
			return false
		}
	}
	if r.now() < r.b.Cfg.MaxTime {
		return true
	}
	if runnable > 0 || r.now() >= r.cap() {
		return false
	}
	for _, g := range r.s.Unfinished() {
		if g.Name != "tick" || !r.b.Cfg.Close {
			return true
		}
	}
	return false
}

func (r *run) clock() {
	r.s.Sleep(tickDur)
	r.tr.Emit("Clock", vtrace.Ev{"now": r.now()})
	r.pollWheel()
}

func (r *run) find(name string) *vsched.G {
	if g := r.s.ByName(name); g != nil {
		return g
	}
	if strings.HasPrefix(name, "w:") { // a worker that has not shown its entry yet
		for _, g := range r.s.Runnable() {
			if strings.HasPrefix(g.Name, "w?") {
				return g
			}
		}
	}
	return nil
}

// tasks: runnable goroutines in id order, then the clock (nil)
type task struct {
	g     *vsched.G
	clock bool
}

func (r *run) tasks() []task {
	var out []task
	rs := r.s.Runnable()
	for _, g := range rs {
		out = append(out, task{g: g})
	}
	if r.clockOK(len(rs)) {
		out = append(out, task{clock: true})
	}
	return out
}

func (r *run) exec(t task) {
	r.steps++
	if t.clock {
		r.clock()
		return
	}
	r.stepG(t.g)
}

// stepG releases g for one step. The choice is logged ("Step") as a hint for
// the conformance search of TimeWheelTrace; the property predicates ignore it.
func (r *run) stepG(g *vsched.G) bool {
	if g.State() != vsched.Parked {
		return false
	}
	k, n := "w?", ""
	switch {
	case g.Name == "tick":
		k = "t"
	case g.Name == "closer":
		k = "c"
	case strings.HasPrefix(g.Name, "w:"):
		k, n = "w", g.Name[2:]
	case strings.HasPrefix(g.Name, "w?"):
	default:
		k, n = "a", g.Name
	}
	r.pollWheel()
	r.tr.Emit("Step", vtrace.Ev{"k": k, "n": n, "at": g.Kind()})
	ok := r.s.Step(g)
	r.pollWheel()
	return ok
}

func key(t task) int {
	if t.clock {
		return 1 << 30
	}
	return t.g.ID
}

func (r *run) loop() {
	b := r.b
	// explicit prefix
	for _, ent := range b.Sched {
		name, pref := ent, ""
		if i := strings.Index(ent, "/"); i >= 0 {
			name, pref = ent[:i], ent[i+1:]
		}
		r.pref = pref
		if name == "clock" {
			if r.now() < r.cap() {
				r.steps++
				r.clock()
			}
		} else if g := r.find(name); g != nil {
			if r.stepG(g) {
				r.steps++
			}
		}
		r.pref = ""
	}
	delay := map[int]bool{}
	for _, d := range b.Delays {
		delay[d] = true
	}
	cur := -1 // key of the task that ran last (non-preemptive round robin)
	spin := 0
	n := 0
	for r.steps < r.maxStep {
		ts := r.tasks()
		if len(ts) == 0 {
			return
		}
		var pick task
		if b.Pol == "rand" {
			pick = ts[r.rng.Intn(len(ts))]
		} else {
			i := 0
			for i < len(ts) && key(ts[i]) < cur {
				i++
			}
			if i == len(ts) {
				i = 0
			}
			if delay[n] {
				i = (i + 1) % len(ts)
			}
			pick = ts[i]
		}
		n++
		cur = key(pick)
		r.exec(pick)
		if !pick.clock && pick.g.State() == vsched.Parked && pick.g.Kind() == "lockwait" {
			spin++
			cur++ // move on: the lock holder has to run
			if spin > 4*len(ts)+8 {
				return
			}
		} else {
			spin = 0
		}
	}
}

func runBehaviour(t *testing.T, b Behaviour, w *bufio.Writer) {
	dir, err := os.MkdirTemp(workDir(), "spool")
	if err != nil {
		t.Fatal(err)
	}
	defer os.RemoveAll(dir)
	synctest.Test(t, func(t *testing.T) {
		r := &run{t: t, b: b, dir: dir, t0: time.Now(), rng: rand.New(rand.NewSource(b.Seed)), maxStep: 2000}
		r.tr = vtrace.New(w, b.ID)
		c := b.Cfg
		sn, sd := c.scaleQ()
		r.tr.Emit("Cfg", vtrace.Ev{"mode": c.Mode, "due": c.Due, "close": c.Close, "retry": append([]string{}, c.Retry...),
			"par": c.Par, "maxTime": c.MaxTime, "retryDelay": c.RetryDelay, "restart": c.Restart,
			"hdr": append([]string{}, c.Hdr...), "panic": append([]string{}, c.Panic...), "pid": c.Pid,
			"downtime": c.Downtime, "left": append([]string{}, c.Left...), "restarts": c.Restarts,
			"retry2": append([]string{}, c.Retry2...), "scale": max(c.Scale, 1), "rd": c.RetryDelay,
			"snum": sn, "sden": sd, "failUpTo": c.failUpTo()})
		r.setup()
		r.loop()
		r.s.Settle()
		if c.Restart && c.Mode == "queue" && c.Close {
			if g := r.s.ByName("closer"); g != nil && g.State() == vsched.Done && len(r.s.Runnable()) == 0 {
				r.restart()
				r.s.Settle()
			}
		}
		hung := []string{}
		for _, g := range r.s.Unfinished() {
			if !strings.HasPrefix(g.Name, "tick") {
				hung = append(hung, g.Name)
			}
		}
		sort.Strings(hung)
		pe, br := r.listing()
		r.pollWheel()
		r.tr.Emit("End", vtrace.Ev{"hung": hung, "now": r.now(), "pending": pe, "broken": br,
			"steps": r.steps, "state": append([]string{}, r.s.Describe()...), "budget": r.steps >= r.maxStep})
		if stuck := r.s.Shutdown(); len(stuck) > 0 {
			// blocked in code the scheduler cannot abort: the bubble can never end. The trace
			// is complete (End lists the hung calls); the driver restarts us on the rest.
			w.Flush()
			fmt.Fprintf(os.Stderr, "behaviour %d: goroutines that cannot be freed: %v\n", b.ID, stuck)
			os.Exit(3)
		}
	})
}

func workDir() string {
	if d := os.Getenv("VERIF_TMP"); d != "" {
		return d
	}
	return filepath.Join(os.TempDir())
}

func TestReplay(t *testing.T) {
	in, out := os.Getenv("VERIF_IN"), os.Getenv("VERIF_OUT")
	if in == "" || out == "" {
		t.Skip("VERIF_IN / VERIF_OUT not set")
	}
	log.DefaultLogger.Out = log.NopOutput{}
	f, err := os.Open(in)
	if err != nil {
		t.Fatal(err)
	}
	defer f.Close()
	of, err := os.Create(out)
	if err != nil {
		t.Fatal(err)
	}
	defer of.Close()
	w := bufio.NewWriter(of)
	defer w.Flush()
	sc := bufio.NewScanner(f)
	sc.Buffer(make([]byte, 1<<20), 1<<26)
	n := 0
	for sc.Scan() {
		var b Behaviour
		if err := json.Unmarshal(sc.Bytes(), &b); err != nil {
			t.Fatalf("bad behaviour line: %v", err)
		}
		runBehaviour(t, b, w)
		n++
	}
	t.Logf("replayed %d behaviours", n)
}
