package twcheck

import (
	"fmt"
	"time"

	"github.com/foxcpp/maddy/internal/target/queue"
	"github.com/foxcpp/maddy/verifharness/vtrace"
)

// The time a retry is scheduled for is not an input of the harness but an observation: after every step of the
// controller the wheel of every Queue of this run (the running incarnation, and the ones shut down before it)
// is read through queue.VerifWheelSlots and each entry not seen before is logged as
//
//	WheelAdd {ent, m, due}   the queue handed entry `ent` of message m to its wheel with time `due`
//	                         (ticks since the start of the run, rounded up: "not before" for whole-tick clocks)
//
// (spec/TimeWheelObs.tla: ObsWheel).  Together with a shutdown and a restart while the retry is waiting this
// binds the two places that compute a retry time - tryDelivery when it schedules, readDiskQueue when it
// re-reads the spool - to each other: the restarted process must not dispatch before the time the running
// one had scheduled.  retry_time_scale is a rational Snum/Sden (1.5 = 3/2, the default 1.25 = 5/4) with
// RetryDelay a multiple of Sden^(attempts-1), so that fractional powers are in play and every delay of the
// documented formula is still a whole number of ticks.

func (c Cfg) scaleQ() (int, int) {
	if c.Snum > 0 && c.Sden > 0 {
		return c.Snum, c.Sden
	}
	return max(c.Scale, 1), 1
}

func (c Cfg) scaleF() float64 {
	n, d := c.scaleQ()
	return float64(n) / float64(d)
}

func ipow(b, x int) int {
	out := 1
	for ; x > 0; x-- {
		out *= b
	}
	return out
}

// retryDelay: lower bound of the delay after the n-th failed attempt, RetryDelay * floor(scale^(n-1))
// (the same expression as RetryDue of spec/TimeWheelTrace.tla, which is what decides; this value only
// goes into the informative field ndue and into the clock's horizon)
func (c Cfg) retryDelay(n int) int {
	sn, sd := c.scaleQ()
	return c.RetryDelay * (ipow(sn, n-1) / ipow(sd, n-1))
}

// failUpTo: attempts 2..failUpTo of the messages in Retry2 fail temporarily
func (c Cfg) failUpTo() int { return max(c.FailUpTo, 2) }

func (r *run) track(q *queue.Queue) { r.qs = append(r.qs, q) }

func (r *run) pollWheel() {
	if r.b.Cfg.Mode != "queue" {
		return
	}
	if r.seenSlot == nil {
		r.seenSlot = map[string]bool{}
	}
	for qi, q := range r.qs {
		for _, s := range q.VerifWheelSlots() {
			if s.Time.IsZero() { // Commit: "as soon as possible"
				continue
			}
			key := fmt.Sprintf("%d/%s/%d", qi, s.ID, s.Time.UnixNano())
			if r.seenSlot[key] {
				continue
			}
			r.seenSlot[key] = true
			d := s.Time.Sub(r.t0)
			if d < 0 {
				continue
			}
			due := int((d + tickDur - 1) / tickDur)
			if due >= 1000000 { // (NoDue of the Obs module)
				continue
			}
			ent := s.ID
			if n := r.count[s.ID]; n > 0 { // n attempts were started: this is the (n+1)-th
				ent = fmt.Sprintf("%s.%d", s.ID, n+1)
			}
			r.tr.Emit("WheelAdd", vtrace.Ev{"ent": ent, "m": s.ID, "due": due, "inc": qi + 1,
				"exact": d.String()})
		}
	}
}

var _ = time.Second
