package twcheck

import (
	"os"
	"path/filepath"
	"sort"
)

// Residue in the spool directory at start-up (Cfg.Left).  A restart does not only find what a graceful
// shutdown wrote: crashes of earlier incarnations and operators leave files behind.  Every kind below is
// something the queue's own file operations produce when the process dies between two of them
// (storeNewMessage, updateMetadataOnDisk, removeFromDisk), or a stray file next to the spool files; none
// of them is a message that was committed and has no outcome yet, so the scheduler's obligations
// (TimeWheelObs: one dispatch per pending entry, not early, nothing lost) are unchanged by them.  The
// design (TimeWheel.tla) does not depend on this dimension: it is data for the restart, the predicates
// evaluated by TLC over the recorded history are the same.
//
//	metanew       ID.meta.new, complete copy of ID.meta      (death between Sync and Rename in updateMetadataOnDisk)
//	metanew_torn  ID.meta.new, first half of ID.meta         (death inside the write)
//	metanew_empty ID.meta.new, empty                         (death right after Create)
//	foreign       ID.meta.bak, ID.meta~, .ID.meta.swp, a directory ID.meta.d   (copies made by an operator / editor)
//	rm_partial    for a message that HAS its outcome: ID.meta + ID.body, header gone (death inside removeFromDisk)
//	store_partial zz1.header + zz1.body, zz2.header for ids that never got a .meta (death inside storeNewMessage)
//
// for every message pending at that moment (metanew*, foreign) / delivered before (rm_partial).

func (r *run) save(id string) {
	m, err1 := os.ReadFile(filepath.Join(r.dir, id+".meta"))
	b, err2 := os.ReadFile(filepath.Join(r.dir, id+".body"))
	if err1 == nil && err2 == nil {
		r.saved[id] = [2][]byte{m, b}
	}
}

func (r *run) plant() []string {
	if len(r.b.Cfg.Left) == 0 {
		return []string{}
	}
	pending, broken := r.listing()
	gone := map[string]bool{}
	for id := range r.saved {
		gone[id] = true
	}
	for _, id := range append(append([]string{}, pending...), broken...) {
		delete(gone, id)
	}
	w := func(name string, data []byte) { os.WriteFile(filepath.Join(r.dir, name), data, 0o600) }
	done := []string{}
	for _, kind := range r.b.Cfg.Left {
		for _, id := range pending {
			meta, err := os.ReadFile(filepath.Join(r.dir, id+".meta"))
			if err != nil {
				continue
			}
			switch kind {
			case "metanew":
				w(id+".meta.new", meta)
			case "metanew_torn":
				w(id+".meta.new", meta[:len(meta)/2])
			case "metanew_empty":
				w(id+".meta.new", nil)
			case "foreign":
				w(id+".meta.bak", meta)
				w(id+".meta~", meta)
				w("."+id+".meta.swp", meta)
				os.Mkdir(filepath.Join(r.dir, id+".meta.d"), 0o700)
			}
		}
		switch kind {
		case "rm_partial":
			ids := []string{}
			for id := range gone {
				ids = append(ids, id)
			}
			sort.Strings(ids)
			for _, id := range ids {
				w(id+".meta", r.saved[id][0])
				w(id+".body", r.saved[id][1])
			}
		case "store_partial":
			w("zz1.header", []byte("Subject: verif\r\n\r\n"))
			w("zz1.body", []byte("hello\r\n"))
			w("zz2.header", []byte("Subject: ver"))
		}
		done = append(done, kind)
	}
	return done
}
