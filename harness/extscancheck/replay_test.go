// Package extscancheck runs the rows of spec/ExtScanMilter.tla and
// spec/ExtScanRspamd.tla (printed by TLC) through the real check.milter and
// check.rspamd modules of maddy and records what they did.
//
// For every row the module is configured from configuration text inside a real
// message pipeline (internal/msgpipeline; the modules are the registered ones,
// nothing is replaced or injected), and one message is sent through the
// pipeline the way internal/endpoint/smtp does it: Start (connection + sender
// stage), AddRcpt per recipient, Body, Commit - or Abort after a refusal - to a
// recording target.
//
//   - sub "milter": the endpoint of the module is a scripted milter server
//     (milter_srv_test.go: the wire protocol of milter-protocol.txt, constants of
//     github.com/emersion/go-milter) that answers every protocol step with the
//     row's script and records every packet the client sent; table "libsrv" uses
//     the server side of github.com/emersion/go-milter itself.
//   - sub "rspamd": api_path points to a scripted HTTP server that records the
//     request and answers with the row's response.
//
// Input  (VERIF_IN):  {"id":N,"in":{...row...}}
// Output (VERIF_OUT): {"t":id,"seq":1,"e":"Begin"} (written before the row runs)
//
//	{"t":id,"seq":2,"e":"Row","in":...,"out":{...}}
package extscancheck

import (
	"bufio"
	"bytes"
	"context"
	"crypto/tls"
	"encoding/json"
	"errors"
	"fmt"
	"io"
	"net"
	"os"
	"path/filepath"
	"strings"
	"sync"
	"syscall"
	"testing"
	"time"

	"github.com/emersion/go-message/textproto"
	"github.com/emersion/go-smtp"
	"github.com/foxcpp/maddy/framework/buffer"
	parser "github.com/foxcpp/maddy/framework/cfgparser"
	"github.com/foxcpp/maddy/framework/config"
	"github.com/foxcpp/maddy/framework/exterrors"
	"github.com/foxcpp/maddy/framework/future"
	"github.com/foxcpp/maddy/framework/log"
	"github.com/foxcpp/maddy/framework/module"
	_ "github.com/foxcpp/maddy/internal/check/milter"
	_ "github.com/foxcpp/maddy/internal/check/rspamd"
	"github.com/foxcpp/maddy/internal/msgpipeline"
)

// ---- rows ---------------------------------------------------------------------

type Ans struct {
	K    string `json:"k"`
	Code int    `json:"code"`
	Text string `json:"text"`
}

type Mod struct {
	K   string `json:"k"`
	A   string `json:"a"`
	B   string `json:"b"`
	Idx int    `json:"idx"`
}

type Script struct {
	Conn Ans   `json:"conn"`
	Helo Ans   `json:"helo"`
	Mail Ans   `json:"mail"`
	Rcpt []Ans `json:"rcpt"`
	Hdr  []Ans `json:"hdr"`
	Eoh  Ans   `json:"eoh"`
	Body []Ans `json:"body"`
	Mods []Mod `json:"mods"`
	Fin  Ans   `json:"fin"`
}

type Conn struct {
	Kind string `json:"kind"` // tcp4 | mapped | tcp6 | unix | nil | other
	Addr string `json:"addr"` // textual address of the client as the socket reports it
	Port int    `json:"port"`
	Helo string `json:"helo"`
	Auth string `json:"auth"`
	TLS  string `json:"tls"`  // none | 1.0 | 1.1 | 1.2 | 1.3
	Rdns string `json:"rdns"` // nil (lookup not applicable) | none | fail | the name
}

type Field struct {
	N string `json:"n"`
	V string `json:"v"`
}

type Act struct {
	Given bool   `json:"given"`
	Act   string `json:"act"` // ignore | quarantine | reject
	Code  int    `json:"code"`
	Ench  string `json:"ench"`
	Msg   string `json:"msg"`
}

type Resp struct {
	K      string `json:"k"` // json | status | badjson | empty | refused | drop | noaction-field
	Status int    `json:"status"`
	Action string `json:"action"`
	Milli  int    `json:"milli"` // score in 1/1000
}

type In struct {
	Sub   string   `json:"sub"`
	Tab   string   `json:"tab"`
	MsgID string   `json:"msgid"`
	Conn  Conn     `json:"conn"`
	UTF8  bool     `json:"utf8"`
	From  string   `json:"from"`
	Rcpts []string `json:"rcpts"`
	Hdr   []Field  `json:"hdr"`
	Body  string   `json:"body"`  // small | empty | big | unreadable
	Place string   `json:"place"` // global | source | destination

	// milter
	Fo     string   `json:"fo"`   // absent | yes | no
	Srv    string   `json:"srv"`  // up | down | negdrop | negbad | lib
	Net    string   `json:"net"`  // tcp | unix
	Form   string   `json:"form"` // inline | directive
	Ver    int      `json:"ver"`
	Proto  []string `json:"proto"`
	Script Script   `json:"script"`

	// rspamd
	Io       Act      `json:"io"`
	ErrResp  Act      `json:"errresp"`
	AddHdr   Act      `json:"addhdr"`
	Rewrite  Act      `json:"rewrite"`
	Tag      string   `json:"tag"`      // "absent" or the value
	Settings string   `json:"settings"` // "absent" or the value
	Hostname string   `json:"hostname"` // "absent" (global directive applies) or the value
	Flags    []string `json:"flags"`    // empty = absent
	Resp     Resp     `json:"resp"`
}

type Row struct {
	ID int `json:"id"`
	In In  `json:"in"`
}

// ---- results ------------------------------------------------------------------

// R is the answer of one pipeline command.
type R struct {
	K    string `json:"k"`    // ok | rej | n/a
	Code int    `json:"code"` // SMTP code annotated on the error (0 = none)
	Enhc int    `json:"enchc"` // class (first number) of the annotated enhanced code
	Ench string `json:"ench"` // enhanced code annotated on the error ("" = none)
	Temp bool   `json:"temp"` // exterrors.IsTemporary
	Msg  string `json:"msg"`  // text annotated on the error
	Err  string `json:"err"`  // err.Error(), informational
}

type Seen struct {
	C string   `json:"c"`
	A []string `json:"a"`
}

type Out struct {
	Start      R        `json:"start"`
	Rcpt       []R      `json:"rcpt"`
	Body       R        `json:"body"`
	Delivered  bool     `json:"delivered"`
	Quarantine bool     `json:"quarantine"`
	Added      []string `json:"added"`
	Intact     bool     `json:"intact"` // the original header fields reached the target unchanged, below the added ones
	Seen       []Seen   `json:"seen"`   // milter: packets of the client; rspamd: request line, documented header fields
	Conns      int      `json:"conns"`  // connections (milter) / requests (rspamd) the scripted server accepted
	Closed     bool     `json:"closed"` // every accepted connection was ended by the client (QUIT or EOF) or by the script
	Panics     int      `json:"panics"` // "panic during check execution" lines of the check runner
	Wall       int      `json:"wallms"`
	Cfg        string   `json:"cfg"`
	Log        []string `json:"log"`
	Note       string   `json:"note"`
}

func na() R { return R{K: "n/a"} }
func ok() R { return R{K: "ok"} }

func classify(err error) R {
	if err == nil {
		return ok()
	}
	r := R{K: "rej", Err: err.Error(), Temp: exterrors.IsTemporary(err)}
	// the annotations internal/endpoint/smtp (wrapErr) builds its reply from
	f := exterrors.Fields(err)
	if c, ok := f["smtp_code"].(int); ok {
		r.Code = c
	}
	if e, ok := f["smtp_enchcode"].(exterrors.EnhancedCode); ok {
		r.Ench = fmt.Sprintf("%d.%d.%d", e[0], e[1], e[2])
		r.Enhc = e[0]
	}
	if m, ok := f["smtp_msg"].(string); ok {
		r.Msg = m
	}
	return r
}

// ---- recording target ------------------------------------------------------------

type seenMsg struct {
	body, committed bool
	quarantine      bool
	fields          []string
}

type tgt struct {
	mu   sync.Mutex
	msgs map[*module.MsgMetadata]*seenMsg
}

func (t *tgt) Init(*config.Map) error { return nil }
func (t *tgt) Name() string           { return "x07target" }
func (t *tgt) InstanceName() string   { return "x07target" }
func (t *tgt) get(m *module.MsgMetadata) *seenMsg {
	t.mu.Lock()
	defer t.mu.Unlock()
	s := t.msgs[m]
	if s == nil {
		s = &seenMsg{}
		t.msgs[m] = s
	}
	return s
}
func (t *tgt) take(m *module.MsgMetadata) *seenMsg {
	t.mu.Lock()
	defer t.mu.Unlock()
	s := t.msgs[m]
	delete(t.msgs, m)
	return s
}
func (t *tgt) Start(_ context.Context, m *module.MsgMetadata, _ string) (module.Delivery, error) {
	return &tgtDelivery{t: t, m: m}, nil
}

type tgtDelivery struct {
	t *tgt
	m *module.MsgMetadata
}

func (d *tgtDelivery) AddRcpt(context.Context, string, smtp.RcptOptions) error { return nil }
func (d *tgtDelivery) Body(_ context.Context, h textproto.Header, _ buffer.Buffer) error {
	s := d.t.get(d.m)
	s.body = true
	s.quarantine = d.m.Quarantine
	for f := h.Fields(); f.Next(); {
		raw, err := f.Raw()
		if err != nil {
			raw = []byte(f.Key() + ": " + f.Value() + "\r\n")
		}
		s.fields = append(s.fields, string(raw))
	}
	return nil
}
func (d *tgtDelivery) Abort(context.Context) error { return nil }
func (d *tgtDelivery) Commit(context.Context) error {
	s := d.t.get(d.m)
	s.committed = true
	s.quarantine = s.quarantine || d.m.Quarantine
	return nil
}

// ---- log capture -----------------------------------------------------------------------

type logCap struct {
	mu    sync.Mutex
	lines []string
}

func (l *logCap) Write(_ time.Time, debug bool, msg string) {
	if debug {
		return
	}
	l.mu.Lock()
	if len(msg) > 400 {
		msg = msg[:400]
	}
	l.lines = append(l.lines, msg)
	l.mu.Unlock()
}
func (l *logCap) Close() error { return nil }
func (l *logCap) take() []string {
	l.mu.Lock()
	defer l.mu.Unlock()
	r := l.lines
	l.lines = nil
	return r
}

// ---- the world ---------------------------------------------------------------------------

var (
	theTgt  = &tgt{msgs: map[*module.MsgMetadata]*seenMsg{}}
	theLog  = &logCap{}
	regOnce sync.Once
	tmpDir  string
)

func register() {
	regOnce.Do(func() {
		log.DefaultLogger.Out = theLog
		module.RegisterInstance(theTgt, nil)
		tmpDir = os.Getenv("VERIF_TMP")
		if tmpDir == "" {
			tmpDir = os.TempDir()
		}
	})
}

const bigLen = 65535 + 4465 // two body chunks

func bodyBytes(kind string) []byte {
	switch kind {
	case "empty":
		return []byte{}
	case "big":
		b := make([]byte, 0, bigLen)
		line := []byte("0123456789abcdefghijklmnopqrstuvwxyzABCDEFGHIJKLMNOPQRSTUVWXYZ-verif-x07\r\n")
		for len(b) < bigLen {
			b = append(b, line...)
		}
		return b[:bigLen]
	default:
		return []byte("hello\r\n")
	}
}

// badBuffer is a message body the server cannot open (a local I/O error).
type badBuffer struct{}

func (badBuffer) Open() (io.ReadCloser, error) { return nil, errors.New("verif: body buffer unreadable") }
func (badBuffer) Len() int                     { return 7 }
func (badBuffer) Remove() error                { return nil }

// placed wraps the check block of a row into the block the row names.
func placed(in In, check string) string {
	tgt := "deliver_to &x07target\n"
	ind := func(s string) string {
		return "    " + strings.ReplaceAll(strings.TrimRight(s, "\n"), "\n", "\n    ") + "\n"
	}
	switch in.Place {
	case "source":
		return "source sender.test {\n" + ind(check+tgt) + "}\ndefault_source {\n    reject\n}\n"
	case "destination":
		return "destination rcpt.test {\n" + ind(check+tgt) + "}\ndefault_destination {\n    reject\n}\n"
	}
	return check + tgt
}

func headerOf(in In) (textproto.Header, string) {
	var b strings.Builder
	for _, f := range in.Hdr {
		b.WriteString(f.N + ": " + f.V + "\r\n")
	}
	b.WriteString("\r\n")
	h, err := textproto.ReadHeader(bufio.NewReader(strings.NewReader(b.String())))
	if err != nil {
		panic(err)
	}
	return h, b.String()
}

var tlsVersions = map[string]uint16{"1.0": tls.VersionTLS10, "1.1": tls.VersionTLS11, "1.2": tls.VersionTLS12, "1.3": tls.VersionTLS13}

type otherAddr struct{}

func (otherAddr) Network() string { return "verif" }
func (otherAddr) String() string  { return "verif-addr" }

func connState(in In) *module.ConnState {
	c := in.Conn
	if c.Kind == "nil" {
		return nil
	}
	cs := &module.ConnState{Proto: "ESMTP", Hostname: c.Helo, AuthUser: c.Auth,
		LocalAddr: &net.TCPAddr{IP: net.IPv4(198, 51, 100, 1), Port: 25}}
	switch c.Kind {
	case "tcp4":
		cs.RemoteAddr = &net.TCPAddr{IP: net.ParseIP(c.Addr).To4(), Port: c.Port}
	case "mapped":
		cs.RemoteAddr = &net.TCPAddr{IP: net.ParseIP(c.Addr).To16(), Port: c.Port} // ::ffff:a.b.c.d
	case "tcp6":
		cs.RemoteAddr = &net.TCPAddr{IP: net.ParseIP(c.Addr), Port: c.Port}
	case "unix":
		cs.RemoteAddr = &net.UnixAddr{Name: c.Addr, Net: "unix"}
	default:
		cs.RemoteAddr = otherAddr{}
	}
	if v, ok := tlsVersions[c.TLS]; ok {
		cs.TLS = tls.ConnectionState{HandshakeComplete: true, Version: v, CipherSuite: tls.TLS_AES_128_GCM_SHA256}
		if c.TLS != "1.3" {
			cs.TLS.CipherSuite = tls.TLS_ECDHE_RSA_WITH_AES_128_GCM_SHA256
		}
	}
	switch c.Rdns {
	case "nil": // "the reverse DNS lookup is not applicable for that message source"
	case "none": // as endpoint/smtp: no PTR record
		cs.RDNSName = future.New()
		cs.RDNSName.Set(nil, nil)
	case "fail": // as endpoint/smtp: lookup failed
		cs.RDNSName = future.New()
		cs.RDNSName.Set(nil, fmt.Errorf("verif: lookup failed"))
	default:
		cs.RDNSName = future.New()
		cs.RDNSName.Set(c.Rdns, nil)
	}
	return cs
}

// sendMsg sends the row's message through the pipeline like a SMTP session would.
func sendMsg(t *testing.T, r Row, pipe *msgpipeline.MsgPipeline, o *Out) {
	in := r.In
	ctx := context.Background()
	meta := &module.MsgMetadata{ID: in.MsgID, Conn: connState(in), SMTPOpts: smtp.MailOptions{UTF8: in.UTF8}, OriginalFrom: in.From}
	o.Start, o.Body = na(), na()
	o.Rcpt = []R{}
	for range in.Rcpts {
		o.Rcpt = append(o.Rcpt, na())
	}
	d, err := pipe.Start(ctx, meta, in.From)
	o.Start = classify(err)
	if err != nil {
		return
	}
	accepted := 0
	for i, rc := range in.Rcpts {
		err := d.AddRcpt(ctx, rc, smtp.RcptOptions{})
		o.Rcpt[i] = classify(err)
		if err == nil {
			accepted++
		}
	}
	if accepted == 0 {
		// DATA is refused without valid recipients; the session aborts the transaction
		_ = d.Abort(ctx)
		return
	}
	hdr, hdrText := headerOf(in)
	_ = hdrText
	var body buffer.Buffer = buffer.MemoryBuffer{Slice: bodyBytes(in.Body)}
	if in.Body == "unreadable" {
		body = badBuffer{}
	}
	err = d.Body(ctx, hdr, body)
	o.Body = classify(err)
	if err != nil {
		_ = d.Abort(ctx)
		if s := theTgt.take(meta); s != nil && s.committed {
			o.Note += "refused-but-delivered "
			o.Delivered = true
		}
		return
	}
	if err := d.Commit(ctx); err != nil {
		t.Fatalf("row %d: Commit: %v", r.ID, err)
	}
	s := theTgt.take(meta)
	if s == nil || !s.body || !s.committed {
		o.Note += "lost "
		return
	}
	o.Delivered = true
	o.Quarantine = s.quarantine
	o.Intact = true
	n := len(s.fields) - len(in.Hdr)
	if n < 0 {
		o.Note += "header-fields-lost "
		o.Intact = false
		return
	}
	o.Added = append(o.Added, s.fields[:n]...)
	for i, f := range in.Hdr {
		want := f.N + ": " + f.V + "\r\n"
		if s.fields[n+i] != want {
			o.Note += fmt.Sprintf("header-field-%d-changed ", i+1)
			o.Intact = false
		}
	}
}

func runRow(t *testing.T, r Row) (o Out) {
	o.Added, o.Seen, o.Rcpt, o.Log = []string{}, []Seen{}, []R{}, []string{}
	o.Start, o.Body = na(), na()
	o.Intact = true
	theLog.take()
	t0 := time.Now()
	defer func() {
		if e := recover(); e != nil {
			o.Note += fmt.Sprintf("panic: %v ", e)
			o.Panics += 100
		}
		// The check runner reports a recovered panic of a check after it has
		// released the waiting command (wg.Done before log.Printf): the report
		// may arrive after the command returned.  Where a stage of the check
		// visibly did not happen, wait for the report.
		lines := theLog.take()
		if silentStage(r, &o) {
			for i := 0; i < 5000 && !hasPanicLine(lines); i++ {
				time.Sleep(time.Millisecond)
				lines = append(lines, theLog.take()...)
			}
		}
		for _, l := range lines {
			if strings.Contains(l, "panic during check execution") {
				o.Panics++
			}
			if len(o.Log) < 6 {
				o.Log = append(o.Log, l)
			}
		}
		o.Wall = int(time.Since(t0) / time.Millisecond)
	}()
	switch r.In.Sub {
	case "milter":
		runMilter(t, r, &o)
	case "rspamd":
		runRspamd(t, r, &o)
	default:
		t.Fatalf("row %d: unknown sub %q", r.ID, r.In.Sub)
	}
	return o
}

func hasPanicLine(lines []string) bool {
	for _, l := range lines {
		if strings.Contains(l, "panic during check execution") {
			return true
		}
	}
	return false
}

// silentStage: the scripted server is up and the message passed, but the server
// was not asked at a stage (no request at all / no MAIL before RCPT or the
// header): the footprint of a check call that did not run to its end.
func silentStage(r Row, o *Out) bool {
	if o.Start.K != "ok" {
		return false
	}
	switch r.In.Sub {
	case "rspamd":
		return o.Conns == 0 && r.In.Resp.K != "refused" && o.Body.K == "ok"
	case "milter":
		sawM, later := false, false
		for _, e := range o.Seen {
			switch e.C {
			case "M":
				sawM = true
			case "R", "L", "N", "B", "E":
				later = true
			}
		}
		return later && !sawM && !hasOpt(r.In.Proto, "nomail")
	}
	return false
}

func hasOpt(l []string, o string) bool {
	for _, x := range l {
		if x == o {
			return true
		}
	}
	return false
}

func buildPipeline(t *testing.T, r Row, o *Out, cfg string) *msgpipeline.MsgPipeline {
	o.Cfg = cfg
	nodes, err := parser.Read(strings.NewReader(cfg), "verif-x07.conf")
	if err != nil {
		t.Fatalf("row %d: configuration text does not parse: %v\n%s", r.ID, err, cfg)
	}
	pipe, err := msgpipeline.New(map[string]interface{}{"hostname": "mx.verif.test"}, nodes)
	if err != nil {
		// every configuration of the tables is a documented one
		o.Note += "config-refused: " + err.Error() + " "
		return nil
	}
	pipe.Hostname = "mx.verif.test"
	pipe.Log = log.Logger{Out: theLog}
	return pipe
}

// reservedPort returns a loopback TCP address at which nobody listens and
// nobody else can start to listen while the row runs: a socket that is bound
// but not listening (connections are refused).  A port merely closed could be
// handed to a listener of a row running in another process.
func reservedPort(t *testing.T) (string, func()) {
	fd, err := syscall.Socket(syscall.AF_INET, syscall.SOCK_STREAM, 0)
	if err != nil {
		t.Fatalf("socket: %v", err)
	}
	if err := syscall.Bind(fd, &syscall.SockaddrInet4{Port: 0, Addr: [4]byte{127, 0, 0, 1}}); err != nil {
		t.Fatalf("bind: %v", err)
	}
	sa, err := syscall.Getsockname(fd)
	if err != nil {
		t.Fatalf("getsockname: %v", err)
	}
	port := sa.(*syscall.SockaddrInet4).Port
	return fmt.Sprintf("127.0.0.1:%d", port), func() { syscall.Close(fd) }
}

// ---- milter ---------------------------------------------------------------------------------

var sockSeq int

func runMilter(t *testing.T, r Row, o *Out) {
	in := r.In
	srv := &milterSrv{in: &in, body: bodyBytes(in.Body)}
	var ln net.Listener
	var err error
	var endpoint string
	if in.Net == "unix" {
		sockSeq++
		p := filepath.Join(tmpDir, fmt.Sprintf("m%d.sock", sockSeq))
		_ = os.Remove(p)
		if len(p) > 100 {
			t.Fatalf("socket path too long: %s", p)
		}
		ln, err = net.Listen("unix", p)
		endpoint = "unix://" + p
		defer os.Remove(p)
	} else if in.Srv == "down" {
		addr, release := reservedPort(t)
		defer release()
		endpoint = "tcp://" + addr
	} else {
		ln, err = net.Listen("tcp4", "127.0.0.1:0")
		if err == nil {
			endpoint = "tcp://" + ln.Addr().String()
		}
	}
	if err != nil {
		t.Fatalf("row %d: listen: %v", r.ID, err)
	}
	if in.Srv == "down" {
		if ln != nil {
			ln.Close() // unix: nobody listens at the (per-process) socket path
		}
	} else if in.Srv == "lib" {
		srv.serveLib(ln)
		defer srv.stopLib()
	} else {
		go srv.serve(ln)
		defer ln.Close()
	}

	var b strings.Builder
	b.WriteString("check {\n")
	inner := ""
	if in.Fo != "absent" {
		inner += "        fail_open " + in.Fo + "\n"
	}
	if in.Form == "directive" {
		b.WriteString("    milter {\n        endpoint " + endpoint + "\n" + inner + "    }\n")
	} else if inner != "" {
		b.WriteString("    milter " + endpoint + " {\n" + inner + "    }\n")
	} else {
		b.WriteString("    milter " + endpoint + "\n")
	}
	b.WriteString("}\n")
	pipe := buildPipeline(t, r, o, placed(in, b.String()))
	if pipe == nil {
		return
	}
	sendMsg(t, r, pipe, o)
	o.Closed = srv.waitClosed()
	o.Seen = srv.take()
	o.Conns = srv.conns()
}

// ---- JSON plumbing ---------------------------------------------------------------------------------

func TestReplay(t *testing.T) {
	inPath, outPath := os.Getenv("VERIF_IN"), os.Getenv("VERIF_OUT")
	if inPath == "" || outPath == "" {
		t.Skip("VERIF_IN / VERIF_OUT not set")
	}
	data, err := os.ReadFile(inPath)
	if err != nil {
		t.Fatal(err)
	}
	of, err := os.Create(outPath)
	if err != nil {
		t.Fatal(err)
	}
	defer of.Close()
	register()
	var mu sync.Mutex
	emit := func(v map[string]interface{}) {
		b, err := json.Marshal(v)
		if err != nil {
			t.Fatal(err)
		}
		// unbuffered: a crash of the code under test leaves the Begin line of its row behind
		mu.Lock()
		defer mu.Unlock()
		if _, err := of.Write(append(b, '\n')); err != nil {
			t.Fatal(err)
		}
	}
	type item struct {
		r   Row
		raw json.RawMessage
	}
	var seq, slow []item
	for _, line := range bytes.Split(data, []byte("\n")) {
		if len(bytes.TrimSpace(line)) == 0 {
			continue
		}
		var r Row
		if err := json.Unmarshal(line, &r); err != nil {
			t.Fatalf("bad row: %v", err)
		}
		var generic struct {
			In json.RawMessage `json:"in"`
		}
		_ = json.Unmarshal(line, &generic)
		if r.In.Tab == "stall" {
			slow = append(slow, item{r, generic.In})
		} else {
			seq = append(seq, item{r, generic.In})
		}
	}
	// rows that wait for the client's I/O time-out run next to the others
	// (their own servers and pipelines; the log capture is shared, so the
	// runner's panic lines are not attributed to them)
	var wg sync.WaitGroup
	for _, it := range slow {
		wg.Add(1)
		go func(it item) {
			defer wg.Done()
			emit(map[string]interface{}{"t": it.r.ID, "seq": 1, "e": "Begin"})
			var o Out
			o.Added, o.Seen, o.Rcpt, o.Log = []string{}, []Seen{}, []R{}, []string{}
			o.Intact = true
			t0 := time.Now()
			runMilter(t, it.r, &o)
			o.Wall = int(time.Since(t0) / time.Millisecond)
			emit(map[string]interface{}{"t": it.r.ID, "seq": 2, "e": "Row", "in": it.raw, "out": o})
		}(it)
	}
	n := 0
	for _, it := range seq {
		emit(map[string]interface{}{"t": it.r.ID, "seq": 1, "e": "Begin"})
		o := runRow(t, it.r)
		emit(map[string]interface{}{"t": it.r.ID, "seq": 2, "e": "Row", "in": it.raw, "out": o})
		n++
	}
	wg.Wait()
	t.Logf("ran %d rows (+%d slow)", n, len(slow))
}
