package extscancheck

// Scripted milter server.  The raw variant speaks the wire protocol itself
// (4-byte length, command byte, payload; go-milter/milter-protocol.txt), so that
// it can answer with anything - including nothing, garbage or a closed
// connection - and record every packet of the client, including the macro,
// abort and quit packets.  The "lib" variant is the server side of
// github.com/emersion/go-milter (callbacks).

import (
	"bytes"
	"encoding/binary"
	"errors"
	"fmt"
	"io"
	"net"
	nettextproto "net/textproto"
	"strconv"
	"strings"
	"sync"
	"time"

	"github.com/emersion/go-milter"
)

type milterSrv struct {
	in   *In
	body []byte

	mu      sync.Mutex
	seen    []Seen
	nconn   int
	handled sync.WaitGroup
	dead    bool // the script closed the connection or stopped answering: nothing more is recorded
	nR      int
	nL      int
	nB      int
	bodyOff int

	lib   *milter.Server
	libLn net.Listener
}

var protoBits = map[string]milter.OptProtocol{
	"noconnect": milter.OptNoConnect, "nohelo": milter.OptNoHelo, "nomail": milter.OptNoMailFrom,
	"norcpt": milter.OptNoRcptTo, "nobody": milter.OptNoBody, "nohdrs": milter.OptNoHeaders,
	"noeoh": milter.OptNoEOH, "nr_conn": milter.OptNoConnReply, "nr_helo": milter.OptNoHeloReply,
	"nr_mail": milter.OptNoMailReply, "nr_rcpt": milter.OptNoRcptReply, "nr_hdr": milter.OptNoHeaderReply,
	"nr_eoh": milter.OptNoEOHReply, "nr_body": milter.OptNoBodyReply,
}

func (s *milterSrv) has(opt string) bool {
	for _, p := range s.in.Proto {
		if p == opt {
			return true
		}
	}
	return false
}

func (s *milterSrv) protoMask() milter.OptProtocol {
	var m milter.OptProtocol
	for _, p := range s.in.Proto {
		b, ok := protoBits[p]
		if !ok {
			panic("unknown protocol option " + p)
		}
		m |= b
	}
	return m
}

func (s *milterSrv) rec(c string, a ...string) {
	s.mu.Lock()
	defer s.mu.Unlock()
	if s.dead {
		return
	}
	if a == nil {
		a = []string{}
	}
	s.seen = append(s.seen, Seen{C: c, A: a})
}

func (s *milterSrv) take() []Seen {
	s.mu.Lock()
	defer s.mu.Unlock()
	r := s.seen
	if r == nil {
		r = []Seen{}
	}
	return r
}

func (s *milterSrv) conns() int {
	s.mu.Lock()
	defer s.mu.Unlock()
	return s.nconn
}

// how long the end of a connection is awaited after the message has ended; a
// client that never ends its connections would make every row wait, so the
// wait shrinks after the first rows that ran into it
var (
	closeWait   = 6 * time.Second
	unclosedCnt int
)

func (s *milterSrv) waitClosed() bool {
	done := make(chan struct{})
	go func() { s.handled.Wait(); close(done) }()
	select {
	case <-done:
		return true
	case <-time.After(closeWait):
		unclosedCnt++
		if unclosedCnt >= 2 {
			closeWait = 300 * time.Millisecond
		}
		return false
	}
}

func (s *milterSrv) serve(ln net.Listener) {
	for {
		c, err := ln.Accept()
		if err != nil {
			return
		}
		s.mu.Lock()
		s.nconn++
		s.mu.Unlock()
		s.handled.Add(1)
		go s.handle(c)
	}
}

func readPkt(c net.Conn) (byte, []byte, error) {
	var l uint32
	if err := binary.Read(c, binary.BigEndian, &l); err != nil {
		return 0, nil, err
	}
	if l == 0 || l > 1<<20 {
		return 0, nil, fmt.Errorf("bad packet length %d", l)
	}
	d := make([]byte, l)
	if _, err := io.ReadFull(c, d); err != nil {
		return 0, nil, err
	}
	return d[0], d[1:], nil
}

func writePkt(c net.Conn, code byte, data []byte) error {
	b := make([]byte, 4, 5+len(data))
	binary.BigEndian.PutUint32(b, uint32(len(data)+1))
	b = append(b, code)
	b = append(b, data...)
	_, err := c.Write(b)
	return err
}

func cstrings(d []byte) []string {
	if len(d) == 0 {
		return []string{}
	}
	if d[len(d)-1] == 0 {
		d = d[:len(d)-1]
	}
	return strings.Split(string(d), "\x00")
}

// wsNorm removes folding from a header field value: every run of white space
// (including line breaks) becomes one space.
func wsNorm(v string) string { return strings.Join(strings.Fields(v), " ") }

func (s *milterSrv) answerFor(code byte) (Ans, string) {
	sc := s.in.Script
	pick := func(l []Ans, n int) Ans {
		if n <= len(l) {
			return l[n-1]
		}
		return Ans{K: "?"}
	}
	switch code {
	case 'C':
		return sc.Conn, "nr_conn"
	case 'H':
		return sc.Helo, "nr_helo"
	case 'M':
		return sc.Mail, "nr_mail"
	case 'R':
		s.nR++
		return pick(sc.Rcpt, s.nR), "nr_rcpt"
	case 'L':
		s.nL++
		return pick(sc.Hdr, s.nL), "nr_hdr"
	case 'N':
		return sc.Eoh, "nr_eoh"
	case 'B':
		s.nB++
		return pick(sc.Body, s.nB), "nr_body"
	case 'E':
		return sc.Fin, ""
	}
	return Ans{K: "?"}, ""
}

func modPkt(m Mod) (byte, []byte) {
	idx := func() []byte {
		b := make([]byte, 4)
		binary.BigEndian.PutUint32(b, uint32(m.Idx))
		return b
	}
	z := "\x00"
	switch m.K {
	case "addhdr":
		return 'h', []byte(m.A + z + m.B + z)
	case "inshdr":
		return 'i', append(idx(), []byte(m.A+z+m.B+z)...)
	case "chghdr":
		return 'm', append(idx(), []byte(m.A+z+m.B+z)...)
	case "addrcpt":
		return '+', []byte(m.A + z)
	case "delrcpt":
		return '-', []byte(m.A + z)
	case "chgfrom":
		return 'e', []byte(m.A + z)
	case "quar":
		return 'q', []byte(m.A + z)
	case "replbody":
		return 'b', []byte(m.A)
	}
	panic("unknown modification " + m.K)
}

func (s *milterSrv) kill() {
	s.mu.Lock()
	s.dead = true
	s.mu.Unlock()
}

func (s *milterSrv) handle(c net.Conn) {
	defer s.handled.Done()
	defer c.Close()
	for {
		code, data, err := readPkt(c)
		if err != nil {
			return // EOF: the client ended the connection
		}
		switch code {
		case 'O':
			switch s.in.Srv {
			case "negdrop":
				s.kill()
				return
			case "negbad":
				_ = writePkt(c, 'X', []byte("garbage"))
				s.kill()
				return
			}
			b := make([]byte, 12)
			binary.BigEndian.PutUint32(b, uint32(s.in.Ver))
			binary.BigEndian.PutUint32(b[4:], 0x3f)
			binary.BigEndian.PutUint32(b[8:], uint32(s.protoMask()))
			if writePkt(c, 'O', b) != nil {
				return
			}
			if s.in.Srv == "negver" {
				// a version the client cannot speak: the milter hangs up
				s.kill()
				return
			}
		case 'D':
			a := []string{}
			if len(data) > 0 {
				a = append(a, string(data[:1]))
				a = append(a, cstrings(data[1:])...)
			}
			s.rec("D", a...)
		case 'A':
			s.rec("A")
		case 'Q':
			s.rec("Q")
			return
		case 'C', 'H', 'M', 'R', 'L', 'N', 'B', 'E':
			switch code {
			case 'C':
				a := []string{"", "", "", ""}
				if i := bytes.IndexByte(data, 0); i >= 0 && len(data) > i+1 {
					a[0] = string(data[:i])
					rest := data[i+1:]
					a[1] = string(rest[:1])
					rest = rest[1:]
					if (a[1] == "4" || a[1] == "6") && len(rest) >= 2 {
						a[2] = strconv.Itoa(int(binary.BigEndian.Uint16(rest)))
						rest = rest[2:]
					}
					if len(rest) > 0 {
						a[3] = cstrings(rest)[0]
					}
				}
				s.rec("C", a...)
			case 'B':
				st := "match"
				if s.bodyOff+len(data) > len(s.body) || !bytes.Equal(s.body[s.bodyOff:s.bodyOff+len(data)], data) {
					st = "mismatch"
				}
				s.bodyOff += len(data)
				s.rec("B", strconv.Itoa(len(data)), st)
			case 'N', 'E':
				s.rec(string(code))
			case 'L':
				a := cstrings(data)
				for len(a) < 2 {
					a = append(a, "")
				}
				s.rec("L", strings.ToLower(a[0]), wsNorm(a[1]))
			default:
				s.rec(string(code), cstrings(data)...)
			}
			ans, nr := s.answerFor(code)
			if nr != "" && s.has(nr) {
				continue // negotiated: no reply to this command
			}
			if code == 'E' && ans.K != "drop" && ans.K != "stall" {
				for _, m := range s.in.Script.Mods {
					mc, md := modPkt(m)
					if writePkt(c, mc, md) != nil {
						return
					}
				}
			}
			switch ans.K {
			case "cont", "?":
				err = writePkt(c, 'c', nil)
			case "pcont": // progress, then continue
				_ = writePkt(c, 'p', nil)
				err = writePkt(c, 'c', nil)
			case "accept":
				err = writePkt(c, 'a', nil)
			case "reject":
				err = writePkt(c, 'r', nil)
			case "tempfail":
				err = writePkt(c, 't', nil)
			case "discard":
				err = writePkt(c, 'd', nil)
			case "reply":
				err = writePkt(c, 'y', []byte(fmt.Sprintf("%03d %s\x00", ans.Code, ans.Text)))
			case "badreply":
				err = writePkt(c, 'y', []byte("55\x00"))
			case "garbage":
				err = writePkt(c, 'Z', []byte("verif"))
			case "drop":
				s.kill()
				return
			case "stall":
				// never answers: the client has to run into its own time-out
				s.kill()
				_, _ = io.Copy(io.Discard, c)
				return
			default:
				panic("unknown answer kind " + ans.K)
			}
			if err != nil {
				return
			}
		default:
			s.rec("?" + string(code))
		}
	}
}

// ---- the server side of go-milter ----------------------------------------------------------------

type libBackend struct{ s *milterSrv }

var errDrop = errors.New("verif: scripted connection loss")

func (b libBackend) resp(code byte) (milter.Response, error) {
	ans, _ := b.s.answerFor(code)
	switch ans.K {
	case "cont", "?":
		return milter.RespContinue, nil
	case "accept":
		return milter.RespAccept, nil
	case "reject":
		return milter.RespReject, nil
	case "tempfail":
		return milter.RespTempFail, nil
	case "discard":
		return milter.RespDiscard, nil
	case "reply":
		return milter.NewResponseStr('y', fmt.Sprintf("%03d %s", ans.Code, ans.Text)), nil
	case "badreply":
		return milter.NewResponseStr('y', "55"), nil
	case "garbage":
		return milter.NewResponse('Z', []byte("verif")), nil
	case "drop":
		b.s.kill()
		return nil, errDrop
	}
	panic("lib server: unsupported answer kind " + ans.K)
}

func (b libBackend) macros(stage string, m *milter.Modifier, keys ...string) {
	a := []string{stage}
	for _, k := range keys {
		if v, ok := m.Macros[k]; ok {
			a = append(a, k, v)
		}
	}
	if len(a) > 1 {
		b.s.rec("D", a...)
	}
}

func (b libBackend) Connect(host string, family string, port uint16, addr net.IP, m *milter.Modifier) (milter.Response, error) {
	b.macros("C", m, "daemon_name", "if_name", "if_addr")
	fam := map[string]string{"unknown": "U", "unix": "L", "tcp4": "4", "tcp6": "6"}[family]
	p, a := "", ""
	if fam == "4" || fam == "6" {
		p = strconv.Itoa(int(port))
	}
	if addr != nil {
		a = addr.String()
	}
	b.s.rec("C", host, fam, p, a)
	return b.resp('C')
}
func (b libBackend) Helo(name string, m *milter.Modifier) (milter.Response, error) {
	b.macros("H", m, "tls_version", "cipher")
	b.s.rec("H", name)
	return b.resp('H')
}
func (b libBackend) MailFrom(from string, m *milter.Modifier) (milter.Response, error) {
	b.macros("M", m, "i", "auth_authen")
	b.s.rec("M", "<"+from+">")
	return b.resp('M')
}
func (b libBackend) RcptTo(rcpt string, m *milter.Modifier) (milter.Response, error) {
	b.s.rec("R", "<"+rcpt+">")
	return b.resp('R')
}
func (b libBackend) Header(name, value string, m *milter.Modifier) (milter.Response, error) {
	b.s.rec("L", strings.ToLower(name), wsNorm(value))
	return b.resp('L')
}
func (b libBackend) Headers(h nettextproto.MIMEHeader, m *milter.Modifier) (milter.Response, error) {
	b.s.rec("N")
	return b.resp('N')
}
func (b libBackend) BodyChunk(chunk []byte, m *milter.Modifier) (milter.Response, error) {
	s := b.s
	st := "match"
	if s.bodyOff+len(chunk) > len(s.body) || !bytes.Equal(s.body[s.bodyOff:s.bodyOff+len(chunk)], chunk) {
		st = "mismatch"
	}
	s.bodyOff += len(chunk)
	s.rec("B", strconv.Itoa(len(chunk)), st)
	return b.resp('B')
}
func (b libBackend) Body(m *milter.Modifier) (milter.Response, error) {
	b.s.rec("E")
	if k := b.s.in.Script.Fin.K; k != "drop" {
		for _, md := range b.s.in.Script.Mods {
			var err error
			switch md.K {
			case "addhdr":
				err = m.AddHeader(md.A, md.B)
			case "inshdr":
				err = m.InsertHeader(md.Idx, md.A, md.B)
			case "chghdr":
				err = m.ChangeHeader(md.Idx, md.A, md.B)
			case "quar":
				err = m.Quarantine(md.A)
			case "addrcpt":
				err = m.AddRecipient(strings.Trim(md.A, "<>"))
			case "delrcpt":
				err = m.DeleteRecipient(strings.Trim(md.A, "<>"))
			case "chgfrom":
				err = m.ChangeFrom(md.A)
			case "replbody":
				err = m.ReplaceBody([]byte(md.A))
			}
			if err != nil {
				return nil, err
			}
		}
	}
	return b.resp('E')
}
func (b libBackend) Abort(m *milter.Modifier) error {
	b.s.rec("A")
	return nil
}

// countingListener tells the rows' server how many connections were accepted
// and when the library's handler has let go of each of them.
type countingListener struct {
	net.Listener
	s *milterSrv
}

type countedConn struct {
	net.Conn
	once sync.Once
	s    *milterSrv
}

func (c *countedConn) Close() error {
	c.once.Do(c.s.handled.Done)
	return c.Conn.Close()
}

func (l countingListener) Accept() (net.Conn, error) {
	c, err := l.Listener.Accept()
	if err != nil {
		return nil, err
	}
	l.s.mu.Lock()
	l.s.nconn++
	l.s.mu.Unlock()
	l.s.handled.Add(1)
	return &countedConn{Conn: c, s: l.s}, nil
}

func (s *milterSrv) serveLib(ln net.Listener) {
	s.lib = &milter.Server{
		NewMilter: func() milter.Milter { return libBackend{s} },
		Actions:   milter.OptAddHeader | milter.OptChangeHeader | milter.OptQuarantine | milter.OptAddRcpt | milter.OptRemoveRcpt | milter.OptChangeBody,
		Protocol:  s.protoMask(),
	}
	s.libLn = countingListener{ln, s}
	go func() { _ = s.lib.Serve(s.libLn) }()
}

func (s *milterSrv) stopLib() {
	if s.lib != nil {
		_ = s.lib.Close()
	}
}
