package extscancheck

// Scripted rspamd: an HTTP server that records the request of check.rspamd and
// answers with the row's response.

import (
	"bytes"
	"fmt"
	"io"
	"net"
	"net/http"
	"strings"
	"sync"
	"testing"
)

// header fields of the request that are reported (the fields the statement speaks about)
var reportFields = []string{"From", "Rcpt", "Queue-Id", "Ip", "Helo", "Hostname", "User", "Mta-Tag", "Mta-Name", "Settings-Id",
	"Flags", "Pass", "Tls-Cipher", "Tls-Version"}

func milliJSON(m int) string {
	sign := ""
	if m < 0 {
		sign, m = "-", -m
	}
	return fmt.Sprintf("%s%d.%03d", sign, m/1000, m%1000)
}

func actArgs(a Act) string {
	s := a.Act
	if a.Code != 0 {
		s += fmt.Sprintf(" %d", a.Code)
		if a.Ench != "" {
			s += " " + a.Ench
			if a.Msg != "" {
				s += fmt.Sprintf(" %q", a.Msg)
			}
		}
	}
	return s
}

// one scripted rspamd per process (a listener per row would use up the ports of
// the machine); the rows run one after the other, curRspamd is the row being run
type rspamdRow struct {
	in       In
	wantBody []byte
	nreq     int
	seen     []Seen
}

var (
	rspamdOnce sync.Once
	rspamdAddr string
	rspamdMu   sync.Mutex
	curRspamd  *rspamdRow
)

func rspamdHandler(w http.ResponseWriter, req *http.Request) {
	got, _ := io.ReadAll(req.Body)
	rspamdMu.Lock()
	row := curRspamd
	if row == nil {
		rspamdMu.Unlock()
		w.WriteHeader(500)
		return
	}
	st := "match"
	if !bytes.Equal(got, row.wantBody) {
		st = "mismatch"
	}
	row.nreq++
	row.seen = append(row.seen, Seen{C: "REQ", A: []string{req.Method, req.URL.Path, st}})
	for _, k := range reportFields {
		if vs, ok := req.Header[k]; ok {
			row.seen = append(row.seen, Seen{C: k, A: append([]string{}, vs...)})
		}
	}
	rp := row.in.Resp
	rspamdMu.Unlock()
	// the server ends the connection: no port of the client is left in TIME_WAIT
	w.Header().Set("Connection", "close")
	switch rp.K {
	case "json":
		w.Header().Set("Content-Type", "application/json")
		w.WriteHeader(200)
		fmt.Fprintf(w, `{"is_skipped":false,"score":%s,"required_score":15.0,"action":%q,"symbols":{"VERIF":{"name":"VERIF","score":1.5}},"message-id":"1@verif.test"}`,
			milliJSON(rp.Milli), rp.Action)
	case "noaction-field":
		w.WriteHeader(200)
		fmt.Fprintf(w, `{"score":%s,"symbols":{}}`, milliJSON(rp.Milli))
	case "status":
		w.WriteHeader(rp.Status)
		fmt.Fprintf(w, `{"error":"verif scripted status %d"}`, rp.Status)
	case "badjson":
		w.WriteHeader(200)
		io.WriteString(w, "<html>this is not JSON</html>")
	case "empty":
		w.WriteHeader(200)
	case "drop":
		if hj, ok := w.(http.Hijacker); ok {
			c, _, err := hj.Hijack()
			if err == nil {
				c.Close()
			}
		}
	default:
		panic("unknown response kind " + rp.K)
	}
}

func startRspamd(t *testing.T) {
	rspamdOnce.Do(func() {
		ln, err := net.Listen("tcp4", "127.0.0.1:0")
		if err != nil {
			t.Fatalf("listen: %v", err)
		}
		rspamdAddr = ln.Addr().String()
		srv := &http.Server{Handler: http.HandlerFunc(rspamdHandler)}
		go func() { _ = srv.Serve(ln) }()
	})
}

func runRspamd(t *testing.T, r Row, o *Out) {
	in := r.In
	startRspamd(t)
	api := "http://" + rspamdAddr
	if in.Resp.K == "refused" {
		addr, release := reservedPort(t)
		defer release()
		api = "http://" + addr
	}
	_, h := headerOf(in)
	row := &rspamdRow{in: in, wantBody: append([]byte(h), bodyBytes(in.Body)...)}
	rspamdMu.Lock()
	curRspamd = row
	rspamdMu.Unlock()
	defer func() {
		rspamdMu.Lock()
		curRspamd = nil
		rspamdMu.Unlock()
	}()

	var b strings.Builder
	b.WriteString("check {\n")
	inner := ""
	dir := func(name string, a Act) {
		if a.Given {
			inner += "        " + name + " " + actArgs(a) + "\n"
		}
	}
	dir("io_error_action", in.Io)
	dir("error_resp_action", in.ErrResp)
	dir("add_header_action", in.AddHdr)
	dir("rewrite_subj_action", in.Rewrite)
	if in.Tag != "absent" {
		inner += "        tag " + in.Tag + "\n"
	}
	if in.Settings != "absent" {
		inner += "        settings_id " + in.Settings + "\n"
	}
	if in.Hostname != "absent" {
		inner += "        hostname " + in.Hostname + "\n"
	}
	if len(in.Flags) != 0 {
		inner += "        flags " + strings.Join(in.Flags, " ") + "\n"
	}
	if in.Form == "directive" {
		b.WriteString("    rspamd {\n        api_path " + api + "\n" + inner + "    }\n")
	} else if inner != "" {
		b.WriteString("    rspamd " + api + " {\n" + inner + "    }\n")
	} else {
		b.WriteString("    rspamd " + api + "\n")
	}
	b.WriteString("}\n")
	pipe := buildPipeline(t, r, o, placed(in, b.String()))
	if pipe == nil {
		return
	}
	sendMsg(t, r, pipe, o)
	rspamdMu.Lock()
	o.Seen = row.seen
	if o.Seen == nil {
		o.Seen = []Seen{}
	}
	o.Conns = row.nreq
	rspamdMu.Unlock()
	o.Closed = true
}
