package extscancheck

// Scripted rspamd: an HTTP server that records the request of check.rspamd and
// answers with the row's response.

import (
	"bytes"
	"fmt"
	"io"
	"net"
	"net/http"
	"sort"
	"strings"
	"sync"
	"testing"
)

// header fields of the request that are reported (the fields the statement speaks about)
var reportFields = []string{"From", "Rcpt", "Queue-Id", "Ip", "Helo", "Hostname", "User", "Mta-Tag", "Mta-Name", "Settings-Id",
	"Flags", "Pass", "Tls-Cipher", "Tls-Version"}

func milliJSON(m int) string {
	sign := ""
	if m < 0 {
		sign, m = "-", -m
	}
	return fmt.Sprintf("%s%d.%03d", sign, m/1000, m%1000)
}

func actArgs(a Act) string {
	s := a.Act
	if a.Code != 0 {
		s += fmt.Sprintf(" %d", a.Code)
		if a.Ench != "" {
			s += " " + a.Ench
			if a.Msg != "" {
				s += fmt.Sprintf(" %q", a.Msg)
			}
		}
	}
	return s
}

func runRspamd(t *testing.T, r Row, o *Out) {
	in := r.In
	var ln net.Listener
	var api string
	if in.Resp.K == "refused" {
		addr, release := reservedPort(t)
		defer release()
		api = "http://" + addr
	} else {
		var err error
		ln, err = net.Listen("tcp4", "127.0.0.1:0")
		if err != nil {
			t.Fatalf("row %d: listen: %v", r.ID, err)
		}
		api = "http://" + ln.Addr().String()
	}
	var mu sync.Mutex
	nreq := 0
	var seen []Seen
	wantBody := func() []byte {
		_, h := headerOf(in)
		return append([]byte(h), bodyBytes(in.Body)...)
	}()
	srv := &http.Server{Handler: http.HandlerFunc(func(w http.ResponseWriter, req *http.Request) {
		got, _ := io.ReadAll(req.Body)
		st := "match"
		if !bytes.Equal(got, wantBody) {
			st = "mismatch"
		}
		mu.Lock()
		nreq++
		seen = append(seen, Seen{C: "REQ", A: []string{req.Method, req.URL.Path, st}})
		keys := []string{}
		for k := range req.Header {
			keys = append(keys, k)
		}
		sort.Strings(keys)
		for _, k := range reportFields {
			if vs, ok := req.Header[k]; ok {
				seen = append(seen, Seen{C: k, A: append([]string{}, vs...)})
			}
		}
		mu.Unlock()
		rp := in.Resp
		switch rp.K {
		case "json":
			w.Header().Set("Content-Type", "application/json")
			w.WriteHeader(200)
			fmt.Fprintf(w, `{"is_skipped":false,"score":%s,"required_score":15.0,"action":%q,"symbols":{"VERIF":{"name":"VERIF","score":1.5}},"message-id":"1@verif.test"}`,
				milliJSON(rp.Milli), rp.Action)
		case "noaction-field":
			w.WriteHeader(200)
			fmt.Fprintf(w, `{"score":%s,"symbols":{}}`, milliJSON(rp.Milli))
		case "status":
			w.WriteHeader(rp.Status)
			fmt.Fprintf(w, `{"error":"verif scripted status %d"}`, rp.Status)
		case "badjson":
			w.WriteHeader(200)
			io.WriteString(w, "<html>this is not JSON</html>")
		case "empty":
			w.WriteHeader(200)
		case "drop":
			if hj, ok := w.(http.Hijacker); ok {
				c, _, err := hj.Hijack()
				if err == nil {
					c.Close()
				}
			}
		default:
			panic("unknown response kind " + rp.K)
		}
	})}
	if ln != nil {
		go func() { _ = srv.Serve(ln) }()
		defer srv.Close()
	}

	var b strings.Builder
	b.WriteString("check {\n")
	inner := ""
	dir := func(name string, a Act) {
		if a.Given {
			inner += "        " + name + " " + actArgs(a) + "\n"
		}
	}
	dir("io_error_action", in.Io)
	dir("error_resp_action", in.ErrResp)
	dir("add_header_action", in.AddHdr)
	dir("rewrite_subj_action", in.Rewrite)
	if in.Tag != "absent" {
		inner += "        tag " + in.Tag + "\n"
	}
	if in.Settings != "absent" {
		inner += "        settings_id " + in.Settings + "\n"
	}
	if in.Hostname != "absent" {
		inner += "        hostname " + in.Hostname + "\n"
	}
	if len(in.Flags) != 0 {
		inner += "        flags " + strings.Join(in.Flags, " ") + "\n"
	}
	if in.Form == "directive" {
		b.WriteString("    rspamd {\n        api_path " + api + "\n" + inner + "    }\n")
	} else if inner != "" {
		b.WriteString("    rspamd " + api + " {\n" + inner + "    }\n")
	} else {
		b.WriteString("    rspamd " + api + "\n")
	}
	b.WriteString("}\n")
	pipe := buildPipeline(t, r, o, placed(in, b.String()))
	if pipe == nil {
		return
	}
	sendMsg(t, r, pipe, o)
	mu.Lock()
	o.Seen = seen
	if o.Seen == nil {
		o.Seen = []Seen{}
	}
	o.Conns = nreq
	mu.Unlock()
	o.Closed = true
}
