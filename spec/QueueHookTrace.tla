--------------------------- MODULE QueueHookTrace ---------------------------
(***************************************************************************)
(* Trace validation for Queue.tla from the queue's own point of view: the  *)
(* events come from the hooks inside internal/target/queue (verif_trace.go,*)
(* build tag verif), recorded while the REPOSITORY'S OWN tests of the      *)
(* package run, unchanged.  Same scheme as QueueTrace.tla (C_Step =        *)
(* conforming design action, M_Step = monitor-only fold of the QueueObs    *)
(* predicates); differences: a failure report is seen as the set of        *)
(* recipients it was generated for and the stage its hand-over ended at    *)
(* (the report's bytes are the business of C18's harness), and a trace may *)
(* end with "End" (the test stopped observing) instead of "Quiesced": the  *)
(* safety predicates are then judged on the prefix, the quiescence         *)
(* obligations are not.                                                    *)
(***************************************************************************)
EXTENDS Queue

Trace == ndJsonDeserialize("trace.ndjson")

VARIABLES l, drift, driftAt, tno
tvars == <<vars, l, drift, driftAt, tno>>

Ev == Trace[l]
IsEv(e) == l <= Len(Trace) /\ Ev.e = e
Keep == l' = l + 1 /\ UNCHANGED <<drift, driftAt, tno>>
Publish(d, da, o) ==
  TLCSet(1, TLCGet(1) \cup {[t |-> tno, drift |-> d, driftAt |-> da, viol |-> o.viol]})

TInit ==
  /\ InitWith([partial |-> FALSE, bounce |-> FALSE, nullSender |-> FALSE, mt |-> 1, list |-> <<>>,
               rw |-> {}, utf8 |-> FALSE, enh |-> TRUE])
  /\ l = 1 /\ drift = FALSE /\ driftAt = 0 /\ tno = 0
  /\ TLCSet(1, {})

TReset ==
  /\ IsEv("Cfg")
  /\ LET c == [partial |-> Ev.partial, bounce |-> Ev.bounce, nullSender |-> Ev.nullSender,
               mt |-> Ev.mt, list |-> Ev.list, rw |-> {}, utf8 |-> FALSE, enh |-> TRUE] IN
       /\ cfg' = c
       /\ to' = Dedup(c.list)
  /\ phase' = "accept"
  /\ tries' = [r \in Rcpts |-> 0]
  /\ idx' = 0 /\ accepted' = <<>> /\ errs' = NoErrs /\ failed' = <<>> /\ newTo' = <<>>
  /\ rerr' = NoErrs
  /\ obs' = ObsInit(Rcpts)
  /\ hist' = <<>>
  /\ l' = l + 1 /\ drift' = FALSE /\ driftAt' = 0 /\ tno' = Ev.t

C_QAccept  == IsEv("QAccept") /\ ToSet(Ev.rcpts) = ToSet(cfg.list) /\ QAccept
C_TStart   == IsEv("TStart") /\ TStart(Ev.res)
C_TAddRcpt == IsEv("TAddRcpt") /\ phase = "rcpt" /\ idx <= Len(to) /\ to[idx] = Ev.r /\ TAddRcpt(Ev.res)
C_TBody    == IsEv("TBody") /\ TBody(Ev.res)
C_TBodyNA  == IsEv("TBodyNA") /\ DOMAIN Ev.st = ToSet(accepted) /\ TBodyNA(Ev.st)
C_TCommit  == IsEv("TCommit") /\ TCommit(Ev.res)
C_TAbort   == IsEv("TAbort") /\ (TAbortNoRcpt \/ TAbortAllFailed)
C_Dsn      == IsEv("Dsn") /\ Ev.stage \in BounceStages /\ ToSet(Ev.rcpts) = ToSet(failed) /\ Dsn(Ev.stage)
C_Quiesced == IsEv("Quiesced") /\ Ev.spoolEmpty /\ Quiesce
C_End      == IsEv("End") /\ UNCHANGED vars

Conform ==
  \/ C_QAccept \/ C_TStart \/ C_TAddRcpt \/ C_TBody \/ C_TBodyNA
  \/ C_TCommit \/ C_TAbort \/ C_Dsn \/ C_Quiesced \/ C_End

Final(e) == e \in {"Quiesced", "End"}

C_Step ==
  /\ ~drift
  /\ Conform
  /\ Keep
  /\ IF Final(Ev.e) THEN Publish(FALSE, 0, obs') ELSE TRUE

ObsApply(o, e) ==
  CASE e.e = "QAccept"  -> ObsAccept(o, ToSet(e.rcpts))
    [] e.e = "TStart"   -> ObsStart(o, e.res, cfg.mt)
    [] e.e = "TAddRcpt" -> ObsAddRcpt(o, e.r, e.res, cfg.mt)
    [] e.e = "TBody"    -> ObsBody(o, e.res)
    [] e.e = "TBodyNA"  -> ObsBodyNA(o, e.st)
    [] e.e = "TCommit"  -> ObsCommit(o, e.res, cfg.mt)
    [] e.e = "TAbort"   -> ObsAbort(o, cfg.mt)
    [] e.e = "Dsn"      -> ObsDsn(o, ToSet(e.rcpts), Suppress(cfg))
    [] e.e = "Quiesced" -> ObsQuiesced(o, Suppress(cfg), e.spoolEmpty)
    [] OTHER -> o

M_Step ==
  /\ l <= Len(Trace) /\ Ev.e # "Cfg"
  /\ (drift \/ ~ENABLED Conform)
  /\ drift' = TRUE
  /\ driftAt' = IF drift THEN driftAt ELSE Ev.seq
  /\ obs' = ObsApply(obs, Ev)
  /\ l' = l + 1
  /\ UNCHANGED <<cfg, phase, to, tries, idx, accepted, errs, failed, newTo, rerr, hist, tno>>
  /\ IF Final(Ev.e) THEN Publish(TRUE, driftAt', obs') ELSE TRUE

TNext == TReset \/ C_Step \/ M_Step
TSpec == TInit /\ [][TNext]_tvars
Post == PrintT(<<"VERDICTS", ToJson(TLCGet(1))>>)
=============================================================================
