\* behaviour generation: tlc -simulate num=N -depth 27 -config Auth_gen.cfg Auth.tla  (prints BEH lines)
SPECIFICATION Spec
CONSTANTS
  Variants = {"plain", "upper", "nfd", "wide"}
  BadVariants = {"space", "zwj"}
  Pws = {"empty", "a", "b", "nfc", "l72", "l73", "long", "long2"}
  Schemes = {"bcrypt", "argon2", "sha256"}
  Maps = {"none", "identity", "s_ab", "s_swap", "s_id", "s_ba", "s_proj", "r_strip", "r_append", "b_local", "b_localopt"}
  Norms = {"auto", "precis_casefold"}
  Kinds = {"Create", "SetPw", "Delete", "AuthPlain", "AuthLogin", "AuthPair", "AuthDirect", "SOpen", "SEhlo", "SAuth", "SMail", "SRset", "SClose"}
  UxVariants = {"plain", "under", "underb", "pct"}
  Tbls = {"mem", "sql"}
  Defers = {TRUE, FALSE}
  MailFroms = {"addr", "null", "nullparam", "upper", "utf8"}
  Doms = {"ascii"}
  EmailVariants = {}
  MaxOps = 12
  Devs = {}
  Gen = TRUE
CHECK_DEADLOCK FALSE
CONSTRAINT Steer
