SPECIFICATION Spec
CONSTANTS
  Addrs = {"a", "aC", "b", "u", "x", "s", "f"}
  MaxList = 2
  MaxMsgs = 1
  Norms = {"precis_casefold_email", "noop"}
  DMaps = {FALSE, TRUE}
  NFilts = {0, 1}
  Out1 = {"e", "n", "wF", "x"}
  Out2 = {"n", "r"}
  JBoxes = {"none", "special"}
  JunkNames = {"Junk"}
  QuarSet = {FALSE, TRUE}
  WatchSet = {TRUE}
  EnvActs = {"Delete", "Login"}
  DelAccts = {"b"}
  Faults = TRUE
  Devs = {}
  Gen = FALSE
VIEW View
INVARIANTS NoViolation TypeOK OneCopy
PROPERTIES Atomic Terminates
