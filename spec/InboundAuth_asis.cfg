\* the code's known deviations switched on: AsIsSatisfiesProp is EXPECTED to be violated
SPECIFICATION Spec
CONSTANTS
  MaxSig = 1
  Devs = {"ErrDefaultsIgnore", "FailOpenBroken", "NoBodySubset", "ForgedArKept"}
  Gen = FALSE
  DocSubset = "no"
INVARIANTS AsIsSatisfiesProp
CHECK_DEADLOCK FALSE
