SPECIFICATION Spec
CONSTANTS
  Full = FALSE
  Devs = {}
  Gen = FALSE
INVARIANTS RuleSatisfiesProp RuleDecides
CHECK_DEADLOCK FALSE
