\* X09 Dovecot protocol, side cli, exhaustive in the thorough bound
SPECIFICATION Spec
CONSTANTS
  Side = "cli"
  MaxReq = 2
  MaxRep = 2
  Full = TRUE
  Devs = {}
  Gen = FALSE
INVARIANTS RuleSatisfiesProp ScriptShape
CHECK_DEADLOCK FALSE
