------------------------------ MODULE LocalStore ------------------------------
(***************************************************************************)
(* Design specification of maddy's local delivery into the IMAP storage:   *)
(* internal/storage/imapsql/delivery.go (Start/AddRcpt/Body/Abort/Commit)  *)
(* over go-imap-sql's Delivery (AddRcpt, UserMailbox, SpecialMailbox,      *)
(* Mailbox, BodyParsed, Commit, Abort), the account resolution configured  *)
(* in imapsql.go (delivery_normalize, delivery_map), the imap_filter group *)
(* and the account life-cycle around it (DeleteIMAPAcct, the auto-creation *)
(* of GetOrCreateIMAPAcct).                                                *)
(*                                                                         *)
(* One action per call on the delivery; the environment chooses the        *)
(* envelope (cfg.msgs), what every filter answers for every account        *)
(* (outs), which blob-store write fails (fault), account removal and       *)
(* auto-creation between the calls, and how the delivery ends.             *)
(*                                                                         *)
(* Deviations (behaviour of the code that the statement forbids), switched *)
(* by the constant Devs:                                                   *)
(*   "CaseKey"    delivery.AddRcpt keys its duplicate table and the filter *)
(*                overrides by the account name as normalized, the backend *)
(*                by the lower-cased name: with a case-preserving          *)
(*                delivery_normalize two spellings of one account are two  *)
(*                recipients (two copies) and the filter result of a       *)
(*                differently-cased spelling is dropped.                   *)
(*   "MapErrPerm" a failing delivery_map lookup is answered like a miss    *)
(*                (501 5.1.1 User does not exist).                         *)
(*   "BlobLeak"   go-imap-sql's Delivery.Abort never learns the keys of    *)
(*                the blobs Body wrote: they stay in the message store.    *)
(*   "EarlyNotify" go-imap-sql announces every insert of Body to the IMAP  *)
(*                sessions that have the mailbox selected at once, before  *)
(*                Commit - and also when the delivery is then aborted.     *)
(***************************************************************************)
EXTENDS LocalStoreObs, TLC, SequencesExt, Json

CONSTANTS Addrs,      \* abstract addresses used in envelopes
          MaxList,    \* longest recipient list
          MaxMsgs,    \* deliveries per behaviour
          Norms,      \* values of delivery_normalize
          DMaps,      \* subset of BOOLEAN: delivery_map configured
          NFilts,     \* numbers of filters in imap_filter {}
          Out1, Out2, \* answers of the first / second filter (ids of OutRec)
          JBoxes,     \* "none" | "special" (account a owns Spam with \Junk) | "plain" (a, b own a plain junk_mailbox)
          JunkNames,  \* values of junk_mailbox
          QuarSet,    \* subset of BOOLEAN: quarantine flag of a message
          WatchSet,   \* subset of BOOLEAN: an IMAP session has INBOX of account a selected
          EnvActs,    \* subset of {"Delete", "Login"}: environment steps allowed (each once)
          DelAccts,   \* accounts the environment may remove
          Faults,     \* BOOLEAN: blob-store write faults explored
          Devs,       \* enabled deviations
          Gen         \* TRUE: keep the behaviour history and print complete behaviours

VARIABLES cfg,     \* [norm, dmap, nf, jbox, junkName, watch, msgs]  fixed per behaviour
          phase,   \* "idle" "open" "body" "fail" "end"
          mi,      \* number of the current / last message
          idx,     \* next position in the recipient list
          ks,      \* accepted recipients of the open delivery, in order: [acct, cv, ad]
          store,   \* committed mailbox content (set of snapshot records)
          pend,    \* content added by the open transaction
          exists,  \* accounts existing
          blobs,   \* the open delivery has written blobs
          leak,    \* blobs of an aborted delivery are still in the message store
          told,    \* messages announced (EXISTS) to the session watching INBOX of account a
          ann,     \* inserts of the open transaction into that mailbox not announced yet
          envDone, \* environment steps taken
          used,    \* deviations this behaviour exercised
          obs,     \* observation state (LocalStoreObs)
          hist

vars == <<cfg, phase, mi, idx, ks, store, pend, exists, blobs, leak, told, ann, envDone, used, obs, hist>>
View == <<cfg, phase, mi, idx, ks, store, pend, exists, blobs, leak, told, ann, envDone, used, obs>>

Lists == UNION {[1..k -> Addrs] : k \in 1..MaxList}
MsgRecs == [list : Lists, quar : QuarSet]
Cfgs == [norm : Norms, dmap : DMaps, nf : NFilts, jbox : JBoxes, junkName : JunkNames, watch : WatchSet,
         msgs : UNION {[1..k -> MsgRecs] : k \in 1..MaxMsgs}]

H(e) == IF Gen THEN Append(hist, e) ELSE hist
MsgId(i) == "m" \o ToString(i)
CurMsg == cfg.msgs[mi]
CurList == CurMsg.list

InitWith(c) ==
  /\ cfg = c
  /\ phase = "idle" /\ mi = 0 /\ idx = 0 /\ ks = <<>>
  /\ store = {} /\ pend = {} /\ exists = StartAccts
  /\ blobs = FALSE /\ leak = FALSE /\ told = 0 /\ ann = 0 /\ envDone = {} /\ used = {}
  /\ obs = ObsInit
  /\ hist = <<>>

Init == \E c \in Cfgs : InitWith(c)

\* seeded random configurations for -simulate (the full set Cfgs is too large to enumerate there)
RandSeq(n, S) == [i \in 1..n |-> RandomElement(S)]
RandCfg(k) ==
  [norm |-> RandomElement(Norms), dmap |-> RandomElement(DMaps), nf |-> RandomElement(NFilts),
   jbox |-> RandomElement(JBoxes), junkName |-> RandomElement(JunkNames), watch |-> RandomElement(WatchSet),
   msgs |-> [j \in 1..RandomElement(1..MaxMsgs) |->
               [list |-> RandSeq(RandomElement(1..MaxList), Addrs), quar |-> RandomElement(QuarSet)]]]
SimInit == \E k \in 1..3000 : InitWith(RandCfg(k))

(***************************************************************************)
(* Start                                                                   *)
(***************************************************************************)
Start ==
  /\ phase = "idle" /\ mi < Len(cfg.msgs)
  /\ mi' = mi + 1 /\ idx' = 1 /\ ks' = <<>> /\ pend' = {} /\ blobs' = FALSE
  /\ phase' = "open"
  /\ obs' = ObsTold(ObsStart(obs, MsgId(mi + 1), cfg.msgs[mi + 1].quar, store), told, store)
  /\ hist' = H([a |-> "Start", msg |-> mi + 1, quar |-> cfg.msgs[mi + 1].quar])
  /\ ann' = 0
  /\ UNCHANGED <<cfg, store, exists, leak, told, envDone, used>>

(***************************************************************************)
(* AddRcpt: resolve the address, refuse what has no account, skip what was *)
(* accepted already                                                        *)
(***************************************************************************)
CaseVar(ad) == "CaseKey" \in Devs /\ ~cfg.dmap /\ CaseOnly(cfg.norm, Kind(ad))
HasKey(a, cv) == \E i \in 1..Len(ks) : ks[i].acct = a /\ ks[i].cv = cv

RcptRes(ad) ==
  LET r == Resolve(cfg, ad) IN
  IF r = "err" THEN (IF "MapErrPerm" \in Devs THEN "perm" ELSE "temp")
  ELSE IF r \in AllAccts /\ HasKey(r, CaseVar(ad)) THEN "ok"      \* accepted before: nothing is looked up
  ELSE IF r \in exists THEN "ok" ELSE "perm"

AddRcpt ==
  /\ phase = "open" /\ idx <= Len(CurList)
  /\ LET ad  == CurList[idx]
         r   == Resolve(cfg, ad)
         res == RcptRes(ad)
         cv  == CaseVar(ad)
     IN /\ ks' = IF res = "ok" /\ ~HasKey(r, cv) THEN Append(ks, [acct |-> r, cv |-> cv, ad |-> ad]) ELSE ks
        /\ used' = used \cup (IF res = "ok" /\ cv THEN {"CaseKey"} ELSE {})
                        \cup (IF r = "err" /\ "MapErrPerm" \in Devs THEN {"MapErrPerm"} ELSE {})
        /\ obs' = ObsTold(ObsAddRcpt(obs, cfg, ad, res, store), told, store)
        /\ hist' = H([a |-> "AddRcpt", ad |-> ad])
  /\ idx' = idx + 1
  /\ UNCHANGED <<cfg, phase, mi, store, pend, exists, blobs, leak, told, ann, envDone>>

(***************************************************************************)
(* Environment: an account is removed / created between two calls          *)
(***************************************************************************)
Delete(acct) ==
  /\ "Delete" \in EnvActs \ envDone /\ phase \in {"idle", "open"}
  /\ acct \in DelAccts \cap exists
  /\ exists' = exists \ {acct}
  /\ store' = {r \in store : r.acct # acct}
  /\ envDone' = envDone \cup {"Delete"}
  /\ obs' = ObsTold(ObsDelete(obs, acct, store'), told, store')
  /\ hist' = H([a |-> "Delete", acct |-> acct])
  /\ UNCHANGED <<cfg, phase, mi, idx, ks, pend, blobs, leak, told, ann, used>>

Login ==
  /\ "Login" \in EnvActs \ envDone /\ phase \in {"idle", "open"}
  /\ "u" \notin exists
  /\ exists' = exists \cup {"u"}
  /\ envDone' = envDone \cup {"Login"}
  /\ obs' = ObsTold(ObsLogin(obs, "u", "ok", store), told, store)
  /\ hist' = H([a |-> "Login", acct |-> "u"])
  /\ UNCHANGED <<cfg, phase, mi, idx, ks, store, pend, blobs, leak, told, ann, used>>

(***************************************************************************)
(* Body: filters (not for quarantined messages), target mailboxes, one     *)
(* insert per accepted recipient inside one transaction                    *)
(***************************************************************************)
KAccts == {ks[i].acct : i \in 1..Len(ks)}
OutsSet(accs, nf) ==
  IF nf = 0 THEN {<<>>}
  ELSE IF nf = 1 THEN {<<f1>> : f1 \in [accs -> Out1]}
  ELSE {<<f1, f2>> : f1 \in [accs -> Out1], f2 \in [accs -> Out2]}

\* the overrides a filter result sets reach the backend only under the lower-case account name
Effective(outs, a) == IF HasKey(a, FALSE) THEN outs ELSE <<>>
BoxOf(quar, outs, a) ==
  IF quar THEN JunkOf(cfg, a)
  ELSE LET f == FolderOf(Effective(outs, a), a) IN IF f # "" /\ HasFolder(a, f) THEN f ELSE "INBOX"
Copies(a) == Cardinality({i \in 1..Len(ks) : ks[i].acct = a})
Added(quar, outs) ==
  {[acct |-> a, mbox |-> BoxOf(quar, outs, a), msg |-> MsgId(mi), dt |-> a,
    hdr |-> TRUE, body |-> TRUE, rp |-> TRUE,
    flags |-> IF quar THEN {} ELSE FlagsOf(Effective(outs, a), a), n |-> Copies(a)] : a \in KAccts}
Calls(quar, outs) ==
  IF quar THEN {}
  ELSE {[f |-> i, acct |-> ks[j].acct, ad |-> ks[j].ad] : i \in 1..Len(outs), j \in 1..Len(ks)}

\* inserts into INBOX of account a among the first n recipients (each is announced to the watching session)
InboxAUpTo(quar, outs, n) ==
  IF ~cfg.watch THEN 0
  ELSE Cardinality({i \in 1..n : ks[i].acct = "a" /\ BoxOf(quar, outs, "a") = "INBOX"})

Dead == {i \in 1..Len(ks) : ks[i].acct \notin exists}
MinOf(S) == CHOOSE x \in S : \A y \in S : x <= y
\* position of the recipient whose insert fails (0 = none)
FailAt(quar, fault) ==
  LET S == Dead \cup (IF fault > 0 THEN {fault} ELSE {}) IN IF S = {} THEN 0 ELSE MinOf(S)

Body(outs, fault) ==
  /\ phase = "open" /\ idx > Len(CurList) /\ ks # <<>>
  /\ LET quar == CurMsg.quar
         fa   == FailAt(quar, fault)
         res  == IF fa = 0 THEN "ok" ELSE "fail"
     IN /\ phase' = IF fa = 0 THEN "body" ELSE "fail"
        /\ pend' = IF fa = 0 THEN Added(quar, outs) ELSE {}
        \* a quarantined message resolves the junk mailboxes of all recipients first
        /\ blobs' = IF fa = 0 THEN TRUE ELSE (fa > 1 /\ ~(quar /\ Dead # {}))
        \* the inserts made before the failing one (all, when none fails)
        /\ LET done == IF quar /\ Dead # {} THEN 0 ELSE IF fa = 0 THEN Len(ks) ELSE fa - 1
               k    == InboxAUpTo(quar, outs, done)
           IN IF "EarlyNotify" \in Devs
              THEN /\ told' = told + k /\ ann' = 0
                   /\ used' = used \cup (IF k > 0 THEN {"EarlyNotify"} ELSE {})
              ELSE /\ told' = told /\ ann' = (IF fa = 0 THEN k ELSE 0) /\ used' = used
        /\ obs' = ObsTold(ObsBody(obs, cfg, outs, Calls(quar, outs), fault, res, store), told', store)
        /\ hist' = H([a |-> "Body", outs |-> outs, fault |-> fault])
  /\ UNCHANGED <<cfg, mi, idx, ks, store, exists, leak, envDone>>

Commit ==
  /\ phase = "body"
  /\ store' = store \cup pend
  /\ pend' = {} /\ ks' = <<>> /\ blobs' = FALSE
  /\ phase' = "idle"
  /\ told' = told + ann /\ ann' = 0
  /\ obs' = ObsTold(ObsCommit(obs, "ok", store'), told', store')
  /\ hist' = H([a |-> "Commit"])
  /\ UNCHANGED <<cfg, mi, idx, exists, leak, envDone, used>>

Abort ==
  /\ phase \in {"open", "body", "fail"}
  /\ pend' = {} /\ ks' = <<>> /\ blobs' = FALSE
  /\ leak' = (leak \/ (blobs /\ "BlobLeak" \in Devs))
  /\ used' = used \cup (IF blobs /\ "BlobLeak" \in Devs THEN {"BlobLeak"} ELSE {})
  /\ phase' = "idle"
  /\ ann' = 0
  /\ obs' = ObsTold(ObsAbort(obs, store), told, store)
  /\ hist' = H([a |-> "Abort"])
  /\ UNCHANGED <<cfg, mi, idx, store, exists, told, envDone>>

End ==
  /\ phase = "idle" /\ mi = Len(cfg.msgs)
  /\ phase' = "end"
  /\ obs' = ObsEnd(obs, IF leak THEN 1 ELSE 0)
  /\ hist' = H([a |-> "End"])
  /\ IF Gen THEN PrintT(<<"BEH", ToJson([cfg |-> cfg, hist |-> hist'])>>) ELSE TRUE
  /\ UNCHANGED <<cfg, mi, idx, ks, store, pend, exists, blobs, leak, told, ann, envDone, used>>

FaultSet == IF Faults THEN 0..Len(ks) ELSE {0}

Next ==
  \/ Start \/ AddRcpt \/ Login \/ Commit \/ Abort \/ End
  \/ \E acct \in DelAccts : Delete(acct)
  \/ (phase = "open" /\ \E outs \in OutsSet(KAccts, IF CurMsg.quar THEN 0 ELSE cfg.nf), fault \in FaultSet :
                            Body(outs, fault))
  \/ (phase = "end" /\ ~Gen /\ UNCHANGED vars)

Spec == Init /\ [][Next]_vars /\ WF_vars(Next)
SimSpec == SimInit /\ [][Next]_vars

(***************************************************************************)
(* Properties                                                              *)
(***************************************************************************)
NoViolation == obs.viol = {}
TypeOK ==
  /\ phase \in {"idle", "open", "body", "fail", "end"}
  /\ mi \in 0..MaxMsgs
  /\ exists \subseteq AllAccts
  /\ \A r \in store \cup pend : r.acct \in AllAccts /\ r.n >= 1
\* the transaction is atomic: the committed content changes only in Commit (and account removal)
Atomic == [][store' # store => (phase = "body" \/ exists' # exists)]_vars
\* one copy per account and message in the design (without deviations)
OneCopy == \A a \in AllAccts, i \in 1..MaxMsgs : SumN({r \in store : r.acct = a /\ r.msg = MsgId(i)}) <= 1
Terminates == <>(phase = "end")
=============================================================================
