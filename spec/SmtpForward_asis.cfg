\* reference configuration (bin/check X20 generates its configurations from lib/checks/x20.py): as-is, both deviations on: must violate NoViolation
SPECIFICATION Spec
CONSTANTS
  Kinds = {"smtp", "lmtp"}
  Schemes = {"tcp", "tls", "unix"}
  MaxEp = 1
  Outs = {"up"}
  StlsDirs = {"dflt", "yes", "no", "ayes", "ano"}
  RtlsDirs = {"none", "yes"}
  Auths = {"off", "plain"}
  Srcs = {"auth"}
  AuthRs = {"ok", "rej5"}
  MailRs = {"ok", "t4", "p5", "drop"}
  RcptRs = {"ok", "p5"}
  BodyRs = {"ok", "d4", "dot5"}
  MaxRcpt = 2
  Devs = {"RequireTlsIgnored", "StarttlsOnImplicitTls"}
  Gen = FALSE
VIEW View
INVARIANTS NoViolation
CHECK_DEADLOCK FALSE

