----------------------------- MODULE ProxyProto -----------------------------
(***************************************************************************)
(* Extension X17: the PROXY protocol support of maddy's endpoints          *)
(* (internal/proxy_protocol/proxy_protocol.go: ProxyProtocolDirective,     *)
(* NewListener, on top of github.com/c0va23/go-proxyprotocol v0.9.1) and   *)
(* how the source address of a session is established.                     *)
(*                                                                         *)
(* Pattern B with the rule written as the steps of the code.  A row `in`   *)
(* is one accepted connection:                                             *)
(*   layer  "raw"  ProxyProtocolDirective over the configuration text +    *)
(*                 NewListener over an in-memory listener whose peers have *)
(*                 arbitrary addresses; the accepted net.Conn is read the  *)
(*                 way go-smtp / go-imap do (RemoteAddr, Read to EOF)      *)
(*          "smtp" | "smtps" | "imap"  the real endpoint (Init ->          *)
(*                 setConfig -> setupListeners) on a loopback socket; the  *)
(*                 address is the one the session hands to the pipeline    *)
(*                 (ConnState.RemoteAddr seen by a check / IMAP: by the    *)
(*                 auth. provider's log)                                   *)
(*   cfg    [mode  "none" (no directive) | "on",                           *)
(*           trust set of Entries (empty = bare directive: everybody is    *)
(*                 trusted),                                               *)
(*           form  "args" (proxy_protocol E1 E2) | "block" (trust E1 E2    *)
(*                 inside the block),                                      *)
(*           tls   the block has a `tls` directive]                        *)
(*   peer   who connects (real address of the TCP / UNIX connection)       *)
(*   hdr    what the peer sends first (see Hdrs)                           *)
(*   split  how the bytes are cut into writes: "whole" header and payload  *)
(*          in one write (pipelining), "sep" header | payload, "sig" cut   *)
(*          inside the signature, "mid" cut inside the v1 line / inside    *)
(*          the 4 bytes after the v2 signature, "addr" cut inside the v2   *)
(*          address block                                                  *)
(* Answer of the real code:                                                *)
(*   cfgerr  the configuration was refused                                 *)
(*   served  the payload could be read to its end without an error         *)
(*   addr    "real" | "ann" (the announced source, IP and port) | "other"  *)
(*   stream  "payload" (exactly the payload) | "all" (header bytes and     *)
(*           payload, nothing stripped) | "other" | "na" (not served)      *)
(*   panic   reading the connection panicked (go-smtp and go-imap read in  *)
(*           a goroutine without recover: the process dies)                *)
(*   next    a later well-formed connection to the same listener is served *)
(*                                                                         *)
(* Deviations of HEAD (named, switched by Devs):                           *)
(*   "V6SingleAs32"   a trust entry without "/" gets "/32" appended, also  *)
(*                    when it is an IPv6 address: 2001:db8:1::10 trusts    *)
(*                    2001:db8::/32 (proxy_protocol.go:42-44)              *)
(*   "V1ShortPanics"  a v1 line with nothing after "PROXY" indexes         *)
(*                    headerParts[1] out of range (text_receive.go:56)     *)
(*   "V2ShortRead"    the v2 parser takes one bufio.Reader.Read for the 4  *)
(*                    bytes after the signature and one for the address    *)
(*                    block; a header that arrives in two TCP segments is  *)
(*                    refused, or accepted with a zero-filled address and  *)
(*                    its tail left in the stream (binary_receive.go:55,   *)
(*                    72)                                                  *)
(***************************************************************************)
EXTENDS Integers, Sequences, FiniteSets, TLC, Json

CONSTANTS Devs,      \* deviations switched on
          Gen,       \* print the rows
          Layers,    \* subset of {"raw", "smtp", "smtps", "imap"}
          MaxTrust   \* bound on the size of a trust list

VARIABLES in, pc, st

vars == <<in, pc, st>>

-----------------------------------------------------------------------------
(* Addresses.  p4a 192.0.2.10, p4b 192.0.2.77, p4c 198.51.100.5,           *)
(* p6a 2001:db8:1::10, p6b 2001:db8:1::77, p6c 2001:db8:2::5,              *)
(* p6d 2001:dead::1, unix = a UNIX socket peer; lo1 127.0.0.1, lo2         *)
(* 127.0.0.2 are the peers of the socket layers.                           *)
RawPeers == {"p4a", "p4b", "p4c", "p6a", "p6b", "p6c", "p6d", "unix"}
SockPeers == {"lo1", "lo2"}
(* Entries.  e4s 192.0.2.10, e4n 192.0.2.0/24, e6s 2001:db8:1::10,         *)
(* e6n 2001:db8:1::/48; socket layers: elo 127.0.0.1, eln 127.0.0.0/31     *)
RawEntries == {"e4s", "e4n", "e6s", "e6n"}
SockEntries == {"elo", "eln"}

Covers(e, devs) ==
  CASE e = "e4s" -> {"p4a"}
    [] e = "e4n" -> {"p4a", "p4b"}
    [] e = "e6s" -> {"p6a"} \cup (IF "V6SingleAs32" \in devs THEN {"p6b", "p6c"} ELSE {})
    [] e = "e6n" -> {"p6a", "p6b"}
    [] e = "elo" -> {"lo1"}
    [] e = "eln" -> {"lo1"}      \* 127.0.0.0/31 = 127.0.0.0, 127.0.0.1

HdrAddr   == {"v1tcp4", "v1tcp6", "v2tcp4", "v2tcp6", "v2tlv4"}   \* well-formed, announce an address
HdrNoAddr == {"v1unk", "v1unkx", "v2local", "v2unspec"}           \* well-formed, announce nothing
HdrNone   == {"none", "garbage"}                                  \* no PROXY signature at all
HdrTrunc  == {"trunc1", "trunc2"}                                 \* connection closed inside the header
HdrBad    == {"v1short", "v1space", "v1badproto", "v1badip", "v1badport", "v1fewaddr", "v1lf",
              "v2badver", "v2badcmd", "v2shortaddr"}
HdrValid  == HdrAddr \cup HdrNoAddr
HdrMalformed == HdrBad \cup HdrTrunc
Hdrs == HdrValid \cup HdrNone \cup HdrMalformed
IsV2(h) == h \in {"v2tcp4", "v2tcp6", "v2tlv4", "v2local", "v2unspec"}

SplitsOf(h) ==
  IF h \in HdrAddr \cup HdrNoAddr
  THEN {"whole", "sep", "sig", "mid"} \cup (IF h \in {"v2tcp4", "v2tcp6", "v2tlv4"} THEN {"addr"} ELSE {})
  ELSE IF h \in HdrTrunc \/ h = "none" THEN {"sep"} ELSE {"whole", "sep"}

TrustSets(E) == {s \in SUBSET E : Cardinality(s) <= MaxTrust}

RawCfgs == {[mode |-> "none", trust |-> {}, form |-> "args", tls |-> FALSE]}
   \cup {[mode |-> "on", trust |-> t, form |-> f, tls |-> x] :
           t \in TrustSets(RawEntries), f \in {"args", "block"}, x \in BOOLEAN}
SockCfgs == {[mode |-> "none", trust |-> {}, form |-> "args", tls |-> FALSE]}
   \cup {[mode |-> "on", trust |-> t, form |-> "block", tls |-> FALSE] : t \in TrustSets(SockEntries)}

CfgOK(c) == c.mode = "on" /\ c.trust = {} /\ ~c.tls => c.form = "args"     \* one spelling of the bare directive

RawRows == IF "raw" \in Layers
           THEN {[layer |-> "raw", cfg |-> c, peer |-> p, hdr |-> h, split |-> s] :
                   c \in {x \in RawCfgs : CfgOK(x)}, p \in RawPeers, h \in Hdrs, s \in {"whole", "sep", "sig", "mid", "addr"}}
           ELSE {}
SockHdrs == {"none", "v1tcp4", "v2tcp4", "v1unk", "v2local", "v1badip", "v2badver"}
SockRows == {[layer |-> l, cfg |-> c, peer |-> p, hdr |-> h, split |-> "sep"] :
               l \in Layers \ {"raw"}, c \in {x \in SockCfgs : CfgOK(x)}, p \in SockPeers, h \in SockHdrs}
Rows == {r \in RawRows \cup SockRows :
           /\ r.split \in SplitsOf(r.hdr)
           /\ r.cfg.mode = "none" => r.split \in {"whole", "sep"}
           /\ (r.layer # "raw" /\ r.cfg.mode = "none") => r.hdr = "none"}

-----------------------------------------------------------------------------
(* The documented trust relation (Devs = {}) and the one of the code.      *)
TrustedW(i, devs) ==
  /\ i.cfg.mode = "on"
  /\ \/ i.cfg.trust = {}
     \/ i.peer = "unix"
     \/ \E e \in i.cfg.trust : i.peer \in Covers(e, devs)
Trusted(i) == TrustedW(i, {})

-----------------------------------------------------------------------------
(* The rule, as the steps of the code.  st is the connection's state:      *)
(*   trusted  result of the source checker (Listener.Accept)               *)
(*   res      result of the header parser on first use (Conn.parseHeader): *)
(*            "addr" | "noaddr" | "nohdr" | "err" | "eof" | "panic" |      *)
(*            "addrbad" (address zero-filled, tail left in the stream) |   *)
(*            "leak" (no address, tail left in the stream) | "off" (no     *)
(*            directive: nothing looks at the stream)                      *)
Start == [trusted |-> FALSE, res |-> "-", out |-> "-"]

SourceCheck(i, s, devs) == [s EXCEPT !.trusted = TrustedW(i, devs)]

ParseRes(i, devs) ==
  LET h == i.hdr
      short == "V2ShortRead" \in devs /\ IsV2(h)
  IN CASE i.cfg.mode = "none" -> "off"
       [] h \in HdrNone -> "nohdr"
       [] h = "trunc1" -> "eof"      \* EOF inside the v1 line: the reader sees a plain end of stream
       [] h = "trunc2" -> "err"      \* EOF inside the v2 header
       [] h = "v1short" -> IF "V1ShortPanics" \in devs THEN "panic" ELSE "err"
       [] h \in HdrBad \ {"v1short"} -> "err"
       [] short /\ i.split = "mid" /\ h \in HdrAddr -> "err"
       [] short /\ i.split = "mid" /\ h \in HdrNoAddr -> "leak"
       [] short /\ i.split = "addr" -> "addrbad"
       [] h \in HdrAddr -> "addr"
       [] OTHER -> "noaddr"

ParseHeader(i, s, devs) == [s EXCEPT !.res = ParseRes(i, devs)]

StreamAll(i) == IF i.hdr = "none" THEN "payload" ELSE "all"

(* what the reader of the accepted connection gets (Conn.Read, Conn.RemoteAddr, *)
(* under the tls.Conn of the block's tls directive when configured)             *)
Deliver(i, s) ==
  LET r == s.res
      dirty == r \in {"addrbad", "leak"} \/ (r = "nohdr" /\ i.hdr = "garbage")   \* bytes that are no TLS record
      tlsfail == i.cfg.tls /\ dirty      \* (EOF before the first TLS record is a plain end of stream)
      served == r \in {"off", "addr", "noaddr", "nohdr", "addrbad", "leak", "eof"} /\ ~tlsfail
      addr == IF s.trusted /\ r = "addr" THEN "ann"
              ELSE IF s.trusted /\ r = "addrbad" THEN "other" ELSE "real"
      stream == IF ~served THEN "na"
                ELSE IF r \in {"off", "nohdr"} THEN StreamAll(i)
                ELSE IF r \in {"addrbad", "leak"} THEN "other"
                ELSE "payload"
  IN [cfgerr |-> FALSE, served |-> served, addr |-> addr, stream |-> stream, panic |-> r = "panic", next |-> TRUE]

RuleWith(i, devs) == Deliver(i, ParseHeader(i, SourceCheck(i, Start, devs), devs))
Rule(i) == RuleWith(i, {})
RuleD(i) == RuleWith(i, Devs)

(* equality of answers: after a panic only the panic is compared *)
Same(i, a, b) == IF a.panic \/ b.panic THEN a.panic = b.panic /\ a.next = b.next /\ a.cfgerr = b.cfgerr
                 ELSE a = b

-----------------------------------------------------------------------------
(* The property, declaratively (names of the violated clauses).            *)
Viol(i, o) ==
  LET on == i.cfg.mode = "on"
      tr == Trusted(i)
  IN IF o.cfgerr THEN {"ConfigurationRefused"} ELSE
     (IF o.panic THEN {"MalformedHeaderPanics"} ELSE {})
     \cup (IF ~o.next THEN {"ListenerWedged"} ELSE {})
     \cup (IF ~tr /\ o.addr # "real" THEN {"UntrustedPeerSetAddress"} ELSE {})
     \cup (IF tr /\ i.hdr \in HdrAddr /\ o.served /\ o.addr # "ann" THEN {"AnnouncedAddressNotUsed"} ELSE {})
     \cup (IF i.hdr \notin HdrAddr /\ o.addr # "real" THEN {"AddressFromNowhere"} ELSE {})
     \cup (IF on /\ tr /\ i.hdr \in HdrValid /\ ~o.panic /\ ~o.served THEN {"ValidHeaderRefused"} ELSE {})
     \cup (IF ~on /\ ~o.panic /\ ~o.served THEN {"PlainConnectionRefused"} ELSE {})
     \cup (IF o.served /\ on /\ i.hdr \in HdrValid /\ o.stream # "payload" THEN {"StreamCorrupted"} ELSE {})
     \cup (IF o.served /\ (~on \/ i.hdr \in HdrNone) /\ o.stream # StreamAll(i) THEN {"StreamCorrupted"} ELSE {})
     \cup (IF o.served /\ on /\ i.hdr \in HdrMalformed /\ o.stream \notin {"payload", "all"} THEN {"StreamCorrupted"} ELSE {})

-----------------------------------------------------------------------------
(* TLC: one behaviour per row, one step per call of the code.              *)
Init == in \in Rows /\ pc = "accept" /\ st = Start

Accept ==          \* proxyprotocol.Listener.Accept -> maddy's sourceChecker
  /\ pc = "accept" /\ in.cfg.mode = "on"
  /\ st' = SourceCheck(in, st, Devs) /\ pc' = "first" /\ UNCHANGED in
AcceptPlain ==     \* no directive: the raw listener's connection
  /\ pc = "accept" /\ in.cfg.mode = "none"
  /\ st' = [st EXCEPT !.res = "off"] /\ pc' = "parsed" /\ UNCHANGED in
ParseText ==       \* Conn.parseHeader, TextHeaderParser takes the stream
  /\ pc = "first" /\ ~IsV2(in.hdr) /\ in.hdr \notin HdrNone /\ in.hdr \notin {"trunc2", "v2badver", "v2badcmd", "v2shortaddr"}
  /\ st' = ParseHeader(in, st, Devs) /\ pc' = "parsed" /\ UNCHANGED in
ParseBinary ==     \* BinaryHeaderParser takes the stream
  /\ pc = "first" /\ (IsV2(in.hdr) \/ in.hdr \in {"trunc2", "v2badver", "v2badcmd", "v2shortaddr"})
  /\ st' = ParseHeader(in, st, Devs) /\ pc' = "parsed" /\ UNCHANGED in
ParseStub ==       \* neither signature: StubHeaderParser, the stream is passed on
  /\ pc = "first" /\ in.hdr \in HdrNone
  /\ st' = ParseHeader(in, st, Devs) /\ pc' = "parsed" /\ UNCHANGED in
Serve ==           \* the endpoint reads the connection and asks for RemoteAddr
  /\ pc = "parsed"
  /\ st' = [st EXCEPT !.out = Deliver(in, st)] /\ pc' = "done" /\ UNCHANGED in
Next == Accept \/ AcceptPlain \/ ParseText \/ ParseBinary \/ ParseStub \/ Serve
Spec == Init /\ [][Next]_vars

StepsAgree == pc = "done" => st.out = RuleD(in)
RuleSatisfiesProp == pc = "done" => Viol(in, st.out) = {}
AsIsSatisfiesProp == RuleSatisfiesProp
(* a deviation may only break the clauses listed for it (kept next to the findings) *)
DevExplains == pc = "done" =>
   Viol(in, st.out) \subseteq
      (IF "V6SingleAs32" \in Devs THEN {"UntrustedPeerSetAddress"} ELSE {})
      \cup (IF "V1ShortPanics" \in Devs THEN {"MalformedHeaderPanics"} ELSE {})
      \cup (IF "V2ShortRead" \in Devs THEN {"ValidHeaderRefused", "StreamCorrupted", "AnnouncedAddressNotUsed"} ELSE {})

SeqOfSet(S) == CHOOSE s \in [1..Cardinality(S) -> S] : \A a, b \in 1..Cardinality(S) : a # b => s[a] # s[b]
InJ(i) == [layer |-> i.layer, mode |-> i.cfg.mode, trust |-> SeqOfSet(i.cfg.trust), form |-> i.cfg.form,
           tls |-> i.cfg.tls, peer |-> i.peer, hdr |-> i.hdr, split |-> i.split]
Emit == (Gen /\ pc = "done") => PrintT(<<"ROW", ToJson([in |-> InJ(in), exp |-> st.out, trusted |-> Trusted(in)])>>)
=============================================================================
