------------------------------ MODULE PoolObs ------------------------------
(***************************************************************************)
(* Observation state and property predicates of the outbound connection    *)
(* pool internal/smtpconn/pool (property C19).  Pure functions of events   *)
(* visible at the pool's API and at the connection objects handed to it:   *)
(*   GetCall(w, key, now) / GetReturn(w, c, fresh, now)                    *)
(*   GetFail(w)                  Get returned an error: w holds nothing    *)
(*   ReturnCall(w, c, now) / ReturnReturn(w)                               *)
(*   ConnClose(c, byHolder)      Close() of a connection object            *)
(*   Break(c)                    the peer dropped an idle connection       *)
(*   PoolCloseCall / PoolCloseReturn                                       *)
(*   Panic, End(hung)                                                      *)
(* Reading (DESIGN 2.5): a hand-out counts as "after shutdown" only when   *)
(* the Get was called after Close returned; expiry is judged at the time   *)
(* of the Get call; "eventually handed out again or closed" is demanded of *)
(* connections whose Return completed before Close was called, at the end  *)
(* of a run in which Close returned.                                       *)
(***************************************************************************)
EXTENDS Naturals, Sequences, FiniteSets

ObsInit ==
  [ st       |-> << >>,    \* conn -> "held" | "idle" | "closed"
    holder   |-> << >>,    \* conn -> worker (while held)
    closes   |-> << >>,    \* conn -> number of Close calls
    lastUse  |-> << >>,    \* conn -> time of last use
    safeRet  |-> {},       \* conns whose Return completed while the pool was live
    retBy    |-> << >>,    \* worker inside Return -> conn
    getAt    |-> << >>,    \* worker inside Get -> <<time of the call, shutdown state at the call>>
    closeSt  |-> "no",     \* "no" "called" "returned"
    viol     |-> {} ]

V(o, c, name) == IF c THEN o ELSE [o EXCEPT !.viol = @ \cup {name}]
Has(f, k) == k \in DOMAIN f
Put(f, k, v) == [x \in DOMAIN f \cup {k} |-> IF x = k THEN v ELSE f[x]]
Del(f, k) == [x \in DOMAIN f \ {k} |-> f[x]]

ObsGetCall(o, w, now) == [o EXCEPT !.getAt = Put(o.getAt, w, <<now, o.closeSt>>)]

\* life = MaxConnLifetime in clock units
ObsGetReturn(o, w, c, fresh, now, life) ==
  LET at == IF Has(o.getAt, w) THEN o.getAt[w] ELSE <<now, o.closeSt>>
      o0 == [o EXCEPT !.getAt = Del(o.getAt, w)]
  IN IF fresh
     THEN [o0 EXCEPT !.st = Put(o.st, c, "held"), !.holder = Put(o.holder, c, w),
                     !.closes = Put(o.closes, c, 0), !.lastUse = Put(o.lastUse, c, now)]
     ELSE LET known == Has(o.st, c)
              o1 == V(o0, known, "HandedOutUnknownConn")
              o2 == V(o1, known => o.st[c] # "held", "HeldByTwo")
              o3 == V(o2, known => o.closes[c] = 0, "HandedOutClosed")
              o4 == V(o3, known => at[1] <= o.lastUse[c] + life, "HandedOutExpired")
              o5 == V(o4, at[2] # "returned", "HandedOutAfterShutdown")
          IN [o5 EXCEPT !.st = Put(o.st, c, IF known /\ o.closes[c] > 0 THEN "closed" ELSE "held"),
                        !.holder = Put(o.holder, c, w),
                        !.closes = IF known THEN o.closes ELSE Put(o.closes, c, 0),
                        !.lastUse = Put(o.lastUse, c, now),
                        !.safeRet = @ \ {c}]

\* Get returned an error (dead context / dial failure): nothing was handed out.  A pooled
\* connection the failed Get consumed keeps its state "idle": unless it is closed it is a
\* leak at shutdown.
ObsGetFail(o, w) == [o EXCEPT !.getAt = Del(o.getAt, w)]

ObsReturnCall(o, w, c) ==
  [o EXCEPT !.st = IF Has(o.st, c) /\ o.st[c] = "held" THEN Put(o.st, c, "idle") ELSE o.st,
            !.retBy = Put(o.retBy, w, c)]

ObsReturnReturn(o, w) ==
  LET c == o.retBy[w] IN
  [o EXCEPT !.retBy = Del(o.retBy, w),
            !.safeRet = IF o.closeSt = "no" /\ o.st[c] = "idle" THEN @ \cup {c} ELSE @]

ObsConnClose(o, c, byHolder) ==
  LET known == Has(o.st, c)
      n == (IF known THEN o.closes[c] ELSE 0) + 1
      o1 == V(o, n <= 1, "ClosedTwice")
      o2 == V(o1, byHolder \/ ~known \/ o.st[c] # "held", "ClosedWhileHeld")
  IN [o2 EXCEPT !.closes = Put(o.closes, c, n), !.st = Put(o.st, c, "closed")]

ObsPoolCloseCall(o) == [o EXCEPT !.closeSt = "called"]
ObsPoolCloseReturn(o) == [o EXCEPT !.closeSt = "returned"]
ObsPanic(o) == V(o, FALSE, "Crash")

ObsEnd(o, hung) ==
  LET o1 == V(o, hung = {}, "Hang")
      leaked == {c \in o.safeRet : o.st[c] = "idle"}
  IN V(o1, o.closeSt # "returned" \/ leaked = {}, "LeakedAfterShutdown")
=============================================================================
