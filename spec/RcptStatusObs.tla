--------------------------- MODULE RcptStatusObs ---------------------------
(***************************************************************************)
(* Observation state and property predicates for per-recipient results    *)
(* (property C09, delivery-target part).  Pure functions of what is       *)
(* visible at the module.DeliveryTarget / StatusCollector boundary:       *)
(*   - the addresses handed to AddRcpt, exactly as given, and whether the *)
(*     target accepted them,                                              *)
(*   - the (address, result) pairs the target handed to the collector     *)
(*     passed to BodyNonAtomic,                                           *)
(*   - the fault plan installed in the scripted next hop for that         *)
(*     transaction (what the next hop answered for which recipient).      *)
(*                                                                         *)
(* Addresses are abstract identities; the harness maps them to concrete   *)
(* strings and back ("other" = a string that is none of the known ones):  *)
(*   a1  u1@example.invalid      a2  u2@example.invalid                   *)
(*   cv  U1@example.invalid      (case variant of a1, a different string) *)
(*   nl  u-umlaut@example.invalid (non-ASCII local part)                   *)
(*   idn u3@e-acute.invalid      (IDN domain, U-label)                     *)
(*   idn_ace u3@xn--9ca.invalid  (what idn becomes for a next hop without *)
(*                                SMTPUTF8; ALSO a spelling a client may   *)
(*                                supply itself: two recipients that       *)
(*                                differ as given and coincide on the wire)*)
(***************************************************************************)
EXTENDS Naturals, Sequences, FiniteSets

Given == {"a1", "a2", "cv", "nl", "idn", "idn_ace"}   \* addresses a client may supply
Doms  == {"D1", "D2"}
Dom(r) == IF r \in {"idn", "idn_ace"} THEN "D2" ELSE "D1"
(* wire form for a next hop without SMTPUTF8 *)
Conv(r, utf8) == IF ~utf8 /\ r = "idn" THEN "idn_ace" ELSE r

Count(s, x) == Cardinality({i \in 1..Len(s) : s[i] = x})

(* plan = [mail : [Doms -> {"ok","temp"}],  MAIL reply per next-hop connection   *)
(*         rcpt : [Given -> {"ok","perm"}],  RCPT reply per address               *)
(*         data : [Doms -> {"ok","temp","perm"}]  SMTP: DATA refused 451 / final  *)
(*                                           dot refused 554, per connection      *)
(*         st   : [Given -> {"ok","temp","perm"}], LMTP: reply per recipient      *)
(*         src : "ok" | "noopen" | "readfail" | "reset"  the body cannot be opened /  *)
(*                       its reader fails half-way / the next hop resets the           *)
(*                       connection in mid-DATA                                        *)
(*         late : 0..3   list position whose RCPT reply arrives only after             *)
(*                       command_timeout (0 = none)                                    *)
(*         quar : 0..3   the message is put in quarantine (MsgMetadata.Quarantine,     *)
(*                       a body-stage check) right after the AddRcpt call of this      *)
(*                       list position (0 = never; = length of the list: between the   *)
(*                       last AddRcpt and the body step)                               *)
(*         drop : 0..3]  LMTP: the next hop answers for the first `drop` accepted *)
(*                       recipients after the final dot, then the connection      *)
(*                       breaks (drop >= number of accepted recipients: no break) *)
(* the results the next hop gave for the accepted recipient r (one per time it    *)
(* was accepted; "lost" = no answer arrived, any failure is a truthful report)    *)
Quar(plan) == IF "quar" \in DOMAIN plan THEN plan.quar ELSE 0   \* replay files older than the field
TruthSet(kind, plan, acc, r) ==
  (IF kind = "lmtp"
   THEN IF plan.data["D1"] # "ok" THEN {plan.data["D1"]}
        ELSE {IF i <= plan.drop THEN plan.st[r] ELSE "lost" : i \in {j \in 1..Len(acc) : acc[j] = r}}
   ELSE {plan.data[Dom(r)]})
  \* a transport fault (body source fails, connection reset in mid-DATA, a reply overdue) may
  \* turn any result into a failure
  \cup (IF plan.src # "ok" \/ plan.late > 0 THEN {"lost"} ELSE {})
  \* a target may refuse to pass on a quarantined message: its own refusal is a truthful failure
  \cup (IF Quar(plan) > 0 THEN {"lost"} ELSE {})
Truthful(v, t) == IF t = "lost" THEN v # "ok" ELSE v = t

ObsInit == [acc |-> <<>>, plan |-> <<>>, n |-> 0, viol |-> {}]

V(o, c, name) == IF c THEN o ELSE [o EXCEPT !.viol = @ \cup {[p |-> name, m |-> o.n]}]

ObsTxn(o, plan) == [o EXCEPT !.acc = <<>>, !.plan = plan, !.n = @ + 1]

(* the per-recipient body step did not return (it panicked): whatever was handed to the collector *)
(* so far is void for the caller, which can only discard the delivery                             *)
ObsPanic(o) == V(o, FALSE, "BodyStepDidNotReturn")

ObsTxnEnd(o) == [o EXCEPT !.acc = <<>>, !.plan = <<>>]

(* an acceptance reported to the caller must be the next hop's acceptance of THAT recipient *)
ObsAddRcpt(o, r, res) ==
  LET o1 == IF res = "ok" THEN [o EXCEPT !.acc = Append(@, r)] ELSE o
  IN IF o.plan = <<>> THEN o1
     ELSE V(o1, res = "ok" => o.plan.rcpt[r] = "ok", "AcceptanceOfAnotherRecipient")

(* sts : sequence of [k, v] the collector received during BodyNonAtomic *)
(* the part of the statement that needs no knowledge of what the next hop answered *)
ObsStatusKeys(o, sts) ==
  LET keys == [i \in 1..Len(sts) |-> sts[i].k]
      accS == {o.acc[i] : i \in 1..Len(o.acc)}
      o1 == V(o,  \A i \in 1..Len(sts) : sts[i].k \in accS, "StatusForOtherAddress")
      o2 == V(o1, \A r \in accS : Count(keys, r) >= 1, "MissingStatus")
  IN V(o2, \A r \in accS : Count(keys, r) <= Count(o.acc, r), "DuplicateStatus")

ObsStatuses(o, kind, sts) ==
  LET accS == {o.acc[i] : i \in 1..Len(o.acc)}
  IN V(ObsStatusKeys(o, sts),
       \A i \in 1..Len(sts) : sts[i].k \in accS =>
          \E t \in TruthSet(kind, o.plan, o.acc, sts[i].k) : Truthful(sts[i].v, t),
       "ResultOfAnotherRecipient")
=============================================================================
