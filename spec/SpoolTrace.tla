----------------------------- MODULE SpoolTrace -----------------------------
(* Trace validation for Spool.tla (C10).  Events: Cfg, Accept, Scan, Hand + Delivered (one
   attempt), Restart (crash = the stop was abrupt and came before the first attempt), End.  Same scheme as QueueTrace (C_Step / M_Step / verdict at End). *)
EXTENDS Spool, SequencesExt

Trace == ndJsonDeserialize("trace.ndjson")
VARIABLES l, drift, driftAt, tno
tvars == <<vars, l, drift, driftAt, tno>>

Ev == Trace[l]
IsEv(e) == l <= Len(Trace) /\ Ev.e = e
Publish(d, da, o) ==
  TLCSet(1, TLCGet(1) \cup {[t |-> tno, drift |-> d, driftAt |-> da, viol |-> o.viol]})

AnyMsg == [hdr |-> "plain", body |-> "small", sender |-> "null", utf8 |-> FALSE, reqtls |-> FALSE,
           tlsov |-> FALSE, omap |-> FALSE, auth |-> "none"]

TInit ==
  /\ msg = AnyMsg /\ mem = None /\ disk = None /\ pending = Rcpts /\ phase = "new"
  /\ steps = 0 /\ restarts = 0 /\ obs = ObsInit /\ hist = <<>>
  /\ l = 1 /\ drift = FALSE /\ driftAt = 0 /\ tno = 0
  /\ TLCSet(1, {})

TReset ==
  /\ IsEv("Cfg")
  /\ msg' = Ev.msg
  /\ mem' = None /\ disk' = None /\ pending' = Rcpts /\ phase' = "new"
  /\ steps' = 0 /\ restarts' = 0 /\ obs' = ObsInit /\ hist' = <<>>
  /\ l' = l + 1 /\ drift' = FALSE /\ driftAt' = 0 /\ tno' = Ev.t

C_Accept == IsEv("Accept") /\ Accept /\ l' = l + 1
C_AcceptRefused == IsEv("AcceptRefused") /\ AcceptRefused /\ l' = l + 1
C_Scan ==
  /\ IsEv("Scan")
  /\ Ev.tainted = (disk.k = "rec" /\ disk.conn = "creds")
  /\ obs' = ObsScan(obs, Ev.tainted)
  /\ l' = l + 1
  /\ UNCHANGED <<msg, mem, disk, pending, phase, steps, restarts, hist>>
C_Attempt ==
  /\ IsEv("Hand") /\ l + 1 <= Len(Trace) /\ Trace[l + 1].e = "Delivered"
  /\ LET src == IF mem.k = "rec" THEN mem ELSE Reloaded(disk) IN
       /\ phase = "queued"
       /\ Ev.m = src.m /\ ToSet(Ev.rcpts) = src.pending
  /\ Attempt(ToSet(Trace[l + 1].d), ToSet(Trace[l + 1].p))
  /\ l' = l + 2
C_Restart == IsEv("Restart") /\ (IF Ev.crash THEN CrashRestart ELSE Restart) /\ l' = l + 1
C_End == IsEv("End") /\ phase = "done" /\ Emit /\ l' = l + 1

Conform == C_Accept \/ C_AcceptRefused \/ C_Scan \/ C_Attempt \/ C_Restart \/ C_End

C_Step ==
  /\ ~drift /\ Conform
  /\ UNCHANGED <<drift, driftAt, tno>>
  /\ IF Ev.e = "End" THEN Publish(FALSE, 0, obs') ELSE TRUE

ObsApply(o, e) ==
  CASE e.e = "Accept"    -> ObsAccept(o, msg, Rcpts)
    [] e.e = "Hand"      -> ObsHand(o, e.m, ToSet(e.rcpts))
    [] e.e = "Delivered" -> ObsDelivered(o, ToSet(e.d) \cup ToSet(e.p))
    [] e.e = "Scan"      -> ObsScan(o, e.tainted)
    [] OTHER -> o

M_Step ==
  /\ l <= Len(Trace) /\ Ev.e # "Cfg"
  /\ (drift \/ ~ENABLED Conform)
  /\ drift' = TRUE
  /\ driftAt' = IF drift THEN driftAt ELSE Ev.seq
  /\ obs' = ObsApply(obs, Ev)
  /\ l' = l + 1
  /\ UNCHANGED <<msg, mem, disk, pending, phase, steps, restarts, hist, tno>>
  /\ IF Ev.e = "End" THEN Publish(TRUE, driftAt', obs') ELSE TRUE

TNext == TReset \/ C_Step \/ M_Step
TSpec == TInit /\ [][TNext]_tvars
Post == PrintT(<<"VERDICTS", ToJson(TLCGet(1))>>)
=============================================================================
