------------------------------ MODULE TimeWheel ------------------------------
(***************************************************************************)
(* Design specification of the queue scheduler of internal/target/queue:   *)
(* timewheel.go (Add, Close, tick) and the part of queue.go wrapped around *)
(* it (dispatch goroutine with WaitGroup, semaphore, attempt, re-Add,      *)
(* panic containment -> .meta_broken; Queue.Close = wheel.Close + Wait).   *)
(*                                                                         *)
(* Granularity: one action per scheduling point of the code instrumented   *)
(* by harness/cmd/instrument (every channel operation, atomic operation,   *)
(* Lock(), WaitGroup operation and goroutine start).  A value of a program *)
(* counter names the operation the process is parked in front of; a        *)
(* suffix b = durably blocked inside it, r/p = woken (returning normally / *)
(* panicking).  Channels are rendezvous channels with Go semantics.        *)
(*                                                                         *)
(*   adder p   ab store message | a0 call | a1 load stopped | a2 lock,push,unlock |           *)
(*             a3 send updateNotify | a3b | a3r | a3p | done               *)
(*   closer    c0 call | c1 store stopped | c2 send stopNotify | c2b |     *)
(*             c3 recv stopNotify | c3b | c4 close(updateNotify) |         *)
(*             c5 deliveryWg.Wait | c5b | c5r | done                       *)
(*   tick      t0 | t1 lock,scan,unlock,new timer | t2 select | t2b |      *)
(*             t3 lock,remove,unlock,dispatch() | t4 wg.Add | t5 go |      *)
(*             ts send stopNotify | tsb | done                             *)
(*   worker e  w0 | w1 acquire semaphore | w1b | w1r | (attempt) |         *)
(*             wa1 wa2 wa3 wa3b = Add of the retry | w5 release semaphore  *)
(*             | w6 wg.Done, recover -> rename to .meta_broken | done      *)
(*                                                                         *)
(* Named deviation (constant Devs):                                        *)
(*   "AddCloseWindow"  as the code is: Close ends with close(updateNotify) *)
(*        and Add ends with a plain send on it, so an Add that passed the  *)
(*        stopped test panics with "send on closed channel" (finding 14).  *)
(*   Without it the spec is the repaired design: Close closes a separate   *)
(*        channel and Add selects between the send and that channel.       *)
(***************************************************************************)
EXTENDS TimeWheelObs, TLC, Json, SequencesExt

CONSTANTS NAdders,     \* producers are named p1..pN; the entry of producer p is named p
          DueSet,      \* due times a producer may ask for
          RetrySets,   \* sets of producers whose first attempt fails temporarily (retry once)
          PanicSets,   \* sets of producers whose first attempt panics inside the target
          RetryDelay,
          CloseSet,    \* {TRUE}, {FALSE} or BOOLEAN: scenarios with / without shutdown
          ParSet,      \* capacities of the delivery semaphore
          MaxTime,     \* the clock runs freely up to MaxTime
          Devs,
          Gen,         \* TRUE: record the schedule, print complete behaviours
          DelayBound   \* >= 1000: every interleaving; smaller k: delay-bounded schedules only

AdderSeq == [i \in 1..NAdders |-> "p" \o ToString(i)]
Adders == ToSet(AdderSeq)
R(p) == p \o ".2"                      \* entry of the retry of message p
Entries == Adders \cup {R(p) : p \in Adders}
MsgOf(e) == IF e \in Adders THEN e ELSE CHOOSE p \in Adders : R(p) = e
None == [e |-> "", due |-> 0]
AsIs == "AddCloseWindow" \in Devs

VARIABLES cfg,        \* [due : [Adders -> Nat], close, retry \subseteq Adders, par, hdr \subseteq retry]
          now,
          stopped, slots, updClosed, doneClosed,
          apc, cpc, tpc,
          tnow, closest, timerAt,      \* locals of tick
          wpc, wdue, wpanic,           \* workers, indexed by entry
          sem, semq, wg,
          spool, broken,
          ended,
          obs,
          hist, cur, delays

wheelV == <<stopped, slots, updClosed, doneClosed>>
tickV  == <<tpc, tnow, closest, timerAt>>
workV  == <<wpc, wdue, wpanic>>
queueV == <<sem, semq, wg, spool, broken>>
schedV == <<hist, cur, delays>>
vars == <<cfg, now, wheelV, apc, cpc, tickV, workV, queueV, ended, obs, schedV>>
View == <<cfg, now, wheelV, apc, cpc, tickV, workV, queueV, ended, obs>>

Cfgs == [due : [Adders -> DueSet], close : CloseSet, retry : RetrySets, par : ParSet, hdr : {{}}, panic : PanicSets]

InitWith(c) ==
  /\ cfg = c /\ now = 0
  /\ stopped = FALSE /\ slots = {} /\ updClosed = FALSE /\ doneClosed = FALSE
  /\ apc = [p \in Adders |-> IF p \in DOMAIN c.due THEN "ab" ELSE "idle"]
  /\ cpc = IF c.close THEN "c0" ELSE "none"
  /\ tpc = "t0" /\ tnow = 0 /\ closest = None /\ timerAt = 0
  /\ wpc = [e \in Entries |-> "none"] /\ wdue = [e \in Entries |-> 0]
  /\ wpanic = [e \in Entries |-> FALSE]
  /\ sem = 0 /\ semq = <<>> /\ wg = 0 /\ spool = {} /\ broken = {}
  /\ ended = FALSE
  /\ obs = ObsInit
  /\ hist = <<>> /\ cur = 1 /\ delays = 0

Init == \E c \in Cfgs : InitWith(c)

(* ------------------------------------------------------------------------ *)
(* tick's reaction to a value d received from updateNotify                  *)
TickUpd(d) ==
  IF closest = None \/ ~(closest.due <= d)
  THEN tpc' = "t1" /\ tnow' = now /\ UNCHANGED <<closest, timerAt>>
  ELSE tpc' = "t2" /\ UNCHANGED <<tnow, closest, timerAt>>

UpdSenders == {<<"a", p>> : p \in {x \in Adders : apc[x] = "a3b"}}
              \cup {<<"w", e>> : e \in {x \in Entries : wpc[x] = "wa3b"}}
SenderDue(s) == IF s[1] = "a" THEN cfg.due[s[2]] ELSE wdue[s[2]]

(* ------------------------------------------------------------------------ *)
(* producers: TimeWheel.Add called from outside (queueDelivery.Commit)      *)
\* Start / AddRcpt / Body: the message is stored in the spool; Commit (-> Add) is a later step
AB(p) == /\ apc[p] = "ab"
         /\ apc' = [apc EXCEPT ![p] = "a0"]
         /\ spool' = spool \cup {p}
         /\ UNCHANGED <<cfg, now, wheelV, cpc, tickV, workV, sem, semq, wg, broken, ended, obs>>

A0(p) == /\ apc[p] = "a0"
         /\ apc' = [apc EXCEPT ![p] = "a1"]
         /\ obs' = ObsAddCall(obs, p, p, cfg.due[p])
         /\ UNCHANGED <<cfg, now, wheelV, cpc, tickV, workV, queueV, ended>>

A1(p) == /\ apc[p] = "a1"
         /\ IF stopped
            THEN apc' = [apc EXCEPT ![p] = "done"] /\ obs' = ObsAddReturn(obs, p)
            ELSE apc' = [apc EXCEPT ![p] = "a2"] /\ UNCHANGED obs
         /\ UNCHANGED <<cfg, now, wheelV, cpc, tickV, workV, queueV, ended>>

A2(p) == /\ apc[p] = "a2"
         /\ slots' = slots \cup {[e |-> p, due |-> cfg.due[p]]}
         /\ apc' = [apc EXCEPT ![p] = "a3"]
         /\ UNCHANGED <<cfg, now, stopped, updClosed, doneClosed, cpc, tickV, workV, queueV, ended, obs>>

A3(p) == /\ apc[p] = "a3"
         /\ IF AsIs /\ updClosed
            THEN /\ apc' = [apc EXCEPT ![p] = "done"] /\ obs' = ObsAddPanic(obs, p)
                 /\ UNCHANGED tickV
            ELSE IF ~AsIs /\ doneClosed
            THEN /\ apc' = [apc EXCEPT ![p] = "done"] /\ obs' = ObsAddReturn(obs, p)
                 /\ UNCHANGED tickV
            ELSE IF tpc = "t2b"
            THEN /\ apc' = [apc EXCEPT ![p] = "done"] /\ obs' = ObsAddReturn(obs, p)
                 /\ TickUpd(cfg.due[p])
            ELSE /\ apc' = [apc EXCEPT ![p] = "a3b"] /\ UNCHANGED <<obs, tickV>>
         /\ UNCHANGED <<cfg, now, wheelV, cpc, workV, queueV, ended>>

\* continuation of a producer woken inside the send
A3w(p) == /\ apc[p] \in {"a3r", "a3p"}
          /\ apc' = [apc EXCEPT ![p] = "done"]
          /\ obs' = IF apc[p] = "a3r" THEN ObsAddReturn(obs, p) ELSE ObsAddPanic(obs, p)
          /\ UNCHANGED <<cfg, now, wheelV, cpc, tickV, workV, queueV, ended>>

(* ------------------------------------------------------------------------ *)
(* Queue.Close = TimeWheel.Close; deliveryWg.Wait                           *)
C0 == /\ cpc = "c0" /\ cpc' = "c1" /\ obs' = ObsCloseCall(obs)
      /\ UNCHANGED <<cfg, now, wheelV, apc, tickV, workV, queueV, ended>>

C1 == /\ cpc = "c1" /\ cpc' = "c2" /\ stopped' = TRUE
      /\ UNCHANGED <<cfg, now, slots, updClosed, doneClosed, apc, tickV, workV, queueV, ended, obs>>

C2 == /\ cpc = "c2"
      /\ IF tpc = "t2b" THEN cpc' = "c3" /\ tpc' = "ts" ELSE cpc' = "c2b" /\ UNCHANGED tpc
      /\ UNCHANGED <<cfg, now, wheelV, apc, tnow, closest, timerAt, workV, queueV, ended, obs>>

C3 == /\ cpc = "c3"
      /\ IF tpc = "tsb" THEN cpc' = "c4" /\ tpc' = "done" ELSE cpc' = "c3b" /\ UNCHANGED tpc
      /\ UNCHANGED <<cfg, now, wheelV, apc, tnow, closest, timerAt, workV, queueV, ended, obs>>

\* as-is: close(updateNotify), blocked senders panic; repaired: close(done), they return
C4 == /\ cpc = "c4" /\ cpc' = "c5"
      /\ IF AsIs THEN updClosed' = TRUE /\ UNCHANGED doneClosed
                 ELSE doneClosed' = TRUE /\ UNCHANGED updClosed
      /\ apc' = [p \in Adders |-> IF apc[p] = "a3b" THEN (IF AsIs THEN "a3p" ELSE "a3r") ELSE apc[p]]
      /\ wpc' = [e \in Entries |-> IF wpc[e] = "wa3b" THEN "w5" ELSE wpc[e]]
      /\ wpanic' = [e \in Entries |-> IF wpc[e] = "wa3b" THEN AsIs ELSE wpanic[e]]
      /\ UNCHANGED <<cfg, now, stopped, slots, tickV, wdue, queueV, ended, obs>>

C5 == /\ cpc = "c5"
      /\ IF wg = 0 THEN cpc' = "done" /\ obs' = ObsCloseReturn(ObsSpool(obs, "close", spool, broken))
                   ELSE cpc' = "c5b" /\ UNCHANGED obs
      /\ UNCHANGED <<cfg, now, wheelV, apc, tickV, workV, queueV, ended>>

C5w == /\ cpc = "c5r" /\ cpc' = "done"
       /\ obs' = ObsCloseReturn(ObsSpool(obs, "close", spool, broken))
       /\ UNCHANGED <<cfg, now, wheelV, apc, tickV, workV, queueV, ended>>

(* ------------------------------------------------------------------------ *)
(* the timer goroutine                                                      *)
T0 == /\ tpc = "t0" /\ tpc' = "t1" /\ tnow' = now
      /\ UNCHANGED <<cfg, now, wheelV, apc, cpc, closest, timerAt, workV, queueV, ended, obs>>

Earliest == {s \in slots : \A u \in slots : s.due <= u.due}

T1 == /\ tpc = "t1" /\ tpc' = "t2"
      /\ IF slots = {} THEN closest' = None /\ timerAt' = 0
         ELSE \E s \in Earliest :
                /\ closest' = s
                \* time.NewTimer(closest.Time.Sub(now)) with `now` read before the lock
                /\ timerAt' = now + (IF s.due >= tnow THEN s.due - tnow ELSE 0)
      /\ UNCHANGED <<cfg, now, wheelV, apc, cpc, tnow, workV, queueV, ended, obs>>

TimerReady == closest # None /\ now >= timerAt

\* select: any ready case may be taken (the controller chooses the order of the attempts)
T2timer == /\ tpc = "t2" /\ TimerReady /\ tpc' = "t3"
           /\ UNCHANGED <<cfg, now, wheelV, apc, cpc, tnow, closest, timerAt, workV, queueV, ended, obs>>

T2upd(s) == /\ tpc = "t2" /\ s \in UpdSenders
            /\ TickUpd(SenderDue(s))
            /\ IF s[1] = "a"
               THEN apc' = [apc EXCEPT ![s[2]] = "a3r"] /\ UNCHANGED wpc
               ELSE wpc' = [wpc EXCEPT ![s[2]] = "w5"] /\ UNCHANGED apc
            /\ UNCHANGED <<cfg, now, wheelV, cpc, wdue, wpanic, queueV, ended, obs>>

T2stop == /\ tpc = "t2" /\ cpc = "c2b" /\ tpc' = "ts" /\ cpc' = "c3"
          /\ UNCHANGED <<cfg, now, wheelV, apc, tnow, closest, timerAt, workV, queueV, ended, obs>>

T2block == /\ tpc = "t2" /\ ~TimerReady /\ UpdSenders = {} /\ cpc # "c2b" /\ tpc' = "t2b"
           /\ UNCHANGED <<cfg, now, wheelV, apc, cpc, tnow, closest, timerAt, workV, queueV, ended, obs>>

T3 == /\ tpc = "t3" /\ tpc' = "t4"
      /\ slots' = slots \ {closest}
      /\ UNCHANGED <<cfg, now, stopped, updClosed, doneClosed, apc, cpc, tnow, closest, timerAt, workV, queueV, ended, obs>>

T4 == /\ tpc = "t4" /\ tpc' = "t5" /\ wg' = wg + 1
      /\ UNCHANGED <<cfg, now, wheelV, apc, cpc, tnow, closest, timerAt, workV, sem, semq, spool, broken, ended, obs>>

T5 == /\ tpc = "t5" /\ tpc' = "t1" /\ tnow' = now
      /\ wpc' = [wpc EXCEPT ![closest.e] = "w0"]
      /\ UNCHANGED <<cfg, now, wheelV, apc, cpc, closest, timerAt, wdue, wpanic, queueV, ended, obs>>

Ts == /\ tpc = "ts"
      /\ IF cpc = "c3b" THEN tpc' = "done" /\ cpc' = "c4" ELSE tpc' = "tsb" /\ UNCHANGED cpc
      /\ UNCHANGED <<cfg, now, wheelV, apc, tnow, closest, timerAt, workV, queueV, ended, obs>>

(* ------------------------------------------------------------------------ *)
(* the dispatch goroutine of queue.go                                       *)
W0(e) == /\ wpc[e] = "w0" /\ wpc' = [wpc EXCEPT ![e] = "w1"]
         /\ UNCHANGED <<cfg, now, wheelV, apc, cpc, tickV, wdue, wpanic, queueV, ended, obs>>

\* the attempt proper: runs from the acquired semaphore to the next scheduling point
Attempt(e) ==
  LET m == MsgOf(e)
      retry == e \in Adders /\ e \in cfg.retry
  IN IF e \notin Adders /\ m \in cfg.hdr
     THEN \* the header cannot be opened right now (EMFILE, ELOOP, ...): the attempt is given up,
          \* the message stays in the spool for the next start
          wpc' = [wpc EXCEPT ![e] = "w5"] /\ UNCHANGED <<wdue, spool, obs>>
     ELSE IF e \in Adders /\ e \in cfg.panic
     THEN \* the target panics: the deferred function releases the slot, calls Done, recovers and
          \* renames the message to .meta_broken (W5, W6)
          /\ obs' = ObsAttemptPanic(ObsDispatch(obs, e, now), m)
          /\ wpc' = [wpc EXCEPT ![e] = "w5p"] /\ UNCHANGED <<wdue, spool>>
     ELSE
     /\ obs' = LET o1 == ObsDispatch(obs, e, now)
               IN IF retry THEN ObsSched(o1, R(e), now + RetryDelay) ELSE ObsTerminal(o1, m)
     /\ IF retry
        THEN /\ wpc' = [wpc EXCEPT ![e] = "wa1"] /\ wdue' = [wdue EXCEPT ![e] = now + RetryDelay]
             /\ UNCHANGED spool
        ELSE /\ wpc' = [wpc EXCEPT ![e] = "w5"] /\ spool' = spool \ {m} /\ UNCHANGED wdue

W1(e) == /\ wpc[e] = "w1"
         /\ IF sem < cfg.par
            THEN sem' = sem + 1 /\ Attempt(e) /\ UNCHANGED semq
            ELSE /\ wpc' = [wpc EXCEPT ![e] = "w1b"] /\ semq' = Append(semq, e)
                 /\ UNCHANGED <<sem, wdue, spool, obs>>
         /\ UNCHANGED <<cfg, now, wheelV, apc, cpc, tickV, wpanic, wg, broken, ended>>

W1w(e) == /\ wpc[e] = "w1r" /\ Attempt(e)
          /\ UNCHANGED <<cfg, now, wheelV, apc, cpc, tickV, wpanic, sem, semq, wg, broken, ended>>

Wa1(e) == /\ wpc[e] = "wa1"
          /\ wpc' = [wpc EXCEPT ![e] = IF stopped THEN "w5" ELSE "wa2"]
          /\ UNCHANGED <<cfg, now, wheelV, apc, cpc, tickV, wdue, wpanic, queueV, ended, obs>>

Wa2(e) == /\ wpc[e] = "wa2" /\ wpc' = [wpc EXCEPT ![e] = "wa3"]
          /\ slots' = slots \cup {[e |-> R(e), due |-> wdue[e]]}
          /\ UNCHANGED <<cfg, now, stopped, updClosed, doneClosed, apc, cpc, tickV, wdue, wpanic, queueV, ended, obs>>

Wa3(e) == /\ wpc[e] = "wa3"
          /\ IF AsIs /\ updClosed
             THEN wpc' = [wpc EXCEPT ![e] = "w5"] /\ wpanic' = [wpanic EXCEPT ![e] = TRUE] /\ UNCHANGED tickV
             ELSE IF ~AsIs /\ doneClosed
             THEN wpc' = [wpc EXCEPT ![e] = "w5"] /\ UNCHANGED <<wpanic, tickV>>
             ELSE IF tpc = "t2b"
             THEN wpc' = [wpc EXCEPT ![e] = "w5"] /\ TickUpd(wdue[e]) /\ UNCHANGED wpanic
             ELSE wpc' = [wpc EXCEPT ![e] = "wa3b"] /\ UNCHANGED <<wpanic, tickV>>
          /\ UNCHANGED <<cfg, now, wheelV, apc, cpc, wdue, queueV, ended, obs>>

\* deferred: <-deliverySemaphore (a blocked sender, if any, takes the slot over)
W5(e) == /\ wpc[e] \in {"w5", "w5p"}
         /\ LET nx == IF wpc[e] = "w5p" THEN "w6p" ELSE "w6" IN
            IF semq # <<>>
            THEN /\ wpc' = [wpc EXCEPT ![e] = nx, ![Head(semq)] = "w1r"]
                 /\ semq' = Tail(semq) /\ UNCHANGED sem
            ELSE /\ wpc' = [wpc EXCEPT ![e] = nx] /\ sem' = sem - 1 /\ UNCHANGED semq
         /\ UNCHANGED <<cfg, now, wheelV, apc, cpc, tickV, wdue, wpanic, wg, spool, broken, ended, obs>>

\* deferred: deliveryWg.Done(); recover() -> discardBroken
W6(e) == /\ wpc[e] \in {"w6", "w6p"} /\ wpc' = [wpc EXCEPT ![e] = "done"]
         /\ wg' = wg - 1
         /\ cpc' = IF wg = 1 /\ cpc = "c5b" THEN "c5r" ELSE cpc
         /\ IF wpanic[e] \/ wpc[e] = "w6p"
            THEN broken' = broken \cup {MsgOf(e)} /\ spool' = spool \ {MsgOf(e)}
            ELSE UNCHANGED <<broken, spool>>
         /\ UNCHANGED <<cfg, now, wheelV, apc, tickV, wdue, wpanic, sem, semq, ended, obs>>

(* ------------------------------------------------------------------------ *)
AdderStep(p) == AB(p) \/ A0(p) \/ A1(p) \/ A2(p) \/ A3(p)
CloserStep == C0 \/ C1 \/ C2 \/ C3 \/ C4 \/ C5
TickStep == T0 \/ T1 \/ T2timer \/ (\E s \in UpdSenders : T2upd(s)) \/ T2stop \/ T2block
            \/ T3 \/ T4 \/ T5 \/ Ts
WorkerStep(e) == W0(e) \/ W1(e) \/ Wa1(e) \/ Wa2(e) \/ Wa3(e) \/ W5(e) \/ W6(e)
Cont == (\E p \in Adders : A3w(p)) \/ C5w \/ (\E e \in Entries : W1w(e))
ContPending == (\E p \in Adders : apc[p] \in {"a3r", "a3p"}) \/ cpc = "c5r"
               \/ (\E e \in Entries : wpc[e] = "w1r")

EnAdder(p) == apc[p] \in {"ab", "a0", "a1", "a2", "a3"}
EnCloser == cpc \in {"c0", "c1", "c2", "c3", "c4", "c5"}
EnTick == tpc \in {"t0", "t1", "t2", "t3", "t4", "t5", "ts"}
EnWorker(e) == wpc[e] \in {"w0", "w1", "wa1", "wa2", "wa3", "w5", "w5p", "w6", "w6p"}
ProcEnabled == (\E p \in Adders : EnAdder(p)) \/ EnCloser \/ EnTick \/ (\E e \in Entries : EnWorker(e))

\* the clock runs freely up to MaxTime; beyond it only to let a pending timer fire
\* when nothing else can happen (the harness drains a run the same way)
EnClock == \/ now < MaxTime
           \/ (~ProcEnabled /\ ~ContPending /\ tpc = "t2b" /\ closest # None)

ClockBody == /\ now' = now + 1
             /\ IF tpc = "t2b" /\ closest # None /\ now + 1 >= timerAt
                THEN tpc' = "t3" ELSE UNCHANGED tpc
             /\ UNCHANGED <<cfg, wheelV, apc, cpc, tnow, closest, timerAt, workV, queueV, ended, obs>>
Clock == EnClock /\ ~ended /\ ClockBody

Hung == {p \in Adders : apc[p] \notin {"idle", "done"}}
        \cup (IF cpc \in {"none", "done"} THEN {} ELSE {"closer"})
        \cup {"w:" \o e : e \in {x \in Entries : wpc[x] \notin {"none", "done"}}}

CfgJson == [due |-> cfg.due, close |-> cfg.close, retry |-> SetToSeq(cfg.retry), par |-> cfg.par,
            maxTime |-> MaxTime, retryDelay |-> RetryDelay]

End == /\ ~ended /\ ~ProcEnabled /\ ~ContPending /\ ~EnClock
       /\ ended' = TRUE
       /\ obs' = ObsEnd(ObsSpool(obs, "end", spool, broken), Hung, now)
       /\ IF Gen THEN PrintT(<<"BEH", ToJson([cfg |-> CfgJson, sched |-> hist, delays |-> delays])>>)
          ELSE TRUE
       /\ UNCHANGED <<cfg, now, wheelV, apc, cpc, tickV, workV, queueV>>

(* ------------------------------------------------------------------------ *)
(* scheduling: tasks in a fixed cyclic order; running a task other than the *)
(* first enabled one at/after `cur` costs one delay per enabled task skipped *)
NA == Len(AdderSeq)
Tasks == AdderSeq \o <<"closer", "tick">> \o [i \in 1..NA |-> "w:" \o AdderSeq[i]]
         \o [i \in 1..NA |-> "w:" \o R(AdderSeq[i])] \o <<"clock">>
NT == Len(Tasks)
TaskEn(i) ==
  IF i <= NA THEN EnAdder(AdderSeq[i])
  ELSE IF i = NA + 1 THEN EnCloser
  ELSE IF i = NA + 2 THEN EnTick
  ELSE IF i <= 2 * NA + 2 THEN EnWorker(AdderSeq[i - NA - 2])
  ELSE IF i <= 3 * NA + 2 THEN EnWorker(R(AdderSeq[i - 2 * NA - 2]))
  ELSE EnClock
TaskStep(i) ==
  IF i <= NA THEN AdderStep(AdderSeq[i])
  ELSE IF i = NA + 1 THEN CloserStep
  ELSE IF i = NA + 2 THEN TickStep
  ELSE IF i <= 2 * NA + 2 THEN WorkerStep(AdderSeq[i - NA - 2])
  ELSE IF i <= 3 * NA + 2 THEN WorkerStep(R(AdderSeq[i - 2 * NA - 2]))
  ELSE Clock
\* enabled tasks passed over when going cyclically from cur to i
Cost(i) == Cardinality({j \in 1..NT : TaskEn(j) /\ j # i /\
                          (IF cur <= i THEN j >= cur /\ j < i ELSE j >= cur \/ j < i)})
\* how the step shows in the recorded schedule
Label(i) ==
  IF i = NA + 2 /\ tpc = "t2"
  THEN (IF tpc' = "t3" THEN "tick/T" ELSE IF tpc' = "ts" THEN "tick/S"
        ELSE IF tpc' = "t2b" THEN "tick" ELSE "tick/U")
  ELSE Tasks[i]

Free == /\ ~ended
        /\ \/ \E p \in Adders : AdderStep(p) \/ A3w(p)
           \/ CloserStep \/ C5w \/ TickStep
           \/ \E e \in Entries : WorkerStep(e) \/ W1w(e)
           \/ Clock
        /\ UNCHANGED schedV

Bounded ==
  /\ ~ended
  /\ IF ContPending THEN Cont /\ UNCHANGED schedV
     ELSE \E i \in 1..NT :
            /\ TaskEn(i) /\ delays + Cost(i) <= DelayBound
            /\ TaskStep(i)
            /\ cur' = i /\ delays' = delays + Cost(i)
            /\ hist' = Append(hist, Label(i))

Next == \/ (IF DelayBound >= 1000 THEN Free ELSE Bounded)
        \/ (End /\ UNCHANGED schedV)
        \/ (ended /\ ~Gen /\ UNCHANGED vars)

\* fairness is only meaningful when every interleaving is explored (Free)
F(A) == WF_vars(A /\ UNCHANGED schedV)
Fairness == /\ \A p \in Adders : F(AdderStep(p) \/ A3w(p))
            /\ F(CloserStep \/ C5w) /\ F(TickStep) /\ F(Clock) /\ F(End)
            /\ \A e \in Entries : F(WorkerStep(e) \/ W1w(e))

Spec == Init /\ [][Next]_vars /\ Fairness

(* ------------------------------------------------------------------------ *)
(* Properties.  The C12 predicates are evaluated inside TimeWheelObs        *)
(* (dispatched at most once, not early, no crash, no broken mark, nothing   *)
(* removed without outcome, no hang, nothing missed without shutdown).      *)
NoViolation == obs.viol = {}
TypeOK == /\ sem \in 0..cfg.par /\ wg \in 0..Cardinality(Entries)
          /\ \A s \in slots : s.e \in Entries
OnceEach == \A e \in DOMAIN obs.disp : obs.disp[e] <= 1
NoPanic == "Crash" \notin obs.viol /\ \A e \in Entries : ~wpanic[e]
NoBrokenMark == broken \subseteq cfg.panic
\* liveness under weak fairness
Terminates == <>ended
CloseTerminates == cfg.close => <>(cpc = "done")
AddsTerminate == \A p \in Adders : <>(apc[p] \in {"idle", "done"})
EventuallyDispatched ==
  \A p \in Adders : (~cfg.close) => <>(Has(obs.disp, p) /\ obs.disp[p] = 1)
=============================================================================
