--------------------------- MODULE AcctMgmtTrace ---------------------------
(***************************************************************************)
(* Trace validation for AcctMgmt.tla.  trace.ndjson holds the events       *)
(* recorded while the real `maddy` command-line entry point executed the   *)
(* commands of TLC-generated behaviours against real sqlite databases,     *)
(* many traces concatenated: "Cfg" (with the snapshot of the empty         *)
(* installation) starts a trace, every "Cmd" carries the command, how it   *)
(* ended (reported failure, exit status, panic) and the complete snapshot  *)
(* read back through the module APIs afterwards, "List" carries what a     *)
(* read-only command printed, "End" finishes the trace.                    *)
(*                                                                         *)
(* A line is consumed either by the conforming step (the design's          *)
(* Step(c, s, Devs) predicts result, exit status and snapshot exactly) or  *)
(* by the monitor step M_Step, which marks the trace as drifted.  Both     *)
(* fold `obs` with the same operators of AcctMgmtObs.tla over the *logged* *)
(* values (snapshot before = the previous logged snapshot), so obs.viol    *)
(* depends only on what the real code did.  The verdict                    *)
(* [t, drift, driftAt, viol, used] is published in TLC register 1 at End.  *)
(***************************************************************************)
EXTENDS AcctMgmt

Trace == ndJsonDeserialize("trace.ndjson")

VARIABLES l, drift, driftAt, tno, last, uvs

tvars == <<vars, l, drift, driftAt, tno, last, uvs>>

Ev == Trace[l]
IsEv(e) == l <= Len(Trace) /\ Ev.e = e

Publish(d, da, o, u) ==
  TLCSet(1, TLCGet(1) \cup {[t |-> tno, drift |-> d, driftAt |-> da, viol |-> o.viol, diag |-> o.diag, used |-> u]})

SnapOf(x) ==
  [creds  |-> {[name |-> r.name, pw |-> r.pw] : r \in ToSet(x.creds)},
   auth   |-> {[sp |-> r.sp, pw |-> r.pw] : r \in ToSet(x.auth)},
   accts  |-> ToSet(x.accts),
   reach  |-> ToSet(x.reach),
   mboxes |-> {[acct |-> r.acct, name |-> r.name, spc |-> r.spc, uv |-> r.uv, next |-> r.next] : r \in ToSet(x.mboxes)},
   msgs   |-> {[acct |-> r.acct, mbox |-> r.mbox, uid |-> r.uid, body |-> r.body, flags |-> ToSet(r.flags)]
               : r \in ToSet(x.msgs)},
   nuv    |-> x.nuv,
   nblob  |-> x.nblob]
(* the design's own snapshot of the empty installation *)

CmdOf(c) == [k |-> c.k, sp |-> c.sp, pw |-> c.pw, cf |-> c.cf, su |-> c.su, mb |-> c.mb, mb2 |-> c.mb2, spc |-> c.spc,
             fl |-> ToSet(c.fl), uidm |-> c.uidm, lo |-> c.lo, hi |-> c.hi, body |-> c.body, op |-> c.op]

UsedBy(c, x, r) == {d \in Devs : Step(c, x, Devs \ {d}) # r}

TInit ==
  /\ Init
  /\ l = 1 /\ drift = FALSE /\ driftAt = 0 /\ tno = 0 /\ last = Derive(EmptySnap) /\ uvs = {}
  /\ TLCSet(1, {})

TReset ==
  /\ IsEv("Cfg")
  /\ s' = Derive(EmptySnap) /\ step' = 0 /\ seen' = {} /\ used' = {} /\ obs' = [viol |-> {}, diag |-> {}] /\ phase' = "run"
  /\ hist' = <<>>
  /\ last' = SnapOf(Ev.snap) /\ uvs' = {}
  /\ l' = l + 1 /\ tno' = Ev.t
  /\ drift' = (SnapOf(Ev.snap) # Derive(EmptySnap))
  /\ driftAt' = IF drift' THEN Ev.seq ELSE 0

(* the judgement of one logged command, from logged values only; every     *)
(* violated predicate is tagged with the deviations the step needed (u)    *)
Tag(S, u) == {[p |-> x, d |-> u, q |-> Ev.seq] : x \in S}
JudgeCmd(o, e, before, sn, u) ==
  LET c == CmdOf(e.c)
      a == SnapOf(e.snap) IN
  [diag |-> o.diag \cup (IF UvCollision(uvs, c, before, a) THEN {"UvCollision"} ELSE {}),
   viol |-> o.viol \cup Tag(StepViol(c, e.res, e.ez, before, a) \cup StateViol(a)
                             \cup (IF UidReused(sn, a) THEN {"UidReused"} ELSE {})
                             \cup (IF UvRecycled(uvs, c, before, a) THEN {"UvRecycled"} ELSE {})
                             \cup (IF e.panic THEN {"Panic"} ELSE {}), u)]
JudgeList(o, e, before, u) ==
  [diag |-> o.diag,
   viol |-> o.viol \cup Tag(ListViol(CmdOf(e.c), e.res, e.ez, ToSet(e.out), before)
                             \cup (IF e.panic THEN {"Panic"} ELSE {}), u)]

C_Cmd ==
  /\ IsEv("Cmd") /\ ~Ev.panic /\ phase = "run"
  /\ LET c == CmdOf(Ev.c)
         r == Step(c, s, Devs) IN
     /\ r.res = Ev.res /\ r.ez = Ev.ez /\ SameSnap(s, r.s, SnapOf(Ev.snap))
     /\ s' = [SnapOf(Ev.snap) EXCEPT !.nuv = r.s.nuv]
     /\ step' = step + 1
     /\ seen' = seen \cup Keys(s')
     /\ uvs' = uvs \cup UvOf(s) \cup UvOf(s')
     /\ used' = used \cup UsedBy(c, s, r)
     /\ obs' = JudgeCmd(obs, Ev, s, seen, UsedBy(c, s, r))
     /\ last' = s'
  /\ UNCHANGED <<phase, hist>>

C_List ==
  /\ IsEv("List") /\ ~Ev.panic /\ phase = "run"
  /\ LET c == CmdOf(Ev.c)
         x == Listing(c, s, Devs) IN
     /\ (Ev.res = "ok") = x.ok
     /\ Ev.ez = (x.ok \/ "ExitZero" \in Devs)
     /\ x.ok => ToSet(Ev.out) = x.out
     /\ LET u == (IF ~x.ok THEN {"ExitZero"} \cap Devs ELSE {}) \cup {d \in Devs : Listing(c, s, Devs \ {d}) # x} IN
        /\ used' = used \cup u
        /\ obs' = JudgeList(obs, Ev, s, u)
  /\ UNCHANGED <<s, step, seen, phase, hist, last, uvs>>

C_End ==
  /\ IsEv("End") /\ phase = "run"
  /\ phase' = "end"
  /\ UNCHANGED <<s, step, seen, used, obs, hist, last, uvs>>

Conform == C_Cmd \/ C_List \/ C_End

C_Step ==
  /\ ~drift
  /\ Conform
  /\ l' = l + 1 /\ UNCHANGED <<drift, driftAt, tno>>
  /\ IF Ev.e = "End" THEN Publish(FALSE, 0, obs', used') ELSE TRUE

M_Step ==
  /\ l <= Len(Trace) /\ Ev.e # "Cfg"
  /\ (drift \/ ~ENABLED Conform)
  /\ drift' = TRUE
  /\ driftAt' = IF drift THEN driftAt ELSE Ev.seq
  /\ obs' = CASE Ev.e = "Cmd"  -> JudgeCmd(obs, Ev, last, seen, {})
              [] Ev.e = "List" -> JudgeList(obs, Ev, last, {})
              [] OTHER -> obs
  /\ seen' = IF Ev.e = "Cmd" THEN seen \cup Keys(SnapOf(Ev.snap)) ELSE seen
  /\ last' = IF Ev.e = "Cmd" THEN SnapOf(Ev.snap) ELSE last
  /\ uvs' = IF Ev.e = "Cmd" THEN uvs \cup UvOf(last) \cup UvOf(SnapOf(Ev.snap)) ELSE uvs
  /\ l' = l + 1
  /\ UNCHANGED <<s, step, used, phase, hist, tno>>
  /\ IF Ev.e = "End" THEN Publish(TRUE, driftAt', obs', used) ELSE TRUE

TNext == TReset \/ C_Step \/ M_Step
TSpec == TInit /\ [][TNext]_tvars

Post == PrintT(<<"VERDICTS", ToJson(TLCGet(1))>>)
=============================================================================
