-------------------------- MODULE CheckRunnerTrace --------------------------
(***************************************************************************)
(* Trace validation for CheckRunner.tla.  trace.ndjson holds the events    *)
(* recorded from the real msgpipeline.MsgPipeline driven by the harness    *)
(* (harness/checkrunnercheck), many traces concatenated; a "Cfg" event     *)
(* starts a new trace and carries the configuration of the run.            *)
(*                                                                         *)
(* Every line is consumed either by the matching action of CheckRunner.tla *)
(* with the logged arguments (C_Step: conformance, with the deviations of  *)
(* the open known findings enabled; `devs` collects the ones taken), or -  *)
(* when no design action explains it - by the monitor-only step M_Step,    *)
(* which marks the trace as drifted and keeps folding `obs` with the same  *)
(* CheckRunnerObs operators.  obs.viol therefore depends only on the       *)
(* recorded events.  The verdict of each trace is published in TLC         *)
(* register 1 when its final "End" event is consumed.                      *)
(***************************************************************************)
EXTENDS CheckRunner

Trace == ndJsonDeserialize("trace.ndjson")

VARIABLES l,        \* next line of Trace
          drift,    \* the design could not explain some earlier line of this trace
          driftAt,  \* seq number of the first unexplained line (0 = none)
          tno       \* number of the current trace

tvars == <<vars, l, drift, driftAt, tno>>

Ev == Trace[l]
IsEv(e) == l <= Len(Trace) /\ Ev.e = e
Keep == l' = l + 1 /\ UNCHANGED <<drift, driftAt, tno>>

Publish(d, da, o, dv) ==
  TLCSet(1, TLCGet(1) \cup {[t |-> tno, drift |-> d, driftAt |-> da, viol |-> o.viol,
                             devs |-> dv, extra |-> o.extra]})

CfgOf(e) ==
  [place |-> [c \in Checks |-> ToSet(e.place[c])],
   verd  |-> [c \in Checks |-> [s \in Stages |-> e.verd[c][s]]],
   only1 |-> ToSet(e.only1), route |-> e.route, dupof |-> e.dupof, path |-> e.path, dmarc |-> e.dmarc,
   dmvia |-> e.dmvia, early |-> ToSet(e.early), everd |-> ToSet(e.everd), eon |-> e.eon,
   kind |-> e.kind, mod |-> e.mod, mfail |-> ToSet(e.mfail), from |-> "addr", nafin |-> e.nafin, nn |-> 0, cells |-> {}, fixed |-> TRUE]

TInit ==
  /\ InitWith(RemoteCfg)
  /\ l = 1 /\ drift = FALSE /\ driftAt = 0 /\ tno = 0
  /\ TLCSet(1, {})

TReset ==
  /\ IsEv("Cfg")
  /\ LET c == CfgOf(Ev) IN
       /\ cfg' = c
       /\ drv' = [ph |-> IF c.kind = "remote" THEN "remote" ELSE IF c.eon THEN "early" ELSE "start",
                  i |-> 1, acc |-> {}, fin |-> ""]
       /\ metaQ' = (c.kind = "remote")
  /\ k' = [reg |-> {}, seenR |-> [x \in Checks |-> {}], checked |-> <<>>, mq |-> FALSE, bodySeen |-> {}, rejd |-> {}]
  /\ used' = {}
  /\ tg' = [t \in Targets |-> "none"]
  /\ run' = Idle
  /\ devs' = {} /\ delays' = 0
  /\ obs' = ObsInit(Checks)
  /\ hist' = <<>>
  /\ l' = l + 1 /\ drift' = FALSE /\ driftAt' = 0 /\ tno' = Ev.t

C_Cmd  == IsEv("Cmd") /\ run.st = "idle" /\ drv.ph \in {"early", "start", "rcpt", "body", "fin"}
          /\ NextOp = Ev.op /\ NextR = Ev.r /\ Cmd
C_ECall == /\ IsEv("CheckCall") /\ Ev.stage = "early" /\ run.st = "egrp" /\ Ev.c \in run.pend
           /\ Ev.v = (IF Ev.c \in cfg.everd THEN "reject" ELSE "none") /\ Ev.cmd = obs.n
           /\ ECallDone(Ev.c)
C_Call == /\ IsEv("CheckCall") /\ run.st = "grp" /\ Ev.c \in run.pend
          /\ Head(run.items).stage = Ev.stage /\ Head(run.items).arg = Ev.arg
          /\ VerdictOf(cfg, Ev.c, Ev.stage, Ev.arg) = Ev.v /\ Ev.cmd = obs.n
          /\ CallDone(Ev.c)
C_Mod  == /\ IsEv("ModCall") /\ run.st = "mod" /\ Ev.r = run.r /\ Ev.blk = RouteOf(cfg, run.r)
          /\ Ev.res = (IF run.r \in cfg.mfail THEN "err" ELSE "ok")
          /\ Mod
C_Rel  == /\ IsEv("TgtCall") /\ Ev.tgt = "Q1" /\ Ev.op = "relay" /\ Ev.res = (IF metaQ THEN "perm" ELSE "ok") /\ Ev.q = metaQ /\ Relay
C_Tgt  == /\ IsEv("TgtCall") /\ cfg.kind \in {"pipe", "rpipe", "qpipe"} /\ run.st = "tgt"
          /\ \E x \in run.tq :
               /\ x.t = Ev.tgt /\ x.op = Ev.op /\ Ev.res = TgtRes(x) /\ Ev.q = metaQ
               /\ Ev.arg = (IF x.op = "rcpt" THEN run.r ELSE "")
               /\ Tgt(x)
C_Rem  == /\ IsEv("TgtCall") /\ cfg.kind = "remote" /\ Ev.tgt = "remote" /\ Ev.q = metaQ
          /\ \/ Ev.op = "start" /\ Ev.res = "ok" /\ RemoteStart
             \/ Ev.op = "rcpt" /\ Ev.arg = "r1" /\ Ev.res = (IF metaQ THEN "perm" ELSE "ok") /\ RemoteRcpt
C_Ret  == IsEv("Ret") /\ run.st = "ret" /\ run.op = Ev.op /\ run.r = Ev.r /\ run.res = Ev.res /\ Ret
C_End  == IsEv("End") /\ End

Conform == C_Cmd \/ C_ECall \/ C_Call \/ C_Mod \/ C_Tgt \/ C_Rel \/ C_Rem \/ C_Ret \/ C_End

C_Step ==
  /\ ~drift
  /\ Conform
  /\ Keep
  /\ IF Ev.e = "End" THEN Publish(FALSE, 0, obs', devs') ELSE TRUE

(* the observation fold, independent of the design state *)
ObsApply(o, e) ==
  CASE e.e = "Cmd"       -> ObsCmd(o, cfg, e.op, e.r)
    [] e.e = "CheckCall" -> ObsCall(o, cfg, e.c, e.stage, e.arg, e.v, e.cmd)
    [] e.e = "TgtCall"   -> ObsTgt(o, cfg, e.tgt, e.op, e.arg, e.res, e.q)
    [] e.e = "ModCall"   -> ObsMod(o, cfg, e.blk, e.r, e.res)
    [] e.e = "Ret"       -> ObsRet(o, cfg, e.op, e.r, e.res)
    [] e.e = "End"       -> ObsEnd(o, cfg)
    [] OTHER -> o

M_Step ==
  /\ l <= Len(Trace) /\ Ev.e # "Cfg"
  /\ (drift \/ ~ENABLED Conform)
  /\ drift' = TRUE
  /\ driftAt' = IF drift THEN driftAt ELSE Ev.seq
  /\ obs' = ObsApply(obs, Ev)
  /\ l' = l + 1
  /\ UNCHANGED <<cfg, drv, k, metaQ, used, tg, run, devs, delays, hist, tno>>
  /\ IF Ev.e = "End" THEN Publish(TRUE, driftAt', obs', devs) ELSE TRUE

TNext == TReset \/ C_Step \/ M_Step
TSpec == TInit /\ [][TNext]_tvars

Post == PrintT(<<"VERDICTS", ToJson(TLCGet(1))>>)
=============================================================================
