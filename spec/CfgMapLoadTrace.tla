--------------------------- MODULE CfgMapLoadTrace ---------------------------
(***************************************************************************)
(* Code -> model for X08, layer "l".  trace.ndjson holds one "Row" event   *)
(* per maddy.conf the harness started maddy's own entry point on (child     *)
(* process): [t, seq, e |-> "Row", in |-> <input of CfgMapLoad.tla>,        *)
(*   out |-> [crashed, err |-> [is, line, mentions (sequence)],             *)
(*            smtp, dkim (records field -> value), static (sequence of      *)
(*            <<key, looked-up value>>)]]                                   *)
(***************************************************************************)
EXTENDS CfgMapLoad

CONSTANT OpenDevs

Rows == ndJsonDeserialize("trace.ndjson")
tvars == <<in>>

OutOf(r) == [crashed |-> r.out.crashed,
             err |-> [is |-> r.out.err.is, line |-> r.out.err.line, mentions |-> Range(r.out.err.mentions)],
             smtp |-> r.out.smtp, dkim |-> r.out.dkim, static |-> Range(r.out.static)]
DevSets == (SUBSET OpenDevs) \ {{}}
Bad(r) == Viol(r.in, OutOf(r)) # {} \/ ~SameOut(OutOf(r), Rule(r.in))
Verdict(r) == [t |-> r.t, drift |-> ~SameOut(OutOf(r), Rule(r.in)), driftAt |-> r.seq,
               viol |-> Viol(r.in, OutOf(r)), devs |-> Explains(DevSets, r.in, OutOf(r))]
Eval ==
  LET bad == {k \in 1..Len(Rows) : Bad(Rows[k])} IN
    [n |-> Len(Rows), accepted |-> Len(Rows) - Cardinality(bad),
     verdicts |-> {Verdict(Rows[k]) : k \in bad}]

TInit == in = <<>> /\ TLCSet(1, Eval)
TNext == UNCHANGED tvars
TSpec == TInit /\ [][TNext]_tvars
Post == PrintT(<<"VERDICTS", ToJson(TLCGet(1))>>)
=============================================================================
