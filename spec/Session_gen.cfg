\* behaviour generation: one shortest behaviour per distinct final state of the as-is state graph,
\* printed as <<"BEH", json>> (lib/checks/c03.py sets Devs to the deviations of the open findings)
SPECIFICATION Spec
CONSTANTS
  Rcpts = {"ra", "rb"}
  NTs = {1, 2}
  Lmtps = {TRUE, FALSE}
  Holds = {TRUE, FALSE}
  Fails = {"perm"}
  MaxFaults = 1
  MaxCmds = 5
  MaxEnv = 0
  EnvPlan = "any"
  Allowed = {"*"}
  Devs = {"DataFailNoAbort", "CommitStopsAtFirst", "LmtpStatusKey", "EhloNoLogout", "MailRawSender", "NestedMail", "LmtpCommitErrLost", "LmtpCommitAfterReject"}
  Gen = TRUE
VIEW GenView
CHECK_DEADLOCK FALSE
