\* exhaustive enumeration of the input table (quick: one salt, thorough: six); lib/checks/c13.py
SPECIFICATION Spec
CONSTANTS
  Salts = {1}
  MaxRecs = 4
  Gen = FALSE
INVARIANTS RuleSatisfiesProp RuleExact TypeOK
CHECK_DEADLOCK FALSE
