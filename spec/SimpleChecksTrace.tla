-------------------------- MODULE SimpleChecksTrace --------------------------
(***************************************************************************)
(* Code -> model for X14 (simple checks).  trace.ndjson holds one "Row"    *)
(* event per input row the harness ran through the real require_tls /      *)
(* require_matching_rdns / require_mx_record modules:                      *)
(*   [t, seq, e |-> "Row", in |-> <input of SimpleChecks.tla>,             *)
(*    out |-> [failed, act, stage, others, code, temp, enchc, queries]]    *)
(* For every row TLC evaluates the property predicates of SimpleChecks on  *)
(* the recorded output (viol = names of the false ones), compares the      *)
(* output with the documented procedure (drift) and, for the deviations of *)
(* the open findings (OpenDevs), lists the sets of deviations whose as-is  *)
(* procedure reproduces the output exactly (devs).  Only rows that are not *)
(* plainly accepted are listed; n / accepted are the counts.               *)
(***************************************************************************)
EXTENDS SimpleChecks

CONSTANT OpenDevs

Rows == ndJsonDeserialize("trace.ndjson")

tvars == <<in>>

OutOf(r) == [failed |-> r.out.failed, act |-> r.out.act, stage |-> r.out.stage, others |-> Range(r.out.others),
             code |-> r.out.code, temp |-> r.out.temp, enchc |-> r.out.enchc, queries |-> r.out.queries]
DevSets == (SUBSET OpenDevs) \ {{}}
Bad(r) == Viol(r.in, OutOf(r)) # {} \/ ~SameOut(OutOf(r), Rule(r.in))
Verdict(r) == [t |-> r.t, drift |-> ~SameOut(OutOf(r), Rule(r.in)), driftAt |-> r.seq,
               viol |-> Viol(r.in, OutOf(r)),
               devs |-> Explains(DevSets, r.in, OutOf(r))]

Eval ==
  LET bad == {k \in 1..Len(Rows) : Bad(Rows[k])} IN
    [n |-> Len(Rows), accepted |-> Len(Rows) - Cardinality(bad),
     verdicts |-> {Verdict(Rows[k]) : k \in bad}]

TInit == in = <<>> /\ TLCSet(1, Eval)
TNext == UNCHANGED tvars
TSpec == TInit /\ [][TNext]_tvars

Post == PrintT(<<"VERDICTS", ToJson(TLCGet(1))>>)
=============================================================================
