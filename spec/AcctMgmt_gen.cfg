\* reference configuration (the check generates its configurations from lib/checks/x10.py: FAMILIES['two'] with the open deviations, prints BEH lines)
SPECIFICATION Spec
CONSTANTS
  Kinds = {"MboxRemove", "MboxRename", "AcctRemove", "MsgRemove", "MsgCopy", "MsgMove", "Deliver"}
  Spell = {"a", "b", "bC"}
  Pws = {"p1"}
  Confirms = {"flag"}
  SUs = {FALSE}
  MNames = {"INBOX", "A", "C"}
  Specials = {"none"}
  FlagSets = {{"S"}}
  AddFlags = {{}}
  Ranges = {"1", "1:*"}
  UidModes = {TRUE}
  Preset = "two"
  MaxSteps = 2
  Devs = {"ExitZero", "PasswordCreates", "AcctNoPrecis", "RenameMissingOk", "RenameLike", "CopyRemoveBlob"}
  Gen = TRUE
CHECK_DEADLOCK FALSE

