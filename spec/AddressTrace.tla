---------------------------- MODULE AddressTrace ----------------------------
(***************************************************************************)
(* Code -> model for C17.  trace.ndjson: one line per row recorded from    *)
(* the real framework/address and framework/dns functions.                 *)
(*   e = "A1"  in.a          unary laws on one generated valid address     *)
(*   e = "A2"  in.a, in.b    comparison laws on a pair                     *)
(*   e = "A3"  in.a, b, c    transitivity on a triple                      *)
(*   e = "S"   in.s          string layer (symbol sequence)                *)
(*   e = "D"   in.d          crash-freedom on a degenerate domain          *)
(*   e = "P2"  in.s, in.t    comparison of two arbitrary strings           *)
(*   e = "P3"  in.s, t, u    transitivity on three arbitrary strings       *)
(* Addresses in outputs are abstracted back to (base, spelling) by the     *)
(* harness table (injective); a string outside the table arrives as        *)
(* [raw |-> "..."] and is equal only to itself.                            *)
(* Per row: viol = laws of Address.tla false on the recorded output; devs  *)
(* = smallest set of OPEN deviations under which the documented algorithm  *)
(* returns what was recorded and breaks the same laws (UNEXPLAINED if      *)
(* none); drift = no set of open deviations reproduces the output.         *)
(***************************************************************************)
EXTENDS Address

Trace == ndJsonDeserialize("trace.ndjson")

Smallest(S) == CHOOSE D \in S : \A E \in S : Cardinality(D) <= Cardinality(E)

Mk(r, viol, expl0) ==
  LET \* the conversions are not touched by any deviation: they either agree with the model or drift
      convdrift == r.e = "A1" /\ ConvForm(r.in.a)
                   /\ (r.out.conv.toascii # ToASCIIM(r.in.a) \/ r.out.conv.tounicode # ToUnicodeM(r.in.a))
      expl == IF convdrift /\ viol = {} THEN {} ELSE expl0
  IN
  [t |-> r.t, drift |-> expl = {}, driftAt |-> IF expl = {} THEN r.seq ELSE 0, viol |-> viol,
   devs |-> IF viol = {} THEN {} ELSE IF expl = {} THEN {"UNEXPLAINED"} ELSE Smallest(expl),
   obs |-> IF r.e = "S" /\ r.out.toasciiNonAscii THEN {"ToASCIIKeepsNonASCIIMailbox"} ELSE {}]

V1(r) == LET viol == Viol1(r.in.a, r.out) IN
  Mk(r, viol, {D \in SUBSET Devs : LET m == Model1(D, r.in.a) IN
                                     m = Proj1(r.out) /\ Viol1(r.in.a, m) = viol})
V2(r) == LET viol == Viol2(r.in.a, r.in.b, r.out) IN
  Mk(r, viol, {D \in SUBSET Devs : LET m == Model2(D, r.in.a, r.in.b) IN
                                     m = r.out /\ Viol2(r.in.a, r.in.b, m) = viol})
V3(r) == LET viol == Viol3(r.out) IN
  Mk(r, viol, {D \in SUBSET Devs : LET m == Model3(D, r.in.a, r.in.b, r.in.c) IN
                                     m = r.out /\ Viol3(m) = viol})
VS(r) == LET viol == ViolS(r.in.s, r.out) IN
  Mk(r, viol, {D \in SUBSET Devs : LET m == ModelS(D, r.in.s) IN
                                     m = ProjS(r.out) /\ ViolS(r.in.s, m @@ [panics |-> <<>>]) = viol})

\* arbitrary strings: the laws always; agreement with the model where it has a key
VP2(r) == LET viol == ViolP2(r.out)
              m == ModelP2(r.in.s, r.in.t)
              mod == Modelled(r.in.s) /\ Modelled(r.in.t) IN
  Mk(r, viol, IF (viol = {} /\ ~mod) \/ (m = ProjP2(r.out) /\ ViolP2(m) = viol) THEN {{}} ELSE {})
VP3(r) == LET viol == ViolP3(r.out)
              m == ModelP3(r.in.s, r.in.t, r.in.u)
              mod == Modelled(r.in.s) /\ Modelled(r.in.t) /\ Modelled(r.in.u) IN
  Mk(r, viol, IF (viol = {} /\ ~mod) \/ ([eq12 |-> r.out.eq12, eq23 |-> r.out.eq23, eq13 |-> r.out.eq13] = m
                                         /\ ViolP3(m) = viol) THEN {{}} ELSE {})

VD(r) == LET viol == ViolD(r.out) IN Mk(r, viol, IF viol = {} THEN {{}} ELSE {})

Verdict(r) == CASE r.e = "A1" -> V1(r)
                [] r.e = "D"  -> VD(r)
                [] r.e = "P2" -> VP2(r)
                [] r.e = "P3" -> VP3(r)
                [] r.e = "A2" -> V2(r)
                [] r.e = "A3" -> V3(r)
                [] r.e = "S"  -> VS(r)
                [] OTHER -> [t |-> r.t, drift |-> FALSE, driftAt |-> 0, viol |-> {}, devs |-> {}, obs |-> {}]

VARIABLE done
TInit == done = FALSE /\ st = <<>> /\ TLCSet(1, <<>>)
TNext == /\ ~done
         /\ done' = TRUE
         /\ UNCHANGED st
         /\ TLCSet(1, [i \in 1..Len(Trace) |-> Verdict(Trace[i])])
TSpec == TInit /\ [][TNext]_<<done, st>>

Post == PrintT(<<"VERDICTS", ToJson(TLCGet(1))>>)
=============================================================================
