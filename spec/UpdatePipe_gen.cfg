SPECIFICATION Spec
CONSTANTS
  Medium = "unix"
  Procs = {"s", "c1"}
  Lst = {"s"}
  MaxPush = 1
  SrvPush = 0
  ChanCap = 0
  MaxBad = 0
  MaxBig = 0
  MaxCrash = 0
  MaxClose = 1
  Sizes = {"s"}
  Keys = {1}
  First = "-"
  Second = "-"
  LateClose = TRUE
  Devs = {}
  Gen = TRUE
CHECK_DEADLOCK FALSE
