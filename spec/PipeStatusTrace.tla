--------------------------- MODULE PipeStatusTrace ---------------------------
(***************************************************************************)
(* Trace validation for PipeStatus.tla: events recorded from the real     *)
(* msgpipeline (built by msgpipeline.New from configuration text with the *)
(* real replace_rcpt modifier) in front of a scripted partial target.     *)
(* Events: Cfg(rw), Txn(rcpts, st), Ret(op = "addrcpt", r, res),          *)
(* Statuses(sts) = what the collector passed to the pipeline's            *)
(* BodyNonAtomic was given, End.  Same structure as RcptStatusTrace.       *)
(***************************************************************************)
EXTENDS PipeStatus

Trace == ndJsonDeserialize("trace.ndjson")

VARIABLES l, drift, driftAt, tno, kviol

tvars == <<vars, l, drift, driftAt, tno, kviol>>

Ev == Trace[l]
IsEv(e) == l <= Len(Trace) /\ Ev.e = e

Publish(d, da, o, kv, dv) ==
  TLCSet(1, TLCGet(1) \cup {[t |-> tno, drift |-> d, driftAt |-> da, viol |-> o.viol,
                             kviol |-> kv, devs |-> dv]})

TInit ==
  /\ InitWith([rw |-> [A |-> <<"A">>, B |-> <<"B">>], scope |-> "global"])
  /\ l = 1 /\ drift = FALSE /\ driftAt = 0 /\ tno = 0 /\ kviol = {}
  /\ TLCSet(1, {})

TReset ==
  /\ IsEv("Cfg")
  /\ cfg' = [rw |-> [A |-> Ev.rw.A, B |-> Ev.rw.B], scope |-> Ev.scope]
  /\ pc' = "idle" /\ lst' = <<>> /\ st' = <<>> /\ idx' = 0 /\ calls' = <<>>
  /\ obs' = ObsInit /\ devs' = {} /\ hist' = <<>>
  /\ l' = l + 1 /\ drift' = FALSE /\ driftAt' = 0 /\ tno' = Ev.t /\ kviol' = {}

C_Txn == IsEv("Txn") /\ pc = "idle" /\ TxnStart(Ev.rcpts, Ev.st)
C_Ret == IsEv("Ret") /\ Ev.op = "addrcpt" /\ AddRcpt(Ev.r, Ev.res)
C_Sts == IsEv("Statuses") /\ Body(Ev.sts)
C_End == IsEv("End") /\ Finish

Consume == C_Txn \/ C_Ret \/ C_Sts \/ C_End
Conform == Consume

C_Step ==
  /\ ~drift
  /\ Consume
  /\ l' = l + 1
  /\ kviol' = IF Ev.e = "Statuses" /\ ~SameBag(Exp({}), Expected)
              THEN kviol \cup (obs'.viol \ obs.viol) ELSE kviol
  /\ IF Ev.e = "End" THEN Publish(FALSE, 0, obs', kviol', devs') ELSE TRUE
  /\ UNCHANGED <<drift, driftAt, tno>>

ObsApply(o, e) ==
  CASE e.e = "Txn"      -> ObsTxn(o, e.st)
    [] e.e = "Ret"      -> IF e.op = "addrcpt" THEN ObsAddRcpt(o, e.r, e.res) ELSE o
    [] e.e = "Statuses" -> ObsStatuses(o, cfg.rw, e.sts)
    [] OTHER -> o

M_Step ==
  /\ l <= Len(Trace) /\ Ev.e # "Cfg"
  /\ (drift \/ ~ENABLED Conform)
  /\ drift' = TRUE
  /\ driftAt' = IF drift THEN driftAt ELSE Ev.seq
  /\ obs' = ObsApply(obs, Ev)
  /\ l' = l + 1
  /\ UNCHANGED <<cfg, pc, lst, st, idx, calls, devs, hist, tno, kviol>>
  /\ IF Ev.e = "End" THEN Publish(TRUE, driftAt', obs', kviol, devs) ELSE TRUE

TNext == TReset \/ C_Step \/ M_Step
TSpec == TInit /\ [][TNext]_tvars

Post == PrintT(<<"VERDICTS", ToJson(TLCGet(1))>>)
=============================================================================
