\* reference configuration; lib/checks/x15.py generates the ones it runs
SPECIFICATION TSpec
CONSTANTS
  MaxSteps = 3
  Devs = {}
  Gen = FALSE
  OpenDevs = {"OptMissAbandonsStep"}
CHECK_DEADLOCK FALSE
POSTCONDITION Post
