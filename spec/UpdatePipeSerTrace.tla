-------------------------- MODULE UpdatePipeSerTrace --------------------------
(***************************************************************************)
(* Code -> model for the wire-format rows of X12.  trace.ndjson holds one  *)
(* "Row" event per row the harness ran through the real code:              *)
(* [t, seq, e |-> "Row", in |-> <row of UpdatePipeSer.tla>, out |-> [err,  *)
(* type, key, seq, flags, lines]].  For every row TLC evaluates the        *)
(* property predicates on the recorded answer (viol) and compares it with   *)
(* the rule (drift).                                                       *)
(***************************************************************************)
EXTENDS UpdatePipeSer

Rws == ndJsonDeserialize("trace.ndjson")

OutOf(r) == [err |-> r.out.err, type |-> r.out.type, key |-> r.out.key, seq |-> r.out.seq,
             flags |-> r.out.flags, lines |-> r.out.lines]
InOf(r) == [path |-> r.in.path, type |-> r.in.type, key |-> r.in.key, seq |-> r.in.seq, flags |-> r.in.flags]
Drift(r) == ~Same(OutOf(r), Rule(InOf(r)))
Bad(r) == Viol(InOf(r), OutOf(r)) # {} \/ Drift(r)
Verdict(r) == [t |-> r.t, drift |-> Drift(r), driftAt |-> r.seq, viol |-> Viol(InOf(r), OutOf(r)), devs |-> {}]

Eval ==
  LET bad == {k \in 1..Len(Rws) : Bad(Rws[k])} IN
    [n |-> Len(Rws), accepted |-> Len(Rws) - Cardinality(bad),
     verdicts |-> {Verdict(Rws[k]) : k \in bad}]

TInit == in = [path |-> "", type |-> 0, key |-> "", seq |-> "", flags |-> <<>>] /\ TLCSet(1, Eval)
TNext == UNCHANGED in
TSpec == TInit /\ [][TNext]_in

Post == PrintT(<<"VERDICTS", ToJson(TLCGet(1))>>)
=============================================================================
