\* as-is: the deviations of the code switched on; TLC must report a violation of AsIsSatisfiesProp (x07.py runs one deviation at a time)
SPECIFICATION Spec
CONSTANTS
  MaxRcpt = 1
  Full = FALSE
  Devs = {"DialIgnoresFailOpen", "NilConnPanic", "QuarantineMasksReject", "ReplyCodeUnchecked"}
  Gen = FALSE
  Seed = 1
  RandN = 1
INVARIANTS AsIsSatisfiesProp
CHECK_DEADLOCK FALSE
