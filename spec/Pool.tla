-------------------------------- MODULE Pool --------------------------------
(***************************************************************************)
(* Design specification of internal/smtpconn/pool/pool.go at the           *)
(* granularity of the scheduling points of the instrumented code           *)
(* (harness/cmd/instrument): every Lock() and every channel operation      *)
(* outside a critical section is one action; a critical section            *)
(* (Lock ... Unlock) is one atomic action.                                 *)
(*                                                                         *)
(*   worker w  idle | g1 Get: lock; lookup; [expired: delete, close        *)
(*             channel] ; unlock | gr drain loop of the expired bucket     *)
(*             (one connection closed per step) | g2 non-blocking receive  *)
(*             with Usable / lifetime tests | g3 `go conn.Close()` of a    *)
(*             rejected connection | r1 Return: whole body under the lock  *)
(*   sweeper   s0 | s1 select {ticker, stop} | s1b | s2 CleanUp            *)
(*   closer    pc0 | pc1 send cleanupStop | pc1b | pc2 Close body          *)
(*   async c   a `go conn.Close()` that has not run yet                    *)
(*                                                                         *)
(* Buckets are values holding a channel; a Get that has released the lock  *)
(* keeps its reference to the channel, so channels are objects here.       *)
(* As in the code, a bucket's lastUse stamp is written only when the       *)
(* bucket is created (Return updates a copy), so a bucket is dropped       *)
(* MaxConnLifetime after its creation however busy it is.  That costs      *)
(* reuse, not safety, and is specified as it is.                           *)
(* Time is abstract: one unit = the harness clock step.                    *)
(*                                                                         *)
(* The context of a Get (constant Ctxs, per call):                         *)
(*   live   never cancelled                                                *)
(*   dead   cancelled / past its deadline before the call                  *)
(*   probe  cancelled while the first connection taken from the bucket is  *)
(*          being probed (Usable(): the caller gave up during the RSET     *)
(*          round trip); dead from then on                                 *)
(*   nonew  live, but a new connection cannot be established (dial error)  *)
(* As in the code the context only matters to cfg.New: a pooled connection *)
(* that passes the tests is handed out whatever the context says; when a   *)
(* new connection is needed and the context is dead (or the dial fails)    *)
(* Get returns an error and the caller holds nothing (GetFail).  Whatever  *)
(* Get does with a dead context, a connection it took out of a bucket must *)
(* still be handed out or closed (PoolObs: it stays "idle" otherwise and   *)
(* is a leak at shutdown).                                                 *)
(***************************************************************************)
EXTENDS PoolObs, TLC, Json, SequencesExt

CONSTANTS NWorkers, Keys, MaxPerKey, MaxKeys,
          Life,      \* MaxConnLifetime
          Stale,     \* StaleKeyLifetime
          Period,    \* clean-up ticker period
          MaxTime, Rounds, MaxBreaks,
          WithClose, \* set of BOOLEAN: scenarios with / without pool.Close
          Ctxs,      \* contexts a Get may be called with, subset of {"live", "dead", "probe", "nonew"}
          Devs, Gen, DelayBound

WorkerSeq == [i \in 1..NWorkers |-> "w" \o ToString(i)]
Workers == ToSet(WorkerSeq)
MaxConns == NWorkers * Rounds
ConnSeq == [i \in 1..MaxConns |-> "c" \o ToString(i)]
Conns == ToSet(ConnSeq)
NoB == [ch |-> 0, lastUse |-> 0]

VARIABLES cfg, now,
          keys, keysNil, chans,
          cst, cusable, clast, nconn,
          wpc, wkey, wch, wcur, wheld, wleft, wctx,
          spc, tickPending, nextTick,
          ppc,
          async, breaks,
          ended, obs,
          hist, cur, delays

poolV == <<keys, keysNil, chans>>
connV == <<cst, cusable, clast, nconn>>
workV == <<wpc, wkey, wch, wcur, wheld, wleft, wctx>>
sweepV == <<spc, tickPending, nextTick>>
schedV == <<hist, cur, delays>>
vars == <<cfg, now, poolV, connV, workV, sweepV, ppc, async, breaks, ended, obs, schedV>>
View == <<cfg, now, poolV, connV, workV, sweepV, ppc, async, breaks, ended, obs>>

InitWith(c) ==
  /\ cfg = c /\ now = 0
  /\ keys = [k \in Keys |-> NoB] /\ keysNil = FALSE /\ chans = <<>>
  /\ cst = [x \in Conns |-> "none"] /\ cusable = [x \in Conns |-> TRUE]
  /\ clast = [x \in Conns |-> 0] /\ nconn = 0
  /\ wpc = [w \in Workers |-> "idle"] /\ wkey = [w \in Workers |-> CHOOSE k \in Keys : TRUE]
  /\ wch = [w \in Workers |-> 0] /\ wcur = [w \in Workers |-> ""] /\ wheld = [w \in Workers |-> ""]
  /\ wleft = [w \in Workers |-> IF w \in c.workers THEN Rounds ELSE 0]
  /\ wctx = [w \in Workers |-> "live"]
  /\ spc = "s0" /\ tickPending = FALSE /\ nextTick = 0
  /\ ppc = IF c.close THEN "pc0" ELSE "none"
  /\ async = {} /\ breaks = 0
  /\ ended = FALSE /\ obs = ObsInit
  /\ hist = <<>> /\ cur = 1 /\ delays = 0

Init == \E cl \in WithClose : InitWith([close |-> cl, workers |-> Workers, mpk |-> MaxPerKey, mk |-> MaxKeys,
                                        life |-> Life, stale |-> Stale])

Usable(c) == cusable[c] /\ cst[c] = "open"
Live == {k \in Keys : keys[k] # NoB}

(* closing a sequence / set of connections synchronously, by the pool *)
RECURSIVE ObsCloseSeq(_, _)
ObsCloseSeq(o, s) == IF s = <<>> THEN o ELSE ObsCloseSeq(ObsConnClose(o, Head(s), FALSE), Tail(s))
Closed(s) == [x \in Conns |-> IF x \in ToSet(s) THEN "closed" ELSE cst[x]]

(* buffers of the buckets in set K, concatenated (any order: closes commute) *)
RECURSIVE Bufs(_)
Bufs(K) == IF K = {} THEN <<>> ELSE LET k == CHOOSE x \in K : TRUE IN chans[keys[k].ch].buf \o Bufs(K \ {k})
DropBuckets(K) ==
  /\ keys' = [k \in Keys |-> IF k \in K THEN NoB ELSE keys[k]]
  /\ chans' = [i \in DOMAIN chans |-> IF \E k \in K : keys[k].ch = i THEN [buf |-> <<>>, closed |-> TRUE] ELSE chans[i]]
StaleKeys == {k \in Live : keys[k].lastUse + cfg.stale <= now}

(* ------------------------------------------------------------------------ *)
(* workers                                                                   *)
\* cfg.New(ctx, key): a new connection, or an error when the context is dead / the dial fails
\* (cx = the state of the caller's context at this point)
Fresh(w, o, dead, cx) ==
  LET c == ConnSeq[nconn + 1] IN
  IF cx \in {"dead", "nonew"}
  THEN /\ cst' = [x \in Conns |-> IF x \in dead THEN "closed" ELSE cst[x]]
       /\ UNCHANGED <<nconn, clast, cusable, wheld>>
       /\ wpc' = [wpc EXCEPT ![w] = "idle"] /\ wcur' = [wcur EXCEPT ![w] = ""]
       /\ obs' = ObsGetFail(o, w)
  ELSE
  /\ nconn' = nconn + 1
  /\ cst' = [x \in Conns |-> IF x = c THEN "open" ELSE IF x \in dead THEN "closed" ELSE cst[x]]
  /\ clast' = [clast EXCEPT ![c] = now] /\ UNCHANGED cusable
  /\ wheld' = [wheld EXCEPT ![w] = c] /\ wpc' = [wpc EXCEPT ![w] = "idle"]
  /\ wcur' = [wcur EXCEPT ![w] = ""]
  /\ obs' = ObsGetReturn(o, w, c, TRUE, now, cfg.life)

WGetCall(w, k) ==
  /\ wpc[w] = "idle" /\ wheld[w] = "" /\ wleft[w] > 0
  /\ wpc' = [wpc EXCEPT ![w] = "g1"] /\ wkey' = [wkey EXCEPT ![w] = k]
  /\ wleft' = [wleft EXCEPT ![w] = @ - 1]
  /\ \E cx \in Ctxs : wctx' = [wctx EXCEPT ![w] = cx]
  /\ obs' = ObsGetCall(obs, w, now)
  /\ UNCHANGED <<cfg, now, poolV, connV, wch, wcur, wheld, sweepV, ppc, async, breaks, ended>>

WGetLock(w) ==
  /\ wpc[w] = "g1"
  /\ LET k == wkey[w] b == keys[k] IN
     IF keysNil \/ b = NoB
     THEN Fresh(w, obs, {}, wctx[w]) /\ UNCHANGED <<poolV, wch>>
     ELSE IF now > b.lastUse + cfg.life
     THEN LET buf == chans[b.ch].buf IN
          /\ keys' = [keys EXCEPT ![k] = NoB] /\ UNCHANGED keysNil
          /\ IF buf = <<>>
             THEN /\ chans' = [chans EXCEPT ![b.ch] = [buf |-> <<>>, closed |-> TRUE]]
                  /\ Fresh(w, obs, {}, wctx[w]) /\ UNCHANGED wch
             ELSE /\ chans' = [chans EXCEPT ![b.ch] = [buf |-> Tail(buf), closed |-> TRUE]]
                  /\ wpc' = [wpc EXCEPT ![w] = "gr"] /\ wcur' = [wcur EXCEPT ![w] = Head(buf)]
                  /\ wch' = [wch EXCEPT ![w] = b.ch]
                  /\ UNCHANGED <<connV, wheld, obs>>
     ELSE /\ wpc' = [wpc EXCEPT ![w] = "g2"] /\ wch' = [wch EXCEPT ![w] = b.ch]
          /\ UNCHANGED <<poolV, connV, wcur, wheld, obs>>
  /\ UNCHANGED <<cfg, now, wkey, wleft, wctx, sweepV, ppc, async, breaks, ended>>

\* drain loop of the expired bucket: conn.Close(), then the next receive
WGetRange(w) ==
  /\ wpc[w] = "gr"
  /\ LET c == wcur[w] buf == chans[wch[w]].buf o1 == ObsConnClose(obs, c, FALSE) IN
     IF buf = <<>>
     THEN /\ Fresh(w, o1, {c}, wctx[w])
          /\ UNCHANGED <<poolV, wch>>
     ELSE /\ chans' = [chans EXCEPT ![wch[w]].buf = Tail(buf)]
          /\ wcur' = [wcur EXCEPT ![w] = Head(buf)]
          /\ cst' = [cst EXCEPT ![c] = "closed"] /\ obs' = o1
          /\ UNCHANGED <<keys, keysNil, cusable, clast, nconn, wpc, wch, wheld>>
  /\ UNCHANGED <<cfg, now, wkey, wleft, wctx, sweepV, ppc, async, breaks, ended>>

WGetSel(w) ==
  /\ wpc[w] = "g2"
  /\ LET buf == chans[wch[w]].buf IN
     IF buf = <<>> THEN Fresh(w, obs, {}, wctx[w]) /\ UNCHANGED <<poolV, wch, wctx>>
     ELSE LET c == Head(buf)
              \* the connection is probed (Usable): a "probe" context is cancelled meanwhile
              cx == IF wctx[w] = "probe" THEN "dead" ELSE wctx[w] IN
          /\ chans' = [chans EXCEPT ![wch[w]].buf = Tail(buf)] /\ UNCHANGED <<keys, keysNil, wch>>
          /\ wctx' = [wctx EXCEPT ![w] = cx]
          /\ IF ~Usable(c) \/ ("NoLifetimeTest" \notin Devs /\ clast[c] + cfg.life < now)
             THEN /\ wpc' = [wpc EXCEPT ![w] = "g3"] /\ wcur' = [wcur EXCEPT ![w] = c]
                  /\ UNCHANGED <<connV, wheld, obs>>
             ELSE IF "CtxDropsConn" \in Devs /\ cx = "dead"
             \* broken design: Get gives up on the dead context and forgets the connection it took
             THEN /\ wpc' = [wpc EXCEPT ![w] = "idle"] /\ obs' = ObsGetFail(obs, w)
                  /\ UNCHANGED <<connV, wheld, wcur>>
             ELSE /\ wpc' = [wpc EXCEPT ![w] = "idle"] /\ wheld' = [wheld EXCEPT ![w] = c]
                  /\ obs' = ObsGetReturn(obs, w, c, FALSE, now, cfg.life)
                  /\ clast' = [clast EXCEPT ![c] = now]
                  /\ UNCHANGED <<cst, cusable, nconn, wcur>>
  /\ UNCHANGED <<cfg, now, wkey, wleft, sweepV, ppc, async, breaks, ended>>

WGetGo(w) ==
  /\ wpc[w] = "g3"
  /\ async' = async \cup {wcur[w]}
  /\ wpc' = [wpc EXCEPT ![w] = "g2"] /\ wcur' = [wcur EXCEPT ![w] = ""]
  /\ UNCHANGED <<cfg, now, poolV, connV, wkey, wch, wheld, wleft, wctx, sweepV, ppc, breaks, ended, obs>>

WRetCall(w) ==
  /\ wpc[w] = "idle" /\ wheld[w] # ""
  /\ wpc' = [wpc EXCEPT ![w] = "r1"]
  /\ obs' = ObsReturnCall(obs, w, wheld[w])
  /\ UNCHANGED <<cfg, now, poolV, connV, wkey, wch, wcur, wheld, wleft, wctx, sweepV, ppc, async, breaks, ended>>

\* the delivery closes the connection itself instead of returning it
WDrop(w) ==
  /\ wpc[w] = "idle" /\ wheld[w] # ""
  /\ cst' = [cst EXCEPT ![wheld[w]] = "closed"]
  /\ obs' = ObsConnClose(obs, wheld[w], TRUE)
  /\ wheld' = [wheld EXCEPT ![w] = ""]
  /\ UNCHANGED <<cfg, now, poolV, cusable, clast, nconn, wpc, wkey, wch, wcur, wleft, wctx, sweepV, ppc, async, breaks, ended>>

\* Return: the whole body under the lock
WRetLock(w) ==
  /\ wpc[w] = "r1"
  /\ LET c == wheld[w] k == wkey[w] IN
     /\ IF keysNil THEN UNCHANGED <<poolV, cst, async>> /\ obs' = ObsReturnReturn(obs, w)
        ELSE IF keys[k] # NoB
        THEN LET ch == keys[k].ch IN
             /\ IF Len(chans[ch].buf) < cfg.mpk
                THEN chans' = [chans EXCEPT ![ch].buf = Append(@, c)] /\ UNCHANGED async
                ELSE async' = async \cup {c} /\ UNCHANGED chans
             /\ UNCHANGED <<keys, keysNil, cst>> /\ obs' = ObsReturnReturn(obs, w)
        ELSE LET gc == IF Cardinality(Live) = cfg.mk THEN StaleKeys ELSE {}
                 dead == Bufs(gc)
                 nch == Len(chans) + 1 IN
             /\ keys' = [x \in Keys |-> IF x = k THEN [ch |-> nch, lastUse |-> now]
                                        ELSE IF x \in gc THEN NoB ELSE keys[x]]
             /\ chans' = Append([i \in DOMAIN chans |->
                                   IF \E x \in gc : keys[x].ch = i THEN [buf |-> <<>>, closed |-> TRUE] ELSE chans[i]],
                                [buf |-> IF cfg.mpk >= 1 THEN <<c>> ELSE <<>>, closed |-> FALSE])
             \* MaxConnsPerKey 0 ("keep no idle connections"): the channel is unbuffered,
             \* the non-blocking send fails and the connection is closed
             /\ async' = IF cfg.mpk >= 1 THEN async ELSE async \cup {c}
             /\ cst' = Closed(dead)
             /\ obs' = ObsReturnReturn(ObsCloseSeq(obs, dead), w)
             /\ UNCHANGED keysNil
  /\ wpc' = [wpc EXCEPT ![w] = "idle"] /\ wheld' = [wheld EXCEPT ![w] = ""]
  /\ UNCHANGED <<cfg, now, cusable, clast, nconn, wkey, wch, wcur, wleft, wctx, sweepV, ppc, breaks, ended>>

WorkerStep(w) == (\E k \in Keys : WGetCall(w, k)) \/ WGetLock(w) \/ WGetRange(w) \/ WGetSel(w)
                 \/ WGetGo(w) \/ WRetCall(w) \/ WDrop(w) \/ WRetLock(w)
EnWorker(w) == wpc[w] \in {"g1", "gr", "g2", "g3", "r1"}
               \/ (wpc[w] = "idle" /\ (wheld[w] # "" \/ wleft[w] > 0))

(* ------------------------------------------------------------------------ *)
(* clean-up goroutine                                                        *)
S0 == /\ spc = "s0" /\ spc' = "s1" /\ nextTick' = now + Period /\ UNCHANGED tickPending
      /\ UNCHANGED <<cfg, now, poolV, connV, workV, ppc, async, breaks, ended, obs>>
S1tick == /\ spc = "s1" /\ tickPending /\ spc' = "s2" /\ tickPending' = FALSE /\ UNCHANGED nextTick
          /\ UNCHANGED <<cfg, now, poolV, connV, workV, ppc, async, breaks, ended, obs>>
S1stop == /\ spc = "s1" /\ ppc = "pc1b" /\ spc' = "done" /\ ppc' = "pc2"
          /\ UNCHANGED <<cfg, now, poolV, connV, workV, tickPending, nextTick, async, breaks, ended, obs>>
S1block == /\ spc = "s1" /\ ~tickPending /\ ppc # "pc1b" /\ spc' = "s1b"
           /\ UNCHANGED <<cfg, now, poolV, connV, workV, tickPending, nextTick, ppc, async, breaks, ended, obs>>
\* CleanUp: stale buckets are closed, their connections closed by `go conn.Close()`
S2 == /\ spc = "s2" /\ spc' = "s1"
      /\ IF keysNil THEN UNCHANGED <<poolV, async>>
         ELSE DropBuckets(StaleKeys) /\ async' = async \cup ToSet(Bufs(StaleKeys)) /\ UNCHANGED keysNil
      /\ UNCHANGED <<cfg, now, connV, workV, tickPending, nextTick, ppc, breaks, ended, obs>>
SweeperStep == S0 \/ S1tick \/ S1stop \/ S1block \/ S2
EnSweeper == spc \in {"s0", "s1", "s2"}

(* ------------------------------------------------------------------------ *)
(* pool.Close                                                                *)
P0 == /\ ppc = "pc0" /\ ppc' = "pc1" /\ obs' = ObsPoolCloseCall(obs)
      /\ UNCHANGED <<cfg, now, poolV, connV, workV, sweepV, async, breaks, ended>>
P1 == /\ ppc = "pc1"
      /\ IF spc = "s1b" THEN ppc' = "pc2" /\ spc' = "done" ELSE ppc' = "pc1b" /\ UNCHANGED spc
      /\ UNCHANGED <<cfg, now, poolV, connV, workV, tickPending, nextTick, async, breaks, ended, obs>>
P2 == /\ ppc = "pc2" /\ ppc' = "done"
      /\ LET dead == IF keysNil THEN <<>> ELSE Bufs(IF "CloseNoDrain" \in Devs THEN {} ELSE Live) IN
         /\ IF keysNil THEN UNCHANGED <<keys, chans>> ELSE DropBuckets(Live)
         /\ keysNil' = TRUE
         /\ cst' = Closed(dead)
         /\ obs' = ObsPoolCloseReturn(ObsCloseSeq(obs, dead))
      /\ UNCHANGED <<cfg, now, cusable, clast, nconn, workV, sweepV, async, breaks, ended>>
CloserStep == P0 \/ P1 \/ P2
EnCloser == ppc \in {"pc0", "pc1", "pc2"}

(* ------------------------------------------------------------------------ *)
Async(c) == /\ c \in async /\ async' = async \ {c}
            /\ cst' = [cst EXCEPT ![c] = "closed"]
            /\ obs' = ObsConnClose(obs, c, FALSE)
            /\ UNCHANGED <<cfg, now, poolV, cusable, clast, nconn, workV, sweepV, ppc, breaks, ended>>

Idle == UNION {ToSet(chans[i].buf) : i \in DOMAIN chans}
\* the peer drops an idle connection
Break(c) == /\ breaks < MaxBreaks /\ c \in Idle /\ cusable[c]
            /\ cusable' = [cusable EXCEPT ![c] = FALSE] /\ breaks' = breaks + 1
            /\ UNCHANGED <<cfg, now, poolV, cst, clast, nconn, workV, sweepV, ppc, async, ended, obs>>

ProcEnabled == (\E w \in Workers : EnWorker(w)) \/ EnSweeper \/ EnCloser \/ async # {}
EnClock == now < MaxTime
ClockBody == /\ now' = now + 1
             /\ IF spc # "done" /\ spc # "s0" /\ now + 1 >= nextTick
                THEN /\ nextTick' = nextTick + Period
                     /\ IF spc = "s1b" THEN spc' = "s2" /\ UNCHANGED tickPending
                        ELSE tickPending' = TRUE /\ UNCHANGED spc
                ELSE UNCHANGED sweepV
             /\ UNCHANGED <<cfg, poolV, connV, workV, ppc, async, breaks, ended, obs>>
Clock == EnClock /\ ~ended /\ ClockBody

Hung == {w \in Workers : wpc[w] # "idle"} \cup (IF ppc \in {"none", "done"} THEN {} ELSE {"closer"})

CfgJson == [close |-> cfg.close, workers |-> SetToSeq(cfg.workers), keys |-> SetToSeq(Keys),
            maxPerKey |-> cfg.mpk, maxKeys |-> cfg.mk, life |-> cfg.life, stale |-> cfg.stale,
            period |-> Period, maxTime |-> MaxTime]

End == /\ ~ended /\ ~ProcEnabled /\ ~EnClock
       /\ ended' = TRUE
       /\ obs' = ObsEnd(obs, Hung)
       /\ IF Gen THEN PrintT(<<"BEH", ToJson([cfg |-> CfgJson, sched |-> hist, delays |-> delays])>>) ELSE TRUE
       /\ UNCHANGED <<cfg, now, poolV, connV, workV, sweepV, ppc, async, breaks>>

(* ------------------------------------------------------------------------ *)
(* scheduling (see TimeWheel.tla): workers, closer, sweeper, async closes,   *)
(* break, clock in a fixed cyclic order; skipping an enabled task = a delay  *)
NT == NWorkers + 2 + MaxConns + 2
TaskEn(i) ==
  IF i <= NWorkers THEN EnWorker(WorkerSeq[i])
  ELSE IF i = NWorkers + 1 THEN EnCloser
  ELSE IF i = NWorkers + 2 THEN EnSweeper
  ELSE IF i <= NWorkers + 2 + MaxConns THEN ConnSeq[i - NWorkers - 2] \in async
  ELSE IF i = NT - 1 THEN breaks < MaxBreaks /\ \E c \in Idle : cusable[c]
  ELSE EnClock
TaskStep(i) ==
  IF i <= NWorkers THEN WorkerStep(WorkerSeq[i])
  ELSE IF i = NWorkers + 1 THEN CloserStep
  ELSE IF i = NWorkers + 2 THEN SweeperStep
  ELSE IF i <= NWorkers + 2 + MaxConns THEN Async(ConnSeq[i - NWorkers - 2])
  ELSE IF i = NT - 1 THEN \E c \in Conns : Break(c)
  ELSE Clock
Cost(i) == Cardinality({j \in 1..NT : TaskEn(j) /\ j # i /\
                          (IF cur <= i THEN j >= cur /\ j < i ELSE j >= cur \/ j < i)})
Label(i) ==
  IF i <= NWorkers
  THEN LET w == WorkerSeq[i] IN
       IF wpc[w] = "idle" /\ wpc'[w] = "g1"
       THEN w \o ":get:" \o wkey'[w] \o (IF wctx'[w] = "live" THEN "" ELSE ":" \o wctx'[w])
       ELSE IF wpc[w] = "idle" /\ wpc'[w] = "r1" THEN w \o ":ret"
       ELSE IF wpc[w] = "idle" THEN w \o ":drop"
       ELSE w
  ELSE IF i = NWorkers + 1 THEN "closer"
  ELSE IF i = NWorkers + 2 THEN (IF spc = "s1" /\ spc' = "done" THEN "sweeper/S" ELSE "sweeper")
  ELSE IF i <= NWorkers + 2 + MaxConns THEN "x:" \o ConnSeq[i - NWorkers - 2]
  ELSE IF i = NT - 1 THEN "break:" \o (CHOOSE c \in Conns : cusable[c] /\ ~cusable'[c])
  ELSE "clock"

Free == /\ ~ended
        /\ \/ \E w \in Workers : WorkerStep(w)
           \/ CloserStep \/ SweeperStep
           \/ \E c \in Conns : Async(c) \/ Break(c)
           \/ Clock
        /\ UNCHANGED schedV

Bounded ==
  /\ ~ended
  /\ \E i \in 1..NT :
       /\ TaskEn(i) /\ delays + Cost(i) <= DelayBound
       /\ TaskStep(i)
       /\ cur' = i /\ delays' = delays + Cost(i)
       /\ hist' = Append(hist, Label(i))

Next == \/ (IF DelayBound >= 1000 THEN Free ELSE Bounded)
        \/ (End /\ UNCHANGED schedV)
        \/ (ended /\ ~Gen /\ UNCHANGED vars)

F(A) == WF_vars(A /\ UNCHANGED schedV)
Fairness == /\ \A w \in Workers : F(WorkerStep(w))
            /\ F(CloserStep) /\ F(SweeperStep) /\ F(Clock) /\ F(End)
            /\ \A c \in Conns : F(Async(c))
Spec == Init /\ [][Next]_vars /\ Fairness

(* ------------------------------------------------------------------------ *)
NoViolation == obs.viol = {}
TypeOK == /\ \A i \in DOMAIN chans : Len(chans[i].buf) <= cfg.mpk
          /\ nconn <= MaxConns
\* a connection is in at most one place
OnePlace == \A c \in Conns :
              Cardinality({w \in Workers : wheld[w] = c \/ wcur[w] = c})
              + Cardinality({i \in DOMAIN chans : c \in ToSet(chans[i].buf)})
              + (IF c \in async THEN 1 ELSE 0) <= 1
Terminates == <>ended
CloseTerminates == cfg.close => <>(ppc = "done")
\* a connection returned to a live pool is eventually held again or closed, once the pool is closed
NoLeak == cfg.close => <>[](\A c \in Conns : c \in obs.safeRet => obs.st[c] # "idle")
=============================================================================
