-------------------------------- MODULE Dnsbl --------------------------------
(***************************************************************************)
(* X04 - check.dnsbl: listing decisions, scores and thresholds are computed *)
(* exactly as documented for every combination of list answers             *)
(* (docs/reference/checks/dnsbl.md; internal/check/dnsbl/dnsbl.go,          *)
(* common.go; RFC 5782 2.1, 2.4 for the query names; the check's result in  *)
(* internal/msgpipeline: RunEarlyChecks, check_runner).                     *)
(*                                                                         *)
(* Decision table (BUILDING.md pattern B).                                  *)
(*   input  in = [tab, level, place, early, q, r, lists, client, ehlo, mf,  *)
(*                group, second]                                            *)
(*     level  "pipeline": the module is configured from configuration text *)
(*            inside a real msgpipeline; the connection is announced with   *)
(*            RunEarlyChecks (as endpoint/smtp does at EHLO), then one      *)
(*            message is sent through Start/AddRcpt/Body/Commit.            *)
(*            "module": the configured module's decision function is called *)
(*            with (client address, EHLO name, MAIL FROM) directly.         *)
(*     place  where the check is written: the top-level check block         *)
(*            ("global") or the check block of a source / destination block *)
(*     early  check_early                                                   *)
(*     q, r   quarantine_threshold, reject_threshold: [given, v]            *)
(*     lists  sequence of [form, zone, v4, v6, ehlo, mf, score, resp, ans]: *)
(*            form "inline" (zone given as module argument) or "block";     *)
(*            v4/v6/ehlo/mf "yes"/"no"/"absent" = client_ipv4, client_ipv6, *)
(*            ehlo, mailfrom; score [given, v]; resp [given, nets] the      *)
(*            responses directive, nets = <<[ip, bits]>>; ans the DNS       *)
(*            answers of the list's zone for the three identities of this   *)
(*            row: [ip, ehlo, mf], each [k, addrs, txt] with k = "nx"       *)
(*            (NXDOMAIN), "temp" (temporary failure), "addrs" (answer with  *)
(*            the A records addrs, possibly none); txt = the TXT answer at  *)
(*            the same name: "none", "one", "fail" (temporary failure)      *)
(*     client [fam, oct]: "v4" (4 octets), "v6" (16 octets), "mapped"       *)
(*            (4 octets; the socket reports ::ffff:a.b.c.d)                 *)
(*     ehlo   [kind, name, canon]: kind "dom" or "lit" (address literal);   *)
(*            canon = the name in lower case                                *)
(*     mf     [local, dom, canon, utf8]: MAIL FROM local@dom ("" = null     *)
(*            reverse-path); canon = lower-case A-label form of dom; utf8 = *)
(*            the client spells dom with U-labels (SMTPUTF8)                *)
(*     group  block lists with identical directives are written as one      *)
(*            block with several zone names                                 *)
(*     second a second message on the same connection after the first one:  *)
(*            "none", "same" (same MAIL FROM), "null" (null reverse-path)   *)
(*   output out = [action, stage, code, queries, action2]                   *)
(*     action  "none", "quarantine" (message delivered with the quarantine  *)
(*             flag), "permreject" (5xx), "tempreject" (4xx)                *)
(*     stage   where the refusal happened: "conn" (RunEarlyChecks), "mail", *)
(*             "rcpt", "body"; "none" when nothing was refused              *)
(*     action2 the action for the second message ("n/a": there was none)    *)
(*     queries set of [t, q]: t = "addr" / "txt", q = the queried name in   *)
(*             canonical form (lower case, A-labels, no trailing dot)       *)
(*                                                                         *)
(* Prop = the statement, predicate by predicate.  Rule = the documented     *)
(* procedure; RuleD(devs, _) the same with named deviations of the code:    *)
(*   "MailFromNeverChecked"  the message pipeline never hands MAIL FROM to  *)
(*        the lists: 'mailfrom yes' has no effect (X04-F1)                  *)
(*   "DomainNoFilter"  the responses filter is not applied to the answers   *)
(*        of EHLO / MAIL FROM lookups (X04-F2)                              *)
(*   "InlineScoreZero"  lists given as module arguments have score 0, not   *)
(*        the documented "score 1": a listing on them never acts (X04-F3)   *)
(*   "InlineNoFilter"  lists given as module arguments get no responses     *)
(*        filter although the documentation calls the two forms equivalent  *)
(*        (X04-F4)                                                          *)
(*   "ScopedNoop"  a dnsbl check written in a source / destination block    *)
(*        never looks anything up and never acts (X04-F5)                   *)
(*   "LiteralSkipsMailFrom"  an address literal in EHLO also suppresses the *)
(*        list's MAIL FROM lookup (X04-F6; visible at module level, hidden  *)
(*        behind MailFromNeverChecked in the pipeline)                      *)
(***************************************************************************)
EXTENDS Naturals, Integers, Sequences, FiniteSets, TLC, Json

CONSTANTS MaxLists,  \* most lists per configuration in the score / temp tables
          Devs,      \* deviations switched on in AsIs (as-is configurations only)
          Gen,       \* TRUE: print one ROW line per input
          Seed,      \* seed of the mixed table
          RandN      \* rows of the mixed table

VARIABLE in
vars == <<in>>

Range(f) == {f[i] : i \in DOMAIN f}
AllDevs == {"MailFromNeverChecked", "DomainNoFilter", "InlineScoreZero", "InlineNoFilter", "ScopedNoop",
            "LiteralSkipsMailFrom"}

-----------------------------------------------------------------------------
(* Query names (RFC 5782 2.1: octets reversed, decimal; 2.4: 32 nibbles     *)
(* reversed, lower-case hex; the name is prepended to the zone).            *)
RECURSIVE Join(_, _)
Join(s, sep) == IF Len(s) = 0 THEN ""
                ELSE IF Len(s) = 1 THEN s[1]
                ELSE s[1] \o sep \o Join(Tail(s), sep)
Hex == <<"0", "1", "2", "3", "4", "5", "6", "7", "8", "9", "a", "b", "c", "d", "e", "f">>
V4Labels(o) == [k \in 1..4 |-> ToString(o[5 - k])]
V6Labels(o) == [k \in 1..32 |-> LET b == o[16 - ((k - 1) \div 2)]
                                IN IF k % 2 = 1 THEN Hex[(b % 16) + 1] ELSE Hex[(b \div 16) + 1]]
(* an IPv4-mapped IPv6 peer address is an IPv4 client *)
IsV4(c) == c.fam \in {"v4", "mapped"}
IPLabel(c) == IF IsV4(c) THEN Join(V4Labels(c.oct), ".") ELSE Join(V6Labels(c.oct), ".")
IPName(c, z)   == IPLabel(c) \o "." \o z
EhloName(e, z) == e.canon \o "." \o z
MfName(m, z)   == m.canon \o "." \o z
Q(t, n) == [t |-> t, q |-> n]

-----------------------------------------------------------------------------
(* Configuration with the documented defaults *)
Flag(v, dflt) == IF v = "absent" THEN dflt ELSE v = "yes"
V4On(l)   == Flag(l.v4, TRUE)       \* client_ipv4   Default: yes
V6On(l)   == Flag(l.v6, TRUE)       \* client_ipv6   Default: yes
EhloOn(l) == Flag(l.ehlo, FALSE)    \* ehlo          Default: no
MfOn(l)   == Flag(l.mf, FALSE)      \* mailfrom      Default: no
ScoreOf(l) == IF l.score.given THEN l.score.v ELSE 1            \* Default: 1
QThr(i) == IF i.q.given THEN i.q.v ELSE 1                       \* quarantine_threshold Default: 1
RThr(i) == IF i.r.given THEN i.r.v ELSE 9999                    \* reject_threshold     Default: 9999
DefaultNets == <<[ip |-> <<127, 0, 0, 1>>, bits |-> 24]>>       \* responses Default: 127.0.0.1/24
NetsOf(l) == IF l.resp.given THEN l.resp.nets ELSE DefaultNets

Pow2(n) == 2 ^ n
InNet(a, n) ==
  \A k \in 1..4 :
    LET hb == IF n.bits >= 8 * k THEN 8 ELSE IF n.bits <= 8 * (k - 1) THEN 0 ELSE n.bits - 8 * (k - 1)
    IN (a[k] \div Pow2(8 - hb)) = (n.ip[k] \div Pow2(8 - hb))
Permitted(l, a) == \E n \in Range(NetsOf(l)) : InNet(a, n)
(* "Addresses not matching any entry in this directives will be ignored." *)
Hit(l, A, filtered) ==
  A.k = "addrs" /\ \E j \in DOMAIN A.addrs : (~filtered \/ Permitted(l, A.addrs[j]))

-----------------------------------------------------------------------------
(* Which lookups the documentation prescribes for a list in this row *)
IpApplies(i, l)   == IF IsV4(i.client) THEN V4On(l) ELSE V6On(l)
EhloApplies(i, l) == EhloOn(l) /\ i.ehlo.kind = "dom" /\ i.ehlo.name # ""
(* "MAIL FROM is not checked, even if specified" with check_early *)
MfVisible(i)      == i.level = "module" \/ ~i.early
MfApplies(i, l)   == MfOn(l) /\ i.mf.dom # "" /\ MfVisible(i)
Applicable(i, l)  == (IF IpApplies(i, l) THEN {"ip"} ELSE {})
                     \cup (IF EhloApplies(i, l) THEN {"ehlo"} ELSE {})
                     \cup (IF MfApplies(i, l) THEN {"mf"} ELSE {})
AnsOf(l, kind) == CASE kind = "ip" -> l.ans.ip [] kind = "ehlo" -> l.ans.ehlo [] OTHER -> l.ans.mf
NameOf(i, l, kind) == CASE kind = "ip" -> IPName(i.client, l.zone)
                        [] kind = "ehlo" -> EhloName(i.ehlo, l.zone)
                        [] OTHER -> MfName(i.mf, l.zone)

Listed(i, l)  == \E kind \in Applicable(i, l) : Hit(l, AnsOf(l, kind), TRUE)
HasTemp(i, l) == \E kind \in Applicable(i, l) : AnsOf(l, kind).k = "temp"
AnyTemp(i)    == \E k \in DOMAIN i.lists : HasTemp(i, i.lists[k])

RECURSIVE SumOver(_, _, _)
SumOver(i, S, k) == IF k > Len(i.lists) THEN 0
                    ELSE (IF k \in S THEN ScoreOf(i.lists[k]) ELSE 0) + SumOver(i, S, k + 1)
ListedSet(i) == {k \in DOMAIN i.lists : Listed(i, i.lists[k])}
Score(i) == SumOver(i, ListedSet(i), 1)

Decide(i, s) == IF s >= RThr(i) THEN "permreject"
                ELSE IF s >= QThr(i) THEN "quarantine"
                ELSE "none"
(* check_early: "No action is taken if quarantine_threshold is hit, only     *)
(* reject_threshold applies."  The code still quarantines at the message     *)
(* stage; both are accepted.                                                *)
Band(i, a) == IF i.early /\ i.level = "pipeline" /\ a = "quarantine" THEN {"none", "quarantine"} ELSE {a}

(* every name the documentation lets the check ask for *)
Documented(i) ==
  UNION {{Q(t, NameOf(i, i.lists[k], kind)) : t \in {"addr", "txt"}, kind \in Applicable(i, i.lists[k])}
         : k \in DOMAIN i.lists}

(* "For this to work correctly, check should not be used in source/destination *)
(* pipeline block": nothing is claimed about check_early in such a block.      *)
Claimed(i) == ~(i.early /\ i.place # "global")

-----------------------------------------------------------------------------
(* The property, one named predicate per clause of the statement. *)
P_NoCrash(i, o) == o.action # "panic" /\ o.action2 # "panic"
P_OnlyDocumentedQueries(i, o) == o.queries \subseteq Documented(i)
MfNullC == [local |-> "", dom |-> "", canon |-> "", utf8 |-> FALSE]
(* the row as the second message of the connection sees it *)
Msg2(i) == [i EXCEPT !.mf = IF i.second = "null" THEN MfNullC ELSE i.mf]
(* (a check of a source block does not apply to a message of another sender) *)
InScope2(i) == ~(i.place = "source" /\ i.second = "null")
HasSecond(i, o) == i.second # "none" /\ o.action2 # "n/a" /\ InScope2(i)
DecisionOK(i, a) == (Claimed(i) /\ ~AnyTemp(i)) => a \in Band(i, Decide(i, Score(i)))
(* every message of the connection is decided on its own identities *)
P_Decision(i, o) == DecisionOK(i, o.action) /\ (HasSecond(i, o) => DecisionOK(Msg2(i), o.action2))
(* a temporary failure is not a listing: the message is refused temporarily, *)
(* or decided as if the failing list's lookup had found nothing             *)
TempScores(i) ==
  LET F == {k \in DOMAIN i.lists : HasTemp(i, i.lists[k])}
      sure == ListedSet(i) \ F
  IN {SumOver(i, sure \cup T, 1) : T \in SUBSET (ListedSet(i) \cap F)}
TempOK(i, a) ==
  (Claimed(i) /\ AnyTemp(i)) =>
     a \in {"tempreject"} \cup UNION {Band(i, Decide(i, s)) : s \in TempScores(i)}
P_TempNotListing(i, o) == TempOK(i, o.action) /\ (HasSecond(i, o) => TempOK(Msg2(i), o.action2))
(* check_early refuses at the connection stage, before MAIL; without it the  *)
(* refusal belongs to the message (where logging and defer_sender_reject apply) *)
P_Stage(i, o) ==
  (i.level = "pipeline" /\ Claimed(i) /\ o.action \in {"permreject", "tempreject"}) =>
     (IF i.early THEN o.stage = "conn" ELSE o.stage \in {"mail", "rcpt", "body"})
P_Code(i, o) ==
  /\ o.action = "permreject" => o.code \in 500..599
  /\ o.action = "tempreject" => o.code \in 400..499

PredNames == {"NoCrash", "OnlyDocumentedQueries", "Decision", "TempNotListing", "Stage", "Code"}
Holds(n, i, o) == CASE n = "NoCrash" -> P_NoCrash(i, o)
                    [] n = "OnlyDocumentedQueries" -> P_OnlyDocumentedQueries(i, o)
                    [] n = "Decision" -> P_Decision(i, o)
                    [] n = "TempNotListing" -> P_TempNotListing(i, o)
                    [] n = "Stage" -> P_Stage(i, o)
                    [] n = "Code" -> P_Code(i, o)
Viol(i, o) == {n \in PredNames : ~Holds(n, i, o)}
Prop(i, o) == Viol(i, o) = {}

-----------------------------------------------------------------------------
(* The documented procedure, step by step (dnsbl.go: checkList, checkLists, *)
(* CheckConnection), with the named deviations.                             *)
(* One list: client address first, then EHLO, then MAIL FROM; the first     *)
(* listing ends the list's evaluation, a failing lookup fails the list.      *)
Step(on, name, A, hit) ==
  IF ~on THEN [res |-> "clear", q |-> {}]
  ELSE IF A.k = "temp" THEN [res |-> "error", q |-> {Q("addr", name)}]
  ELSE IF hit THEN [res |-> "listed", q |-> {Q("addr", name), Q("txt", name)}]
  ELSE [res |-> "clear", q |-> {Q("addr", name)}]
Then(a, b) == IF a.res = "clear" THEN [res |-> b.res, q |-> a.q \cup b.q] ELSE a

ListEval(devs, i, l) ==
  LET ipF   == ~("InlineNoFilter" \in devs /\ l.form = "inline")
      domF  == "DomainNoFilter" \notin devs
      mfVis == MfVisible(i) /\ (i.level = "module" \/ "MailFromNeverChecked" \notin devs)
      lit   == i.ehlo.kind = "lit"
      sIp   == Step(IpApplies(i, l), IPName(i.client, l.zone), l.ans.ip, Hit(l, l.ans.ip, ipF))
      sEhlo == Step(EhloApplies(i, l), EhloName(i.ehlo, l.zone), l.ans.ehlo, Hit(l, l.ans.ehlo, domF))
      (* the same name is not asked twice *)
      mfOn  == /\ MfOn(l) /\ i.mf.dom # "" /\ mfVis
               /\ ~(EhloApplies(i, l) /\ i.ehlo.canon = i.mf.canon)
               /\ ~("LiteralSkipsMailFrom" \in devs /\ EhloOn(l) /\ lit)
      sMf   == Step(mfOn, MfName(i.mf, l.zone), l.ans.mf, Hit(l, l.ans.mf, domF))
  IN Then(Then(sIp, sEhlo), sMf)

ScoreOfD(devs, l) == IF "InlineScoreZero" \in devs /\ l.form = "inline" THEN 0 ELSE ScoreOf(l)
RECURSIVE SumRes(_, _, _, _)
SumRes(devs, i, ev, k) ==
  IF k > Len(i.lists) THEN 0
  ELSE (IF ev[k].res = "listed" THEN ScoreOfD(devs, i.lists[k]) ELSE 0) + SumRes(devs, i, ev, k + 1)

RuleMsg(devs, i) ==
  (* check_early in a source / destination block is documented not to work:  *)
  (* early checks are run for the top-level check block only                  *)
  IF i.place # "global" /\ ("ScopedNoop" \in devs \/ i.early)
  THEN [action |-> "none", stage |-> "none", code |-> 0, queries |-> {}]
  ELSE
    LET ev  == [k \in DOMAIN i.lists |-> ListEval(devs, i, i.lists[k])]
        qs  == UNION {ev[k].q : k \in DOMAIN i.lists}
        err == \E k \in DOMAIN i.lists : ev[k].res = "error"
        act == IF err THEN "tempreject" ELSE Decide(i, SumRes(devs, i, ev, 1))
        refused == act \in {"permreject", "tempreject"}
        stg == IF ~refused THEN "none"
               ELSE IF i.level = "module" THEN "none"
               ELSE IF i.early THEN "conn"
               ELSE IF i.place = "destination" THEN "rcpt"    \* recipient-scoped checks run at RCPT
               ELSE "mail"
    IN [action |-> act, stage |-> stg,
        code |-> CASE act = "permreject" -> 554 [] act = "tempreject" -> 451 [] OTHER -> 0,
        queries |-> qs]
(* the connection: the first message, then (unless the connection was refused) *)
(* the second one, decided by the same procedure on its own MAIL FROM          *)
RuleD(devs, i) ==
  LET r1 == RuleMsg(devs, i)
      two == i.second # "none" /\ i.level = "pipeline" /\ r1.stage # "conn"
      r2 == IF InScope2(i) THEN RuleMsg(devs, Msg2(i))
            ELSE [action |-> "none", stage |-> "none", code |-> 0, queries |-> {}]
  IN [action |-> r1.action, stage |-> r1.stage, code |-> r1.code,
      queries |-> r1.queries \cup (IF two THEN r2.queries ELSE {}),
      action2 |-> IF two THEN r2.action ELSE "n/a"]
Rule(i) == RuleD({}, i)
AsIs(i) == RuleD(Devs, i)

SameOut(a, b) == /\ a.action = b.action /\ a.stage = b.stage /\ a.code = b.code /\ a.queries = b.queries
                 /\ a.action2 = b.action2
Explains(devSets, i, o) == {D \in devSets : SameOut(o, RuleD(D, i))}

-----------------------------------------------------------------------------
(* Input tables *)
Zones == <<"a.bl.test", "b.bl.test", "c.bl.test", "d.bl.test">>
Given(v) == [given |-> TRUE, v |-> v]
NotGiven == [given |-> FALSE, v |-> 0]
DefResp  == [given |-> FALSE, nets |-> <<>>]
Resp(nets) == [given |-> TRUE, nets |-> nets]

NX    == [k |-> "nx", addrs |-> <<>>, txt |-> "none"]
TEMP  == [k |-> "temp", addrs |-> <<>>, txt |-> "none"]
A(addrs, txt) == [k |-> "addrs", addrs |-> addrs, txt |-> txt]
IN2   == A(<<<<127, 0, 0, 2>>>>, "none")
Ans(ip, ehlo, mf) == [ip |-> ip, ehlo |-> ehlo, mf |-> mf]
OfKind(v) == CASE v = "nx" -> NX [] v = "in" -> IN2 [] v = "temp" -> TEMP

Block(z, v4, v6, ehlo, mf, score, resp, ans) ==
  [form |-> "block", zone |-> z, v4 |-> v4, v6 |-> v6, ehlo |-> ehlo, mf |-> mf,
   score |-> score, resp |-> resp, ans |-> ans]
(* "dnsbl zone ..." = client_ipv4 yes, client_ipv6 no, ehlo no, mailfrom no, score 1 *)
Inline(z, ans) ==
  [form |-> "inline", zone |-> z, v4 |-> "yes", v6 |-> "no", ehlo |-> "no", mf |-> "no",
   score |-> NotGiven, resp |-> DefResp, ans |-> ans]

C4  == [fam |-> "v4", oct |-> <<192, 0, 2, 99>>]
CM  == [fam |-> "mapped", oct |-> <<192, 0, 2, 99>>]
C6  == [fam |-> "v6", oct |-> <<32, 1, 13, 184, 0, 1, 0, 2, 0, 3, 0, 4, 5, 103, 137, 171>>]  \* 2001:db8:1:2:3:4:567:89ab
EhloDom   == [kind |-> "dom", name |-> "mx.sender.test", canon |-> "mx.sender.test"]
EhloSame  == [kind |-> "dom", name |-> "sender.test", canon |-> "sender.test"]
EhloUpper == [kind |-> "dom", name |-> "SENDER.TEST", canon |-> "sender.test"]
EhloOdd   == [kind |-> "dom", name |-> "not_a-host", canon |-> "not_a-host"]
EhloLit4  == [kind |-> "lit", name |-> "[192.0.2.99]", canon |-> "[192.0.2.99]"]
EhloLit6  == [kind |-> "lit", name |-> "[IPv6:2001:db8::1]", canon |-> "[ipv6:2001:db8::1]"]
MfDom  == [local |-> "bounce", dom |-> "sender.test", canon |-> "sender.test", utf8 |-> FALSE]
MfNull == [local |-> "", dom |-> "", canon |-> "", utf8 |-> FALSE]
(* the client writes the U-label spelling of xn--e1afmkfd.test *)
MfIdn  == [local |-> "bounce", dom |-> "xn--e1afmkfd.test", canon |-> "xn--e1afmkfd.test", utf8 |-> TRUE]

(* one name has one answer: where the MAIL FROM domain is the EHLO name the   *)
(* list's answer for it is the answer for the EHLO name                      *)
FixAns(l, ehlo, mf) ==
  IF mf.dom # "" /\ mf.canon = ehlo.canon
  THEN [l EXCEPT !.ans = [ip |-> l.ans.ip, ehlo |-> l.ans.ehlo, mf |-> l.ans.ehlo]]
  ELSE l
Row(tab, level, place, early, q, r, lists, client, ehlo, mf) ==
  [tab |-> tab, level |-> level, place |-> place, early |-> early, q |-> q, r |-> r,
   lists |-> [k \in DOMAIN lists |-> FixAns(lists[k], ehlo, mf)],
   client |-> client, ehlo |-> ehlo, mf |-> mf, group |-> FALSE, second |-> "none"]
(* "Using multiple arguments is equivalent to specifying the same configuration *)
(* separately for each list": block lists with identical directives are written *)
(* as one block with several zone names                                         *)
Grouped(r) == [r EXCEPT !.group = TRUE]
WithSecond(r, s) == [r EXCEPT !.second = s]

(* (a) score table: IPv4 lists with every score, listed or not, every pair of thresholds *)
ScoreVals(n) == IF n <= 2 THEN {NotGiven, Given(0), Given(1), Given(2), Given(5), Given(0 - 1), Given(0 - 2)}
                ELSE IF n = 3 THEN {NotGiven, Given(2), Given(5), Given(0 - 1)}
                ELSE {Given(1), Given(0 - 1)}
QVals == {NotGiven, Given(0), Given(1), Given(2), Given(3)}
RVals == {NotGiven, Given(1), Given(2), Given(3)}
InScore ==
  \E n \in 1..MaxLists :
    \E sc \in [1..n -> ScoreVals(n)], ls \in [1..n -> {"nx", "in"}], q \in QVals, r \in RVals, early \in BOOLEAN :
      in = Row("score", "pipeline", "global", early, q, r,
               [k \in 1..n |-> Block(Zones[k], "yes", "no", "no", "no", sc[k], DefResp,
                                     Ans(OfKind(ls[k]), NX, NX))],
               C4, EhloDom, MfDom)

(* (b) kinds table: one list, every combination of enabled lookups x client  *)
(* family x EHLO / MAIL FROM shapes x which of the three names is listed     *)
YesNo == {"yes", "no"}
Idents == {<<EhloDom, MfDom>>, <<EhloDom, MfNull>>, <<EhloDom, MfIdn>>, <<EhloLit4, MfDom>>,
           <<EhloLit6, MfDom>>, <<EhloLit4, MfNull>>, <<EhloSame, MfDom>>, <<EhloUpper, MfDom>>,
           <<EhloOdd, MfDom>>}
Patterns == {<<"nx", "nx", "nx">>, <<"in", "nx", "nx">>, <<"nx", "in", "nx">>, <<"nx", "nx", "in">>,
             <<"in", "in", "in">>}
LevelEarly == {<<"pipeline", FALSE>>, <<"pipeline", TRUE>>, <<"module", FALSE>>}
InKinds ==
  \E v4 \in YesNo, v6 \in YesNo, eh \in YesNo, mfl \in YesNo, c \in {C4, C6, CM}, id \in Idents,
     p \in Patterns, le \in LevelEarly :
    in = Row("kinds", le[1], "global", le[2], Given(1), Given(2),
             <<Block(Zones[1], v4, v6, eh, mfl, Given(2), DefResp,
                     Ans(OfKind(p[1]), OfKind(p[2]), OfKind(p[3])))>>,
             c, id[1], id[2])

(* (c) filter table: answers inside / outside the responses filter, for each *)
(* kind of lookup, inline and block form, TXT present / absent / failing     *)
Pool == <<<<127, 0, 0, 2>>, <<127, 0, 0, 255>>, <<127, 0, 1, 2>>, <<127, 255, 255, 254>>,
          <<10, 9, 8, 7>>, <<127, 0, 0, 4>>>>
AddrSets == {<<>>} \cup {<<Pool[a]>> : a \in DOMAIN Pool}
            \cup {<<Pool[a], Pool[b]>> : a \in DOMAIN Pool, b \in DOMAIN Pool}
Resps == <<DefResp,
          Resp(<<[ip |-> <<127, 0, 0, 0>>, bits |-> 8]>>),
          Resp(<<[ip |-> <<127, 0, 0, 4>>, bits |-> 32]>>),
          Resp(<<[ip |-> <<127, 0, 0, 2>>, bits |-> 32], [ip |-> <<127, 0, 1, 0>>, bits |-> 24]>>),
          Resp(<<[ip |-> <<127, 0, 0, 128>>, bits |-> 25]>>)>>
InFilter ==
  \E as \in AddrSets, txt \in {"none", "one", "fail"}, kind \in {"ip", "ehlo", "mf"},
     rs \in 0..Len(Resps) :           \* 0: the list is given as module argument
    /\ (rs = 0) => kind = "ip"
    /\ (Len(as) = 2) => as[1] # as[2]
    /\ LET a == A(as, txt)
           an == CASE kind = "ip" -> Ans(a, NX, NX) [] kind = "ehlo" -> Ans(NX, a, NX) [] OTHER -> Ans(NX, NX, a)
           l == IF rs = 0 THEN Inline(Zones[1], an)
                ELSE Block(Zones[1], IF kind = "ip" THEN "yes" ELSE "no", "no",
                           IF kind = "ehlo" THEN "yes" ELSE "no", IF kind = "mf" THEN "yes" ELSE "no",
                           NotGiven, Resps[rs], an)
       IN in = Row("filter", IF kind = "mf" THEN "module" ELSE "pipeline", "global", FALSE,
                   NotGiven, Given(1), <<l>>, C4, EhloDom, MfDom)

(* (d) temporary failures: next to listed / clear lists, allow-lists, on     *)
(* each kind of lookup                                                       *)
Min(a, b) == IF a < b THEN a ELSE b
InTemp ==
  \/ \E n \in 1..Min(MaxLists, 3) :
       \E sc \in [1..n -> {Given(1), Given(2), Given(0 - 1)}], ls \in [1..n -> {"nx", "in", "temp"}],
          r \in {NotGiven, Given(2)}, early \in BOOLEAN :
         /\ \E k \in 1..n : ls[k] = "temp"
         /\ in = Row("temp", "pipeline", "global", early, Given(1), r,
                     [k \in 1..n |-> Block(Zones[k], "yes", "no", "no", "no", sc[k], DefResp,
                                           Ans(OfKind(ls[k]), NX, NX))],
                     C4, EhloDom, MfDom)
  \/ \E a1 \in {"nx", "in", "temp"}, a2 \in {"nx", "in", "temp"}, a3 \in {"nx", "in", "temp"},
        le \in LevelEarly, id \in {<<EhloDom, MfDom>>, <<EhloLit4, MfDom>>} :
       /\ "temp" \in {a1, a2, a3}
       /\ in = Row("temp", le[1], "global", le[2], Given(1), Given(2),
                   <<Block(Zones[1], "yes", "no", "yes", "yes", Given(2), DefResp,
                           Ans(OfKind(a1), OfKind(a2), OfKind(a3)))>>,
                   C4, id[1], id[2])

(* (e) query names for more client addresses *)
MoreClients ==
  {[fam |-> "v4", oct |-> <<10, 1, 200, 7>>], [fam |-> "v4", oct |-> <<1, 2, 3, 4>>],
   [fam |-> "v4", oct |-> <<203, 0, 113, 255>>], [fam |-> "mapped", oct |-> <<10, 1, 200, 7>>],
   [fam |-> "v6", oct |-> <<32, 1, 13, 184, 0, 0, 0, 0, 0, 0, 0, 0, 0, 0, 0, 1>>],            \* 2001:db8::1
   [fam |-> "v6", oct |-> <<254, 128, 0, 0, 0, 0, 0, 0, 10, 11, 12, 13, 14, 15, 160, 240>>],  \* fe80::a0b:c0d:e0f:a0f0
   [fam |-> "v6", oct |-> <<32, 1, 0, 0, 0, 1, 0, 2, 0, 3, 0, 4, 5, 103, 137, 171>>]}          \* 2001::1:2:3:4:567:89ab
InAddr ==
  \E c \in MoreClients \cup {C4, C6, CM}, ls \in {"nx", "in"}, fl \in {<<"yes", "yes">>, <<"yes", "no">>, <<"no", "yes">>} :
    in = Row("addr", "pipeline", "global", FALSE, Given(1), Given(1),
             <<Block(Zones[1], fl[1], fl[2], "no", "no", NotGiven, DefResp, Ans(OfKind(ls), NX, NX))>>,
             c, EhloDom, MfDom)

(* (f) placement: top-level check block, source block, destination block *)
InPlace ==
  \E pl \in {"global", "source", "destination"}, early \in BOOLEAN, ls \in {"nx", "in", "temp"},
     sc \in {Given(1), Given(2)} :
    in = Row("place", "pipeline", pl, early, Given(1), Given(2),
             <<Block(Zones[1], "yes", "no", "yes", "no", sc, DefResp, Ans(OfKind(ls), NX, NX))>>,
             C4, EhloDom, MfDom)

(* (g) defaults: directives left out, inline and block lists side by side *)
FlagSets == {<<"absent", "absent", "absent", "absent">>,
             <<"absent", "no", "no", "no">>, <<"no", "absent", "no", "no">>,
             <<"no", "no", "absent", "no">>, <<"no", "no", "no", "absent">>,
             <<"absent", "yes", "yes", "yes">>, <<"yes", "absent", "yes", "yes">>,
             <<"yes", "yes", "absent", "yes">>, <<"yes", "yes", "yes", "absent">>}
InDefaults ==
  \/ \E fs \in FlagSets, c \in {C4, C6, CM}, p \in Patterns, lv \in {"pipeline", "module"} :
       in = Row("defaults", lv, "global", FALSE, NotGiven, Given(1),
                <<Block(Zones[1], fs[1], fs[2], fs[3], fs[4], NotGiven, DefResp,
                        Ans(OfKind(p[1]), OfKind(p[2]), OfKind(p[3])))>>,
                c, EhloDom, MfDom)
  \/ \E c \in {C4, C6, CM}, l1 \in {"nx", "in"}, l2 \in {"nx", "in"}, l3 \in {"nx", "in"},
        q \in {NotGiven, Given(2)}, r \in {NotGiven, Given(3)} :
       in = Row("defaults", "pipeline", "global", FALSE, q, r,
                <<Inline(Zones[1], Ans(OfKind(l1), NX, NX)), Inline(Zones[2], Ans(OfKind(l2), NX, NX)),
                  Block(Zones[3], "absent", "absent", "absent", "absent", NotGiven, DefResp,
                        Ans(OfKind(l3), NX, NX))>>,
                c, EhloDom, MfDom)

(* (g2) several zones in one list block *)
InGroup ==
  \E n \in 2..3 :
    \E ls \in [1..n -> {"nx", "in"}], sc \in {NotGiven, Given(2)}, eh \in YesNo, g \in BOOLEAN, c \in {C4, C6} :
      LET r == Row("group", "pipeline", "global", FALSE, Given(2), Given(4),
                   [k \in 1..n |-> Block(Zones[k], "yes", "absent", eh, "no", sc, DefResp,
                                         Ans(OfKind(ls[k]), OfKind(ls[n + 1 - k]), NX))],
                   c, EhloDom, MfDom)
      IN in = IF g THEN Grouped(r) ELSE r

(* (g3) two messages on one connection *)
InSecond ==
  \E s \in {"same", "null"}, early \in BOOLEAN, mfl \in YesNo, sc \in {Given(1), Given(2)},
     p \in Patterns \cup {<<"temp", "nx", "nx">>, <<"nx", "nx", "temp">>, <<"in", "nx", "temp">>} :
    in = WithSecond(Row("second", "pipeline", "global", early, Given(1), Given(2),
                        <<Block(Zones[1], "yes", "no", "no", mfl, sc, DefResp,
                                Ans(OfKind(p[1]), OfKind(p[2]), OfKind(p[3])))>>,
                        C4, EhloDom, MfDom), s)

(* (h) mixed table: Seed-dependent rows that cross every dimension of the    *)
(* tables above (1-3 lists of either form with drawn flags, scores, filters  *)
(* and answers for the three names; drawn identities, thresholds, level,     *)
(* placement)                                                                *)
HH(x) == LET y == x % 32749 IN (y * y + 7 * y + 12345) % 32749
Draw(n, k) == HH(HH(HH(Seed * 911 + n) + 31 * k) + n + k)
Pick(seq, r) == seq[(r % Len(seq)) + 1]
Flags3 == <<"yes", "no", "absent">>
RScores == <<NotGiven, Given(1), Given(2), Given(3), Given(0 - 1), Given(0)>>
RResps == <<DefResp, DefResp, Resps[2], Resps[3], Resps[4], Resps[5]>>
RAnswers == <<NX, NX, IN2, IN2, TEMP, A(<<Pool[3]>>, "one"), A(<<Pool[5], Pool[1]>>, "fail"), A(<<>>, "none"),
              A(<<Pool[6]>>, "one"), A(<<Pool[4]>>, "none")>>
RClients == <<C4, C4, C6, CM, [fam |-> "v4", oct |-> <<10, 1, 200, 7>>],
              [fam |-> "v6", oct |-> <<32, 1, 13, 184, 0, 0, 0, 0, 0, 0, 0, 0, 0, 0, 0, 1>>]>>
RIdents == <<<<EhloDom, MfDom>>, <<EhloDom, MfDom>>, <<EhloDom, MfNull>>, <<EhloDom, MfIdn>>, <<EhloLit4, MfDom>>,
             <<EhloLit6, MfDom>>, <<EhloSame, MfDom>>, <<EhloUpper, MfDom>>, <<EhloOdd, MfNull>>>>
RQ == <<NotGiven, Given(0), Given(1), Given(2), Given(3)>>
RR == <<NotGiven, Given(1), Given(2), Given(3), Given(4)>>
RList(n, j) ==
  LET d(k) == Draw(n, 10 * j + k)
      an == Ans(Pick(RAnswers, d(2)), Pick(RAnswers, d(3)), Pick(RAnswers, d(4)))
      sc == Pick(RScores, d(9))
      neg == sc.given /\ sc.v < 0        \* the module refuses ehlo / mailfrom on allow-lists
  IN IF d(1) % 4 = 0 THEN Inline(Zones[j], an)
     ELSE Block(Zones[j], Pick(Flags3, d(5)), Pick(Flags3, d(6)),
                IF neg THEN "no" ELSE Pick(Flags3, d(7)), IF neg THEN "no" ELSE Pick(Flags3, d(8)),
                sc, Pick(RResps, d(10)), an)
RandRow(n) ==
  LET nl == (Draw(n, 1) % 3) + 1
      lv == Pick(<<"pipeline", "pipeline", "module">>, Draw(n, 2))
      pl == IF lv = "module" THEN "global"
            ELSE Pick(<<"global", "global", "global", "global", "source", "destination">>, Draw(n, 3))
      id == IF pl = "global" THEN Pick(RIdents, Draw(n, 4)) ELSE <<EhloDom, MfDom>>
      r  == Row("mixed", lv, pl, lv = "pipeline" /\ Draw(n, 5) % 2 = 0, Pick(RQ, Draw(n, 6)), Pick(RR, Draw(n, 7)),
                [j \in 1..nl |-> RList(n, j)], Pick(RClients, Draw(n, 8)), id[1], id[2])
      g  == IF Draw(n, 9) % 2 = 0 THEN Grouped(r) ELSE r
  IN IF lv = "pipeline" THEN WithSecond(g, Pick(<<"none", "none", "same", "null">>, Draw(n, 10))) ELSE g
InMixed == \E n \in 1..RandN : in = RandRow(n)

(* what the harness serves: the answers at the names this specification      *)
(* computes, for every list and every identity, whether enabled or not      *)
ZoneOf(i) ==
  LET per(l) == <<[name |-> IPName(i.client, l.zone), ans |-> l.ans.ip]>>
                \o (IF i.ehlo.name # "" THEN <<[name |-> EhloName(i.ehlo, l.zone), ans |-> l.ans.ehlo]>> ELSE <<>>)
                \o (IF i.mf.dom # "" /\ ~(i.mf.canon = i.ehlo.canon)
                    THEN <<[name |-> MfName(i.mf, l.zone), ans |-> l.ans.mf]>> ELSE <<>>)
      RECURSIVE cat(_)
      cat(k) == IF k > Len(i.lists) THEN <<>> ELSE per(i.lists[k]) \o cat(k + 1)
  IN cat(1)

-----------------------------------------------------------------------------
Init == InScore \/ InKinds \/ InFilter \/ InTemp \/ InAddr \/ InPlace \/ InDefaults \/ InGroup \/ InSecond \/ InMixed
Next == FALSE /\ UNCHANGED in      \* one state per input (CHECK_DEADLOCK FALSE)
Spec == Init /\ [][Next]_vars

(* TLC: the documented rule satisfies the property on every row *)
RuleSatisfiesProp == Prop(in, Rule(in))
(* the theorem behind the statement: without temporary failures the rule's   *)
(* action is a function of the sum of the scores of the lists that list the *)
(* client, and the rule asks exactly for documented names                   *)
RuleIsScoreSum ==
  /\ (Claimed(in) /\ ~AnyTemp(in)) => Rule(in).action = Decide(in, Score(in))
  /\ (Claimed(in) /\ ~AnyTemp(Msg2(in)) /\ Rule(in).action2 # "n/a" /\ InScope2(in)) =>
        Rule(in).action2 = Decide(in, Score(Msg2(in)))
  /\ Rule(in).queries \subseteq Documented(in)
  /\ (Claimed(in) /\ ~AnyTemp(in) /\ ListedSet(in) = {}) =>
        {x \in Documented(in) : x.t = "addr"} \subseteq Rule(in).queries
(* as-is configuration: the code's deviations must violate the property *)
AsIsSatisfiesProp == Prop(in, AsIs(in))

Emit == Gen => PrintT(<<"ROW", ToJson([in |-> in, exp |-> Rule(in), zone |-> ZoneOf(in)])>>)
=============================================================================
