---------------------------- MODULE LocalStoreObs ----------------------------
(***************************************************************************)
(* Observation state and property predicates of extension X05: local       *)
(* delivery into the IMAP storage (internal/storage/imapsql/delivery.go    *)
(* over go-imap-sql, internal/imap_filter).                                *)
(*                                                                         *)
(* Everything here is a pure function of what is visible at the two        *)
(* boundaries of the storage module:                                       *)
(*   - the module.DeliveryTarget calls Start/AddRcpt/Body/Commit/Abort and *)
(*     their results (class of the error handed back),                     *)
(*   - the content of every mailbox of every account, read back through    *)
(*     the IMAP backend API after every call ("snap": a set of records      *)
(*     [acct, mbox, msg, dt, hdr, body, rp, flags, n], identical messages  *)
(*     grouped with their multiplicity n),                                 *)
(*   - the calls the configured IMAP filters received, and the blob store. *)
(* The same operators fold `obs` in the design spec (LocalStore.tla,       *)
(* checked exhaustively) and in the trace spec (LocalStoreTrace.tla, fed   *)
(* with events recorded from the real sqlite-backed storage).              *)
(*                                                                         *)
(* The documented parts of the statement transcribed here:                 *)
(*   Resolve      docs/reference/storage/imapsql.md: delivery_normalize,   *)
(*                delivery_map ("normalization ... is applied before        *)
(*                delivery_map"), "Account names ... are case-insensitive", *)
(*                the table of normalization functions under auth_normalize *)
(*   AllowedBoxes docs/reference/storage/imap-filters.md ("First one, if    *)
(*                non-empty, overrides destination folder", "Quarantined    *)
(*                messages are not processed by IMAP filters and are        *)
(*                unconditionally delivered to Junk folder (or other folder *)
(*                with \Junk special-use attribute)"), imapsql.md            *)
(*                junk_mailbox                                              *)
(*   FlagsOf      imap-filters.md ("All other lines contain additional IMAP *)
(*                flags to add to the message"); framework/module/          *)
(*                imap_filter.go ("Errors returned by IMAPFilter will be    *)
(*                just logged and will not cause delivery to fail")         *)
(***************************************************************************)
EXTENDS Naturals, Sequences, FiniteSets

StartAccts == {"a", "b"}        \* accounts that exist when a behaviour starts
AllAccts   == {"a", "b", "u"}   \* "u" appears when its owner logs in (auto-creation)

(* Abstract recipient addresses: a base and the kind of spelling.          *)
(*  a  alice@example.org       aC ALICE@Example.ORG   aW fullwidth "alice"  *)
(*  b  bob@<U-label domain>    bC Bob@<upper case>    bA bob@<A-label>      *)
(*  u  nobody@example.org (no account until the owner logs in)             *)
(*  x  "al ice@example.org" (not a valid address)                          *)
(*  s  sales@example.org, sC Sales@...: alias of a in the delivery_map     *)
(*  g  ghost@example.org: the delivery_map names an account that is absent *)
(*  f  flaky@example.org: the delivery_map lookup itself fails             *)
Base(ad) == CASE ad \in {"a", "aC", "aW"} -> "a"
              [] ad \in {"b", "bC", "bA"} -> "b"
              [] ad \in {"s", "sC"}       -> "s"
              [] OTHER                    -> ad
Kind(ad) == CASE ad \in {"aC", "bC", "sC"} -> "case"
              [] ad = "aW"                 -> "width"
              [] ad = "bA"                 -> "alabel"
              [] OTHER                     -> "canon"

\* the normalized string is the canonical (stored) spelling
NormOK(norm, k) ==
  \/ k = "canon"
  \/ k = "case"   /\ norm \in {"precis_casefold_email", "casefold"}
  \/ k = "width"  /\ norm \in {"precis_casefold_email", "precis_email"}
  \/ k = "alabel" /\ norm \in {"precis_casefold_email", "precis_email"}
\* the normalized string differs from the canonical spelling by letter case only
CaseOnly(norm, k) == k = "case" /\ norm \in {"precis_email", "noop"}

MapTo(b) == CASE b \in {"a", "b", "u"} -> b
              [] b = "s" -> "a"
              [] b = "g" -> "ghost"
              [] b = "f" -> "err"
              [] OTHER   -> "none"

\* the account name an address stands for: an element of AllAccts, "ghost", "err" or "none"
Resolve(c, ad) ==
  LET b == Base(ad)
      k == Kind(ad)
  IN IF b = "x" THEN "none"
     ELSE IF c.dmap THEN (IF NormOK(c.norm, k) THEN MapTo(b) ELSE "none")
     ELSE IF b \in AllAccts /\ (NormOK(c.norm, k) \/ CaseOnly(c.norm, k)) THEN b ELSE "none"

AcctOf(c, ad, ex) ==
  LET r == Resolve(c, ad) IN IF r = "err" THEN "err" ELSE IF r \in ex THEN r ELSE "none"

(* what one filter answers for one account *)
OutRec(id) == CASE id = "e"  -> [err |-> TRUE,  folder |-> "",        flags |-> {}]
                [] id = "n"  -> [err |-> FALSE, folder |-> "",        flags |-> {}]
                [] id = "nF" -> [err |-> FALSE, folder |-> "",        flags |-> {"$A"}]
                [] id = "w"  -> [err |-> FALSE, folder |-> "Work",    flags |-> {}]
                [] id = "wF" -> [err |-> FALSE, folder |-> "Work",    flags |-> {"$A"}]
                [] id = "x"  -> [err |-> FALSE, folder |-> "Nope",    flags |-> {}]
                [] id = "r"  -> [err |-> FALSE, folder |-> "Archive", flags |-> {"$B"}]
                [] OTHER     -> [err |-> FALSE, folder |-> "",        flags |-> {}]
OutAt(outs, i, acct) == IF acct \in DOMAIN outs[i] THEN OutRec(outs[i][acct]) ELSE OutRec("n")

\* a group of filters: the first filter that names a folder wins, flags accumulate,
\* a failing filter is skipped (group semantics: from the code, internal/imap_filter/group.go)
RECURSIVE FolderFrom(_, _, _)
FolderFrom(outs, acct, i) ==
  IF i > Len(outs) THEN ""
  ELSE LET o == OutAt(outs, i, acct) IN
       IF ~o.err /\ o.folder # "" THEN o.folder ELSE FolderFrom(outs, acct, i + 1)
FolderOf(outs, acct) == FolderFrom(outs, acct, 1)
FlagsOf(outs, acct) ==
  UNION {IF OutAt(outs, i, acct).err THEN {} ELSE OutAt(outs, i, acct).flags : i \in 1..Len(outs)}

\* the start accounts own the folders Work and Archive; nobody owns Nope
HasFolder(acct, f) == acct \in StartAccts /\ f \in {"Work", "Archive"}
JunkOf(c, acct) == IF c.jbox = "special" /\ acct = "a" THEN "Spam" ELSE c.junkName

\* where the statement allows the copy of `acct` to be.  A folder the filter named but the
\* account does not have: the documentation is silent; both "created" and "INBOX" are accepted.
AllowedBoxes(c, quar, outs, acct) ==
  IF quar THEN {JunkOf(c, acct)}
  ELSE LET f == FolderOf(outs, acct) IN
       IF f = "" THEN {"INBOX"} ELSE IF HasFolder(acct, f) THEN {f} ELSE {"INBOX", f}
WantFlags(quar, outs, acct) == IF quar THEN {} ELSE FlagsOf(outs, acct)

NoWant == [x \in AllAccts |-> [boxes |-> {}, flags |-> {}]]

ObsInit ==
  [ cur    |-> "",          \* message of the open delivery ("" = none)
    quar   |-> FALSE,       \* it is quarantined
    acc    |-> {},          \* accounts accepted for it
    want   |-> NoWant,      \* per account: allowed mailboxes and required flags (known at Body)
    kept   |-> {},          \* snapshot records of the messages committed so far
    exists |-> StartAccts,  \* accounts existing now
    viol   |-> {} ]


V(o, c, name) == IF c THEN o ELSE [o EXCEPT !.viol = @ \cup {name}]

RECURSIVE SumN(_)
SumN(S) == IF S = {} THEN 0 ELSE LET r == CHOOSE x \in S : TRUE IN r.n + SumN(S \ {r})

\* An IMAP session has INBOX of account "a" selected (cfg.watch) and polls after every call; told is
\* the number of messages the server has announced to it (EXISTS).  It must never be told about a
\* message that is not committed to that mailbox.
InboxA(snap) == SumN({r \in snap : r.acct = "a" /\ r.mbox = "INBOX"})
ObsTold(o, told, snap) == V(o, "a" \notin o.exists \/ told <= InboxA(snap), "AnnouncedUncommitted")

Mine(o, snap) == {r \in snap : r.msg = o.cur}

\* at every step but Commit: nothing of the open message is visible, everything committed is intact
ObsSnap(o, snap) ==
  LET o1 == V(o, o.cur = "" \/ Mine(o, snap) = {}, "VisibleBeforeCommit")
  IN V(o1, snap \ Mine(o, snap) = o.kept, "CommittedMessageChanged")

ObsStart(o, msg, quar, snap) ==
  ObsSnap([o EXCEPT !.cur = msg, !.quar = quar, !.acc = {}, !.want = NoWant], snap)

ObsAddRcpt(o, c, ad, res, snap) ==
  LET r  == AcctOf(c, ad, o.exists)
      \* an account accepted earlier in this transaction and removed since: not constrained
      again == Resolve(c, ad) \in o.acc
      o1 == V(o,  r # "none" \/ again \/ res = "perm", "UnknownRcptNotRefusedPermanently")
      o2 == V(o1, r \notin AllAccts \/ res = "ok", "KnownRcptRefused")
      o3 == V(o2, r # "err" \/ res # "ok", "RcptAcceptedDespiteLookupFailure")
      o4 == V(o3, r # "err" \/ res # "perm", "LookupFailureReportedPermanent")
      o5 == IF res = "ok" /\ r \in AllAccts THEN [o4 EXCEPT !.acc = @ \cup {r}] ELSE o4
  IN ObsSnap(o5, snap)

ObsDelete(o, acct, snap) ==
  ObsSnap([o EXCEPT !.exists = @ \ {acct}, !.kept = {r \in @ : r.acct # acct}], snap)

ObsLogin(o, acct, res, snap) ==
  ObsSnap(IF res = "ok" THEN [o EXCEPT !.exists = @ \cup {acct}] ELSE o, snap)

\* calls: the set of [f, acct, ad] the filters were called with
\* fault: position of the recipient whose blob-store write was made to fail (0 = none)
ObsBody(o, c, outs, calls, fault, res, snap) ==
  LET o1 == V(o,  ~o.quar \/ calls = {}, "FilterRanOnQuarantined")
      o2 == V(o1, \A x \in calls : x.acct \in o.acc, "FilterCalledForStranger")
      \* a failing filter does not fail the delivery; a failing store does
      oa == V(o2, res = "ok" \/ fault > 0 \/ o.acc \ o.exists # {}, "BodyFailedWithoutCause")
      ob == V(oa, fault = 0 \/ res # "ok", "StoreFailureNotReported")
      o3 == [ob EXCEPT !.want = [x \in AllAccts |->
                 IF x \in o.acc THEN [boxes |-> AllowedBoxes(c, o.quar, outs, x),
                                      flags |-> WantFlags(o.quar, outs, x)]
                 ELSE [boxes |-> {}, flags |-> {}]]]
  IN ObsSnap(o3, snap)

\* Commit reported success: exactly one copy per accepted account, in an allowed mailbox, with the
\* required flags and the bytes handed in (plus Delivered-To of the account and Return-Path of the
\* sender); nothing for anybody else; nothing committed earlier disturbed
ObsCommit(o, res, snap) ==
  LET mine == Mine(o, snap)
      of(a) == {r \in mine : r.acct = a}
      live == o.acc \cap o.exists
      o1 == V(o,  \A a \in live : SumN(of(a)) >= 1, "MissingCopy")
      o2 == V(o1, \A a \in live : SumN(of(a)) <= 1, "ExtraCopy")
      o3 == V(o2, \A r \in mine : r.acct \in o.acc, "StrangerGotCopy")
      o4 == V(o3, \A r \in mine : r.acct \in o.acc => r.mbox \in o.want[r.acct].boxes, "WrongMailbox")
      o5 == V(o4, \A r \in mine : r.acct \in o.acc => o.want[r.acct].flags \subseteq r.flags, "MissingFlag")
      o6 == V(o5, \A r \in mine : r.hdr /\ r.body, "ContentChanged")
      o7 == V(o6, \A r \in mine : r.dt = r.acct, "WrongDeliveredTo")
      o8 == V(o7, \A r \in mine : r.rp, "WrongReturnPath")
      o9 == V(o8, snap \ mine = o.kept, "CommittedMessageChanged")
      oF == V(V(o, mine = {}, "VisibleAfterFailedCommit"), snap \ mine = o.kept, "CommittedMessageChanged")
  IN IF res = "ok"
     THEN [o9 EXCEPT !.cur = "", !.acc = {}, !.want = NoWant, !.kept = @ \cup mine]
     ELSE [oF EXCEPT !.cur = "", !.acc = {}, !.want = NoWant]

ObsAbort(o, snap) ==
  LET o1 == V(o, Mine(o, snap) = {}, "LeftoverAfterAbort")
      o2 == V(o1, snap \ Mine(o, snap) = o.kept, "CommittedMessageChanged")
  IN [o2 EXCEPT !.cur = "", !.acc = {}, !.want = NoWant]

\* orphans: blobs in the message store that no stored message refers to
ObsEnd(o, orphans) == V(o, orphans = 0, "OrphanBlob")
=============================================================================
