\* as-is: deviations on; every violation must be explained by a deviation taken (reference; the check generates its configs)
SPECIFICATION Spec
CONSTANTS
  Domains = {"d1"}
  Ids = {"i1", "i2"}
  Vers = {1, 2}
  Ages = {6, 20}
  Dts = {6, 12}
  MaxT = 36
  MaxSteps = 7
  GetFaults = {"ok", "temp", "perm", "multi", "bad", "http", "store"}
  RefFaults = {"ok", "temp", "http", "store"}
  Kinds = {"fs", "ram"}
  Lifes = {"prod", "test"}
  Damages = {"junk", "nullpol"}
  Devs = {"StoreFailCached", "NullPolicyCrash", "UpdaterNotStarted", "HalfWindow"}
  Gen = FALSE
VIEW View
INVARIANTS ViolationsExplained TypeOK
CHECK_DEADLOCK FALSE
