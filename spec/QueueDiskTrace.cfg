SPECIFICATION TSpec
CONSTANTS
  Rcpts = {"r1", "r2", "r3"}
  MaxTries = 2
  MaxList = 3
  MaxCrashes = 3
  Strengths = {"ordered", "strong"}
  Devs = {}
  Gen = FALSE
CHECK_DEADLOCK FALSE
POSTCONDITION Post
