\* X09 Dovecot protocol, side srv, exhaustive in the thorough bound
SPECIFICATION Spec
CONSTANTS
  Side = "srv"
  MaxReq = 2
  MaxRep = 2
  Full = TRUE
  Devs = {}
  Gen = FALSE
INVARIANTS RuleSatisfiesProp ScriptShape
CHECK_DEADLOCK FALSE
