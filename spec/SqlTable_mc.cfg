\* reference configuration; lib/checks/x15.py generates the ones it runs
SPECIFICATION Spec
CONSTANTS
  Strs = {"s1", "s2", "s3"}
  Cfgs = {"T", "TC", "QN", "QD", "QP"}
  Pals = {"plain"}
  MaxSteps = 6
  Ops = {"Set", "Remove", "Lookup", "LookupMulti", "Keys", "Reopen"}
  Devs = {}
  Gen = FALSE
VIEW View
INVARIANTS NoViolation TypeOK DesignIsTheMap
CHECK_DEADLOCK FALSE
