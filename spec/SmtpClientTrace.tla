-------------------------- MODULE SmtpClientTrace --------------------------
(***************************************************************************)
(* Trace validation for SmtpClient.tla.  trace.ndjson holds events recorded*)
(* from the real internal/smtpconn.C (over the real go-smtp client) driven *)
(* by harness/smtpconncheck against its scripted next hop; a "Cfg" event   *)
(* starts a new trace.                                                     *)
(*                                                                         *)
(* Events:  Call(c, a)       driver, before the method is called           *)
(*          Srv(k, ...)      next hop: k = "greet" | "cmd" | "content" |   *)
(*                           "dot", logged when the command is received    *)
(*          Ret(...)         driver, after the method returned (or did not)*)
(*          End(open)        driver, after the last call                   *)
(* Conforming steps take the action of SmtpClient.tla with the logged      *)
(* arguments; M_Step folds `obs` with the same SmtpClientObs operators     *)
(* when the design cannot explain a line.                                  *)
(***************************************************************************)
EXTENDS SmtpClient, SequencesExt

Trace == ndJsonDeserialize("trace.ndjson")

VARIABLES l, drift, driftAt, tno

tvars == <<vars, l, drift, driftAt, tno>>

Ev == Trace[l]
IsEv(e) == l <= Len(Trace) /\ Ev.e = e
IsSrv(k) == IsEv("Srv") /\ Ev.k = k

Publish(d, da, o, dv) ==
  TLCSet(1, TLCGet(1) \cup {[t |-> tno, drift |-> d, driftAt |-> da, viol |-> o.viol, devs |-> dv]})

TInit ==
  /\ InitWith([lmtp |-> FALSE, ext |-> "none", cert |-> "valid"])
  /\ l = 1 /\ drift = FALSE /\ driftAt = 0 /\ tno = 0
  /\ TLCSet(1, {})

TReset ==
  /\ IsEv("Cfg")
  /\ cfg' = [lmtp |-> Ev.lmtp, ext |-> Ev.extn, cert |-> Ev.cert]
  /\ cl' = ClInit /\ w' = WInit /\ tp' = TpInit
  /\ pc' = "idle" /\ cur' = NoCall /\ ip' = "" /\ out' = NoCmd /\ res' = NoRes /\ perr' = NoRes /\ dsts' = <<>>
  /\ nf' = 0 /\ lateUsed' = FALSE /\ devs' = {}
  /\ obs' = ObsInit(Ev.lmtp, ExtOf(Ev.extn)) /\ hist' = <<>>
  /\ l' = l + 1 /\ drift' = FALSE /\ driftAt' = 0 /\ tno' = Ev.t

C_Call    == IsEv("Call") /\ Call(Ev.c, Ev.a)
C_Greet   == IsSrv("greet") /\ SrvGreet(Ev.id, Ev.r)
C_Cmd     == IsSrv("cmd") /\ SrvCmd(Ev.verb, Ev.hn, ToSet(Ev.par), Ev.ak, Ev.an, Ev.id, Ev.r, Ev.tls)
C_Content == IsSrv("content") /\ SrvContent(Ev.full)
C_Dot     == IsSrv("dot") /\ Ev.id > w.nid /\ SrvDot(Ev.i, Ev.id, Ev.r)
(* the surplus reply announced by a slot of kind "extra" was folded with that slot *)
C_DotX    == IsSrv("dot") /\ Ev.id <= w.nid /\ Ev.r = "ok" /\ UNCHANGED vars
C_Ret     == IsEv("Ret") /\ Ev.c = cur.c /\ Ret(Ev)
C_End     == IsEv("End") /\ Ev.open = cl.copen /\ Finish

Conform == C_Call \/ C_Greet \/ C_Cmd \/ C_Content \/ C_Dot \/ C_DotX \/ C_Ret \/ C_End

C_Step ==
  /\ ~drift
  /\ Conform
  /\ l' = l + 1
  /\ IF Ev.e = "End" THEN Publish(FALSE, 0, obs', devs') ELSE TRUE
  /\ UNCHANGED <<drift, driftAt, tno>>

ObsApply(o, e) ==
  CASE e.e = "Call" -> ObsCall(o, e.c, e.a)
    [] e.e = "Srv" ->
         CASE e.k = "greet"   -> ObsGreet(o, e.id, e.r)
           [] e.k = "cmd"     -> ObsCmd(o, [verb |-> e.verb, hn |-> e.hn, par |-> ToSet(e.par), ak |-> e.ak, an |-> e.an,
                                            id |-> e.id, r |-> e.r, tls |-> e.tls])
           [] e.k = "content" -> ObsContent(o, e.full)
           [] e.k = "dot"     -> IF \E i \in 1..Len(o.slots) : o.slots[i].id = e.id THEN o ELSE ObsDot(o, e.i, e.id, e.r)
           [] OTHER -> o
    [] e.e = "Ret" -> [ObsRet(o, e) EXCEPT !.ph = IF e.open THEN @ ELSE "none"]
    [] e.e = "End" -> ObsEnd(o, e.open)
    [] OTHER -> o

M_Step ==
  /\ l <= Len(Trace) /\ Ev.e # "Cfg"
  /\ (drift \/ ~ENABLED Conform)
  /\ drift' = TRUE
  /\ driftAt' = IF drift THEN driftAt ELSE Ev.seq
  /\ obs' = ObsApply(obs, Ev)
  /\ l' = l + 1
  /\ UNCHANGED <<cfg, cl, w, tp, pc, cur, ip, out, res, perr, dsts, nf, lateUsed, devs, hist, tno>>
  /\ IF Ev.e = "End" THEN Publish(TRUE, driftAt', obs', devs) ELSE TRUE

TNext == TReset \/ C_Step \/ M_Step
TSpec == TInit /\ [][TNext]_tvars

Post == PrintT(<<"VERDICTS", ToJson(TLCGet(1))>>)
=============================================================================
