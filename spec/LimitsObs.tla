----------------------------- MODULE LimitsObs -----------------------------
(***************************************************************************)
(* Observation state and property predicates of property C11              *)
(* (internal/limits: rate/concurrency limits are enforced and every       *)
(* permit is returned; limit operations never crash).                     *)
(*                                                                         *)
(* Everything here is a pure function of what is visible at the API of    *)
(* limits.Group:                                                           *)
(*   Call  - a caller (one message delivery m) enters TakeMsg / TakeDest /*)
(*           ReleaseMsg / ReleaseDest with its key arguments,             *)
(*   Ret   - the call returned: ok | timeout | full, or it panicked        *)
(*           (nilptr | mismatch | other),                                  *)
(*   Snap  - every goroutine has returned or is durably blocked; the      *)
(*           number of permits in use per scope key is read (length of    *)
(*           the semaphore channel, anchors Semaphore.c / BucketSet.m).   *)
(* The same operators fold `obs` in the design spec (Limits.tla, checked  *)
(* exhaustively by TLC) and in the trace spec (LimitsTrace.tla, fed with  *)
(* events recorded from the real limits.Group).                           *)
(*                                                                         *)
(* A message "holds a permit in scope s under key k" from the moment its  *)
(* TakeMsg/TakeDest returned ok until it enters the matching Release.     *)
(* Predicates (names collected in obs.viol):                               *)
(*   LimitExceeded          more than N holders in a scope key            *)
(*   Crash                  a limit operation panicked                    *)
(*   MismatchedRelease      ... with "mismatched Release call"            *)
(*   PermitNotReturned      permits in use > holders (+ callers that are  *)
(*                          still inside TakeMsg and may hold a prefix)   *)
(*   PermitOverReturned     permits in use < holders                      *)
(*   BlockedWithFreePermits the only caller inside a Take is blocked      *)
(*                          although no scope it needs has N holders      *)
(*                          (= the full N cannot be acquired)             *)
(*   NotZeroAtQuiescence    permits in use although no delivery is open   *)
(***************************************************************************)
EXTENDS Naturals, Sequences, FiniteSets

Scopes  == {"all", "ip", "source", "dest"}
BScopes == {"ip", "source", "dest"}          \* scopes kept in a BucketSet
AllKey  == "*"

NoCall == [op |-> "", ip |-> "", src |-> "", d |-> ""]
NoMsg  == [st |-> "none", ip |-> "", src |-> "", dst |-> {}, opt |-> {}]

\* c: [all, ip, source, dest : Nat] (0 = scope not configured), M: callers, K: key universe
ObsInit(c, M, K) ==
  [ n       |-> c,
    hold    |-> [s \in Scopes |-> [k \in K \cup {AllKey} |-> 0]],
    cm      |-> [m \in M |-> NoMsg],        \* what the caller holds, per returned calls
    pend    |-> [m \in M |-> NoCall],       \* call entered, not yet returned
    crashed |-> {},
    yield   |-> {},                         \* callers parked by the harness at a yield point
    viol    |-> {} ]

V(o, c, name) == IF c THEN o ELSE [o EXCEPT !.viol = @ \cup {name}]

N(o, s) == o.n[s]
Bump(o, s, k, d) == [o EXCEPT !.hold[s][k] = IF d = 1 THEN @ + 1 ELSE IF @ > 0 THEN @ - 1 ELSE 0]

\* ---- Call ---------------------------------------------------------------
\* Entering a Release ends the hold (the permit may be handed to a waiter
\* before the releasing call is seen to return).
ObsCall(o, m, op, ip, src, d) ==
  LET o1 == [o EXCEPT !.pend[m] = [op |-> op, ip |-> ip, src |-> src, d |-> d]] IN
  CASE op = "RelMsg" ->
         LET c == o.cm[m]
             o2 == IF c.st = "held"
                   THEN Bump(Bump(Bump(o1, "all", AllKey, 0), "ip", c.ip, 0), "source", c.src, 0)
                   ELSE o1
         IN [o2 EXCEPT !.cm[m].st = "none"]
    [] op = "RelDest" ->
         IF d \in o.cm[m].dst
         THEN [Bump(o1, "dest", d, 0) EXCEPT !.cm[m].dst = @ \ {d}]
         ELSE o1
    [] op = "End" ->      \* the delivery ends: everything it holds is given up
         LET c == o.cm[m]
             o2 == IF c.st = "held"
                   THEN Bump(Bump(Bump(o1, "all", AllKey, 0), "ip", c.ip, 0), "source", c.src, 0)
                   ELSE o1
             o3 == [o2 EXCEPT !.hold["dest"] = [k \in DOMAIN @ |-> IF k \in c.dst /\ @[k] > 0 THEN @[k] - 1 ELSE @[k]]]
         IN [o3 EXCEPT !.cm[m] = NoMsg]
    [] OTHER -> o1

\* The next hop refused MAIL for domain d after the message had taken the destination
\* permit: the transaction with that domain is over.  The message no longer counts as a
\* holder; whether it gives the permit back now or when its delivery ends is left open.
ObsMailReject(o, m, d) ==
  IF d \in o.cm[m].dst
  THEN [Bump(o, "dest", d, 0) EXCEPT !.cm[m].dst = @ \ {d}, !.cm[m].opt = @ \cup {d}]
  ELSE o

\* The next hop refused RCPT TO for the first recipient of domain d after the message had
\* taken the destination permit and MAIL had been accepted: no recipient of d is being
\* delivered over that connection.  Weak reading (DESIGN 2.5): the message no longer counts
\* as a holder, and whether it gives the permit back now (dropping the connection) or when
\* its delivery ends (what the code does) is left open - but it must be back by then.
ObsRcptReject(o, m, d) == ObsMailReject(o, m, d)

\* ---- Ret ----------------------------------------------------------------
IsPanic(res) == res \in {"nilptr", "mismatch", "other"}

ObsRet(o, m, res) ==
  LET p  == o.pend[m]
      o1 == [o EXCEPT !.pend[m] = NoCall]
  IN
  IF IsPanic(res)
  THEN LET o2 == [o1 EXCEPT !.crashed = @ \cup {m}, !.viol = @ \cup {"Crash"}]
       IN V(o2, res # "mismatch", "MismatchedRelease")
  ELSE
  CASE p.op = "TakeMsg" /\ res = "ok" ->
         LET o2 == Bump(Bump(Bump(o1, "all", AllKey, 1), "ip", p.ip, 1), "source", p.src, 1)
             o3 == [o2 EXCEPT !.cm[m] = [st |-> "held", ip |-> p.ip, src |-> p.src, dst |-> @.dst, opt |-> @.opt]]
             okS(s, k) == N(o, s) = 0 \/ o3.hold[s][k] <= N(o, s)
         IN V(o3, okS("all", AllKey) /\ okS("ip", p.ip) /\ okS("source", p.src), "LimitExceeded")
    \* the attempt on domain d was refused for a reason other than the limit (REQUIRETLS not
    \* satisfiable): the message is not a holder; should the code have taken the permit all the
    \* same, it may keep it until its delivery ends (tolerated like after a MAIL refusal)
    [] p.op = "TakeDest" /\ res = "refused" ->
         [o1 EXCEPT !.cm[m].opt = @ \cup {p.d}]
    [] p.op = "TakeDest" /\ res = "ok" ->
         LET o2 == [Bump(o1, "dest", p.d, 1) EXCEPT !.cm[m].dst = @ \cup {p.d}]
         IN V(o2, N(o, "dest") = 0 \/ o2.hold["dest"][p.d] <= N(o, "dest"), "LimitExceeded")
    [] OTHER -> o1

\* ---- Snap ---------------------------------------------------------------
\* use: [scope -> [key -> permits in use]] for the semaphores that exist;
\* nosem: set of <<scope, key>> whose limiter has no semaphore at all.
Use(use, s, k) == IF k \in DOMAIN use[s] THEN use[s][k] ELSE 0

\* A caller the harness itself holds at a yield point (see harness/limitscheck:
\* installYield) is not "blocked": it is left out of BlockedWithFreePermits.
ObsYield(o, m)  == [o EXCEPT !.yield = @ \cup {m}]
ObsResume(o, m) == [o EXCEPT !.yield = @ \ {m}]
PendTake(o) == {m \in DOMAIN o.pend : o.pend[m].op \in {"TakeMsg", "TakeDest"}} \ o.yield
\* callers inside TakeMsg may already hold `all`, and `ip` under their key
Slack(o, s, k) ==
  Cardinality({m \in DOMAIN o.pend : o.pend[m].op = "TakeMsg" /\
                 (s = "all" \/ (s = "ip" /\ o.pend[m].ip = k))})
  + (IF s = "dest" THEN Cardinality({m \in DOMAIN o.cm : k \in o.cm[m].opt}) ELSE 0)
  \* a caller held up at a yield point right after its bucket granted the permit (Park) has it
  + Cardinality({m \in o.yield : (s = "source" /\ o.pend[m].op = "TakeMsg" /\ o.pend[m].src = k)
                                  \/ (s = "dest" /\ o.pend[m].op = "TakeDest" /\ o.pend[m].d = k)})

\* (a message that may still keep the destination permit of a refused attempt, cm.opt, counts:
\* the blocked caller may be waiting for exactly that permit)
LegitBlock(o, m) ==
  LET p == o.pend[m]
      optd(s, k) == IF s = "dest" THEN Cardinality({x \in DOMAIN o.cm : k \in o.cm[x].opt}) ELSE 0
      \* a caller held up at a yield point inside its Take (Park) may have the permit already
      yh(s, k) == Cardinality({x \in o.yield :
                     (o.pend[x].op = "TakeMsg" /\ (s = "all" \/ (s = "ip" /\ o.pend[x].ip = k)
                                                  \/ (s = "source" /\ o.pend[x].src = k)))
                     \/ (o.pend[x].op = "TakeDest" /\ s = "dest" /\ o.pend[x].d = k)})
      full(s, k) == N(o, s) > 0 /\ o.hold[s][k] + optd(s, k) + yh(s, k) >= N(o, s)
  IN IF p.op = "TakeMsg"
     THEN full("all", AllKey) \/ full("ip", p.ip) \/ full("source", p.src)
     ELSE full("dest", p.d)

ObsSnap(o, use, nosem) ==
  LET K  == DOMAIN o.hold["all"]
      chk(s, k) == N(o, s) > 0 /\ <<s, k>> \notin nosem
      over  == \E s \in Scopes, k \in K : chk(s, k) /\ Use(use, s, k) > o.hold[s][k] + Slack(o, s, k)
      under == \E s \in Scopes, k \in K : chk(s, k) /\ Use(use, s, k) < o.hold[s][k]
      pt == PendTake(o)
      o1 == V(o, ~over, "PermitNotReturned")
      o2 == V(o1, ~under, "PermitOverReturned")
  IN V(o2, Cardinality(pt) # 1 \/ (\A m \in pt : LegitBlock(o, m)), "BlockedWithFreePermits")

\* the other (looser) semaphores of a scope that has several limiters: usex holds the
\* largest number of permits in use among them; a caller that waits further down the
\* chain legitimately holds one
SlackX(o, s, k) ==
  Cardinality({m \in DOMAIN o.pend :
     \/ o.pend[m].op = "TakeMsg" /\ (s = "all" \/ (s = "ip" /\ o.pend[m].ip = k) \/ (s = "source" /\ o.pend[m].src = k))
     \/ o.pend[m].op = "TakeDest" /\ s = "dest" /\ o.pend[m].d = k})
  + (IF s = "dest" THEN Cardinality({m \in DOMAIN o.cm : k \in o.cm[m].opt}) ELSE 0)
ObsSnapX(o, usex, nosem) ==
  LET K  == DOMAIN o.hold["all"]
      chk(s, k) == N(o, s) > 0 /\ <<s, k>> \notin nosem /\ k \in DOMAIN usex[s]
      over  == \E s \in Scopes, k \in K : chk(s, k) /\ usex[s][k] > o.hold[s][k] + SlackX(o, s, k)
      under == \E s \in Scopes, k \in K : chk(s, k) /\ usex[s][k] < o.hold[s][k]
  IN V(V(o, ~over, "PermitNotReturned"), ~under, "PermitOverReturned")

\* no delivery is open any more
ObsQuiesced(o, use, nosem) ==
  LET K == DOMAIN o.hold["all"]
      idle == \A m \in DOMAIN o.cm : (o.cm[m].st = "none" /\ o.cm[m].dst = {} /\ o.cm[m].opt = {}
                                       /\ o.pend[m].op = "")
                                     \/ m \in o.crashed
      zero == \A s \in Scopes, k \in K :
                (N(o, s) > 0 /\ <<s, k>> \notin nosem) => Use(use, s, k) = 0
      o1 == ObsSnap(o, use, nosem)
  IN IF idle /\ o.crashed = {} THEN V(o1, zero, "NotZeroAtQuiescence") ELSE o1
=============================================================================
