-------------------------- MODULE TableLookupTrace --------------------------
(***************************************************************************)
(* Code -> model for the lookup tables of X01.  trace.ndjson holds one     *)
(* "Row" event per input row the harness ran through the real table        *)
(* modules: [t, seq, e |-> "Row", in |-> <input of TableLookup.tla>,       *)
(* out |-> [init, hasMulti, multi, val, ok]].  For every row TLC evaluates *)
(* the property predicates on the recorded answer (viol), compares it with *)
(* the documented rule (drift) and lists the sets of open deviations whose *)
(* as-is rule reproduces the answer exactly (devs).  Only rows that are    *)
(* not plainly accepted are listed; n / accepted are the counts.           *)
(***************************************************************************)
EXTENDS TableLookup

CONSTANT OpenDevs

Rows == ndJsonDeserialize("trace.ndjson")

OutOf(r) == [init |-> r.out.init, hasMulti |-> r.out.hasMulti, multi |-> r.out.multi, val |-> r.out.val, ok |-> r.out.ok]
DevSets == (SUBSET OpenDevs) \ {{}}
Explains(i, o) == {ds \in DevSets : Same(o, RuleWith(i, ds))}
Bad(r) == Viol(r.in, OutOf(r)) # {} \/ ~Same(OutOf(r), Rule(r.in))
Verdict(r) == [t |-> r.t, drift |-> ~Same(OutOf(r), Rule(r.in)), driftAt |-> r.seq,
               viol |-> Viol(r.in, OutOf(r)), devs |-> Explains(r.in, OutOf(r))]

Eval ==
  LET bad == {k \in 1..Len(Rows) : Bad(Rows[k])} IN
    [n |-> Len(Rows), accepted |-> Len(Rows) - Cardinality(bad),
     verdicts |-> {Verdict(Rows[k]) : k \in bad}]

TInit == in = <<>> /\ TLCSet(1, Eval)
TNext == UNCHANGED in
TSpec == TInit /\ [][TNext]_in

Post == PrintT(<<"VERDICTS", ToJson(TLCGet(1))>>)
=============================================================================
