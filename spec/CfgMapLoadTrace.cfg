SPECIFICATION TSpec
CONSTANTS
  Devs = {}
  Gen = FALSE
  OpenDevs = {"SubmissionTimeoutDefault", "TableInstanceName"}
CHECK_DEADLOCK FALSE
POSTCONDITION Post
