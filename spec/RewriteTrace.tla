---------------------------- MODULE RewriteTrace ----------------------------
(***************************************************************************)
(* Code -> model for Rewrite.tla.  trace.ndjson holds one "Row" event per  *)
(* input row the harness ran through the real modifiers / the real         *)
(* msgpipeline: [t, seq, e |-> "Row", in |-> <row of Rewrite.tla>, out].   *)
(* For every row TLC evaluates the property predicates on the recorded     *)
(* answer (viol), compares it with the documented rule (drift) and lists   *)
(* the sets of open deviations whose as-is rule reproduces the answer      *)
(* (devs).  Only rows that are not plainly accepted are listed.            *)
(***************************************************************************)
EXTENDS Rewrite

CONSTANT OpenDevs

TRows == ndJsonDeserialize("trace.ndjson")

Ad(x) == S(x.l, x.d)
OutOf(r) ==
  CASE r.in.fam = "mod" -> [res |-> r.out.res, out |-> [k \in 1..Len(r.out.out) |-> Ad(r.out.out[k])]]
    [] r.in.fam = "pipe" ->
         [load |-> r.out.load,
          mail |-> [res |-> r.out.mail.res, tmp |-> r.out.mail.tmp],
          from |-> Ad(r.out.from),
          fin |-> r.out.fin,
          rc |-> [k \in 1..Len(r.out.rc) |->
                    [res |-> r.out.rc[k].res, tmp |-> r.out.rc[k].tmp,
                     dl |-> [j \in 1..Len(r.out.rc[k].dl) |-> [t |-> r.out.rc[k].dl[j].t, a |-> Ad(r.out.rc[k].dl[j].a)]]]]]
    [] r.in.fam = "doc" -> [res |-> r.out.res]

\* the answer is what the rule (with the deviations ds) says, up to the spelling of domains
SameDl(x, y) == Len(x) = Len(y) /\ \A k \in 1..Len(x) : x[k].t = y[k].t /\ SameAddr(x[k].a, y[k].a)
Conf(i, o, ds) ==
  CASE i.fam = "mod" ->
         LET p == RuleWith(i, ds) IN o.res \in {"ok", "err"} /\ SameOut(o, [res |-> p.res, out |-> p.out])
    [] i.fam = "pipe" ->
         LET p == PipeRule(i, ds)
             perm == "FailurePermanent" \in ds
         IN /\ o.load = "ok"
            /\ o.mail.res = p.mail
            /\ (p.mail = "err" /\ p.why = "tablefail" => o.mail.tmp = ~perm)
            /\ p.mail = "ok" =>
                 /\ Len(o.rc) = Len(p.rc)
                 /\ ((\E k \in 1..Len(o.rc) : o.rc[k].res = "ok") => SameAddr(o.from, p.from))
                 /\ \A k \in 1..Len(p.rc) :
                      /\ o.rc[k].res = p.rc[k].res
                      /\ (p.rc[k].res = "ok" => SameDl(o.rc[k].dl, p.rc[k].dl))
                      /\ (p.rc[k].res = "err" /\ p.rc[k].why = "tablefail" => o.rc[k].tmp = ~perm)
    [] i.fam = "doc" -> o.res = DocRule(i, ds).res

DevSets == (SUBSET OpenDevs) \ {{}}
Explains(i, o) == {ds \in DevSets : Conf(i, o, ds)}
Bad(r) == Viol(r.in, OutOf(r)) # {} \/ ~Conf(r.in, OutOf(r), {})
Verdict(r) == [t |-> r.t, drift |-> ~Conf(r.in, OutOf(r), {}), driftAt |-> r.seq,
               viol |-> Viol(r.in, OutOf(r)), devs |-> Explains(r.in, OutOf(r))]

Eval ==
  LET bad == {k \in 1..Len(TRows) : Bad(TRows[k])} IN
    [n |-> Len(TRows), accepted |-> Len(TRows) - Cardinality(bad),
     verdicts |-> {Verdict(TRows[k]) : k \in bad}]

TInit == in = <<>> /\ TLCSet(1, Eval)
TNext == UNCHANGED in
TSpec == TInit /\ [][TNext]_in

Post == PrintT(<<"VERDICTS", ToJson(TLCGet(1))>>)
=============================================================================
