\* reference configuration: trace validation (trace.ndjson next to the module); Devs = deviations of the OPEN findings
SPECIFICATION TSpec
CONSTANTS
  Domains = {"d1", "d2"}
  FactSet <- FactsAny
  Outs <- AllOuts
  MailRs = {"ok", "m4", "m5", "mdrop"}
  RcptRs = {"ok", "r4", "r5"}
  DotRs = {"ok", "d4", "d5"}
  Lps <- Lps3
  WithNoDom = TRUE
  MaxDeliv = 9
  Devs = {"UnspecAsPerm", "ResolverDownAsPerm", "IdnRawQuestion"}
  Gen = FALSE
CHECK_DEADLOCK FALSE
POSTCONDITION Post
