--------------------------- MODULE QueueDiskTrace ---------------------------
(***************************************************************************)
(* Trace validation for QueueDisk.tla (C02).  One trace = all incarnations *)
(* of one queue over one spool: Cfg, QBody, Fs*, QBodyRet, QCommit|QAbort, *)
(* T*, Dsn, Fs*, Crash, Restart, ..., Final; a refused message is QBody,   *)
(* Fs*, FsErr, Fs* (clean-up), QBodyRet(err), QAbort, QAbortRet.  Same     *)
(* scheme as QueueTrace:                                                   *)
(* C_Step = conforming design step with the logged arguments; M_Step =     *)
(* monitor-only fold (drift); verdict published at "Final".                *)
(***************************************************************************)
EXTENDS QueueDisk

Trace == ndJsonDeserialize("trace.ndjson")

VARIABLES l, drift, driftAt, tno
tvars == <<vars, l, drift, driftAt, tno>>

Ev == Trace[l]
IsEv(e) == l <= Len(Trace) /\ Ev.e = e
Keep == l' = l + 1 /\ UNCHANGED <<drift, driftAt, tno>>

Publish(d, da, o) ==
  TLCSet(1, TLCGet(1) \cup {[t |-> tno, drift |-> d, driftAt |-> da, viol |-> o.viol]})

TInit ==
  /\ InitWith([partial |-> FALSE, list |-> <<>>, body |-> "data"])
  /\ l = 1 /\ drift = FALSE /\ driftAt = 0 /\ tno = 0
  /\ TLCSet(1, {})

TReset ==
  /\ IsEv("Cfg")
  /\ cfg' = [partial |-> Ev.partial, list |-> Ev.list, body |-> Ev.body]
  /\ disk' = EmptyDisk
  /\ up' = TRUE /\ pc' = "new" /\ chain' = <<>> /\ ci' = 0 /\ wdone' = FALSE /\ after' = ""
  /\ wcontent' = NoContent /\ mem' = FALSE
  /\ to' = Dedup(Ev.list) /\ tries' = ZeroTries
  /\ idx' = 0 /\ accepted' = <<>> /\ errs' = NoErrs /\ failed' = <<>> /\ newTo' = <<>>
  /\ crashes' = 0
  /\ obs' = DObsRcpts(DObsInit(Rcpts), ToSet(Ev.list))
  /\ hist' = <<>>
  /\ l' = l + 1 /\ drift' = FALSE /\ driftAt' = 0 /\ tno' = Ev.t

FsName(e) == e.op \o ":" \o e.file

C_QBody     == IsEv("QBody") /\ QBody
C_Fs        == IsEv("Fs") /\ (Fs(FsName(Ev)) \/ CleanupFs(FsName(Ev)) \/ (FsName(Ev) = "remove:meta" /\ DanglingFs))
\* a call inside storeNewMessage returned an error (injected I/O error, faulty source buffer)
C_FsErr     == IsEv("FsErr") /\ FsName(Ev) \in FailOps /\ StoreFail(FsName(Ev))
C_QBodyRet  == IsEv("QBodyRet") /\ IF Ev.err THEN QBodyErr ELSE QBodyRet
C_QCommit   == IsEv("QCommit") /\ QCommit
C_QAbort    == IsEv("QAbort") /\ (QAbort \/ QAbortNoBody)
C_QAbortRet == IsEv("QAbortRet") /\ QAbortRet
C_TStart    == IsEv("TStart") /\ TStart(Ev.res)
C_TAddRcpt  == IsEv("TAddRcpt") /\ pc = "rcpt" /\ idx <= Len(to) /\ to[idx] = Ev.r /\ TAddRcpt(Ev.res)
\* the design hands a damaged message only under a deviation (MayBeDamaged)
Intact      == Ev.intact \/ MayBeDamaged
C_TBody     == IsEv("TBody") /\ Intact /\ TBody(Ev.res)
C_TBodyNA   == IsEv("TBodyNA") /\ Intact /\ DOMAIN Ev.st = ToSet(accepted) /\ TBodyNA(Ev.st)
C_TCommit   == IsEv("TCommit") /\ TCommit(Ev.res)
C_TAbort    == IsEv("TAbort") /\ (TAbortNoRcpt \/ TAbortAllFailed)
C_Dsn       == IsEv("Dsn") /\ Ev.res = "ok" /\ ToSet(Ev.rcpts) = ToSet(failed) /\ Dsn
C_Crash     == IsEv("Crash") /\ Ev.strength \in Strengths /\ Crash(Ev.strength, Ev.torn)
C_Restart   == IsEv("Restart") /\ Restart
C_Final     == IsEv("Final") /\ Final

Conform ==
  \/ C_QBody \/ C_Fs \/ C_FsErr \/ C_QBodyRet \/ C_QCommit \/ C_QAbort \/ C_QAbortRet
  \/ C_TStart \/ C_TAddRcpt \/ C_TBody \/ C_TBodyNA \/ C_TCommit \/ C_TAbort \/ C_Dsn
  \/ C_Crash \/ C_Restart \/ C_Final

C_Step ==
  /\ ~drift
  /\ Conform
  /\ Keep
  /\ IF Ev.e = "Final" THEN Publish(FALSE, 0, obs') ELSE TRUE

ObsApply(o, e) ==
  CASE e.e = "QCommit"   -> DObsCommitRet(o)
    [] e.e = "QAbortRet" -> DObsAbortRet(o)
    [] e.e = "TStart"    -> DObsStart(o, e.res)
    [] e.e = "TAddRcpt"  -> DObsAddRcpt(o, e.r, e.res)
    [] e.e = "TBody"     -> DObsIntact(DObsBody(o, e.res), e.intact)
    [] e.e = "TBodyNA"   -> DObsIntact(DObsBodyNA(o, e.st), e.intact)
    [] e.e = "TCommit"   -> DObsCommit(o, e.res)
    [] e.e = "TAbort"    -> DObsAbort(o)
    [] e.e = "Dsn"       -> IF e.res = "ok" THEN DObsDsn(o, ToSet(e.rcpts)) ELSE o
    [] e.e = "Crash"     -> DObsCrash(o)
    [] e.e = "Final"     -> DObsFinal(o)
    [] OTHER -> o

M_Step ==
  /\ l <= Len(Trace) /\ Ev.e # "Cfg"
  /\ (drift \/ ~ENABLED Conform)
  /\ drift' = TRUE
  /\ driftAt' = IF drift THEN driftAt ELSE Ev.seq
  /\ obs' = ObsApply(obs, Ev)
  /\ l' = l + 1
  /\ UNCHANGED <<cfg, disk, up, pc, chain, ci, wdone, after, wcontent, mem, to, tries, idx,
                 accepted, errs, failed, newTo, crashes, hist, tno>>
  /\ IF Ev.e = "Final" THEN Publish(TRUE, driftAt', obs') ELSE TRUE

TNext == TReset \/ C_Step \/ M_Step
TSpec == TInit /\ [][TNext]_tvars
Post == PrintT(<<"VERDICTS", ToJson(TLCGet(1))>>)
=============================================================================
