\* stand-alone exhaustive run; lib/checks/c09.py generates the configurations it uses
SPECIFICATION Spec
CONSTANTS
  Kinds = {"remote", "lmtp"}
  RcptSet = {"a1", "a2", "cv", "nl", "idn", "idn_ace"}
  MaxList = 2
  MaxTxns = 4
  DataSet = {"ok", "temp", "perm"}
  DropSet = {0, 1}
  SrcSet = {"ok", "noopen", "readfail", "reset"}
  LateSet = {1, 2}
  QuarSet = {1, 2}
  Devs = {}
  Gen = FALSE
VIEW View
INVARIANTS NoViolation TypeOK
