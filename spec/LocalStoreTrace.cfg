SPECIFICATION TSpec
CONSTANTS
  Addrs = {"a"}
  MaxList = 1
  MaxMsgs = 3
  Norms = {"noop"}
  DMaps = {FALSE}
  NFilts = {0}
  Out1 = {"e", "n", "nF", "w", "wF", "x"}
  Out2 = {"e", "n", "r", "x"}
  JBoxes = {"none"}
  JunkNames = {"Junk"}
  QuarSet = {FALSE}
  WatchSet = {FALSE, TRUE}
  EnvActs = {"Delete", "Login"}
  DelAccts = {"a", "b"}
  Faults = TRUE
  Devs = {"CaseKey", "MapErrPerm", "BlobLeak", "EarlyNotify"}
  Gen = FALSE
CHECK_DEADLOCK FALSE
POSTCONDITION Post
