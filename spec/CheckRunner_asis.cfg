SPECIFICATION Spec
CONSTANTS
  NChecks = 1
  MaxRcpts = 2
  MaxNonNone = 1
  MaxScopes = 2
  Dmarcs = {"off"}
  Vias = {"p"}
  EarlyOn = FALSE
  DupOn = TRUE
  ExtraV = {"rq"}
  Only1On = TRUE
  WithRemote = TRUE
  Froms = {"addr"}
  Kinds = {"pipe"}
  ModOn = FALSE
  Lazy = TRUE
  Devs = {"NABody", "BodyPerScope", "ReplayRejectLeaks"}
  Gen = FALSE
  MaxDelay = 2
VIEW View
INVARIANTS NoViolation
