----------------------------- MODULE TableChain -----------------------------
(***************************************************************************)
(* The algebra of table.chain over multi-valued steps (extension X15,      *)
(* pattern B).  Sources: docs/reference/table/chain.md:3-5 ("chaining      *)
(* together multiple table modules by using value returned by a previous   *)
(* table as an input for the second table"), :19-22 (step: "If input value *)
(* is not in the table - return 'not exists' error"), :26-29               *)
(* (optional_step: "if input value is not in the table - it is passed to   *)
(* the next step without changes"); 1:N steps: email_with_domain.md:3-4,   *)
(* :13-23 and internal/table/chain.go:LookupMulti (from the code: every    *)
(* step is applied to every value the previous step produced, results are  *)
(* concatenated in order, a lookup error fails the chain).                 *)
(* X01 (TableLookup.tla) decides chains whose steps are single-valued;     *)
(* this module decides what the combinator does with several values,       *)
(* misses and errors.                                                      *)
(*                                                                         *)
(* One state per row [steps, key]; a step is [opt, t], a table t is        *)
(* [impl, e, fail]: entries e = <<[k, vs]..>> over value tokens, lookups   *)
(* of the keys in `fail` fail.  impl: "static" (inline table.static),      *)
(* "multi" / "single" (a scripted instance with / without LookupMulti: the *)
(* chain talks to the two kinds of tables through different calls),        *)
(* "identity".  An answer is [res, vs], res = "ok" | "notfound" | "err"    *)
(* (| "panic" | "loaderr" from the harness).                               *)
(*                                                                         *)
(* Deviation of HEAD: "OptMissAbandonsStep" - when an optional step        *)
(* misses for one value, the whole step is abandoned: all values of the    *)
(* previous step are passed on unchanged, the replacements found for the   *)
(* other values are dropped and the remaining values are not looked up.    *)
(***************************************************************************)
EXTENDS Integers, Sequences, FiniteSets, TLC, Json

CONSTANTS MaxSteps, Devs, Gen
VARIABLE in

Max(X) == CHOOSE x \in X : \A y \in X : y <= x
RECURSIVE Cat(_)
Cat(ss) == IF ss = <<>> THEN <<>> ELSE Head(ss) \o Cat(Tail(ss))
SeqsUpTo(X, n) == UNION {[1..k -> X] : k \in 0..n}

Tb(impl, e, fail) == [impl |-> impl, e |-> e, fail |-> fail]
En(k, vs) == [k |-> k, vs |-> vs]

Look(t, key) ==     \* -> [res |-> "ok" | "fail", vs]
  IF t.impl = "identity" THEN [res |-> "ok", vs |-> <<key>>]
  ELSE IF \E i \in 1..Len(t.fail) : t.fail[i] = key THEN [res |-> "fail", vs |-> <<>>]
  ELSE LET hits == {i \in 1..Len(t.e) : t.e[i].k = key}
       IN [res |-> "ok", vs |-> IF hits = {} THEN <<>> ELSE t.e[Max(hits)].vs]

A(res, vs) == [res |-> res, vs |-> vs]

(***************************************************************************)
(* The documented result, computed level by level like the code does       *)
(* (operational).  devs = {"OptMissAbandonsStep"}: HEAD.                   *)
(***************************************************************************)
RECURSIVE Level(_, _, _, _, _)
\* one step over the values vals[n..]; acc = the new values so far; prev = all values of the previous step
Level(st, vals, acc, prev, devs) ==
  IF vals = <<>> THEN A("ok", acc)
  ELSE LET r == Look(st.t, Head(vals)) IN
       IF r.res = "fail" THEN A("err", <<>>)
       ELSE IF r.vs = <<>> THEN
            (IF ~st.opt THEN A("notfound", <<>>)
             ELSE IF "OptMissAbandonsStep" \in devs THEN A("ok", prev)
             ELSE Level(st, Tail(vals), Append(acc, Head(vals)), prev, devs))
       ELSE Level(st, Tail(vals), acc \o r.vs, prev, devs)

RECURSIVE Run(_, _, _)
Run(steps, vals, devs) ==
  IF steps = <<>> THEN A("ok", vals)
  ELSE LET r == Level(Head(steps), vals, <<>>, vals, devs)
       IN IF r.res # "ok" THEN r ELSE Run(Tail(steps), r.vs, devs)

RuleWith(i, devs) == Run(i.steps, <<i.key>>, devs)
Rule(i) == RuleWith(i, {})

(***************************************************************************)
(* The property (declarative): the chain denotes the tree in which every   *)
(* step is applied to every value.  Den(steps, v) = [vs, miss, err]: the   *)
(* leaves in order, whether a required step misses / a lookup fails        *)
(* anywhere in the tree.  No miss and no failure: the answer is the        *)
(* leaves.  A miss: "not found".  A failure: an error.  Both: either (the  *)
(* documentation does not say which lookups are made after the first       *)
(* problem).                                                               *)
(***************************************************************************)
RECURSIVE Den(_, _)
Den(steps, v) ==
  IF steps = <<>> THEN [vs |-> <<v>>, miss |-> FALSE, err |-> FALSE]
  ELSE LET st == Head(steps)
           r == Look(st.t, v)
       IN IF r.res = "fail" THEN [vs |-> <<>>, miss |-> FALSE, err |-> TRUE]
          ELSE IF r.vs = <<>> THEN (IF st.opt THEN Den(Tail(steps), v) ELSE [vs |-> <<>>, miss |-> TRUE, err |-> FALSE])
          ELSE LET subs == [k \in 1..Len(r.vs) |-> Den(Tail(steps), r.vs[k])]
               IN [vs |-> Cat([k \in 1..Len(subs) |-> subs[k].vs]),
                   miss |-> \E k \in 1..Len(subs) : subs[k].miss,
                   err |-> \E k \in 1..Len(subs) : subs[k].err]

\* o = [res, vs, val, ok]: LookupMulti's answer and Lookup's (val, ok)
Viol(i, o) ==
  IF o.res = "panic" THEN {"Crashed"}
  ELSE IF o.res = "loaderr" THEN {"ConfigRefused"}
  ELSE
    LET d == Den(i.steps, i.key) IN
    {p \in {"ChainResultWrong"} : ~d.miss /\ ~d.err /\ ~(o.res = "ok" /\ o.vs = d.vs)}
    \cup {p \in {"ChainMissNotReported"} : d.miss /\ ~d.err /\ o.res # "notfound"}
    \cup {p \in {"ChainErrorSwallowed"} : d.err /\ ~d.miss /\ o.res # "err"}
    \cup {p \in {"ChainProblemIgnored"} : d.err /\ d.miss /\ o.res \notin {"err", "notfound"}}
    \cup {p \in {"LookupDisagreesWithMulti"} :
            o.res = "ok" /\ ~(IF o.vs = <<>> THEN ~o.ok ELSE o.ok /\ o.val = o.vs[1])}

AsOut(r) == [res |-> r.res, vs |-> r.vs, val |-> IF r.vs = <<>> THEN "" ELSE r.vs[1], ok |-> r.res = "ok" /\ r.vs # <<>>]

(***************************************************************************)
(* The input space: chains of up to MaxSteps steps over eight tables.      *)
(***************************************************************************)
\* 1:N, with a value (b) the next tables do not know
S1 == Tb("static", <<En("k", <<"a", "b", "c">>), En("a", <<"b">>)>>, <<>>)
S2 == Tb("static", <<En("a", <<"A">>), En("c", <<"C", "C">>)>>, <<>>)
S3 == Tb("static", <<En("b", <<"x", "a">>), En("A", <<"c">>), En("C", <<"k">>)>>, <<>>)
S0 == Tb("static", <<>>, <<>>)
U1 == Tb("single", <<En("a", <<"A">>), En("b", <<"x">>)>>, <<>>)
F1 == Tb("multi", <<En("a", <<"A">>), En("c", <<"c", "a">>)>>, <<"b">>)
F2 == Tb("single", <<En("a", <<"c">>)>>, <<"c", "C">>)
ID == Tb("identity", <<>>, <<>>)
Tables == {S1, S2, S3, S0, U1, F1, F2, ID}
Steps == [opt : BOOLEAN, t : Tables]
Keys == {"k", "a", "b", "c"}

Rows == {[steps |-> s, key |-> k] : s \in SeqsUpTo(Steps, MaxSteps), k \in Keys}

Init == in \in Rows
Next == UNCHANGED in
Spec == Init /\ [][Next]_in

RuleSatisfiesProp == Viol(in, AsOut(Rule(in))) = {}
AsIsSatisfiesProp == Viol(in, AsOut(RuleWith(in, Devs))) = {}

Emit == Gen => PrintT(<<"ROW", ToJson([in |-> in, exp |-> AsOut(Rule(in))])>>)
=============================================================================
