\* reference configuration (the configurations actually run are generated by lib/checks/x06.py)
\* deviations of the as-is code on: NoViolation must be violated
SPECIFICATION Spec
CONSTANTS
  Lmtps = {FALSE, TRUE}
  ExtNames = {"none", "all"}
  Certs = {"valid"}
  Replies = {"t4", "p5", "drop", "lok", "lp5", "e500"}
  AddrKinds = {"asc", "idn"}
  OptSets = {"none", "all"}
  TlsModes = {FALSE, TRUE}
  MaxRcpt = 2
  MaxTxn = 1
  MaxConn = 1
  MaxFaults = 1
  MaxAgain = 1
  FaultAfter = 0
  Devs = {"NoPoisonOnIOError", "LmtpHeloFallback", "CloseKeepsClient", "CloseAgainPanics", "HelloNamePlain"}
  Gen = FALSE
VIEW View
INVARIANTS NoViolation
CHECK_DEADLOCK FALSE

