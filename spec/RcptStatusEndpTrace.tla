------------------------- MODULE RcptStatusEndpTrace -------------------------
(***************************************************************************)
(* Trace validation for RcptStatusEndp.tla: events recorded on the client  *)
(* side of a socket to the real LMTP endpoint (built from configuration    *)
(* nodes: real go-smtp LMTP server, real Session, real msgpipeline) in     *)
(* front of a scripted partial delivery target.                            *)
(* Events: Cfg(bdat), Txn(st), Rcpt(m, s, res) = class of the reply to     *)
(* RCPT TO, Replies(reps) = the per-recipient replies read from the socket *)
(* after the content, Rset, End.  Anything else (Closed: the server        *)
(* dropped the connection; DataRefused) is not a design step.              *)
(* Same structure as RcptStatusTrace: a conforming step per event or the   *)
(* monitor-only fold with the same Obs operators.                          *)
(***************************************************************************)
EXTENDS RcptStatusEndp

Trace == ndJsonDeserialize("trace.ndjson")

VARIABLES l, drift, driftAt, tno

tvars == <<vars, l, drift, driftAt, tno>>

Ev == Trace[l]
IsEv(e) == l <= Len(Trace) /\ Ev.e = e

Publish(d, da, o) ==
  TLCSet(1, TLCGet(1) \cup {[t |-> tno, drift |-> d, driftAt |-> da, viol |-> o.viol, kviol |-> {}, devs |-> {}]})

TInit ==
  /\ InitWith([bdat |-> FALSE])
  /\ l = 1 /\ drift = FALSE /\ driftAt = 0 /\ tno = 0
  /\ TLCSet(1, {})

TReset ==
  /\ IsEv("Cfg")
  /\ cfg' = [bdat |-> Ev.bdat]
  /\ pc' = "idle" /\ k' = 0 /\ nr' = 0 /\ acc' = <<>> /\ st' = AllOk
  /\ obs' = ObsInit /\ hist' = <<>>
  /\ l' = l + 1 /\ drift' = FALSE /\ driftAt' = 0 /\ tno' = Ev.t

StOf(e) == [m \in Routed |-> e.st[m]]
RepsOf(e) == [i \in 1..Len(e.reps) |-> [m |-> e.reps[i].m, s |-> e.reps[i].s, v |-> e.reps[i].v]]

C_Txn  == IsEv("Txn") /\ TxnStart(StOf(Ev))
C_Rcpt == IsEv("Rcpt") /\ Rcpt(Ev.m, Ev.s, Ev.res)
C_Data == IsEv("Replies") /\ Data(RepsOf(Ev))
C_Rset == IsEv("Rset") /\ Rset
C_End  == IsEv("End") /\ pc = "idle" /\ UNCHANGED vars

Consume == C_Txn \/ C_Rcpt \/ C_Data \/ C_Rset \/ C_End
Conform == Consume

C_Step ==
  /\ ~drift
  /\ Consume
  /\ l' = l + 1
  /\ IF Ev.e = "End" THEN Publish(FALSE, 0, obs') ELSE TRUE
  /\ UNCHANGED <<drift, driftAt, tno>>

ObsApply(o, e) ==
  CASE e.e = "Txn"     -> ObsTxn(o, StOf(e))
    [] e.e = "Rcpt"    -> ObsRcpt(o, e.m, e.s, e.res)
    [] e.e = "Replies" -> ObsReplies(o, RepsOf(e))
    [] OTHER -> o

M_Step ==
  /\ l <= Len(Trace) /\ Ev.e # "Cfg"
  /\ (drift \/ ~ENABLED Conform)
  /\ drift' = TRUE
  /\ driftAt' = IF drift THEN driftAt ELSE Ev.seq
  /\ obs' = ObsApply(obs, Ev)
  /\ l' = l + 1
  /\ UNCHANGED <<cfg, pc, k, nr, acc, st, hist, tno>>
  /\ IF Ev.e = "End" THEN Publish(TRUE, driftAt', obs') ELSE TRUE

TNext == TReset \/ C_Step \/ M_Step
TSpec == TInit /\ [][TNext]_tvars

Post == PrintT(<<"VERDICTS", ToJson(TLCGet(1))>>)
=============================================================================
