------------------------------- MODULE Errors -------------------------------
(***************************************************************************)
(* C16 - error replies are coherent.                                       *)
(*                                                                         *)
(* Pattern B (decision procedure).  The input space is the set of error    *)
(* TERMS constructible from maddy's error-wrapping primitives, nested to   *)
(* depth MaxDepth.  A term is the sequence of its layers, outermost first: *)
(*                                                                         *)
(*   wrappers  smtp(c,m)   &exterrors.SMTPError{Code,EnhancedCode,Message, *)
(*                           Err: inner}                                   *)
(*             smtph       &exterrors.SMTPError{Code: SMTPCode(inner,451,  *)
(*                           550), EnhancedCode: SMTPEnchCode(inner,       *)
(*                           {0,4,0}), Err: inner}   (the idiom of the     *)
(*                           tree: codes computed by the helper pair)      *)
(*             temp(b)     exterrors.WithTemporary(inner, b)               *)
(*             fields(f)   exterrors.WithFields(inner, ...)                *)
(*             wrap        fmt.Errorf("...: %w", inner)                    *)
(*   leaves    plain       errors.New                                      *)
(*             net(b)      *net.DNSError, Temporary() = b                  *)
(*             deadline    context.DeadlineExceeded                        *)
(*             gosmtp(c)   go-smtp's own *smtp.SMTPError                   *)
(*             smtp(c,m)   exterrors.SMTPError without a cause             *)
(*             multi(b)    target/remote's multipleErrs (partial delivery  *)
(*                         failure; b: a temporary member): annotated      *)
(*                         through Fields() only, no Temporary() method    *)
(*                                                                         *)
(* Prop(t, out)  - declarative: what C16 demands of the outputs            *)
(* Rule(D, t)    - operational: the conversions as documented, with the    *)
(*                 deviations D of the code as it is switched on           *)
(* Texts are sequences of code points, so "ASCII only" and "discloses no   *)
(* internal text" are evaluated by TLC, not by the harness.                *)
(***************************************************************************)
EXTENDS Integers, Sequences, FiniteSets, TLC, Json, SequencesExt

CONSTANTS Devs,      \* deviations switched on in the model-checking run
          MaxDepth,  \* 1 .. 4
          Gen        \* TRUE: print the case list (one ROW line per term)

AllDevs == {"EnchAlways5", "QueueDropsEnh", "TempOverride", "Mangle128", "UnspecRealign",
            "PipelineRejectEnh", "MilterCopiesAnyCode"}

NotSet == <<0, 0, 0>>       \* smtp.EnhancedCodeNotSet: go-smtp sends X.0.0

CodeTab == [ t  |-> [code |-> 451, enh |-> <<4, 3, 0>>],
             p  |-> [code |-> 550, enh |-> <<5, 1, 1>>],
             tu |-> [code |-> 450, enh |-> NotSet],
             pu |-> [code |-> 554, enh |-> NotSet] ]

MsgA == <<70, 117, 108, 108>>                  \* "Full"
MsgU == <<80, 108, 233, 128, 129>>             \* "Pl" U+00E9 U+0080 U+0081
MsgTab == [a |-> MsgA, u |-> MsgU]
GenericMsg == <<73, 110, 116, 101, 114, 110, 97, 108, 32, 115, 101, 114, 118, 101, 114, 32,
                101, 114, 114, 111, 114>>      \* "Internal server error"
HighLoadMsg == <<72, 105, 103, 104, 32, 108, 111, 97, 100, 44, 32, 116, 114, 121, 32, 97,
                 103, 97, 105, 110, 32, 108, 97, 116, 101, 114>>  \* "High load, try again later"
MidSuffix == <<32, 40, 109, 115, 103, 32, 73, 68, 32, 61, 32, 77, 49, 41>>  \* " (msg ID = M1)"
\* texts that exist only inside the server (error strings, DNS names, log fields)
TxtPlain == <<107, 97, 98, 111, 111, 109>>                           \* "kaboom"
TxtDns == <<100, 110, 115, 102, 97, 105, 108>>                       \* "dnsfail"
TxtNs == <<110, 115, 46, 105, 110, 116, 101, 114, 110, 97, 108>>     \* "ns.internal"
TxtField == <<102, 49, 101, 108, 100, 115, 101, 99, 114, 101, 116>>  \* "f1eldsecret"
TxtWrap == <<99, 116, 120, 57, 119, 114, 97, 112>>                   \* "ctx9wrap"
TxtDeadline == <<100, 101, 97, 100, 108, 105, 110, 101>>             \* "deadline"
TxtPerRcpt == <<112, 101, 114, 45, 114, 99, 112, 116, 32, 105, 110, 102, 111>>  \* "per-rcpt info"
\* "Partial delivery failure, additional attempts may result in duplicates"
MsgPartial == <<80, 97, 114, 116, 105, 97, 108, 32, 100, 101, 108, 105, 118, 101, 114, 121, 32, 102, 97,
                105, 108, 117, 114, 101, 44, 32, 97, 100, 100, 105, 116, 105, 111, 110, 97, 108, 32, 97,
                116, 116, 101, 109, 112, 116, 115, 32, 109, 97, 121, 32, 114, 101, 115, 117, 108, 116,
                32, 105, 110, 32, 100, 117, 112, 108, 105, 99, 97, 116, 101, 115>>

----------------------------------------------------------------------------
(* the input space *)

SmtpLayers == {[k |-> "smtp", c |-> c, m |-> "a"] : c \in {"t", "p", "tu", "pu"}}
              \cup {[k |-> "smtp", c |-> c, m |-> "u"] : c \in {"t", "p"}}
Wrappers == SmtpLayers
            \cup {[k |-> "smtph"]}
            \cup {[k |-> "temp", b |-> b] : b \in BOOLEAN}
            \cup {[k |-> "fields", f |-> f] : f \in {"x", "r"}}
            \cup {[k |-> "wrap"]}
Leaves == SmtpLayers
          \cup {[k |-> "plain"], [k |-> "deadline"]}
          \cup {[k |-> "net", b |-> b] : b \in BOOLEAN}
          \cup {[k |-> "gosmtp", c |-> c] : c \in {"t", "p"}}
          \cup {[k |-> "multi", b |-> b] : b \in BOOLEAN}

RECURSIVE WrapSeqs(_)
WrapSeqs(n) == IF n = 0 THEN {<<>>}
               ELSE {<<w>> \o s : w \in Wrappers, s \in WrapSeqs(n - 1)}
TermsOfDepth(d) == {s \o <<l>> : s \in WrapSeqs(d - 1), l \in Leaves}
\* the input space (never enumerated as one set: the model checker walks it,
\* leaves are the initial states and wrapping is the step)
TermsUpTo(d) == UNION {TermsOfDepth(n) : n \in 1..d}

----------------------------------------------------------------------------
(* reading a term *)

RECURSIVE TempAt(_, _)
\* what the first Temporary() method found from layer i inwards answers
TempAt(t, i) ==
  IF i > Len(t) THEN "unspec"
  ELSE LET l == t[i] IN
    CASE l.k = "smtp"     -> IF CodeTab[l.c].code \div 100 = 4 THEN "temp" ELSE "perm"
      [] l.k = "gosmtp"   -> IF CodeTab[l.c].code \div 100 = 4 THEN "temp" ELSE "perm"
      [] l.k = "smtph"    -> IF TempAt(t, i + 1) = "temp" THEN "temp" ELSE "perm"
      [] l.k = "temp"     -> IF l.b THEN "temp" ELSE "perm"
      [] l.k = "net"      -> IF l.b THEN "temp" ELSE "perm"
      [] l.k = "deadline" -> "temp"
      [] OTHER            -> TempAt(t, i + 1)

Marker(t) == TempAt(t, 1)
IsTemporary(t) == Marker(t) = "temp"
IsTemporaryOrUnspec(t) == Marker(t) # "perm"
HasDeadline(t) == \E i \in 1..Len(t) : t[i].k = "deadline"

IsAnnLayer(l) == l.k \in {"smtp", "smtph", "multi"}
AnnIdx(t) == IF \E i \in 1..Len(t) : IsAnnLayer(t[i])
             THEN CHOOSE i \in 1..Len(t) : IsAnnLayer(t[i]) /\ \A j \in 1..(i - 1) : ~IsAnnLayer(t[j])
             ELSE 0

\* the annotation a layer carries; the helper pair computes it from the cause
LayerAnn(D, t, i) ==
  IF t[i].k = "smtp"
  THEN [code |-> CodeTab[t[i].c].code, enh |-> CodeTab[t[i].c].enh, msg |-> MsgTab[t[i].m]]
  ELSE IF t[i].k = "multi"
  THEN [code |-> IF t[i].b THEN 451 ELSE 550, enh |-> <<IF t[i].b THEN 4 ELSE 5, 0, 0>>, msg |-> MsgPartial]
  ELSE LET tmp == TempAt(t, i + 1) = "temp" IN
       [code |-> IF tmp THEN 451 ELSE 550,
        enh  |-> <<IF tmp /\ "EnchAlways5" \notin D THEN 4 ELSE 5, 4, 0>>,
        msg  |-> MsgA]

TopGoSMTP(t) == t[1].k = "gosmtp"
GoAnn(t) == [code |-> CodeTab[t[1].c].code, enh |-> CodeTab[t[1].c].enh, msg |-> MsgA]

Annotated(t) == AnnIdx(t) # 0 \/ TopGoSMTP(t)
\* the annotation the term carries when every primitive does what it documents
AnnOf(t) == IF AnnIdx(t) # 0 THEN LayerAnn({}, t, AnnIdx(t)) ELSE GoAnn(t)

InternalTexts(t) ==
  UNION {CASE t[i].k = "plain"    -> {TxtPlain}
           [] t[i].k = "net"      -> {TxtDns, TxtNs}
           [] t[i].k = "deadline" -> {TxtDeadline}
           [] t[i].k = "multi"    -> {TxtPerRcpt}
           [] t[i].k = "wrap"     -> {TxtWrap}
           [] t[i].k = "fields"   -> IF t[i].f = "r" THEN {TxtField} ELSE {}
           [] OTHER               -> {} : i \in 1..Len(t)}

----------------------------------------------------------------------------
(* Rule: the conversions, operationally *)

Class(code) == code \div 100

\* agreement of the reply class with the temporary marker (repair of deviation
\* TempOverride: an explicit marker around an annotated error wins); want = the
\* class the marker asks for, 0 = the marker leaves the annotation alone
Align(D, want, r) ==
  IF "TempOverride" \in D \/ want = 0 \/ want = Class(r.code) THEN r
  ELSE LET c == IF want = 4 THEN 451 ELSE 554 IN
       [r EXCEPT !.code = c,
                 !.enh = IF r.enh = NotSet THEN NotSet ELSE <<Class(c), r.enh[2], r.enh[3]>>]
\* the endpoint never retries: only an explicit marker may override an annotation
\* (deviation UnspecRealign: an error without any marker is taken for permanent)
EndpointWant(D, t) == CASE Marker(t) = "temp" -> 4
                        [] Marker(t) = "perm" -> 5
                        [] OTHER -> IF "UnspecRealign" \in D THEN 5 ELSE 0
\* the queue retries everything that is not marked permanent
QueueWant(t) == IF IsTemporaryOrUnspec(t) THEN 4 ELSE 5

Mangle(D, m) == [i \in DOMAIN m |->
                   IF (IF "Mangle128" \in D THEN m[i] > 128 ELSE m[i] > 127) THEN 63 ELSE m[i]]

\* internal/endpoint/smtp: wrapErr(msgID, mangleUTF8, command, err)
EndpointRule(D, t, mangle, mid) ==
  IF HasDeadline(t)
  THEN [mangle |-> mangle, mid |-> mid, code |-> 451, enh |-> <<4, 4, 5>>, msg |-> HighLoadMsg]
  ELSE
    LET r0 == [code |-> IF IsTemporary(t) THEN 451 ELSE 554, enh |-> NotSet, msg |-> GenericMsg]
        r1 == IF AnnIdx(t) # 0 THEN LayerAnn(D, t, AnnIdx(t)) ELSE r0
        r2 == IF TopGoSMTP(t) THEN GoAnn(t) ELSE r1
        r3 == Align(D, EndpointWant(D, t), r2)
        m1 == IF mid THEN r3.msg \o MidSuffix ELSE r3.msg
        m2 == IF mangle THEN Mangle(D, m1) ELSE m1
    IN [mangle |-> mangle, mid |-> mid, code |-> r3.code, enh |-> r3.enh, msg |-> m2]

\* internal/target/queue: toSMTPErr(err), what is stored and put into the failure report
QueueRule(D, t) ==
  LET tou == IsTemporaryOrUnspec(t)
      r0 == [code |-> IF tou THEN 451 ELSE 554, enh |-> IF tou THEN <<4, 0, 0>> ELSE <<5, 0, 0>>,
             msg |-> GenericMsg]
      a  == LayerAnn(D, t, AnnIdx(t))
      r1 == IF AnnIdx(t) # 0
            THEN [code |-> a.code,
                  enh  |-> IF "QueueDropsEnh" \in D \/ a.enh = NotSet THEN r0.enh ELSE a.enh,
                  msg  |-> a.msg]
            ELSE r0
      r2 == IF TopGoSMTP(t) THEN GoAnn(t) ELSE r1
  IN Align(D, QueueWant(t), r2)

EndpointCombos == <<[mangle |-> TRUE, mid |-> TRUE], [mangle |-> TRUE, mid |-> FALSE],
                    [mangle |-> FALSE, mid |-> TRUE], [mangle |-> FALSE, mid |-> FALSE]>>

Rule(D, t, ran) ==
  LET q == QueueRule(D, t) IN
  [e   |-> [i \in 1..4 |-> EndpointRule(D, t, EndpointCombos[i].mangle, EndpointCombos[i].mid)],
   q   |-> q,
   it  |-> IsTemporary(t),
   tou |-> IsTemporaryOrUnspec(t),
   att |-> IF ran THEN [ran |-> TRUE, retried |-> IsTemporaryOrUnspec(t), dsn |-> TRUE,
                        dcode |-> q.code, denh |-> q.enh, status |-> q.enh]
           ELSE [ran |-> FALSE]]

----------------------------------------------------------------------------
(* Prop: what the property statement demands of the outputs *)

Occurs(s, m) == \E i \in 1..(Len(m) - Len(s) + 1) : SubSeq(m, i, i + Len(s) - 1) = s

\* reply to a client: go-smtp derives X.0.0 from the basic code when NotSet
EClassOK(r) == Class(r.code) \in {4, 5} /\ (r.enh = NotSet \/ r.enh[1] = Class(r.code))
\* stored / reported: the enhanced code is written as it is
QClassOK(code, enh) == Class(code) \in {4, 5} /\ enh[1] = Class(code)

Carries(a, r) == r.code = a.code /\ (a.enh = NotSet \/ r.enh = a.enh)

Retried(out) == IF out.att.ran THEN out.att.retried ELSE out.tou

\* names of the predicates that are false on (t, out)
Viol(t, out) ==
  LET es == {out.e[i] : i \in DOMAIN out.e}
      \* the marker does not contradict the annotation (endpoint: explicit markers only;
      \* queue: whatever is not marked permanent is retried, so it has to be 4yz)
      agreeE == Annotated(t) /\ ~(Marker(t) = "temp" /\ Class(AnnOf(t).code) # 4)
                             /\ ~(Marker(t) = "perm" /\ Class(AnnOf(t).code) # 5)
      agreeQ == Annotated(t) /\ (Marker(t) # "perm") = (Class(AnnOf(t).code) = 4)
  IN
  (IF \A r \in es : EClassOK(r) THEN {} ELSE {"EClass"})
  \cup (IF QClassOK(out.q.code, out.q.enh)
           /\ (out.att.ran /\ out.att.dsn => QClassOK(out.att.dcode, out.att.denh)
                                             /\ out.att.status = out.att.denh)
        THEN {} ELSE {"QClass"})
  \* temporary <=> retried <=> 4yz, permanent <=> not retried <=> 5yz (queue);
  \* the endpoint never retries: an explicit marker must agree with its answer,
  \* unclassified errors are left free (DESIGN 2.5), the deadline rule is its own case
  \cup (IF Retried(out) = (Class(out.q.code) = 4) /\ (out.att.ran => out.att.retried = out.tou)
        THEN {} ELSE {"QRetry"})
  \cup (IF HasDeadline(t) \/ \A r \in es : /\ (out.it => Class(r.code) = 4)
                                          /\ (~out.tou => Class(r.code) = 5)
        THEN {} ELSE {"ERetry"})
  \* an annotated failure is reported with its annotation
  \cup (IF agreeE /\ ~HasDeadline(t) /\ \E r \in es : ~Carries(AnnOf(t), r) THEN {"ECarries"} ELSE {})
  \cup (IF agreeQ /\ ~Carries(AnnOf(t), out.q) THEN {"QCarries"} ELSE {})
  \* nothing that exists only inside the server reaches the client or the report
  \cup (IF \E s \in InternalTexts(t) : (\E r \in es : Occurs(s, r.msg)) \/ Occurs(s, out.q.msg)
        THEN {"NoLeak"} ELSE {})
  \* without SMTPUTF8 the reply is ASCII
  \cup (IF \E r \in es : r.mangle /\ \E i \in DOMAIN r.msg : r.msg[i] > 127 THEN {"Ascii"} ELSE {})

Prop(t, out) == Viol(t, out) = {}

----------------------------------------------------------------------------
(* literals and helper pairs of the source tree *)

LitCoherent(code, enh) == Class(code) \in {4, 5} /\ (enh = NotSet \/ enh[1] = Class(code))

\* exterrors.SMTPCode(err, codeT, codeP) / exterrors.SMTPEnchCode(err, base)
HelperRule(D, h) ==
  [code |-> IF h.temp THEN h.codeT ELSE h.codeP,
   enh  |-> <<IF h.temp /\ "EnchAlways5" \notin D THEN 4 ELSE 5, h.base[2], h.base[3]>>]

HelperSpace == [codeT : {450, 451}, codeP : {550, 554}, base : {<<0, 4, 0>>, <<0, 7, 25>>},
                temp : BOOLEAN]

----------------------------------------------------------------------------
(* replies whose codes are computed at run time (neither a literal nor the    *)
(* helper pair): the code path is driven with the input c.in, the reply it    *)
(* produced is [code, enh, temp] (temp = exterrors.IsTemporary of the error)  *)

CompCoherent(o) == LitCoherent(o.code, o.enh) /\ (o.temp <=> Class(o.code) = 4)
\* a path that did not fail reports no failure at all
CompOK(o) == o.failed => CompCoherent(o)

\* "reject [code [enh [msg]]]": args = sequence of the given code / enhanced code
RejectRule(D, site, args) ==
  LET code == IF Len(args) >= 1 THEN args[1] ELSE 554
      enh  == IF Len(args) >= 2 THEN args[2]
              ELSE IF site = "pipeline-reject" /\ "PipelineRejectEnh" \in D THEN <<5, 7, 0>>
              ELSE <<Class(code), 7, 0>>
  IN [code |-> code, enh |-> enh, temp |-> Class(code) = 4]

CompRule0(D, c) ==
  CASE c.site = "dmarc-reject" ->           \* msgpipeline applyResults, policy reject
         IF c.in.verdict = "temperror" THEN [code |-> 450, enh |-> <<4, 7, 1>>, temp |-> TRUE]
         ELSE [code |-> 550, enh |-> <<5, 7, 1>>, temp |-> FALSE]
    [] c.site \in {"pipeline-reject", "failaction-reject"} -> RejectRule(D, c.site, c.in.args)
    \* check.milter, reply-code action (SMFIR_REPLYCODE).  Only 4yz/5yz is a refusal the
    \* protocol allows; anything else is a protocol error of the milter, handled like an
    \* I/O error: fail_open lets the message pass, otherwise 451 4.7.1.  The text (and any
    \* enhanced code in it) the milter sends is not used.
    \* milter-replycode: the conversion alone (fail_open off); milter-wire: the real check
    \* in a real pipeline talking to a scripted milter, reply as it reaches the client
    [] c.site \in {"milter-replycode", "milter-wire"} ->
         LET cl == Class(c.in.code)
             fo == c.site = "milter-wire" /\ c.in.fo
         IN IF cl \in {4, 5} \/ "MilterCopiesAnyCode" \in D
            THEN [failed |-> TRUE, code |-> c.in.code, enh |-> <<cl, 7, 1>>, temp |-> cl = 4]
            ELSE IF fo THEN [failed |-> FALSE, code |-> 0, enh |-> NotSet, temp |-> FALSE]
            ELSE [failed |-> TRUE, code |-> 451, enh |-> <<4, 7, 1>>, temp |-> TRUE]
    \* target.remote, no MX of the recipient domain could be used: "No usable MXs", code and
    \* enhanced code computed by the helper pair from the failure of the last MX tried
    \* (in.mx: how each MX fails, in preference order)
    [] c.site = "remote-nomx" ->
         LET tmp == c.in.mx[Len(c.in.mx)] = "temp" IN
         [code |-> IF tmp THEN 451 ELSE 550, enh |-> <<IF tmp THEN 4 ELSE 5, 4, 0>>, temp |-> tmp]
    [] c.site = "smtpconn-reply" ->         \* a peer's reply passed on; 552 becomes 452 (RFC 5321 4.5.3.1.10)
         IF c.in.code = 552 THEN [code |-> 452, enh |-> <<4, c.in.enh[2], c.in.enh[3]>>, temp |-> TRUE]
         ELSE [code |-> c.in.code, enh |-> c.in.enh, temp |-> Class(c.in.code) = 4]

\* failed = the path ended in an error (every site but a fail_open milter always does)
CompRule(D, c) == LET r == CompRule0(D, c) IN
                  IF "failed" \in DOMAIN r THEN r ELSE r @@ [failed |-> TRUE]

RejectArgs == {<<>>} \cup {<<c>> : c \in {450, 451, 521, 550, 554}}
              \cup {<<450, <<4, 7, 1>>>>, <<550, <<5, 1, 1>>>>}
\* every class of reply code a milter can put on the wire, and garbage
MilterCodes == {250, 354, 450, 451, 550, 554, 0, 999}
\* every ordering of temporary / permanent per-MX failures for 1, 2 and 3 MXs
MXFailures == UNION {[1..n -> {"temp", "perm"}] : n \in 1..3}
CompSpace ==
  {[site |-> "dmarc-reject", in |-> [verdict |-> v]] : v \in {"fail", "temperror"}}
  \cup {[site |-> s, in |-> [args |-> a]] : s \in {"pipeline-reject", "failaction-reject"}, a \in RejectArgs}
  \cup {[site |-> "remote-nomx", in |-> [mx |-> m]] : m \in MXFailures}
  \cup {[site |-> "milter-replycode", in |-> [code |-> c]] : c \in MilterCodes}
  \cup {[site |-> "milter-wire", in |-> [code |-> c, fo |-> f, enh |-> e, stage |-> g]] :
          c \in MilterCodes, f \in BOOLEAN, e \in {"none", "same", "other"}, g \in {"mail", "eob"}}
  \cup {[site |-> "smtpconn-reply", in |-> [code |-> r[1], enh |-> r[2]]] :
          r \in {<<450, <<4, 2, 0>>>>, <<550, <<5, 1, 1>>>>, <<552, <<5, 3, 4>>>>, <<552, NotSet>>, <<421, NotSet>>}}

----------------------------------------------------------------------------
(* histories: one recipient over several delivery attempts of the real queue  *)
(* h = [mt |-> max_tries, seq |-> the error (a term) attempt i fails with].   *)
(* The retry decision looks at the error of the attempt, the failure report   *)
(* must speak of the failure that ended the delivery: given up on a permanent *)
(* failure => the report is 5yz / 5.x.x; class 4 is legitimate only when the  *)
(* tries were exhausted on a failure that was still temporary.                *)

\* what an attempt can fail with: every combination of {temporary, permanent, unclassified}
\* with {annotated with a specific enhanced code, annotated with a generic one (X.0.0 is
\* derived), not annotated at all, marker contradicting the annotation}
HistErrs == {<<[k |-> "smtp", c |-> "t", m |-> "a"]>>, <<[k |-> "smtp", c |-> "p", m |-> "a"]>>,
             <<[k |-> "plain"]>>, <<[k |-> "temp", b |-> TRUE], [k |-> "smtp", c |-> "p", m |-> "a"]>>,
             <<[k |-> "smtp", c |-> "tu", m |-> "a"]>>, <<[k |-> "smtp", c |-> "pu", m |-> "a"]>>,
             <<[k |-> "temp", b |-> FALSE], [k |-> "plain"]>>, <<[k |-> "net", b |-> FALSE]>>,
             <<[k |-> "net", b |-> TRUE]>>}
\* pt: where the target fails in every attempt of the history - per recipient ("rcpt":
\* AddRcpt; "status": the per-recipient status of a non-atomic body, the LMTP way) or for
\* the whole message ("start", "body", "commit").  rs: the queue is shut down and started
\* again on the same spool between the attempts (the recorded status and the tries counter
\* travel through the .meta file).  The documented rule and the predicates do not depend
\* on pt and rs (the same report is demanded whichever way the failure arrives): they are
\* data dimensions of the replay on the real queue.
HistPoints == {"rcpt", "status", "start", "body", "commit"}
HistSeqs(n) == [1..n -> HistErrs]
HistSpace == {[mt |-> 3, seq |-> q, pt |-> "rcpt", rs |-> FALSE] : q \in HistSeqs(3)}
             \cup {[mt |-> 2, seq |-> q, pt |-> p, rs |-> r] : q \in HistSeqs(2), p \in HistPoints, r \in BOOLEAN}
             \cup {[mt |-> 3, seq |-> q, pt |-> p, rs |-> TRUE] :
                      q \in {s \in HistSeqs(3) : s[1] \in {<<[k |-> "smtp", c |-> "t", m |-> "a"]>>, <<[k |-> "plain"]>>}},
                      p \in {"rcpt", "status", "body"}}

Permanent(t) == Marker(t) = "perm"
Terminal(h) == IF \E i \in 1..h.mt : Permanent(h.seq[i])
               THEN CHOOSE i \in 1..h.mt : Permanent(h.seq[i]) /\ \A j \in 1..(i - 1) : ~Permanent(h.seq[j])
               ELSE h.mt
HistRule(D, h) ==
  LET n == Terminal(h)
      q == QueueRule(D, h.seq[n])
  IN [attempts |-> n, dsn |-> TRUE, dcode |-> q.code, denh |-> q.enh, status |-> q.enh]

HistViol(h, o) ==
  LET inrange == o.attempts \in 1..h.mt IN
  \* temporary failures are retried while tries remain, permanent ones are not retried
  (IF /\ inrange
      /\ \A i \in 1..(o.attempts - 1) : ~Permanent(h.seq[i])
      /\ o.attempts < h.mt => Permanent(h.seq[o.attempts])
   THEN {} ELSE {"HistRetry"})
  \* the report agrees with the treatment
  \cup (IF /\ o.dsn /\ QClassOK(o.dcode, o.denh) /\ o.status = o.denh
           /\ inrange => (Permanent(h.seq[o.attempts]) => Class(o.dcode) = 5)
           /\ inrange /\ o.attempts < h.mt => Class(o.dcode) = 5
        THEN {} ELSE {"HistReport"})

----------------------------------------------------------------------------
(* the AUTH reply path: the submission endpoint answers a failed SASL         *)
(* exchange through go-smtp, not through wrapErr.  a = [mech, term]: the      *)
(* authentication provider fails with the error built from the term.          *)

TxtProvider == <<97, 117, 116, 104, 46, 32, 112, 114, 111, 118, 105, 100, 101, 114>>   \* "auth. provider": names the server's set-up
AuthInvalidMsg == <<97, 117, 116, 104, 58, 32, 105, 110, 118, 97, 108, 105, 100, 32, 99, 114, 101, 100, 101, 110, 116, 105, 97, 108, 115>>   \* "auth: invalid credentials"
AuthTerms == {<<[k |-> "plain"]>>, <<[k |-> "net", b |-> TRUE]>>, <<[k |-> "net", b |-> FALSE]>>,
              <<[k |-> "temp", b |-> TRUE], [k |-> "plain"]>>, <<[k |-> "temp", b |-> FALSE], [k |-> "plain"]>>,
              <<[k |-> "smtp", c |-> "t", m |-> "a"]>>, <<[k |-> "smtp", c |-> "p", m |-> "a"]>>,
              <<[k |-> "smtp", c |-> "t", m |-> "u"]>>,
              <<[k |-> "temp", b |-> TRUE], [k |-> "smtp", c |-> "p", m |-> "a"]>>,
              <<[k |-> "wrap"], [k |-> "net", b |-> TRUE]>>, <<[k |-> "fields", f |-> "r"], [k |-> "plain"]>>}
AuthSpace == {[mech |-> m, term |-> t] : m \in {"PLAIN", "LOGIN"}, t \in AuthTerms}

\* every failed exchange is answered with the same fixed reply
AuthRule(D, a) == [code |-> 454, enh |-> <<4, 7, 0>>, msg |-> AuthInvalidMsg]

AuthViol(a, o) ==
  (IF EClassOK([code |-> o.code, enh |-> o.enh]) THEN {} ELSE {"AuthClass"})
  \cup (IF \E x \in InternalTexts(a.term) \cup {TxtProvider} : Occurs(x, o.msg) THEN {"AuthNoLeak"} ELSE {})
  \cup (IF \E i \in DOMAIN o.msg : o.msg[i] > 127 THEN {"AuthAscii"} ELSE {})

----------------------------------------------------------------------------
(* model checking: one state per term (CHECK_DEADLOCK FALSE) *)

VARIABLE term

\* one state per term: leaves are the initial states, wrapping is the step
Init == term \in {<<l>> : l \in Leaves}
Next == /\ Len(term) < MaxDepth
        /\ \E w \in Wrappers : term' = <<w>> \o term
Spec == Init /\ [][Next]_term

Coherent == Prop(term, Rule(Devs, term, TRUE))
\* the case list: every visited term is printed once (Gen = TRUE)
Emit == Gen => PrintT(<<"ROW", ToJson(term)>>)
HelpersCoherent == /\ \A h \in HelperSpace :
                        LET o == HelperRule(Devs, h) IN LitCoherent(o.code, o.enh)
                   /\ \A c \in CompSpace : CompOK(CompRule(Devs, c))
                   /\ \A h \in HistSpace : HistViol(h, HistRule(Devs, h)) = {}
                   /\ \A a \in AuthSpace : AuthViol(a, AuthRule(Devs, a)) = {}
\* the case list of the computed replies
EmitComp == Gen /\ Len(term) = 1 /\ term[1].k = "plain" =>
              /\ PrintT(<<"COMP", ToJson(SetToSeq(CompSpace))>>)
              /\ PrintT(<<"HIST", ToJson(SetToSeq(HistSpace))>>)
              /\ PrintT(<<"AUTH", ToJson(SetToSeq(AuthSpace))>>)
=============================================================================
