SPECIFICATION Spec
CONSTANTS
  Devs = {"V6SingleAs32", "V1ShortPanics", "V2ShortRead"}
  Gen = FALSE
  Layers = {"raw", "smtp", "smtps"}
  MaxTrust = 2
INVARIANTS AsIsSatisfiesProp
CHECK_DEADLOCK FALSE
