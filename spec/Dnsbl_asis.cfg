\* the code's known deviations switched on: AsIsSatisfiesProp is EXPECTED to be violated (lib/checks/x04.py runs one per deviation)
SPECIFICATION Spec
CONSTANTS
  MaxLists = 1
  Devs = {"MailFromNeverChecked", "DomainNoFilter", "InlineScoreZero", "InlineNoFilter", "ScopedNoop", "LiteralSkipsMailFrom"}
  Gen = FALSE
  Seed = 1
  RandN = 2000
INVARIANTS AsIsSatisfiesProp
CHECK_DEADLOCK FALSE
