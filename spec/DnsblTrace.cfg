\* evaluates trace.ndjson (rows of the real code); OpenDevs = deviations of the open findings of extensions/findings.json
SPECIFICATION TSpec
CONSTANTS
  MaxLists = 3
  Devs = {}
  Gen = FALSE
  Seed = 1
  RandN = 2000
  OpenDevs = {"MailFromNeverChecked", "DomainNoFilter", "InlineScoreZero", "InlineNoFilter", "ScopedNoop", "LiteralSkipsMailFrom"}
CHECK_DEADLOCK FALSE
POSTCONDITION Post
