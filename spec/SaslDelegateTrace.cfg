\* X09 trace evaluation (tables)
SPECIFICATION TSpec
CONSTANTS
  Layer = "ps"
  Devs = {}
  Gen = FALSE
  OpenDevs = {"NoPassAccepts", "ExtNewline", "ExtTwoAt"}
CHECK_DEADLOCK FALSE
POSTCONDITION Post
