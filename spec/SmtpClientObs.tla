--------------------------- MODULE SmtpClientObs ---------------------------
(***************************************************************************)
(* Observation state and property predicates of extension X06: maddy's    *)
(* SMTP/LMTP client (internal/smtpconn.C over the go-smtp client) as used *)
(* by target.smtp, target.lmtp and target.remote.                         *)
(*                                                                         *)
(* Everything here is a pure function of what is visible from outside:    *)
(*   API side   Call(c, a): the call a target makes and its arguments;    *)
(*              Ret(res): its result (class of the error, the reply the   *)
(*              error was built from, per-recipient LMTP statuses,        *)
(*              panic / no return, duration, Client() # nil, network      *)
(*              connection closed or not);                                 *)
(*   wire side  what the next hop received and what it answered, in       *)
(*              order: Greet(id, r), Cmd(verb, par, ak, an, id, r),       *)
(*              Content(full) = the final "." arrived, Dot(i, id, r) =    *)
(*              the i-th reply after the final dot.                        *)
(* Every reply of the next hop carries a unique id; an error built from a *)
(* reply names it.  The same operators fold `obs` in the design spec      *)
(* (SmtpClient.tla, checked exhaustively) and in the trace spec           *)
(* (SmtpClientTrace.tla, events of the real code).                        *)
(*                                                                         *)
(* Reply kinds (r): ok okm extra | t4 t4n p552 | p5 p5n p5m e500 e502 seq *)
(*                  | drop garb | lok lp5  (see harness/smtpconncheck).   *)
(***************************************************************************)
EXTENDS Naturals, Sequences, FiniteSets

PosNow  == {"ok", "okm", "extra"}                \* a positive reply that arrives in time
LateK   == {"lok", "lp5"}                         \* written only after the client's time-out
SrvPos  == PosNow \cup {"lok"}                    \* positive from the next hop's point of view
Neg4    == {"t4", "t4n", "p552"}                  \* 552 is passed on as 452 (RFC 5321 4.5.3.1.10, smtpconn.go)
Neg5    == {"p5", "p5n", "p5m", "e500", "e502", "seq"}
ConnK   == {"drop", "garb"} \cup LateK            \* no usable reply for the command that is waiting
ClassOf(r) == IF r \in Neg4 THEN "temp" ELSE IF r \in Neg5 THEN "perm" ELSE "none"
Classes == {"ok", "temp", "perm", "unspec"}
NotPerm == {"temp", "unspec"}                     \* connection-level failures: never reported as permanent

NoArgs == [lmtp |-> FALSE, tls |-> FALSE, dial |-> "", ak |-> "", an |-> 0,
           utf8 |-> FALSE, rtls |-> FALSE, size |-> FALSE, body |-> ""]
NoCall == [c |-> "", a |-> NoArgs]

(* the verbs a call may put on the wire *)
VerbsOf(c) ==
  CASE c = "Connect" -> {"EHLO", "LHLO", "HELO", "STARTTLS", "QUIT"}
    [] c = "Mail"    -> {"MAIL"}
    [] c = "Rcpt"    -> {"RCPT"}
    [] c \in {"Data", "LData"} -> {"DATA"}
    [] c = "Reset"   -> {"RSET"}
    [] c = "Noop"    -> {"NOOP"}
    [] c = "Close"   -> {"QUIT"}
    [] OTHER         -> {}

(* address kinds: "asc" ASCII, "idn" U-label domain, "nl" non-ASCII local part as given; *)
(* "ace" is what "idn" becomes for a next hop without SMTPUTF8                            *)
WireForms(ak) == IF ak = "idn" THEN {"idn", "ace"} ELSE {ak}
NonAscii == {"idn", "nl"}

ObsInit(lmtp, ext) ==
  [ lmtp    |-> lmtp,
    cfgext  |-> ext,          \* what the next hop advertises (STARTTLS only before TLS)
    conn    |-> FALSE,        \* a connection was opened by the call sequence so far
    ph      |-> "none",       \* next hop's protocol state: none greeted refused ready mail rcpt data dot quit
    ext     |-> {},           \* extensions of the last positive EHLO/LHLO
    heloOK  |-> FALSE,        \* the last EHLO was refused with 500/502: HELO may follow
    tls     |-> FALSE,
    nacc    |-> 0,            \* RCPT commands the next hop accepted in this transaction
    accw    |-> <<>>,         \* their addresses as on the wire
    healthy |-> FALSE,        \* no reply was dropped / late / garbage on this connection
    call    |-> NoCall,
    slots   |-> <<>>,         \* reply slots of the call in progress: [verb, id, r]
    mustq   |-> FALSE,        \* the call in progress is a Close that has to say QUIT
    full    |-> FALSE,        \* the call in progress delivered the complete content
    viol    |-> {} ]

V(o, c, name) == IF c THEN o ELSE [o EXCEPT !.viol = @ \cup {name}]

Slot(verb, id, r) == [verb |-> verb, id |-> id, r |-> r]
SlotsOf(o, verbs) == SelectSeq(o.slots, LAMBDA s : s.verb \in verbs)
LastOf(s) == s[Len(s)]
Fault(o, r) == IF r \in ConnK THEN [o EXCEPT !.healthy = FALSE] ELSE o

ObsCall(o, c, a) ==
  LET o1 == [o EXCEPT !.call = [c |-> c, a |-> a], !.slots = <<>>, !.full = FALSE,
                      !.mustq = (c = "Close" /\ o.healthy /\ o.ph \in {"ready", "mail", "rcpt", "greeted"})]
  IN IF c = "Connect" /\ a.dial = "ok"
     THEN [o1 EXCEPT !.conn = TRUE, !.ph = "pre", !.ext = {}, !.heloOK = FALSE, !.tls = FALSE, !.nacc = 0,
                     !.accw = <<>>, !.healthy = TRUE]
     ELSE o1

ObsGreet(o, id, r) ==
  LET o1 == V(o, o.call.c = "Connect" /\ o.ph = "pre", "UnexpectedCommand")
  IN Fault([o1 EXCEPT !.slots = Append(@, Slot("GREET", id, r)),
                      !.ph = IF r \in SrvPos THEN "greeted" ELSE "refused"], r)

(* the name in EHLO / LHLO / HELO: "local" = localhost, "name" = the configured host name.  With STARTTLS     *)
(* required "maddy will use localhost as HELO hostname before STARTTLS and will only send its actual hostname *)
(* after STARTTLS" (docs/reference/targets/smtp.md)                                                           *)
HelloName(o, e) ==
  IF o.call.c # "Connect" THEN o
  ELSE IF o.call.a.tls /\ ~e.tls THEN V(o, e.hn = "local", "HostnameBeforeStarttls")
  ELSE V(o, e.hn = "name", "WrongHelloName")

(* e = [verb, hn (hello name), par (set of MAIL parameters), ak, an, id, r, tls] *)
ObsCmd(o, e) ==
  LET c  == o.call.c
      a  == o.call.a
      ph == o.ph
      pos == e.r \in SrvPos
      o0 == V(o, e.verb \in VerbsOf(c), "UnexpectedCommand")
      o1 ==
        CASE e.verb \in {"EHLO", "LHLO"} ->
               HelloName(V(o0, (e.verb = "LHLO") = o.lmtp, "WrongHello"), e)
          [] e.verb = "HELO" ->
               HelloName(V(V(o0, ~o.lmtp, "HeloOnLMTP"), o.heloOK, "HeloWithoutEhloRefusal"), e)
          [] e.verb = "STARTTLS" ->
               V(o0, "STARTTLS" \in o.ext /\ ~o.tls /\ ph = "ready", "StarttlsNotOffered")
          [] e.verb = "MAIL" ->
               LET p1 == V(o0, ph = "ready", "MailOutOfOrder")
                   p2 == V(p1, (e.par \ {"BODY=8BITMIME"}) \subseteq o.ext /\ ("BODY=8BITMIME" \in e.par => "8BITMIME" \in o.ext),
                           "OptionNotOffered")
                   p3 == V(p2, e.ak \in NonAscii => "SMTPUTF8" \in e.par, "Utf8AddressWithoutExtension")
               IN IF c # "Mail" THEN p3
                  ELSE LET q1 == V(p3, a.rtls => "REQUIRETLS" \in e.par, "RequiredOptionDropped")
                           q2 == V(q1, /\ (a.utf8 /\ "SMTPUTF8" \in o.ext) => "SMTPUTF8" \in e.par
                                       /\ (a.size /\ "SIZE" \in o.ext) => "SIZE" \in e.par, "OptionNotForwarded")
                           q3 == V(q2, /\ "REQUIRETLS" \in e.par => a.rtls
                                       /\ "SMTPUTF8" \in e.par => a.utf8
                                       /\ "SIZE" \in e.par => a.size, "OptionInvented")
                       IN V(q3, e.ak \in WireForms(a.ak) /\ e.an = 0 /\ (e.ak = "ace" => "SMTPUTF8" \notin e.par),
                            "WrongAddress")
          [] e.verb = "RCPT" ->
               LET p1 == V(o0, ph \in {"mail", "rcpt"}, "RcptOutOfOrder")
                   p2 == V(p1, e.ak \in NonAscii => "SMTPUTF8" \in o.ext, "Utf8AddressWithoutExtension")
               IN IF c # "Rcpt" THEN p2
                  ELSE V(p2, e.ak \in WireForms(a.ak) /\ e.an = a.an, "WrongAddress")
          [] e.verb = "DATA" -> V(o0, ph = "rcpt", "DataWithoutRcpt")
          [] e.verb \in {"RSET", "NOOP", "QUIT"} -> o0
          [] OTHER -> V(o0, FALSE, "UnknownCommand")
      o2 == [o1 EXCEPT !.slots = Append(@, Slot(e.verb, e.id, e.r)), !.tls = e.tls]
      o3 ==
        CASE e.verb \in {"EHLO", "LHLO"} ->
               IF pos THEN [o2 EXCEPT !.ph = "ready", !.nacc = 0, !.accw = <<>>, !.heloOK = FALSE,
                                      !.ext = IF e.tls THEN o.cfgext \ {"STARTTLS"} ELSE o.cfgext]
               ELSE [o2 EXCEPT !.heloOK = e.r \in {"e500", "e502"}]
          [] e.verb = "HELO" ->
               IF pos THEN [o2 EXCEPT !.ph = "ready", !.nacc = 0, !.accw = <<>>, !.heloOK = FALSE, !.ext = {}]
               ELSE [o2 EXCEPT !.heloOK = FALSE]
          [] e.verb = "STARTTLS" -> IF pos THEN [o2 EXCEPT !.ph = "greeted", !.ext = {}] ELSE o2
          [] e.verb = "MAIL" -> IF pos THEN [o2 EXCEPT !.ph = "mail", !.nacc = 0, !.accw = <<>>] ELSE o2
          [] e.verb = "RCPT" -> IF pos THEN [o2 EXCEPT !.ph = "rcpt", !.nacc = @ + 1,
                                                       !.accw = Append(@, [ak |-> e.ak, an |-> e.an])] ELSE o2
          [] e.verb = "RSET" -> IF pos /\ ph \in {"ready", "mail", "rcpt"}
                                THEN [o2 EXCEPT !.ph = "ready", !.nacc = 0, !.accw = <<>>] ELSE o2
          [] e.verb = "DATA" -> IF pos THEN [o2 EXCEPT !.ph = "data"] ELSE o2
          [] e.verb = "QUIT" -> IF pos THEN [o2 EXCEPT !.ph = "quit"] ELSE o2
          [] OTHER -> o2
  IN Fault(o3, e.r)

(* the final "." arrived at the next hop; full = what preceded it is the complete message *)
ObsContent(o, full) ==
  LET o1 == V(o, full, "TruncatedMessageCompleted")
      o2 == V(o1, o.call.c \in {"Data", "LData"}, "UnexpectedCommand")
  IN [o2 EXCEPT !.ph = "dot", !.full = full]

ObsDot(o, i, id, r) ==
  Fault([o EXCEPT !.slots = Append(@, Slot("DOT", id, r)), !.ph = "ready"], r)

(* ---- results ------------------------------------------------------------------ *)
(* res = [cls, code, id, sts, panic, hung, dur, connected, open]                     *)
(* sts = sequence of [ak, an, cls, id] handed to the LMTPData callback               *)

(* the reply the result of a one-command call has to reflect *)
AttribOne(o, res, verb, wrapped) ==
  LET own == SlotsOf(o, {verb})
      o1 == V(o, res.id # 0 => \E i \in 1..Len(o.slots) : o.slots[i].id = res.id, "ReplyOfAnotherCommand")
  IN IF own = <<>>
     THEN V(o1, res.cls # "ok", "SuccessWithoutPositiveReply")
     ELSE LET s == LastOf(own)
              o2 == V(o1, res.cls = "ok" => s.r \in PosNow, "SuccessWithoutPositiveReply")
              o3 == V(o2, s.r \in PosNow => res.cls = "ok", "FailureDespitePositiveReply")
              o4 == V(o3, s.r \in (Neg4 \cup Neg5) => (res.cls # "ok" /\ res.id = s.id /\ (wrapped => res.cls = ClassOf(s.r))),
                      "ReplyMisreported")
          IN V(o4, (wrapped /\ s.r \in ConnK /\ res.cls # "ok") => res.cls \in NotPerm, "ConnFailureReportedPermanent")

StatusesOK(o, res, dots) ==
  LET n == Len(res.sts)
      o1 == V(o, n <= Len(dots) /\ n <= Len(o.accw), "StatusWithoutReply")
      m == IF n <= Len(dots) /\ n <= Len(o.accw) THEN n ELSE 0
      o2 == V(o1, \A i \in 1..m : res.sts[i].ak = o.accw[i].ak /\ res.sts[i].an = o.accw[i].an, "StatusUnderWrongAddress")
      (* a per-recipient 552 reaches the callback as it is (no 552 -> 452 rewrite there): either class *)
      o3 == V(o2, \A i \in 1..m : /\ (dots[i].r \in PosNow) = (res.sts[i].cls = "ok")
                                   /\ dots[i].r \in (Neg4 \cup Neg5) =>
                                        /\ res.sts[i].id = dots[i].id
                                        /\ res.sts[i].cls = ClassOf(dots[i].r) \/ (dots[i].r = "p552" /\ res.sts[i].cls = "perm"),
              "StatusOfAnotherRecipient")
  IN V(o3, (res.cls = "ok" /\ \A i \in 1..Len(dots) : dots[i].r \notin ConnK) => n = Len(o.accw), "MissingStatus")

ObsRet(o, res) ==
  LET c  == o.call.c
      a  == o.call.a
      o1 == V(V(o, ~res.panic, "CallPanicked"), ~res.hung, "CallHung")
      o2 == V(V(o1, c = "Close" => res.dur <= 6, "CloseSlow"),
              (res.cls # "ok" /\ c \notin {"Close", "DirectClose"}) => (res.code = 0 \/ res.code >= 400), "ErrorWithSuccessCode")
      o3 ==
        CASE c = "Mail"  -> AttribOne(o2, res, "MAIL", TRUE)
          [] c = "Rcpt"  -> AttribOne(o2, res, "RCPT", TRUE)
          [] c = "Reset" -> AttribOne(o2, res, "RSET", FALSE)
          [] c = "Noop"  -> AttribOne(o2, res, "NOOP", FALSE)
          [] c \in {"Data", "LData"} ->
               LET dots == SlotsOf(o2, {"DOT"})
                   dcmd == SlotsOf(o2, {"DATA"})
                   p1 == V(o2, res.id # 0 => \E i \in 1..Len(o2.slots) : o2.slots[i].id = res.id, "ReplyOfAnotherCommand")
                   p2 == V(p1, res.cls = "ok" => (dcmd # <<>> /\ LastOf(dcmd).r \in PosNow /\ o2.full /\ dots # <<>>),
                           "SuccessWithoutPositiveReply")
               IN IF ~o.lmtp
                  THEN IF dots # <<>> THEN AttribOne(p2, res, "DOT", TRUE)
                       ELSE IF dcmd # <<>> /\ LastOf(dcmd).r \notin PosNow THEN AttribOne(p2, res, "DATA", TRUE)
                       ELSE V(p2, res.cls # "ok", "SuccessWithoutPositiveReply")
                  ELSE IF c = "LData" THEN StatusesOK(p2, res, dots)
                       ELSE V(p2, res.cls = "ok" => (Len(dots) >= Len(o.accw) /\ \A i \in 1..Len(dots) : dots[i].r \in PosNow),
                              "SuccessWithoutPositiveReply")
          [] c = "Connect" ->
               LET hs == SlotsOf(o2, {"EHLO", "LHLO", "HELO"})
                   p1 == V(o2, res.id # 0 => \E i \in 1..Len(o2.slots) : o2.slots[i].id = res.id, "ReplyOfAnotherCommand")
                   p2 == V(p1, res.cls = "ok" => (hs # <<>> /\ LastOf(hs).r \in PosNow /\ o2.ph = "ready"), "SuccessWithoutPositiveReply")
                   p3 == V(p2, (res.cls = "ok" /\ a.tls) => o2.tls, "TlsRequiredNotEstablished")
                   p4 == V(p3, res.cls # "ok" => ~res.open, "ConnectionLeftOpen")
                   (* the first refusal that is not the 500/502 answered by the HELO fallback decides the class *)
                   bad == SelectSeq(o2.slots, LAMBDA s : s.verb # "QUIT" /\ s.r \notin PosNow /\
                                                         ~(s.verb \in {"EHLO", "LHLO"} /\ s.r \in {"e500", "e502"} /\
                                                           \E j \in 1..Len(o2.slots) : o2.slots[j].verb = "HELO"))
               IN IF bad = <<>> \/ res.cls = "ok" THEN p4
                  ELSE LET s == bad[1]
                       (* a 552 that refuses STARTTLS is handed on as it is (TLSError), not as 452 *)
                       IN V(V(p4, s.r \in (Neg4 \cup Neg5) =>
                                    /\ res.id = s.id
                                    /\ res.cls = ClassOf(s.r) \/ (s.r = "p552" /\ s.verb = "STARTTLS" /\ res.cls = "perm"), "ReplyMisreported"),
                            s.r \in ConnK => res.cls \in NotPerm, "ConnFailureReportedPermanent")
          [] c \in {"Close", "DirectClose"} ->
               LET p1 == V(o2, ~res.open, "ConnectionLeftOpen")
                   p2 == V(p1, ~res.connected, "ClosedObjectStillConnected")
               IN V(p2, o2.mustq => SlotsOf(o2, {"QUIT"}) # <<>>, "CloseWithoutQuit")
          [] OTHER -> o2
  IN [o3 EXCEPT !.call = NoCall, !.slots = <<>>, !.mustq = FALSE]

ObsEnd(o, open) == V(o, ~open, "ConnectionLeftOpen")
=============================================================================
