------------------------------- MODULE Limits -------------------------------
(***************************************************************************)
(* Design specification of maddy's limits.Group (internal/limits/limits.go)*)
(* and its limiters (internal/limits/limiters: Semaphore, BucketSet,       *)
(* MultiLimit), one action per channel operation / critical section:       *)
(*                                                                         *)
(*   Semaphore        sem[s][k] = len(Semaphore.c), capacity Cap(s)        *)
(*   BucketSet.take   TableTake: capacity test, reaping, bucket creation,  *)
(*                    "no bucket" result                                   *)
(*   Group.Init       Present / Cap: how the four scopes are wired         *)
(*   TakeMsg          w_all -> t_ip -> w_ip -> t_src -> w_src -> r_ok,     *)
(*                    roll-back rb_a (ip failed) / rb_b1, rb_b2 (source    *)
(*                    failed); the 5 s time-out is the flag exp[m], set by *)
(*                    Tick (2.5 s of logical time, two of them expire a    *)
(*                    call) and only consulted while the call waits        *)
(*   ReleaseMsg       x_all -> x_ip -> x_src                               *)
(*   TakeDest         t_dst -> w_dst,  ReleaseDest x_dst                   *)
(*   callers          a delivery m: TakeMsg, then TakeDest for some        *)
(*                    domains (remote: connectionForDomain), then          *)
(*                    ReleaseDest for each and ReleaseMsg (remote: Close,  *)
(*                    endpoint: cleanSession/releaseLimits)                *)
(*                                                                         *)
(* Deviations (behaviour the code has and the property forbids), switched  *)
(* by the constant Devs:                                                   *)
(*   "DestFromSource"  Init builds the destination bucket set from the     *)
(*                     *source* constructor list (limits.go:121-122)       *)
(*   "NilIpRelease"    TakeMsg's roll-back after a failed source take      *)
(*                     calls g.ip.Release with g.ip == nil (limits.go:191) *)
(*   "NeverReap"       bucket.go:89 tests lastUse.Sub(now) > interval,     *)
(*                     which is never true: nothing is ever reaped         *)
(*   "NilBucketDeref"  BucketSet.take returns nil when the table is full   *)
(*                     and Take/TakeContext call a method on it            *)
(*   "ReapInUse"       (hypothetical repair now.Sub(lastUse) > interval    *)
(*                     alone) reaps buckets that still have holders        *)
(*   "MailRejectNoRelease" remote/connect.go: MAIL refused by the next hop *)
(*                     after TakeDest: permit never released (caller,      *)
(*                     Remote = TRUE)                                      *)
(*   "ReleaseOtherKey" endpoint/smtp/session.go: Mail overwrites the       *)
(*                     cleaned sender, releaseLimits uses another key      *)
(*                     (callers: Endp = TRUE)                              *)
(*                                                                         *)
(* Key populations: besides the ordinary keys the configurations used for  *)
(* behaviour generation and trace validation contain the source key "null" *)
(* (the null reverse-path MAIL FROM:<>, limited under the empty domain) and *)
(* the ip key "lo" (a message without a TCP peer address - LMTP over a unix *)
(* socket, a locally generated report - is limited under 127.0.0.1).  For  *)
(* the design they are keys like any other; the harness maps them to the   *)
(* real spelling.                                                          *)
(***************************************************************************)
EXTENDS LimitsObs, Integers, TLC, Json

CONSTANTS Msgs,       \* callers (concurrent deliveries)
          Probers,    \* callers that may use TakeDest without TakeMsg (probe clients)
          IPs, Srcs, Dsts,   \* key populations
          NAll, NIp, NSrc, NDst,   \* capacities explored per scope (0 = scope not configured)
          MBSet,      \* bucket-table capacities explored (BucketSet.MaxBuckets)
          MaxOps,     \* deliveries per caller
          FillOK,     \* TRUE: the bulk-fill action is available
          Devs,       \* enabled deviations
          Eager,      \* TRUE: callers act only when every goroutine has run to its blocking point
          Endp,       \* TRUE: the callers are SMTP sessions (startDelivery / releaseLimits): the pipeline
                      \*       may refuse the sender right after TakeMsg succeeded
          Remote,     \* TRUE: the callers are remote deliveries (Start / connectionForDomain / Close):
                      \*       a delivery ends with one End call, the next hop may refuse MAIL
          Gen,        \* TRUE: keep the script history and print complete behaviours
          ParkOK      \* TRUE: scheduling dimension "a Take that has just been granted the permits of
                      \*       its bucket is held up before it goes on" (Park / Unpark) is available

VARIABLES cfg,    \* [all, ip, source, dest, mb]
          pc, arg, held, exp, age, res, ops,     \* per caller
          sem,    \* [scope -> [key -> permits in use]]
          tab,    \* [bucket scope -> keys that have a bucket]
          fresh,  \* [bucket scope -> keys used within the reap interval]
          extra,  \* [bucket scope -> number of anonymous idle buckets (bulk fill)]
          xfresh, \* [bucket scope -> how many of them are fresh]
          devs,   \* deviations taken so far
          phase,  \* "run" | "end"
          obs, hist

vars == <<cfg, pc, arg, held, exp, age, res, ops, sem, tab, fresh, extra, xfresh, devs, phase, obs, hist>>
View == <<cfg, pc, arg, held, exp, age, res, ops, sem, tab, fresh, extra, xfresh, phase, obs>>

Keys == IPs \cup Srcs \cup Dsts
KeysOf(s) == CASE s = "ip" -> IPs [] s = "source" -> Srcs [] s = "dest" -> Dsts [] OTHER -> {AllKey}

Cfgs == [all : NAll, ip : NIp, source : NSrc, dest : NDst, mb : MBSet]

H(e) == IF Gen THEN Append(hist, e) ELSE hist
D(name) == name \in Devs

(* ---- the wiring Group.Init builds -------------------------------------- *)
Present(s) == s = "all" \/ cfg[s] > 0
Cap(s) == IF s = "dest" /\ D("DestFromSource") THEN cfg.source ELSE cfg[s]
KeyOf(m, s) == CASE s = "ip" -> arg[m].ip [] s = "source" -> arg[m].src
                 [] s = "dest" -> arg[m].d [] OTHER -> AllKey

NoArg == [ip |-> "", src |-> "", d |-> ""]

InitWith(c) ==
  /\ cfg = c
  /\ pc = [m \in Msgs |-> "idle"]
  /\ arg = [m \in Msgs |-> NoArg]
  /\ held = [m \in Msgs |-> [msg |-> FALSE, dst |-> {}]]
  /\ exp = [m \in Msgs |-> FALSE]
  /\ age = [m \in Msgs |-> 0]
  /\ res = [m \in Msgs |-> ""]
  /\ ops = [m \in Msgs |-> MaxOps]
  /\ sem = [s \in Scopes |-> [k \in Keys \cup {AllKey} |-> 0]]
  /\ tab = [s \in BScopes |-> {}]
  /\ fresh = [s \in BScopes |-> {}]
  /\ extra = [s \in BScopes |-> 0]
  /\ xfresh = [s \in BScopes |-> 0]
  /\ devs = {}
  /\ phase = "run"
  /\ obs = ObsInit([s \in Scopes |-> c[s]], Msgs, Keys)
  /\ hist = <<>>

Init == \E c \in Cfgs : InitWith(c)

(* ---- semaphores --------------------------------------------------------- *)
\* A limiter without a semaphore (Cap = 0: empty MultiLimit) never blocks and never
\* panics; sem then merely counts its users (which keeps the bucket from being reaped).
CanAcq(s, k) == Cap(s) = 0 \/ sem[s][k] < Cap(s)
Acq(s, k)    == [sem EXCEPT ![s][k] = @ + 1]
\* Semaphore.Release: "mismatched Release call" when nothing is held
RelOK(sm, s, k) == Cap(s) = 0 \/ sm[s][k] > 0
Rel(sm, s, k)   == IF sm[s][k] > 0 THEN [sm EXCEPT ![s][k] = @ - 1] ELSE sm
\* BucketSet.Release: an unknown key is ignored
BRelOK(sm, s, k) == k \notin tab[s] \/ RelOK(sm, s, k)
BRel(sm, s, k)   == IF k \in tab[s] THEN Rel(sm, s, k) ELSE sm

Pending(m) == pc[m] \notin {"idle", "done", "crashed"}
Waiters(s, k) == {m \in Msgs : pc[m] = (CASE s = "ip" -> "w_ip" [] s = "source" -> "w_src"
                                         [] s = "dest" -> "w_dst" [] OTHER -> "w_all")
                               /\ KeyOf(m, s) = k}

(* ---- BucketSet.take ------------------------------------------------------ *)
\* the reaping rule: of the stale buckets, which ones are dropped
InUse(s, q) == sem[s][q] > 0 \/ Waiters(s, q) # {}
ReapKeys(s, stale) == IF D("NeverReap") THEN {}
                      ELSE IF D("ReapInUse") THEN stale
                      ELSE {q \in stale : ~InUse(s, q)}
XReap(n) == IF D("NeverReap") THEN 0 ELSE n
\* result: [r |-> "ok" | "full" | "nil", tab, fresh, extra, xfresh, sem, dv]
TableTake(s, k) ==
  LET cnt == Cardinality(tab[s]) + extra[s] IN
  IF cnt > cfg.mb
  THEN \* attempt to get rid of stale buckets
       LET stale   == tab[s] \ fresh[s]
           reap    == ReapKeys(s, stale)
           xreap   == XReap(extra[s] - xfresh[s])
           tab1    == tab[s] \ reap
           ex1     == extra[s] - xreap
           sem1    == [sem EXCEPT ![s] = [q \in DOMAIN sem[s] |-> IF q \in reap THEN 0 ELSE sem[s][q]]]
           dv      == (IF D("NeverReap") /\ (stale # {} \/ extra[s] > xfresh[s]) THEN {"NeverReap"} ELSE {})
                      \cup (IF D("ReapInUse") /\ (\E q \in reap : InUse(s, q)) THEN {"ReapInUse"} ELSE {})
       IN IF Cardinality(tab1) + ex1 > cfg.mb
          THEN [r |-> IF D("NilBucketDeref") THEN "nil" ELSE "full",
                tab |-> tab1, fresh |-> fresh[s], extra |-> ex1, xfresh |-> xfresh[s], sem |-> sem1,
                dv |-> dv \cup (IF D("NilBucketDeref") THEN {"NilBucketDeref"} ELSE {})]
          ELSE [r |-> "ok", tab |-> tab1 \cup {k}, fresh |-> fresh[s] \cup {k},
                extra |-> ex1, xfresh |-> xfresh[s], sem |-> sem1, dv |-> dv]
  ELSE [r |-> "ok", tab |-> tab[s] \cup {k}, fresh |-> fresh[s] \cup {k},
        extra |-> extra[s], xfresh |-> xfresh[s], sem |-> sem, dv |-> {}]

ApplyTable(s, t) ==
  /\ tab' = [tab EXCEPT ![s] = t.tab]
  /\ fresh' = [fresh EXCEPT ![s] = t.fresh]
  /\ extra' = [extra EXCEPT ![s] = t.extra]
  /\ xfresh' = [xfresh EXCEPT ![s] = t.xfresh]
  /\ sem' = t.sem
  /\ devs' = devs \cup t.dv

NoTable == UNCHANGED <<tab, fresh, extra, xfresh>>
Same(m) == UNCHANGED <<cfg, arg, held, exp, age, ops, phase, obs, hist>>
Goto(m, l) == pc' = [pc EXCEPT ![m] = l]
Result(m, r) == res' = [res EXCEPT ![m] = r]

(* ---- internal steps of one caller (not visible at the API) -------------- *)
AfterAll == IF Present("ip") THEN "t_ip" ELSE IF Present("source") THEN "t_src" ELSE "r_ok"
AfterIp  == IF Present("source") THEN "t_src" ELSE "r_ok"

\* table look-up for scope s; on success wait on the bucket, otherwise roll back
TStep(m, s, here, wait, fail) ==
  /\ pc[m] = here /\ m \notin obs.yield
  /\ LET t == TableTake(s, KeyOf(m, s)) IN
       /\ ApplyTable(s, t)
       /\ CASE t.r = "ok"   -> Goto(m, wait) /\ UNCHANGED res
            [] t.r = "full" -> Goto(m, fail) /\ Result(m, "full")
            [] OTHER        -> Goto(m, "r_panic") /\ Result(m, "nilptr")
  /\ Same(m)

\* wait on the semaphore of scope s: acquire, or give up once the context expired
WStep(m, s, here, next, fail) ==
  /\ pc[m] = here
  /\ \/ /\ CanAcq(s, KeyOf(m, s))
        /\ sem' = Acq(s, KeyOf(m, s))
        /\ Goto(m, next) /\ UNCHANGED res
        \* the wiring deviation shows as soon as a permit of the wrong limiter is taken
        /\ devs' = IF s = "dest" /\ D("DestFromSource") /\ cfg.source # cfg.dest
                   THEN devs \cup {"DestFromSource"} ELSE devs
     \/ /\ exp[m]
        /\ UNCHANGED <<sem, devs>>
        /\ Goto(m, fail) /\ Result(m, "timeout")
  /\ NoTable /\ Same(m)

\* release on a plain (global) limiter or on a bucket set
RStep(m, s, here, next) ==
  /\ pc[m] = here
  /\ LET k == KeyOf(m, s)
         ok == IF s = "all" THEN RelOK(sem, s, k) ELSE BRelOK(sem, s, k) IN
       IF ok
       THEN /\ sem' = (IF s = "all" THEN Rel(sem, s, k) ELSE BRel(sem, s, k))
            /\ Goto(m, next) /\ UNCHANGED res
       ELSE /\ UNCHANGED sem
            /\ Goto(m, "r_panic") /\ Result(m, "mismatch")
  /\ NoTable /\ UNCHANGED devs /\ Same(m)

\* g.ip.Release in the roll-back of a failed source take
RbIp(m) ==
  /\ pc[m] = "rb_b2"
  /\ IF Present("ip")
     THEN LET k == KeyOf(m, "ip") IN
          IF BRelOK(sem, "ip", k)
          THEN sem' = BRel(sem, "ip", k) /\ Goto(m, "r_fail") /\ UNCHANGED <<res, devs>>
          ELSE UNCHANGED <<sem, devs>> /\ Goto(m, "r_panic") /\ Result(m, "mismatch")
     ELSE IF D("NilIpRelease")
          THEN UNCHANGED sem /\ Goto(m, "r_panic") /\ Result(m, "nilptr")
               /\ devs' = devs \cup {"NilIpRelease"}
          ELSE UNCHANGED <<sem, res, devs>> /\ Goto(m, "r_fail")
  /\ NoTable /\ Same(m)

Skip(m, here, next) ==
  /\ pc[m] = here /\ Goto(m, next)
  /\ UNCHANGED <<res, sem, devs>> /\ NoTable /\ Same(m)

Step(m) ==
  \* TakeMsg
  \/ WStep(m, "all", "w_all", AfterAll, "r_fail")
  \/ TStep(m, "ip", "t_ip", "w_ip", "rb_a")
  \/ WStep(m, "ip", "w_ip", AfterIp, "rb_a")
  \/ RStep(m, "all", "rb_a", "r_fail")
  \/ TStep(m, "source", "t_src", "w_src", "rb_b1")
  \/ WStep(m, "source", "w_src", "r_ok", "rb_b1")
  \/ RStep(m, "all", "rb_b1", "rb_b2")
  \/ RbIp(m)
  \* TakeDest
  \/ (IF Present("dest") THEN TStep(m, "dest", "t_dst", "w_dst", "r_fail")
                         ELSE Skip(m, "t_dst", "r_ok"))
  \/ WStep(m, "dest", "w_dst", "r_ok", "r_fail")
  \* ReleaseMsg
  \/ RStep(m, "all", "x_all", "x_ip")
  \/ (IF Present("ip") THEN RStep(m, "ip", "x_ip", "x_src") ELSE Skip(m, "x_ip", "x_src"))
  \/ (IF Present("source") THEN RStep(m, "source", "x_src", "r_rel") ELSE Skip(m, "x_src", "r_rel"))
  \* ReleaseDest
  \/ (IF Present("dest") THEN RStep(m, "dest", "x_dst", "r_rel") ELSE Skip(m, "x_dst", "r_rel"))

\* can caller m take an internal step?  (explicit, so that no ENABLED is needed)
WaitPc == {"w_all", "w_ip", "w_src", "w_dst"}
ScopeOfWait(l) == CASE l = "w_ip" -> "ip" [] l = "w_src" -> "source" [] l = "w_dst" -> "dest" [] OTHER -> "all"
CanStep(m) ==
  \/ pc[m] \in {"t_ip", "t_src", "t_dst", "rb_a", "rb_b1", "rb_b2", "x_all", "x_ip", "x_src", "x_dst", "e_dst"}
  \/ pc[m] \in WaitPc /\ (exp[m] \/ CanAcq(ScopeOfWait(pc[m]), KeyOf(m, ScopeOfWait(pc[m]))))
RetPc == {"r_ok", "r_fail", "r_rel", "r_panic"}
\* a caller held up at a yield point (Park) does not run until Unpark
Settled == \A m \in Msgs : m \in obs.yield \/ (~CanStep(m) /\ pc[m] \notin RetPc)
Ready == ~Eager \/ Settled

(* ---- API-visible steps ---------------------------------------------------- *)
Enter(m, l, a, op) ==
  /\ pc' = [pc EXCEPT ![m] = l]
  /\ arg' = [arg EXCEPT ![m] = a]
  /\ exp' = [exp EXCEPT ![m] = FALSE]
  /\ age' = [age EXCEPT ![m] = 0]
  /\ res' = [res EXCEPT ![m] = ""]
  /\ obs' = ObsCall(obs, m, op, a.ip, a.src, a.d)
  /\ UNCHANGED <<cfg, held, ops, sem, tab, fresh, extra, xfresh, phase>>

CallTakeMsg(m, ip, src) ==
  /\ phase = "run" /\ Ready /\ pc[m] = "idle" /\ ~held[m].msg /\ held[m].dst = {} /\ ops[m] > 0
  /\ Enter(m, "w_all", [ip |-> ip, src |-> src, d |-> ""], "TakeMsg")
  /\ hist' = H([a |-> "TakeMsg", m |-> m, ip |-> ip, src |-> src])
  /\ UNCHANGED devs

CallTakeDest(m, d) ==
  /\ phase = "run" /\ Ready /\ pc[m] = "idle" /\ (held[m].msg \/ m \in Probers) /\ d \notin held[m].dst
  /\ Enter(m, "t_dst", [arg[m] EXCEPT !.d = d], "TakeDest")
  /\ hist' = H([a |-> "TakeDest", m |-> m, d |-> d])
  /\ UNCHANGED devs

\* remote/connect.go:connectionForDomain: the message carries REQUIRETLS and the next hop
\* cannot satisfy it (no authenticated TLS / MX): the attempt is refused with 550 5.7.30
\* before the destination limit is touched
CallTakeDestRefused(m, d) ==
  /\ Remote /\ phase = "run" /\ Ready /\ pc[m] = "idle" /\ held[m].msg /\ d \notin held[m].dst
  /\ pc' = [pc EXCEPT ![m] = "r_fail"]
  /\ arg' = [arg EXCEPT ![m].d = d]
  /\ exp' = [exp EXCEPT ![m] = FALSE]
  /\ age' = [age EXCEPT ![m] = 0]
  /\ res' = [res EXCEPT ![m] = "refused"]
  /\ obs' = ObsCall(obs, m, "TakeDest", arg[m].ip, arg[m].src, d)
  /\ hist' = H([a |-> "TakeDest", m |-> m, d |-> d, reqtls |-> TRUE])
  /\ UNCHANGED <<cfg, held, ops, sem, tab, fresh, extra, xfresh, devs, phase>>

CallRelDest(m, d) ==
  /\ ~Remote /\ phase = "run" /\ Ready /\ pc[m] = "idle" /\ d \in held[m].dst
  /\ Enter(m, "x_dst", [arg[m] EXCEPT !.d = d], "RelDest")
  /\ hist' = H([a |-> "RelDest", m |-> m, d |-> d])
  /\ UNCHANGED devs

\* src2: the key the caller passes; the callers of the design pass the key they took
CallRelMsg(m, src2) ==
  /\ ~Remote /\ phase = "run" /\ Ready /\ pc[m] = "idle" /\ held[m].msg /\ held[m].dst = {}
  /\ src2 = arg[m].src \/ D("ReleaseOtherKey")
  /\ Enter(m, "x_all", [arg[m] EXCEPT !.src = src2, !.d = ""], "RelMsg")
  /\ hist' = H([a |-> "RelMsg", m |-> m, src |-> src2])
  /\ devs' = IF src2 = arg[m].src THEN devs ELSE devs \cup {"ReleaseOtherKey"}

\* endpoint/smtp/session.go:startDelivery: TakeMsg succeeded, then pipeline.Start refuses
\* the sender: ReleaseMsg under the same keys before startDelivery returns the error
PipeReject(m) ==
  /\ Endp /\ phase = "run" /\ m \notin obs.yield
  /\ pc[m] = "r_ok" /\ obs.pend[m].op = "TakeMsg"
  /\ Goto(m, "x_all") /\ Result(m, "rejected")
  /\ hist' = H([a |-> "PipeReject", m |-> m])
  /\ UNCHANGED <<cfg, arg, held, exp, age, ops, sem, tab, fresh, extra, xfresh, devs, phase, obs>>

\* endpoint/smtp/session.go:Mail: a second MAIL inside an open transaction (the pinned
\* go-smtp forwards it to the session).  Design: refused with 503, the sender the permits
\* were taken for stays; nothing about the limits changes.
NestedMail(m, src2) ==
  /\ Endp /\ phase = "run" /\ Ready /\ pc[m] = "idle" /\ held[m].msg
  /\ hist' = H([a |-> "NestedMail", m |-> m, src |-> src2])
  /\ UNCHANGED <<cfg, pc, arg, held, exp, age, res, ops, sem, tab, fresh, extra, xfresh, devs, phase, obs>>

\* remoteDelivery.Close / Abort / Commit: ReleaseDest for every connection of the
\* delivery (map order), then ReleaseMsg
CallEnd(m) ==
  /\ Remote /\ phase = "run" /\ Ready /\ pc[m] = "idle" /\ held[m].msg
  /\ Enter(m, "e_dst", [arg[m] EXCEPT !.d = ""], "End")
  /\ hist' = H([a |-> "End", m |-> m])
  /\ UNCHANGED devs

EndDst(m) ==
  /\ pc[m] = "e_dst"
  /\ IF held[m].dst = {}
     THEN Goto(m, "x_all") /\ UNCHANGED <<held, sem, res>>
     ELSE \E d \in held[m].dst :
            IF ~Present("dest") \/ BRelOK(sem, "dest", d)
            THEN /\ sem' = (IF Present("dest") THEN BRel(sem, "dest", d) ELSE sem)
                 /\ held' = [held EXCEPT ![m].dst = @ \ {d}]
                 /\ UNCHANGED <<pc, res>>
            ELSE UNCHANGED <<sem, held>> /\ Goto(m, "r_panic") /\ Result(m, "mismatch")
  /\ NoTable /\ UNCHANGED <<cfg, arg, exp, age, ops, devs, phase, obs, hist>>

\* remote/connect.go:connectionForDomain: the next hop refuses MAIL after TakeDest
\* succeeded.  The connection is closed and not recorded in the delivery.  Design: the
\* permit goes back right there.  Code: nothing releases it (Close only walks the
\* recorded connections).
MailReject(m, d) ==
  \* an event of the environment: as a scripted step (Gen) it is taken at settled points only;
  \* on the real code it may well happen while another delivery is still inside its End
  /\ Remote /\ phase = "run" /\ (Ready \/ ~Gen) /\ pc[m] = "idle" /\ d \in held[m].dst
  /\ held' = [held EXCEPT ![m].dst = @ \ {d}]
  /\ IF D("MailRejectNoRelease") /\ Present("dest")
     THEN UNCHANGED sem /\ devs' = devs \cup {"MailRejectNoRelease"}
     ELSE /\ ~Present("dest") \/ BRelOK(sem, "dest", d)
          /\ sem' = (IF Present("dest") THEN BRel(sem, "dest", d) ELSE sem)
          /\ UNCHANGED devs
  /\ obs' = ObsMailReject(obs, m, d)
  /\ hist' = H([a |-> "MailReject", m |-> m, d |-> d])
  /\ UNCHANGED <<cfg, pc, arg, exp, age, res, ops, tab, fresh, extra, xfresh, phase>>

\* remote/remote.go:AddRcpt: the next hop refuses RCPT TO for the recipient that made the
\* delivery open the connection for domain d (TakeDest succeeded, MAIL was accepted, no
\* recipient of d has been accepted so far).  Design: nothing about the limits changes - the
\* connection stays part of the delivery and its permit goes back with all the others when
\* the delivery ends (End).  (Observation: from here on the message need not hold the permit
\* any more, see LimitsObs!ObsRcptReject.)
RcptReject(m, d) ==
  /\ Remote /\ phase = "run" /\ (Ready \/ ~Gen) /\ pc[m] = "idle"
  /\ d \in held[m].dst /\ arg[m].d = d /\ d \in obs.cm[m].dst
  /\ obs' = ObsRcptReject(obs, m, d)
  /\ hist' = H([a |-> "RcptReject", m |-> m, d |-> d])
  /\ UNCHANGED <<cfg, pc, arg, held, exp, age, res, ops, sem, tab, fresh, extra, xfresh, devs, phase>>

\* remote/remote.go:AddRcpt: a further recipient of a domain the delivery already has a
\* connection for, accepted (rej = FALSE) or refused (rej = TRUE) by the next hop: the
\* connection is reused, no limit operation at all.
MoreRcpt(m, d, rej) ==
  /\ Remote /\ phase = "run" /\ Ready /\ pc[m] = "idle" /\ d \in held[m].dst
  \* behaviour generation: once per delivery and domain is enough
  /\ ~\E i \in 1..Len(hist) : hist[i].a = "MoreRcpt" /\ hist[i].m = m /\ hist[i].d = d
  /\ hist' = H([a |-> "MoreRcpt", m |-> m, d |-> d, rej |-> rej])
  /\ UNCHANGED <<cfg, pc, arg, held, exp, age, res, ops, sem, tab, fresh, extra, xfresh, devs, phase, obs>>

RetVal(m) == IF pc[m] = "r_ok" \/ (pc[m] = "r_rel" /\ res[m] # "rejected") THEN "ok" ELSE res[m]
Return(m) ==
  /\ pc[m] \in RetPc /\ m \notin obs.yield
  /\ LET r == RetVal(m)
         op == obs.pend[m].op
         ends == (op = "TakeMsg" /\ r # "ok") \/ op = "RelMsg" \/ op = "End" IN
       /\ obs' = ObsRet(obs, m, r)
       /\ ops' = [ops EXCEPT ![m] = IF ends /\ pc[m] # "r_panic" THEN @ - 1 ELSE @]
       /\ pc' = [pc EXCEPT ![m] = IF pc[m] = "r_panic" THEN "crashed"
                                   ELSE IF ends /\ ops[m] = 1 THEN "done" ELSE "idle"]
       /\ held' = [held EXCEPT ![m] =
                     CASE pc[m] = "r_panic" -> @
                       [] op = "TakeMsg" /\ r = "ok" -> [@ EXCEPT !.msg = TRUE]
                       [] op = "TakeDest" /\ r = "ok" -> [@ EXCEPT !.dst = @ \cup {arg[m].d}]
                       [] op = "RelMsg" -> [@ EXCEPT !.msg = FALSE]
                       [] op = "End" -> [msg |-> FALSE, dst |-> {}]
                       [] op = "RelDest" -> [@ EXCEPT !.dst = @ \ {arg[m].d}]
                       [] OTHER -> @]
  /\ UNCHANGED <<cfg, arg, exp, age, res, sem, tab, fresh, extra, xfresh, devs, phase, hist>>

\* Scheduling dimension (scripted model): the goroutine of caller m is not scheduled for a
\* while right after the semaphore(s) of its bucket in scope s granted the permit and before
\* BucketSet.TakeContext / Group.TakeMsg go on (book-keeping, next scope, return).  Meanwhile
\* time may pass (Tick, Minute: the bucket's stamp goes stale although the bucket is in use)
\* and other callers may make the table reap.  For the design nothing changes: the permit is
\* taken (sem), so the bucket is in use.  One park per call, directly after the call.
ParkScope(m) ==
  LET op == obs.pend[m].op IN
  CASE pc[m] = "t_src" /\ Present("ip") -> {"ip"}
    [] pc[m] = "r_ok" /\ op = "TakeMsg" /\ Present("source") -> {"source"}
    [] pc[m] = "r_ok" /\ op = "TakeMsg" /\ Present("ip") -> {"ip"}
    [] pc[m] = "r_ok" /\ op = "TakeDest" /\ Present("dest") -> {"dest"}
    [] OTHER -> {}
Park(m, s) ==
  /\ ParkOK /\ Eager /\ ~Remote /\ ~Endp /\ phase = "run"
  /\ m \notin obs.yield /\ s \in ParkScope(m)
  /\ Gen => /\ hist # <<>> /\ hist[Len(hist)].a \in {"TakeMsg", "TakeDest"} /\ hist[Len(hist)].m = m
            /\ obs.yield = {}
  /\ obs' = ObsYield(obs, m)
  /\ hist' = H([a |-> "Park", m |-> m, s |-> s])
  /\ UNCHANGED <<cfg, pc, arg, held, exp, age, res, ops, sem, tab, fresh, extra, xfresh, devs, phase>>

Unpark(m) ==
  /\ ParkOK /\ phase = "run" /\ Ready /\ m \in obs.yield
  /\ obs' = ObsResume(obs, m)
  /\ hist' = H([a |-> "Unpark", m |-> m])
  /\ UNCHANGED <<cfg, pc, arg, held, exp, age, res, ops, sem, tab, fresh, extra, xfresh, devs, phase>>

\* the 5 s time-out of a call that waits on a full semaphore fires (interleaving model:
\* time is not tracked, any blocked call may expire)
Expire(m) ==
  /\ ~Eager /\ phase = "run"
  /\ pc[m] \in WaitPc /\ ~exp[m] /\ ~CanAcq(ScopeOfWait(pc[m]), KeyOf(m, ScopeOfWait(pc[m])))
  /\ exp' = [exp EXCEPT ![m] = TRUE]
  /\ UNCHANGED <<cfg, pc, arg, held, age, res, ops, sem, tab, fresh, extra, xfresh, devs, phase, obs, hist>>

\* scripted model (Eager): 2.5 s of logical time pass; a call that was already waiting
\* at the previous tick expires
Tick ==
  /\ Eager /\ phase = "run" /\ Ready /\ \E m \in Msgs : Pending(m) /\ ~exp[m]
  /\ exp' = [m \in Msgs |-> exp[m] \/ (Pending(m) /\ age[m] >= 1)]
  /\ age' = [m \in Msgs |-> IF Pending(m) THEN 1 ELSE 0]
  /\ hist' = H([a |-> "Tick"])
  /\ UNCHANGED <<cfg, pc, arg, held, res, ops, sem, tab, fresh, extra, xfresh, devs, phase, obs>>

\* more than the reap interval (1 min) passes: every bucket becomes stale, every
\* waiting call expires
CanOverflow(s) == Present(s) /\ (FillOK \/ Cardinality(KeysOf(s)) > cfg.mb + 1)
Minute ==
  /\ phase = "run" /\ Ready
  /\ (\E s \in BScopes : CanOverflow(s) /\ (fresh[s] # {} \/ xfresh[s] > 0)) \/ (Eager /\ ~Gen)
  /\ exp' = [m \in Msgs |-> exp[m] \/ Pending(m)]
  /\ age' = [m \in Msgs |-> IF Pending(m) THEN 1 ELSE 0]
  /\ fresh' = [s \in BScopes |-> {}]
  /\ xfresh' = [s \in BScopes |-> 0]
  /\ hist' = H([a |-> "Minute"])
  /\ UNCHANGED <<cfg, pc, arg, held, res, ops, sem, tab, extra, devs, phase, obs>>

\* bulk: distinct never-seen keys are taken and released one after the other until the
\* table of scope s holds mb+1 buckets (its hard capacity)
Fill(s) ==
  /\ FillOK /\ phase = "run" /\ Ready /\ Present(s) /\ s \in BScopes
  \* the bulk goes through TakeMsg/TakeDest: keep it to histories where it touches one table only
  /\ s = "ip" => ~Present("source")
  /\ s = "source" => ~Present("ip")
  /\ s # "dest" => \A m \in Msgs : ~held[m].msg
  /\ \A m \in Msgs : ~Pending(m)
  /\ Cardinality(tab[s]) + extra[s] <= cfg.mb
  /\ LET n == cfg.mb + 1 - (Cardinality(tab[s]) + extra[s]) IN
       /\ extra' = [extra EXCEPT ![s] = @ + n]
       /\ xfresh' = [xfresh EXCEPT ![s] = @ + n]
       /\ hist' = H([a |-> "Fill", s |-> s])
  /\ UNCHANGED <<cfg, pc, arg, held, exp, age, res, ops, sem, tab, fresh, devs, phase, obs>>

UseOf == [s \in Scopes |-> [k \in (IF s = "all" THEN {AllKey} ELSE tab[s]) |-> IF Cap(s) > 0 THEN sem[s][k] ELSE 0]]
NoSemOf == {<<s, k>> : s \in {x \in Scopes : Cap(x) = 0}, k \in Keys \cup {AllKey}}

AllOver == \A m \in Msgs : pc[m] \in {"done", "crashed"} \/ (pc[m] = "idle" /\ ~held[m].msg /\ held[m].dst = {})

Quiesce ==
  /\ ~Gen /\ phase = "run" /\ Settled /\ AllOver
  /\ phase' = "end"
  /\ obs' = ObsQuiesced(obs, UseOf, NoSemOf)
  /\ hist' = H([a |-> "Quiesced"])
  /\ UNCHANGED <<cfg, pc, arg, held, exp, age, res, ops, sem, tab, fresh, extra, xfresh, devs>>

\* behaviour generation (Gen): a state constraint that prints the script so far at every
\* quiescent point (every delivery has ended) and at every 5th settled point in between
\* (the harness then ends the open deliveries the way the callers do: waiting calls run
\* into their time-out, holders release)
Emit == IF Gen /\ Settled /\ hist # <<>> /\ hist[Len(hist)].a \notin {"Minute", "Fill"}
           /\ (AllOver \/ Len(hist) % 5 = 0)
        THEN PrintT(<<"BEH", ToJson([cfg |-> cfg, hist |-> hist])>>) ELSE TRUE

Next ==
  \/ \E m \in Msgs : Step(m) \/ Return(m)
  \/ \E m \in Msgs, ip \in IPs, src \in Srcs : CallTakeMsg(m, ip, src)
  \/ \E m \in Msgs, d \in Dsts : CallTakeDest(m, d) \/ CallRelDest(m, d) \/ MailReject(m, d)
                                  \/ CallTakeDestRefused(m, d) \/ RcptReject(m, d)
                                  \/ (\E rej \in BOOLEAN : MoreRcpt(m, d, rej))
  \/ \E m \in Msgs : CallEnd(m) \/ EndDst(m) \/ PipeReject(m)
  \/ \E m \in Msgs, src2 \in Srcs : CallRelMsg(m, src2) \/ NestedMail(m, src2)
  \/ Tick \/ Minute
  \/ \E m \in Msgs : Unpark(m) \/ (\E s \in BScopes : Park(m, s))
  \/ \E m \in Msgs : Expire(m)
  \/ \E s \in BScopes : Fill(s)
  \/ Quiesce
  \/ (phase = "end" /\ ~Gen /\ UNCHANGED vars)

Spec == Init /\ [][Next]_vars

(***************************************************************************)
(* Properties                                                              *)
(***************************************************************************)
\* C11 = none of the LimitsObs predicates ever fires ...
NoViolation == obs.viol = {}
\* ... also when the state is observed at every settled point (what the harness's
\* Snap events do on the real code)
SnapOK == Settled => ObsSnap(obs, UseOf, NoSemOf).viol = {}

\* the same statements directly over the design state
SemBound == \A s \in Scopes, k \in Keys \cup {AllKey} : cfg[s] > 0 => sem[s][k] <= cfg[s]
HoldBound == \A s \in Scopes, k \in Keys \cup {AllKey} : cfg[s] > 0 => obs.hold[s][k] <= cfg[s]
NoCrash == \A m \in Msgs : pc[m] # "crashed" /\ pc[m] # "r_panic"
NoMismatchedRelease == \A m \in Msgs : res[m] # "mismatch"
\* quiescent => all zero, and after the reap interval every key can be taken again N times
QuiescentFree ==
  phase = "end" =>
    /\ \A s \in Scopes, k \in Keys \cup {AllKey} : sem[s][k] = 0
    /\ \A s \in BScopes : Present(s) =>
         Cardinality(tab[s] \ ReapKeys(s, tab[s])) + extra[s] - XReap(extra[s]) <= cfg.mb
TypeOK ==
  /\ pc \in [Msgs -> {"idle", "done", "crashed", "w_all", "t_ip", "w_ip", "rb_a", "t_src", "w_src",
                      "rb_b1", "rb_b2", "t_dst", "w_dst", "x_all", "x_ip", "x_src", "x_dst", "e_dst"} \cup RetPc]
  /\ \A s \in Scopes, k \in Keys \cup {AllKey} : sem[s][k] \in 0..Cardinality(Msgs)
  /\ \A s \in BScopes : tab[s] \subseteq KeysOf(s) /\ fresh[s] \subseteq tab[s] /\ xfresh[s] <= extra[s]
=============================================================================
