-------------------------- MODULE DkimSelectTrace --------------------------
(***************************************************************************)
(* Code -> model for X19.  trace.ndjson holds one "Row" event per input    *)
(* row the harness (harness/dkimselectcheck) ran through the real          *)
(* modify.dkim (New, Init, ModStateForMsg, RewriteSender, RewriteBody,     *)
(* Close):                                                                 *)
(*   [t, seq, e |-> "Row", in |-> <row of DkimSelect.tla>, out |-> <what   *)
(*    Init answered, which key files it made, what RewriteBody returned    *)
(*    and did to the header: tags of the signature, which configured key   *)
(*    verifies it (independent verifier), everything else untouched>]      *)
(* For every row TLC evaluates the predicates of DkimSelect on the         *)
(* recorded output (viol = names of the false ones), compares it with the  *)
(* procedure (drift) and lists the sets of open deviations whose as-is     *)
(* procedure reproduces it exactly (devs).                                 *)
(***************************************************************************)
EXTENDS DkimSelect

CONSTANT OpenDevs

Rows == ndJsonDeserialize("trace.ndjson")

InOf(r) == [tab |-> r.in.tab, c |-> r.in.c, m |-> r.in.m]
\* the row must be a row of the specification, transported unchanged (strings included)
KnownRow(r) == InOf(r) \in Inputs /\ r.in.x = Conc(InOf(r))
DevSets == (SUBSET OpenDevs) \ {{}}
Drift(r) == Proj(InOf(r), r.out) # Rule(InOf(r))
ViolOf(r) == IF KnownRow(r) THEN Viol(InOf(r), Proj(InOf(r), r.out)) ELSE {"UnknownRow"}
Bad(r) == ViolOf(r) # {} \/ Drift(r)
RowVerdict(r) == [t |-> r.t, drift |-> Drift(r), driftAt |-> r.seq, viol |-> ViolOf(r),
                  devs |-> IF KnownRow(r) THEN Explains(DevSets, InOf(r), r.out) ELSE {}]

Eval ==
  LET bad == {k \in 1..Len(Rows) : Bad(Rows[k])} IN
    [n |-> Len(Rows), accepted |-> Len(Rows) - Cardinality(bad),
     verdicts |-> {RowVerdict(Rows[k]) : k \in bad}]

TInit == in = <<>> /\ st = St0 /\ TLCSet(1, Eval)
TNext == UNCHANGED vars
TSpec == TInit /\ [][TNext]_vars

Post == PrintT(<<"VERDICTS", ToJson(TLCGet(1))>>)
=============================================================================
