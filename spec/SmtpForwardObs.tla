--------------------------- MODULE SmtpForwardObs ---------------------------
(***************************************************************************)
(* Observation state and property predicates of extension X20: the        *)
(* target.smtp / target.lmtp forwarder AS CONFIGURED - endpoint selection,*)
(* TLS / authentication policy and connection life-cycle.                  *)
(*                                                                         *)
(* Everything here is a pure function of                                   *)
(*  - the configuration and the behaviour of the configured next hops     *)
(*    (`c`, the Cfg record of a behaviour):                               *)
(*      kind  "smtp" | "lmtp"                 (module name)               *)
(*      schs  Seq of "tcp" | "tls" | "unix"   (targets, in the order given)*)
(*      outs  Seq, how endpoint i behaves when a connection is set up:    *)
(*            "refuse" nothing listens; "gdrop" closed before the greeting;*)
(*            "g4" / "g5" greeting 421 / 554; "notls" no STARTTLS offered;*)
(*            "stls4" STARTTLS answered 454; "hsfail" the TLS handshake   *)
(*            breaks; "badcert" certificate of an unknown CA; "up"        *)
(*      stls  the STARTTLS directive: "dflt" (none) | "yes" | "no"        *)
(*            (`starttls`) | "ayes" | "ano" (`attempt_starttls`)          *)
(*      rtls  `require_tls`: "none" | "yes"                               *)
(*      auth  "off" | "plain" | "forward" | "external"                    *)
(*      src   source session: "auth" (user and password known) | "nopass" *)
(*            (user without password) | "anon" | "noconn" (no session)    *)
(*  - what was OBSERVED: connections accepted by the next hops (Conn),    *)
(*    every command they received with the state of the channel (tls),    *)
(*    the name / credentials it carried (a) and the reply given (r), the  *)
(*    class of the error every call of the delivery returned, and the     *)
(*    number of connections the target left open at the end.              *)
(* Nothing refers to the step machine of SmtpForward.tla; the same        *)
(* operators fold `obs` in the design spec and in SmtpForwardTrace.tla.   *)
(***************************************************************************)
EXTENDS Naturals, Sequences, FiniteSets

TempOuts == {"refuse", "g4"}                  \* must be reported temporary
PermOuts == {"g5"}                            \* must be reported permanent
FreeOuts == {"gdrop", "notls", "stls4", "hsfail", "badcert"}  \* locally generated / unclassified errors
FailOuts == TempOuts \cup PermOuts \cup FreeOuts
OutClass(o) == IF o \in TempOuts THEN "temp" ELSE IF o \in PermOuts THEN "perm" ELSE "free"
ReplyClass(r) == CASE r \in {"t4", "rej4"} -> "temp" [] r \in {"p5", "rej5", "noauth"} -> "perm" [] OTHER -> "free"

N(c) == Len(c.schs)

\* docs/reference/targets/smtp.md:52-65: starttls default yes (no for target.lmtp); attempt_starttls is equivalent
StlsEff(c) == CASE c.stls = "dflt" -> c.kind = "smtp"
                [] c.stls \in {"yes", "ayes"} -> TRUE
                [] OTHER -> FALSE
\* the channel to endpoint i is protected by what the documentation of starttls / targets promises
TlsPromised(c, i) == c.schs[i] = "tls" \/ StlsEff(c)
\* ... or only by `require_tls yes`, which smtp.md:83-86 names as THE way to enforce TLS for auth
TlsByRequire(c, i) == ~TlsPromised(c, i) /\ c.rtls = "yes"

ExpCred(c) == CASE c.auth = "plain" -> "cfg" [] c.auth = "forward" -> "src" [] c.auth = "external" -> "ext" [] OTHER -> "none"
HasCreds(c) == c.auth # "forward" \/ c.src = "auth"

Payload == {"AUTH", "MAIL", "RCPT", "DATA", "BODY"}
Hellos  == {"EHLO", "LHLO", "HELO"}

ObsInit == [contacted |-> {},      \* endpoints that accepted a connection of this delivery
            refused   |-> {},      \* endpoints known to refuse connections (no event exists for them)
            past      |-> {},      \* endpoints whose set-up the target completed (AUTH or MAIL arrived)
            authok    |-> {},      \* endpoints that accepted an AUTH command
            mailat    |-> {},      \* endpoints that received MAIL
            mailok    |-> FALSE,   \* a MAIL command was accepted
            bodyat    |-> {},      \* endpoints that received message content
            quit      |-> {},      \* endpoints that received QUIT
            dead      |-> {},      \* endpoints that dropped the connection instead of a reply
            livecls   |-> "",      \* class of the refusal by a live server (AUTH / MAIL reply)
            started   |-> "no",    \* "no" | "ok" | "fail"
            finished  |-> FALSE,
            viol      |-> {}]

V(o, names) == [o EXCEPT !.viol = @ \cup names]
If(b, n) == IF b THEN {n} ELSE {}

\* silent fact: endpoint i refuses connections
ObsRefused(o, i) == [o EXCEPT !.refused = @ \cup {i}]

\* endpoint i accepted a connection
ObsConn(o, c, i) ==
  LET v == If(i \in o.contacted, "EndpointDialedTwice")
           \cup If(\E j \in o.contacted : j > i, "EndpointOutOfOrder")
           \cup If(\E j \in 1..(i-1) : j \notin o.contacted /\ j \notin o.refused, "EndpointSkipped")
           \cup If(o.past \ {i} # {}, "FallbackAfterLiveRefusal")
           \cup If(o.started # "no", "ConnectAfterStart")
  IN V([o EXCEPT !.contacted = @ \cup {i}], v)

\* endpoint i received a command (verb), channel state tls, a = name / credential class, r = reply given
ObsSrv(o, c, i, verb, tls, a, r) ==
  LET clear == verb \in Payload /\ ~tls
      v == If(verb \in Hellos /\ ((verb = "LHLO") # (c.kind = "lmtp")), "WrongHello")
           \cup If(verb \in Hellos /\ (a = "other" \/ (tls /\ a # "cfg")), "WrongHelloName")
           \cup If(clear /\ TlsPromised(c, i), "ClearTextDespiteTls")
           \cup If(clear /\ TlsByRequire(c, i), "ClearTextDespiteRequireTls")
           \cup If(verb = "AUTH" /\ c.auth = "off", "AuthWhenOff")
           \cup If(verb = "AUTH" /\ c.auth # "off" /\ a # ExpCred(c), "WrongCredentials")
           \cup If(verb \in {"AUTH", "MAIL"} /\ ~HasCreds(c), "ForwardWithoutCredentials")
           \cup If(verb = "MAIL" /\ c.auth # "off" /\ i \notin o.authok, "MailWithoutAuth")
           \cup If(verb \in {"MAIL", "BODY"} /\ (o.mailat \cup o.bodyat) \ {i} # {}, "SecondHandOver")
           \cup If(verb \in Payload /\ o.finished, "CommandAfterEnd")
      o1 == [o EXCEPT !.past    = IF verb \in {"AUTH", "MAIL"} THEN @ \cup {i} ELSE @,
                      !.authok  = IF verb = "AUTH" /\ r = "ok" THEN @ \cup {i} ELSE @,
                      !.mailat  = IF verb = "MAIL" THEN @ \cup {i} ELSE @,
                      !.mailok  = IF verb = "MAIL" /\ r = "ok" THEN TRUE ELSE @,
                      !.bodyat  = IF verb = "BODY" THEN @ \cup {i} ELSE @,
                      !.quit    = IF verb = "QUIT" THEN @ \cup {i} ELSE @,
                      !.dead    = IF r = "drop" THEN @ \cup {i} ELSE @,
                      !.livecls = IF verb \in {"AUTH", "MAIL"} /\ r # "ok" THEN ReplyClass(r) ELSE @]
  IN V(o1, v)

\* class the documentation / code comments demand of a failed Start ("free" = not constrained)
ExpStartClass(o, c) ==
  IF o.livecls # "" THEN o.livecls
  ELSE IF \E j \in 1..N(c) : c.outs[j] = "up" THEN (IF HasCreds(c) THEN "free" ELSE "perm")
  ELSE LET cl == {OutClass(c.outs[j]) : j \in 1..N(c)}
       IN IF cl = {"temp"} THEN "temp" ELSE IF cl = {"perm"} THEN "perm" ELSE "free"

\* Target.Start returned (cls = "ok" | "temp" | "perm")
ObsStartRet(o, c, cls) ==
  LET exp == ExpStartClass(o, c)
      v == If(cls = "ok" /\ ~o.mailok, "StartOkWithoutMail")
           \cup If(cls # "ok" /\ o.mailok, "StartFailedDespiteAccept")
           \cup If(cls # "ok" /\ o.past = {} /\ HasCreds(c)
                   /\ \E j \in 1..N(c) : j \notin o.contacted /\ c.outs[j] # "refuse", "GaveUpEarly")
           \cup If(cls # "ok" /\ o.past = {} /\ HasCreds(c) /\ \E j \in 1..N(c) : c.outs[j] = "up", "UsableEndpointNotUsed")
           \cup If(cls = "perm" /\ exp = "temp", "TempFailureReportedPermanent")
           \cup If(cls = "temp" /\ exp = "perm", "PermFailureReportedTemporary")
  IN V([o EXCEPT !.started = IF cls = "ok" THEN "ok" ELSE "fail"], v)

\* Commit / Abort returned
ObsFin(o, c, op) ==
  LET live == o.mailat
      v == If(op = "commit" /\ \E i \in live : i \notin o.dead /\ i \notin o.quit, "CommitWithoutQuit")
  IN V([o EXCEPT !.finished = TRUE], v)

\* end of the delivery: `open` connections were accepted by a next hop and never closed by the target
ObsEnd(o, open) == V(o, If(open > 0, "ConnectionLeftOpen"))
=============================================================================
