------------------------ MODULE SaslDelegateWireTrace ------------------------
(***************************************************************************)
(* Code -> model for X09 (Dovecot protocol, both ends).  trace.ndjson      *)
(* holds one "Row" event per behaviour of SaslDelegateWire.tla replayed    *)
(* against the real code: the lines the scripted peer sent (in) and what   *)
(* the real side did - lines received from it, in order, the calls of the  *)
(* credential backend, whether the process survived (out).  TLC folds the  *)
(* documented automaton over the script (Rule), evaluates the property     *)
(* predicates on the recorded output (viol), and lists the deviation sets  *)
(* of the open findings that reproduce the output exactly (devs).          *)
(***************************************************************************)
EXTENDS SaslDelegateWire

CONSTANT OpenDevs

Rows == ndJsonDeserialize("trace.ndjson")
tvars == <<in, ms, fin>>
DevSets == (SUBSET OpenDevs) \ {{}}
Bad(r) == Viol(r.in, r.out) # {} \/ ~SameOut(r.out, Rule(r.in))
Verdict(r) == [t |-> r.t, drift |-> ~SameOut(r.out, Rule(r.in)), driftAt |-> r.seq,
               viol |-> Viol(r.in, r.out), devs |-> Explains(DevSets, r.in, r.out)]
Eval ==
  LET bad == {k \in 1..Len(Rows) : Bad(Rows[k])} IN
    [n |-> Len(Rows), accepted |-> Len(Rows) - Cardinality(bad), verdicts |-> {Verdict(Rows[k]) : k \in bad}]
TInit == in = <<>> /\ ms = <<>> /\ fin = TRUE /\ TLCSet(1, Eval)
TNext == UNCHANGED tvars
TSpec == TInit /\ [][TNext]_tvars
Post == PrintT(<<"VERDICTS", ToJson(TLCGet(1))>>)
=============================================================================
