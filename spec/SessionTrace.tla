---------------------------- MODULE SessionTrace ----------------------------
(***************************************************************************)
(* Trace validation for Session.tla.  trace.ndjson holds the events        *)
(* recorded from the real endpoint (harness/sessioncheck), many traces     *)
(* concatenated; a "Cfg" event starts a new trace:                         *)
(*   Cfg   lmtp defer nt shape partial hold                                *)
(*   Cmd   v a r  all ip source   command taken from the wire, with the    *)
(*                                permits in use at that instant           *)
(*   Tgt   tgt att op r res st ts call on a scripted target and its result *)
(*   Reply code i                 reply put on the wire                    *)
(*   End   open all ip source     session over: open deliveries, permits   *)
(*   Crash                        the server process died                  *)
(*   Env   k res                  an event of the environment at the limits *)
(*                                group (wait | storm | peer+ | peer-)      *)
(*                                                                         *)
(* Every line is consumed either by the matching action of Session.tla    *)
(* with the logged arguments (conformance), or - when no design action    *)
(* can explain it - by the monitor-only step M_Step, which marks the      *)
(* trace as drifted and keeps folding `obs` with exactly the same         *)
(* SessionObs operators.  obs.viol therefore depends only on the recorded *)
(* events.  The verdict [t, drift, driftAt, viol, devs] of each trace is  *)
(* published in TLC register 1 when its final event is consumed; devs =   *)
(* the named deviations the conforming run went through.                  *)
(***************************************************************************)
EXTENDS Session

Trace == ndJsonDeserialize("trace.ndjson")

VARIABLES l,        \* next line of Trace
          drift,    \* the design could not explain some earlier line of this trace
          driftAt,  \* seq number of the first unexplained line (0 = none)
          tno       \* number of the current trace

tvars == <<vars, l, drift, driftAt, tno>>

Ev == Trace[l]
IsEv(e) == l <= Len(Trace) /\ Ev.e = e
Keep == l' = l + 1 /\ UNCHANGED <<drift, driftAt, tno>>
Final(e) == e \in {"End", "Crash"}

Publish(d, da, o, dv) ==
  TLCSet(1, TLCGet(1) \cup {[t |-> tno, drift |-> d, driftAt |-> da, viol |-> o.viol, devs |-> dv]})

TInit ==
  /\ InitWith([lmtp |-> FALSE, defer |-> TRUE, nt |-> 1, shape |-> "split", partial |-> FALSE, hold |-> FALSE])
  /\ l = 1 /\ drift = FALSE /\ driftAt = 0 /\ tno = 0
  /\ TLCSet(1, {})

TReset ==
  /\ IsEv("Cfg")
  /\ LET c == [lmtp |-> Ev.lmtp, defer |-> Ev.defer, nt |-> Ev.nt, shape |-> Ev.shape, partial |-> Ev.partial,
                hold |-> Ev.hold] IN
       cfg' = c /\ m' = MInit(c) /\ obs' = ObsInit(Ev.lmtp, Base(c))
  /\ nf' = 0 /\ ncmd' = 0
  /\ hist' = <<>>
  /\ l' = l + 1 /\ drift' = FALSE /\ driftAt' = 0 /\ tno' = Ev.t

PermitsMatch == Ev.all = m.all /\ Ev.ip = m.all /\ Ev.source = SrcTotal(m)

C_Cmd == /\ IsEv("Cmd") /\ PermitsMatch
         /\ [v |-> Ev.v, a |-> Ev.a, r |-> Ev.r] \in Cmds
         /\ CmdStep([v |-> Ev.v, a |-> Ev.a, r |-> Ev.r], FALSE)

C_Reply == /\ IsEv("Reply")
           /\ \/ ReplyStep(Ev.code)
              \/ Ev.i = m.lm.sent + 1 /\ LmReplyStep(Ev.code)
              \/ CrashReply(Ev.code)

C_Tgt ==
  /\ IsEv("Tgt") /\ Ev.tgt \in Targets(cfg)
  /\ \/ Ev.ts = "ok" /\
        CASE Ev.op = "start"  -> Ev.res \in Res /\ TStart(Ev.tgt, Ev.res)
          [] Ev.op = "rcpt"   -> Ev.res \in Res /\ TRcpt(Ev.tgt, Ev.r, Ev.res)
          [] Ev.op = "body"   -> Ev.res \in Res /\ (TBody(Ev.tgt, Ev.res) \/ TBodyL(Ev.tgt, Ev.res))
          [] Ev.op = "bodyNA" -> TBodyNA(Ev.tgt, Ev.st)
          [] Ev.op = "commit" -> Ev.res \in Res /\ TCommit(Ev.tgt, Ev.res)
          [] Ev.op = "abort"  -> Ev.res \in Res /\ TAbort(Ev.tgt, Ev.res)
          [] OTHER -> FALSE
     \/ Ev.ts = "closed" /\ Ev.op = "abort" /\ CrashAbort(Ev.tgt)

C_End == /\ IsEv("End") /\ PermitsMatch
         /\ \A t \in AllTargets : Ev.open[t] = obs.open[t]
         /\ EndStep

C_Crash == IsEv("Crash") /\ CrashStep

C_Env == IsEv("Env") /\ Ev.k \in EnvKinds /\ Ev.res = "ok" /\ EnvStep(Ev.k)

Conform == C_Cmd \/ C_Reply \/ C_Tgt \/ C_End \/ C_Crash \/ C_Env

C_Step ==
  /\ ~drift
  /\ Conform
  /\ Keep
  /\ IF Final(Ev.e) THEN Publish(FALSE, 0, obs', m'.devs) ELSE TRUE

(* the observation fold, independent of the design state *)
ObsApply(o, e) ==
  CASE e.e = "Cmd"   -> ObsCmd(ObsPermits(o, e.all, e.ip, e.source), e.v, e.a, e.r)
    [] e.e = "Reply" -> ObsReply(o, e.code)
    [] e.e = "Tgt"   -> ObsTgt(o, e.tgt, e.op, e.r, e.res, e.st, e.ts)
    [] e.e = "End"   -> ObsHeld(ObsEnd(o, e.open, e.all, e.ip, e.source),
                                IF "held" \in DOMAIN e THEN e.held ELSE "none")
    [] e.e = "Crash" -> ObsCrash(o)
    [] e.e = "Env"   -> IF e.res = "ok" THEN ObsEnv(o, e.k) ELSE o
    [] OTHER -> o

M_Step ==
  /\ l <= Len(Trace) /\ Ev.e # "Cfg"
  /\ (drift \/ ~ENABLED Conform)
  /\ drift' = TRUE
  /\ driftAt' = IF drift THEN driftAt ELSE Ev.seq
  /\ obs' = ObsApply(obs, Ev)
  /\ l' = l + 1
  /\ UNCHANGED <<cfg, m, nf, ncmd, hist, tno>>
  /\ IF Final(Ev.e) THEN Publish(TRUE, driftAt', obs', m.devs) ELSE TRUE

TNext == TReset \/ C_Step \/ M_Step
TSpec == TInit /\ [][TNext]_tvars

Post == PrintT(<<"VERDICTS", ToJson(TLCGet(1))>>)
=============================================================================
