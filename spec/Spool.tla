------------------------------- MODULE Spool -------------------------------
(***************************************************************************)
(* C10: what the queue hands to the downstream target is what it accepted *)
(* (header, body, sender, pending recipients, SMTPUTF8, REQUIRETLS, the   *)
(* TLS-Required override, the original-recipient map) on the first        *)
(* attempt, on retries and after restarts; nothing the client             *)
(* authenticated with reaches the spool.                                  *)
(*                                                                         *)
(* A message is a record of abstract shapes (feature classes of header,   *)
(* body and envelope; the harness concretises them to bytes).  Its life:  *)
(* Accept (Start, AddRcpt*, the endpoint sets the override flag on the    *)
(* shared metadata object, Body = store, Commit), then attempts and clean *)
(* restarts in any order.  The first attempt after Commit uses the        *)
(* in-memory copy, every later one (and every one after a restart) what   *)
(* is on disk: store and reload are modelled as explicit steps with named *)
(* deviations.                                                             *)
(*   "DropOverrideAtStart" the queue copies the metadata at Start and so  *)
(*                         misses the flag the endpoint sets afterwards   *)
(*   "DropFlagOnReload"    a flag is not (de)serialised                   *)
(*   "SerializeConn"       connection state incl. credentials is written  *)
(*   "TruncateHugeHeader"  the reloaded header is cut at a size limit     *)
(*   "AllRcptsOnRetry"     all original recipients are handed on retry    *)
(*   "BounceRewritesEnvelope" generating a failure report changes the     *)
(*                         stored sender (what later attempts hand over)  *)
(*   "SwallowCopyError"    a body that cannot be read completely is       *)
(*                         stored (truncated) and the message accepted    *)
(*   "BodyFromSource"      the first attempt reads the buffer the source   *)
(*                         handed to Body instead of the spooled copy      *)
(*   "EnvelopeFromHeader"  a reloaded message gets envelope information    *)
(*                         (the TLS-Required override) re-derived from its *)
(*                         stored header                                   *)
(* The source's body buffer is only valid until the transaction is over:  *)
(* the environment (the harness) overwrites / removes it as soon as Commit *)
(* has returned, so a hand-over that still reads it sees "srcgone".  The   *)
(* header shape "envlike" carries fields that spell envelope information   *)
(* differently from the envelope (a second TLS-Required field saying No    *)
(* below one that does not, Return-Path, Delivered-To, To/Cc/Bcc with      *)
(* other addresses).  CrashRestart is an abrupt stop after acceptance and  *)
(* before the first attempt: the in-memory copy is gone, the first         *)
(* hand-over comes from the disk.                                          *)
(* An attempt delivers a set D and fails a set P permanently (a failure   *)
(* report is generated for P when P is not empty: the queue runs with a   *)
(* bounce pipeline); the rest fails temporarily and stays pending.        *)
(* The body shape "faulty" is a buffer whose reader fails half-way: the   *)
(* queue must refuse the message (AcceptRefused), it never hands it over. *)
(***************************************************************************)
EXTENDS Naturals, Sequences, FiniteSets, TLC, Json

CONSTANTS Rcpts, HdrShapes, BodyShapes, Senders, Auths, MaxSteps, MaxRestarts, Devs, Gen

VARIABLES msg,      \* accepted message: [hdr, body, sender, utf8, reqtls, tlsov, omap, auth]
          mem,      \* what the next attempt will hand (in memory) or "none" -> read disk
          disk,     \* what is stored: same record + pending, + conn ("none" | "creds")
          pending,  \* recipients still to deliver (truth)
          phase,    \* "new" "queued" "done"
          steps, restarts,
          obs, hist
vars == <<msg, mem, disk, pending, phase, steps, restarts, obs, hist>>
View == <<msg, mem, disk, pending, phase, steps, restarts, obs>>

None == [k |-> "none"]
Rec(m, p, conn) == [k |-> "rec", m |-> m, pending |-> p, conn |-> conn]

Msgs == [hdr : HdrShapes, body : BodyShapes, sender : Senders, utf8 : BOOLEAN, reqtls : BOOLEAN,
         tlsov : BOOLEAN, omap : BOOLEAN, auth : Auths]

H(e) == IF Gen THEN Append(hist, e) ELSE hist
V(o, c, name) == IF c THEN o ELSE [o EXCEPT !.viol = @ \cup {name}]

(* ---- observation: pure functions of what the target and the spool scan saw ---- *)
ObsInit == [viol |-> {}, accepted |-> None, delivered |-> {}]
ObsAccept(o, m, rc) == [o EXCEPT !.accepted = Rec(m, rc, "none")]
\* handed: [m (as seen by the target), rcpts (set handed)]
ObsHand(o, hm, rc) ==
  LET a == o.accepted.m
      o1 == V(o, hm.hdr = a.hdr, "HeaderChanged")
      o2 == V(o1, hm.body = a.body, "BodyChanged")
      o3 == V(o2, hm.sender = a.sender, "SenderChanged")
      o4 == V(o3, hm.utf8 = a.utf8 /\ hm.reqtls = a.reqtls, "MailOptionChanged")
      o5 == V(o4, hm.tlsov = a.tlsov, "TLSOverrideChanged")
      o6 == V(o5, hm.omap = a.omap, "OriginalRcptMapChanged")
      o7 == V(o6, rc = o.accepted.pending \ o.delivered, "WrongRecipientsHanded")
  IN o7
ObsDelivered(o, S) == [o EXCEPT !.delivered = @ \cup S]
ObsScan(o, tainted) == V(o, ~tainted, "CredentialsInSpool")

(* ---- the design ------------------------------------------------------------- *)
Init ==
  /\ msg \in Msgs
  /\ mem = None /\ disk = None /\ pending = Rcpts /\ phase = "new"
  /\ steps = 0 /\ restarts = 0
  /\ obs = ObsInit /\ hist = <<>>

Cut(m) == [m EXCEPT !.body = IF @ = "faulty" THEN "truncated" ELSE @]   \* (only under SwallowCopyError)
Stored(m) ==   \* what serialisation keeps
  [m EXCEPT !.tlsov = IF "DropFlagOnReload" \in Devs THEN FALSE ELSE @]
Conn(m) == IF "SerializeConn" \in Devs /\ m.auth = "auth-trace" THEN "creds" ELSE "none"

AcceptRefused ==
  /\ phase = "new" /\ msg.body = "faulty" /\ "SwallowCopyError" \notin Devs
  /\ phase' = "done"
  /\ hist' = H([a |-> "AcceptRefused"])
  /\ UNCHANGED <<msg, mem, disk, pending, steps, restarts, obs>>

\* what a reader of the source's buffer sees once the source is done with it
SrcGone(m) == [m EXCEPT !.body = IF @ = "empty" THEN @ ELSE "srcgone"]

Accept ==
  /\ phase = "new" /\ (msg.body # "faulty" \/ "SwallowCopyError" \in Devs)
  /\ LET m0 == IF "DropOverrideAtStart" \in Devs THEN [msg EXCEPT !.tlsov = FALSE] ELSE msg IN
       /\ mem' = Rec(IF "BodyFromSource" \in Devs THEN SrcGone(Cut(m0)) ELSE Cut(m0), Rcpts, "none")
       /\ disk' = Rec(Stored(Cut(m0)), Rcpts, Conn(msg))
  /\ phase' = "queued"
  /\ obs' = ObsScan(ObsAccept(obs, msg, Rcpts), disk'.conn = "creds")
  /\ hist' = H([a |-> "Accept"])
  /\ UNCHANGED <<msg, pending, steps, restarts>>

Reloaded(d) ==
  [d EXCEPT !.m.hdr = IF "TruncateHugeHeader" \in Devs /\ @ = "huge" THEN "truncated" ELSE @,
            !.m.tlsov = IF "EnvelopeFromHeader" \in Devs /\ d.m.hdr = "envlike" THEN TRUE ELSE @]

\* one attempt: delivers the set D of the pending recipients, fails the set P permanently (a failure
\* report for P is handed to the bounce pipeline), the rest fails temporarily
Attempt(D, P) ==
  /\ phase = "queued" /\ steps < MaxSteps /\ D \subseteq pending /\ P \subseteq pending \ D
  /\ LET src == IF mem.k = "rec" THEN mem ELSE Reloaded(disk)
         rc  == IF "AllRcptsOnRetry" \in Devs /\ mem.k = "none" THEN Rcpts ELSE src.pending
         np  == pending \ (D \cup P)
         bounced(m) == IF "BounceRewritesEnvelope" \in Devs /\ P # {} /\ m.sender = "idn" /\ ~m.utf8
                       THEN [m EXCEPT !.sender = "idn-alabel"] ELSE m
     IN /\ obs' = ObsScan(ObsDelivered(ObsHand(obs, src.m, rc), D \cup P), disk.conn = "creds")
        /\ pending' = np
        /\ mem' = None
        /\ disk' = IF np = {} THEN None ELSE [disk EXCEPT !.pending = np, !.m = bounced(@)]
        /\ phase' = IF np = {} THEN "done" ELSE "queued"
  /\ steps' = steps + 1
  /\ hist' = H([a |-> "Attempt", d |-> D, p |-> P])
  /\ UNCHANGED <<msg, restarts>>

Restart ==
  /\ phase = "queued" /\ restarts < MaxRestarts /\ steps < MaxSteps
  /\ mem.k = "none"     \* a clean stop waits for the first attempt (only a crash loses it: C02)
  /\ mem' = None
  /\ restarts' = restarts + 1 /\ steps' = steps + 1
  /\ hist' = H([a |-> "Restart"])
  /\ UNCHANGED <<msg, disk, pending, phase, obs>>

\* abrupt stop between acceptance and the first attempt (at most once: mem is only set by Accept)
CrashRestart ==
  /\ phase = "queued" /\ mem.k = "rec"
  /\ mem' = None
  /\ hist' = H([a |-> "Crash"])
  /\ UNCHANGED <<msg, disk, pending, phase, steps, restarts, obs>>

Emit ==
  /\ phase \in {"done"} \/ (phase = "queued" /\ steps = MaxSteps)
  /\ phase' = "end"
  /\ hist' = H([a |-> "End"])
  /\ IF Gen THEN PrintT(<<"BEH", ToJson([msg |-> msg, hist |-> hist'])>>) ELSE TRUE
  /\ UNCHANGED <<msg, mem, disk, pending, steps, restarts, obs>>

Next ==
  \/ Accept \/ AcceptRefused \/ Restart \/ CrashRestart \/ Emit
  \/ \E D \in SUBSET Rcpts : \E P \in SUBSET (Rcpts \ D) : Attempt(D, P)
  \/ (phase = "end" /\ ~Gen /\ UNCHANGED vars)

Spec == Init /\ [][Next]_vars
NoViolation == obs.viol = {}
=============================================================================
