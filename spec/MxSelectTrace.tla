--------------------------- MODULE MxSelectTrace ---------------------------
(***************************************************************************)
(* Trace validation for MxSelect.tla (extension X16).  trace.ndjson holds *)
(* events recorded from the real remote.Target driven by                  *)
(* harness/mxselectcheck against a scripted DNS server and scripted MX    *)
(* hosts; many traces concatenated, a "Cfg" event starts a new trace and  *)
(* carries the environment facts of the behaviour.                        *)
(*                                                                         *)
(* Events:  Start(m)                    driver, before Target.Start       *)
(*          Rcpt(lp, dom)               driver, before AddRcpt            *)
(*          Q(dom, form, qt)            DNS server, question arrived      *)
(*          Dial(host, out, c)          dialer, the target dials a host   *)
(*          Srv(st = mail|rcpt|data..)  MX host, command / content arrived*)
(*          Ret(lp, dom, cls)           driver, AddRcpt returned          *)
(*          Body, BodyRet(st)           driver, BodyNonAtomic             *)
(*          Fin(op)                     driver, Commit / Abort returned   *)
(*          End(open)                   driver, after Target.Close        *)
(*                                                                         *)
(* Every line is consumed either by the matching action of MxSelect.tla   *)
(* with the logged arguments (C_Step; silent design steps in between), or *)
(* - when the design cannot explain it - by the monitor-only step M_Step, *)
(* which marks the trace as drifted and keeps folding `obs` with the same *)
(* MxSelectObs operators.  obs.viol therefore depends only on the         *)
(* recorded events.                                                        *)
(***************************************************************************)
EXTENDS MxSelect

Trace == ndJsonDeserialize("trace.ndjson")

VARIABLES l, drift, driftAt, tno

tvars == <<vars, l, drift, driftAt, tno>>

Ev == Trace[l]
IsEv(e) == l <= Len(Trace) /\ Ev.e = e

Publish(d, da, o, tk) ==
  TLCSet(1, TLCGet(1) \cup {[t |-> tno, drift |-> d, driftAt |-> da, viol |-> o.viol, taken |-> tk]})

TInit ==
  /\ Init
  /\ l = 1 /\ drift = FALSE /\ driftAt = 0 /\ tno = 0
  /\ TLCSet(1, {})

FactOf(x) == [kind |-> x.kind, idn |-> x.idn,
              recs |-> [i \in 1..Len(x.recs) |-> [pref |-> x.recs[i].pref, host |-> x.recs[i].host, up |-> x.recs[i].up]]]

TReset ==
  /\ IsEv("Cfg")
  /\ facts' = [d \in Domains |-> IF d \in DOMAIN Ev.facts THEN FactOf(Ev.facts[d]) ELSE Unknown]
  /\ m' = 0 /\ pc' = "idle" /\ cur' = NoCur /\ asked' = FALSE /\ rem' = {} /\ cand' = NoConn /\ rcls' = ""
  /\ live' = NoneD /\ pool' = NoneD /\ nc' = [h \in HostIds |-> 0]
  /\ nr' = 0 /\ accd' = {} /\ body' = "no" /\ todo' = {} /\ dotr' = [d \in Domains |-> ""]
  /\ taken' = {} /\ obs' = ObsInit /\ hist' = <<>>
  /\ l' = l + 1 /\ drift' = FALSE /\ driftAt' = 0 /\ tno' = Ev.t

RS(x) == [lp |-> x.lp, dom |-> x.dom]
StOf(st) == [i \in 1..Len(st) |-> [lp |-> st[i].lp, dom |-> st[i].dom, cls |-> st[i].cls]]
RcptSet(l0) == {RS(l0[i]) : i \in 1..Len(l0)}

C_Start == IsEv("Start") /\ StartDelivery /\ m' = Ev.m
C_Rcpt  == IsEv("Rcpt") /\ BeginRcpt(RS(Ev), Unknown)
C_Q     == IsEv("Q") /\ Ask([dom |-> Ev.dom, form |-> Ev.form, qt |-> Ev.qt])
C_Dial  == IsEv("Dial") /\ \E i \in 1..3 : /\ Attempt(i, Ev.out)
                                           /\ i <= Len(Cands(facts, cur.dom)) /\ Cands(facts, cur.dom)[i].host = Ev.host
                                           /\ (Ev.out \in NoServer \/ nc'[Ev.host] = Ev.c)
C_Srv   == IsEv("Srv") /\
             \/ Ev.st = "mail" /\ Mail(Ev.r) /\ cand.host = Ev.host /\ cand.c = Ev.c
             \/ Ev.st = "rcpt" /\ RcptCmd(Ev.r) /\ RS(Ev) = cur /\ live[cur.dom] = [host |-> Ev.host, c |-> Ev.c]
             \/ Ev.st = "data" /\ \E d \in Domains : /\ Data(d, Ev.r)
                                                     /\ live[d] = [host |-> Ev.host, c |-> Ev.c]
                                                     /\ RcptSet(Ev.rcpts) = Mine(d) /\ Len(Ev.rcpts) = Cardinality(Mine(d))
C_Ret   == IsEv("Ret") /\ Return(Ev.cls) /\ RS(Ev) = cur
C_Body  == IsEv("Body") /\ BodyStart
C_BRet  == IsEv("BodyRet") /\ BodyEnd(StOf(Ev.st))
C_Fin   == IsEv("Fin") /\ Finish(Ev.op)
C_End   == IsEv("End") /\ TargetClose /\ Ev.open = 0

Consume == C_Start \/ C_Rcpt \/ C_Q \/ C_Dial \/ C_Srv \/ C_Ret \/ C_Body \/ C_BRet \/ C_Fin \/ C_End
Conform == Consume \/ Silent

C_Step ==
  /\ ~drift
  /\ \/ /\ Consume
        /\ l' = l + 1
        /\ IF Ev.e = "End" THEN Publish(FALSE, 0, obs', taken') ELSE TRUE
     \/ Silent /\ UNCHANGED l
  /\ UNCHANGED <<drift, driftAt, tno>>

(* the observation fold, independent of the design state *)
ObsApply(o, e) ==
  CASE e.e = "Start"   -> ObsStart(o, e.m)
    [] e.e = "Rcpt"    -> ObsRcpt(o, RS(e))
    [] e.e = "Q"       -> ObsQ(o, facts, [dom |-> e.dom, form |-> e.form, qt |-> e.qt])
    [] e.e = "Dial"    -> ObsDial(o, facts, [host |-> e.host, out |-> e.out, c |-> e.c])
    [] e.e = "Srv"     -> (CASE e.st = "mail" -> ObsMail(o, [host |-> e.host, c |-> e.c, r |-> e.r])
                             [] e.st = "rcpt" -> ObsRcptCmd(o, [host |-> e.host, c |-> e.c, lp |-> e.lp, dom |-> e.dom, r |-> e.r])
                             [] e.st = "data" -> ObsData(o, [host |-> e.host, c |-> e.c, rcpts |-> RcptSet(e.rcpts), r |-> e.r])
                             [] OTHER -> o)
    [] e.e = "Ret"     -> ObsRet(o, facts, [lp |-> e.lp, dom |-> e.dom, cls |-> e.cls])
    [] e.e = "BodyRet" -> ObsBodyRet(o, StOf(e.st))
    [] e.e = "Fin"     -> ObsFin(o)
    [] e.e = "End"     -> ObsEnd(o, e.open)
    [] OTHER -> o

M_Step ==
  /\ l <= Len(Trace) /\ Ev.e # "Cfg"
  /\ (drift \/ ~ENABLED Conform)
  /\ drift' = TRUE
  /\ driftAt' = IF drift THEN driftAt ELSE Ev.seq
  /\ obs' = ObsApply(obs, Ev)
  /\ l' = l + 1
  /\ UNCHANGED <<facts, m, pc, cur, asked, rem, cand, rcls, live, pool, nc, nr, accd, body, todo, dotr, taken, hist, tno>>
  /\ IF Ev.e = "End" THEN Publish(TRUE, driftAt', obs', taken) ELSE TRUE

TNext == TReset \/ C_Step \/ M_Step
TSpec == TInit /\ [][TNext]_tvars

Post == PrintT(<<"VERDICTS", ToJson(TLCGet(1))>>)
=============================================================================
