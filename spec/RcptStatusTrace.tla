--------------------------- MODULE RcptStatusTrace ---------------------------
(***************************************************************************)
(* Trace validation for RcptStatus.tla.  trace.ndjson holds events        *)
(* recorded from the real remote.Target / target.lmtp driven against      *)
(* scripted next hops; a "Cfg" event starts a new trace.                   *)
(*                                                                         *)
(* Events:  Txn(rcpts, plan)        driver, before Start                   *)
(*          Ret(op, r, res)         driver, Start (lmtp) / AddRcpt returned*)
(*          Statuses(sts)           driver, after BodyNonAtomic returned:  *)
(*                                  what the recording collector was given *)
(*          TxnEnd                  driver, after Commit / Abort           *)
(*          End                                                            *)
(* Conforming steps take the action of RcptStatus.tla with the logged      *)
(* arguments; M_Step folds `obs` with the same RcptStatusObs operators     *)
(* when the design cannot explain a line.  `kviol` collects the violations *)
(* that arise in a Body step in which the enabled deviations change the    *)
(* statuses the design reports; only those can be a known finding.         *)
(***************************************************************************)
EXTENDS RcptStatus

Trace == ndJsonDeserialize("trace.ndjson")

VARIABLES l, drift, driftAt, tno, kviol

tvars == <<vars, l, drift, driftAt, tno, kviol>>

Ev == Trace[l]
IsEv(e) == l <= Len(Trace) /\ Ev.e = e

Publish(d, da, o, kv, dv) ==
  TLCSet(1, TLCGet(1) \cup {[t |-> tno, drift |-> d, driftAt |-> da, viol |-> o.viol,
                             kviol |-> kv, devs |-> dv]})

TInit ==
  /\ InitWith([kind |-> "remote", utf8 |-> TRUE])
  /\ l = 1 /\ drift = FALSE /\ driftAt = 0 /\ tno = 0 /\ kviol = {}
  /\ TLCSet(1, {})

TReset ==
  /\ IsEv("Cfg")
  /\ cfg' = [kind |-> Ev.kind, utf8 |-> Ev.utf8]
  /\ k' = 0 /\ pc' = "idle" /\ lst' = <<>> /\ plan' = <<>> /\ idx' = 0
  /\ acc' = EmptyD /\ used' = NoneD /\ touched' = NoneD /\ dead' = NoneD /\ pooled' = NoneD /\ rec' = EmptyD
  /\ devs' = {} /\ obs' = ObsInit /\ hist' = <<>>
  /\ l' = l + 1 /\ drift' = FALSE /\ driftAt' = 0 /\ tno' = Ev.t /\ kviol' = {}

C_Txn  == IsEv("Txn") /\ TxnStart(Ev.rcpts, Ev.plan)
C_Ret  == IsEv("Ret") /\ \/ Ev.op = "start" /\ LmtpStart(Ev.res)
                         \/ Ev.op = "addrcpt" /\ AddRcpt(Ev.r, Ev.res)
C_Sts  == IsEv("Statuses") /\ Body(Ev.sts)
C_TEnd == IsEv("TxnEnd") /\ TxnEnd
C_End  == IsEv("End") /\ Finish

Consume == C_Txn \/ C_Ret \/ C_Sts \/ C_TEnd \/ C_End
Conform == Consume \/ Silent

C_Step ==
  /\ ~drift
  /\ \/ /\ Consume
        /\ l' = l + 1
        /\ kviol' = IF Ev.e = "Statuses" /\ ~SameBag(Exp({}), Expected)
                    THEN kviol \cup (obs'.viol \ obs.viol) ELSE kviol
        /\ IF Ev.e = "End" THEN Publish(FALSE, 0, obs', kviol', devs') ELSE TRUE
     \/ Silent /\ UNCHANGED <<l, kviol>>
  /\ UNCHANGED <<drift, driftAt, tno>>

ObsApply(o, e) ==
  CASE e.e = "Txn"      -> ObsTxn(o, e.plan)
    [] e.e = "Ret"      -> IF e.op = "addrcpt" THEN ObsAddRcpt(o, e.r, e.res)
                           ELSE IF e.res # "ok" THEN ObsTxnEnd(o) ELSE o
    [] e.e = "Statuses" -> ObsStatuses(o, cfg.kind, e.sts)
    [] e.e = "TxnEnd"   -> ObsTxnEnd(o)
    [] e.e = "Panic"    -> ObsPanic(o)
    [] OTHER -> o

M_Step ==
  /\ l <= Len(Trace) /\ Ev.e # "Cfg"
  /\ (drift \/ ~ENABLED Conform)
  /\ drift' = TRUE
  /\ driftAt' = IF drift THEN driftAt ELSE Ev.seq
  /\ obs' = ObsApply(obs, Ev)
  /\ l' = l + 1
  /\ UNCHANGED <<cfg, k, pc, lst, plan, idx, acc, used, touched, dead, pooled, rec, devs, hist, tno, kviol>>
  /\ IF Ev.e = "End" THEN Publish(TRUE, driftAt', obs', kviol, devs) ELSE TRUE

TNext == TReset \/ C_Step \/ M_Step
TSpec == TInit /\ [][TNext]_tvars

Post == PrintT(<<"VERDICTS", ToJson(TLCGet(1))>>)
=============================================================================
