\* evaluates trace.ndjson (rows of the real code); OpenDevs = deviations of the open findings of extensions/findings.json
SPECIFICATION TSpec
CONSTANTS
  MaxRcpt = 2
  Full = TRUE
  Devs = {}
  Gen = FALSE
  Seed = 1
  RandN = 1
  OpenDevs = {"DialIgnoresFailOpen", "NilConnPanic", "QuarantineMasksReject", "ReplyCodeUnchecked"}
CHECK_DEADLOCK FALSE
POSTCONDITION Post
