\* as-is: with the code's deviations the rule's outcome must differ somewhere (AsIsDiffers violated)
SPECIFICATION Spec
CONSTANTS
  Devs = {"SubmissionTimeoutDefault", "TableInstanceName"}
  Gen = FALSE
INVARIANTS AsIsDiffers
CHECK_DEADLOCK FALSE
