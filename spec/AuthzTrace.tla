----------------------------- MODULE AuthzTrace -----------------------------
(***************************************************************************)
(* Row validation for Authz.tla.  trace.ndjson holds one "Row" event per   *)
(* input row the real code was run on:                                     *)
(*   [t, seq, e |-> "Row", via, in |-> <row of Authz.tla>,                 *)
(*    out |-> [accepted, flagged, stage, code]]                            *)
(* via = "direct":   check.authorize_sender CheckSender + CheckBody         *)
(* via = "endpoint": AUTH, MAIL, RCPT, DATA on the real endpoint           *)
(*                                                                         *)
(* Per row: Prop(in, out) false  -> the property is violated by the code;  *)
(* devs = the smallest set of enabled deviations under which Rule gives    *)
(* the observed decision; drift = no such set (direct rows only: the       *)
(* endpoint adds checks of its own, so there only the property is judged). *)
(* Only rows that are not plainly accepted are listed in the verdict.      *)
(***************************************************************************)
EXTENDS Authz

Trace == ndJsonDeserialize("trace.ndjson")

Expl(S) == IF S = {} THEN {} ELSE {CHOOSE D \in S : \A E \in S : Cardinality(D) <= Cardinality(E)}

Verdict(e) ==
  LET ex == Expl({D \in SUBSET Devs : Rule(e.in, D).accepted = e.out.accepted
                                       /\ Rule(e.in, D).flagged = e.out.flagged})
      D  == IF ex = {} THEN {} ELSE CHOOSE d \in ex : TRUE
      dr == e.via = "direct" /\ ex = {}
  IN [t |-> e.t, drift |-> dr, driftAt |-> IF dr THEN e.seq ELSE 0,
      viol |-> IF Prop(e.in, e.out) THEN {} ELSE {"AcceptedNotEntitled"},
      devs |-> D, rule |-> Rule(e.in, {}).why]

Clean(v) == ~v.drift /\ v.viol = {} /\ v.devs = {}

All == [i \in 1..Len(Trace) |-> Verdict(Trace[i])]

Result == [n |-> Len(Trace),
           accepted |-> Cardinality({i \in 1..Len(Trace) : Trace[i].out.accepted}),
           bad |-> SelectSeq(All, LAMBDA v : ~Clean(v))]

TInit == in = [tbl |-> "-"] /\ TLCSet(1, Result)
TNext == UNCHANGED in
TSpec == TInit /\ [][TNext]_in

Post == PrintT(<<"VERDICTS", ToJson(TLCGet(1))>>)
=============================================================================
