\* as-is: the deviations of the unchanged tree switched on; NoViolation must be violated
SPECIFICATION Spec
CONSTANTS
  Full = FALSE
  Devs = {"RdnsNilPanic", "DupRcptSkipped", "RcptsKeepRefused", "NoDrain", "NoReap", "CodeZeroIgnored"}
  Gen = FALSE
INVARIANTS NoViolation
