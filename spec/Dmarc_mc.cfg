\* exhaustive enumeration of the input tables (quick: MaxDkim = 2, thorough: 3); lib/checks/c07.py
SPECIFICATION Spec
CONSTANTS
  MaxDkim = 2
  Devs = {}
  Gen = FALSE
INVARIANTS RuleSatisfiesProp PassIffAligned
CHECK_DEADLOCK FALSE
