--------------------------- MODULE TimeWheelTrace ---------------------------
(***************************************************************************)
(* Trace validation for TimeWheel.tla.  trace.ndjson holds API-level       *)
(* events recorded from the real, instrumented scheduler (harness/twcheck) *)
(* - many traces concatenated, each starting with a "Cfg" event.           *)
(*                                                                         *)
(* Every trace is read twice:                                              *)
(*  - monitor mode (drift = TRUE): a deterministic fold of the events with *)
(*    the TimeWheelObs operators only.  obs.viol of this fold is the       *)
(*    property verdict; it depends on nothing but the recorded events.     *)
(*  - conformance mode (drift = FALSE): "is this history explainable by    *)
(*    some interleaving of the design?"  An event is consumed by a step of *)
(*    the design whose effect on the observation state is exactly the      *)
(*    monitor's fold of that event (so the logged arguments are bound);    *)
(*    steps that leave the observation state alone are silent.  The        *)
(*    controller's choices ("Step" lines) say which process moved, what it *)
(*    did is searched by TLC.                                              *)
(* A trace whose conformance search dies before "End" is reported as drift *)
(* (first unexplained event = furthest line any path reached).             *)
(***************************************************************************)
EXTENDS TimeWheel

Trace == ndJsonDeserialize("trace.ndjson")
NTr == Cardinality({i \in 1..Len(Trace) : Trace[i].e = "Cfg"})

VARIABLES l,       \* next line of Trace
          drift,   \* TRUE: monitor mode
          tno, k   \* id / ordinal of the current trace

tvars == <<vars, l, drift, tno, k>>

Ev == Trace[l]
IsEv(e) == l <= Len(Trace) /\ Ev.e = e

\* When the retry of a failed attempt is due at the earliest: initial_retry_time * F(n) after the n-th attempt of
\* the message (queue.go: tryDelivery and, across a restart, readDiskQueue), F(n) = the whole part of
\* retry_time_scale ^ (n - 1): the code converts the factor to a whole number before it multiplies, and under
\* the weaker reading of C12 ("its scheduled time" = the time the queue itself scheduled) that is the
\* lower bound used here.  retry_time_scale is the rational snum / sden (Cfg line), so that everything stays
\* in integers; the harness chooses rd so that the untruncated delays are whole ticks as well.  The harness logs
\* the number of the attempt (att).  Older traces carry an integer scale, or the due time itself.
\* This is only the lower bound known when the attempt starts: the time the running queue really handed to its
\* wheel for the retry is observed afterwards (event WheelAdd, ObsWheel) and raises it.
Pw(b, x) == IF x <= 0 THEN 1 ELSE b ^ x
RetryDue(e) == IF "att" \in DOMAIN e /\ "snum" \in DOMAIN cfg
               THEN e.now + cfg.rd * (Pw(cfg.snum, e.att - 1) \div Pw(cfg.sden, e.att - 1))
               ELSE IF "att" \in DOMAIN e /\ "scale" \in DOMAIN cfg
               THEN e.now + cfg.rd * (cfg.scale ^ (e.att - 1)) ELSE e.ndue

ObsApply(o, e) ==
  CASE e.e = "AddCall"     -> ObsAddCall(o, e.p, e.ent, e.due)
    [] e.e = "AddReturn"   -> ObsAddReturn(o, e.p)
    [] e.e = "AddPanic"    -> ObsAddPanic(o, e.p)
    [] e.e = "CloseCall"   -> ObsCloseCall(o)
    [] e.e = "CloseReturn" -> ObsCloseReturn(ObsSpool(o, "close", ToSet(e.pending), ToSet(e.broken)))
    [] e.e = "Dispatch"    -> LET o1 == ObsDispatch(o, e.ent, e.now)
                              IN IF e.res = "temp" THEN ObsSched(o1, e.next, RetryDue(e))
                                 ELSE IF e.res = "panic" THEN ObsAttemptPanic(o1, e.m)
                                 ELSE ObsTerminal(o1, e.m)
    [] e.e = "Panic"       -> ObsPanic(o)
    [] e.e = "Restart"     -> ObsRestart(o, e.now, e.pid)
    [] e.e = "WheelAdd"    -> ObsWheel(o, e.ent, e.due)
    [] e.e = "End"         -> ObsEnd(ObsSpool(o, "end", ToSet(e.pending), ToSet(e.broken)), ToSet(e.hung), e.now)
    [] OTHER               -> o

Publish(d, o) ==
  TLCSet(1, TLCGet(1) \cup {[t |-> tno, k |-> k, drift |-> d, driftAt |-> 0, viol |-> o.viol, dev |-> Dev(o)]})
Reached(n) == TLCSet(2, [TLCGet(2) EXCEPT ![k] = IF @ < n THEN n ELSE @])

DummyCfg == [due |-> << >>, close |-> FALSE, retry |-> {}, par |-> 1, hdr |-> {}, panic |-> {}]

TInit ==
  /\ InitWith(DummyCfg)
  /\ l = 1 /\ drift = FALSE /\ tno = 0 /\ k = 0
  /\ TLCSet(1, {}) /\ TLCSet(2, [i \in 1..NTr |-> 0])

TReset ==
  /\ IsEv("Cfg")
  /\ LET c0 == [due |-> Ev.due, close |-> Ev.close, retry |-> ToSet(Ev.retry), par |-> Ev.par,
                hdr |-> ToSet(Ev.hdr), panic |-> ToSet(Ev.panic)]
         \* (rd, scale, snum, sden: only read by RetryDue; the design's actions do not look at them)
         c == IF "snum" \in DOMAIN Ev /\ "sden" \in DOMAIN Ev /\ "rd" \in DOMAIN Ev
              THEN [due |-> c0.due, close |-> c0.close, retry |-> c0.retry, par |-> c0.par, hdr |-> c0.hdr,
                    panic |-> c0.panic, rd |-> Ev.rd, snum |-> Ev.snum, sden |-> Ev.sden]
              ELSE IF "scale" \in DOMAIN Ev /\ "rd" \in DOMAIN Ev
              THEN [due |-> c0.due, close |-> c0.close, retry |-> c0.retry, par |-> c0.par, hdr |-> c0.hdr,
                    panic |-> c0.panic, rd |-> Ev.rd, scale |-> Ev.scale]
              ELSE c0 IN
       /\ cfg' = c /\ now' = 0
       /\ stopped' = FALSE /\ slots' = {} /\ updClosed' = FALSE /\ doneClosed' = FALSE
       /\ apc' = [p \in Adders |-> IF p \in DOMAIN c.due THEN "ab" ELSE "idle"]
       /\ cpc' = IF c.close THEN "c0" ELSE "none"
  /\ tpc' = "t0" /\ tnow' = 0 /\ closest' = None /\ timerAt' = 0
  /\ wpc' = [e \in Entries |-> "none"] /\ wdue' = [e \in Entries |-> 0]
  /\ wpanic' = [e \in Entries |-> FALSE]
  /\ sem' = 0 /\ semq' = <<>> /\ wg' = 0 /\ spool' = {} /\ broken' = {}
  /\ ended' = FALSE /\ obs' = ObsInit
  /\ UNCHANGED schedV
  /\ l' = l + 1 /\ tno' = Ev.t /\ k' = k + 1
  /\ drift' \in BOOLEAN
  /\ TLCSet(2, [TLCGet(2) EXCEPT ![k + 1] = IF @ < l + 1 THEN l + 1 ELSE @])

Visible == {"AddCall", "AddReturn", "AddPanic", "CloseCall", "CloseReturn", "Dispatch"}

\* "Step" lines are the controller's choices (which goroutine was released), logged as a
\* hint for this search; the monitor ignores them.  A goroutine woken inside a blocking
\* operation runs on without a choice of the controller (continuation).
HintStep ==
  CASE Ev.k = "a" -> Ev.n \in DOMAIN cfg.due /\ AdderStep(Ev.n)
    [] Ev.k = "c" -> CloserStep
    [] Ev.k = "t" -> TickStep
    [] Ev.k = "w" -> Ev.n \in Entries /\ WorkerStep(Ev.n)
    [] OTHER      -> \E e \in Entries : WorkerStep(e)

C_StepSilent ==
  /\ ~drift /\ IsEv("Step") /\ ~ended /\ ~ContPending
  /\ HintStep /\ UNCHANGED schedV
  /\ obs' = obs
  /\ l' = l + 1 /\ UNCHANGED <<drift, tno, k>>
  /\ Reached(l + 1)

C_StepVis ==
  /\ ~drift /\ IsEv("Step") /\ ~ended /\ ~ContPending
  /\ l + 1 <= Len(Trace) /\ Trace[l + 1].e \in Visible
  /\ HintStep /\ UNCHANGED schedV
  /\ obs' # obs /\ obs' = ObsApply(obs, Trace[l + 1])
  /\ (Trace[l + 1].e = "Dispatch" => Trace[l + 1].now = now)
  /\ l' = l + 2 /\ UNCHANGED <<drift, tno, k>>
  /\ Reached(l + 2)

C_Cont ==
  /\ ~drift /\ l <= Len(Trace) /\ Ev.e \in Visible /\ ~ended /\ ContPending
  /\ Cont /\ UNCHANGED schedV
  /\ obs' = ObsApply(obs, Ev)
  /\ (Ev.e = "Dispatch" => Ev.now = now)
  /\ l' = l + 1 /\ UNCHANGED <<drift, tno, k>>
  /\ Reached(l + 1)

C_Clock ==
  /\ ~drift /\ IsEv("Clock") /\ ~ended
  /\ ClockBody /\ now' = Ev.now
  /\ UNCHANGED schedV
  /\ l' = l + 1 /\ UNCHANGED <<drift, tno, k>>
  /\ Reached(l + 1)

\* The harness read the wheel of the running queue: a retry was handed over with this time.  The design's own
\* retry time (now + RetryDelay) is the lower bound already recorded, so on conforming code this leaves obs alone.
C_Wheel ==
  /\ ~drift /\ IsEv("WheelAdd") /\ ~ended
  /\ obs' = ObsApply(obs, Ev)
  /\ UNCHANGED <<cfg, now, wheelV, apc, cpc, tickV, workV, queueV, ended, schedV>>
  /\ l' = l + 1 /\ UNCHANGED <<drift, tno, k>>
  /\ Reached(l + 1)

C_End ==
  /\ ~drift /\ IsEv("End") /\ ~ended
  /\ ~ProcEnabled /\ ~ContPending
  /\ Ev.now = now /\ ToSet(Ev.pending) = spool /\ ToSet(Ev.broken) = broken
  /\ (ToSet(Ev.hung) = {}) = (Hung = {})
  /\ ended' = TRUE
  /\ obs' = ObsApply(obs, Ev)
  /\ UNCHANGED <<cfg, now, wheelV, apc, cpc, tickV, workV, queueV, schedV>>
  /\ l' = l + 1 /\ UNCHANGED <<drift, tno, k>>
  /\ Reached(l + 1)
  /\ Publish(FALSE, obs')

\* Restart on the same spool directory: the design spec describes one scheduler instance, so
\* conformance is decided on the first instance; the second one is folded by the monitor only.
C_Restart ==
  /\ ~drift /\ IsEv("Restart") /\ ~ended
  /\ ~ProcEnabled /\ ~ContPending /\ cpc = "done"
  /\ ended' = TRUE
  /\ obs' = ObsApply(obs, Ev)
  /\ UNCHANGED <<cfg, now, wheelV, apc, cpc, tickV, workV, queueV, schedV>>
  /\ l' = l + 1 /\ UNCHANGED <<drift, tno, k>>
  /\ Reached(l + 1)

C_Post ==
  /\ ~drift /\ ended /\ l <= Len(Trace) /\ Ev.e # "Cfg"
  /\ obs' = ObsApply(obs, Ev)
  /\ UNCHANGED <<cfg, now, wheelV, apc, cpc, tickV, workV, queueV, ended, schedV>>
  /\ l' = l + 1 /\ UNCHANGED <<drift, tno, k>>
  /\ Reached(l + 1)
  /\ IF Ev.e = "End" THEN Publish(FALSE, obs') ELSE TRUE

M_Step ==
  /\ drift /\ l <= Len(Trace) /\ Ev.e # "Cfg"
  /\ obs' = ObsApply(obs, Ev)
  /\ l' = l + 1
  /\ UNCHANGED <<cfg, now, wheelV, apc, cpc, tickV, workV, queueV, ended, schedV, drift, tno, k>>
  /\ IF Ev.e = "End" THEN Publish(TRUE, obs') ELSE TRUE

TNext == TReset \/ C_Restart \/ C_Post \/ C_Wheel \/ C_StepSilent \/ C_StepVis \/ C_Cont \/ C_Clock \/ C_End \/ M_Step
TSpec == TInit /\ [][TNext]_tvars

SeqAt(n) == IF n >= 1 /\ n <= Len(Trace) THEN Trace[n].seq ELSE 0
Post == PrintT(<<"VERDICTS", ToJson({[t |-> r.t, drift |-> r.drift,
                                      driftAt |-> IF r.drift THEN SeqAt(TLCGet(2)[r.k]) ELSE 0,
                                      viol |-> r.viol, dev |-> r.dev] : r \in TLCGet(1)})>>)
=============================================================================
