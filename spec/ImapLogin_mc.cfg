\* X18 exhaustive (reference; lib/checks/x18.py renders the same text)
SPECIFICATION Spec
CONSTANTS
  Tab = "all"
  Full = TRUE
  Devs = {}
  Gen = FALSE
INVARIANTS RuleSatisfiesProp AuthIndependentOfStorage NormalisedNamesDecide
CHECK_DEADLOCK FALSE
