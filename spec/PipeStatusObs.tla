---------------------------- MODULE PipeStatusObs ----------------------------
(***************************************************************************)
(* Observation state and predicates for per-recipient results reported by *)
(* the message pipeline (property C09, last sentence): results of         *)
(* rewritten recipients are reported under the addresses the client       *)
(* supplied.  Pure functions of                                            *)
(*   - the rewrite rules in force (rw: supplied address -> sequence of    *)
(*     effective addresses; configuration of the real replace_rcpt        *)
(*     modifier),                                                          *)
(*   - the addresses the client supplied and the pipeline accepted,       *)
(*   - the result the (scripted, per-recipient) target gave for each      *)
(*     effective address (st),                                             *)
(*   - the (address, result) pairs the pipeline handed to the collector   *)
(*     passed to its BodyNonAtomic.                                        *)
(***************************************************************************)
EXTENDS Naturals, Sequences, FiniteSets

Supplied == {"A", "B"}
Eff == {"A", "B", "C", "D"}

Count(s, x) == Cardinality({i \in 1..Len(s) : s[i] = x})
RECURSIVE SumLen(_, _, _)
SumLen(rw, lst, x) == IF lst = <<>> THEN 0
                      ELSE (IF Head(lst) = x THEN Len(rw[x]) ELSE 0) + SumLen(rw, Tail(lst), x)

ObsInit == [acc |-> <<>>, st |-> <<>>, n |-> 0, viol |-> {}]

V(o, c, name) == IF c THEN o ELSE [o EXCEPT !.viol = @ \cup {[p |-> name, m |-> o.n]}]

(* st = [st : Eff -> result,  per-recipient results of a partial target             *)
(*       atomic : BOOLEAN,    the target behind the pipeline has no BodyNonAtomic     *)
(*       body : result]       result of the atomic target's Body                      *)
ObsTxn(o, st) == [o EXCEPT !.acc = <<>>, !.st = st, !.n = @ + 1]
ObsAddRcpt(o, r, res) == IF res = "ok" THEN [o EXCEPT !.acc = Append(@, r)] ELSE o

ObsStatuses(o, rw, sts) ==
  LET keys == [i \in 1..Len(sts) |-> sts[i].k]
      accS == {o.acc[i] : i \in 1..Len(o.acc)}
      p == o.st
      o1 == V(o,  \A i \in 1..Len(sts) : sts[i].k \in accS, "StatusUnderForeignAddress")
      \* an atomic target that succeeded has nothing to report (a missing result means success)
      o2 == V(o1, (p.atomic /\ p.body = "ok") \/ \A x \in accS : Count(keys, x) >= 1, "SuppliedAddressNotCovered")
      o3 == V(o2, \A x \in accS : Count(keys, x) <= SumLen(rw, o.acc, x), "TooManyStatuses")
      o4 == V(o3, \A i \in 1..Len(sts) : sts[i].k \in accS =>
                     IF p.atomic THEN sts[i].v = p.body /\ p.body # "ok"
                     ELSE \E j \in 1..Len(rw[sts[i].k]) : sts[i].v = p.st[rw[sts[i].k][j]],
              "ResultOfAnotherRecipient")
  IN o4
=============================================================================
