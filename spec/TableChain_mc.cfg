\* reference configuration; lib/checks/x15.py generates the ones it runs
SPECIFICATION Spec
CONSTANTS
  MaxSteps = 2
  Devs = {}
  Gen = FALSE
INVARIANTS RuleSatisfiesProp
CHECK_DEADLOCK FALSE
