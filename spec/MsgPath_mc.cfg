SPECIFICATION Spec
CONSTANTS
  Rcpts = {"r1", "r2"}
  Rejected = {"r2"}
  MaxTries = 2
  Gen = FALSE
VIEW View
INVARIANT NoViolation
