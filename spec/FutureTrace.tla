----------------------------- MODULE FutureTrace -----------------------------
(***************************************************************************)
(* Trace validation for Future.tla.  trace.ndjson: events recorded from    *)
(* the real framework/future.Future, instrumented from the working tree    *)
(* and run under harness/vsched: Cfg, then one "Step" / "Cancel" per       *)
(* scheduling choice with the position of every goroutine afterwards (pcs) *)
(* and what the finished calls returned (res), then "End".  A line is      *)
(* consumed by the design action with these results, or by the monitor-    *)
(* only step (drift); the predicates of FutureObs.tla are folded over the  *)
(* recorded events either way.                                             *)
(***************************************************************************)
EXTENDS Future

Trace == ndJsonDeserialize("trace.ndjson")

VARIABLES l, drift, driftAt, tno

tvars == <<vars, l, drift, driftAt, tno>>

Ev1 == Trace[l]
IsEv(e) == l <= Len(Trace) /\ Ev1.e = e
Keep == l' = l + 1 /\ UNCHANGED <<drift, driftAt, tno>>

Publish1(d, da, o) == TLCSet(1, TLCGet(1) \cup {[t |-> tno, drift |-> d, driftAt |-> da, viol |-> o.viol, devs |-> {}]})

Rec(e) == IF e.e = "End" THEN [e |-> "End"]
          ELSE [e |-> e.e, g |-> e.g, pcs |-> [g \in Gs |-> e.pcs[g]], res |-> [g \in Gs |-> e.res[g]]]

TInit == Init /\ l = 1 /\ drift = FALSE /\ driftAt = 0 /\ tno = 0 /\ TLCSet(1, {})

TReset ==
  /\ IsEv("Cfg")
  /\ pc' = [g \in Gs |-> "start"] /\ res' = [g \in Gs |-> 0]
  /\ set' = FALSE /\ val' = 0 /\ closed' = FALSE /\ canc' = {} /\ ncanc' = 0 /\ done' = FALSE
  /\ last' = [a |-> "Cfg"] /\ obs' = ObsInit /\ hist' = <<>>
  /\ l' = l + 1 /\ drift' = FALSE /\ driftAt' = 0 /\ tno' = Ev1.t

Conform ==
  /\ l <= Len(Trace) /\ Ev1.e # "Cfg"
  /\ Act /\ last'.a = Ev1.e
  /\ (Ev1.e # "End" => (last'.g = Ev1.g /\ pc' = Rec(Ev1).pcs /\ res' = Rec(Ev1).res))

C_Step ==
  /\ ~drift /\ Conform
  /\ obs' = ObsEv(obs, Ev1.e, Rec(Ev1))
  /\ Keep
  /\ IF Ev1.e = "End" THEN Publish1(FALSE, 0, obs') ELSE TRUE

M_Step ==
  /\ l <= Len(Trace) /\ Ev1.e # "Cfg"
  /\ (drift \/ ~ENABLED Conform)
  /\ drift' = TRUE
  /\ driftAt' = IF drift THEN driftAt ELSE Ev1.seq
  /\ obs' = ObsEv(obs, Ev1.e, Rec(Ev1))
  /\ l' = l + 1
  /\ UNCHANGED <<dvars, last, hist, tno>>
  /\ IF Ev1.e = "End" THEN Publish1(TRUE, driftAt', obs') ELSE TRUE

TNext == TReset \/ C_Step \/ M_Step
TSpec == TInit /\ [][TNext]_tvars

Post == PrintT(<<"VERDICTS", ToJson(TLCGet(1))>>)
=============================================================================
