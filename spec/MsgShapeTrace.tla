--------------------------- MODULE MsgShapeTrace ---------------------------
(* Evaluates the C08 predicate of MsgShape.tla over the rows recorded from the real signer ->
   spool -> restart -> SMTP client -> next hop pipeline.  One verdict per row:
   viol = violated clauses; drift = the stage contract (bytes unchanged) was not kept although
   the signature survived. *)
EXTENDS MsgShape

Rows == ndJsonDeserialize("trace.ndjson")
Verdicts == { [t |-> Rows[i].t,
               drift |-> Rows[i].out.delivered /\ ~(Rows[i].out.hdrEqual /\ Rows[i].out.bodyEqual),
               driftAt |-> 0,
               viol |-> PropViol(Rows[i].in, Rows[i].out)] : i \in 1..Len(Rows) }
TInit == row = [k |-> "rows"] /\ PrintT(<<"VERDICTS", ToJson(Verdicts)>>)
TSpec == TInit /\ [][UNCHANGED row]_row
=============================================================================
