----------------------------- MODULE DaneTrace -----------------------------
(***************************************************************************)
(* Code -> model for C13.  trace.ndjson holds one "Row" event per input    *)
(* row the harness ran through the real verifyDANE / daneDelivery.CheckConn *)
(* (and, for lookup = "disc", the real discoverTLSA against a DNS server): *)
(*   [t, seq, e |-> "Row", in |-> <input of Dane.tla>, out |-> [auth,      *)
(*    refuse, temp, ...]]                                                   *)
(* For every row TLC evaluates the property predicates of Dane.tla on the  *)
(* recorded output (viol = names of the false ones) and compares it with   *)
(* the documented rule (drift).  Only rows that are not plainly accepted   *)
(* are listed; n / accepted are the counts.                                *)
(***************************************************************************)
EXTENDS Dane

Rows == ndJsonDeserialize("trace.ndjson")

tvars == <<in>>

OutOf(r) == [auth |-> r.out.auth, refuse |-> r.out.refuse, temp |-> r.out.temp]
Bad(r) == Viol(r.in, OutOf(r)) # {} \/ OutOf(r) # Rule(r.in)
Verdict(r) == [t |-> r.t, drift |-> OutOf(r) # Rule(r.in), driftAt |-> r.seq,
               viol |-> Viol(r.in, OutOf(r))]

Eval ==
  LET bad == {i \in 1..Len(Rows) : Bad(Rows[i])} IN
    [n |-> Len(Rows), accepted |-> Len(Rows) - Cardinality(bad),
     verdicts |-> {Verdict(Rows[i]) : i \in bad}]

TInit == in = <<>> /\ TLCSet(1, Eval)
TNext == UNCHANGED tvars
TSpec == TInit /\ [][TNext]_tvars

Post == PrintT(<<"VERDICTS", ToJson(TLCGet(1))>>)
=============================================================================
