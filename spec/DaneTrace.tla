----------------------------- MODULE DaneTrace -----------------------------
(***************************************************************************)
(* Code -> model for C13.  trace.ndjson holds one "Row" event per input    *)
(* row (history) the harness ran through the real mx_auth.dane code:       *)
(*   [t, seq, e |-> "Row", in |-> <input of Dane.tla: mode, rounds>,       *)
(*    out |-> [rounds |-> one [auth, refuse, temp, ...] per round]]         *)
(* A history of one round with an injected lookup outcome is the real      *)
(* verifyDANE / daneDelivery.CheckConn; rounds with lookup = "disc" are the *)
(* real PrepareConn (discoverTLSA against a DNS server) and CheckConn on    *)
(* ONE delivery object for all rounds of the history.                       *)
(* For every row TLC evaluates the property predicates of Dane.tla on each *)
(* observed round with that round's own records (viol = names of the false *)
(* ones) and compares the output with the documented rule (drift).  Only   *)
(* rows that are not plainly accepted are listed; n / accepted are counts. *)
(***************************************************************************)
EXTENDS Dane

Rows == ndJsonDeserialize("trace.ndjson")

tvars == <<in>>

OutOf(r) == [k \in DOMAIN r.out.rounds |->
               [auth |-> r.out.rounds[k].auth, refuse |-> r.out.rounds[k].refuse, temp |-> r.out.rounds[k].temp]]
WellFormed(r) == Len(r.out.rounds) = Len(r.in.rounds)
DriftRounds(r) == {k \in Observed(r.in) : OutOf(r)[k] # RuleH(r.in)[k]}
BadRounds(r) == {k \in Observed(r.in) : Viol(r.in.rounds[k], OutOf(r)[k]) # {}}
Bad(r) == ~WellFormed(r) \/ DriftRounds(r) # {} \/ BadRounds(r) # {}
Verdict(r) ==
  IF ~WellFormed(r)
  THEN [t |-> r.t, drift |-> TRUE, driftAt |-> r.seq, viol |-> {}, rounds |-> {}, malformed |-> TRUE]
  ELSE [t |-> r.t, drift |-> DriftRounds(r) # {}, driftAt |-> r.seq,
        viol |-> ViolH(r.in, OutOf(r)), rounds |-> BadRounds(r) \cup DriftRounds(r), malformed |-> FALSE]

Eval ==
  LET bad == {i \in 1..Len(Rows) : Bad(Rows[i])} IN
    [n |-> Len(Rows), accepted |-> Len(Rows) - Cardinality(bad),
     verdicts |-> {Verdict(Rows[i]) : i \in bad}]

TInit == in = <<>> /\ TLCSet(1, Eval)
TNext == UNCHANGED tvars
TSpec == TInit /\ [][TNext]_tvars

Post == PrintT(<<"VERDICTS", ToJson(TLCGet(1))>>)
=============================================================================
