\* reference configuration (the configurations actually run are generated by lib/checks/x06.py)
SPECIFICATION Spec
CONSTANTS
  Kinds = {"smtp", "lmtp", "remote"}
  MaxRcpt = 2
  RcptReplies = {"ok", "t4", "p5"}
  DataReplies = {"ok", "t4", "p5"}
  Devs = {}
INVARIANT RuleOK
CHECK_DEADLOCK FALSE
