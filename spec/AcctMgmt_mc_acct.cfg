\* reference configuration (the check generates its configurations from lib/checks/x10.py: MC_QUICK['mc-acct'])
SPECIFICATION Spec
CONSTANTS
  Kinds = {"AcctCreate", "AcctRemove", "MboxCreate", "MboxRemove", "MboxRename", "Deliver"}
  Spell = {"a", "aC", "aW", "b"}
  Pws = {"p1"}
  Confirms = {"flag", "n"}
  SUs = {FALSE, TRUE}
  MNames = {"INBOX", "A", "A.B", "Junk"}
  Specials = {"none", "Junk"}
  FlagSets = {{"S"}}
  AddFlags = {{}}
  Ranges = {"1"}
  UidModes = {TRUE}
  Preset = "empty"
  MaxSteps = 3
  Devs = {}
  Gen = FALSE
VIEW View
INVARIANTS NoViolation TypeOK

