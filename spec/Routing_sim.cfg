\* full grammar / alphabet, for tlc -simulate num=N -depth 400 (seeded walks of bin/check C04)
SPECIFICATION GSpec
CONSTANTS
  Locals = {"l1", "l2"}
  Doms = {"d1", "d2"}
  EnvLocals = {}
  RuleVars = {"lower", "upper", "nfc", "nfd", "alabel", "ALABEL"}
  EnvVars = {"lower", "upper", "nfc", "nfd", "alabel", "ALABEL"}
  Targets = {"T1", "T2", "T3"}
  Codes = {0, 550, 451}
  MaxSrc = 2
  MaxDst = 2
  MaxDepth = 2
  MaxMod = 3
  MaxBlocks = 8
  MaxRules = 2
  MaxKeys = 2
  MaxEntries = 2
  MaxVals = 2
  MaxDefects = 1
  DefectOdds = 3
  Salts = {0, 1, 2, 3, 4, 5}
  DefaultLast = FALSE
  BareMaps = TRUE
  NullKeys = FALSE
  DupRules = FALSE
  FlatOnly = FALSE
  MaxScopeMods = 2
  TableKinds = {"static", "file", "regexp", "regexp_repl", "scripted"}
  SenderCap = 99
  PrintExpected = TRUE
CHECK_DEADLOCK FALSE
INVARIANT TheoremsHold
