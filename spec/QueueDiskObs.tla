--------------------------- MODULE QueueDiskObs ---------------------------
(***************************************************************************)
(* Observation state and predicates for C02 (the spool survives a crash   *)
(* at any instant).  Pure functions of boundary events: upstream API      *)
(* returns (QBodyRet/QCommitRet/QAbortRet), target calls, failure reports,*)
(* Crash / Restart markers and the final quiescence.  Attempt numbers are *)
(* global over all incarnations of the queue.                             *)
(*                                                                         *)
(*  AcceptedRecipientLost     accepted (commit returned) before the stop,  *)
(*                            and after the last restart went quiet some   *)
(*                            recipient is neither delivered nor reported  *)
(*  AcceptedMessageDamaged    header/body handed to the target differ from *)
(*                            what was accepted (message was acknowledged) *)
(*  DamagedMessageHanded      header/body handed to the target differ from *)
(*                            what the queue was given, acknowledged or    *)
(*                            not (decides C10, not C02)                   *)
(*  DeliveredAfterAbort       an aborted transaction reached the target    *)
(*  UnknownRecipient          an address handed that was never a recipient *)
(*  ResentAfterTerminalOutcome a recipient whose latest outcome is terminal *)
(*                            is handed again although no crash happened   *)
(*                            since that outcome                           *)
(*  ResentAfterLaterAttempt   r had its terminal outcome in attempt a, a   *)
(*                            later attempt a' > a started and ran its     *)
(*                            recipient loop without r, and r is handed    *)
(*                            again in an attempt a'' > a'                 *)
(***************************************************************************)
EXTENDS Naturals, Sequences, FiniteSets

DObsInit(R) ==
  [ rcpts |-> {}, acked |-> FALSE, aborted |-> FALSE,
    delivered |-> {}, bounced |-> {},
    att |-> 0,                                \* attempts begun so far (all incarnations)
    termAt |-> [r \in R |-> 0],               \* attempt of the first terminal outcome, 0 = none
    cur |-> [r \in R |-> "na"],               \* "na" | "pend" | "fail" in the running attempt
    settled |-> {},                           \* latest outcome is terminal (delivered / reported)
    excused |-> {},                           \* settled before the latest crash: may be handed once more
    skipped |-> {},                           \* settled: not handed in a later complete attempt
    crashes |-> 0,
    viol |-> {} ]

DV(o, c, name) == IF c THEN o ELSE [o EXCEPT !.viol = @ \cup {name}]

DObsRcpts(o, S)  == [o EXCEPT !.rcpts = S]
DObsCommitRet(o) == [o EXCEPT !.acked = TRUE]
DObsAbortRet(o)  == [o EXCEPT !.aborted = TRUE]
DObsCrash(o)     == [o EXCEPT !.crashes = @ + 1, !.cur = [r \in DOMAIN o.cur |-> "na"],
                               !.excused = o.settled]

DObsStart(o, res) ==
  LET o1 == [o EXCEPT !.att = @ + 1, !.cur = [r \in DOMAIN o.cur |-> "na"]]
  IN DV(o1, ~o.aborted, "DeliveredAfterAbort")

DObsAddRcpt(o, r, res) ==
  LET o1 == DV(o, r \in o.rcpts, "UnknownRecipient")
      o2 == DV(o1, r \notin o.skipped, "ResentAfterLaterAttempt")
      \* a settled recipient comes back only if a crash could have lost the record of its outcome
      o3 == DV(o2, r \in o.settled => r \in o.excused, "ResentAfterTerminalOutcome")
      o4 == [o3 EXCEPT !.settled = @ \ {r}, !.excused = @ \ {r}]
  IN IF r \in DOMAIN o.cur
     THEN [o4 EXCEPT !.cur[r] = IF res = "ok" THEN "pend" ELSE "fail"]
     ELSE o4

\* the recipient loop of the running attempt is over: every recipient that already had its
\* terminal outcome in an earlier attempt and was not handed now is known to be settled
LoopDone(o) ==
  [o EXCEPT !.skipped = @ \cup {r \in DOMAIN o.cur :
                                  o.cur[r] = "na" /\ o.termAt[r] # 0 /\ o.termAt[r] < o.att}]

\* the target was handed header and body; intact = they are what was accepted
\* (DamagedMessageHanded is the C10 clause "what the queue hands to the target is what it
\* accepted", here for messages whose acceptance never completed)
DObsIntact(o, intact) ==
  DV(DV(o, (o.acked /\ ~o.aborted) => intact, "AcceptedMessageDamaged"), intact, "DamagedMessageHanded")

DObsBody(o, res) ==
  LET o1 == LoopDone(o) IN
  IF res = "ok" THEN o1
  ELSE [o1 EXCEPT !.cur = [r \in DOMAIN o.cur |-> IF o.cur[r] = "pend" THEN "fail" ELSE o.cur[r]]]

DObsBodyNA(o, st) ==
  LET o1 == LoopDone(o) IN
  [o1 EXCEPT !.cur = [r \in DOMAIN o.cur |->
      IF r \in DOMAIN st /\ st[r] # "ok" /\ o.cur[r] = "pend" THEN "fail" ELSE o.cur[r]]]

DObsAbort(o) == LoopDone(o)

DObsCommit(o, res) ==
  IF res # "ok" THEN o
  ELSE LET good == {r \in DOMAIN o.cur : o.cur[r] = "pend"} IN
       [o EXCEPT !.delivered = @ \cup good, !.settled = @ \cup good,
                 !.termAt = [r \in DOMAIN o.termAt |->
                               IF r \in good /\ o.termAt[r] = 0 THEN o.att ELSE o.termAt[r]]]

DObsDsn(o, S) ==
  [o EXCEPT !.bounced = @ \cup S, !.settled = @ \cup S,
            !.termAt = [r \in DOMAIN o.termAt |->
                          IF r \in S /\ o.termAt[r] = 0 THEN o.att ELSE o.termAt[r]]]

\* final: the last incarnation went quiet
DObsFinal(o) ==
  DV(o, (o.acked /\ ~o.aborted) => \A r \in o.rcpts : r \in o.delivered \cup o.bounced,
     "AcceptedRecipientLost")
=============================================================================
