\* exhaustive: every scenario of the tables, deviations off; the predicates of CmdCheckObs hold on every step, every behaviour ends
SPECIFICATION Spec
CONSTANTS
  Full = FALSE
  Devs = {}
  Gen = FALSE
INVARIANTS NoViolation
PROPERTIES Terminates
