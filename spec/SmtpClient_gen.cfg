\* reference configuration (the configurations actually run are generated by lib/checks/x06.py)
\* behaviour generation (gen-smtp); prints BEH lines
SPECIFICATION Spec
CONSTANTS
  Lmtps = {FALSE}
  ExtNames = {"all"}
  Certs = {"valid"}
  Replies = {"t4", "p5", "drop", "lok", "lp5"}
  AddrKinds = {"asc"}
  OptSets = {"none"}
  TlsModes = {FALSE}
  MaxRcpt = 2
  MaxTxn = 2
  MaxConn = 1
  MaxFaults = 1
  MaxAgain = 1
  FaultAfter = 0
  Devs = {"NoPoisonOnIOError", "LmtpHeloFallback", "CloseKeepsClient", "CloseAgainPanics", "HelloNamePlain"}
  Gen = TRUE
CHECK_DEADLOCK FALSE

