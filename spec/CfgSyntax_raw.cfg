\* quick-tier raw layer
SPECIFICATION SpecRaw
CONSTANTS
  MaxItems = 0
  Styles = {{}}
  MutLen = 0
  RawLen = 3
  Depths = {3}
  Ladders = {3}
  MacroCloses = {}
  SnipDeeps = {}
  FileChains = {}
  SnipSplits = {}
  FileSplits = {}
  Devs = {}
INVARIANTS EmitRows
CHECK_DEADLOCK FALSE
