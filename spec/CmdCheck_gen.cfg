\* behaviours out of TLC: one BEH line (scenario + expected events) per complete behaviour
SPECIFICATION Spec
CONSTANTS
  Full = FALSE
  Devs = {}
  Gen = TRUE
INVARIANTS NoViolation
CONSTRAINT Emit
