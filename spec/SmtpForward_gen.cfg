\* reference configuration (bin/check X20 generates its configurations from lib/checks/x20.py): behaviour generation (history on), Devs = deviations of the OPEN findings
SPECIFICATION Spec
CONSTANTS
  Kinds = {"smtp"}
  Schemes = {"tcp", "tls", "unix"}
  MaxEp = 2
  Outs = {"refuse", "gdrop", "g4", "g5", "notls", "stls4", "hsfail", "badcert", "up"}
  StlsDirs = {"dflt", "no"}
  RtlsDirs = {"none"}
  Auths = {"off"}
  Srcs = {"auth"}
  AuthRs = {"ok", "rej5"}
  MailRs = {"ok", "p5"}
  RcptRs = {"ok"}
  BodyRs = {"ok"}
  MaxRcpt = 1
  Devs = {"RequireTlsIgnored", "StarttlsOnImplicitTls"}
  Gen = TRUE
CHECK_DEADLOCK FALSE

