---------------------------- MODULE CmdCheckObs ----------------------------
(***************************************************************************)
(* X14 (second half) - observation operators and property predicates of    *)
(* check.command (docs/reference/checks/command.md, actions.md;            *)
(* internal/check/command/command.go).  Pure operators: the design spec    *)
(* CmdCheck.tla folds them over its own steps (invariant NoViolation), the *)
(* trace spec CmdCheckTrace.tla folds the same operators over what the     *)
(* real code did.                                                          *)
(*                                                                         *)
(* A scenario sc = [tab, runOn, codes, args, conn, msgid, from, rcpts, msg,*)
(*                  beh, start]:                                           *)
(*   runOn  "absent" | "conn" | "sender" | "rcpt" | "body" (run_on)        *)
(*   codes  sequence of [code, act, rc]: the 'code' directives in the      *)
(*          order written; rc # 0: "reject rc" (an SMTP code given with    *)
(*          the action)                                                    *)
(*   args   the configured arguments after the command name; each one a    *)
(*          sequence of pieces [k, v]: "lit" (literal text v), "ph" (the   *)
(*          placeholder {v}), "raw" (text with braces that is not a        *)
(*          placeholder, e.g. "{foo}")                                     *)
(*   conn   [kind, ip, helo, auth, rdns]: kind "tcp4" / "tcp6" / "unix" /  *)
(*          "nil" (no connection); rdns [k, v]: "name" (the PTR name v),   *)
(*          "none" (no PTR record), "fail" (lookup failed), "nil" (reverse *)
(*          lookups not applicable: ConnState.RDNSName = nil)              *)
(*   from, rcpts   the envelope (rcpts in the order of the RCPT TO         *)
(*          commands, repetitions allowed)                                 *)
(*   msg    [hdr, body]: hdr = sequence of header fields as they are       *)
(*          written ("Name: value\r\n", folding included), body = a body   *)
(*          kind (BodyText)                                                *)
(*   beh    the command's behaviour, one entry per execution (the last     *)
(*          one repeats): [stdin, out, err, exit]: stdin "read" (reads     *)
(*          stdin to the end, then writes), "late" (writes, then reads),   *)
(*          "ignore"; out = kind of stdout content (OutFields); err =      *)
(*          something on stderr; exit = exit status, -9 = killed by a      *)
(*          signal                                                         *)
(*   start  "ok", "path" (the command is named without a directory and     *)
(*          found through $PATH), "gone" (the executable disappears after  *)
(*          the configuration was loaded), "absent" (it never existed)     *)
(*                                                                         *)
(* Events (what is observable at the module's interfaces):                 *)
(*   Pipe [call, arg, reply, runs, panics, left, stalled]: one command of  *)
(*        the message pipeline ("mail" = Start, "rcpt" = AddRcpt, "body"); *)
(*        reply = [k, code, temp, enchc] (k = "ok" / "rej"); runs = what   *)
(*        the executions of the command during this call were given:       *)
(*        [n, argv, read, stdin] (read: the command read its stdin to the  *)
(*        end; stdin = the bytes); panics = recovered panics of the check; *)
(*        left = executions whose process the server did not wait for when *)
(*        the call returned; stalled = executions that could not write     *)
(*        their stdout because nobody read it                              *)
(*   End  [cfgerr, delivered, quarantine, added, rcpts]: the message at    *)
(*        the target: added = the header fields in front of the original   *)
(*        header                                                           *)
(***************************************************************************)
EXTENDS Naturals, Integers, Sequences, FiniteSets, TLC, Json

Range(f) == {f[i] : i \in DOMAIN f}
Last(s) == s[Len(s)]
RECURSIVE JoinNL(_)
JoinNL(s) == IF Len(s) = 0 THEN "" ELSE IF Len(s) = 1 THEN s[1] ELSE s[1] \o "\n" \o JoinNL(Tail(s))
RECURSIVE Concat(_)
Concat(s) == IF Len(s) = 0 THEN "" ELSE s[1] \o Concat(Tail(s))
RECURSIVE Rep(_, _)
Rep(s, n) == IF n = 0 THEN "" ELSE s \o Rep(s, n - 1)
Count(s, x) == Cardinality({k \in DOMAIN s : s[k] = x})
SameBag(s, t) == Len(s) = Len(t) /\ \A x \in Range(s) \cup Range(t) : Count(s, x) = Count(t, x)

-----------------------------------------------------------------------------
(* Configuration *)
(* "run_on conn | sender | rcpt | body   Default: body" *)
RunOn(sc) == IF sc.runOn = "absent" THEN "body" ELSE sc.runOn
(* the check's stages inside each pipeline command *)
Hooks(call) == CASE call = "mail" -> <<"conn", "sender">> [] call = "rcpt" -> <<"rcpt">> [] OTHER -> <<"body">>
Due(sc, call) == RunOn(sc) \in Range(Hooks(call))

(* "Two codes are defined implicitly, exit code 1 causes the message to be  *)
(* rejected with a permanent error, exit code 2 causes the message to be   *)
(* quarantined. Both actions can be overridden using the 'code' directive." *)
NoAct == [act |-> "none", rc |-> 0]
Given(sc, st) == {k \in DOMAIN sc.codes : sc.codes[k].code = st}
MaxOf(S) == CHOOSE x \in S : \A y \in S : y <= x
ActFor(sc, st) ==
  IF Given(sc, st) # {} THEN [act |-> sc.codes[MaxOf(Given(sc, st))].act, rc |-> sc.codes[MaxOf(Given(sc, st))].rc]
  ELSE IF st = 1 THEN [act |-> "reject", rc |-> 0]
  ELSE IF st = 2 THEN [act |-> "quarantine", rc |-> 0]
  ELSE NoAct

Beh(sc, n) == sc.beh[IF n <= Len(sc.beh) THEN n ELSE Len(sc.beh)]

-----------------------------------------------------------------------------
(* Stdout of the command.  "The command stdout must be either empty or      *)
(* contain a valid RFC 5322 header. If it contains a byte stream that does  *)
(* not look a valid header, the message will be rejected with a temporary   *)
(* error."                                                                  *)
V1990 == Rep("0123456789", 199)
BigField(k) == "X-Verif-Big-" \o ToString(k) \o ": " \o V1990 \o "\r\n"
OutFields(kind) ==
  CASE kind \in {"hdr1", "hdr1end", "trail", "bigtrail"} -> <<"X-Verif-Scan: clean\r\n">>
    [] kind = "hdr2"   -> <<"X-Verif-Scan: clean\r\n", "X-Verif-Score: 1.5\r\n">>
    [] kind = "folded" -> <<"X-Verif-Report: line one\r\n\tline two\r\n">>
    [] kind = "bighdr" -> [k \in 1..40 |-> BigField(k)]        \* a valid header larger than a pipe holds
    [] OTHER -> <<>>
ValidKinds   == {"empty", "hdr1", "hdr1end", "hdr2", "folded", "bighdr"}
GarbageKinds == {"nocolon", "binary"}            \* not a header
TrailKinds   == {"trail", "bigtrail"}            \* a header, the empty line, and more (a pipe's worth more for bigtrail)

(* The message on stdin: "Stdin: The message header + body" *)
BodyText(kind) ==
  CASE kind = "small"  -> "hello\r\nworld\r\n"
    [] kind = "empty"  -> ""
    [] kind = "nocrlf" -> "no line end"
    [] kind = "barelf" -> "one\ntwo\n"
    [] kind = "dots"   -> ".\r\n..\r\n.leading\r\n"
    [] kind = "big"    -> "big:1048576"          \* 1 MiB of a fixed pattern; the harness reports it by this name
    [] OTHER -> ""
MsgText(sc) == [hdr |-> Concat(sc.msg.hdr) \o "\r\n", body |-> BodyText(sc.msg.body)]
NoText == [hdr |-> "", body |-> ""]

-----------------------------------------------------------------------------
(* Placeholders.  "If value is undefined (e.g. {source_ip} for a message    *)
(* accepted over a Unix socket) or unavailable (the command is executed too *)
(* early), the placeholder is replaced with an empty string. ... Undefined  *)
(* placeholders are not replaced."                                          *)
HasConn(sc) == sc.conn.kind # "nil"
RdnsValue(sc) == IF HasConn(sc) /\ sc.conn.rdns.k = "name" THEN sc.conn.rdns.v ELSE ""
(* {source_rdns} is in the general list of placeholders but in none of the  *)
(* per-stage lists before body: either reading is accepted there            *)
RdnsChoices(sc, hook) == IF hook = "body" THEN {RdnsValue(sc)} ELSE {RdnsValue(sc), ""}
(* seen = "List of accepted recipient addresses, including the currently    *)
(* handled one"                                                             *)
Val(sc, hook, addr, seen, rd, p) ==
  CASE p = "source_ip"   -> IF sc.conn.kind \in {"tcp4", "tcp6"} THEN sc.conn.ip ELSE ""
    [] p = "source_host" -> IF HasConn(sc) THEN sc.conn.helo ELSE ""
    [] p = "source_rdns" -> rd
    [] p = "msg_id"      -> sc.msgid
    [] p = "auth_user"   -> IF HasConn(sc) THEN sc.conn.auth ELSE ""
    [] p = "sender"      -> IF hook = "conn" THEN "" ELSE sc.from
    [] p = "rcpts"       -> IF hook \in {"conn", "sender"} THEN "" ELSE JoinNL(seen)
    [] p = "address"     -> IF hook \in {"sender", "rcpt"} THEN addr ELSE ""
RECURSIVE ExpandArg(_, _, _, _, _, _)
ExpandArg(arg, sc, hook, addr, seen, rd) ==
  IF Len(arg) = 0 THEN ""
  ELSE (CASE arg[1].k = "lit" -> arg[1].v
          [] arg[1].k = "raw" -> arg[1].v
          [] OTHER -> Val(sc, hook, addr, seen, rd, arg[1].v))
       \o ExpandArg(Tail(arg), sc, hook, addr, seen, rd)
(* one argument in, one argument out: "it can not remove the argument";     *)
(* "the command is executed directly, not via the system shell"             *)
Argv(sc, hook, addr, seen, rd) == [j \in DOMAIN sc.args |-> ExpandArg(sc.args[j], sc, hook, addr, seen, rd)]
UsesRdns(sc) == \E j \in DOMAIN sc.args : \E q \in DOMAIN sc.args[j] : sc.args[j][q].k = "ph" /\ sc.args[j][q].v = "source_rdns"

-----------------------------------------------------------------------------
(* Replies *)
R(k, code, temp, enchc) == [k |-> k, code |-> code, temp |-> temp, enchc |-> enchc]
OkR == R("ok", 0, FALSE, 0)
Class(code) == code \div 100
RejClass(r) ==
  IF r.k = "ok" THEN "ok"
  ELSE IF r.code \in 400..599 /\ r.temp = (Class(r.code) = 4) /\ r.enchc \in {0, Class(r.code)}
       THEN (IF Class(r.code) = 4 THEN "rej4" ELSE "rej5")
  ELSE "incoherent"

(* what the answer to a pipeline command may be after an execution with    *)
(* behaviour b                                                              *)
ActClass(a) == CASE a.act = "reject" -> {IF a.rc # 0 /\ Class(a.rc) = 4 THEN "rej4" ELSE "rej5"}
                 [] OTHER -> {"ok"}                           \* quarantine, ignore: the command is accepted
Allowed(sc, b) ==
  IF sc.start = "gone" THEN {"ok", "rej4"}        \* from the code: a command that cannot be started is a temporary error (450)
  ELSE
    LET a == ActFor(sc, b.exit)
        base == IF b.exit = 0 THEN (IF a.act = "none" THEN {"ok"} ELSE ActClass(a))
                ELSE IF a.act # "none" THEN ActClass(a)
                ELSE {"ok", "rej4"}              \* an exit status without an action, death by signal (from the code: 450)
    IN IF b.out \in GarbageKinds THEN {"rej4"} \cup (IF b.exit # 0 THEN base ELSE {})
       ELSE IF b.out \in TrailKinds THEN base \cup {"rej4"}
       ELSE base
Quarantines(sc, b) == sc.start # "gone" /\ b.out \in ValidKinds /\ ActFor(sc, b.exit).act = "quarantine"

-----------------------------------------------------------------------------
(* The observation record and its folds *)
ObsInit == [viol |-> {}, accepted |-> <<>>, nruns |-> 0, quar |-> FALSE, must |-> <<>>, may |-> <<>>,
            dead |-> FALSE, ncalls |-> 0]

PredNames == {"NoCrash", "StageOnce", "ArgvExact", "StdinExact", "Verdict", "NoHang", "NoLeftover",
              "HeaderAdded", "QuarantineFlag", "Delivery"}

(* one pipeline command *)
ObsPipe(o, sc, e) ==
  LET due   == Due(sc, e.call) /\ sc.start # "gone" /\ ~(RunOn(sc) = "body" /\ sc.msg.body = "unreadable")
      hook  == RunOn(sc)
      seen  == IF e.call = "rcpt" THEN o.accepted \o <<e.arg>> ELSE o.accepted
      run   == e.runs[1]
      b     == Beh(sc, IF Len(e.runs) > 0 THEN run.n ELSE o.nruns + 1)
      (* exactly one execution where the stage is the configured one ("The *)
      (* command is executed once for each RCPT TO command, even if the    *)
      (* same recipient is specified multiple times"), none elsewhere      *)
      stageOnce == Len(e.runs) = (IF due THEN 1 ELSE 0)
      argvOK == (Len(e.runs) = 1 /\ due) =>
                   \E rd \in RdnsChoices(sc, hook) : run.argv = Argv(sc, hook, e.arg, seen, rd)
      stdinOK == (Len(e.runs) = 1 /\ due /\ b.stdin \in {"read", "late"}) =>
                   (run.read /\ run.stdin = IF hook = "body" /\ sc.msg.body # "unreadable" THEN MsgText(sc) ELSE NoText)
      cls == RejClass(e.reply)
      verdictOK ==
        IF ~Due(sc, e.call) THEN cls = "ok"                          \* the check has nothing to say here
        ELSE IF hook = "body" /\ sc.msg.body = "unreadable" THEN cls \in {"ok", "rej4"}   \* a local I/O error is not a verdict
        ELSE IF Len(e.runs) = 1 \/ sc.start = "gone" THEN cls \in Allowed(sc, b)
        ELSE TRUE                                                    \* no execution to judge (StageOnce says so)
      ok == e.reply.k = "ok"
      ran == Len(e.runs) = 1 /\ due
      bad == (IF e.panics = 0 THEN {} ELSE {"NoCrash"})
             \cup (IF stageOnce THEN {} ELSE {"StageOnce"})
             \cup (IF argvOK THEN {} ELSE {"ArgvExact"})
             \cup (IF stdinOK THEN {} ELSE {"StdinExact"})
             \cup (IF verdictOK THEN {} ELSE {"Verdict"})
             \cup (IF e.stalled = 0 THEN {} ELSE {"NoHang"})
             \cup (IF e.left = 0 THEN {} ELSE {"NoLeftover"})
  IN [o EXCEPT !.viol = @ \cup bad,
               !.ncalls = @ + 1,
               !.nruns = @ + Len(e.runs),
               !.accepted = IF e.call = "rcpt" /\ ok THEN Append(@, e.arg) ELSE @,
               !.dead = @ \/ (e.call \in {"mail", "body"} /\ ~ok),
               !.quar = @ \/ (ran /\ ok /\ Quarantines(sc, b)),
               (* "The header from stdout will be prepended to the message header." *)
               !.must = IF ran /\ ok /\ b.out \in ValidKinds /\ Len(OutFields(b.out)) > 0 THEN Append(@, OutFields(b.out)) ELSE @,
               (* what follows the header's end, and the header of an execution that refused its recipient, *)
               (* may or may not count                                                                    *)
               !.may  = IF ran /\ ((ok /\ b.out \in TrailKinds)
                                    \/ (~ok /\ e.call = "rcpt" /\ b.out \in ValidKinds \cup TrailKinds /\ Len(OutFields(b.out)) > 0))
                        THEN Append(@, OutFields(b.out)) ELSE @]

(* the message at the target *)
RECURSIVE Flat(_)
Flat(ss) == IF Len(ss) = 0 THEN <<>> ELSE ss[1] \o Flat(Tail(ss))
ObsEnd(o, sc, e) ==
  LET expectDelivered == ~o.dead /\ Len(o.accepted) > 0 /\ ~e.cfgerr
      must == Flat(o.must)
      mayAll == Flat(o.may)
      headerOK == e.delivered =>
                    IF Len(o.must) + Len(o.may) <= 1
                    THEN e.added = must \/ (Len(o.may) = 1 /\ e.added = mayAll)     \* one execution: exactly its header, in its order
                    ELSE \E sub \in SUBSET DOMAIN o.may :                            \* several: every field, each once
                           SameBag(e.added, must \o Flat([k \in 1..Cardinality(sub) |->
                                                          o.may[CHOOSE x \in sub : Cardinality({y \in sub : y < x}) = k - 1]]))
      quarOK == e.delivered => (e.quarantine = o.quar)
      (* the message reaches the target iff nothing refused it, for exactly *)
      (* the recipients whose RCPT TO was accepted                          *)
      deliveryOK == e.delivered = expectDelivered /\ (e.delivered => e.rcpts = o.accepted)
      bad == (IF headerOK THEN {} ELSE {"HeaderAdded"})
             \cup (IF quarOK THEN {} ELSE {"QuarantineFlag"})
             \cup (IF deliveryOK THEN {} ELSE {"Delivery"})
  IN [o EXCEPT !.viol = @ \cup bad]

=============================================================================
