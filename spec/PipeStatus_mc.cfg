\* stand-alone exhaustive run; lib/checks/c09.py generates the configurations it uses
SPECIFICATION Spec
CONSTANTS
  MaxList = 2
  StSet = {"ok", "temp", "perm"}
  Scopes = {"global", "source", "dest"}
  Atomic = TRUE
  Devs = {}
  Gen = FALSE
VIEW View
INVARIANTS NoViolation TypeOK
