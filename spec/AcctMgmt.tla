------------------------------ MODULE AcctMgmt ------------------------------
(***************************************************************************)
(* Extension X10: the administrator's side of maddy - sequences of         *)
(* management commands                                                     *)
(*    maddy creds create / password / remove            (users.go)         *)
(*    maddy imap-acct create / remove                   (imapacct.go)      *)
(*    maddy imap-mboxes create / remove / rename        (imap.go)          *)
(*    maddy imap-msgs add / remove / copy / move /                         *)
(*                    add-flags / rem-flags / set-flags (imap.go)          *)
(* over auth.pass_table + table.sql_table and storage.imapsql (sqlite3).   *)
(*                                                                         *)
(* State = the snapshot an administrator can read back (AcctMgmtObs.tla);  *)
(* one action per command; Step(c, s, Devs) is its transition function.    *)
(* The environment chooses the command, the spelling of the account name,  *)
(* the answer to the confirmation prompt and every argument.               *)
(*                                                                         *)
(* Deviations of the code (constant Devs), each an open finding:           *)
(*  "ExitZero"        a command that fails with an ordinary error prints   *)
(*                    "app.Run failed" and exits with status 0             *)
(*                    (internal/cli/app.go:Run; only cli.Exit errors set   *)
(*                    a status).                                           *)
(*  "PasswordCreates" creds password NAME for a NAME without credentials   *)
(*                    creates them (table.SQL.SetKey: INSERT else UPDATE). *)
(*  "AcctNoPrecis"    imap-acct / imap-mboxes / imap-msgs hand the name as *)
(*                    typed to go-imap-sql, which only lower-cases it: a   *)
(*                    spelling that PRECIS maps (full-width letters) or    *)
(*                    refuses becomes a separate account that neither      *)
(*                    delivery nor log-in can ever reach.                  *)
(*  "RenameMissingOk" imap-mboxes rename of a mailbox that does not exist  *)
(*                    succeeds, creates the superiors of the new name and  *)
(*                    renames orphaned inferiors.                          *)
(*  "RenameLike"      the inferiors of the renamed mailbox are selected    *)
(*                    with SQL LIKE: on sqlite the inferiors of a mailbox  *)
(*                    whose name differs only in letter case (or matches   *)
(*                    as a pattern) are moved under the new name too.      *)
(*  "CopyRemoveBlob"  imap-msgs remove deletes the stored body of the      *)
(*                    removed messages although copies (imap-msgs copy)    *)
(*                    still refer to it: the copies lose their content.    *)
(***************************************************************************)
EXTENDS AcctMgmtObs, TLC, SequencesExt, Json

CONSTANTS Kinds,     \* command kinds explored
          Spell,     \* spellings of account names on the command line
          Pws,       \* passwords
          Confirms,  \* "flag" (--yes), "y", "n" (answers to the prompt)
          SUs,       \* subset of BOOLEAN: imap-acct create with / without the special-use mailboxes
          MNames,    \* mailbox names (dotted strings, see Path)
          Specials,  \* values of imap-mboxes create --special ("none" = flag absent)
          FlagSets,  \* sets of flags used by imap-msgs add -f / *-flags
          AddFlags,  \* flag sets used by imap-msgs add ({} = none)
          Ranges,    \* SEQSET arguments
          UidModes,  \* subset of BOOLEAN: --uid given
          Preset,    \* name of the command prefix every behaviour starts with
          MaxSteps,  \* commands after the prefix
          Devs,      \* deviations switched on
          Gen        \* TRUE: keep the history, print complete behaviours

VARIABLES s,      \* the snapshot
          step,   \* commands executed (including the prefix)
          seen,   \* every (account, mailbox, UIDVALIDITY, UID, body) observed so far
          used,   \* deviations this behaviour needed
          obs,    \* [viol]: names of violated predicates
          phase,  \* "run" | "end"
          hist

vars == <<s, step, seen, used, obs, phase, hist>>
View == <<s, step, seen, used, obs, phase>>

Path(n) == CASE n = "" -> <<>>
             [] n = "INBOX" -> <<"INBOX">>
             [] n = "A" -> <<"A">>        [] n = "a" -> <<"a">>
             [] n = "B" -> <<"B">>        [] n = "C" -> <<"C">>
             [] n = "Junk" -> <<"Junk">>  [] n = "Trash" -> <<"Trash">>
             [] n = "A.B" -> <<"A", "B">> [] n = "a.B" -> <<"a", "B">>
             [] n = "A.C" -> <<"A", "C">> [] n = "B.C" -> <<"B", "C">>
             [] n = "C.B" -> <<"C", "B">> [] n = "A.B.C" -> <<"A", "B", "C">>
Lo(r) == CASE r \in {"1", "1:2", "1:*"} -> 1 [] r \in {"2", "2:*", "2:3"} -> 2 [] r = "3" -> 3 [] r = "*" -> 0
Hi(r) == CASE r = "1" -> 1 [] r \in {"2", "1:2"} -> 2 [] r \in {"3", "2:3"} -> 3 [] r \in {"*", "1:*", "2:*"} -> 0

C0 == [k |-> "", sp |-> "", pw |-> "", cf |-> "flag", su |-> FALSE, mb |-> <<>>, mb2 |-> <<>>, spc |-> "none",
       fl |-> {}, uidm |-> TRUE, lo |-> 0, hi |-> 0, body |-> "", op |-> ""]
BodyId(n) == "m" \o ToString(n)

(* the commands of one kind that may be issued in snapshot x as command    *)
(* number n                                                                *)
CmdsOfKind(k, x, n) ==
  CASE k = "CredsCreate"   -> {[C0 EXCEPT !.k = k, !.sp = sp, !.pw = pw] : sp \in Spell, pw \in Pws}
    [] k = "CredsPassword" -> {[C0 EXCEPT !.k = k, !.sp = sp, !.pw = pw] : sp \in Spell, pw \in Pws}
    [] k = "CredsRemove"   -> {[C0 EXCEPT !.k = k, !.sp = sp, !.cf = cf] : sp \in Spell, cf \in Confirms}
    [] k = "Deliver"       -> {[C0 EXCEPT !.k = k, !.sp = sp, !.body = BodyId(n)] : sp \in Spell \ {""}}
    [] k = "AcctCreate"    -> {[C0 EXCEPT !.k = k, !.sp = sp, !.su = su] : sp \in Spell, su \in SUs}
    [] k = "AcctRemove"    -> {[C0 EXCEPT !.k = k, !.sp = sp, !.cf = cf] : sp \in Spell, cf \in Confirms}
    [] k = "MboxCreate"    -> {[C0 EXCEPT !.k = k, !.sp = sp, !.mb = Path(mb), !.spc = spc]
                               : sp \in Spell, mb \in MNames, spc \in Specials}
    [] k = "MboxRemove"    -> {[C0 EXCEPT !.k = k, !.sp = sp, !.mb = Path(mb), !.cf = cf]
                               : sp \in Spell, mb \in MNames, cf \in Confirms}
    [] k = "MboxRename"    -> {[C0 EXCEPT !.k = k, !.sp = sp, !.mb = Path(pr[1]), !.mb2 = Path(pr[2])]
                               : sp \in Spell,
                                 pr \in {q \in MNames \X (MNames \ {"INBOX"}) :
                                            q[1] = "" \/ q[2] = "" \/ ~IsPre(Path(q[1]), Path(q[2]))}}
    [] k = "MsgAdd"        -> {[C0 EXCEPT !.k = k, !.sp = sp, !.mb = Path(mb), !.fl = fl, !.body = b]
                               : sp \in Spell, mb \in MNames, fl \in AddFlags,
                                 b \in {BodyId(n)} \cup (IF "" \in MNames THEN {""} ELSE {})}
    [] k = "MsgRemove"     -> {[C0 EXCEPT !.k = k, !.sp = sp, !.mb = Path(mb), !.uidm = u, !.lo = Lo(r), !.hi = Hi(r),
                                          !.cf = cf]
                               : sp \in Spell, mb \in MNames, u \in UidModes, r \in Ranges, cf \in Confirms}
    [] k \in {"MsgCopy", "MsgMove"} ->
                              {[C0 EXCEPT !.k = k, !.sp = sp, !.mb = Path(mb), !.mb2 = Path(mb2), !.uidm = u,
                                          !.lo = Lo(r), !.hi = Hi(r)]
                               : sp \in Spell, mb \in MNames, mb2 \in MNames, u \in UidModes, r \in Ranges}
    [] k = "MsgFlags"      -> {[C0 EXCEPT !.k = k, !.sp = sp, !.mb = Path(mb), !.uidm = u, !.lo = Lo(r), !.hi = Hi(r),
                                          !.fl = fl, !.op = op]
                               : sp \in Spell, mb \in MNames, u \in UidModes, r \in Ranges,
                                 fl \in FlagSets \cup (IF "" \in MNames THEN {{}} ELSE {}), op \in {"add", "rem", "set"}}

(* inputs on which the statement is silent or ambiguous are not issued:    *)
(* sequence numbers partly outside the mailbox, copy/move onto the source  *)
Clear(c, x) ==
  LET ac == AcctOf(c.sp, Devs) IN
  /\ (c.k \in {"MsgRemove", "MsgCopy", "MsgMove", "MsgFlags"} /\ ac \in x.accts /\ HasMbox(x, ac, c.mb))
        => SeqClear(c.uidm, c.lo, c.hi, UidsIn(x, ac, c.mb))
  /\ (c.k \in {"MsgCopy", "MsgMove"}) => c.mb # c.mb2

CmdsAt(x, n) == {c \in UNION {CmdsOfKind(k, x, n) : k \in Kinds} : Clear(c, x)}

(* ---- the command prefixes ----------------------------------------------*)
PAcct(su)  == [C0 EXCEPT !.k = "AcctCreate", !.sp = "a", !.su = su]
PMbox(n)   == [C0 EXCEPT !.k = "MboxCreate", !.sp = "a", !.mb = Path(n)]
PAdd(n, i, fl) == [C0 EXCEPT !.k = "MsgAdd", !.sp = "a", !.mb = Path(n), !.body = BodyId(i), !.fl = fl]
PrefixOf(p) ==
  CASE p = "empty"  -> <<>>
    [] p = "acct"   -> <<PAcct(FALSE)>>
    [] p = "acctsu" -> <<PAcct(TRUE)>>
    [] p = "creds"  -> <<[C0 EXCEPT !.k = "CredsCreate", !.sp = "a", !.pw = "p1"]>>
    [] p = "tree"   -> <<PAcct(FALSE), PMbox("A.B"), PMbox("a.B")>>
    [] p = "msgs"   -> <<PAcct(FALSE), PMbox("A"), PAdd("INBOX", 3, {}), PAdd("INBOX", 4, {"S"})>>
    [] p = "msgs3"  -> <<PAcct(FALSE), PMbox("A"), PAdd("INBOX", 3, {}), PAdd("INBOX", 4, {"S"}), PAdd("A", 5, {"F"})>>
    [] p = "two"    -> <<PAcct(FALSE), [PAcct(FALSE) EXCEPT !.sp = "b"], PMbox("A"), [PMbox("A") EXCEPT !.sp = "b"],
                         PAdd("A", 5, {}), [PAdd("A", 6, {}) EXCEPT !.sp = "b"], [PAdd("INBOX", 7, {"S"}) EXCEPT !.sp = "b"]>>
    [] p = "treemsgs" -> <<PAcct(FALSE), PMbox("A.B"), PMbox("a.B"), PAdd("A.B", 4, {}), PAdd("a.B", 5, {})>>

RECURSIVE Run(_, _, _)
Run(pre, i, x) == IF i > Len(pre) THEN x ELSE Run(pre, i + 1, Step(pre[i], x, Devs).s)
RECURSIVE SeenOf(_, _, _)
SeenOf(pre, i, x) == IF i > Len(pre) THEN {} ELSE LET y == Step(pre[i], x, Devs).s IN Keys(y) \cup SeenOf(pre, i + 1, y)

H(e) == IF Gen THEN Append(hist, e) ELSE hist

Init ==
  LET pre == PrefixOf(Preset) IN
  /\ s = Run(pre, 1, Derive(EmptySnap))
  /\ step = Len(pre)
  /\ seen = SeenOf(pre, 1, Derive(EmptySnap))
  /\ used = {}
  /\ obs = [viol |-> {}, diag |-> {}]
  /\ phase = "run"
  /\ hist = IF Gen THEN pre ELSE <<>>

Do(c) ==
  LET r == Step(c, s, Devs) IN
  /\ s' = r.s
  /\ step' = step + 1
  /\ seen' = seen \cup Keys(r.s)
  /\ used' = used
  /\ obs' = [obs EXCEPT !.viol = @ \cup StepViol(c, r.res, r.ez, s, r.s) \cup StateViol(r.s)
                                   \cup (IF UidReused(seen, r.s) THEN {"UidReused"} ELSE {})]
  /\ hist' = H(c)
  /\ UNCHANGED phase

Cmd == /\ phase = "run" /\ step < Len(PrefixOf(Preset)) + MaxSteps
       /\ \E c \in CmdsAt(s, step + 1) : Do(c)

End == /\ phase = "run" /\ step = Len(PrefixOf(Preset)) + MaxSteps
       /\ phase' = "end"
       /\ IF Gen THEN PrintT(<<"BEH", ToJson([preset |-> Preset, hist |-> hist])>>) ELSE TRUE
       /\ UNCHANGED <<s, step, seen, used, obs, hist>>

Next == Cmd \/ End \/ (phase = "end" /\ ~Gen /\ UNCHANGED vars)
Spec == Init /\ [][Next]_vars

(* simulation (Gen): the kind is drawn first, then - three times out of    *)
(* four - a command that succeeds, so that random walks build up state     *)
SimCmd ==
  /\ phase = "run" /\ step < Len(PrefixOf(Preset)) + MaxSteps
  /\ \E k \in {RandomElement(Kinds)}, dice \in {RandomElement(1..4)} :
       LET all  == {c \in CmdsOfKind(k, s, step + 1) : Clear(c, s)}
           live == {c \in all : Step(c, s, Devs).res = "ok" /\ Step(c, s, Devs).s # s}
           pool == IF live # {} /\ dice > 1 THEN live ELSE all IN
       IF pool = {} THEN \E c \in CmdsAt(s, step + 1) : Do(c)
       ELSE \E c \in {RandomElement(pool)} : Do(c)
SimSpec == Init /\ [][SimCmd \/ End]_vars

(* ---- what TLC checks on the design -------------------------------------*)
NoViolation == obs.viol = {}

TypeOK ==
  /\ s.creds \subseteq [name : {"a", "b"}, pw : Pws \cup {"p1"}]
  /\ s.accts \subseteq {"a", "b", "aW", "x"}
  /\ \A m \in s.mboxes : m.acct \in s.accts /\ m.next >= 1
  /\ \A x \in s.msgs : x.uid >= 1
  /\ step \in 0..(Len(PrefixOf(Preset)) + MaxSteps)

=============================================================================
