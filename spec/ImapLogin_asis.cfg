\* X18 as-is: the deviation switched on must violate the property
SPECIFICATION Spec
CONSTANTS
  Tab = "flt"
  Full = FALSE
  Devs = {"OrigRcptCycle"}
  Gen = FALSE
INVARIANTS AsIsSatisfiesProp
CHECK_DEADLOCK FALSE
