SPECIFICATION Spec
CONSTANTS
  NChecks = 2
  MaxRcpts = 2
  MaxNonNone = 2
  MaxScopes = 2
  Dmarcs = {"off"}
  Vias = {"p"}
  EarlyOn = FALSE
  DupOn = FALSE
  ExtraV = {"rq"}
  Only1On = FALSE
  WithRemote = TRUE
  Froms = {"addr"}
  Kinds = {"pipe"}
  ModOn = FALSE
  Lazy = TRUE
  Devs = {}
  Gen = FALSE
  MaxDelay = 2
VIEW View
INVARIANTS NoViolation NoDevs TypeOK Closed
