SPECIFICATION Spec
CONSTANTS
  Full = FALSE
  Devs = {"Utf8Keyword", "MsgSizeInternalError"}
  Gen = FALSE
INVARIANTS AsIsSatisfiesProp
CHECK_DEADLOCK FALSE
