-------------------------- MODULE SaslDelegateWire --------------------------
(***************************************************************************)
(* X09 - the Dovecot authentication protocol between processes, both ends: *)
(*   Side "srv"   maddy's dovecot_sasld endpoint (internal/endpoint/       *)
(*                dovecot_sasld + go-dovecot-sasl Server) in its own       *)
(*                process, in front of a scripted credential backend; the  *)
(*                peer is a scripted client that speaks the wire protocol  *)
(*                line by line (handshake, AUTH, CONT, garbage, hang-up).  *)
(*   Side "cli"   maddy's auth.dovecot_sasl module (Init + AuthPlain)      *)
(*                against a scripted server (handshake variants, replies,  *)
(*                garbage, hang-up at every line).                         *)
(*   Side "pair"  auth.dovecot_sasl -> unix socket -> dovecot_sasld ->     *)
(*                backend; alone and next to six concurrent requests.      *)
(*                                                                         *)
(* The script of the peer grows line by line (one action per kind of line; *)
(* the menu depends on the state of the documented automaton, so nothing   *)
(* is sent on a connection the documented side has closed); a state with   *)
(* fin = TRUE is a complete behaviour (printed as ROW).  Step functions    *)
(* SrvStep / CliRun are the documented automata; Devs switches the named   *)
(* deviations of the code:                                                 *)
(*   "UnknownMechPanic"  AUTH with a mechanism that is not offered: FAIL,  *)
(*                       then a nil handler is called - the process dies   *)
(*   "ParamPanic"        AUTH parameter "service" without "=value":        *)
(*                       index out of range - the process dies             *)
(*   "FailThenOk"        a refused request is answered FAIL and then OK    *)
(*   "FailThenCont"      a malformed PLAIN response is answered FAIL, then *)
(*                       CONT, and the server waits for a CONT line        *)
(*   "SrvTempLost"       a temporary backend failure is answered by a      *)
(*                       plain FAIL (no temp / code=temp_fail)             *)
(*   "CliTempLost"       FAIL with temp / code=temp_fail is reported as a  *)
(*                       permanent failure (not exterrors.IsTemporary)     *)
(*   "LoginDialNotTemp"  LOGIN branch: an unreachable server is not        *)
(*                       reported as temporary (the PLAIN branch is)       *)
(*   "VersionPanic"      VERSION with one parameter and another major:     *)
(*                       index out of range while formatting the error     *)
(* Lines of a script are uniform records [k, a, b, c, cred] of strings.    *)
(***************************************************************************)
EXTENDS Naturals, Sequences, FiniteSets, TLC, Json

CONSTANTS Side,      \* "srv" | "cli" | "pair"
          MaxReq,    \* srv: AUTH requests per connection
          MaxRep,    \* cli: reply lines per request
          Full,      \* TRUE: the large menus
          Devs,
          Gen

VARIABLES in, ms, fin
vars == <<in, ms, fin>>

L(k, a, b, c, cred) == [k |-> k, a |-> a, b |-> b, c |-> c, cred |-> cred]
LastOf(s) == s[Len(s)]

-----------------------------------------------------------------------------
(* the scripted credential database (harness/sasldelegatecheck/creds.go) *)
Creds == {"good", "badpw", "nouser", "tmp", "err", "tab", "tabx", "nlx", "nulx", "nul", "long", "huge", "emptypw", "utf8"}
Backend(c) == CASE c \in {"good", "tab", "nul", "long", "huge", "utf8"} -> "ok"
                [] c = "tmp" -> "temp" [] c = "err" -> "err" [] OTHER -> "rej"
HasNul(c) == c \in {"nul", "nulx"}           \* RFC 4616: PLAIN cannot carry NUL
Huge(c) == c = "huge"                        \* the AUTH line exceeds the 64 KiB line buffer
Adv(login) == IF login THEN {"PLAIN", "LOGIN"} ELSE {"PLAIN"}

-----------------------------------------------------------------------------
(* ---- Side "srv": the documented server automaton ---- *)
SrvInit == [ph |-> "v", n |-> 0, user |-> "", mech |-> ""]
Rid(s) == ToString(s.n)
FailTok(devs, rid, ans) == IF ans = "temp" /\ "SrvTempLost" \notin devs THEN "FAIL:" \o rid \o ":temp" ELSE "FAIL:" \o rid
Refuse(devs, rid, ans) == <<FailTok(devs, rid, ans)>> \o (IF "FailThenOk" \in devs THEN <<"OK:" \o rid>> ELSE <<>>)
AskBackend(devs, s, c) ==      \* the backend is asked about cred c
  [s |-> [s EXCEPT !.ph = "idle"], calls |-> <<c>>,
   tx |-> IF Backend(c) = "ok" THEN <<"OK:" \o Rid(s)>> ELSE Refuse(devs, Rid(s), Backend(c))]
Close(s) == [s |-> [s EXCEPT !.ph = "closed"], tx |-> <<>>, calls |-> <<>>]
Dead(s, tx) == [s |-> [s EXCEPT !.ph = "dead"], tx |-> tx, calls |-> <<>>]
Malformed(devs, s) ==
  IF "FailThenCont" \in devs
  THEN [s |-> [s EXCEPT !.ph = "zombie"], tx |-> <<"FAIL:" \o Rid(s), "CONT:" \o Rid(s) \o ":empty">>, calls |-> <<>>]
  ELSE [s |-> [s EXCEPT !.ph = "idle"], tx |-> <<"FAIL:" \o Rid(s)>>, calls |-> <<>>]
PlainMsg(devs, s, kind, c) ==     \* a decoded PLAIN response of shape kind
  IF Huge(c) THEN Close(s)
  ELSE IF kind \in {"empty", "two"} \/ HasNul(c) THEN Malformed(devs, s)
  ELSE IF kind = "authzother" THEN [s |-> [s EXCEPT !.ph = "idle"], calls |-> <<>>, tx |-> Refuse(devs, Rid(s), "rej")]
  ELSE AskBackend(devs, s, c)

SrvStep(devs, login, s0, l) ==
  IF s0.ph \in {"closed", "dead"} THEN [s |-> s0, tx |-> <<>>, calls |-> <<>>]
  ELSE IF l.k = "ver" THEN
     IF s0.ph = "v" /\ l.a \in {"11", "17"} THEN [s |-> [s0 EXCEPT !.ph = "c"], tx |-> <<>>, calls |-> <<>>] ELSE Close(s0)
  ELSE IF l.k = "cpid" THEN
     IF s0.ph = "c" /\ l.a = "ok" THEN [s |-> [s0 EXCEPT !.ph = "idle"], tx |-> <<>>, calls |-> <<>>] ELSE Close(s0)
  ELSE IF l.k = "junk" THEN Close(s0)
  ELSE IF l.k = "auth" THEN
     IF s0.ph # "idle" THEN Close(s0)
     ELSE LET s == [s0 EXCEPT !.n = s0.n + 1, !.mech = l.a, !.user = ""] IN
       IF l.b = "svcnoval" THEN (IF "ParamPanic" \in devs THEN Dead(s, <<>>) ELSE Close(s))
       ELSE IF l.b = "ripbad" \/ l.c = "badb64" THEN Close(s)
       ELSE IF l.a \notin Adv(login) THEN
            IF "UnknownMechPanic" \in devs THEN Dead(s, <<"FAIL:" \o Rid(s)>>)
            ELSE [s |-> [s EXCEPT !.ph = "idle"], tx |-> <<"FAIL:" \o Rid(s)>>, calls |-> <<>>]
       ELSE IF l.a = "PLAIN" THEN
            IF l.c = "none" THEN [s |-> [s EXCEPT !.ph = "pwait"], tx |-> <<"CONT:" \o Rid(s) \o ":empty">>, calls |-> <<>>]
            ELSE PlainMsg(devs, s, l.c, l.cred)
       ELSE \* LOGIN
            IF l.c = "none" THEN [s |-> [s EXCEPT !.ph = "uwait"], tx |-> <<"CONT:" \o Rid(s) \o ":user">>, calls |-> <<>>]
            ELSE IF Huge(l.cred) THEN Close(s)
            ELSE [s |-> [s EXCEPT !.ph = "lwait", !.user = l.cred], tx |-> <<"CONT:" \o Rid(s) \o ":pass">>, calls |-> <<>>]
  ELSE \* cont
     IF s0.ph \notin {"pwait", "uwait", "lwait", "zombie"} \/ l.a # "same" \/ l.b = "badb64" THEN Close(s0)
     ELSE IF s0.ph = "zombie" THEN [s |-> s0, tx |-> <<"FAIL:" \o Rid(s0), "CONT:" \o Rid(s0) \o ":empty">>, calls |-> <<>>]
     ELSE IF s0.ph = "pwait" THEN
          IF l.b = "msg" THEN PlainMsg(devs, s0, "cred", l.cred) ELSE Malformed(devs, s0)
     ELSE IF s0.ph = "uwait" THEN
          [s |-> [s0 EXCEPT !.ph = "lwait", !.user = l.cred], tx |-> <<"CONT:" \o Rid(s0) \o ":pass">>, calls |-> <<>>]
     ELSE AskBackend(devs, s0, l.cred)           \* lwait: password of the same cred (generator)

RECURSIVE SrvRun(_, _, _, _, _)
SrvRun(devs, login, s, lines, acc) ==
  IF lines = <<>> THEN [s |-> s, tx |-> acc.tx, calls |-> acc.calls]
  ELSE LET r == SrvStep(devs, login, s, Head(lines)) IN
       SrvRun(devs, login, r.s, Tail(lines), [tx |-> acc.tx \o r.tx, calls |-> acc.calls \o r.calls])

SortedMechs(login) == IF login THEN <<"LOGIN", "PLAIN">> ELSE <<"PLAIN">>
SrvRuleD(devs, i) ==
  LET r == SrvRun(devs, i.login, SrvInit, i.lines, [tx |-> <<>>, calls |-> <<>>]) IN
  [hs |-> [ver |-> "1", mechs |-> SortedMechs(i.login), done |-> TRUE],
   rx |-> IF i.end = "abort" THEN <<>> ELSE r.tx, alive |-> r.s.ph # "dead", stall |-> FALSE, calls |-> r.calls]

(* the credentials request number r of a script carries: those of its IR, else of its CONT lines *)
AuthPos(lines, r) == CHOOSE k \in DOMAIN lines :
                        lines[k].k = "auth" /\ Cardinality({j \in 1..k : lines[j].k = "auth"}) = r
NReq(lines) == Cardinality({k \in DOMAIN lines : lines[k].k = "auth"})
ReqLines(lines, r) ==      \* the AUTH line of request r and the lines up to the next AUTH
  LET p == AuthPos(lines, r)
      q == IF r < NReq(lines) THEN AuthPos(lines, r + 1) - 1 ELSE Len(lines)
  IN SubSeq(lines, p, q)
CarriedCreds(lines, r) == {ReqLines(lines, r)[k].cred : k \in DOMAIN ReqLines(lines, r)} \ {""}
ReqMech(lines, r) == lines[AuthPos(lines, r)].a
ReqIr(lines, r) == lines[AuthPos(lines, r)].c
IsFinal(tok, rid) == tok = "OK:" \o rid \/ tok = "FAIL:" \o rid \/ tok = "FAIL:" \o rid \o ":temp"
Finals(rx, rid) == SelectSeq(rx, LAMBDA t : IsFinal(t, rid))
FirstFinal(rx, rid) == IF Finals(rx, rid) = <<>> THEN "none" ELSE Head(Finals(rx, rid))
AllRids == {ToString(n) : n \in 1..4}
OkJustified(i, o, r) ==
  /\ r <= NReq(i.lines)
  /\ ReqMech(i.lines, r) \in Adv(i.login)
  /\ ReqIr(i.lines, r) # "authzother"
  /\ \E c \in CarriedCreds(i.lines, r) : /\ Backend(c) = "ok" /\ \E k \in DOMAIN o.calls : o.calls[k] = c
                                         /\ ~(ReqMech(i.lines, r) = "PLAIN" /\ HasNul(c))

SrvViol(i, o) ==
  LET bad(name, cond) == IF cond THEN {} ELSE {name}
      doc == SrvRuleD({}, i)
      allCarried == UNION {CarriedCreds(i.lines, r) : r \in 1..NReq(i.lines)}
  IN
       bad("NoCrash", o.alive)
  \cup bad("NoStall", ~o.stall)
  \cup bad("OkOnlyIfBackendAccepted",
           \A r \in 1..4 : (\E k \in DOMAIN o.rx : o.rx[k] = "OK:" \o ToString(r)) => OkJustified(i, o, r))
  \cup bad("AcceptedWhenValid",
           i.end = "eof" => \A r \in 1..4 : FirstFinal(doc.rx, ToString(r)) = "OK:" \o ToString(r)
                                              => FirstFinal(o.rx, ToString(r)) = "OK:" \o ToString(r))
  \cup bad("SingleFinalReply", \A rid \in AllRids : Len(Finals(o.rx, rid)) <= 1)
  \cup bad("NothingAfterFinal",
           \A rid \in AllRids : \A k \in DOMAIN o.rx : IsFinal(o.rx[k], rid) =>
               \A j \in (k + 1)..Len(o.rx) : o.rx[j] \notin {"CONT:" \o rid \o ":empty", "CONT:" \o rid \o ":user",
                                                            "CONT:" \o rid \o ":pass", "CONT:" \o rid \o ":other"})
  \cup bad("TempMarked",
           i.end = "eof" => \A r \in 1..4 : FirstFinal(doc.rx, ToString(r)) = "FAIL:" \o ToString(r) \o ":temp"
                                              => FirstFinal(o.rx, ToString(r)) \in {"FAIL:" \o ToString(r) \o ":temp", "none"})
  \cup bad("HandshakeAdvertises", o.hs = doc.hs)
  \cup bad("ExactPair", \A k \in DOMAIN o.calls : o.calls[k] \in allCarried)

(* --- generator menus (srv) --- *)
IrCreds == IF Full THEN Creds ELSE {"good", "badpw", "tmp", "tabx", "nul", "huge"}
AuthMenu(login) ==
     {L("auth", "PLAIN", "std", "cred", c) : c \in IrCreds}
  \cup {L("auth", "PLAIN", "std", x, "good") : x \in {"none", "empty", "two", "badb64", "authzother", "authzself"}}
  \cup {L("auth", "PLAIN", p, "cred", "good") : p \in {"svcnoval", "ripbad", "ripok", "extra"}}
  \cup {L("auth", "LOGIN", "std", "none", ""), L("auth", "LOGIN", "std", "cred", "good"), L("auth", "LOGIN", "std", "cred", "badpw")}
  \cup {L("auth", m, "std", "cred", "good") : m \in {"CRAM-MD5", "plain"}}
ContCreds == IF Full THEN {"good", "badpw", "tmp", "err", "nul", "nulx", "tabx", "nlx"} ELSE {"good", "badpw", "tmp", "nul"}
Menu(login, s, nreq) ==
  CASE s.ph = "v" -> {L("ver", a, "", "", "") : a \in {"11", "17", "20", "1", "0"}} \cup {L("junk", "foo", "", "", ""), L("cpid", "ok", "", "", "")}
    [] s.ph = "c" -> {L("cpid", "ok", "", "", ""), L("cpid", "none", "", "", ""), L("junk", "empty", "", "", "")}
    [] s.ph = "idle" -> (IF nreq < MaxReq THEN AuthMenu(login) ELSE {})
                        \cup (IF nreq = 0 THEN {L("junk", "foo", "", "", ""), L("junk", "authshort", "", "", ""),
                                                L("cont", "same", "msg", "", "good"), L("ver", "11", "", "", "")}
                              ELSE {L("cont", "same", "msg", "", "good")})
    [] s.ph = "pwait" -> {L("cont", "same", "msg", "", c) : c \in ContCreds}
                         \cup {L("cont", "other", "msg", "", "good"), L("cont", "same", "badb64", "", ""),
                               L("cont", "same", "empty", "", ""), L("auth", "PLAIN", "std", "cred", "good")}
    [] s.ph = "uwait" -> {L("cont", "same", "user", "", c) : c \in ContCreds} \cup {L("cont", "other", "user", "", "good")}
    [] s.ph = "lwait" -> {L("cont", "same", "pass", "", s.user), L("cont", "same", "badb64", "", ""), L("junk", "foo", "", "", "")}
    [] OTHER -> {}

SrvStart == in \in {[side |-> "srv", login |-> lg, lines |-> <<>>, end |-> ""] : lg \in BOOLEAN} /\ ms = SrvInit /\ fin = FALSE
SrvSend(l) ==
  /\ ~fin /\ l \in Menu(in.login, ms, NReq(in.lines))
  /\ in' = [in EXCEPT !.lines = Append(@, l)]
  /\ ms' = SrvStep({}, in.login, ms, l).s
  /\ UNCHANGED fin
\* after a malformed request the code waits for CONT: one more line probes that state
SrvHangUp(e) == /\ ~fin /\ in' = [in EXCEPT !.end = e] /\ fin' = TRUE /\ UNCHANGED ms
SrvNext == (\E l \in Menu(in.login, ms, NReq(in.lines)) : SrvSend(l)) \/ (\E e \in {"eof"} : SrvHangUp(e))

-----------------------------------------------------------------------------
(* ---- Side "cli": auth.dovecot_sasl against a scripted server ---- *)
(* handshake kinds [ver, mechs, cut, junk]: cut = "full" | "refuse" (nobody listens) | "c0" (hang-up at once) |      *)
(* "c1" (after VERSION) | "cmid" (before DONE)                                                                        *)
Hs(ver, mechs, cut, junk) == [ver |-> ver, mechs |-> mechs, cut |-> cut, junk |-> junk]
StdHs(m) == Hs("11", m, "full", FALSE)
MechSet(m) == CASE m = "P" -> {"PLAIN"} [] m = "L" -> {"LOGIN"} [] m = "PL" -> {"PLAIN", "LOGIN"}
                [] m = "Ppriv" -> {"PLAIN"} [] m = "C" -> {"CRAM-MD5"} [] OTHER -> {}
PublicMechs(m) == IF m = "Ppriv" THEN {} ELSE MechSet(m)
HsResult(devs, h) ==      \* "ok" | "err" | "panic"
  IF h.cut \in {"refuse", "c0"} THEN "err"
  ELSE IF h.ver = "2" THEN (IF "VersionPanic" \in devs THEN "panic" ELSE "err")
  ELSE IF h.ver \in {"20", "none"} THEN "err"
  ELSE IF h.cut # "full" THEN "err" ELSE "ok"
Replies == {"OK", "OKother", "OKnoid", "FAIL", "FAILtemp", "FAILcode", "FAILdis", "FAILreason", "FAILother",
            "CONTpass", "CONTuser", "CONTempty", "CONTbad", "CONTnoarg", "JUNK", "JUNKx", "EMPTY"}
IsTempFail(t) == t \in {"FAILtemp", "FAILcode"}

RECURSIVE CliReplies(_, _, _, _)
(* result of reading the replies: [v, tx] ; tx = lines sent after AUTH *)
CliReplies(devs, mech, rep, tx) ==
  IF rep = <<>> THEN [v |-> "invalid", tx |-> tx]                      \* the peer hangs up: EOF
  ELSE LET t == Head(rep) IN
    IF t = "OK" THEN [v |-> "ok", tx |-> tx]
    ELSE IF t = "JUNK" THEN CliReplies(devs, mech, Tail(rep), tx)
    ELSE IF IsTempFail(t) THEN [v |-> IF "CliTempLost" \in devs THEN "invalid" ELSE "temp", tx |-> tx]
    ELSE IF t = "CONTpass" /\ mech = "LOGIN" THEN CliReplies(devs, mech, Tail(rep), Append(tx, "CONT:1:pass"))
    ELSE [v |-> "invalid", tx |-> tx]

CliRuleD(devs, i) ==
  LET r1 == HsResult(devs, i.hs1)
      pub == PublicMechs(i.hs1.mechs)
      mech == IF "PLAIN" \in pub THEN "PLAIN" ELSE IF "LOGIN" \in pub THEN "LOGIN" ELSE "none"
      r2 == HsResult(devs, i.hs2)
  IN
  IF r1 # "ok" THEN [init |-> r1, v |-> "none", tx |-> <<>>, conns |-> IF i.hs1.cut = "refuse" THEN 0 ELSE 1]
  ELSE IF mech = "none" THEN [init |-> "ok", v |-> "invalid", tx |-> <<>>, conns |-> 1]
  ELSE IF r2 = "panic" THEN [init |-> "ok", v |-> "panic", tx |-> <<>>, conns |-> 2]
  ELSE IF r2 = "err" THEN
       [init |-> "ok", v |-> IF mech = "LOGIN" /\ "LoginDialNotTemp" \in devs THEN "invalid" ELSE "temp", tx |-> <<>>,
        conns |-> IF i.hs2.cut = "refuse" THEN 1 ELSE 2]
  ELSE IF mech \notin MechSet(i.hs2.mechs) THEN [init |-> "ok", v |-> "invalid", tx |-> <<>>, conns |-> 2]
  ELSE LET r == CliReplies(devs, mech, i.rep, <<"AUTH:" \o mech \o ":1:same">>) IN
       [init |-> "ok", v |-> r.v, tx |-> r.tx, conns |-> 2]

(* the first reply that is not to be skipped *)
RECURSIVE Effective(_)
Effective(rep) == IF rep = <<>> THEN "hup" ELSE IF Head(rep) = "JUNK" THEN Effective(Tail(rep)) ELSE Head(rep)
HsClean(h) == h.cut = "full" /\ h.ver \in {"11", "12", "1"}
CliMech(i) == IF "PLAIN" \in PublicMechs(i.hs1.mechs) THEN "PLAIN"
              ELSE IF "LOGIN" \in PublicMechs(i.hs1.mechs) THEN "LOGIN" ELSE "none"
CliViol(i, o) ==
  LET bad(name, cond) == IF cond THEN {} ELSE {name}
      usable == HsClean(i.hs1) /\ HsClean(i.hs2) /\ CliMech(i) # "none" /\ CliMech(i) \in MechSet(i.hs2.mechs)
      okReached == \E k \in DOMAIN i.rep : /\ i.rep[k] = "OK"
                                           /\ \A j \in 1..(k - 1) : i.rep[j] = "JUNK" \/ (i.rep[j] = "CONTpass" /\ CliMech(i) = "LOGIN")
      sent == {o.tx[k] : k \in DOMAIN o.tx}
  IN
       bad("NoPanic", o.init # "panic" /\ o.v # "panic")
  \cup bad("NoHang", o.v # "hang" /\ o.init # "hang")
  \cup bad("OkOnlyIfPeerSaidOk", o.v = "ok" => (usable /\ okReached /\ Len(o.tx) >= 1 /\ o.tx[1] = "AUTH:" \o CliMech(i) \o ":1:same"))
  \cup bad("AcceptedWhenPeerAccepts",
           (usable /\ (Effective(i.rep) = "OK" \/ (CliMech(i) = "LOGIN" /\ Len(i.rep) >= 2 /\ i.rep[1] = "CONTpass" /\ i.rep[2] = "OK")))
             => o.v = "ok")
  \cup bad("TempMarked", (usable /\ IsTempFail(Effective(i.rep))) => o.v = "temp")
  \cup bad("UnreachableIsTemp",
           (HsClean(i.hs1) /\ CliMech(i) # "none" /\ i.hs2.cut # "full" /\ i.hs2.ver \in {"11", "12", "1"}) => o.v = "temp")
  \cup bad("InitFailsWhenUnusable", ~HsClean(i.hs1) => o.init # "ok")
  \cup bad("OnlyAdvertised",
           \A t \in sent : /\ (t = "AUTH:PLAIN:1:same" \/ t = "AUTH:PLAIN:1:diff") => ("PLAIN" \in PublicMechs(i.hs1.mechs) /\ "PLAIN" \in MechSet(i.hs2.mechs))
                           /\ (t = "AUTH:LOGIN:1:same" \/ t = "AUTH:LOGIN:1:diff") => ("LOGIN" \in PublicMechs(i.hs1.mechs) /\ "LOGIN" \in MechSet(i.hs2.mechs))
                           /\ t \in {"AUTH:PLAIN:1:same", "AUTH:PLAIN:1:diff", "AUTH:LOGIN:1:same", "AUTH:LOGIN:1:diff",
                                     "CONT:1:pass", "CONT:1:diff"})
  \cup bad("ExactPair", \A t \in sent : t \notin {"AUTH:PLAIN:1:diff", "AUTH:LOGIN:1:diff", "CONT:1:diff"})

HsMenu == {Hs(v, "P", "full", FALSE) : v \in {"11", "12", "20", "1", "2", "none"}}
          \cup {Hs("11", m, "full", FALSE) : m \in {"P", "L", "PL", "none", "C", "Ppriv"}}
          \cup {Hs("11", "P", c, FALSE) : c \in {"refuse", "c0", "c1", "cmid"}}
          \cup {Hs("11", "PL", "full", TRUE), Hs("11", "L", "cmid", FALSE), Hs("11", "L", "refuse", FALSE)}
RepMenu == IF Full THEN Replies ELSE {"OK", "OKother", "FAIL", "FAILtemp", "FAILcode", "CONTpass", "CONTbad", "JUNK", "EMPTY"}
CliCreds == IF Full THEN {"good", "tab", "nlx", "nul", "long", "utf8", "emptypw"} ELSE {"good", "nul"}

CliStart == /\ in \in {[side |-> "cli", hs1 |-> h, hs2 |-> StdHs("P"), rep |-> <<>>, cred |-> "good"] : h \in HsMenu}
            /\ ms = [ph |-> "hs2"] /\ fin = FALSE
CliHs2(h) == /\ ~fin /\ ms.ph = "hs2" /\ HsClean(in.hs1)
             /\ in' = [in EXCEPT !.hs2 = h] /\ ms' = [ph |-> "cred"] /\ UNCHANGED fin
CliCred(c) == /\ ~fin /\ ms.ph = "cred" /\ in.hs1 \in {StdHs("P"), StdHs("L")} /\ in.hs2 = in.hs1
              /\ in' = [in EXCEPT !.cred = c] /\ ms' = [ph |-> "rep"] /\ UNCHANGED fin
CliReply(t) == /\ ~fin /\ ms.ph \in {"cred", "rep"} /\ Len(in.rep) < MaxRep
               /\ (in.hs1.mechs \in {"P", "L", "PL"} /\ in.hs1 = StdHs(in.hs1.mechs) /\ in.hs2 = in.hs1)
               /\ (IF in.rep = <<>> THEN TRUE ELSE LastOf(in.rep) \in {"JUNK", "CONTpass"})
               /\ in' = [in EXCEPT !.rep = Append(@, t)] /\ ms' = [ph |-> "rep"] /\ UNCHANGED fin
CliFinish == /\ ~fin /\ fin' = TRUE /\ UNCHANGED <<in, ms>>
CliNext == (\E h \in HsMenu : CliHs2(h)) \/ (\E c \in CliCreds : CliCred(c)) \/ (\E t \in RepMenu : CliReply(t)) \/ CliFinish

-----------------------------------------------------------------------------
(* ---- Side "pair": client module -> endpoint -> backend ---- *)
SideCreds == <<"good", "badpw", "tmp", "tab", "nouser", "utf8">>
PairClass(devs, c) ==
  IF HasNul(c) \/ Huge(c) THEN "invalid"
  ELSE CASE Backend(c) = "ok" -> "ok"
         [] Backend(c) = "temp" -> (IF devs \cap {"SrvTempLost", "CliTempLost"} # {} THEN "invalid" ELSE "temp")
         [] OTHER -> "invalid"
PairRuleD(devs, i) ==
  [v |-> PairClass(devs, i.cred),
   sidev |-> IF i.conc THEN [k \in 1..Len(SideCreds) |-> PairClass(devs, SideCreds[k])] ELSE <<>>,
   alive |-> TRUE,
   calls |-> IF HasNul(i.cred) \/ Huge(i.cred) THEN <<>> ELSE <<i.cred>>]
PairViol(i, o) ==
  LET bad(name, cond) == IF cond THEN {} ELSE {name} IN
       bad("NoCrash", o.alive)
  \cup bad("NoPanic", o.v # "panic" /\ \A k \in DOMAIN o.sidev : o.sidev[k] # "panic")
  \cup bad("NoHang", o.v # "hang" /\ \A k \in DOMAIN o.sidev : o.sidev[k] # "hang")
  \cup bad("VerdictEqualsBackend",
           /\ o.v = "ok" => (Backend(i.cred) = "ok" /\ ~HasNul(i.cred))
           /\ (Backend(i.cred) = "ok" /\ ~HasNul(i.cred) /\ ~Huge(i.cred)) => o.v = "ok")
  \cup bad("NoMixUp", \A k \in DOMAIN o.sidev : (o.sidev[k] = "ok") <=> (Backend(SideCreds[k]) = "ok"))
  \cup bad("TempMarked", (Backend(i.cred) = "temp" => o.v = "temp")
                          /\ \A k \in DOMAIN o.sidev : Backend(SideCreds[k]) = "temp" => o.sidev[k] = "temp")
  \cup bad("ExactPair", \A k \in DOMAIN o.calls : o.calls[k] = i.cred)
PairStart == /\ in \in {[side |-> "pair", login |-> lg, cred |-> c, conc |-> cc] : lg \in BOOLEAN, c \in Creds, cc \in BOOLEAN}
             /\ ms = [ph |-> "pair"] /\ fin = TRUE

-----------------------------------------------------------------------------
RuleD(devs, i) == CASE i.side = "srv" -> SrvRuleD(devs, i) [] i.side = "cli" -> CliRuleD(devs, i) [] i.side = "pair" -> PairRuleD(devs, i)
Rule(i) == RuleD({}, i)
Viol(i, o) == CASE i.side = "srv" -> SrvViol(i, o) [] i.side = "cli" -> CliViol(i, o) [] i.side = "pair" -> PairViol(i, o)
Prop(i, o) == Viol(i, o) = {}
SameOut(a, b) == a = b
Explains(devsets, i, o) == {d \in devsets : SameOut(o, RuleD(d, i))}

Init == CASE Side = "srv" -> SrvStart [] Side = "cli" -> CliStart [] Side = "pair" -> PairStart
Next == CASE Side = "srv" -> SrvNext [] Side = "cli" -> CliNext [] Side = "pair" -> UNCHANGED vars
Spec == Init /\ [][Next]_vars

(* checked on every complete behaviour *)
RuleSatisfiesProp == fin => Prop(in, Rule(in))
AsIsSatisfiesProp == fin => Prop(in, RuleD(Devs, in))
(* the generator never sends on a connection the documented server has closed, never more than MaxReq requests *)
ScriptShape == Side = "srv" => NReq(in.lines) <= MaxReq + 1   \* + the AUTH that interrupts a continuation
Emit == (Gen /\ fin) => PrintT(<<"ROW", ToJson([in |-> in, exp |-> Rule(in)])>>)
=============================================================================
