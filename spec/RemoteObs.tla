----------------------------- MODULE RemoteObs -----------------------------
(***************************************************************************)
(* Observation state and property predicates for outbound delivery        *)
(* security (property C05).  Everything here is a pure function of        *)
(*   - the configuration and the environment facts of the behaviour       *)
(*     (`cfg`: enabled policies, minimum levels, override switch, what    *)
(*     DNS / MTA-STS publish, how each MX behaves),                       *)
(*   - the flags of the message being delivered,                          *)
(*   - what the scripted MX servers SAW: over which connection (MX, TLS   *)
(*     state, certificate class) message content arrived, and             *)
(*   - the error class returned to the caller of AddRcpt/Body.            *)
(* Nothing refers to the step machine of Remote.tla (no levels computed   *)
(* by the implementation, no pool, no program counter): PolicyOK is the   *)
(* property statement itself.  The same operators fold `obs` in the       *)
(* design spec (checked exhaustively by TLC) and in RemoteTrace.tla (fed  *)
(* with events recorded from the real remote.Target).                     *)
(*                                                                         *)
(* cfg  = [pols : SUBSET {"mtasts","dane","dnssec","local"},              *)
(*         minTLS, minMX : 0..2,      (local_policy; used iff "local")    *)
(*         override : BOOLEAN,        (requiretls_override)               *)
(*         sts : "none"|"testing"|"enforce",  (published MTA-STS policy)  *)
(*         adMX : BOOLEAN,            (AD bit on the MX answer)           *)
(*         dns : "ok"|"servfail",     (MX lookup itself)                  *)
(*         mx : Seq([stls : "offered"|"stripped"|"cmdfail"|"hsfail",      *)
(*                   cert : "valid"|"selfsigned"|"wrongname",             *)
(*                   stsMatch : BOOLEAN,                                  *)
(*                   tlsa : "insecure"|"none"|"ee_match"|"ta_match"|      *)
(*                          "mismatch"|"unusable"|"servfail",             *)
(*                   cn : "no"|"sec"|"half"|"insec", tlsaC : as tlsa])]   *)
(*        tlsa is the outcome of the TLSA lookup under the MX name        *)
(*        ("insecure": the host's address records / the TLSA RRset are    *)
(*        not DNSSEC-authenticated; "none": authenticated denial).  cn    *)
(*        says whether the MX name is a CNAME: "sec" the whole chain to   *)
(*        the address records is authenticated, "half" only the CNAME     *)
(*        record itself is, "insec" nothing is; tlsaC is the outcome of   *)
(*        the lookup under the canonical name.  EffTLSA is the discovery  *)
(*        rule of RFC 7672 section 2.2.2.                                  *)
(*         res : Seq([loop : BOOLEAN, fail : SUBSET {"MX", "HOST"}])]      *)
(*        res is the resolver list of the DNSSEC-aware stub resolver, in   *)
(*        the order the servers are asked: loop = the server's address is  *)
(*        on the loopback interface, fail = the classes of queries it does *)
(*        not answer (SERVFAIL): "MX" the MX query of the recipient domain,*)
(*        "HOST" every query about an MX host (addresses, CNAME, TLSA).    *)
(*        adMX, tlsa, cn, tlsaC are what the ANSWERING server claims; an   *)
(*        AD flag is evidence of DNSSEC validation only when it comes from *)
(*        a loopback server (docs: "a DNSSEC-validating LOCAL resolver";   *)
(*        a flag received over the network can be forged), see Trusted.    *)
(* msg  = [reqtls, tlsno, quar, mailfail, qlate, na, pre : BOOLEAN,        *)
(*         late : "no"|"none"|"testing"|"match"]                           *)
(* conn = [mx : index, tls : "none"|"enc-unauth"|"enc-auth", cert]        *)
(*        "enc-auth": handshake completed on a certificate that is valid  *)
(*        for the MX name under the trusted CA (PKIX).                    *)
(***************************************************************************)
EXTENDS Naturals, Sequences, FiniteSets

(* mailfail: the MX refuses MAIL FROM of this message (4xx) while the session stays   *)
(* healthy; qlate: the quarantine flag is raised between AddRcpt and the body call   *)
(* (a body-stage check of the pipeline); na: the body is handed over through         *)
(* PartialDelivery.BodyNonAtomic instead of Body                                      *)
(* pre: the message has an earlier recipient in ANOTHER domain whose MX is fully      *)
(* authenticated but does not offer the REQUIRETLS extension (relaxed_requiretls)     *)
(* late: the message has an earlier recipient in ANOTHER domain whose MX lookup fails    *)
(* (that recipient is refused) while the MTA-STS policy lookup started for it is still  *)
(* unanswered; it answers once delivery to this domain has begun - before this domain's *)
(* own policy lookup - with: "none" no policy, "testing" a testing-mode policy,         *)
(* "match" an enforce-mode policy that lists the MX candidates of THIS domain (what a   *)
(* domain controlled by whoever spoofed this domain's MX answer would publish).  The    *)
(* requirements on the connection do not depend on it: PolicyOK never reads the field.  *)
NoMsg == [reqtls |-> FALSE, tlsno |-> FALSE, quar |-> FALSE, mailfail |-> FALSE, qlate |-> FALSE, na |-> FALSE,
          pre |-> FALSE, late |-> "no"]

(* ---- which resolver answers, and whether its AD flag means anything ---- *)
DefaultRes == <<[loop |-> TRUE, fail |-> {}]>>
RECURSIVE FirstAnswering(_, _, _)
FirstAnswering(rs, q, i) == IF i > Len(rs) THEN 0
                            ELSE IF q \notin rs[i].fail THEN i ELSE FirstAnswering(rs, q, i + 1)
Answering(cfg, q) == FirstAnswering(cfg.res, q, 1)
Trusted(cfg, q) == Answering(cfg, q) # 0 /\ cfg.res[Answering(cfg, q)].loop
(* the MX RRset is DNSSEC-authenticated *)
AdMX(cfg) == cfg.adMX /\ Trusted(cfg, "MX")

(* policies in force for a message: void only under TLS-Required: No with *)
(* the override enabled                                                    *)
InForce(cfg, m) == IF m.tlsno /\ cfg.override THEN {} ELSE cfg.pols

Encrypted(f) == f.tls \in {"enc-unauth", "enc-auth"}
PKIXAuth(f)  == f.tls = "enc-auth"

(* which TLSA outcome governs the MX (RFC 7672 2.2.2): records at the canonical   *)
(* name when that RRset is authenticated and non-empty, else the original name;   *)
(* a lookup failure at the name being consulted is a discovery failure            *)
EffTLSA(f) ==
  CASE f.cn = "no"    -> f.tlsa
    [] f.cn = "insec" -> "insecure"
    [] OTHER -> IF f.tlsaC = "servfail" THEN "servfail"
                ELSE IF f.tlsaC \notin {"insecure", "none"} THEN f.tlsaC
                ELSE f.tlsa

UsableTLSA(t) == t \in {"ee_match", "ta_match", "mismatch"}
(* DANE-EE ignores names and PKIX; DANE-TA needs a chain to the asserted  *)
(* trust anchor AND the right name (RFC 7672 3.1.1 / 3.1.2)               *)
DaneMatch(t, cert) == t = "ee_match" \/ (t = "ta_match" /\ cert = "valid")

(* ... as far as the facts about the host are authenticated at all *)
EffTLSAc(cfg, f) == IF Trusted(cfg, "HOST") THEN EffTLSA(f) ELSE "insecure"

TLSAuth(cfg, P, f) ==
  \/ PKIXAuth(f)
  \/ "dane" \in P /\ Encrypted(f) /\ DaneMatch(EffTLSAc(cfg, cfg.mx[f.mx]), f.cert)

(* documented security levels (docs/seclevels.md) *)
TLSLevelOf(cfg, P, f) == IF TLSAuth(cfg, P, f) THEN 2 ELSE IF Encrypted(f) THEN 1 ELSE 0
MXLevelOf(cfg, P, i) ==
  IF "dnssec" \in P /\ AdMX(cfg) THEN 2
  ELSE IF "mtasts" \in P /\ cfg.sts # "none" /\ cfg.mx[i].stsMatch THEN 1
  ELSE 0

(* the clauses of the statement, one name each *)
Clauses(cfg, m, f) ==
  LET P == InForce(cfg, m)
      t == EffTLSAc(cfg, cfg.mx[f.mx]) IN
  [ Quarantined |-> ~m.quar,
    MTASTS      |-> ("mtasts" \in P /\ cfg.sts = "enforce") => (cfg.mx[f.mx].stsMatch /\ PKIXAuth(f)),
    DANE        |-> ("dane" \in P /\ UsableTLSA(t)) => (Encrypted(f) /\ DaneMatch(t, f.cert)),
    DiscoveryUnauth |-> ("dane" \in P /\ t = "servfail") => PKIXAuth(f),
    MinTLS      |-> "local" \in P => TLSLevelOf(cfg, P, f) >= cfg.minTLS,
    MinMX       |-> "local" \in P => MXLevelOf(cfg, P, f.mx) >= cfg.minMX,
    REQUIRETLS  |-> m.reqtls => (TLSAuth(cfg, P, f) /\ MXLevelOf(cfg, P, f.mx) >= 1) ]

PolicyOK(cfg, m, f) == \A c \in DOMAIN Clauses(cfg, m, f) : Clauses(cfg, m, f)[c]

(* "DNSSEC/TLSA discovery fails": every MX candidate the policies admit   *)
(* has an unanswerable TLSA lookup, or the MX lookup itself fails          *)
DiscoveryFailure(cfg, m) ==
  LET P == InForce(cfg, m) IN
  /\ ~m.quar
  /\ \/ cfg.dns = "servfail"
     \/ /\ "dane" \in P
        /\ \A i \in 1..Len(cfg.mx) :
             /\ EffTLSAc(cfg, cfg.mx[i]) = "servfail"
             /\ ~("mtasts" \in P /\ cfg.sts = "enforce" /\ ~cfg.mx[i].stsMatch)

ObsInit == [msg |-> NoMsg, n |-> 0, viol |-> {}]

V(o, c, name) == IF c THEN o ELSE [o EXCEPT !.viol = @ \cup {[p |-> name, m |-> o.n]}]

ObsMsg(o, m) == [o EXCEPT !.msg = m, !.n = @ + 1]

(* the message in delivery has been quarantined *)
ObsQuar(o) == [o EXCEPT !.msg.quar = TRUE]

(* message content arrived at an MX over a connection with facts f *)
ObsData(o, cfg, f) ==
  LET cl == Clauses(cfg, o.msg, f)
      bad == {c \in DOMAIN cl : ~cl[c]} IN
  [o EXCEPT !.viol = @ \cup {[p |-> c, m |-> o.n] : c \in bad}]

(* AddRcpt / Body returned with an error class ("ok", "temp", "perm") *)
ObsRet(o, cfg, op, res) ==
  V(o, ~(op = "addrcpt" /\ res = "perm" /\ DiscoveryFailure(cfg, o.msg)), "DiscoveryNotDeferred")
=============================================================================
