SPECIFICATION SimSpec
CONSTANTS
  Addrs = {"a", "aC", "aW", "b", "bC", "bA", "u", "x", "s", "sC", "g", "f"}
  MaxList = 3
  MaxMsgs = 2
  Norms = {"precis_casefold_email", "precis_email", "casefold", "noop"}
  DMaps = {FALSE, TRUE}
  NFilts = {0, 1, 2}
  Out1 = {"e", "n", "nF", "w", "wF", "x"}
  Out2 = {"e", "n", "r", "x"}
  JBoxes = {"none", "special", "plain"}
  JunkNames = {"Junk", "Suspect"}
  QuarSet = {FALSE, TRUE}
  WatchSet = {FALSE, TRUE}
  EnvActs = {"Delete", "Login"}
  DelAccts = {"a", "b"}
  Faults = TRUE
  Devs = {"CaseKey", "MapErrPerm", "BlobLeak", "EarlyNotify"}
  Gen = TRUE
CHECK_DEADLOCK FALSE
