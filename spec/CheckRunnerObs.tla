--------------------------- MODULE CheckRunnerObs ---------------------------
(***************************************************************************)
(* Observation state and property predicates of property C06 ("check       *)
(* verdicts are always enforced and every check sees every stage once").   *)
(* Everything here is a pure function of the configuration of the run and  *)
(* of the events visible at the pipeline's boundaries:                      *)
(*   Cmd       the driver issues Start / AddRcpt / Body(NonAtomic) /        *)
(*             Commit / Abort on the module.DeliveryTarget interface of     *)
(*             the pipeline,                                                *)
(*   CheckCall a scripted check finished Check{Connection,Sender,Rcpt,Body} *)
(*             and returned the verdict its configuration prescribes,       *)
(*   TgtCall   a call arrived at a delivery target (with the value of       *)
(*             MsgMetadata.Quarantine it saw),                              *)
(*   Ret       the command returned (ok / error),                           *)
(*   End       the message is over.                                         *)
(* The same operators fold `obs` in the design spec (CheckRunner.tla,       *)
(* checked exhaustively by TLC) and in the trace spec (CheckRunnerTrace.tla,*)
(* fed with events recorded from the real msgpipeline.MsgPipeline).         *)
(*                                                                         *)
(* Weak readings (DESIGN.md 2.5):                                          *)
(*  - calls for recipients outside the check's scope are not counted;      *)
(*  - calls made during a command that is then refused are not counted as  *)
(*    repetitions (the pipeline may discard the state it created for a     *)
(*    refused recipient and create a new one later), but they do count as  *)
(*    "has seen";                                                          *)
(*  - a verdict for a replayed recipient other than the one being handled   *)
(*    is moot (that recipient was answered already): a reject need not     *)
(*    refuse anything and a quarantine need not stick; what a replayed     *)
(*    reject must NOT do is refuse a different recipient                   *)
(*    (RefusedWithoutReject);                                              *)
(*  - a quarantine verdict issued during a command that is refused need    *)
(*    not stick (it may, see QuarantineWithoutVerdict).                    *)
(*                                                                         *)
(* Further dimensions of the configuration:                                 *)
(*  early/everd  the checks of the global block that have the connection-   *)
(*    time hook (module.EarlyCheck) and those of them that refuse the       *)
(*    connection.  Command "early" is MsgPipeline.RunEarlyChecks (what the  *)
(*    endpoint calls for a new connection); check calls of it carry stage   *)
(*    "early".  The statement's "at connection stage ... rejects => the     *)
(*    corresponding command is refused" is all that is asked of it: how     *)
(*    often a hook is called per connection is not constrained.             *)
(*  dupof  the client may name the same address in several RCPT commands of *)
(*    one transaction: recipient ids are per ADDRESS, so command "rcpt r1"  *)
(*    may occur twice.  A recipient that a check refused is refused again   *)
(*    when the command is repeated (whether or not the check is asked       *)
(*    again); a check that saw it in an accepted command is not shown it    *)
(*    again.  On the per-recipient body path the result of "body" is "ok"   *)
(*    iff SOME RCPT command's reply slot ends up with a success (go-smtp's  *)
(*    LMTP collector: one slot per RCPT command, a slot nobody fills gets   *)
(*    the result of the final Commit).                                      *)
(*  dmarc  "off" | "none" | "quar" | "rej": the action the published DMARC  *)
(*    policy prescribes for the message (DMARC fails in every scenario that *)
(*    has a policy); "rej" refuses the body like a rejecting check does.    *)
(*    dmvia says HOW that policy is published (p= / sp= of a record at the  *)
(*    From domain or at its organizational domain, C07's ground): the       *)
(*    predicates do not read it.                                            *)
(***************************************************************************)
EXTENDS Naturals, Sequences, FiniteSets

Stages   == {"conn", "sender", "rcpt", "body"}
Verdicts == {"none", "ignore", "quar", "reject"}
\* a check may also return the raw combined result Reject && Quarantine (check.milter: quarantine
\* action followed by reject/tempfail), with a Reason that carries an SMTP code ("rq") or is a plain
\* error ("rqp"): reject wins - the command is refused and nothing is delivered
Combined == {"rq", "rqp"}
IsRej(v)  == v \in {"reject"} \cup Combined
IsQuar(v) == v \in {"quar"} \cup Combined
DBlocks  == {"D1", "D2"}
Scopes   == {"G", "S"} \cup DBlocks
RcptSeq  == <<"r1", "r2", "r3">>
RcptIds  == {"r1", "r2", "r3"}
Targets  == {"T1", "T2"}
TargetOf(b) == IF b = "D1" THEN "T1" ELSE "T2"

(* ---- configuration helpers; c = [place, verd, only1, route, path, dmarc, kind, mod, mfail]      *)
(* kind: "pipe" recording targets; "rpipe" the real remote target behind block D1; "remote" the  *)
(* remote target alone with an already flagged message; "qpipe" the real queue behind D1: what   *)
(* the queue later hands to its own target (the real remote target) is the call "relay" on "Q1"   *)
AllChecks(c)    == DOMAIN c.place
ChecksIn(c, b)  == {k \in AllChecks(c) : b \in c.place[k]}
RIndex(r)       == CHOOSE i \in 1..3 : RcptSeq[i] = r
RouteOf(c, r)   == c.route[RIndex(r)]
RcptVerdict(c, k, r) == IF k \in c.only1 /\ r # "r1" THEN "none" ELSE c.verd[k]["rcpt"]
VerdictOf(c, k, stage, arg) == IF stage = "rcpt" THEN RcptVerdict(c, k, arg) ELSE c.verd[k][stage]
InScope(c, k, r)   == c.place[k] \cap {"G", "S", RouteOf(c, r)} # {}
ScopeChecks(c, r)  == ChecksIn(c, "G") \cup ChecksIn(c, "S") \cup ChecksIn(c, RouteOf(c, r))
BodyChecks(c, acc) == ChecksIn(c, "G") \cup ChecksIn(c, "S")
                        \cup UNION {ChecksIn(c, RouteOf(c, r)) : r \in acc}

(***************************************************************************)
(* The accept/refuse outcome the property prescribes, as a function of the *)
(* configuration alone: it mentions neither the body path (atomic / per-   *)
(* recipient) nor the order in which parallel checks finish, so            *)
(* "OutcomeNotAsSpecified" is the clause "the outcome is the same over     *)
(* SMTP and LMTP and for every completion order".                          *)
(***************************************************************************)
ExpRefused(c, op, r, acc) ==
  CASE op = "early" -> c.everd # {}
    [] op = "start" -> \E k \in ChecksIn(c, "G") \cup ChecksIn(c, "S") :
                          IsRej(c.verd[k]["conn"]) \/ IsRej(c.verd[k]["sender"])
    [] op = "rcpt"  -> \E k \in ScopeChecks(c, r) :
                          \/ IsRej(c.verd[k]["conn"]) \/ IsRej(c.verd[k]["sender"])
                          \/ IsRej(RcptVerdict(c, k, r))
    [] op = "body"  -> \/ \E k \in BodyChecks(c, acc) : IsRej(c.verd[k]["body"])
                       \/ c.dmarc = "rej"
    [] OTHER -> FALSE

ObsInit(CS) ==
  [ n      |-> 0,          \* number of the current / last command
    open   |-> FALSE,      \* a command is in progress
    op     |-> "", r |-> "",
    modCur |-> FALSE,      \* a recipient modifier of the destination block failed during the current command
    touchR |-> {},         \* recipients refused by such a failure after their block's checks had passed
    rejCur |-> FALSE,      \* an enforceable reject verdict was returned during the current command
    qCur   |-> FALSE,      \* an enforceable quarantine verdict was returned during the current command
    cur    |-> [k \in CS |-> {}],   \* stages/recipients shown to k during the current command
    accK   |-> [k \in CS |-> {}],   \* ... during accepted commands
    totK   |-> [k \in CS |-> {}],   \* ... at all
    accR   |-> {}, refR |-> {},     \* recipients accepted / refused so far
    rejR   |-> {},         \* recipients refused in a command during which a check rejected them
    lastOk |-> FALSE,      \* result of the last command
    qReq   |-> FALSE,      \* a quarantine verdict was returned during an accepted command
    qAny   |-> FALSE,      \* a quarantine verdict was returned at all
    tF     |-> FALSE,      \* some target saw Quarantine = FALSE at body / commit
    dead   |-> FALSE,      \* the message was refused as a whole by a check (sender or body stage)
    extra  |-> FALSE,      \* some check was shown a recipient outside its scope (reported only)
    viol   |-> {} ]

V(o, cond, name) == IF cond THEN o ELSE [o EXCEPT !.viol = @ \cup {name}]

ObsCmd(o, c, op, r) ==
  [o EXCEPT !.n = @ + 1, !.open = TRUE, !.op = op, !.r = r, !.rejCur = FALSE, !.qCur = FALSE,
            !.modCur = FALSE,
            !.cur = [k \in DOMAIN o.cur |-> {}]]

(* a check call finished; cmd = number of the command during which it was started *)
ObsCall(o, c, k, stage, arg, v, cmd) ==
  LET late    == ~o.open \/ cmd # o.n
      key     == IF stage = "rcpt" THEN arg ELSE stage
      counted == stage # "rcpt" \/ InScope(c, k, arg)
      enf     == stage # "rcpt" \/ (o.op = "rcpt" /\ arg = o.r)
      o0 == [o EXCEPT !.qAny = @ \/ IsQuar(v)]
  IN IF late
     THEN \* the command returned without waiting for this check
          LET o1 == V(o0, ~(IsRej(v) /\ o.lastOk /\ enf), "RejectNotEnforced")
              o2 == [o1 EXCEPT !.qReq = @ \/ (v = "quar" /\ o.lastOk /\ enf),
                               !.totK[k] = IF counted THEN @ \cup {key} ELSE @]
          IN o2
     ELSE LET o1 == V(o0, ~(counted /\ key \in o.cur[k]), "StageRepeated")
          IN [o1 EXCEPT !.rejCur = @ \/ (IsRej(v) /\ enf),
                        !.qCur = @ \/ (v = "quar" /\ enf),
                        !.cur[k] = IF counted THEN @ \cup {key} ELSE @,
                        !.extra = @ \/ ~counted]

(* a call arrived at a delivery target; q = MsgMetadata.Quarantine as the target saw it *)
ObsTgt(o, c, t, op, arg, res, q) ==
  LET mustQ == o.qReq \/ o.qCur \/ (c.dmarc = "quar" /\ op \in {"body", "bodyNA"})
                \/ (c.dmarc = "quar" /\ op \in {"commit", "relay"})
      mayQ  == o.qAny \/ c.dmarc = "quar" \/ c.kind = "remote"
      o1 == CASE op = "rcpt" -> V(o, ~o.rejCur /\ ~o.modCur /\ ~o.dead /\ arg \notin o.refR, "DeliveredAfterReject")
              [] op \in {"body", "bodyNA"} -> V(o, ~o.rejCur /\ ~o.dead /\ c.dmarc # "rej", "DeliveredAfterReject")
              [] op \in {"commit", "relay"} -> V(o, ~o.dead, "DeliveredAfterReject")
              [] OTHER -> o
      o2 == IF op \in {"body", "bodyNA", "commit", "relay"}
            THEN V([o1 EXCEPT !.tF = @ \/ ~q], mustQ => q, "QuarantineNotSeen")
            ELSE o1
      o3 == V(o2, q => mayQ, "QuarantineWithoutVerdict")
  \* the remote target refuses a flagged message for good (a transient failure is not a refusal)
  IN V(o3, ((c.kind \in {"remote", "rpipe"} /\ q /\ op \in {"rcpt", "body", "bodyNA"})
            \/ (c.kind = "qpipe" /\ q /\ op = "relay")) => res = "perm",
       "RemoteAcceptedQuarantined")

(* the recipient modifier of destination block blk was asked to rewrite r; res = "ok" | "err" *)
ObsMod(o, c, blk, r, res) == [o EXCEPT !.modCur = @ \/ res # "ok"]

Fold(o, accepted) ==
  LET o1 == IF accepted
            THEN V(o, \A k \in DOMAIN o.cur : o.cur[k] \cap o.accK[k] = {}, "StageRepeated")
            ELSE o
  IN [o1 EXCEPT !.accK = [k \in DOMAIN o.cur |-> IF accepted THEN o.accK[k] \cup o.cur[k] ELSE o.accK[k]],
                !.totK = [k \in DOMAIN o.cur |-> o.totK[k] \cup o.cur[k]],
                !.cur  = [k \in DOMAIN o.cur |-> {}]]

(* the command returned; res = "ok" | "err" (per-recipient body path: "ok" iff some
   recipient got a success status) *)
ObsRet(o, c, op, r, res) ==
  IF op \notin {"early", "start", "rcpt", "body"} THEN [o EXCEPT !.open = FALSE]
  ELSE
  LET acc == res = "ok"
      \* the only target is the real remote target and the message is flagged: it refuses the body
      qref == c.kind = "rpipe" /\ op = "body" /\ (o.qReq \/ o.qCur \/ c.dmarc = "quar")
      \* destination blocks whose checks passed for a recipient that a modifier then refused may or
      \* may not take part in the body stage
      \* the published DMARC policy refuses the message
      drej == op = "body" /\ c.dmarc = "rej"
      \* the command repeats a recipient that a check has refused: refused again, asked again or not
      again == op = "rcpt" /\ r \in o.rejR
      must == ExpRefused(c, op, r, o.accR) \/ qref
      may  == ExpRefused(c, op, r, o.accR \cup o.touchR) \/ qref \/ o.modCur
      o1 == V(o, ~(acc /\ o.rejCur), "RejectNotEnforced")
      o2 == V(o1, ~(~acc /\ ~o.rejCur /\ ~o.modCur /\ ~qref /\ ~drej /\ ~again), "RefusedWithoutReject")
      o3 == V(o2, (must => ~acc) /\ (~acc => may), "OutcomeNotAsSpecified")
      o3b == V(o3, ~(acc /\ qref), "RemoteAcceptedQuarantined")
      o4 == Fold(o3b, acc)
      accR1 == IF acc /\ op = "rcpt" THEN o.accR \cup {r} ELSE o.accR
      need(k) == CASE op = "early" -> {}
                   [] op = "start" -> IF k \in ChecksIn(c, "G") \cup ChecksIn(c, "S")
                                      THEN {"conn", "sender"} ELSE {}
                   [] op = "rcpt"  -> IF k \in ScopeChecks(c, r) THEN {"conn", "sender", r} ELSE {}
                   [] op = "body"  -> IF k \in BodyChecks(c, accR1)
                                      THEN {"conn", "sender", "body"} \cup {x \in accR1 : InScope(c, k, x)}
                                      ELSE {}
      o5 == IF acc THEN V(o4, \A k \in DOMAIN o4.totK : need(k) \subseteq o4.totK[k], "StageMissing")
            ELSE o4
  IN [o5 EXCEPT !.open = FALSE, !.lastOk = acc,
                !.accR = accR1,
                !.refR = IF ~acc /\ op = "rcpt" THEN @ \cup {r} ELSE @,
                !.rejR = IF ~acc /\ op = "rcpt" /\ o.rejCur THEN @ \cup {r} ELSE @,
                !.touchR = IF ~acc /\ op = "rcpt" /\ o.modCur /\ ~o.rejCur THEN @ \cup {r} ELSE @,
                !.qReq = @ \/ (acc /\ o.qCur),
                !.dead = @ \/ (~acc /\ op \in {"start", "body"} /\ (o.rejCur \/ drej)),
                !.rejCur = FALSE, !.qCur = FALSE, !.modCur = FALSE]

ObsEnd(o, c) == V(o, ~(o.qReq /\ o.tF), "QuarantineNotSeen")
=============================================================================
