------------------------------ MODULE FutureObs ------------------------------
(***************************************************************************)
(* Observation state and property predicates of framework/future.Future    *)
(* (extension X12).  Everything is a function of what the callers see:     *)
(* when a call of Get / GetContext / Set starts (its goroutine leaves      *)
(* "start"), when it returns and with what ("done" and res), when a        *)
(* context is cancelled, whether a goroutine panicked.                     *)
(*   res[g]: 0 = nothing yet, -1 = the context's error, -2 = panicked,     *)
(*           v > 0 = the value v (getters); 1 = returned (setters)         *)
(* Setter t calls Set(ValOf(t), nil).                                      *)
(***************************************************************************)
EXTENDS Integers, Sequences, FiniteSets

CONSTANTS Getters,     \* goroutines calling GetContext / Get
          CtxGetters,  \* the ones whose context can be cancelled (the others call Get())
          Setters      \* goroutines calling Set, each once

Gs == Getters \cup Setters
ValOf(t) == IF t = "t1" THEN 1 ELSE IF t = "t2" THEN 2 ELSE 3

ObsInit ==
  [ pcs      |-> [g \in Gs |-> "start"],
    called   |-> {},          \* calls that started
    retd     |-> {},          \* calls that returned
    offered  |-> {},          \* values some Set was called with
    first    |-> {},          \* values of the Set calls that started before any Set call had returned
    setDone  |-> FALSE,       \* some Set call has returned
    cancelled |-> {},
    got      |-> {},          \* values Get calls returned
    viol     |-> {} ]

V(o, c, name) == IF c THEN o ELSE [o EXCEPT !.viol = @ \cup {name}]

\* one goroutine's change between two probes
One(o, g, pc, r) ==
  LET starts  == o.pcs[g] = "start" /\ pc # "start"
      returns == o.pcs[g] # "done" /\ pc = "done"
      o1 == IF starts
            THEN [o EXCEPT !.called = @ \cup {g},
                           !.offered = IF g \in Setters THEN @ \cup {ValOf(g)} ELSE @,
                           !.first = IF g \in Setters /\ ~o.setDone THEN @ \cup {ValOf(g)} ELSE @]
            ELSE o
      o2 == IF ~returns THEN o1
            ELSE IF r = -2 THEN V([o1 EXCEPT !.retd = @ \cup {g}], FALSE, "Panicked")
            ELSE IF g \in Setters THEN [o1 EXCEPT !.retd = @ \cup {g}, !.setDone = TRUE]
            ELSE IF r = -1
                 THEN V([o1 EXCEPT !.retd = @ \cup {g}], g \in o1.cancelled, "CtxErrorWithoutCancel")
            ELSE LET a == V([o1 EXCEPT !.retd = @ \cup {g}, !.got = @ \cup {r}], r \in o1.offered, "ValueFromNowhere")
                     b == V(a, o1.got \subseteq {r}, "GetsDisagree")
                 \* "Set ... All currently blocked and future Get calls will return it": a Set called after another
                 \* one returned must not replace the value (from the code: "Future.Set called multiple times")
                 IN V(b, r \notin o1.offered \/ r \in o1.first, "LaterSetOverwrote")
  IN [o2 EXCEPT !.pcs[g] = pc]

RECURSIVE FoldAll(_, _, _, _)
FoldAll(o, S, pcs, res) ==
  IF S = {} THEN o
  ELSE LET g == CHOOSE x \in S : TRUE IN FoldAll(One(o, g, pcs[g], res[g]), S \ {g}, pcs, res)

\* setters before getters: a Set that returns in the same step in which it wakes a getter returned first
Probe(o, pcs, res) == FoldAll(FoldAll(o, Setters, pcs, res), Getters, pcs, res)

ObsEv(o, name, e) ==
  CASE name = "Step" -> Probe(o, e.pcs, e.res)
    [] name = "Cancel" -> Probe([o EXCEPT !.cancelled = @ \cup {e.g}], e.pcs, e.res)
    [] name = "End" ->
         LET o1 == V(o, \A t \in Setters : t \in o.called => t \in o.retd, "SetHangs")
         IN V(o1, \A g \in Getters : (g \in o.called /\ (o.setDone \/ g \in o.cancelled)) => g \in o.retd, "GetHangs")
    [] OTHER -> o
=============================================================================
