--------------------------- MODULE UpdatePipeTrace ---------------------------
(***************************************************************************)
(* Trace validation for UpdatePipe.tla.  trace.ndjson holds the events     *)
(* recorded from the real UnixSockPipe / PubSubPipe objects (one per       *)
(* modelled process) driven by harness/updatepipecheck, many traces        *)
(* concatenated; a "Cfg" event starts a new trace.                         *)
(*                                                                         *)
(* Every line is consumed either by the design action of that name with    *)
(* the logged arguments and results (conformance; a "Look" line must show  *)
(* exactly the socket file state, channel lengths and live goroutines of   *)
(* the design state), or - when no design action explains it - by the      *)
(* monitor-only step M_Step, which marks the trace as drifted and keeps    *)
(* folding the observation state with the same UpdatePipeObs operators.    *)
(* obs.viol depends only on the recorded events.                           *)
(***************************************************************************)
EXTENDS UpdatePipe

Trace == ndJsonDeserialize("trace.ndjson")

VARIABLES l, drift, driftAt, tno

tvars == <<vars, l, drift, driftAt, tno>>

Ev == Trace[l]
IsEv(e) == l <= Len(Trace) /\ Ev.e = e
Keep == l' = l + 1 /\ UNCHANGED <<drift, driftAt, tno>>

Publish1(d, da, o, du) ==
  TLCSet(1, TLCGet(1) \cup {[t |-> tno, drift |-> d, driftAt |-> da, viol |-> o.viol, devs |-> du]})

TInit ==
  /\ Init
  /\ l = 1 /\ drift = FALSE /\ driftAt = 0 /\ tno = 0
  /\ TLCSet(1, {})

TReset ==
  /\ IsEv("Cfg") /\ Ev.Medium = Medium
  /\ ps' = [p \in Procs |-> [life |-> "up", lis |-> "no", snd |-> "no", cid |-> 0, np |-> 0, ni |-> 0, ncl |-> 0]]
  /\ sock' = [file |-> FALSE, owner |-> "-"]
  /\ conns' = <<>>
  /\ ch' = [p \in Procs |-> <<>>] /\ wq' = [p \in Procs |-> <<>>]
  /\ subs' = [p \in Procs |-> {}] /\ usub' = [p \in Procs |-> {}]
  /\ nbad' = 0 /\ nbig' = 0 /\ ncrash' = 0 /\ devUsed' = {} /\ done' = FALSE
  /\ last' = [a |-> "Cfg"] /\ obs' = ObsInit /\ hist' = <<>>
  /\ l' = l + 1 /\ drift' = FALSE /\ driftAt' = 0 /\ tno' = Ev.t

\* the recorded step is the design action of that name with the recorded arguments and results
MatchEv(e) == \A f \in (DOMAIN e \ {"a"}) : f \in DOMAIN Ev /\ e[f] = Ev[f]
Conform ==
  /\ l <= Len(Trace) /\ Ev.e \notin {"Cfg", "Look"}
  /\ Act /\ last'.a = Ev.e /\ MatchEv(last')

LookRec(e) == [sock |-> e.sock, chl |-> [p \in Lst |-> e.chl[p]], alive |-> [p \in Procs |-> e.alive[p]]]
Now == LookOf(ps, sock, conns, ch)

C_Look ==
  /\ ~drift /\ IsEv("Look")
  /\ Now = LookRec(Ev)
  /\ obs' = ObsLook(obs, LookRec(Ev))
  /\ UNCHANGED <<dvars, last, hist>>
  /\ Keep

\* a Look line follows every step but Final; the design folds the probe of its own state, the trace the recorded one
C_Step ==
  /\ ~drift
  /\ Conform
  /\ obs' = ObsEv(obs, Ev.e, Ev)
  /\ Keep
  /\ IF Ev.e = "Final" THEN Publish1(FALSE, 0, obs', devUsed') ELSE TRUE

Explained == IF IsEv("Look") THEN Now = LookRec(Ev) ELSE ENABLED Conform

M_Step ==
  /\ l <= Len(Trace) /\ Ev.e # "Cfg"
  /\ (drift \/ ~Explained)
  /\ drift' = TRUE
  /\ driftAt' = IF drift THEN driftAt ELSE Ev.seq
  /\ obs' = IF Ev.e = "Look" THEN ObsLook(obs, LookRec(Ev)) ELSE ObsEv(obs, Ev.e, Ev)
  /\ l' = l + 1
  /\ UNCHANGED <<dvars, last, hist, tno>>
  /\ IF Ev.e = "Final" THEN Publish1(TRUE, driftAt', obs', devUsed) ELSE TRUE

TNext == TReset \/ C_Look \/ C_Step \/ M_Step
TSpec == TInit /\ [][TNext]_tvars

Post == PrintT(<<"VERDICTS", ToJson(TLCGet(1))>>)
=============================================================================
