----------------------------- MODULE MsgPrepare -----------------------------
(***************************************************************************)
(* X13 - message preparation on the Submission endpoint and the header     *)
(* fields every SMTP / LMTP endpoint of maddy adds.                         *)
(*   docs/reference/endpoints/smtp.md 126-136 (max_message_size,            *)
(*   max_header_size), 168-173 (max_received, 5.4.6), 282-288 (submission:  *)
(*   "checks whether addresses in header fields From, Sender, To, Cc, Bcc,  *)
(*   Reply-To are correct and adds Message-ID and Date if it is missing");  *)
(*   internal/endpoint/smtp/submission.go (submissionPrepare),              *)
(*   session.go (prepareBody, checkRoutingLoops), smtp.go (newSession:      *)
(*   Proto), internal/target/received.go (GenerateReceived),                *)
(*   internal/msgpipeline/msgpipeline.go 411-420, framework/module/         *)
(*   msgmetadata.go 35-37 (Proto = IANA name), 89-91 (DontTraceSender).     *)
(*                                                                         *)
(* Decision table (BUILDING.md pattern B): one state per input row.        *)
(*   in = [tab, s, h]                                                      *)
(*   s  = the session: ep (endpoint module), tls (STARTTLS completed),     *)
(*        auth (AUTH PLAIN succeeded), utf8 (MAIL FROM ... SMTPUTF8),      *)
(*        helo (spelling of the EHLO / LHLO name), rdns (what the reverse  *)
(*        lookup of the client address gives), host (the configured        *)
(*        hostname), sender (the reverse-path), maxrecv (max_received; 0 = *)
(*        not configured, the documented default 50), prev (what happened  *)
(*        to the message sent before this one in the same session)         *)
(*   h  = the shape of the header the client sends: msgid, from, sender,   *)
(*        addr = [f, k] (one of To / Cc / Bcc / Reply-To), date, nrecv     *)
(*        (Received fields already there), size                            *)
(* The specification owns the concrete strings (Msg, Conc): the harness    *)
(* only transports them.  The only non-ASCII token is written {U}          *)
(* (U-label of xn--bcher-kva) and names shown as U-labels come back as     *)
(* A-labels plus a mark in rc.u.                                           *)
(*   out = [stage, code, ench, delivered, fields, bodyOk, metaId, prevId,  *)
(*          replyId, rc]                                                   *)
(*     stage "none" (accepted) | "data" (refused after the final dot) |    *)
(*           "pre" (MAIL / RCPT / DATA refused); code / ench: the reply    *)
(*     delivered: deliveries committed on the target holding this message  *)
(*     fields: the header at the target, [k, v, q] in order, q = syntactic *)
(*           class of a Message-ID ("gen@<domain>" for <uuid@domain>) and  *)
(*           of a Date ("now": RFC 5322 date inside the run's interval)    *)
(*     rc:   clauses of the top Received field [parsed, from, rdns, ip, by,*)
(*           env, with, id, date, u]                                       *)
(***************************************************************************)
EXTENDS Naturals, Sequences, FiniteSets, TLC, Json

CONSTANTS Full, Devs, Gen
VARIABLE in
vars == <<in>>

F(k, v) == [k |-> k, v |-> v]
Range(f) == {f[i] : i \in DOMAIN f}

(* ---- concrete strings --------------------------------------------------- *)
HostName(k) == IF k = "idn" THEN "mx.xn--bcher-kva.example" ELSE "mx.example.org"
HeloName(k) == CASE k = "idn" -> "mail.xn--bcher-kva.example"
                 [] k = "literal" -> "[192.0.2.7]"
                 [] OTHER -> "client.example.net"
PtrName(k) == CASE k = "name" -> "ptr.example.net"
                [] k = "idn" -> "ptr.xn--bcher-kva.example"
                [] OTHER -> ""
SenderAddr(k) == CASE k = "null" -> ""
                   [] k = "idn" -> "sender@xn--bcher-kva.example"
                   [] OTHER -> "sender@src.example"
Conc(s) == [helo |-> HeloName(s.helo), ptr |-> PtrName(s.rdns), host |-> HostName(s.host),
            sender |-> SenderAddr(s.sender), rcpt |-> "rcpt@dst.example"]

OldRecv == F("Received", "from a.example by b.example; Mon, 02 Jan 2006 15:04:05 -0700")
RecvF(n) == [i \in 1..n |-> OldRecv]
MsgIdF(k) == CASE k = "present" -> <<F("Message-ID", "<orig.1@src.example>")>>
               [] k = "lower" -> <<F("message-id", "<orig.1@src.example>")>>
               [] OTHER -> <<>>
FromF(k) == CASE k = "absent" -> <<>>
              [] k = "empty" -> <<F("From", "")>>
              [] k = "one" -> <<F("From", "alice@example.org")>>
              [] k = "named" -> <<F("From", "Alice Adams <alice@example.org>")>>
              [] k = "two" -> <<F("From", "alice@example.org, Bob <bob@example.org>")>>
              [] k = "group" -> <<F("From", "Team: alice@example.org, bob@example.org;")>>
              [] k = "idn" -> <<F("From", "alice@xn--bcher-kva.example")>>
              [] k = "uidn" -> <<F("From", "alice@{U}.example")>>
              [] k = "bad" -> <<F("From", "alice@")>>
              [] k = "badlist" -> <<F("From", "alice@example.org, bob@")>>
SenderF(k) == CASE k = "ok" -> <<F("Sender", "carol@example.org")>>
                [] k = "bad" -> <<F("Sender", "carol@@example.org")>>
                [] OTHER -> <<>>
AddrF(a) == CASE a.k = "ok" -> <<F(a.f, "dave@example.org")>>
              [] a.k = "list" -> <<F(a.f, "dave@example.org, Erin <erin@example.org>")>>
              [] a.k = "bad" -> <<F(a.f, "dave@example.org, erin@")>>
              [] OTHER -> <<>>
DateF(k) == CASE k = "ok" -> <<F("Date", "Mon, 02 Jan 2006 15:04:05 -0700")>>
              [] k = "d1" -> <<F("Date", "Mon, 2 Jan 2006 15:04:05 -0700")>>
              [] k = "nodow" -> <<F("Date", "2 Jan 2006 15:04:05 +0100")>>
              [] k = "comment" -> <<F("Date", "Mon, 02 Jan 2006 15:04:05 +0000 (UTC)")>>
              [] k = "bad" -> <<F("Date", "yesterday at noon")>>
              [] OTHER -> <<>>
FillF(k) == CASE k = "hdrbig" -> <<F("X-Filler", "fill:5000")>>
              [] k = "hdrfit" -> <<F("X-Filler", "fill:3000")>>
              [] OTHER -> <<>>
Msg(h) == RecvF(h.nrecv) \o MsgIdF(h.msgid) \o FromF(h.from) \o SenderF(h.sender) \o AddrF(h.addr)
          \o DateF(h.date) \o <<F("Subject", "x13 probe")>> \o FillF(h.size)
BodyN(h) == CASE h.size = "msgbig" -> 20032 [] h.size = "msgfit" -> 8000 [] OTHER -> 0
\* limits the harness configures: max_header_size 4K, max_message_size 16K

(* ---- the input space -------------------------------------------------------- *)
ValidSess(s) == /\ (s.ep = "submission" => s.auth)
                /\ (s.ep = "lmtp" => ~s.tls /\ ~s.auth)
BaseS == [ep |-> "submission", tls |-> TRUE, auth |-> TRUE, utf8 |-> FALSE, helo |-> "plain", rdns |-> "name",
          host |-> "plain", sender |-> "plain", maxrecv |-> 3, prev |-> "none"]
SmtpS == [BaseS EXCEPT !.ep = "smtp", !.tls = FALSE, !.auth = FALSE]
LmtpS == [BaseS EXCEPT !.ep = "lmtp", !.tls = FALSE, !.auth = FALSE]
Three == {BaseS, SmtpS, LmtpS}
BaseH == [msgid |-> "present", from |-> "one", sender |-> "absent", addr |-> [f |-> "To", k |-> "ok"],
          date |-> "ok", nrecv |-> 0, size |-> "small"]
BareH == [BaseH EXCEPT !.msgid = "absent", !.date = "absent", !.addr = [f |-> "To", k |-> "absent"]]

HostSender == IF Full THEN {"plain", "idn"} \X {"plain", "idn", "null"}
              ELSE {<<"plain", "plain">>, <<"idn", "idn">>, <<"plain", "null">>}
SessAll == {s \in [ep : {"smtp", "submission", "lmtp"}, tls : BOOLEAN, auth : BOOLEAN, utf8 : BOOLEAN,
                   helo : {"plain", "idn", "literal"}, rdns : {"name", "idn", "nx", "temp"},
                   host : {"plain", "idn"}, sender : {"plain", "idn", "null"}, maxrecv : {3}, prev : {"none"}] :
              ValidSess(s) /\ <<s.host, s.sender>> \in HostSender}
Froms == {"absent", "empty", "one", "named", "two", "group", "idn", "uidn", "bad", "badlist"}
Dates == {"absent", "ok", "d1", "nodow", "comment", "bad"}

InSess == {[tab |-> "sess", s |-> s, h |-> h] : s \in SessAll, h \in {BaseH, BareH}}
InHdr == {[tab |-> "hdr", s |-> [BaseS EXCEPT !.utf8 = u],
           h |-> [BaseH EXCEPT !.msgid = m, !.from = f, !.sender = sd, !.date = d]] :
            u \in (IF Full THEN BOOLEAN ELSE {FALSE}), m \in {"absent", "present", "lower"}, f \in Froms,
            sd \in {"absent", "ok", "bad"}, d \in Dates}
InAddr == {[tab |-> "addr", s |-> BaseS, h |-> [BaseH EXCEPT !.addr = [f |-> af, k |-> ak], !.from = f]] :
            af \in {"To", "Cc", "Bcc", "Reply-To"}, ak \in {"absent", "ok", "list", "bad"}, f \in {"one", "named"}}
InPlain == {[tab |-> "plain", s |-> s, h |-> [BaseH EXCEPT !.msgid = m, !.from = f, !.sender = sd, !.date = d]] :
            s \in {SmtpS, LmtpS, [SmtpS EXCEPT !.auth = TRUE, !.tls = TRUE]}, m \in {"absent", "present"}, f \in Froms,
            sd \in (IF Full THEN {"absent", "bad"} ELSE {"absent"}), d \in (IF Full THEN Dates ELSE {"absent", "ok", "bad"})}
InLoop == {[tab |-> "loop", s |-> [s EXCEPT !.maxrecv = mr], h |-> [h EXCEPT !.nrecv = n]] :
            s \in Three, h \in {BaseH, BareH}, mr \in {3, 0},
            n \in {1, 2, 3, 4, 7, 49, 50, 51}}
InSize == {[tab |-> "size", s |-> s, h |-> [h EXCEPT !.size = z]] :
            s \in Three, h \in {BaseH, BareH}, z \in {"hdrfit", "hdrbig", "msgfit", "msgbig"}}
InPrev == {[tab |-> "prev", s |-> [s EXCEPT !.prev = p], h |-> h] :
            s \in Three, p \in {"ok", "refused"}, h \in {BaseH, BareH, [BaseH EXCEPT !.from = "absent"]}}
Inputs == InSess \cup InHdr \cup InAddr \cup InPlain \cup InLoop \cup InSize \cup InPrev

(* ---- what the documentation decides ----------------------------------------- *)
Sub(i) == i.s.ep = "submission"
MaxRecv(s) == IF s.maxrecv = 0 THEN 50 ELSE s.maxrecv
HdrTooBig(i) == i.h.size = "hdrbig"
MsgTooBig(i) == i.h.size = "msgbig"
Loop(i) == i.h.nrecv > MaxRecv(i.s)
FromMissing(h) == h.from \in {"absent", "empty"}
BadAddr(h) == h.from \in {"bad", "badlist"} \/ h.sender = "bad" \/ h.addr.k = "bad"
NeedsSender(h) == h.from = "two" /\ h.sender = "absent"
BadDate(h) == h.date = "bad"
SubFault(h) == FromMissing(h) \/ BadAddr(h) \/ NeedsSender(h) \/ BadDate(h)
\* not decided by the documentation: a group in From (RFC 6854), a U-label domain in a header address
Free(h) == h.from \in {"group", "uidn"}
MustRefuse(i) == HdrTooBig(i) \/ MsgTooBig(i) \/ Loop(i) \/ (Sub(i) /\ SubFault(i.h))
MustAccept(i) == ~HdrTooBig(i) /\ ~MsgTooBig(i) /\ ~Loop(i) /\ (Sub(i) => ~SubFault(i.h) /\ ~Free(i.h))

Refused(o) == o.stage = "data" /\ o.code \in 500..599
Accepted(o) == o.stage = "none" /\ o.code \in 200..299

BaseKw(s) == IF s.ep = "lmtp" THEN "LMTP" ELSE IF s.utf8 THEN "SMTP" ELSE "ESMTP"
Kw(s, a) == (IF s.utf8 THEN "UTF8" ELSE "") \o BaseKw(s) \o (IF s.tls THEN "S" ELSE "") \o a
\* RFC 3848 / RFC 6531 4.3 names; the "A" of an authenticated session may be left out (weaker reading)
AllowedWith(s) == {Kw(s, a) : a \in (IF s.auth THEN {"", "A"} ELSE {""})}
IdnShown(s) == (IF s.host = "idn" THEN {"by"} ELSE {})
               \cup (IF s.sender = "idn" THEN {"env"} ELSE {})
               \cup (IF s.ep # "submission" /\ s.helo = "idn" THEN {"from"} ELSE {})
               \cup (IF s.ep # "submission" /\ s.rdns = "idn" THEN {"rdns"} ELSE {})

Orig(i) == Msg(i.h)
NAdded(i, o) == Len(o.fields) - Len(Orig(i))
AddedF(i, o) == SubSeq(o.fields, 1, NAdded(i, o))
KeptF(i, o) == SubSeq(o.fields, NAdded(i, o) + 1, Len(o.fields))
KV(fs) == [j \in DOMAIN fs |-> F(fs[j].k, fs[j].v)]
IsMid(k) == k \in {"Message-Id", "Message-ID"}
Count(fs, P(_)) == Cardinality({j \in DOMAIN fs : P(fs[j].k)})
IsRecv(k) == k = "Received"
IsDate(k) == k = "Date"
WantMid(i) == Sub(i) /\ i.h.msgid = "absent"
WantDate(i) == Sub(i) /\ i.h.date = "absent"

\* 1. one outcome: a final reply, and the message is at the target exactly when it was accepted
P_Outcome(i, o) == /\ o.stage # "pre"
                   /\ Refused(o) \/ Accepted(o)
                   /\ Accepted(o) => o.delivered = 1
                   /\ Refused(o) => o.delivered = 0
\* 2. who is refused
P_Refuse(i, o) == /\ MustRefuse(i) => Refused(o)
                  /\ MustAccept(i) => Accepted(o)
\* 3. with which code
P_Code(i, o) ==
  Refused(o) =>
    /\ (Loop(i) /\ ~(Sub(i) /\ SubFault(i.h))) => o.code = 554 /\ o.ench = "5.4.6"
    /\ HdrTooBig(i) => o.code = 552 /\ o.ench = "5.3.4"
    /\ MsgTooBig(i) => o.code = 552 /\ o.ench = "5.3.4"
    /\ (Sub(i) /\ SubFault(i.h) /\ ~HdrTooBig(i) /\ ~MsgTooBig(i)) =>
          o.code = 554 /\ (BadDate(i.h) \/ o.ench = "5.6.0")
\* 4. what is added: one Received on top; on Submission a Message-ID / a Date exactly when missing; nothing else
P_Added(i, o) ==
  o.delivered >= 1 =>
    /\ NAdded(i, o) >= 1
    /\ LET a == AddedF(i, o) IN
         /\ a[1].k = "Received"
         /\ Count(a, IsRecv) = 1
         /\ Count(a, IsMid) = (IF WantMid(i) THEN 1 ELSE 0)
         /\ Count(a, IsDate) = (IF WantDate(i) THEN 1 ELSE 0)
         /\ Len(a) = 1 + (IF WantMid(i) THEN 1 ELSE 0) + (IF WantDate(i) THEN 1 ELSE 0)
\* 5. what the client sent is below the added fields, field by field, byte for byte; so is the body
P_Intact(i, o) ==
  o.delivered >= 1 => /\ NAdded(i, o) >= 0
                      /\ KV(KeptF(i, o)) = Orig(i)
                      /\ o.bodyOk
\* 6. the generated fields are well-formed: <unique@hostname>, the current date
P_Generated(i, o) ==
  (o.delivered >= 1 /\ NAdded(i, o) >= 1) =>
    \A j \in 1..NAdded(i, o) :
       /\ IsMid(o.fields[j].k) => o.fields[j].q = "gen@" \o HostName(i.s.host)
       /\ IsDate(o.fields[j].k) => o.fields[j].q = "now"
\* 7. the trace field: by, with, id, date
P_Received(i, o) ==
  o.delivered >= 1 =>
    /\ o.rc.parsed
    /\ o.rc.by = HostName(i.s.host)
    /\ o.rc["with"] \in AllowedWith(i.s)
    /\ o.rc.id = o.metaId /\ o.metaId # ""
    /\ o.rc.date = "now"
    /\ o.rc.env = SenderAddr(i.s.sender)
    /\ ~i.s.utf8 => Range(o.rc.u) = {}
    /\ Range(o.rc.u) \subseteq IdnShown(i.s)
\* 8. where the message came from: EHLO name, PTR name if there is one, address - except on Submission
P_From(i, o) ==
  (o.delivered >= 1 /\ o.rc.parsed) =>
    IF Sub(i) THEN o.rc.from = "" /\ o.rc.rdns = "" /\ o.rc.ip = ""
    ELSE /\ o.rc.from = HeloName(i.s.helo)
         /\ o.rc.ip = "127.0.0.1"
         /\ o.rc.rdns = PtrName(i.s.rdns)
\* 9. messages of one session do not share anything
P_Session(i, o) ==
  i.s.prev # "none" => /\ o.prevId \notin {"", "~prev-none", "~prev-data", "~prev-pre"}
                       /\ o.delivered >= 1 => o.metaId # o.prevId
                       /\ (Refused(o) /\ o.replyId # "") => o.replyId # o.prevId

PredNames == {"Outcome", "Refuse", "Code", "Added", "Intact", "Generated", "Received", "From", "Session"}
Holds(p, i, o) == CASE p = "Outcome" -> P_Outcome(i, o) [] p = "Refuse" -> P_Refuse(i, o)
                    [] p = "Code" -> P_Code(i, o) [] p = "Added" -> P_Added(i, o)
                    [] p = "Intact" -> P_Intact(i, o) [] p = "Generated" -> P_Generated(i, o)
                    [] p = "Received" -> P_Received(i, o) [] p = "From" -> P_From(i, o)
                    [] p = "Session" -> P_Session(i, o)
Viol(i, o) == {p \in PredNames : ~Holds(p, i, o)}
Prop(i, o) == Viol(i, o) = {}

(* ---- the procedure (one step per call of the code), deviations switched by devs ------------ *)
\* prepareBody: header limit -> submissionPrepare -> buffer (message limit) -> checkRoutingLoops -> pipeline
GoFromCount(h) == CASE h.from \in {"two", "group"} -> 2 [] OTHER -> 1
SubRefuses(h) == \/ FromMissing(h) \/ BadAddr(h) \/ BadDate(h)
                 \/ (GoFromCount(h) > 1 /\ h.sender = "absent")
Verdict(devs, i) ==
  IF HdrTooBig(i) THEN [code |-> 552, ench |-> "5.3.4"]
  ELSE IF Sub(i) /\ SubRefuses(i.h) THEN
         [code |-> 554, ench |-> IF FromMissing(i.h) \/ BadAddr(i.h) \/ (GoFromCount(i.h) > 1 /\ i.h.sender = "absent")
                                 THEN "5.6.0" ELSE "5.0.0"]
  ELSE IF MsgTooBig(i) THEN (IF "MsgSizeInternalError" \in devs THEN [code |-> 554, ench |-> "5.0.0"]
                             ELSE [code |-> 552, ench |-> "5.3.4"])
  ELSE IF Loop(i) THEN [code |-> 554, ench |-> "5.4.6"]
  ELSE [code |-> 250, ench |-> "2.0.0"]
WithOf(devs, s) == IF "Utf8Keyword" \in devs /\ s.utf8 /\ s.ep # "lmtp"
                   THEN "UTF8ESMTP" \o (IF s.tls THEN "S" ELSE "")
                   ELSE Kw(s, "")
AddedKeys(i) == <<"Received">> \o (IF WantMid(i) THEN <<"Message-Id">> ELSE <<>>)
                \o (IF WantDate(i) THEN <<"Date">> ELSE <<>>)
RuleD(devs, i) ==
  LET v == Verdict(devs, i)  ok == v.code = 250 IN
    [stage |-> IF ok THEN "none" ELSE "data", code |-> v.code, ench |-> v.ench,
     delivered |-> IF ok THEN 1 ELSE 0,
     added |-> IF ok THEN AddedKeys(i) ELSE <<>>,
     with |-> IF ok THEN WithOf(devs, i.s) ELSE "",
     from |-> IF ok /\ ~Sub(i) THEN HeloName(i.s.helo) ELSE "",
     rdns |-> IF ok /\ ~Sub(i) THEN PtrName(i.s.rdns) ELSE "",
     ip |-> IF ok /\ ~Sub(i) THEN "127.0.0.1" ELSE ""]
Rule(i) == RuleD({}, i)
AsIs(i) == RuleD(Devs, i)

\* a full output the rule stands for (used to check the rule against the property on the model)
FullOut(i, r) ==
  LET genq(k) == IF k = "Received" THEN "" ELSE IF k = "Date" THEN "now" ELSE "gen@" \o HostName(i.s.host)
      add == [j \in DOMAIN r.added |-> [k |-> r.added[j], v |-> "generated", q |-> genq(r.added[j])]]
      keep == [j \in DOMAIN Orig(i) |-> [k |-> Orig(i)[j].k, v |-> Orig(i)[j].v, q |-> ""]] IN
    [stage |-> r.stage, code |-> r.code, ench |-> r.ench, delivered |-> r.delivered,
     fields |-> IF r.delivered = 1 THEN add \o keep ELSE <<>>, bodyOk |-> r.delivered = 1,
     metaId |-> IF r.delivered = 1 THEN "id2" ELSE "", prevId |-> IF i.s.prev = "none" THEN "" ELSE "id1",
     replyId |-> IF r.delivered = 1 THEN "" ELSE "id2",
     rc |-> [parsed |-> r.delivered = 1, from |-> r.from, rdns |-> r.rdns, ip |-> r.ip,
             by |-> IF r.delivered = 1 THEN HostName(i.s.host) ELSE "",
             env |-> IF r.delivered = 1 THEN SenderAddr(i.s.sender) ELSE "", with |-> r.with,
             id |-> IF r.delivered = 1 THEN "id2" ELSE "", date |-> IF r.delivered = 1 THEN "now" ELSE "",
             u |-> <<>>]]

\* projection of a recorded output on what the rule speaks about
Proj(i, o) ==
  [stage |-> o.stage, code |-> o.code, ench |-> o.ench, delivered |-> o.delivered,
   added |-> IF o.delivered >= 1 /\ NAdded(i, o) >= 0
             THEN [j \in 1..NAdded(i, o) |-> IF IsMid(o.fields[j].k) THEN "Message-Id" ELSE o.fields[j].k]
             ELSE <<>>,
   with |-> o.rc["with"], from |-> o.rc.from, rdns |-> o.rc.rdns, ip |-> o.rc.ip]
SameSet(a, b) == Len(a) = Len(b) /\ Range(a) = Range(b)
SameOut(p, r) == /\ p.stage = r.stage /\ p.code = r.code /\ p.ench = r.ench /\ p.delivered = r.delivered
                 /\ SameSet(p.added, r.added) /\ p.with = r.with /\ p.from = r.from /\ p.rdns = r.rdns /\ p.ip = r.ip
\* sets of deviations that reproduce the output exactly and each member of which is needed for it
Explains(devsets, i, o) == {d \in devsets : /\ SameOut(Proj(i, o), RuleD(d, i))
                                            /\ \A x \in d : RuleD(d \ {x}, i) # RuleD(d, i)}

Init == in \in Inputs
Next == FALSE /\ UNCHANGED in
Spec == Init /\ [][Next]_vars

RuleSatisfiesProp == Prop(in, FullOut(in, Rule(in)))
\* the projection of the rule's full output is the rule's output (the two sides of the binding agree)
RuleRoundTrip == SameOut(Proj(in, FullOut(in, Rule(in))), Rule(in))
AsIsSatisfiesProp == Prop(in, FullOut(in, AsIs(in)))

RowOf(i) == [tab |-> i.tab, s |-> i.s, h |-> i.h, c |-> Conc(i.s), msg |-> Msg(i.h), body |-> BodyN(i.h)]
Emit == Gen => PrintT(<<"ROW", ToJson([in |-> RowOf(in), exp |-> Rule(in),
                                        must |-> IF MustRefuse(in) THEN "refuse" ELSE IF MustAccept(in) THEN "accept" ELSE "free"])>>)
=============================================================================
