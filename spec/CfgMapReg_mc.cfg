\* exhaustive enumeration of the registry tables; lib/checks/x08.py
SPECIFICATION Spec
CONSTANTS
  MaxBlocks = 2
  MaxUses = 2
  Gen = FALSE
INVARIANTS RuleSatisfiesProp
CHECK_DEADLOCK FALSE
