SPECIFICATION Spec
CONSTANTS
  Scopes = {"server", "client"}
  Depth = 2
  Devs = {}
  Gen = FALSE
INVARIANTS RuleSatisfiesProp
CHECK_DEADLOCK FALSE
