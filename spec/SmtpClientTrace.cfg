\* reference configuration (the configurations actually run are generated by lib/checks/x06.py)
\* trace validation (Devs = deviations of the open findings of extensions/findings.json)
SPECIFICATION TSpec
CONSTANTS
  Lmtps = {FALSE, TRUE}
  ExtNames = {"none", "utf8", "tls", "all", "rtls"}
  Certs = {"valid", "bad"}
  Replies = {"t4", "t4n", "p5", "p5n", "p5m", "p552", "e500", "e502", "okm", "drop", "garb", "lok", "lp5", "extra"}
  AddrKinds = {"asc", "idn", "nl"}
  OptSets = {"none", "utf8", "rtls", "all", "size"}
  TlsModes = {FALSE, TRUE}
  MaxRcpt = 9
  MaxTxn = 9
  MaxConn = 9
  MaxFaults = 99
  MaxAgain = 9
  FaultAfter = 0
  Devs = {"NoPoisonOnIOError", "LmtpHeloFallback", "CloseKeepsClient", "CloseAgainPanics", "HelloNamePlain"}
  Gen = FALSE
CHECK_DEADLOCK FALSE
POSTCONDITION Post

