------------------------ MODULE CheckRunnerHookTrace ------------------------
(***************************************************************************)
(* Trace validation for CheckRunner.tla from the pipeline's own point of   *)
(* view: the events come from the hooks inside internal/msgpipeline        *)
(* (verif_trace.go, build tag verif: check states wrapped where the check  *)
(* runner obtains them, target deliveries wrapped in getDelivery, the      *)
(* delivery returned by Start wrapped), recorded while the REPOSITORY'S    *)
(* OWN tests of the package run, unchanged.  lib/checks/c06.py turns each  *)
(* message into the vocabulary of CheckRunnerTrace.tla (Cfg, Cmd,          *)
(* CheckCall, TgtCall, Ret, End), naming checks, blocks, targets and       *)
(* recipients in order of first appearance; messages whose configuration   *)
(* is outside the model's alphabet are counted as skipped there.           *)
(*                                                                         *)
(* Same scheme as CheckRunnerTrace.tla (C_Step = conforming design action, *)
(* M_Step = monitor-only fold of the CheckRunnerObs predicates).  The      *)
(* differences are in the driver, which here is a test and not the         *)
(* harness: it may abort as soon as a recipient is refused, and it may simply stop ("End" closes the trace whatever   *)
(* the driver state: the predicates are judged on the prefix).             *)
(***************************************************************************)
EXTENDS CheckRunnerTrace

FinRun(op, top) ==
  IF OpenTargets = {} THEN [Idle EXCEPT !.st = "ret", !.op = op, !.res = "ok"]
  ELSE [Idle EXCEPT !.st = "tgt", !.op = op, !.tq = {[t |-> t, op |-> top] : t \in OpenTargets}]

\* the test gives up before the model's driver would
H_Abort ==
  /\ IsEv("Cmd") /\ Ev.op = "abort" /\ run.st = "idle" /\ drv.ph \in {"rcpt", "body"}
  /\ obs' = ObsCmd(obs, cfg, "abort", "")
  /\ run' = FinRun("abort", "abort")
  /\ drv' = [drv EXCEPT !.ph = "fin", !.fin = "abort"]
  /\ UNCHANGED <<cfg, k, metaQ, used, tg, devs, delays, hist>>

\* the test stopped observing
H_End ==
  /\ IsEv("End") /\ run.st = "idle" /\ drv.ph # "done"
  /\ obs' = ObsEnd(obs, cfg)
  /\ drv' = [drv EXCEPT !.ph = "done"]
  /\ UNCHANGED <<cfg, k, metaQ, used, tg, run, devs, delays, hist>>

HConform == C_Cmd \/ H_Abort \/ C_Call \/ C_Mod \/ C_Tgt \/ C_Ret \/ H_End

H_Step ==
  /\ ~drift
  /\ HConform
  /\ Keep
  /\ IF Ev.e = "End" THEN Publish(FALSE, 0, obs', devs') ELSE TRUE

HM_Step ==
  /\ l <= Len(Trace) /\ Ev.e # "Cfg"
  /\ (drift \/ ~ENABLED HConform)
  /\ drift' = TRUE
  /\ driftAt' = IF drift THEN driftAt ELSE Ev.seq
  /\ obs' = ObsApply(obs, Ev)
  /\ l' = l + 1
  /\ UNCHANGED <<cfg, drv, k, metaQ, used, tg, run, devs, delays, hist, tno>>
  /\ IF Ev.e = "End" THEN Publish(TRUE, driftAt', obs', devs) ELSE TRUE

HNext == TReset \/ H_Step \/ HM_Step
HSpec == TInit /\ [][HNext]_tvars
=============================================================================
