SPECIFICATION Spec
CONSTANTS
  NPairs = 2
  MaxTime = 2
  MaxEnv = 2
  MaxForce = 1
  EnvKinds = {"dep", "depk", "renew", "renewexp", "renewnyv", "inplace", "rm", "unread", "close", "slow"}
  InitKinds = {"good", "nocert", "nokey", "mismatch", "half", "unread", "expired"}
  Devs = {}
  Gen = FALSE
VIEW View
INVARIANTS NoViolation TypeOK ServedIsComplete NeverEmptyOnceRunning NeverWild
CHECK_DEADLOCK FALSE
