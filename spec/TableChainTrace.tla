-------------------------- MODULE TableChainTrace --------------------------
(***************************************************************************)
(* Code -> model for TableChain.tla: one "Row" event per chain row run     *)
(* through the real table.chain (built by the module registry from         *)
(* configuration text): [t, seq, e |-> "Row", in, out |-> [res, vs, val,   *)
(* ok]].  Same evaluation as RewriteTrace.tla.                             *)
(***************************************************************************)
EXTENDS TableChain

CONSTANT OpenDevs

TRows == ndJsonDeserialize("trace.ndjson")

OutOf(r) == [res |-> r.out.res, vs |-> r.out.vs, val |-> r.out.val, ok |-> r.out.ok]
Conf(i, o, ds) == LET p == RuleWith(i, ds) IN o.res = p.res /\ (o.res = "ok" => o.vs = p.vs)
DevSets == (SUBSET OpenDevs) \ {{}}
Explains(i, o) == {ds \in DevSets : Conf(i, o, ds)}
Bad(r) == Viol(r.in, OutOf(r)) # {} \/ ~Conf(r.in, OutOf(r), {})
Verdict(r) == [t |-> r.t, drift |-> ~Conf(r.in, OutOf(r), {}), driftAt |-> r.seq,
               viol |-> Viol(r.in, OutOf(r)), devs |-> Explains(r.in, OutOf(r))]

Eval ==
  LET bad == {k \in 1..Len(TRows) : Bad(TRows[k])} IN
    [n |-> Len(TRows), accepted |-> Len(TRows) - Cardinality(bad),
     verdicts |-> {Verdict(TRows[k]) : k \in bad}]

TInit == in = <<>> /\ TLCSet(1, Eval)
TNext == UNCHANGED in
TSpec == TInit /\ [][TNext]_in

Post == PrintT(<<"VERDICTS", ToJson(TLCGet(1))>>)
=============================================================================
