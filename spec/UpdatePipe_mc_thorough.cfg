SPECIFICATION Spec
CONSTANTS
  Medium = "unix"
  Procs = {"s", "c1"}
  Lst = {"s"}
  MaxPush = 2
  SrvPush = 1
  ChanCap = 1
  MaxBad = 1
  MaxBig = 1
  MaxCrash = 0
  MaxClose = 2
  Sizes = {"s", "L"}
  Keys = {1}
  First = "-"
  Second = "-"
  LateClose = FALSE
  Devs = {}
  Gen = FALSE
VIEW View
INVARIANTS NoViolation TypeOK OwnerAgrees WaitersAgree
CHECK_DEADLOCK FALSE
