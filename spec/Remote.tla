------------------------------- MODULE Remote -------------------------------
(***************************************************************************)
(* Design specification of maddy's outbound delivery to remote MXs        *)
(* (internal/target/remote: remote.go Start/AddRcpt/BodyNonAtomic/Close,  *)
(* connect.go connectionForDomain/newConn/attemptMX/connect, security.go  *)
(* CheckMX/CheckConn of mtasts, dane, dnssec, local_policy;               *)
(* internal/smtpconn/pool Get/Return keyed by the recipient domain).      *)
(*                                                                         *)
(* One behaviour = one configuration with its environment facts (`cfg`,   *)
(* chosen in Init, see RemoteObs) and a history of up to MaxMsgs          *)
(* consecutive messages to the same domain sharing the connection cache.  *)
(* One action per critical section:                                        *)
(*   StartMsg       Target.Start: policy instances for the message        *)
(*   RetQuarantine  AddRcpt refuses a quarantined message                 *)
(*   PoolGet        pool.Get + the REQUIRETLS bypass                      *)
(*   LookupFail     MX lookup failure                                      *)
(*   CheckMX        attemptMX: CheckMX of every policy, in order          *)
(*   Connect        connect(): one TCP connection per call; the two       *)
(*                  fall-backs (TLS without authentication, then          *)
(*                  plaintext) are further Connect steps                  *)
(*   CheckConn      attemptMX: CheckConn of every policy, in order        *)
(*   NoMX           newConn: no usable MX, class of the last error        *)
(*   Gate           connectionForDomain: REQUIRETLS level checks, MAIL     *)
(*                  (refused for a "mailfail" message: connection closed), *)
(*                  RCPT                                                   *)
(*   RaiseQuar      the pipeline quarantines the message after RCPT        *)
(*   BodyRefuse     Body / BodyNonAtomic refuse a quarantined message      *)
(*   Data, BodyRet  BodyNonAtomic: DATA on the connection                 *)
(*   Commit         remoteDelivery.Close: return the connection           *)
(* Observable steps (StartMsg, Lookup, Connect, Ret*, Data, Finish) correspond *)
(* one-to-one to recorded events; the others are silent.                  *)
(*                                                                         *)
(* Deviations (constant Devs):                                             *)
(*   "PoolUnchecked"  a connection opened for a TLS-Required: No message  *)
(*        (override on, no policy consulted) is returned to the pool and  *)
(*        handed to a later message without any policy check              *)
(*        (DESIGN section 6 row 10).  The design returns only connections *)
(*        that were vetted by the configured policies.                    *)
(*   "ReqTLSCleared"  with relaxed_requiretls connectionForDomain clears    *)
(*        msgMeta.SMTPOpts.RequireTLS - for the whole delivery - when an   *)
(*        MX lacks the REQUIRETLS extension: recipients in further domains *)
(*        of the same message are handled as if REQUIRETLS had never been  *)
(*        asked for (no level checks, cache not bypassed).  The design     *)
(*        drops the parameter only from that connection's MAIL command.    *)
(*   "TlsaFutureShared"  daneDelivery.PrepareConn starts the TLSA lookup  *)
(*        in a goroutine that stores its result in whatever future the    *)
(*        delivery object holds WHEN THE LOOKUP FINISHES (the field is    *)
(*        read after discoverTLSA returns).  If the attempt for MX j ends *)
(*        while its lookup is unanswered (environment fact mx[j].slow;    *)
(*        MX j is refused by CheckMX of local_policy, its connect fails,  *)
(*        or CheckConn of mtasts fails, so nobody waited for it), the     *)
(*        result for MX j is stored in the future created for the next MX *)
(*        (Lookup(i, TRUE)) and CheckConn vets that MX against the TLSA   *)
(*        outcome of the other host.  In the design every lookup answers  *)
(*        into its own future (only Lookup(i, FALSE)); fixed in the tree  *)
(*        by commit 8e48811.                                               *)
(*   "AdAnyResolver"  (never observed in the tree; kept so that the        *)
(*        resolver dimension can be shown to be non-vacuous) the AD flag   *)
(*        of the MX answer is believed whichever resolver it came from.    *)
(*                                                                         *)
(* Two further dimensions of the environment (the design itself is simple; *)
(* they exist so that TLC hands them to the implementation):               *)
(*   cfg.res   the resolver list of the DNSSEC-aware stub resolver with a  *)
(*        fault per resolver and query class (RemoteObs.Trusted): the      *)
(*        design goes by an AD flag only when the ANSWERING server is a    *)
(*        loopback one (CheckMXRes, the TLSA outcome handed to dane).      *)
(*   msg.late  an earlier recipient domain of the same message whose MX    *)
(*        lookup fails while its MTA-STS policy lookup is unanswered; the  *)
(*        answer arrives after PrepareDomain of this domain (one           *)
(*        mtastsDelivery serves all recipient domains of a delivery).  In  *)
(*        the design every lookup answers into its own future, so the      *)
(*        late answer has no effect (StsLookup(FALSE), a stuttering step   *)
(*        that only exists to explain the recorded event); an answer that  *)
(*        lands in this domain's future (cross = TRUE) is not a design     *)
(*        step: the trace drifts and the monitor keeps evaluating the      *)
(*        MTASTS clause against this domain's own policy.                  *)
(***************************************************************************)
EXTENDS RemoteObs, TLC, SequencesExt, Json

CONSTANTS PolSets,      \* sets of enabled policies explored
          MinTLSSet, MinMXSet, OverrideSet,
          StsSet,       \* published MTA-STS modes
          StlsCert,     \* set of [stls, cert] pairs
          TlsaSet,
          NMXSet,       \* numbers of MX candidates
          MsgKinds,     \* set of message flag records
          MaxMsgs,
          WithDNSFail,  \* TRUE: also explore a failing MX lookup
          SlowSet,      \* values of the "TLSA lookup answers late" fact (non-last MX, dane enabled)
          CnSet,        \* CNAME situations of an MX name explored (dane enabled), see RemoteObs
          ResSet,       \* resolver lists explored (RemoteObs: cfg.res)
          QuitSet,      \* how an MX answers QUIT: "bye" (221, closes), "busy" (421, keeps the connection open),
                        \* "silent" (no reply), "drop" (closes without a reply); the design closes its side anyway
          Devs, Gen

(* ---- named values for the constants (configuration files cannot spell records) ---- *)
AllPols == {"mtasts", "dane", "dnssec", "local"}
AllPolSets == SUBSET AllPols
LocalOnly == {{"local"}}
DaneStsLocal == {{"dane", "mtasts", "local"}}
DaneSets == {{"dane"}, {"dane", "local"}, {"dane", "mtasts", "local"}}
SC(s, c) == [stls |-> s, cert |-> c]
AllStlsCert == {SC("offered", "valid"), SC("offered", "selfsigned"), SC("offered", "wrongname"),
                SC("stripped", "valid"), SC("cmdfail", "valid"), SC("hsfail", "valid")}
SmallStlsCert == {SC("offered", "valid"), SC("offered", "selfsigned"), SC("stripped", "valid"), SC("hsfail", "valid")}
QuickStlsCert == {SC("offered", "valid"), SC("offered", "selfsigned"), SC("stripped", "valid")}
TwoStlsCert == {SC("offered", "valid"), SC("stripped", "valid")}
Kinds1 == {NoMsg}
QuickTlsa == {"none", "ee_match", "servfail"}
CnameTlsa == {"insecure", "none", "ee_match", "servfail"}
AllCn == {"no", "sec", "half", "insec"}
DaneOnly == {{"dane"}, {"dane", "local"}}
AllTlsa == {"insecure", "none", "ee_match", "ta_match", "mismatch", "unusable", "servfail"}
SmallTlsa == {"none", "ee_match", "mismatch", "servfail"}
MK(r, n, q) == [NoMsg EXCEPT !.reqtls = r, !.tlsno = n, !.quar = q]
Kinds4 == {MK(FALSE, FALSE, FALSE), MK(TRUE, FALSE, FALSE), MK(FALSE, TRUE, FALSE), MK(FALSE, FALSE, TRUE)}
Kinds5 == Kinds4 \cup {MK(TRUE, TRUE, FALSE)}
Kinds3 == {MK(FALSE, FALSE, FALSE), MK(TRUE, FALSE, FALSE), MK(FALSE, TRUE, FALSE)}
\* MAIL refused for an ordinary / a TLS-Required: No message; quarantined after RCPT, either body path
KindsMail == {[MK(FALSE, n, FALSE) EXCEPT !.mailfail = TRUE] : n \in BOOLEAN}
KindsLateQ == {[MK(FALSE, n, FALSE) EXCEPT !.qlate = TRUE, !.na = a] : n \in BOOLEAN, a \in BOOLEAN}
KindsNA == {[MK(FALSE, n, FALSE) EXCEPT !.na = TRUE] : n \in BOOLEAN}
KindsX == Kinds4 \cup KindsMail \cup KindsLateQ \cup KindsNA
KindsFocus == Kinds3 \cup KindsMail
KindsQ == Kinds1 \cup KindsLateQ \cup KindsNA
KindsPre == {[MK(TRUE, FALSE, FALSE) EXCEPT !.pre = TRUE]}
KindsPreFocus == Kinds1 \cup KindsPre \cup {MK(TRUE, FALSE, FALSE)}
StsDnssecSets == {{"mtasts"}, {"dnssec"}, {"mtasts", "local"}, {"dnssec", "local"}, {"mtasts", "dane"}}
\* an earlier recipient domain of the message answers its MTA-STS lookup late (RemoteObs: msg.late)
KindsLate == {[NoMsg EXCEPT !.late = x] : x \in {"none", "testing", "match"}}
\* ... next to an ordinary message and one whose earlier recipient domain IS delivered (its policy answered in time)
KindsLateFocus == Kinds1 \cup KindsLate \cup {[NoMsg EXCEPT !.pre = TRUE]}
KindsAll == KindsX \cup Kinds5 \cup KindsPre
KindsSim == KindsAll \cup KindsLate      \* behaviour generation only: the design does not depend on msg.late
StsSets == {{"mtasts"}, {"mtasts", "local"}}
(* resolver lists: R(loopback?, classes of queries it fails) *)
R(lp, f) == [loop |-> lp, fail |-> f]
QAll == {"MX", "HOST"}
LocalRes == {DefaultRes}
FallbackRes == {<<R(TRUE, QAll), R(FALSE, {})>>}
AllRes == {DefaultRes,
           <<R(TRUE, QAll), R(FALSE, {})>>,       \* the local resolver is down: a non-local one answers everything
           <<R(TRUE, {"MX"}), R(FALSE, {})>>,     \* ... answers the MX query only
           <<R(TRUE, {"HOST"}), R(FALSE, {})>>,   \* ... answers the queries about the MX hosts only
           <<R(FALSE, {})>>,                      \* no local resolver at all
           <<R(FALSE, {}), R(TRUE, {})>>,         \* the non-local one is asked first and answers
           <<R(FALSE, QAll), R(TRUE, {})>>,       \* the non-local one is asked first, fails, the local one answers
           <<R(TRUE, QAll), R(TRUE, {})>>}        \* two local resolvers, the first one down
QuickRes == {DefaultRes, <<R(TRUE, QAll), R(FALSE, {})>>, <<R(TRUE, {"MX"}), R(FALSE, {})>>,
             <<R(TRUE, {"HOST"}), R(FALSE, {})>>, <<R(FALSE, QAll), R(TRUE, {})>>}
\* the policy sets whose verdict rests on AD flags
AdPolSets == {{"dnssec"}, {"dnssec", "local"}, {"dane"}, {"dane", "local"}, {"dane", "dnssec", "local"}}
AdStlsCert == {SC("offered", "valid"), SC("offered", "selfsigned")}
AdTlsa == {"none", "ee_match", "mismatch", "servfail"}
KindsRes == {MK(FALSE, FALSE, FALSE), MK(TRUE, FALSE, FALSE)}

VARIABLES cfg, k, cur, pc, mxi, att, lvl, conn, pool, lastErr,
          pend,   \* TLSA outcome of an earlier MX whose lookup is still unanswered ("no" = none)
          tl,     \* TLSA outcome the dane CheckConn of the running attempt will be given
          devs, obs, hist

vars == <<cfg, k, cur, pc, mxi, att, lvl, conn, pool, lastErr, pend, tl, devs, obs, hist>>
(* The message counter is not part of the view: what a further message can do  *)
(* depends on the connection cache, not on how many messages preceded it, so a *)
(* state reached again after more messages has no new successors (BFS reaches  *)
(* it first with the smallest counter).                                        *)
View == <<cfg, cur, pc, mxi, att, lvl, conn, pool, lastErr, pend, tl, devs, obs.msg, obs.viol>>

\* taint: deviations without which this connection would not be in use
NoConn == [mx |-> 0, tls |-> "none", mxl |-> 0, tll |-> 0, taint |-> {}]

(* ---- the configuration space, built without irrelevant combinations ---- *)
MXFacts(P, s, sl) ==
  UNION { { [stls |-> x.stls, cert |-> x.cert, stsMatch |-> mt, tlsa |-> t, slow |-> w, cn |-> c, tlsaC |-> tc,
               quit |-> qt] :
              x \in StlsCert, qt \in QuitSet,
              mt \in (IF "mtasts" \in P /\ s # "none" THEN BOOLEAN ELSE {FALSE}),
              t \in (IF "dane" \in P /\ c # "insec" THEN TlsaSet ELSE {"insecure"}),
              tc \in (IF c \in {"sec", "half"} THEN TlsaSet ELSE {"insecure"}),
              w \in (IF "dane" \in P THEN sl ELSE {FALSE}) } :
          c \in (IF "dane" \in P THEN CnSet ELSE {"no"}) }
\* sequences of n MX candidates; only a non-last MX can answer late to any effect
MXSeqs(P, s, n) ==
  IF n = 1 THEN {<<f>> : f \in MXFacts(P, s, {FALSE})}
  ELSE {<<f, g>> : f \in MXFacts(P, s, SlowSet), g \in MXFacts(P, s, {FALSE})}
DefaultMX == [stls |-> "offered", cert |-> "valid", stsMatch |-> FALSE, tlsa |-> "insecure", slow |-> FALSE,
              cn |-> "no", tlsaC |-> "insecure", quit |-> "bye"]
MkCfgR(P, a, b, ov, s, ad, d, ms, rs) ==
  [pols |-> P, minTLS |-> a, minMX |-> b, override |-> ov, sts |-> s, adMX |-> ad, dns |-> d, mx |-> ms, res |-> rs]
MkCfg(P, a, b, ov, s, ad, d, ms) == MkCfgR(P, a, b, ov, s, ad, d, ms, DefaultRes)

H(e) == IF Gen THEN Append(hist, e) ELSE hist

InitWith(c) ==
  /\ cfg = c
  /\ k = 0 /\ cur = NoMsg /\ pc = "idle" /\ mxi = 0 /\ att = "first" /\ lvl = 0
  /\ conn = NoConn /\ pool = <<>> /\ lastErr = "none" /\ devs = {}
  /\ pend = "no" /\ tl = "insecure"
  /\ obs = ObsInit
  /\ hist = <<>>

(* nested quantifiers instead of one big set: TLC enumerates them lazily *)
Init ==
  \/ \E P \in PolSets :
       \E s \in (IF "mtasts" \in P THEN StsSet ELSE {"none"}),
          a \in (IF "local" \in P THEN MinTLSSet ELSE {0}),
          b \in (IF "local" \in P THEN MinMXSet ELSE {0}),
          ov \in OverrideSet,
          ad \in (IF "dnssec" \in P THEN BOOLEAN ELSE {FALSE}),
          n \in NMXSet,
          \* the resolver list matters only to the policies that read AD flags
          rs \in (IF "dnssec" \in P \/ "dane" \in P THEN ResSet ELSE {DefaultRes}) :
         \E ms \in MXSeqs(P, s, n) :
           InitWith(MkCfgR(P, a, b, ov, s, ad, "ok", ms, rs))
  \/ /\ WithDNSFail
     /\ \E P \in PolSets :
          InitWith(MkCfg(P, 0, 0, TRUE, "none", FALSE, "servfail", <<DefaultMX>>))

Pol == InForce(cfg, cur)
NMX == Len(cfg.mx)
Max2(a, b) == IF a > b THEN a ELSE b

(* ---- attemptMX: CheckMX of mtasts, dane, dnssec, local_policy in order ---- *)
(* prep: dane's PrepareConn was reached (mtasts is the only policy before it) *)
CheckMXRes(i) ==
  LET f == cfg.mx[i]
      stsErr == "mtasts" \in Pol /\ cfg.sts = "enforce" /\ ~f.stsMatch
      l1 == IF "mtasts" \in Pol /\ cfg.sts # "none" /\ f.stsMatch THEN 1 ELSE 0
      ad == IF "AdAnyResolver" \in Devs THEN cfg.adMX ELSE AdMX(cfg)
      l2 == IF "dnssec" \in Pol /\ ad THEN Max2(l1, 2) ELSE l1
  IN IF stsErr THEN [err |-> "perm", lvl |-> 0, prep |-> FALSE]
     ELSE IF "local" \in Pol /\ l2 < cfg.minMX THEN [err |-> "temp", lvl |-> 0, prep |-> "dane" \in Pol]
     ELSE [err |-> "none", lvl |-> l2, prep |-> "dane" \in Pol]

(* raw TLS level the client established (before policies may raise it) *)
RawTLS(t) == IF t = "enc-auth" THEN 2 ELSE IF t = "enc-unauth" THEN 1 ELSE 0

(* ---- attemptMX: CheckConn of mtasts, dane, dnssec, local_policy in order ---- *)
(* ta: the TLSA outcome dane's CheckConn is given; used: dane's CheckConn ran *)
CheckConnRes(i, t, ta) ==
  LET f == cfg.mx[i]
      stsErr == /\ "mtasts" \in Pol /\ cfg.sts = "enforce"
                /\ t # "enc-auth"                       \* no TLS, or not PKIX-verified
      daneOn == "dane" \in Pol
      daneErr == IF ~daneOn THEN "none"
                 ELSE IF ta = "servfail" THEN "temp"
                 ELSE IF ta \in {"insecure", "none"} THEN "none"
                 ELSE IF t = "none" THEN "perm"          \* TLS required by any TLSA RRset
                 ELSE IF ta = "unusable" THEN "none"
                 ELSE IF DaneMatch(ta, f.cert) THEN "none" ELSE "perm"
      l1 == IF daneOn /\ UsableTLSA(ta) /\ t # "none" /\ DaneMatch(ta, f.cert)
            THEN 2 ELSE RawTLS(t)
  IN IF stsErr THEN [err |-> "temp", tll |-> 0, used |-> FALSE]
     ELSE IF daneErr # "none" THEN [err |-> daneErr, tll |-> 0, used |-> daneOn]
     ELSE IF "local" \in Pol /\ l1 < cfg.minTLS THEN [err |-> "temp", tll |-> 0, used |-> daneOn]
     ELSE [err |-> "none", tll |-> l1, used |-> daneOn]

EndMsg == k' = k + 1 /\ cur' = NoMsg /\ pc' = "idle" /\ conn' = NoConn /\ pend' = "no" /\ tl' = "insecure"

(* ------------------------------ actions --------------------------------- *)
(* the other domain of a "pre" message is delivered first; its MX is authenticated by *)
(* whatever MX-authenticating policy is in force, so its REQUIRETLS checks pass       *)
PreludeOK(m) ==
  LET Q == InForce(cfg, m) IN
  /\ ("mtasts" \in Q \/ "dnssec" \in Q)
  /\ ("local" \in Q => cfg.minMX <= (IF "dnssec" \in Q THEN 2 ELSE 1))

StartMsg(m) ==
  /\ pc = "idle" /\ k < MaxMsgs
  \* deviation ReqTLSCleared: the flag is cleared for the WHOLE delivery once one MX lacks the extension;
  \* `cur` carries the flag the implementation goes by, obs.msg the requirement of the message
  /\ cur' = IF "ReqTLSCleared" \in Devs /\ m.pre /\ m.reqtls /\ ~m.quar /\ PreludeOK(m)
            THEN [m EXCEPT !.reqtls = FALSE] ELSE m
  /\ pc' = "rcpt"
  /\ obs' = ObsMsg(obs, m)
  /\ hist' = H(m)
  /\ UNCHANGED <<cfg, k, mxi, att, lvl, conn, pool, lastErr, pend, tl, devs>>

RetAddRcpt(res) ==
  /\ obs' = ObsRet(obs, cfg, "addrcpt", res)
  /\ UNCHANGED <<cfg, mxi, att, lvl, pool, lastErr, devs, hist>>

RetQuarantine(res) ==
  /\ pc = "rcpt" /\ cur.quar /\ res = "perm"
  /\ RetAddRcpt(res) /\ EndMsg

PoolGet ==
  /\ pc = "rcpt" /\ ~cur.quar
  /\ IF pool # <<>> /\ ~cur.reqtls
     THEN conn' = Head(pool) /\ pool' = Tail(pool) /\ pc' = "gate" /\ UNCHANGED <<mxi, lastErr>>
     ELSE \* REQUIRETLS ignores the cache; a connection taken out of it is not used
          /\ pool' = IF pool # <<>> THEN Tail(pool) ELSE pool
          /\ conn' = NoConn /\ mxi' = 1 /\ lastErr' = "none"
          /\ pc' = IF cfg.dns = "servfail" THEN "nolookup" ELSE "mx"
  /\ UNCHANGED <<cfg, k, cur, att, lvl, pend, tl, devs, obs, hist>>

LookupFail(res) ==
  /\ pc = "nolookup" /\ res = "temp"
  /\ RetAddRcpt(res) /\ EndMsg

(* The TLSA lookup of an earlier MX is still outstanding (mx[j].slow, never waited   *)
(* for) when dane's PrepareConn runs for MX i.  cross = TRUE: its result is stored   *)
(* in the future just created for MX i (possible only with the deviation: the         *)
(* lookup goroutine picks the delivery object's current future when it finishes);    *)
(* cross = FALSE: it is stored in its own future, which nobody reads any more.        *)
CheckMXCore(cross) ==
  /\ pc = "mx" /\ mxi <= NMX
  /\ LET r == CheckMXRes(mxi)
         own == EffTLSAc(cfg, cfg.mx[mxi]) IN   \* discoverTLSA: canonical name first, then the MX name
       /\ IF r.err # "none"
          THEN lastErr' = r.err /\ mxi' = mxi + 1 /\ UNCHANGED <<pc, lvl, att>>
          ELSE lvl' = r.lvl /\ pc' = "conn" /\ att' = "first" /\ UNCHANGED <<mxi, lastErr>>
       /\ IF ~r.prep THEN ~cross /\ UNCHANGED <<pend, tl>>          \* dane's PrepareConn not reached
          ELSE IF cross
               THEN \* an EE association of the other host cannot match this host's key
                    /\ "TlsaFutureShared" \in Devs /\ pend # "no"
                    /\ tl' = (IF pend = "ee_match" THEN "mismatch" ELSE pend) /\ pend' = "no"
          ELSE tl' = own /\ pend' = IF cfg.mx[mxi].slow THEN own ELSE "no"
  /\ UNCHANGED <<cfg, k, cur, conn, pool, devs, obs, hist>>

(* The MTA-STS answer for the earlier recipient domain of a "late" message arrives after *)
(* PrepareDomain of this domain.  Design: it is stored in the future created for THAT    *)
(* domain, which nobody reads any more - nothing changes.                                  *)
StsLookup(cross) ==
  /\ cur.late # "no" /\ pc \notin {"idle", "end"} /\ ~cross
  /\ UNCHANGED vars

Outstanding == pc = "mx" /\ mxi <= NMX /\ pend # "no" /\ CheckMXRes(mxi).prep

CheckMX == ~Outstanding /\ CheckMXCore(FALSE)                       \* silent
Lookup(i, cross) == Outstanding /\ i = mxi /\ CheckMXCore(cross)    \* observable: where the late answer went

NoMX(res) ==
  /\ pc = "mx" /\ mxi > NMX /\ res = lastErr
  /\ RetAddRcpt(res) /\ EndMsg

(* one TCP connection to MX i whose TLS state, as the server sees it, ends up t *)
Connect(i, t) ==
  /\ pc = "conn" /\ i = mxi
  /\ LET f == cfg.mx[i]
         established(tt) == /\ t = tt /\ pc' = "chk"
                            /\ conn' = [NoConn EXCEPT !.mx = i, !.tls = tt]
                            /\ UNCHANGED <<mxi, att, lastErr>>
         retry(a) == /\ t = "fail" /\ att' = a /\ UNCHANGED <<pc, conn, mxi, lastErr>>
     IN CASE f.stls = "stripped" -> established("none")
          [] f.stls = "cmdfail"  -> /\ t = "none" /\ lastErr' = "temp" /\ mxi' = mxi + 1 /\ pc' = "mx"
                                    /\ UNCHANGED <<conn, att>>
          [] f.stls = "hsfail"   -> IF att = "first" THEN retry("plain") ELSE established("none")
          [] f.stls = "offered"  -> IF f.cert = "valid" THEN established("enc-auth")
                                    ELSE IF att = "first" THEN retry("unauth")
                                    ELSE established("enc-unauth")
  /\ UNCHANGED <<cfg, k, cur, lvl, pool, pend, tl, devs, obs, hist>>

CheckConn ==
  /\ pc = "chk"
  /\ LET ta == IF "dane" \in Pol THEN tl ELSE "insecure"
         r == CheckConnRes(conn.mx, conn.tls, ta) IN
       /\ IF r.err # "none"
          THEN lastErr' = r.err /\ mxi' = mxi + 1 /\ pc' = "mx" /\ conn' = NoConn
          ELSE /\ conn' = [conn EXCEPT !.mxl = lvl, !.tll = r.tll,
                                       !.taint = IF "dane" \in Pol /\ tl # EffTLSAc(cfg, cfg.mx[conn.mx])
                                                 THEN {"TlsaFutureShared"} ELSE {}]
               /\ pc' = "gate" /\ UNCHANGED <<mxi, lastErr>>
       \* waiting for the future consumes this MX's own pending lookup
       /\ pend' = IF r.used /\ tl = EffTLSAc(cfg, cfg.mx[conn.mx]) THEN "no" ELSE pend
  /\ UNCHANGED <<cfg, k, cur, att, lvl, pool, tl, devs, obs, hist>>

Gate(res) ==
  /\ pc = "gate"
  /\ IF cur.reqtls /\ (conn.tll < 2 \/ conn.mxl < 1)
     THEN res = "perm" /\ RetAddRcpt(res) /\ EndMsg
     ELSE IF cur.mailfail
     THEN res \in {"temp", "perm"} /\ RetAddRcpt(res) /\ EndMsg   \* MAIL refused (4xx or 5xx): the connection is closed
     ELSE /\ res = "ok" /\ RetAddRcpt(res) /\ pc' = "body"
          /\ UNCHANGED <<k, cur, conn, pend, tl>>

(* a body-stage check of the pipeline quarantines the message after RCPT *)
RaiseQuar ==
  /\ pc = "body" /\ cur.qlate /\ ~cur.quar
  /\ cur' = [cur EXCEPT !.quar = TRUE]
  /\ obs' = ObsQuar(obs)
  /\ UNCHANGED <<cfg, k, pc, mxi, att, lvl, conn, pool, lastErr, pend, tl, devs, hist>>

(* Body / BodyNonAtomic refuse a quarantined message: nothing is sent *)
BodyRefuse(res) ==
  /\ pc = "body" /\ cur.qlate /\ cur.quar /\ res = "perm"
  /\ obs' = ObsRet(obs, cfg, "body", res)
  /\ pc' = "commit"                                     \* Abort: same Close as Commit
  /\ UNCHANGED <<cfg, k, cur, mxi, att, lvl, conn, pool, lastErr, pend, tl, devs, hist>>

Data(i, t) ==
  /\ pc = "body" /\ ~cur.qlate /\ i = conn.mx /\ t = conn.tls
  /\ obs' = ObsData(obs, cfg, [mx |-> i, tls |-> t, cert |-> cfg.mx[i].cert])
  /\ pc' = "bodyret"
  /\ devs' = devs \cup conn.taint \cup (IF obs.msg.reqtls /\ ~cur.reqtls THEN {"ReqTLSCleared"} ELSE {})
  /\ UNCHANGED <<cfg, k, cur, mxi, att, lvl, conn, pool, lastErr, pend, tl, hist>>

BodyRet(res) ==
  /\ pc = "bodyret" /\ res = "ok"
  /\ obs' = ObsRet(obs, cfg, "body", res)
  /\ pc' = "commit"
  /\ UNCHANGED <<cfg, k, cur, mxi, att, lvl, conn, pool, lastErr, pend, tl, devs, hist>>

Voided == cur.tlsno /\ cfg.override

Commit ==
  /\ pc = "commit"
  /\ IF Voided /\ "PoolUnchecked" \notin Devs
     THEN UNCHANGED pool                          \* closed, not cached
     ELSE pool' = Append(pool, [conn EXCEPT !.taint = IF Voided THEN @ \cup {"PoolUnchecked"} ELSE @])
  /\ EndMsg
  /\ UNCHANGED <<cfg, mxi, att, lvl, lastErr, devs, obs, hist>>

Finish ==
  /\ pc = "idle" /\ k >= 1 /\ (Gen => k = MaxMsgs)
  /\ pc' = "end"
  /\ IF Gen THEN PrintT(<<"BEH", ToJson([cfg |-> cfg, msgs |-> hist])>>) ELSE TRUE
  /\ UNCHANGED <<cfg, k, cur, mxi, att, lvl, conn, pool, lastErr, pend, tl, devs, obs, hist>>

Silent == PoolGet \/ CheckMX \/ CheckConn \/ Commit

TLSStates == {"none", "fail", "enc-unauth", "enc-auth"}
Classes == {"ok", "temp", "perm"}

Next ==
  \/ \E m \in MsgKinds : StartMsg(m)
  \/ Silent
  \/ \E res \in Classes : RetQuarantine(res) \/ LookupFail(res) \/ NoMX(res) \/ Gate(res) \/ BodyRet(res)
                           \/ BodyRefuse(res)
  \/ RaiseQuar
  \/ \E i \in 1..NMX, t \in TLSStates : Connect(i, t) \/ Data(i, t)
  \/ \E i \in 1..NMX, cross \in BOOLEAN : Lookup(i, cross)
  \/ Finish
  \/ (pc = "end" /\ ~Gen /\ UNCHANGED vars)

Spec == Init /\ [][Next]_vars /\ WF_vars(Next)

(***************************************************************************)
(* C05 is the conjunction of the clauses evaluated in RemoteObs whenever  *)
(* content reaches an MX (ObsData) or a result is returned (ObsRet).      *)
(***************************************************************************)
NoViolation == obs.viol = {}
TypeOK == /\ pc \in {"idle", "rcpt", "nolookup", "mx", "conn", "chk", "gate", "body", "bodyret", "commit", "end"}
          /\ k \in 0..MaxMsgs /\ Len(pool) <= 1
          /\ conn.tll \in 0..2 /\ conn.mxl \in 0..2
(* the levels the implementation computes agree with the documented ones *)
LevelsAgree == (pc \in {"gate", "body"} /\ conn.taint = {} /\ conn.mx # 0 /\ ~Voided) =>
                 /\ conn.mxl = MXLevelOf(cfg, cfg.pols, conn.mx)
                 /\ conn.tll = TLSLevelOf(cfg, cfg.pols, [mx |-> conn.mx, tls |-> conn.tls, cert |-> cfg.mx[conn.mx].cert])
Terminates == <>(pc = "end")
=============================================================================
