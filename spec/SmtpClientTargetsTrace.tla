----------------------- MODULE SmtpClientTargetsTrace -----------------------
(***************************************************************************)
(* Reads the wire events recorded from the real delivery targets           *)
(* (harness/smtpconncheck TestReplayTargets; scripted.SMTPServer on        *)
(* loopback TCP) and folds, per connection, the operators of               *)
(* SmtpClientObs.tla over them: the order / option predicates of X06 are   *)
(* evaluated on what target.smtp, target.lmtp and target.remote really     *)
(* sent.  Events: Cfg(kind, lmtp, ext), Srv(conn, k = "cmd" | "content",   *)
(* ...), End(datas = connections that got DATA per hop as predicted by     *)
(* SmtpClientTargets.tla: data1, data2, and as seen: saw1, saw2).          *)
(***************************************************************************)
EXTENDS SmtpClientObs, TLC, Json, SequencesExt

Trace == ndJsonDeserialize("trace.ndjson")

VARIABLES l, om, tno, lm, ex
tvars == <<l, om, tno, lm, ex>>

Ev == Trace[l]
Target == [c |-> "Target", a |-> NoArgs]

Fresh == [ObsInit(lm, ex) EXCEPT !.conn = TRUE, !.ph = "greeted", !.healthy = TRUE, !.call = Target]
Get(k) == IF k \in DOMAIN om THEN om[k] ELSE Fresh
(* the calls of smtpconn are not visible at this level: the checks that relate a command to *)
(* the call in progress are skipped (pseudo call "Other", UnexpectedCommand dropped)         *)
Cmd(o, e) ==
  LET o1 == ObsCmd([o EXCEPT !.call = [c |-> "Other", a |-> NoArgs]],
                   [verb |-> e.verb, hn |-> "", par |-> ToSet(e.par), ak |-> e.ak, an |-> e.an, id |-> e.id, r |-> e.r, tls |-> e.tls])
  IN [o1 EXCEPT !.viol = @ \ {"UnexpectedCommand"}, !.slots = <<>>]

Apply(o, e) ==
  CASE e.k = "cmd" -> Cmd(o, e)
    [] e.k = "content" -> [ObsDot([ObsContent([o EXCEPT !.call = [c |-> "Data", a |-> NoArgs]], e.full) EXCEPT !.call = Target],
                                  1, 0, "ok") EXCEPT !.slots = <<>>]
    [] OTHER -> o

TInit == l = 1 /\ om = <<>> /\ tno = 0 /\ lm = FALSE /\ ex = {} /\ TLCSet(1, {})

Step ==
  /\ l <= Len(Trace)
  /\ l' = l + 1
  /\ CASE Ev.e = "Cfg" -> om' = <<>> /\ tno' = Ev.t /\ lm' = Ev.lmtp /\ ex' = ToSet(Ev.ext)
       [] Ev.e = "Srv" -> om' = (Ev.conn :> Apply(Get(Ev.conn), Ev)) @@ om /\ UNCHANGED <<tno, lm, ex>>
       [] Ev.e = "End" ->
            /\ UNCHANGED <<om, tno, lm, ex>>
            /\ TLCSet(1, TLCGet(1) \cup {[t |-> tno,
                                          viol |-> UNION {om[k].viol : k \in DOMAIN om},
                                          drift |-> Ev.saw1 # Ev.data1 \/ Ev.saw2 # Ev.data2,
                                          driftAt |-> Ev.seq, devs |-> {}]})
       [] OTHER -> UNCHANGED <<om, tno, lm, ex>>

TSpec == TInit /\ [][Step]_tvars
Post == PrintT(<<"VERDICTS", ToJson(TLCGet(1))>>)
=============================================================================
