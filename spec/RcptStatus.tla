----------------------------- MODULE RcptStatus -----------------------------
(***************************************************************************)
(* Design specification of per-recipient result reporting by the outbound *)
(* delivery targets (property C09):                                        *)
(*   kind "remote": internal/target/remote (remoteDelivery.AddRcpt,       *)
(*        BodyNonAtomic: one next-hop connection per recipient domain,    *)
(*        statuses fanned out per connection from smtpconn.C.Rcpts(),     *)
(*        connections cached per domain between transactions),            *)
(*   kind "lmtp":   internal/target/smtp as target.lmtp (one connection   *)
(*        per transaction, the next hop answers per recipient after the   *)
(*        final dot, lmtpDelivery.BodyNonAtomic maps the answers back),   *)
(* over internal/smtpconn (Mail, Rcpt with conversion of the address to   *)
(* its ASCII form when the next hop lacks SMTPUTF8, Data / LMTPData).     *)
(*                                                                         *)
(* One behaviour = a next hop with or without SMTPUTF8 and a history of   *)
(* up to MaxTxns transactions; each transaction has a recipient list      *)
(* (duplicates, case variants, IDN domain, non-ASCII local part) and a    *)
(* fault plan for the next hop (see RcptStatusObs; incl. the connection    *)
(* breaking between two per-recipient LMTP answers).  Actions: TxnStart,   *)
(* LmtpStart (MAIL at Start), AddRcpt per recipient, Body (BodyNonAtomic, *)
(* the statuses handed to the collector), TxnEnd (Commit/Abort: which     *)
(* connections go back to the cache).                                      *)
(*                                                                         *)
(* Two further dimensions of a transaction (round s):                      *)
(*   plan.quar  the message is put in quarantine (a body-stage check sets   *)
(*        MsgMetadata.Quarantine) right after the AddRcpt of list position  *)
(*        quar: remote refuses every later AddRcpt itself (nothing goes on  *)
(*        the wire) and its body step reports its own refusal for exactly   *)
(*        the recipients accepted before; target.lmtp does not look at the  *)
(*        flag.                                                              *)
(*   "idn_ace" as a supplied address: with "idn" in the same list the two   *)
(*        differ as given and coincide on the wire of a next hop without    *)
(*        SMTPUTF8 (target.lmtp only: remote opens one connection per       *)
(*        domain STRING, so the two never share a connection there, and the *)
(*        model has one connection per next hop - remote lists leave it out)*)
(*                                                                         *)
(* Deviations (constant Devs), DESIGN section 6 row 8:                    *)
(*   "RcptConverted"   smtpconn.C.Rcpt records the address it put on the  *)
(*        wire (ASCII-converted) and remote reports statuses under it.    *)
(*   "RcptNotCleared"  smtpconn.C never clears the recorded recipients,   *)
(*        so on a cached connection a later transaction also reports the  *)
(*        recipients of the earlier ones.                                  *)
(*   "LMTPWireKey"     target.lmtp reports each LMTP answer under the     *)
(*        address go-smtp recorded, i.e. the wire form.                   *)
(***************************************************************************)
EXTENDS RcptStatusObs, TLC, SequencesExt, Json

CONSTANTS Kinds,     \* subset of {"remote", "lmtp"}
          RcptSet,   \* addresses used in recipient lists (subset of Given)
          MaxList, MaxTxns,
          DataSet,   \* results of the DATA stage explored
          DropSet,   \* LMTP: numbers of per-recipient answers after which the connection may break
          SrcSet,    \* body source / transfer faults: "ok", "noopen", "readfail", "reset"
          LateSet,   \* list positions whose RCPT reply may arrive only after command_timeout (0 = never)
          QuarSet,   \* list positions after whose AddRcpt the message may be put in quarantine (0 = never)
          Devs, Gen

VARIABLES cfg, k, pc, lst, plan, idx, acc, used, touched, dead, pooled, rec, devs, obs, hist

vars == <<cfg, k, pc, lst, plan, idx, acc, used, touched, dead, pooled, rec, devs, obs, hist>>
(* the transaction counter is not part of the view: what a further transaction  *)
(* can do depends only on the connection cache                                   *)
View == <<cfg, pc, lst, plan, idx, acc, used, touched, dead, pooled, rec, devs, obs.acc, obs.plan, obs.viol>>

NoneD == [d \in Doms |-> FALSE]
EmptyD == [d \in Doms |-> <<>>]
Ext(f, D, dflt) == [x \in D |-> IF x \in DOMAIN f THEN f[x] ELSE dflt]

RcptsOf(kind) == IF kind = "remote" THEN RcptSet \ {"idn_ace"} ELSE RcptSet
Lists(kind) == UNION {[1..n -> RcptsOf(kind)] : n \in 1..MaxList}

(* fault plans for a recipient list, irrelevant entries fixed to "ok" / no drop *)
NoDrop == 3
Plans(kind, l) ==
  LET RS == ToSet(l)
      DS == IF kind = "lmtp" THEN {"D1"} ELSE {Dom(r) : r \in RS}
      StS == IF kind = "lmtp" THEN [RS -> {"ok", "temp", "perm"}] ELSE {<<>>}
      DrS == IF kind = "lmtp" THEN (DropSet \cap (0..(Len(l) - 1))) \cup {NoDrop} ELSE {NoDrop}
      base == { [mail |-> Ext(m, Doms, "ok"), rcpt |-> Ext(rc, Given, "ok"),
                 data |-> Ext(da, Doms, "ok"), st |-> Ext(s, Given, "ok"), drop |-> dr, src |-> "ok", late |-> 0,
                 quar |-> 0] :
                  m \in [DS -> {"ok", "temp"}], rc \in [RS -> {"ok", "perm"}], da \in [DS -> DataSet], s \in StS,
                  dr \in DrS }
      \* transport faults are explored on top of plans whose MAIL / DATA replies are positive
      clean == { [mail |-> [d \in Doms |-> "ok"], rcpt |-> Ext(rc, Given, "ok"), data |-> [d \in Doms |-> "ok"],
                  st |-> Ext(s, Given, "ok"), drop |-> NoDrop, src |-> "ok", late |-> 0, quar |-> 0] :
                   rc \in [RS -> {"ok", "perm"}], s \in StS }
  IN base \cup {[p EXCEPT !.src = x] : p \in clean, x \in SrcSet \ {"ok"}}
          \cup {[p EXCEPT !.late = n] : p \in clean, n \in LateSet \cap (1..Len(l))}
          \cup {[p EXCEPT !.quar = n] : p \in clean, n \in QuarSet \cap (1..Len(l))}

H(e) == IF Gen THEN Append(hist, e) ELSE hist

InitWith(c) ==
  /\ cfg = c
  /\ k = 0 /\ pc = "idle" /\ lst = <<>> /\ plan = <<>> /\ idx = 0
  /\ acc = EmptyD /\ used = NoneD /\ touched = NoneD /\ dead = NoneD /\ pooled = NoneD /\ rec = EmptyD
  /\ devs = {} /\ obs = ObsInit /\ hist = <<>>

Init == \E kd \in Kinds, u \in BOOLEAN : InitWith([kind |-> kd, utf8 |-> u])

(* D: set of deviations in effect (Devs in the step machine; smaller sets to attribute) *)
Key(D, r) == IF "RcptConverted" \in D THEN Conv(r, cfg.utf8) ELSE r
LKey(D, r) == IF "LMTPWireKey" \in D THEN Conv(r, cfg.utf8) ELSE r

TxnStart(l, p) ==
  /\ pc = "idle" /\ k < MaxTxns
  /\ lst' = l /\ plan' = p /\ idx' = 1
  /\ acc' = EmptyD /\ used' = NoneD /\ touched' = NoneD /\ dead' = NoneD
  /\ pc' = IF cfg.kind = "lmtp" THEN "start" ELSE "rcpt"
  /\ obs' = ObsTxn(obs, p)
  /\ hist' = H([rcpts |-> l, plan |-> p])
  /\ UNCHANGED <<cfg, k, pooled, rec, devs>>

(* the same choice in two steps (keeps the branching factor small for -simulate) *)
ChooseList(l) ==
  /\ pc = "idle" /\ k < MaxTxns
  /\ lst' = l /\ pc' = "plan"
  /\ UNCHANGED <<cfg, k, plan, idx, acc, used, touched, dead, pooled, rec, devs, obs, hist>>

ChoosePlan(p) ==
  /\ pc = "plan"
  /\ plan' = p /\ idx' = 1
  /\ acc' = EmptyD /\ used' = NoneD /\ touched' = NoneD /\ dead' = NoneD
  /\ pc' = IF cfg.kind = "lmtp" THEN "start" ELSE "rcpt"
  /\ obs' = ObsTxn(obs, p)
  /\ hist' = H([rcpts |-> lst, plan |-> p])
  /\ UNCHANGED <<cfg, k, lst, pooled, rec, devs>>

(* target.lmtp: Start connects and sends MAIL *)
LmtpStart(res) ==
  /\ pc = "start" /\ res = plan.mail["D1"]
  /\ IF res = "ok" THEN pc' = "rcpt" /\ UNCHANGED <<k, lst, plan, idx, obs>>
     ELSE pc' = "idle" /\ k' = k + 1 /\ lst' = <<>> /\ plan' = <<>> /\ idx' = 0 /\ obs' = ObsTxnEnd(obs)
  /\ UNCHANGED <<cfg, acc, used, touched, dead, pooled, rec, devs, hist>>

(* remote.AddRcpt refuses a quarantined message itself, before anything goes on the wire *)
QRefused == cfg.kind = "remote" /\ plan.quar > 0 /\ idx > plan.quar
(* the body step of remote finds the message in quarantine *)
QBody == cfg.kind = "remote" /\ plan.quar > 0
RcptD(r) == IF cfg.kind = "lmtp" THEN "D1" ELSE Dom(r)
(* the RCPT command for list position idx goes out and its reply comes too late *)
IsLate(r) == plan.late = idx /\ ~QRefused /\ ~dead[RcptD(r)] /\ ~(r = "nl" /\ ~cfg.utf8)
             /\ (cfg.kind = "lmtp" \/ used[Dom(r)] \/ plan.mail[Dom(r)] = "ok")
RcptRes(r) ==
  LET d == Dom(r) IN
  IF QRefused THEN "perm"
  ELSE IF cfg.kind = "remote" /\ ~used[d] /\ plan.mail[d] = "temp" THEN "temp"   \* connectionForDomain: MAIL refused
  ELSE IF r = "nl" /\ ~cfg.utf8 THEN "perm"                                  \* cannot be converted
  ELSE IF dead[RcptD(r)] THEN "temp"                                         \* the connection was closed
  ELSE IF IsLate(r) THEN "temp"                                              \* time-out: smtpconn closes the connection
  ELSE plan.rcpt[r]

AddRcpt(r, res) ==
  /\ pc = "rcpt" /\ idx <= Len(lst) /\ r = lst[idx] /\ res = RcptRes(r)
  /\ LET d == IF cfg.kind = "lmtp" THEN "D1" ELSE Dom(r) IN
       IF QRefused THEN UNCHANGED <<touched, used, acc, dead>>
       ELSE
       /\ touched' = [touched EXCEPT ![d] = TRUE]
       /\ used' = [used EXCEPT ![d] = @ \/ cfg.kind = "lmtp" \/ plan.mail[d] = "ok"]
       /\ acc' = IF res = "ok" THEN [acc EXCEPT ![d] = Append(@, r)] ELSE acc
       /\ dead' = IF IsLate(r) THEN [dead EXCEPT ![d] = TRUE] ELSE dead
  /\ idx' = idx + 1
  /\ obs' = ObsAddRcpt(obs, r, res)
  /\ UNCHANGED <<cfg, k, pc, lst, plan, pooled, rec, devs, hist>>

AnyAccepted == \E d \in Doms : acc[d] # <<>>

(* recipients recorded on the connection for d when DATA is sent *)
Recorded(D, d) ==
  (IF "RcptNotCleared" \in D /\ pooled[d] THEN rec[d] ELSE <<>>)
    \o [i \in 1..Len(acc[d]) |-> Key(D, acc[d][i])]

(* the transfer over the connection for d does not complete: the body cannot be opened / read,   *)
(* the next hop resets the connection in mid-DATA, or the connection was closed after a time-out *)
Broken(d) == plan.src # "ok" \/ dead[d]

(* statuses of one remote connection: the DATA result for every recorded recipient ("fail": some *)
(* failure, its class is the transport's business); DATA without any accepted recipient is       *)
(* refused by the next hop                                                                        *)
ConnStatuses(D, d) ==
  LET v == IF Broken(d) THEN "fail" ELSE IF acc[d] = <<>> THEN "perm" ELSE plan.data[d]
      r == Recorded(D, d) IN
  IF used[d] THEN [i \in 1..Len(r) |-> [k |-> r[i], v |-> v]] ELSE <<>>

(* after `drop` answers the connection breaks: the remaining recipients get the I/O error, under *)
(* the address as given                                                                           *)
LmtpStatuses(D) ==
  LET a == acc["D1"] IN
  IF Broken("D1") THEN [i \in 1..Len(a) |-> [k |-> a[i], v |-> "fail"]]
  ELSE IF plan.data["D1"] # "ok"
  THEN [i \in 1..Len(a) |-> [k |-> a[i], v |-> plan.data["D1"]]]
  ELSE [i \in 1..Len(a) |-> IF i <= plan.drop THEN [k |-> LKey(D, a[i]), v |-> plan.st[a[i]]]
                                               ELSE [k |-> a[i], v |-> "fail"]]

(* quarantined: remote's own refusal for every recipient IT accepted in this transaction, as given *)
QuarStatuses == LET a == acc["D1"] \o acc["D2"] IN [i \in 1..Len(a) |-> [k |-> a[i], v |-> "fail"]]

Exp(D) == IF cfg.kind = "lmtp" THEN LmtpStatuses(D)
          ELSE IF QBody THEN QuarStatuses
          ELSE ConnStatuses(D, "D1") \o ConnStatuses(D, "D2")
Expected == Exp(Devs)

SameBag(a, b) == /\ Len(a) = Len(b)
                 /\ \A x \in ToSet(a) \cup ToSet(b) : Count(a, x) = Count(b, x)
(* where the design only says "some failure", any failure class reported matches *)
Norm(sts, e) == [i \in 1..Len(sts) |->
                  IF sts[i].v # "ok" /\ \E j \in 1..Len(e) : e[j].k = sts[i].k /\ e[j].v = "fail"
                  THEN [k |-> sts[i].k, v |-> "fail"] ELSE sts[i]]

(* BodyNonAtomic: connections deliver in parallel, only the bag of statuses is determined *)
Body(sts) ==
  /\ pc = "rcpt" /\ idx > Len(lst) /\ AnyAccepted
  /\ SameBag(Norm(sts, Expected), Norm(Expected, Expected))
  /\ obs' = ObsStatuses(obs, cfg.kind, sts)
  /\ devs' = devs \cup {dv \in Devs : ~SameBag(Exp(Devs \ {dv}), Expected)}
  /\ pc' = "end"
  /\ UNCHANGED <<cfg, k, lst, plan, idx, acc, used, touched, dead, pooled, rec, hist>>

NoBody ==
  /\ pc = "rcpt" /\ idx > Len(lst) /\ ~AnyAccepted
  /\ pc' = "end"
  /\ UNCHANGED <<cfg, k, lst, plan, idx, acc, used, touched, dead, pooled, rec, devs, obs, hist>>

(* Commit / Abort: remoteDelivery.Close returns usable connections to the cache *)
TxnEnd ==
  /\ pc = "end"
  /\ LET ran == AnyAccepted
         keep(d) == IF ~touched[d] THEN pooled[d]
                    ELSE IF ~used[d] THEN FALSE                       \* MAIL refused: closed
                    ELSE IF dead[d] \/ plan.src \in {"readfail", "reset"} THEN FALSE
                    ELSE IF ran /\ (plan.src = "noopen" \/ QBody) THEN TRUE   \* nothing was sent: RSET, cached
                    ELSE IF ran THEN acc[d] # <<>> /\ plan.data[d] = "ok"
                    ELSE TRUE                                          \* aborted before DATA: RSET, cached
     IN /\ pooled' = IF cfg.kind = "lmtp" THEN NoneD ELSE [d \in Doms |-> keep(d)]
        /\ rec' = IF cfg.kind = "lmtp" \/ "RcptNotCleared" \notin Devs THEN EmptyD
                  ELSE [d \in Doms |-> IF ~keep(d) THEN <<>>
                                       ELSE IF touched[d] THEN Recorded(Devs, d) ELSE rec[d]]
  /\ k' = k + 1 /\ pc' = "idle"
  /\ lst' = <<>> /\ plan' = <<>> /\ idx' = 0 /\ acc' = EmptyD /\ used' = NoneD /\ touched' = NoneD /\ dead' = NoneD
  /\ obs' = ObsTxnEnd(obs)
  /\ UNCHANGED <<cfg, devs, hist>>

Finish ==
  /\ pc = "idle" /\ k >= 1 /\ (Gen => k = MaxTxns)
  /\ pc' = "fin"
  /\ IF Gen THEN PrintT(<<"BEH", ToJson([cfg |-> cfg, txns |-> hist])>>) ELSE TRUE
  /\ UNCHANGED <<cfg, k, lst, plan, idx, acc, used, touched, dead, pooled, rec, devs, obs, hist>>

Silent == NoBody

Next ==
  \/ (pc = "idle" /\ k < MaxTxns /\ \E l \in Lists(cfg.kind) : ChooseList(l))
  \/ (pc = "plan" /\ \E p \in Plans(cfg.kind, lst) : ChoosePlan(p))
  \/ (pc = "start" /\ \E res \in {"ok", "temp"} : LmtpStart(res))
  \/ (pc = "rcpt" /\ idx <= Len(lst) /\ \E res \in {"ok", "temp", "perm"} : AddRcpt(lst[idx], res))
  \/ (pc = "rcpt" /\ idx > Len(lst) /\ AnyAccepted /\ Body(Expected))
  \/ Silent \/ TxnEnd \/ Finish
  \/ (pc = "fin" /\ ~Gen /\ UNCHANGED vars)

Spec == Init /\ [][Next]_vars

NoViolation == obs.viol = {}
TypeOK == /\ pc \in {"idle", "plan", "start", "rcpt", "end", "fin"}
          /\ k \in 0..MaxTxns
=============================================================================
