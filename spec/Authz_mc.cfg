\* enumerates every row and checks Prop(in, Rule(in)); Gen = TRUE prints the rows (ROW lines)
SPECIFICATION Spec
CONSTANTS
  Devs = {}
  Families = {"A", "B", "C", "D", "E", "F", "G", "H", "I"}
  Gen = FALSE
INVARIANT RuleIsSafe
