--------------------------- MODULE StsCacheTables ---------------------------
(***************************************************************************)
(* Extension X02, decision tables (BUILDING.md pattern B) of the MTA-STS   *)
(* code behind maddy's mx_auth.mtasts (go-mtasts: Policy.Match,            *)
(* readDNSRecord, downloadPolicy, readPolicy as reached through Cache.Get):*)
(*                                                                         *)
(*  tab = "match"  does MX host name m match the mx patterns of a policy   *)
(*                 (RFC 8461 4.1: exact, or "*." + suffix for exactly one   *)
(*                 left-most label; case-insensitive; A-label/U-label       *)
(*                 spellings and a trailing dot of the MX name ignored)     *)
(*  tab = "txt" | "body" | "http" | "dns"                                   *)
(*                 what Get answers on an empty cache for one TXT answer    *)
(*                 and one response of the policy host (RFC 8461 3.1-3.3)   *)
(*                                                                         *)
(* One state per input row.  Prop is the declarative statement, Rule the   *)
(* documented procedure; TLC checks Prop(in, Rule(in)) on every row and     *)
(* prints the rows; StsCacheTablesTrace evaluates Prop on what the code     *)
(* answered.                                                                *)
(*                                                                         *)
(* Deviations of the code (Devs / input conditions of the open findings):   *)
(*  "RawIndex"      Match cuts the *normalised* MX name at the position of  *)
(*                  the first dot of the *raw* one: wrong answers or an     *)
(*                  out-of-range panic when normalisation changes the byte  *)
(*                  length of the first label (A-label, NFD spelling) and   *)
(*                  the policy has a wildcard pattern                       *)
(*  "UpperALabel"   an A-label spelled in upper case (XN--...) is not decoded, so  *)
(*                  it equals neither its U-label nor its lower-case A-label    *)
(*  "TxtNoDiscard"  TXT records that do not begin with v=STSv1 are counted  *)
(*                  instead of discarded (RFC 8461 3.1)                     *)
(***************************************************************************)
EXTENDS Naturals, Sequences, FiniteSets, TLC, Json

CONSTANTS MaxMx,    \* labels in an MX host name (1..MaxMx)
          Devs,
          Gen

VARIABLE in
vars == <<in>>

(***************************** MX matching *********************************)
\* a label = canonical identity c + spelling sp
\*   ASCII labels: "lc" lower case, "uc" upper case
\*   the IDN label: "u" U-label, "U" upper-case U-label, "a" A-label, "A" upper-case A-label, "d" U-label in NFD
Lab(c, sp) == [c |-> c, sp |-> sp]
MxLabels  == {Lab("x", "lc"), Lab("x", "uc"), Lab("y", "lc"),
              Lab("idn", "u"), Lab("idn", "a"), Lab("idn", "U"), Lab("idn", "A"), Lab("idn", "d")}
PatLabels == {Lab("x", "lc"), Lab("x", "uc"), Lab("y", "lc"), Lab("idn", "u"), Lab("idn", "a")}
LenChanging == {"a", "A", "d"}   \* spellings whose byte length differs from the normalised one

Names(L, k) == UNION {[1..j -> L] : j \in 1..k}
Pats == [wild : BOOLEAN, base : Names(PatLabels, 2)]
Filler == {[wild |-> FALSE, base |-> <<Lab("zz", "lc")>>], [wild |-> TRUE, base |-> <<Lab("zz", "lc")>>]}
PatLists == {<<p>> : p \in Pats} \cup {<<f, p>> : f \in Filler, p \in Pats} \cup {<<p, f>> : f \in Filler, p \in Pats}

Canon(nm) == [i \in 1..Len(nm) |-> nm[i].c]
PatMatches(p, m) ==
  IF p.wild THEN Len(m) = Len(p.base) + 1 /\ SubSeq(Canon(m), 2, Len(m)) = Canon(p.base)
  ELSE Canon(m) = Canon(p.base)
ShouldMatch(i) == \E k \in 1..Len(i.pats) : PatMatches(i.pats[k], i.mx)

\* the documented procedure: walk the patterns in order, compare label-wise
RECURSIVE MatchFrom(_, _, _)
MatchFrom(pats, m, k) ==
  IF k > Len(pats) THEN FALSE
  ELSE LET p == pats[k] IN
       IF p.wild
       THEN IF Len(m) >= 2 /\ Len(m) - 1 = Len(p.base) /\ \A j \in 1..Len(p.base) : m[j + 1].c = p.base[j].c
            THEN TRUE ELSE MatchFrom(pats, m, k + 1)
       ELSE IF Len(m) = Len(p.base) /\ \A j \in 1..Len(m) : m[j].c = p.base[j].c
            THEN TRUE ELSE MatchFrom(pats, m, k + 1)

RawIndexCond(i) == i.mx[1].sp \in LenChanging /\ \E k \in 1..Len(i.pats) : i.pats[k].wild
UpperALabelCond(i) == \E j \in 1..Len(i.mx) : i.mx[j].sp = "A"

InMatch == \E m \in Names(MxLabels, MaxMx), dot \in BOOLEAN, ps \in PatLists :
             in = [tab |-> "match", mx |-> m, dot |-> dot, pats |-> ps]

(***************************** fetch decision ******************************)
TxtFields == [ver : {"absent", "STSv1", "STSv2"}, id : {"absent", "good", "empty", "space"},
              ext : BOOLEAN, order : {"vfirst", "vlast"}, sp : {"tight", "spaced", "trail"}]
TxtShapes == [n : {"zero", "one", "two", "foreign"}, f : TxtFields]
GoodTxt == [n |-> "one", f |-> [ver |-> "STSv1", id |-> "good", ext |-> FALSE, order |-> "vfirst", sp |-> "spaced"]]

Bodies == [ver : {"absent", "STSv1", "STSv2"}, mode : {"absent", "enforce", "testing", "none", "bogus"},
           age : {"absent", "num", "alpha", "neg"}, nmx : 0..2, ext : {"no", "plain", "colon"},
           eol : {"lf", "crlf"}, final : BOOLEAN, order : {"std", "vlast"}]
GoodBody == [ver |-> "STSv1", mode |-> "enforce", age |-> "num", nmx |-> 2, ext |-> "no", eol |-> "lf",
             final |-> TRUE, order |-> "std"]
BadBody == [GoodBody EXCEPT !.ver = "STSv2"]
Https == [status : {200, 404, 500, 301}, ctype : {"plain", "plaincs", "html", "missing"}]
GoodHttp == [status |-> 200, ctype |-> "plain"]

FetchIn(tab, dns, txt, http, body) == [tab |-> tab, dns |-> dns, txt |-> txt, http |-> http, body |-> body]
InTxt  == \E t \in TxtShapes : in = FetchIn("txt", "ok", t, GoodHttp, GoodBody)
InBody == \E b \in Bodies : in = FetchIn("body", "ok", GoodTxt, GoodHttp, b)
InHttp == \E h \in Https, b \in {GoodBody, BadBody} : in = FetchIn("http", "ok", GoodTxt, h, b)
InDns  == \E e \in {"temp", "perm"} : in = FetchIn("dns", e, GoodTxt, GoodHttp, GoodBody)

\* classes: "valid", "invalid", "free" (the documents leave it open / the weaker reading applies)
TxtRecordClass(f) ==
  IF f.ver # "STSv1" \/ f.id # "good" THEN "invalid"
  ELSE IF f.order = "vlast" THEN "free"       \* RFC 8461 3.1: the version field comes first; accepting it is harmless
  ELSE "valid"
TxtClass(t) ==
  CASE t.n = "zero" -> "invalid"
    [] t.n = "two" -> "invalid"                \* two STSv1 records
    [] OTHER -> TxtRecordClass(t.f)            \* "one", or one STSv1 record next to a foreign TXT record
BodyClass(b) ==
  IF b.ver # "STSv1" \/ b.mode \notin {"enforce", "testing", "none"} \/ b.age \in {"absent", "alpha"}
     \/ (b.mode # "none" /\ b.nmx = 0) THEN "invalid"
  ELSE IF b.age = "neg" \/ b.ext = "colon" THEN "free"
  ELSE "valid"
HttpOk(h) == h.status = 200 /\ h.ctype \in {"plain", "plaincs"}

MxNames == <<"mx1.p.sts.test", "*.p.sts.test">>
AgeNum == 604800
PolicyOf(b) == [kind |-> "policy", mode |-> b.mode, age |-> AgeNum, mx |-> SubSeq(MxNames, 1, b.nmx)]
NoPol == [kind |-> "nopolicy", mode |-> "", age |-> 0, mx |-> <<>>]
TempOut == [kind |-> "temp", mode |-> "", age |-> 0, mx |-> <<>>]

\* the documented procedure (RFC 8461 3.1 - 3.3 on an empty cache)
FetchRule(i) ==
  IF i.dns = "temp" THEN TempOut
  ELSE IF i.dns = "perm" THEN NoPol
  ELSE IF TxtClass(i.txt) = "invalid" THEN NoPol
  ELSE IF ~HttpOk(i.http) \/ BodyClass(i.body) = "invalid" THEN NoPol
  ELSE IF "TxtNoDiscard" \in Devs /\ i.txt.n = "foreign" THEN NoPol
  ELSE PolicyOf(i.body)

(******************************* property **********************************)
\* out of a match row (mtastsDelivery.CheckMX with the policy in enforce mode): "yes" (level mtasts), "no" (refused),
\* "panic", or a description of anything else; of a fetch row: [kind, mode, age, mx] or kind = "panic"
YesNo(b) == IF b THEN "yes" ELSE "no"
ViolMatch(i, out) ==
  (IF out = "panic" THEN {"MatchCrashed"} ELSE {})
  \cup (IF out = "yes" /\ ~ShouldMatch(i) THEN {"MatchedForeignMx"} ELSE {})
  \cup (IF out = "no" /\ ShouldMatch(i) THEN {"PolicyMxNotMatched"} ELSE {})
  \* the delivery answered neither "level mtasts" nor "refused" for a policy in enforce mode
  \cup (IF out \notin {"yes", "no", "panic"} THEN {"EnforceIncoherent"} ELSE {})

ViolFetch(i, out) ==
  LET tc == IF i.dns # "ok" THEN "invalid" ELSE TxtClass(i.txt)
      pc == IF ~HttpOk(i.http) THEN "invalid" ELSE BodyClass(i.body)
      pol == out.kind = "policy"
  IN (IF out.kind \in {"panic", "nil"} THEN {"GetCrashed"} ELSE {})
     \cup (IF pol /\ tc = "invalid" THEN {"PolicyWithoutValidRecord"} ELSE {})
     \cup (IF pol /\ pc = "invalid" THEN {"InvalidPolicyAccepted"} ELSE {})
     \cup (IF pol /\ pc = "valid" /\ out # PolicyOf(i.body) THEN {"PolicyFieldsDiffer"} ELSE {})
     \cup (IF ~pol /\ tc = "valid" /\ pc = "valid" THEN {"PublishedPolicyIgnored"} ELSE {})
     \cup (IF i.dns = "temp" /\ out.kind \notin {"temp", "panic", "nil"} THEN {"TempFailureMisreported"} ELSE {})
     \cup (IF i.dns # "temp" /\ out.kind = "temp" THEN {"NoPolicyMisreported"} ELSE {})

Viol(i, out) == IF i.tab = "match" THEN ViolMatch(i, out) ELSE ViolFetch(i, out)
Prop(i, out) == Viol(i, out) = {}
Rule(i) == IF i.tab = "match" THEN YesNo(MatchFrom(i.pats, i.mx, 1)) ELSE FetchRule(i)

\* the input condition of the open finding that covers row i (or "")
DevOf(i) == IF i.tab = "match" THEN (IF RawIndexCond(i) THEN "RawIndex" ELSE IF UpperALabelCond(i) THEN "UpperALabel" ELSE "")
            ELSE IF i.dns = "ok" /\ i.txt.n = "foreign" THEN "TxtNoDiscard" ELSE ""

Init == InMatch \/ InTxt \/ InBody \/ InHttp \/ InDns
Next == FALSE /\ UNCHANGED in
Spec == Init /\ [][Next]_vars

RuleSatisfiesProp == Prop(in, Rule(in))
Emit == Gen => PrintT(<<"ROW", ToJson([in |-> in, exp |-> Rule(in), dev |-> DevOf(in)])>>)
=============================================================================
