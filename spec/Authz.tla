------------------------------- MODULE Authz -------------------------------
(***************************************************************************)
(* Sender authorization (check.authorize_sender + authz.AuthorizeEmailUse) *)
(* as a decision table (property C15).                                     *)
(*                                                                         *)
(* Input row                                                               *)
(*   tbl     the entitlement configuration                                 *)
(*             "identity" user_to_email identity (user name = own address) *)
(*             "list"     static: U -> own address, alias                   *)
(*             "domain"   static: U -> the domain (wildcard)               *)
(*             "star"     static: U -> "*"                                  *)
(*             "absent"   static table without an entry for the user        *)
(*             "prepare"  identity + prepare_email alias -> own address     *)
(*             "chain_req" table.chain: step U -> group, step group -> own  *)
(*                        address, alias (both required; V is in no group)   *)
(*             "chain_dom" table.chain: step U -> tenant key that is the     *)
(*                        domain name, V -> group; step group -> V's address *)
(*                        (the tenant key has no addresses: U gets nothing)  *)
(*             "chain_opt" table.chain: optional_step U -> own address,      *)
(*                        alias (a miss passes the user name on = identity)  *)
(*             "file"     user_to_email file: U -> own address, alias; V ->  *)
(*                        own address - a table.file that is edited and     *)
(*                        reloaded while the server runs (see edit)          *)
(*             "fileprep" identity + prepare_email file: alias -> own address*)
(*   edit    what happened to the file behind "file"/"fileprep" between the  *)
(*           start of the server and this message ("the configured mapping"  *)
(*           is the file as last reloaded): "none" | "same" (rewritten with  *)
(*           the same lines) | "revoke" (alias taken off U's line) |         *)
(*           "delline" (U's line / the alias line deleted) | "replace"       *)
(*           (alias replaced by ivy / alias now prepared to V's address) |   *)
(*           "grant" (the server started without alias, it was added)        *)
(*             "twin"     static, case twins as distinct keys / entries:    *)
(*                        U -> own address, alias; W -> ivy; V -> own       *)
(*                        address, cself (family I)                         *)
(*   norm    from_normalize, every documented setting                      *)
(*   anorm   auth_normalize: "=" (the same setting as norm) or, in family I,*)
(*           any documented setting - the two directives are independent    *)
(*   auth    the authenticated user as the client spelled it, [a, v];      *)
(*           a = "none": not authenticated                                 *)
(*   mf      MAIL FROM address [a, v]                                      *)
(*   from    the From fields: [layout, x, y, style]                        *)
(*             none | one (x) | two (x, y in one field) | fields (x and y  *)
(*             in two From fields, x first) | group (x, y) | group1 (x) |  *)
(*             fields_xy (field x, then a field "x, y") | fields_yx (x,    *)
(*             then "y, x") | fields_g (x, then a group of x, y) |         *)
(*             fields3 (x, x again, y)                                     *)
(*           style = how the single address of layout "one" is written     *)
(*   sender  the Sender address or NoItem                                  *)
(*   chk     check_header yes / no (envelope-only mode, a documented setting)*)
(*   sasl    how the session was authenticated: [mech, az]; az = the SASL   *)
(*           authorization identity: "empty" | "same" (= the user name) |   *)
(*           "other" (the name of the other account).  auth is always the   *)
(*           account whose password was verified (the authentication id).   *)
(*   nb      a neighbour check in the same check block that fails at the    *)
(*           sender and body stages with this action: "absent" (no such     *)
(*           check) | "none" (it passes) | "quarantine" | "reject"           *)
(*   act     how unauth_action / no_match_action / err_action are written:  *)
(*           "default" (absent), "reject", "quarantine", "custom_reject"    *)
(*           (reject 553 5.7.1 "text"), "custom_quarantine"                 *)
(*   fam     the row family (bookkeeping only)                              *)
(* Output [accepted, flagged]: flagged = delivered with the quarantine flag *)
(* Addresses [a, v]: a = which mailbox, v = how it is spelled; all         *)
(* spellings of a mailbox are the same address (case, NFC/NFD, full-width, *)
(* A-label/U-label domain).                                                *)
(*   self  zoe@example.org (U's own)   alias  sales@example.org            *)
(*   peer  bob@example.org (V's own)   foreign mallory@evil.example        *)
(*   look  zoe@example.org.evil.example    sub   zoe@mail.example.org      *)
(*   suffix zoe@evilexample.org                                            *)
(*   ivy   ivy@example.org (in the address list of U)                        *)
(*   ivyd  Ivy@example.org spelled with U+0130 (capital dotted I): another   *)
(*         mailbox (PRECIS maps U+0130 to i + U+0307), but strings.ToLower   *)
(*         - and therefore the "casefold" setting - turns it into ivy        *)
(*   dv    ceo@fass<sigma>.example (in the address list of U; its domain is  *)
(*         the second domain of the wildcard table)                          *)
(*   dvss, dvfs, dvzw  the same with an IDNA deviation character: sharp s    *)
(*         for "ss", final sigma for sigma, a zero-width non-joiner inside.  *)
(*         IDNA2008 keeps them apart from dv (other domains); transitional   *)
(*         (IDNA2003) processing would map all three onto dv                 *)
(*   cself ZOE@example.org, the local part in capitals.  Where the operator's *)
(*         from_normalize keeps the case of local parts (noop, precis,       *)
(*         precis_email) and the mapping names zoe@ and ZOE@ with different  *)
(*         owners (table "twin"), they are two addresses (RFC 5321 local     *)
(*         parts are case-sensitive); under a folding setting cself is a     *)
(*         spelling of self (weaker reading).  Likewise the account W is     *)
(*         named ZOE@example.org: a key of its own in "twin", enumerated     *)
(*         only where auth_normalize keeps the case of the name.             *)
(*   null  the null reverse-path MAIL FROM:<> (envelope only): nobody's     *)
(*         address, nobody is entitled to it                                *)
(*   pm    "postmaster" without a domain (envelope only): an address like   *)
(*         any other, covered only by "*"                                   *)
(*                                                                         *)
(* Prop   the listed property, one-sided: accepted => entitled.            *)
(* Rule   the documented algorithm (docs/reference/checks/                 *)
(*        authorize_sender.md) step by step, including what the            *)
(*        normalisation setting can and cannot see.                        *)
(* Deviation "FirstFromOnly": CheckBody looks at the first From field only.*)
(***************************************************************************)
EXTENDS Naturals, Sequences, FiniteSets, TLC, Json

CONSTANTS Devs,      \* enabled deviations
          Families,  \* which row families to enumerate: subset of {"A" .. "I"}
          Gen        \* TRUE: print every row

VARIABLE in

Item(a, v) == [a |-> a, v |-> v]
P(a) == Item(a, "plain")
NoItem == Item("-", "-")

Tbls  == {"identity", "list", "domain", "star", "absent", "prepare"}
ChainTbls == {"chain_req", "chain_dom", "chain_opt"}
FileTbls == {"file", "fileprep"}
FileEdits == {"none", "same", "revoke", "delline", "replace", "grant"}
DevTwins == {"dvss", "dvfs", "dvzw"}
QuarActs == {"quarantine", "custom_quarantine"}
Addrs == {"self", "alias", "peer", "foreign", "look", "sub", "suffix"}
Vars  == {"plain", "upper", "nfd", "wide", "idn"}
Norms == {"auto", "precis_casefold_email", "precis_casefold", "precis_email", "precis", "casefold", "noop"}
Styles == {"bare", "angle", "dn", "dntrick", "encoded", "enctrick", "folded", "comment", "commenttrick",
           "casename", "spacename"}

(* ---- what the configuration entitles a user to (semantics, spelling-free) ---- *)
(* the address list of U in the file as last (re)loaded, and where prepare_email sends alias *)
FileList(edit) == CASE edit \in {"none", "same", "grant"} -> {"self", "alias"}
                    [] edit = "revoke"  -> {"self"}
                    [] edit = "delline" -> {}
                    [] edit = "replace" -> {"self", "ivy"}
FilePrep(edit) == CASE edit \in {"none", "same", "grant"} -> "self"
                    [] edit = "replace" -> "peer"
                    [] OTHER -> "-"

(* settings that keep the case of a local part / of a user name *)
KeepCase(n) == n \in {"noop", "precis", "precis_email"}
AN(r) == IF r.anorm = "=" THEN r.norm ELSE r.anorm     \* auth_normalize of the row
EntTwin(r) ==
  CASE r.auth.a = "U" -> {"self", "alias"} \cup (IF KeepCase(r.norm) THEN {} ELSE {"cself"})
    [] r.auth.a = "W" -> {"ivy"}
    [] r.auth.a = "V" -> {"peer", "cself"} \cup (IF KeepCase(r.norm) THEN {} ELSE {"self"})
    [] OTHER -> {}

Ent(tbl, u, edit) ==
  IF u = "U" THEN CASE tbl = "identity" -> {"self"}
                    [] tbl = "list"     -> {"self", "alias", "ivy", "dv"}
                    [] tbl = "domain"   -> {"self", "alias", "peer", "ivy", "ivyd", "dv"}
                    [] tbl = "star"     -> Addrs \cup {"pm", "ivy", "ivyd", "dv"} \cup DevTwins  \* any address; the null path is none
                    [] tbl = "file"     -> FileList(edit)
                    [] tbl = "fileprep" -> {"self"} \cup (IF FilePrep(edit) = "self" THEN {"alias"} ELSE {})
                    [] tbl = "absent"   -> {}
                    [] tbl = "prepare"  -> {"self", "alias"}
                    [] tbl = "chain_req" -> {"self", "alias"}
                    [] tbl = "chain_dom" -> {}
                    [] tbl = "chain_opt" -> {"self", "alias"}
  ELSE IF u = "V" /\ tbl = "fileprep" THEN {"peer"} \cup (IF FilePrep(edit) = "peer" THEN {"alias"} ELSE {})
  ELSE IF u = "V" /\ tbl \in {"identity", "prepare", "chain_dom", "chain_opt", "file"} THEN {"peer"}
  ELSE {}

(* the operator's "casefold" setting is strings.ToLower, which makes U+0130 an i *)
Canon(r, it) == IF it.a = "ivyd" /\ r.norm = "casefold" THEN [it EXCEPT !.a = "ivy"] ELSE it

Entitled(r, it) == Canon(r, it).a \in (IF r.tbl = "twin" THEN EntTwin(r) ELSE Ent(r.tbl, r.auth.a, r.edit))

FromFields(f) ==
  CASE f.layout = "none"   -> <<>>
    [] f.layout = "one"    -> << <<f.x>> >>
    [] f.layout = "two"    -> << <<f.x, f.y>> >>
    [] f.layout = "fields" -> << <<f.x>>, <<f.y>> >>
    [] f.layout = "group"  -> << <<f.x, f.y>> >>
    [] f.layout = "group1" -> << <<f.x>> >>
    [] f.layout \in {"fields_xy", "fields_g"} -> << <<f.x>>, <<f.x, f.y>> >>
    [] f.layout = "fields_yx" -> << <<f.x>>, <<f.y, f.x>> >>
    [] f.layout = "fields3"   -> << <<f.x>>, <<f.x>>, <<f.y>> >>

AllFrom(f) == UNION {{FromFields(f)[i][j] : j \in 1..Len(FromFields(f)[i])} : i \in 1..Len(FromFields(f))}

(* "a message is accepted only if the envelope sender and the header author -
    every address in a From field, or the Sender address when the From address is
    not the user's - are addresses the authenticated user is entitled to ...
    and unauthenticated clients are refused" *)
(* With check_header no the operator asked for the envelope rule only (weaker reading:
   the header clause is then not demanded).  "The authenticated user" is r.auth, the
   account whose password was verified, whatever authorization identity the client
   claimed and whatever other checks of the pipeline say. *)
MustReject(r) ==
  \/ r.auth.a = "none"
  \/ ~Entitled(r, r.mf)
  \/ /\ r.chk
     /\ \E it \in AllFrom(r.from) : ~Entitled(r, it)
     /\ (r.sender = NoItem \/ ~Entitled(r, r.sender))

(* where the operator chose the quarantine action, a delivery that carries the
   quarantine flag is the refusal he asked for *)
Prop(r, out) == (out.accepted /\ ~(r.act \in QuarActs /\ out.flagged)) => ~MustReject(r)

(* ---- the documented algorithm ------------------------------------------------- *)
(* what a normalisation function makes equal: the class of a spelling of the whole
   address / user name, and of its domain part *)
NC(norm, v) ==
  CASE norm \in {"auto", "precis_casefold_email"} -> "c"
    [] norm = "precis_casefold" -> IF v = "idn" THEN v ELSE "c"           \* whole string, A-labels not decoded
    [] norm = "precis_email"    -> IF v = "upper" THEN v ELSE "c"         \* local part keeps its case
    [] norm = "precis"          -> IF v \in {"upper", "idn"} THEN v ELSE "c"
    [] norm = "casefold"        -> IF v \in {"plain", "upper"} THEN "c" ELSE v
    [] OTHER                    -> v                                       \* noop
DC(norm, v) ==
  CASE norm \in {"auto", "precis_casefold_email", "precis_email"} -> "c"
    [] norm = "precis_casefold" -> IF v = "idn" THEN v ELSE "c"
    [] norm = "precis"          -> IF v \in {"upper", "idn"} THEN v ELSE "c"
    [] norm = "casefold"        -> IF v \in {"plain", "upper", "wide"} THEN "c" ELSE v
    [] OTHER                    -> IF v \in {"plain", "wide"} THEN "c" ELSE v

MainDomain(a) == a \in {"self", "alias", "peer", "ivy", "ivyd"} \/ a = "dv"   \* the two domains of the wildcard entry
Own(u) == IF u = "U" THEN "self" ELSE "peer"

(* table "twin" (canonical spellings only): what a setting makes of the string of a mailbox /
   of a user name, and what the static table returns for a key *)
SId(n, a) == IF a = "cself" /\ ~KeepCase(n) THEN "self" ELSE IF a = "ivyd" /\ n = "casefold" THEN "ivy" ELSE a
UName(u) == CASE u = "U" -> "self" [] u = "W" -> "cself" [] u = "V" -> "peer" [] OTHER -> "-"
TwinList(k) == CASE k = "self" -> {"self", "alias"} [] k = "cself" -> {"ivy"} [] k = "peer" -> {"peer", "cself"} [] OTHER -> {}

(* does the (normalised) address match what the table returns for the (normalised) user? *)
Match(r, it00) ==
  LET n  == r.norm                 \* from_normalize: applied to the address
      an == AN(r)                  \* auth_normalize: applied to the user name
      it0 == Canon(r, it00)
      \* prepare_email: static alias -> own address of U, keyed by the canonical spelling
      prep == IF r.tbl = "prepare" THEN "self" ELSE IF r.tbl = "fileprep" THEN FilePrep(r.edit) ELSE "-"
      it == IF prep # "-" /\ it0.a = "alias" /\ NC(n, it0.v) = NC(n, "plain") THEN P(prep) ELSE it0
      found == r.auth.a = "U" /\ NC(an, r.auth.v) = NC(an, "plain")      \* static tables are keyed by "U" canonical
      foundV == r.auth.a = "V" /\ NC(an, r.auth.v) = NC(an, "plain")
      ident == it.a = Own(r.auth.a) /\ NC(n, it.v) = NC(an, r.auth.v)  \* the entry is the normalised user name
      inList(S) == it.a \in S /\ NC(n, it.v) = NC(n, "plain")
  IN IF it0.a = "null" THEN FALSE          \* "" cannot be split into mailbox and domain: refused
     ELSE IF it0.a = "pm"
     \* the e-mail normalisers turn it into "postmaster@", which the lookup refuses;
     \* the others leave a string that only "*" covers
     THEN r.tbl = "star" /\ found /\ n \in {"precis_casefold", "precis", "casefold", "noop"}
     ELSE
     CASE r.tbl \in {"identity", "prepare", "fileprep"} -> ident
       [] r.tbl = "twin"   -> SId(n, it0.a) \in TwinList(SId(an, UName(r.auth.a)))
       [] r.tbl = "list"   -> found /\ inList({"self", "alias", "ivy", "dv"})
       [] r.tbl = "file"   -> IF r.auth.a = "U" THEN found /\ inList(FileList(r.edit)) ELSE foundV /\ inList({"peer"})
       [] r.tbl = "chain_req" -> found /\ inList({"self", "alias"})
       [] r.tbl = "chain_dom" -> foundV /\ inList({"peer"})
       [] r.tbl = "chain_opt" -> IF found THEN inList({"self", "alias"}) ELSE ident
       [] r.tbl = "domain" -> found /\ MainDomain(it.a) /\ DC(n, it.v) = DC(n, "plain")
       [] r.tbl = "star"   -> found
       [] OTHER            -> FALSE

No(w)  == [accepted |-> FALSE, flagged |-> FALSE, why |-> w]
Yes    == [accepted |-> TRUE, flagged |-> FALSE, why |-> "ok"]

(* the decision with the reject action ... *)
RuleReject(r, D) ==
  LET ff0 == FromFields(r.from)
      ff  == IF "FirstFromOnly" \in D /\ Len(ff0) > 1 THEN <<ff0[1]>> ELSE ff0
  IN
  IF r.auth.a = "none" THEN No("unauthenticated")
  ELSE IF r.sasl.az = "other" THEN No("authzid")          \* such an AUTH is refused, no session
  ELSE IF r.nb = "reject" THEN No("neighbour")
  ELSE IF ~Match(r, r.mf) THEN No("envelope")
  ELSE IF ~r.chk THEN Yes
  ELSE IF Len(ff) = 0 THEN No("no-from")
  ELSE IF Len(ff) > 1 THEN No("several-from-fields")
  ELSE IF Len(ff[1]) > 1 THEN No("several-from-addresses")
  ELSE IF Match(r, ff[1][1]) THEN Yes
  ELSE IF r.sender # NoItem /\ r.sender # ff[1][1] /\ Match(r, r.sender) THEN Yes
  ELSE No("header")

(* ... and with the action the operator wrote: quarantine lets the message pass with the flag *)
Rule(r, D) ==
  LET b == RuleReject(r, D) IN
  IF r.act \in QuarActs /\ ~b.accepted /\ b.why \notin {"authzid", "neighbour"}
  THEN [accepted |-> TRUE, flagged |-> TRUE, why |-> b.why]
  ELSE b

(* ---- the input space ------------------------------------------------------------ *)
FromOne(X, S) == [layout : {"one"}, x : X, y : {NoItem}, style : S]
FromMulti(L, X) == [layout : L, x : X, y : X, style : {"angle"}]
FromNone == {[layout |-> "none", x |-> NoItem, y |-> NoItem, style |-> "bare"]}
FromGroup1(X) == [layout : {"group1"}, x : X, y : {NoItem}, style : {"angle"}]

Plain(S) == {P(a) : a \in S}
AuthNone == Item("none", "plain")
Sasl0 == [mech |-> "PLAIN", az |-> "empty"]

(* family A: who is entitled to what, every header layout, canonical spellings *)
RowsA ==
  LET X3 == Plain({"self", "peer", "foreign"}) IN
  [ tbl : Tbls, norm : {"auto"},
    auth : {AuthNone, Item("U", "plain"), Item("V", "plain")},
    mf : Plain(Addrs),
    from : FromNone \cup FromOne(Plain(Addrs), Styles) \cup FromMulti({"two", "fields", "group", "fields_xy", "fields_yx", "fields_g", "fields3"}, X3)
           \cup FromGroup1(X3),
    sender : {NoItem} \cup X3,
    chk : {TRUE}, sasl : {Sasl0}, nb : {"absent"}, act : {"default"}, edit : {"none"}, anorm : {"="}, fam : {"A"} ]

(* family B: spellings against normalisation settings *)
RowsB ==
  LET XV == [a : {"self", "foreign"}, v : Vars] IN
  [ tbl : {"identity", "list", "domain"}, norm : Norms,
    auth : [a : {"U"}, v : Vars],
    mf : XV,
    from : FromOne(XV, {"angle"}),
    sender : {NoItem, Item("self", "upper"), Item("self", "idn"), Item("foreign", "upper")},
    chk : {TRUE}, sasl : {Sasl0}, nb : {"absent"}, act : {"default"}, edit : {"none"}, anorm : {"="}, fam : {"B"} ]

(* family C: the session around the check - null / postmaster envelope senders, envelope-only
   mode, how the session was authenticated (mechanism, authorization identity), and a
   neighbour check in the same block *)
RowsC ==
  [ tbl : {"identity", "list", "domain", "star"}, norm : {"auto", "precis_casefold", "noop"},
    auth : {AuthNone, Item("U", "plain"), Item("V", "plain")},
    mf : Plain({"null", "pm", "self", "peer", "foreign"}) \cup {Item("pm", "upper")},
    from : FromNone \cup FromOne(Plain({"self", "peer", "foreign"}), {"angle"}),
    sender : {NoItem},
    chk : BOOLEAN,
    sasl : {Sasl0, [mech |-> "PLAIN", az |-> "same"], [mech |-> "PLAIN", az |-> "other"],
            [mech |-> "LOGIN", az |-> "empty"]},
    nb : {"absent", "none", "quarantine", "reject"}, act : {"default"}, edit : {"none"}, anorm : {"="}, fam : {"C"} ]

(* family D: the action directives, plain and with a custom SMTP reply *)
RowsD ==
  [ tbl : {"identity", "list"}, norm : {"auto"},
    auth : {AuthNone, Item("U", "plain"), Item("V", "plain")},
    mf : Plain({"self", "foreign", "null"}),
    from : FromNone \cup FromOne(Plain({"self", "foreign"}), {"angle"}),
    sender : {NoItem, P("self")},
    chk : BOOLEAN, sasl : {Sasl0}, nb : {"absent", "quarantine"},
    act : {"reject", "quarantine", "custom_reject", "custom_quarantine"}, edit : {"none"}, anorm : {"="}, fam : {"D"} ]

(* family E: an entitled envelope sender followed, in the same message, by a mailbox
   that only strings.ToLower confuses with it, under every normalisation setting *)
RowsE ==
  [ tbl : {"identity", "list", "domain"}, norm : Norms,
    auth : {Item("U", "plain")},
    mf : {P("ivy"), Item("ivy", "upper"), P("self")},
    from : FromOne({P("ivyd"), Item("ivyd", "upper"), P("ivy"), P("foreign")}, {"angle"}),
    sender : {NoItem, P("ivyd"), P("ivy")},
    chk : {TRUE}, sasl : {Sasl0}, nb : {"absent"}, act : {"default"}, edit : {"none"}, anorm : {"="}, fam : {"E"} ]

(* family F: user_to_email built with table.chain (required and optional steps) *)
RowsF ==
  LET X4 == Plain({"self", "alias", "peer", "foreign"}) IN
  [ tbl : ChainTbls, norm : {"auto", "noop"},
    auth : {AuthNone, Item("U", "plain"), Item("U", "upper"), Item("V", "plain")},
    mf : X4,
    from : FromNone \cup FromOne(X4, {"angle"}),
    sender : {NoItem},
    chk : {TRUE}, sasl : {Sasl0}, nb : {"absent"}, act : {"default"}, edit : {"none"}, anorm : {"="}, fam : {"F"} ]

(* family G: addresses that differ from an entitled one by an IDNA deviation character only
   (envelope sender, From, Sender), under every normalisation setting *)
RowsG ==
  LET TW == Plain(DevTwins) IN
  [ tbl : {"list", "domain"}, norm : Norms,
    auth : {Item("U", "plain")},
    mf : TW \cup {P("dv"), P("self")},
    from : FromOne(TW \cup {P("dv")}, {"angle"}),
    sender : {NoItem, P("dvss")},
    chk : {TRUE}, sasl : {Sasl0}, nb : {"absent"}, act : {"default"}, edit : {"none"}, anorm : {"="}, fam : {"G"} ]

(* family H: the mapping lives in a table.file that is edited and reloaded while the server
   runs; the message is judged against the file as last reloaded *)
RowsH ==
  [ tbl : FileTbls, norm : {"auto"},
    auth : {Item("U", "plain"), Item("U", "upper"), Item("V", "plain")},
    mf : Plain({"self", "alias", "ivy", "peer"}),
    from : FromOne(Plain({"self", "alias", "ivy"}), {"angle"}),
    sender : {NoItem},
    chk : {TRUE}, sasl : {Sasl0}, nb : {"absent"}, act : {"default"}, edit : FileEdits, anorm : {"="}, fam : {"H"} ]

(* family I: auth_normalize and from_normalize set independently (every pair of settings), with
   what tells the two functions apart: a mapping with case twins as distinct accounts / distinct
   addresses, and the mailbox only strings.ToLower confuses with an entitled one *)
RowsI ==
  { r \in [ tbl : {"twin"}, norm : Norms, anorm : Norms,
            auth : {Item("U", "plain"), Item("W", "plain"), Item("V", "plain")},
            mf : Plain({"self", "cself", "ivy", "ivyd", "peer"}),
            from : FromOne(Plain({"self", "cself", "ivy"}), {"angle"}),
            sender : {NoItem, P("cself")},
            chk : {TRUE}, sasl : {Sasl0}, nb : {"absent"}, act : {"default"}, edit : {"none"}, fam : {"I"} ]
      : r.auth.a = "W" => KeepCase(r.anorm) }
  \cup
  [ tbl : {"list", "domain"}, norm : Norms, anorm : Norms,
    auth : {Item("U", "plain")},
    mf : Plain({"self", "ivy", "ivyd"}),
    from : FromOne(Plain({"self", "ivyd"}), {"angle"}),
    sender : {NoItem, P("ivyd")},
    chk : {TRUE}, sasl : {Sasl0}, nb : {"absent"}, act : {"default"}, edit : {"none"}, fam : {"I"} ]

Rows == (IF "I" \in Families THEN RowsI ELSE {}) \cup (IF "G" \in Families THEN RowsG ELSE {}) \cup (IF "H" \in Families THEN RowsH ELSE {}) \cup
        (IF "A" \in Families THEN RowsA ELSE {}) \cup (IF "B" \in Families THEN RowsB ELSE {})
        \cup (IF "C" \in Families THEN RowsC ELSE {}) \cup (IF "D" \in Families THEN RowsD ELSE {})
        \cup (IF "E" \in Families THEN RowsE ELSE {}) \cup (IF "F" \in Families THEN RowsF ELSE {})

Init == /\ in \in Rows
        /\ Gen => PrintT(<<"ROW", ToJson(in)>>)
Next == UNCHANGED in
Spec == Init /\ [][Next]_in

(* TLC checks on every row that the documented algorithm satisfies the property *)
RuleIsSafe == Prop(in, Rule(in, Devs))
(* and that it is not vacuous: some rows are accepted (checked by the driver on the row list) *)
=============================================================================
