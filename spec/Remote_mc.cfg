\* stand-alone exhaustive run (1 MX, full fact space); lib/checks/c05.py generates the configurations it uses
SPECIFICATION Spec
CONSTANTS
  PolSets <- AllPolSets
  MinTLSSet = {0, 1, 2}
  MinMXSet = {0, 1, 2}
  OverrideSet = {TRUE, FALSE}
  StsSet = {"none", "testing", "enforce"}
  StlsCert <- AllStlsCert
  TlsaSet <- AllTlsa
  NMXSet = {1}
  MsgKinds <- Kinds4
  MaxMsgs = 3
  WithDNSFail = TRUE
  SlowSet = {FALSE}
  CnSet = {"no"}
  QuitSet = {"bye"}
  ResSet <- LocalRes
  Devs = {}
  Gen = FALSE
VIEW View
INVARIANTS NoViolation TypeOK LevelsAgree
