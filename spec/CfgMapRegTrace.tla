--------------------------- MODULE CfgMapRegTrace ---------------------------
(***************************************************************************)
(* Code -> model for X08, layer "r".  trace.ndjson holds one "Row" event   *)
(* per configuration the harness loaded with the real cfgparser,           *)
(* maddy.ReadGlobals, maddy.RegisterModules and maddy's initModules:        *)
(*   [t, seq, e |-> "Row", in |-> <input of CfgMapReg.tla>,                 *)
(*    out |-> [panic, err |-> [is, stage, line, mentions (sequence)],       *)
(*             objs, uses, order]]                                          *)
(* TLC evaluates the property predicates of CfgMapReg.tla on the recorded  *)
(* outcome (viol) and compares it with the documented procedure (drift).   *)
(***************************************************************************)
EXTENDS CfgMapReg

Rows == ndJsonDeserialize("trace.ndjson")
tvars == <<in>>

OutOf(r) == [panic |-> r.out.panic,
             err |-> [is |-> r.out.err.is, stage |-> r.out.err.stage, line |-> r.out.err.line,
                      mentions |-> Range(r.out.err.mentions)],
             objs |-> r.out.objs, uses |-> r.out.uses, order |-> r.out.order]
Bad(r) == Viol(r.in, OutOf(r)) # {} \/ ~SameOut(OutOf(r), Rule(r.in))
Verdict(r) == [t |-> r.t, drift |-> ~SameOut(OutOf(r), Rule(r.in)), driftAt |-> r.seq,
               viol |-> Viol(r.in, OutOf(r)), devs |-> {}]
Eval ==
  LET bad == {k \in 1..Len(Rows) : Bad(Rows[k])} IN
    [n |-> Len(Rows), accepted |-> Len(Rows) - Cardinality(bad),
     verdicts |-> {Verdict(Rows[k]) : k \in bad}]

TInit == in = <<>> /\ TLCSet(1, Eval)
TNext == UNCHANGED tvars
TSpec == TInit /\ [][TNext]_tvars
Post == PrintT(<<"VERDICTS", ToJson(TLCGet(1))>>)
=============================================================================
