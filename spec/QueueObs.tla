----------------------------- MODULE QueueObs -----------------------------
(***************************************************************************)
(* Observation state and property predicates of the durable retry queue   *)
(* (properties C01, C18-part).  Everything here is a pure function of the *)
(* events visible at the queue's boundaries:                              *)
(*   - the upstream side (which recipients were accepted),                *)
(*   - the module.DeliveryTarget boundary below the queue,                *)
(*   - the bounce pipeline (failure reports),                             *)
(*   - the spool directory at quiescence.                                 *)
(* The same operators update `obs` in the design spec (Queue.tla, checked *)
(* exhaustively by TLC) and in the trace spec (QueueTrace.tla, fed with   *)
(* events recorded from the real queue), so the predicates that decide    *)
(* the property are one piece of TLA+ evaluated on both.                  *)
(*                                                                         *)
(* Attribution of failures to recipients follows the documented rules:    *)
(* Start -> all pending, AddRcpt -> that recipient, Body -> all accepted, *)
(* per-recipient status -> that recipient, Commit -> all accepted (final  *)
(* attribution: a commit-stage failure supersedes earlier statuses).      *)
(***************************************************************************)
EXTENDS Naturals, Sequences, FiniteSets

Res == {"ok", "temp", "perm", "unspec"}
Retryable(e) == e \in {"temp", "unspec"}

\* cur[r]: "na" = not part of the running attempt, "pend" = accepted, no verdict yet
ObsInit(R) ==
  [ rcpts     |-> {},                    \* distinct recipients accepted by the queue
    pending   |-> {},                    \* no terminal outcome yet
    owed      |-> {},                    \* terminally failed, failure report still owed
    n         |-> [r \in R |-> 0],       \* attempts that included r
    last      |-> [r \in R |-> "none"],  \* outcome of r in its latest attempt
    cur       |-> [r \in R |-> "na"],
    acc       |-> {},                    \* accepted by the target in the running attempt
    inAtt     |-> FALSE,
    committed |-> [r \in R |-> 0],
    bounced   |-> [r \in R |-> 0],
    viol      |-> {} ]

V(o, c, name) == IF c THEN o ELSE [o EXCEPT !.viol = @ \cup {name}]

ObsAccept(o, S) == [o EXCEPT !.rcpts = S, !.pending = S]

\* end of an attempt: fold cur into last / pending / owed
ObsEnd(o, mt) ==
  LET inA  == {r \in DOMAIN o.cur : o.cur[r] # "na"}
      fin(r) == IF o.cur[r] = "pend" THEN "unspec" ELSE o.cur[r]   \* aborted without verdict
      keep == {r \in inA : Retryable(fin(r)) /\ o.n[r] < mt}
      term == {r \in inA : fin(r) # "ok" /\ r \notin keep}
  IN [o EXCEPT !.last = [r \in DOMAIN o.last |-> IF r \in inA THEN fin(r) ELSE o.last[r]],
               !.pending = (o.pending \ inA) \cup keep,
               !.owed = o.owed \cup term,
               !.cur = [r \in DOMAIN o.cur |-> "na"],
               !.acc = {},
               !.inAtt = FALSE]

ObsStart(o, res, mt) ==
  LET o1 == [o EXCEPT !.inAtt = TRUE,
                      !.n = [r \in DOMAIN o.n |-> IF r \in o.pending THEN o.n[r] + 1 ELSE o.n[r]]]
      o2 == V(o1, \A r \in o.pending : o1.n[r] <= mt, "MaxTriesExceeded")
      o3 == V(o2, o.pending # {}, "AttemptWithNothingPending")
  IN IF res = "ok" THEN o3
     ELSE ObsEnd([o3 EXCEPT !.cur = [r \in DOMAIN o.cur |-> IF r \in o.pending THEN res ELSE "na"]], mt)

ObsAddRcpt(o, r, res, mt) ==
  LET o1 == V(o, r \in o.pending, "RetryAfterTerminalOutcome")
      \* a recipient that was pending but skipped by a failed Start is counted by ObsStart;
      \* one handed although not pending still gets its attempt counted here
      o2 == IF r \in o.pending THEN o1 ELSE [o1 EXCEPT !.n[r] = @ + 1]
  IN IF res = "ok" THEN [o2 EXCEPT !.cur[r] = "pend", !.acc = @ \cup {r}]
     ELSE [o2 EXCEPT !.cur[r] = res]

ObsBody(o, res) ==
  IF res = "ok" THEN o
  ELSE [o EXCEPT !.cur = [r \in DOMAIN o.cur |-> IF r \in o.acc THEN res ELSE o.cur[r]]]

\* st : function from (a subset of) recipients to Res
ObsBodyNA(o, st) ==
  LET o1 == V(o, DOMAIN st \subseteq o.acc, "StatusForUnacceptedRcpt")
  IN [o1 EXCEPT !.cur = [r \in DOMAIN o.cur |->
        IF r \in DOMAIN st /\ st[r] # "ok" /\ r \in o.acc THEN st[r] ELSE o.cur[r]]]

ObsCommit(o, res, mt) ==
  LET good == {r \in o.acc : o.cur[r] = "pend"}
      o1 == IF res = "ok"
            THEN [o EXCEPT !.cur = [r \in DOMAIN o.cur |-> IF r \in good THEN "ok" ELSE o.cur[r]],
                           !.committed = [r \in DOMAIN o.committed |->
                                            IF r \in good THEN o.committed[r] + 1 ELSE o.committed[r]]]
            ELSE [o EXCEPT !.cur = [r \in DOMAIN o.cur |-> IF r \in o.acc THEN res ELSE o.cur[r]]]
      o2 == V(o1, \A r \in DOMAIN o1.committed : o1.committed[r] <= 1, "CommittedTwice")
      o3 == V(o2, \A r \in DOMAIN o1.committed : ~(o1.committed[r] >= 1 /\ o1.bounced[r] >= 1), "DeliveredAndBounced")
  IN ObsEnd(o3, mt)

ObsAbort(o, mt) == ObsEnd(o, mt)

\* a failure report naming the set S was handed to the bounce pipeline
ObsDsn(o, S, suppress) ==
  LET o1 == [o EXCEPT !.bounced = [r \in DOMAIN o.bounced |-> IF r \in S THEN o.bounced[r] + 1 ELSE o.bounced[r]],
                      !.owed = @ \ S]
      o2 == V(o1, S \subseteq o.owed, "ReportNamesNonFailedRcpt")
      o3 == V(o2, \A r \in DOMAIN o1.bounced : o1.bounced[r] <= 1, "BouncedTwice")
      o4 == V(o3, \A r \in DOMAIN o1.bounced : ~(o1.committed[r] >= 1 /\ o1.bounced[r] >= 1), "DeliveredAndBounced")
  IN V(o4, ~suppress, "ReportAlthoughSuppressed")

\* status code the scripted failures carry (harness/scripted/errs.go); an unclassified error has
\* no code of its own and is stored as the generic temporary one
StatusOf(res) == CASE res = "temp" -> "4.3.0" [] res = "perm" -> "5.1.1" [] OTHER -> "4.0.0"
\* class digit of the status a failure of that kind must be reported with
ClassOf(res) == IF res = "perm" THEN "5" ELSE "4"
\* enh = the scripted failures carry an enhanced status code.  One that carries only a basic reply
\* code (a next hop without ENHANCEDSTATUSCODES, a module that fills only Code/Message) has no
\* enhanced code of its own: the design stores the generic X.0.0 of its class; the property only
\* asks for the class then ("with their last status codes" - there is no more specific one)
StatusOfE(res, enh) == IF enh THEN StatusOf(res) ELSE IF res = "perm" THEN "5.0.0" ELSE "4.0.0"

\* a report as the bounce pipeline saw it (parsed with an independent MIME parser)
GoodReport(x) ==
  [ mimeOK |-> TRUE, reportType |-> "delivery-status", parts |-> 3, dsnAscii |-> TRUE,
    returnPath |-> "", toSender |-> TRUE, hasOrigHdr |-> TRUE, origSubjOK |-> TRUE,
    listed |-> x.listed, rewritten |-> {}, status |-> x.status, cls |-> x.cls ]

\* C18 predicates over one report (o.last holds each recipient's final outcome of the attempt)
ObsReport(o, rep, utf8, enh) ==
  LET o1 == V(o, rep.mimeOK /\ rep.reportType = "delivery-status" /\ rep.parts >= 2
                 /\ (utf8 \/ rep.dsnAscii), "ReportNotWellFormed")
      o2 == V(o1, rep.returnPath = "", "ReportReturnPathNotNull")
      o3 == V(o2, rep.toSender, "ReportNotToSender")
      o4 == V(o3, rep.hasOrigHdr /\ rep.origSubjOK, "ReportLacksOriginalHeader")
      o5 == V(o4, rep.rewritten = {}, "ReportUsesRewrittenAddress")
      o6 == V(o5, \A r \in DOMAIN rep.status :
                     r \in DOMAIN o.last =>
                        /\ r \in DOMAIN rep.cls /\ rep.cls[r] = ClassOf(o.last[r])
                        \* (an unclassified failure carries no status of its own: only the class is fixed)
                        /\ (enh /\ o.last[r] # "unspec") => rep.status[r] = StatusOf(o.last[r]), "ReportStatusMismatch")
      o7 == V(o6, o.owed = {}, "ReportOmitsFailedRcpt")
      o8 == V(o7, \A i, j \in 1..Len(rep.listed) : i # j => rep.listed[i] # rep.listed[j],
              "ReportListsRcptTwice")
  IN o8

\* the queue went quiet (nothing scheduled any more, or nothing happened for longer
\* than any retry delay); spoolEmpty = no file of the message is left
ObsQuiesced(o, suppress, spoolEmpty) ==
  LET one(r) == IF suppress
                THEN o.bounced[r] = 0 /\ (o.committed[r] = 1 \/ (o.committed[r] = 0 /\ r \in o.owed))
                ELSE o.committed[r] + o.bounced[r] = 1
      o1 == V(o, \A r \in o.rcpts : one(r), "NotExactlyOneOutcome")
      o2 == V(o1, o.pending = {}, "PendingRcptAbandoned")
      o3 == V(o2, ~o.inAtt, "AttemptLeftOpen")
      \* the report view of the same obligation (C18): the reports handed over for the attempts of this
      \* message listed every recipient that failed terminally - an attempt whose report was never
      \* generated (e.g. because the generator refused a stored status) lists none of them
  IN V(o3, suppress \/ o.owed = {}, "FailedRcptNotReported")
=============================================================================
