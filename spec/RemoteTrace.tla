----------------------------- MODULE RemoteTrace -----------------------------
(***************************************************************************)
(* Trace validation for Remote.tla.  trace.ndjson holds events recorded   *)
(* from the real remote.Target driven against scripted MX servers, many   *)
(* traces concatenated; a "Cfg" event starts a new trace and carries the  *)
(* configuration and environment facts of the behaviour.                  *)
(*                                                                         *)
(* Events:  Msg(reqtls, tlsno, quar)   driver, before Target.Start        *)
(*          Quar                       driver, quarantine flag raised after *)
(*                                     AddRcpt, before the body call       *)
(*          Lookup(mx, cross)          harness, where the outstanding TLSA *)
(*                                     answer of an earlier MX was stored  *)
(*          StsLookup(cross)           harness, where the outstanding      *)
(*                                     MTA-STS answer of an earlier        *)
(*                                     recipient domain was stored         *)
(*          SrvConn(mx, tls, cert)     scripted server, TLS state settled *)
(*          SrvData(mx, tls, cert)     scripted server, content received  *)
(*          Ret(op, res)               driver, AddRcpt / Body returned    *)
(*          End                        driver, after Target.Close         *)
(*                                                                         *)
(* Every line is consumed either by the matching action of Remote.tla     *)
(* with the logged arguments (silent design steps are taken in between),  *)
(* or - when the design cannot explain it - by the monitor-only step      *)
(* M_Step, which marks the trace as drifted and keeps folding `obs` with  *)
(* the same RemoteObs operators.  obs.viol therefore depends only on the  *)
(* recorded events.  `kviol` collects the violations that arise while the *)
(* (as-is) design is following the trace on a connection that the named   *)
(* deviation brought into use (conn.taint); only those can be a known     *)
(* finding.                                                                *)
(***************************************************************************)
EXTENDS Remote

Trace == ndJsonDeserialize("trace.ndjson")

VARIABLES l, drift, driftAt, tno, kviol

tvars == <<vars, l, drift, driftAt, tno, kviol>>

Ev == Trace[l]
IsEv(e) == l <= Len(Trace) /\ Ev.e = e

Publish(d, da, o, kv, dv) ==
  TLCSet(1, TLCGet(1) \cup {[t |-> tno, drift |-> d, driftAt |-> da, viol |-> o.viol,
                             kviol |-> kv, devs |-> dv]})

TInit ==
  /\ InitWith(MkCfg({}, 0, 0, FALSE, "none", FALSE, "ok", <<DefaultMX>>))
  /\ l = 1 /\ drift = FALSE /\ driftAt = 0 /\ tno = 0 /\ kviol = {}
  /\ TLCSet(1, {})

MXOf(r) == [stls |-> r.stls, cert |-> r.cert, stsMatch |-> r.stsMatch, tlsa |-> r.tlsa, slow |-> r.slow,
            cn |-> r.cn, tlsaC |-> r.tlsaC, quit |-> r.quit]

TReset ==
  /\ IsEv("Cfg")
  /\ cfg' = MkCfgR(ToSet(Ev.pols), Ev.minTLS, Ev.minMX, Ev.override, Ev.sts, Ev.adMX, Ev.dns,
                   [i \in 1..Len(Ev.mx) |-> MXOf(Ev.mx[i])],
                   [i \in 1..Len(Ev.res) |-> [loop |-> Ev.res[i].loop, fail |-> ToSet(Ev.res[i].fail)]])
  /\ k' = 0 /\ cur' = NoMsg /\ pc' = "idle" /\ mxi' = 0 /\ att' = "first" /\ lvl' = 0
  /\ conn' = NoConn /\ pool' = <<>> /\ lastErr' = "none" /\ devs' = {}
  /\ pend' = "no" /\ tl' = "insecure"
  /\ obs' = ObsInit
  /\ hist' = <<>>
  /\ l' = l + 1 /\ drift' = FALSE /\ driftAt' = 0 /\ tno' = Ev.t /\ kviol' = {}

MsgOf(e) == [reqtls |-> e.reqtls, tlsno |-> e.tlsno, quar |-> e.quar,
             mailfail |-> e.mailfail, qlate |-> e.qlate, na |-> e.na, pre |-> e.pre, late |-> e.late]

C_Msg  == IsEv("Msg") /\ StartMsg(MsgOf(Ev))
C_Look == IsEv("Lookup") /\ Lookup(Ev.mx, Ev.cross)
C_StsL == IsEv("StsLookup") /\ StsLookup(Ev.cross)
C_Conn == IsEv("SrvConn") /\ Connect(Ev.mx, Ev.tls)
C_Data == IsEv("SrvData") /\ Data(Ev.mx, Ev.tls) /\ (Ev.tls = "none" \/ Ev.cert = cfg.mx[Ev.mx].cert)
C_Ret  == IsEv("Ret") /\
            \/ Ev.op = "addrcpt" /\ (RetQuarantine(Ev.res) \/ LookupFail(Ev.res) \/ NoMX(Ev.res) \/ Gate(Ev.res))
            \/ Ev.op = "body" /\ (BodyRet(Ev.res) \/ BodyRefuse(Ev.res))
C_Quar == IsEv("Quar") /\ RaiseQuar
C_End  == IsEv("End") /\ Finish

Consume == C_Msg \/ C_Quar \/ C_Look \/ C_StsL \/ C_Conn \/ C_Data \/ C_Ret \/ C_End
Conform == Consume \/ Silent

C_Step ==
  /\ ~drift
  /\ \/ /\ Consume
        /\ l' = l + 1
        /\ kviol' = IF conn.taint # {} \/ (obs.msg.reqtls /\ ~cur.reqtls) THEN kviol \cup (obs'.viol \ obs.viol) ELSE kviol
        /\ IF Ev.e = "End" THEN Publish(FALSE, 0, obs', kviol', devs') ELSE TRUE
     \/ Silent /\ UNCHANGED <<l, kviol>>
  /\ UNCHANGED <<drift, driftAt, tno>>

(* the observation fold, independent of the design state *)
ObsApply(o, e) ==
  CASE e.e = "Msg"     -> ObsMsg(o, MsgOf(e))
    [] e.e = "Quar"    -> ObsQuar(o)
    [] e.e = "SrvData" -> ObsData(o, cfg, [mx |-> e.mx, tls |-> e.tls, cert |-> e.cert])
    [] e.e = "Ret"     -> ObsRet(o, cfg, e.op, e.res)
    [] OTHER -> o

M_Step ==
  /\ l <= Len(Trace) /\ Ev.e # "Cfg"
  /\ (drift \/ ~ENABLED Conform)
  /\ drift' = TRUE
  /\ driftAt' = IF drift THEN driftAt ELSE Ev.seq
  /\ obs' = ObsApply(obs, Ev)
  /\ l' = l + 1
  /\ UNCHANGED <<cfg, k, cur, pc, mxi, att, lvl, conn, pool, lastErr, pend, tl, devs, hist, tno, kviol>>
  /\ IF Ev.e = "End" THEN Publish(TRUE, driftAt', obs', kviol, devs) ELSE TRUE

TNext == TReset \/ C_Step \/ M_Step
TSpec == TInit /\ [][TNext]_tvars

Post == PrintT(<<"VERDICTS", ToJson(TLCGet(1))>>)
=============================================================================
