-------------------------------- MODULE Dane --------------------------------
(***************************************************************************)
(* C13 - DANE authentication accepts only a matching TLSA record and      *)
(* fails closed (RFC 7672; internal/target/remote/dane.go:verifyDANE,     *)
(* security.go:daneDelivery.CheckConn).                                    *)
(*                                                                         *)
(* Decision table (BUILDING.md pattern B) with a history dimension:        *)
(*   input   in  = [mode, rounds]: what ONE per-message delivery object of *)
(*                 mx_auth.dane is asked, MX candidate after MX candidate  *)
(*                 (PrepareConn starts the TLSA lookup for the MX,         *)
(*                 CheckConn judges the connection to it).  A round is     *)
(*                 [chain, hs, lookup, recs, disc, mxl, tll]; every round  *)
(*                 is another                                               *)
(*                 MX with its own TLSA RRset and its own certificate      *)
(*                 chain.                                                   *)
(*             mode   "seq": PrepareConn, CheckConn per round, in order;   *)
(*                    "overlap": the connection attempt to every MX but    *)
(*                    the last is given up before its TLSA lookup is       *)
(*                    answered; the late answers arrive after PrepareConn  *)
(*                    for the last MX and before its own answers; only the *)
(*                    last round has a CheckConn                            *)
(*             recs   sequence of TLSA records [u, s, m, match]: usage,    *)
(*                    selector, matching type as raw numbers (also out of  *)
(*                    range) and the certificate of the chain the          *)
(*                    association data was computed from ("none": data     *)
(*                    matching no certificate)                             *)
(*             chain  what the server presents                             *)
(*             hs     TLS handshake completed                              *)
(*             lookup outcome of TLSA discovery ("ok": recs is the RRset,  *)
(*                    "notfound": authenticated denial, "error": SERVFAIL, *)
(*                    bogus signature, time-out)                           *)
(*                    "wire": like "ok", but recs is published in a signed *)
(*                    zone and reaches the code through the real discovery *)
(*                    (DNS answer -> resolver -> discoverTLSA))            *)
(*             mxl, tll what the policies applied before mx_auth.dane have *)
(*                    concluded about the MX record (none/mtasts/dnssec)   *)
(*                    and the connection (none/encrypted/authenticated):   *)
(*                    the two level arguments of CheckConn.  Neither Prop  *)
(*                    nor Rule reads them: the DANE verdict is a function  *)
(*                    of the TLSA records and the TLS state only.          *)
(*             disc   [a, tlsa]: for lookup = "disc" the discovery itself   *)
(*                    is run against a DNS server answering the address    *)
(*                    query with a (ad/noad/nxdomain/servfail) and the     *)
(*                    TLSA query with tlsa; recs is what is published      *)
(*                    With disc.cname # "-" the MX name is a CNAME: "secure" *)
(*                    (whole chain signed), "initial" (only the zone of    *)
(*                    the MX name signed), "insecure"; disc.ctlsa is the   *)
(*                    answer to the TLSA query at the canonical name       *)
(*                    (which publishes one DANE-EE record whose data       *)
(*                    matches disc.cmatch), disc.tlsa / recs the answer at *)
(*                    the original name (RFC 7672 2.2.2: canonical name    *)
(*                    first, original name when nothing secure is there).  *)
(*             disc.af how the address of the MX host (of the canonical    *)
(*                    name when the MX name is a CNAME) is published: "a"  *)
(*                    (A only), "aaaa" (an IPv6-only host: the A query is   *)
(*                    answered with no data), "both".  Neither Prop nor    *)
(*                    Rule reads it: which address family a host has does  *)
(*                    not change what its TLSA RRset demands.  Rotated     *)
(*                    over every row that reaches the real discovery       *)
(*                    (wire, disc, CNAME, target, histories).              *)
(*             disc.rc, disc.srv, disc.hops  (rounds that reach the real    *)
(*                    discovery) spellings the rule is independent of,     *)
(*                    rotated over the rows: rc = the response code a      *)
(*                    "servfail" answer really carries (SERVFAIL, REFUSED, *)
(*                    NOTIMP, FORMERR: every one is a failed lookup);      *)
(*                    srv = "failover": the resolver configuration lists   *)
(*                    two servers and the first one fails every query (the *)
(*                    lookup outcome is the second server's answer; one    *)
(*                    delivery object has one resolver configuration: a    *)
(*                    history runs under its first round's srv);           *)
(*                    hops = length of the CNAME chain behind the MX name   *)
(*                    (2: mx -> alias -> canonical name, TLSA published at  *)
(*                    the fully expanded name).                            *)
(*             lookup "target": as "disc", but the round is a delivery     *)
(*                    attempt of the real remote target (MX lookup,        *)
(*                    attemptMX, STARTTLS to a scripted server) for an MX  *)
(*                    host with an internationalized name in A-label form; *)
(*                    mx_auth.dane is called by the target, the levels are *)
(*                    whatever the target computes.  The connection state  *)
(*                    CheckConn sees is then the one the target's own TLS  *)
(*                    client produced (first handshake with Web-PKI        *)
(*                    verification, the unauthenticated retry, the         *)
(*                    plaintext fallback), not one made up by the harness: *)
(*                    target rounds run over all five chains and the       *)
(*                    decisive record situations (alone and in pairs).     *)
(*             nt     (target rounds only) how "TLS was not negotiated"    *)
(*                    came about: "strip" (STARTTLS not offered), "break"  *)
(*                    (offered, the handshake fails, the target falls back *)
(*                    to plaintext); "-" with a handshake.  Not read by    *)
(*                    Prop / Rule.                                         *)
(*             sys    (per history) the certificate chains are ALSO valid  *)
(*                    under the platform's trust store (the CA is a        *)
(*                    Web-PKI root of the process).  Neither Prop nor Rule *)
(*                    reads it: Web-PKI validity never stands in for a     *)
(*                    TLSA match.                                           *)
(*   output  out = one [auth, refuse, temp] per round                      *)
(*             auth   the policy reports the connection as authenticated   *)
(*             refuse the policy returns an error (no delivery over this   *)
(*                    connection); temp: the error is marked temporary     *)
(*                                                                         *)
(* Prop is the property statement, predicate by predicate; Rule is the     *)
(* procedure of RFC 7672 sections 2.1.1, 2.2, 3.1.1, 3.1.2 written step by  *)
(* step, both for one round.  The property speaks about "the TLSA records  *)
(* published for an MX": in a history every observed round must satisfy    *)
(* the predicates with that MX's own records and chain (ViolH), and the    *)
(* rule for a history is the single-round rule applied round by round      *)
(* (RuleH) - nothing learnt for one MX may be used for another.  TLC       *)
(* checks ViolH(in, RuleH(in)) = {} for every input and prints the rows;   *)
(* DaneTrace.tla evaluates the same predicates on what the real code       *)
(* returned for every row.                                                 *)
(***************************************************************************)
EXTENDS Naturals, Sequences, FiniteSets, TLC, Json

CONSTANTS Salts,    \* rotation salts used to concretise record classes
          MaxRecs,  \* largest RRset enumerated by class
          Gen       \* TRUE: print one ROW line per input

VARIABLE in
vars == <<in>>

-----------------------------------------------------------------------------
(* Input space *)
UsageSeq == <<0, 1, 2, 3, 4, 255>>
SelSeq   == <<0, 1, 2, 255>>
MTypeSeq == <<0, 1, 2, 3, 255>>
MatchSeq == <<"leaf", "int", "root", "none">>
AfSeq    == <<"a", "aaaa", "both">>
Af(n)    == AfSeq[(n % 3) + 1]
NoDisc   == [a |-> "-", tlsa |-> "-", cname |-> "-", ctlsa |-> "-", cmatch |-> "-", af |-> "-"]
PlainDiscAf(a, t, af) == [a |-> a, tlsa |-> t, cname |-> "-", ctlsa |-> "-", cmatch |-> "-", af |-> af]
PlainDisc(a, t) == PlainDiscAf(a, t, "a")
(* a published RRset (lookup = "wire") belongs to a host with some address family *)
WDisc(lk, n) == IF lk = "wire" THEN [NoDisc EXCEPT !.af = Af(n)] ELSE NoDisc
KindSeq  == <<"EE", "TA", "UN">>
ChainSeq == <<"leaf", "leaf_int", "leaf_int_root", "expired", "wrongname">>

Range(f) == {f[i] : i \in DOMAIN f}
Matches == Range(MatchSeq)
Chains  == Range(ChainSeq)

(* usable = the record types an SMTP client must process (RFC 7672 3.1):  *)
(* DANE-TA(2) / DANE-EE(3), selector Cert(0)/SPKI(1), Full(0)/SHA2-256(1)/ *)
(* SHA2-512(2).  Everything else, PKIX-TA(0)/PKIX-EE(1) included, is       *)
(* unusable.                                                               *)
Usable(r) == r.u \in {2, 3} /\ r.s \in {0, 1} /\ r.m \in {0, 1, 2}
Kind(r)   == IF ~Usable(r) THEN "UN" ELSE IF r.u = 3 THEN "EE" ELSE "TA"

(* every raw (usage, selector, matching type) triple in a fixed order *)
AllRaw == [i \in 1..(6 * 4 * 5) |->
             [u |-> UsageSeq[((i - 1) % 6) + 1],
              s |-> SelSeq[(((i - 1) \div 6) % 4) + 1],
              m |-> MTypeSeq[((i - 1) \div 24) + 1]]]
RawEE == SelectSeq(AllRaw, LAMBDA r : Kind(r) = "EE")
RawTA == SelectSeq(AllRaw, LAMBDA r : Kind(r) = "TA")
RawUN == SelectSeq(AllRaw, LAMBDA r : Kind(r) = "UN")
RawOf(k) == CASE k = "EE" -> RawEE [] k = "TA" -> RawTA [] OTHER -> RawUN

(* the 12 classes of the model's own equivalence: kind x matched certificate *)
ClassSeq == [i \in 1..12 |-> [k |-> KindSeq[((i - 1) \div 4) + 1], match |-> MatchSeq[((i - 1) % 4) + 1]]]

(* multisets of <= MaxRecs classes as non-decreasing index sequences *)
MS == UNION {{s \in [1..n -> 1..12] : \A i \in 1..(n - 1) : s[i] <= s[i + 1]} : n \in 0..MaxRecs}

RECURSIVE SumW(_, _)
SumW(s, i) == IF i > Len(s) THEN 0 ELSE s[i] * (2 * i + 1) + SumW(s, i + 1)

Rotate(s, k) == IF Len(s) = 0 THEN s
                ELSE [i \in 1..Len(s) |-> s[((i - 1 + k) % Len(s)) + 1]]

(* concretise a class multiset: the raw triple of each record rotates through *)
(* all triples of its kind, the order of the RRset rotates too                *)
Concretise(ms, salt) ==
  LET h == salt + SumW(ms, 1)
      one(i) == LET c == ClassSeq[ms[i]]
                    raws == RawOf(c.k)
                    r == raws[((h + 7 * i) % Len(raws)) + 1]
                IN [u |-> r.u, s |-> r.s, m |-> r.m, match |-> c.match]
  IN Rotate([i \in 1..Len(ms) |-> one(i)], h)

ChainIdx(ch) == CHOOSE i \in 1..Len(ChainSeq) : ChainSeq[i] = ch

Rec(raw, mt) == [u |-> raw.u, s |-> raw.s, m |-> raw.m, match |-> mt]
MxSeq == <<"none", "mtasts", "dnssec">>
TlSeq == <<"none", "encrypted", "authenticated">>
(* lv in 0..8 picks the incoming (MX level, TLS level); without a handshake *)
(* the connection has no TLS level                                          *)
RcSeq  == <<"servfail", "refused", "notimp", "formerr">>
SrvSeq == <<"one", "failover">>
RECURSIVE RecW(_, _)
RecW(recs, i) == IF i > Len(recs) THEN 0 ELSE recs[i].u + 2 * recs[i].m + 3 * i + RecW(recs, i + 1)
(* spellings of the DNS side (rc, srv, hops): data the rule does not read, rotated *)
DiscX(d, lk, n) ==
  IF lk \notin {"disc", "target", "wire"} THEN d
  ELSE d @@ [rc |-> RcSeq[(n % 4) + 1], srv |-> SrvSeq[((n \div 4) % 2) + 1],
             hops |-> IF d.cname = "-" THEN 0 ELSE 1 + ((n \div 2) % 2)]
Row(ch, hs, lk, recs, disc, lv) ==
  [chain |-> ch, hs |-> hs, lookup |-> lk, recs |-> recs,
   disc |-> DiscX(disc, lk, lv + RecW(recs, 1) + (IF lk = "disc" THEN 0 ELSE ChainIdx(ch))),
   mxl |-> MxSeq[(lv % 3) + 1], tll |-> IF hs THEN TlSeq[((lv \div 3) % 3) + 1] ELSE "none"]
Wire == {"ok", "wire"}

H1(r, sys) == [mode |-> "seq", rounds |-> <<r>>, sys |-> sys]      \* a fresh delivery object asked about one MX

(* written as predicates on `in` so that TLC enumerates the rows one by one *)
InMulti ==
  \/ \E ms \in MS, ch \in Chains, salt \in Salts, lk \in Wire :
       in = H1(Row(ch, TRUE, lk, Concretise(ms, salt + 3 * ChainIdx(ch)), WDisc(lk, SumW(ms, 1) + salt + Len(ms)),
                   (SumW(ms, 1) + salt + ChainIdx(ch)) % 9), (SumW(ms, 1) + salt) % 2 = 0)
  \/ \E ms \in MS, salt \in Salts, lk \in Wire :
       in = H1(Row("leaf_int", FALSE, lk, Concretise(ms, salt), WDisc(lk, SumW(ms, 1) + salt + 1), (SumW(ms, 1) + salt) % 9), FALSE)

InSingle ==
  \/ \E i \in DOMAIN AllRaw, mt \in Matches, ch \in Chains, lk \in Wire, sys \in BOOLEAN :
       in = H1(Row(ch, TRUE, lk, <<Rec(AllRaw[i], mt)>>, WDisc(lk, i + ChainIdx(ch)), (i + ChainIdx(ch)) % 9), sys)
  \/ \E i \in DOMAIN AllRaw, mt \in Matches, lk \in Wire :
       in = H1(Row("leaf_int", FALSE, lk, <<Rec(AllRaw[i], mt)>>, WDisc(lk, i), i % 9), FALSE)

InLookup ==
  \E ch \in {"leaf_int_root", "wrongname"}, h \in BOOLEAN, lk \in {"notfound", "error"}, lv \in 0..8 :
    in = H1(Row(ch, h, lk, <<>>, NoDisc, lv), FALSE)

(* discovery sub-machine: address lookup (with its AD bit) and TLSA lookup *)
DiscA    == {"ad", "noad", "nxdomain", "servfail"}
DiscTLSA == {"recs_ad", "recs_noad", "nodata", "nxdomain", "servfail"}
InDisc ==
  \/ \E h \in BOOLEAN, mt \in {"leaf", "none"}, a \in DiscA, t \in DiscTLSA, lv \in 0..8 :
       in = H1(Row("leaf_int", h, "disc", <<[u |-> 3, s |-> 1, m |-> 1, match |-> mt]>>, PlainDisc(a, t), lv), FALSE)
  \* the same table for an IPv6-only and a dual-stack MX host
  \/ \E h \in BOOLEAN, mt \in {"leaf", "none"}, a \in DiscA, t \in DiscTLSA, af \in {"aaaa", "both"}, lv \in {2, 6} :
       in = H1(Row("leaf_int", h, "disc", <<[u |-> 3, s |-> 1, m |-> 1, match |-> mt]>>, PlainDiscAf(a, t, af), lv), FALSE)

EE(mt) == [u |-> 3, s |-> 1, m |-> 1, match |-> mt]
TA(mt) == [u |-> 2, s |-> 0, m |-> 1, match |-> mt]
(* every incoming (MX level, TLS level) against the decisive record situations *)
LevelRecs == {EE("leaf"), EE("none"), TA("int"), TA("root"), TA("none"),
              [u |-> 1, s |-> 0, m |-> 1, match |-> "leaf"], [u |-> 4, s |-> 0, m |-> 1, match |-> "leaf"]}
InLevels ==
  \/ \E lv \in 0..8, lk \in Wire, ch \in Chains, rec \in LevelRecs, sys \in BOOLEAN :
       in = H1(Row(ch, TRUE, lk, <<rec>>, WDisc(lk, lv + ChainIdx(ch)), lv), sys)
  \/ \E lv \in 0..8, lk \in Wire, r1 \in LevelRecs, r2 \in LevelRecs :
       in = H1(Row("leaf_int", TRUE, lk, <<r1, r2>>, WDisc(lk, lv), lv), (lv % 2) = 1)

(* the MX name is a CNAME (RFC 7672 2.2.2).  With only the initial zone signed *)
(* the canonical name has nothing secure to offer: no-data / NXDOMAIN there.   *)
CnameKinds == {"secure", "initial", "insecure"}
InCname ==
  \E h \in BOOLEAN, mt \in {"leaf", "none"}, cmt \in {"leaf", "none"}, ck \in CnameKinds,
     ct \in DiscTLSA, t \in DiscTLSA, lv \in {0, 7}, af \in {"a", "aaaa"} :
    /\ (ck = "initial" => ct \in {"nodata", "nxdomain"})
    /\ (af = "aaaa" => lv = 0 /\ cmt = mt)      \* the canonical name is an IPv6-only host
    /\ in = H1(Row("leaf_int", h, "disc", <<EE(mt)>>,
                   [a |-> "ad", tlsa |-> t, cname |-> ck, ctlsa |-> ct, cmatch |-> cmt, af |-> af], lv), FALSE)

(* delivery attempts of the real remote target to an MX with an IDN host name *)
TRow(ch, hs, nt, recs, disc) == Row(ch, hs, "target", recs, disc, 0) @@ [nt |-> IF hs THEN "-" ELSE nt]
PkixEE == [u |-> 1, s |-> 0, m |-> 1, match |-> "leaf"]
TargetRecs == {EE("leaf"), EE("none"), TA("int"), TA("none"), PkixEE}
InTarget ==
  \/ \E h \in BOOLEAN, rec \in TargetRecs,
        a \in {"ad", "servfail"}, t \in {"recs_ad", "nodata", "nxdomain", "servfail"} :
       in = H1(TRow("leaf_int", h, "strip", <<rec>>, PlainDisc(a, t)), FALSE)
  \* every chain the server may present, through the target's own TLS client (Web-PKI
  \* verification fails for a private CA: unauthenticated retry), IPv6-only / dual-stack MX
  \/ \E ch \in Chains, rec \in LevelRecs, af \in {"aaaa", "both"} :
       in = H1(TRow(ch, TRUE, "-", <<rec>>, PlainDiscAf("ad", "recs_ad", af)), FALSE)
  \/ \E ch \in {"leaf_int", "wrongname", "expired"}, r1 \in TargetRecs \ {EE("leaf")}, r2 \in TargetRecs \ {EE("leaf")} :
       in = H1(TRow(ch, TRUE, "-", <<r1, r2>>, PlainDiscAf("ad", "recs_ad", Af(ChainIdx(ch)))), FALSE)
  \* the chains are also Web-PKI valid (the first handshake succeeds for a valid leaf and the
  \* connection comes to mx_auth.dane as "authenticated"; only what DANE adds is observed, so
  \* the valid chains are paired with the records that cannot authenticate)
  \/ \E ch \in {"leaf_int", "leaf_int_root"}, rec \in {EE("none"), TA("none"), PkixEE} :
       in = H1(TRow(ch, TRUE, "-", <<rec>>, PlainDisc("ad", "recs_ad")), TRUE)
  \/ \E ch \in {"wrongname", "expired"}, rec \in LevelRecs :
       in = H1(TRow(ch, TRUE, "-", <<rec>>, PlainDisc("ad", "recs_ad")), TRUE)
  \* STARTTLS offered, handshake broken: the target falls back to plaintext
  \/ \E rec \in TargetRecs, t \in {"recs_ad", "nodata"}, af \in {"a", "aaaa"} :
       in = H1(TRow("leaf_int", FALSE, "break", <<rec>>, PlainDiscAf("ad", t, af)), FALSE)

(* histories: 2 or 3 MX candidates served by the same delivery object, each *)
(* one of these situations (its own records, chain, DNS answers)            *)
DRow(ch, hs, rec, a, t, lv) == Row(ch, hs, "disc", <<rec>>, PlainDisc(a, t), lv)
Scen == << DRow("leaf_int", TRUE, EE("leaf"), "ad", "recs_ad", 0),            \* authenticated (EE)
           DRow("leaf_int", TRUE, EE("none"), "ad", "recs_ad", 7),            \* usable, no match: refused
           DRow("leaf_int", TRUE, EE("leaf"), "ad", "nodata", 4),             \* no records
           DRow("leaf_int_root", TRUE, TA("root"), "ad", "recs_ad", 8),       \* authenticated (TA)
           DRow("wrongname", TRUE, TA("int"), "ad", "recs_ad", 7),            \* TA, wrong name: refused
           DRow("leaf_int", TRUE, EE("leaf"), "servfail", "recs_ad", 7),      \* lookup error
           DRow("leaf_int", FALSE, EE("leaf"), "ad", "recs_ad", 1),           \* records, no TLS: refused
           DRow("leaf_int", TRUE, EE("leaf"), "noad", "recs_ad", 5),          \* insecure zone
           DRow("leaf_int", TRUE, [u |-> 1, s |-> 0, m |-> 1, match |-> "leaf"], "ad", "recs_ad", 7) >> \* unusable only
(* the address family of each MX rotates with the history *)
HRound(sc, n, k) == [Scen[sc[k]] EXCEPT !.disc.af = Af(sc[1] + 2 * sc[n] + k)]
InHistory ==
  \/ \E n \in 2..3 : \E sc \in [1..n -> DOMAIN Scen] :
       in = [mode |-> "seq", rounds |-> [k \in 1..n |-> HRound(sc, n, k)], sys |-> FALSE]
  \/ \E sc \in [1..2 -> DOMAIN Scen] :
       in = [mode |-> "overlap", rounds |-> [k \in 1..2 |-> HRound(sc, 2, k)], sys |-> FALSE]

(* what a discovery amounts to (RFC 7672 2.1.1, 2.2): a failed lookup is an  *)
(* error, a secure denial or an insecure answer is "no records"              *)
IsDisc(i) == i.lookup \in {"disc", "target"}
Eff(i) ==
  IF i.lookup = "wire" THEN [i EXCEPT !.lookup = "ok"]     \* a signed RRset, delivered as published
  ELSE IF ~IsDisc(i) THEN i
  ELSE LET a == i.disc.a  t == i.disc.tlsa  ck == i.disc.cname  ct == i.disc.ctlsa
           (* answer under the original MX name *)
           orig == [i EXCEPT !.lookup = IF t = "servfail" THEN "error" ELSE "ok",
                             !.recs   = IF t = "recs_ad" THEN i.recs ELSE <<>>]
       IN IF ck = "-" THEN
            [i EXCEPT !.lookup = IF a = "servfail" \/ (a = "ad" /\ t = "servfail") THEN "error"
                                 ELSE IF a = "nxdomain" THEN "notfound" ELSE "ok",
                      !.recs   = IF a = "ad" /\ t = "recs_ad" THEN i.recs ELSE <<>>]
          ELSE IF ck = "insecure" THEN [i EXCEPT !.lookup = "ok", !.recs = <<>>]
          ELSE IF ck = "secure" /\ ct = "servfail" THEN [i EXCEPT !.lookup = "error", !.recs = <<>>]
          ELSE IF ck = "secure" /\ ct = "recs_ad"
               THEN [i EXCEPT !.lookup = "ok", !.recs = <<[u |-> 3, s |-> 1, m |-> 1, match |-> i.disc.cmatch]>>]
          ELSE orig          \* nothing secure at the canonical name: the original name decides
(* with an insecure address answer the statement leaves open whether TLSA is *)
(* queried at all, so only "no authentication" is demanded there             *)
Free(i) == IsDisc(i) /\ ((i.disc.cname = "-" /\ i.disc.a = "noad") \/ i.disc.cname = "insecure")

-----------------------------------------------------------------------------
(* What a chain presents; which certificates are CA certificates; when the *)
(* server certificate validly chains to one of them for the MX host name.  *)
Presented(ch) == CASE ch = "leaf"     -> {"leaf"}
                   [] ch = "leaf_int" -> {"leaf", "int"}
                   [] OTHER           -> {"leaf", "int", "root"}
IsCA(c) == c \in {"int", "root"}
LeafValid(ch) == ch \notin {"expired", "wrongname"}   \* validity period and name
(* leaf is issued by int, int by root *)
ChainsTo(ch, c) ==
  /\ c \in Presented(ch) /\ IsCA(c) /\ LeafValid(ch)
  /\ (c = "root" => "int" \in Presented(ch))

RecSet(i) == Range(i.recs)
UsableRecs(i) == {r \in RecSet(i) : Usable(r)}

EEMatch(i) == \E r \in UsableRecs(i) : r.u = 3 /\ r.match = "leaf"
TAMatch(i) == \E r \in UsableRecs(i) : r.u = 2 /\ ChainsTo(i.chain, r.match)
(* the condition of the first sentence of the statement *)
AuthCond(i) == i.lookup = "ok" /\ i.hs /\ (EEMatch(i) \/ TAMatch(i))

-----------------------------------------------------------------------------
(* The property, one named predicate per clause of the statement. *)
P_AuthOnlyIfMatch(i, o)    == o.auth => AuthCond(i)
P_RefuseWithoutTLS(i, o)   == (i.lookup = "ok" /\ i.recs # <<>> /\ ~i.hs) => o.refuse
P_RefuseNoMatch(i, o)      == (i.lookup = "ok" /\ UsableRecs(i) # {} /\ ~AuthCond(i)) => o.refuse
P_UnusableNeverAuth(i, o)  == (i.lookup # "error" /\ UsableRecs(i) = {}) => ~o.auth
P_UnusableNeverRefuse(i, o) == (i.lookup # "error" /\ UsableRecs(i) = {} /\ i.hs) => ~o.refuse
P_LookupFailClosed(i, o)   == i.lookup = "error" => (o.refuse /\ ~o.auth)
P_NotBoth(i, o)            == ~(o.auth /\ o.refuse)

Viol(i0, o) ==
  LET i == Eff(i0) IN
  {n \in {"AuthOnlyIfMatch", "RefuseWithoutTLS", "RefuseNoMatch", "UnusableNeverAuth",
          "UnusableNeverRefuse", "LookupFailClosed", "NotBoth"} :
     ~ CASE n = "AuthOnlyIfMatch"     -> P_AuthOnlyIfMatch(i, o)
         [] n = "RefuseWithoutTLS"    -> P_RefuseWithoutTLS(i, o)
         [] n = "RefuseNoMatch"       -> P_RefuseNoMatch(i, o)
         [] n = "UnusableNeverAuth"   -> P_UnusableNeverAuth(i, o)
         [] n = "UnusableNeverRefuse" -> (Free(i0) \/ P_UnusableNeverRefuse(i, o))
         [] n = "LookupFailClosed"    -> P_LookupFailClosed(i, o)
         [] n = "NotBoth"             -> P_NotBoth(i, o)}
Prop(i, o) == Viol(i, o) = {}

-----------------------------------------------------------------------------
(* The documented procedure, step by step (RFC 7672; the comments of       *)
(* verifyDANE / CheckConn).                                                *)
Out(a, r, t) == [auth |-> a, refuse |-> r, temp |-> t]
Neither   == Out(FALSE, FALSE, FALSE)
Refuse    == Out(FALSE, TRUE, FALSE)
TempFail  == Out(FALSE, TRUE, TRUE)
Authentic == Out(TRUE, FALSE, FALSE)

Rule(i0) ==
  LET i == Eff(i0) IN
  IF i.lookup = "error" THEN TempFail                 \* 2.1.1: lookup failure -> delay delivery
  ELSE IF i.lookup = "notfound" \/ i.recs = <<>> THEN Neither   \* secure denial of existence
  ELSE IF ~i.hs THEN Refuse                            \* 2.2: any TLSA RRset makes TLS mandatory
  ELSE
    LET ee == SelectSeq(i.recs, LAMBDA r : Usable(r) /\ r.u = 3)
        ta == SelectSeq(i.recs, LAMBDA r : Usable(r) /\ r.u = 2)
    IN IF ee = <<>> /\ ta = <<>> THEN Neither          \* 2.1.1: all unusable -> unauthenticated TLS
       ELSE IF \E k \in 1..Len(ee) : ee[k].match = "leaf" THEN Authentic   \* 3.1.1: no name/expiry checks
       ELSE IF ta = <<>> THEN Refuse
       ELSE
         LET roots  == {c \in Presented(i.chain) : IsCA(c) /\ \E k \in 1..Len(ta) : ta[k].match = c}
             interm == Presented(i.chain) \ roots
             (* X.509 path from the leaf (issued by int, issued by root) *)
             path   == \/ "int" \in roots
                       \/ ("int" \in interm /\ "root" \in roots)
         IN IF LeafValid(i.chain) /\ path THEN Authentic ELSE Refuse   \* 3.1.2: name and validity checked

-----------------------------------------------------------------------------
(* histories: the single-round rule round by round; the predicates on every *)
(* round that has a CheckConn                                                *)
RuleH(h) == [k \in DOMAIN h.rounds |-> Rule(h.rounds[k])]
Observed(h) == IF h.mode = "overlap" THEN {Len(h.rounds)} ELSE DOMAIN h.rounds
ViolH(h, o) == UNION {Viol(h.rounds[k], o[k]) : k \in Observed(h)}
PropH(h, o) == ViolH(h, o) = {}

Init == InMulti \/ InSingle \/ InLookup \/ InDisc \/ InCname \/ InLevels \/ InTarget \/ InHistory
Next == FALSE /\ UNCHANGED in      \* one state per input (run with CHECK_DEADLOCK FALSE)
Spec == Init /\ [][Next]_vars

RuleSatisfiesProp == PropH(in, RuleH(in))
(* the rule authenticates exactly under the stated condition, and refuses  *)
(* exactly in the two stated cases (plus lookup errors)                     *)
RuleExact ==
  \A k \in DOMAIN in.rounds :
    LET o == Rule(in.rounds[k])  i == Eff(in.rounds[k]) IN
      /\ o.auth <=> AuthCond(i)
      /\ o.refuse <=> \/ i.lookup = "error"
                      \/ (i.lookup = "ok" /\ i.recs # <<>> /\ ~i.hs)
                      \/ (i.lookup = "ok" /\ UsableRecs(i) # {} /\ ~AuthCond(i))
TypeOK == /\ in.mode \in {"seq", "overlap"} /\ Len(in.rounds) \in 1..3 /\ in.sys \in BOOLEAN
          /\ \A k \in DOMAIN in.rounds :
               LET r == in.rounds[k] IN
                 /\ r.chain \in Chains /\ r.hs \in BOOLEAN /\ r.lookup \in {"ok", "wire", "notfound", "error", "disc", "target"}
                 /\ r.mxl \in Range(MxSeq) /\ r.tll \in Range(TlSeq) /\ (~r.hs => r.tll = "none")
                 /\ Len(r.recs) <= MaxRecs
                 /\ \A x \in RecSet(r) : x.match \in Matches
                 /\ (Len(in.rounds) > 1 => r.lookup = "disc")   \* several MXs: always the real PrepareConn
                 /\ r.disc.af \in (IF r.lookup \in {"disc", "target", "wire"} THEN Range(AfSeq) ELSE {"-"})
                 /\ (r.lookup \in {"disc", "target", "wire"} =>
                       r.disc.rc \in Range(RcSeq) /\ r.disc.srv \in Range(SrvSeq) /\ r.disc.hops \in 0..2)
                 /\ (r.lookup = "target" => r.nt \in (IF r.hs THEN {"-"} ELSE {"strip", "break"}))

Emit == Gen => PrintT(<<"ROW", ToJson([in |-> in, exp |-> RuleH(in),
                                       cls |-> [k \in DOMAIN in.rounds |->
                                                  [j \in DOMAIN in.rounds[k].recs |-> Kind(in.rounds[k].recs[j])]]])>>)
=============================================================================
