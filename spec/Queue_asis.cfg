SPECIFICATION Spec
CONSTANTS
  Rcpts = {"r1", "r2"}
  MaxTriesSet = {2}
  MaxList = 2
  Devs = {"DupRcpt"}
  RwSets = {{}}
  Utf8Set = {FALSE}
  BounceStages = {"ok"}
  Gen = FALSE
VIEW View
INVARIANTS NoViolation
