SPECIFICATION Spec
CONSTANTS
  Rcpts = {"r1", "r2"}
  MaxTriesSet = {2}
  MaxList = 2
  Devs = {"DupRcpt"}
  Gen = FALSE
VIEW View
INVARIANTS NoViolation
